(* Helpers shared by the generated correspondence case files. *)
From Coq Require Import List NArith ZArith QArith Bool.
Import ListNotations.

Fixpoint bad_indices_from {A : Type} (f : A -> bool) (l : list A) (i : N) : list N :=
  match l with
  | [] => []
  | x :: r => if f x then bad_indices_from f r (N.succ i) else i :: bad_indices_from f r (N.succ i)
  end.

Definition bad_indices {A : Type} (f : A -> bool) (l : list A) : list N := bad_indices_from f l 0%N.

Fixpoint list_eqb {A : Type} (eqb : A -> A -> bool) (l1 l2 : list A) : bool :=
  match l1, l2 with
  | [], [] => true
  | x :: r1, y :: r2 => eqb x y && list_eqb eqb r1 r2
  | _, _ => false
  end.

Definition zpair_eqb (a b : Z * Z) : bool := Z.eqb (fst a) (fst b) && Z.eqb (snd a) (snd b).
Definition qpair_eqb (a b : Q * Q) : bool := Qeq_bool (fst a) (fst b) && Qeq_bool (snd a) (snd b).
Definition zlist_eqb := list_eqb Z.eqb.
Definition qlist_eqb := list_eqb Qeq_bool.
Definition option_eqb {A : Type} (eqb : A -> A -> bool) (a b : option A) : bool :=
  match a, b with
  | Some x, Some y => eqb x y
  | None, None => true
  | _, _ => false
  end.

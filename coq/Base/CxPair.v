(* C10 (wave 6) -- a tiny complex-arithmetic layer over pairs of reals, on top of Coquelicot's C = R * R (Cplus, Cminus, Cmult,
   Cdiv, Copp, RtoC, Ci).  Used by the py2coq plug-in harness/py2coq_c10cx.py: Python complex code is translated over C.
     Cpow_nat z n : z ** n for a literal natural n (CPython: repeated multiplication);
     atan2 y x    : the angle of (x, y) in (-pi, pi] (numpy.arctan2 / cmath.phase);
     Cln_code z   : numpy.log of a complex number, principal branch: (ln |z|, atan2 (Im z) (Re z));
     Cexp_code z  : numpy.exp of a complex number. *)
From Coq Require Import Reals Bool.
From Coquelicot Require Import Coquelicot.
From RV Require Import Base.RB.
Open Scope R_scope.

Definition Cre (z : C) : R := fst z.
Definition Cim (z : C) : R := snd z.

Fixpoint Cpow_nat (z : C) (n : nat) : C :=
  match n with O => RtoC 1 | S k => Cmult z (Cpow_nat z k) end.

Definition atan2 (y x : R) : R :=
  if Rltb 0 x then atan (y / x)
  else if Rltb x 0 then (if Rleb 0 y then atan (y / x) + PI else atan (y / x) - PI)
  else if Rltb 0 y then PI / 2 else if Rltb y 0 then - (PI / 2) else 0.

Definition Cln_code (z : C) : C := (ln (Cmod z), atan2 (snd z) (fst z)).
Definition Cexp_code (z : C) : C := (exp (fst z) * cos (snd z), exp (fst z) * sin (snd z)).

Lemma Cpow_nat_2 z : Cpow_nat z 2 = Cmult z z.
Proof. simpl. unfold Cmult, RtoC; destruct z as [a b]; simpl. f_equal; ring. Qed.
Lemma atan2_pos y x : 0 < x -> atan2 y x = atan (y / x).
Proof. intros H. unfold atan2. replace (Rltb 0 x) with true by (symmetry; apply Rltb_true; assumption). reflexivity. Qed.

(* Extended numbers (a number or +-infinity, as the copula code feeds np.inf to its functions),
   optional index lists (Python: `indices: list[int] = None`) and a small record of field
   operations so that a model is written once and instantiated over Q (to run it with vm_compute)
   and over R (to prove and compose).  Used by C11 / C12 / C19. *)
From Coq Require Import List Arith Bool ZArith QArith Qminmax Qabs Reals.
From RV Require Import Base.QB Base.RB.
Import ListNotations.

Inductive ext (A : Type) : Type := NInf | Fin (x : A) | PInf.
Arguments NInf {A}.
Arguments Fin {A} x.
Arguments PInf {A}.

Definition idx := option (list nat).
Definition is_some (i : idx) : bool := match i with Some _ => true | None => false end.
Definition is_none (i : idx) : bool := match i with Some _ => false | None => true end.
Definition olen (i : idx) : nat := match i with Some l => length l | None => 0 end.
Definition inth (k : nat) (i : idx) : nat := match i with Some l => nth k l 0%nat | None => 0%nat end.

Record Num : Type := mkNum {
  T :> Type;
  n0 : T; n1 : T;
  nadd : T -> T -> T; nsub : T -> T -> T; nmul : T -> T -> T; nopp : T -> T;
  nleb : T -> T -> bool; nltb : T -> T -> bool }.

Definition QNum : Num := mkNum Q 0%Q 1%Q Qplus Qminus Qmult Qopp Qle_bool Qltb.
Definition RNum : Num := mkNum R 0%R 1%R Rplus Rminus Rmult Ropp Rleb Rltb.

Section Ext.
  Variable N : Num.
  (* x < 0, 0 < x, 0 <= x on extended numbers *)
  Definition xlt0 (x : ext N) : bool := match x with NInf => true | Fin v => nltb N v (n0 N) | PInf => false end.
  Definition xgt0 (x : ext N) : bool := match x with NInf => false | Fin v => nltb N (n0 N) v | PInf => true end.
  Definition xge0 (x : ext N) : bool := match x with NInf => false | Fin v => nleb N (n0 N) v | PInf => true end.
  Definition xleb (x y : ext N) : bool :=
    match x, y with
    | NInf, _ => true | _, PInf => true
    | Fin a, Fin b => nleb N a b
    | _, _ => false
    end.
  Definition nmin (a b : N) : N := if nleb N a b then a else b.
  Definition nmax (a b : N) : N := if nleb N a b then b else a.
End Ext.
Arguments xlt0 {N} x.
Arguments xgt0 {N} x.
Arguments xge0 {N} x.
Arguments xleb {N} x y.

(* lemmas to read the R instance *)
Lemma xlt0_R_fin (v : R) : @xlt0 RNum (Fin v) = true <-> (v < 0)%R.
Proof. simpl. apply Rltb_true. Qed.
Lemma xge0_R_fin (v : R) : @xge0 RNum (Fin v) = true <-> (0 <= v)%R.
Proof. simpl. apply Rleb_true. Qed.
Lemma xgt0_R_fin (v : R) : @xgt0 RNum (Fin v) = true <-> (0 < v)%R.
Proof. simpl. apply Rltb_true. Qed.

(* numpy array primitives used by py2coq-generated Q models (C16 discount factors):
   np.searchsorted (side='left') on a sorted 1-d array, integer subscripts, np.prod of a comprehension. *)
From Coq Require Import ZArith QArith Bool List Lia.
From RV Require Import Base.QB.
Import ListNotations.
Open Scope Q_scope.

(* number of leading entries < t; on a sorted array this is np.searchsorted(l, t) *)
Fixpoint searchsorted_nat (l : list Q) (t : Q) : nat :=
  match l with
  | [] => O
  | x :: r => if Qltb x t then S (searchsorted_nat r t) else O
  end.
Definition searchsorted (l : list Q) (t : Q) : Z := Z.of_nat (searchsorted_nat l t).

(* l[i] with Python's negative indices; out of range (IndexError in Python) gives 0 *)
Definition qnth (l : list Q) (i : Z) : Q :=
  if (i <? 0)%Z then nth (Z.to_nat (Z.of_nat (length l) + i)) l 0 else nth (Z.to_nat i) l 0.

(* np.prod([f k for k in range(n)]) : ((1 * f 0) * f 1) * ... ; empty product = 1 *)
Fixpoint qprod_nat (f : Z -> Q) (n : nat) : Q :=
  match n with O => 1 | S k => qprod_nat f k * f (Z.of_nat k) end.
Definition qprod_range (f : Z -> Q) (n : Z) : Q := qprod_nat f (Z.to_nat n).

Lemma qnth_nat l (k : nat) : qnth l (Z.of_nat k) = nth k l 0.
Proof. unfold qnth. destruct (Z.ltb_spec (Z.of_nat k) 0); [lia|]. rewrite Nat2Z.id. reflexivity. Qed.

Lemma qprod_range_S f (n : nat) : qprod_range f (Z.of_nat (S n)) = qprod_range f (Z.of_nat n) * f (Z.of_nat n).
Proof. unfold qprod_range. rewrite !Nat2Z.id. reflexivity. Qed.

(* Boolean comparisons and min/max on Q used by generated (py2coq) and hand models. *)
From Coq Require Import ZArith QArith Qminmax Qabs Bool Lia.
Open Scope Q_scope.

Definition Qltb (x y : Q) : bool := negb (Qle_bool y x).
Definition Qmaxb (x y : Q) : Q := if Qle_bool x y then y else x.
Definition Qminb (x y : Q) : Q := if Qle_bool x y then x else y.

Lemma Qltb_lt x y : Qltb x y = true <-> x < y.
Proof.
  unfold Qltb. rewrite negb_true_iff. split; intro H.
  - apply Qnot_le_lt. intro Hc. apply Qle_bool_iff in Hc. congruence.
  - destruct (Qle_bool y x) eqn:E; [|reflexivity].
    apply Qle_bool_iff in E. exfalso. apply (Qlt_not_le _ _ H E).
Qed.

Lemma Qltb_false x y : Qltb x y = false <-> y <= x.
Proof.
  unfold Qltb. rewrite negb_false_iff. apply Qle_bool_iff.
Qed.

Lemma Qle_bool_false x y : Qle_bool x y = false <-> y < x.
Proof.
  split; intro H.
  - apply Qnot_le_lt. intro Hc. apply Qle_bool_iff in Hc. congruence.
  - destruct (Qle_bool x y) eqn:E; [|reflexivity].
    apply Qle_bool_iff in E. exfalso. apply (Qlt_not_le _ _ H E).
Qed.

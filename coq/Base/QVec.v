(* Vectors / matrices of rationals as lists, with total (padding / truncating) operations whose
   components obey simple `nth` equations.  Used by the models of C15/C16 (numpy arrays of consistent
   shapes; shape errors of numpy are outside the models). *)
From Coq Require Import ZArith QArith Qminmax Qabs Bool List Lqa Lia.
Import ListNotations.
Open Scope Q_scope.

Notation qn k v := (nth k v 0) (only parsing).

(* equality of vectors up to == and trailing zeros *)
Definition veq (u v : list Q) : Prop := forall k, qn k u == qn k v.

Lemma veq_refl u : veq u u. Proof. intro k; reflexivity. Qed.
Lemma veq_sym u v : veq u v -> veq v u. Proof. intros H k; symmetry; apply H. Qed.
Lemma veq_trans u v w : veq u v -> veq v w -> veq u w.
Proof. intros H1 H2 k; rewrite (H1 k); apply H2. Qed.

(* Results are kept in lowest terms (Qred) so that the models stay cheap to run by vm_compute;
   Qred q == q, so every statement below is about the plain operations. *)
(* u + v, the longer operand is kept (numpy adds arrays of equal shape) *)
Fixpoint vadd (u v : list Q) : list Q :=
  match u, v with
  | [], _ => v
  | _, [] => u
  | x :: r, y :: s => Qred (x + y) :: vadd r s
  end.

Definition vscale (c : Q) (v : list Q) : list Q := map (fun x => Qred (c * x)) v.
Definition vzero (m : nat) : list Q := repeat 0 m.

Fixpoint dot (r v : list Q) : Q :=
  match r, v with
  | x :: r', y :: v' => Qred (x * y + dot r' v')
  | _, _ => 0
  end.

(* A @ v for a matrix given by its rows *)
Definition matvec (A : list (list Q)) (v : list Q) : list Q := map (fun row => dot row v) A.

Lemma qn_nil k : qn k [] = 0.
Proof. destruct k; reflexivity. Qed.

Lemma qn_vadd : forall u v k, qn k (vadd u v) == qn k u + qn k v.
Proof.
  induction u as [|x r IH]; intros v k.
  - cbn [vadd]. rewrite qn_nil. ring.
  - destruct v as [|y s]; [cbn [vadd]; rewrite qn_nil; ring|].
    destruct k; [cbn [vadd nth]; apply Qred_correct|]. cbn [vadd nth]. apply IH.
Qed.

Lemma qn_vscale c : forall v k, qn k (vscale c v) == c * qn k v.
Proof.
  induction v as [|x r IH]; intro k; [cbn [vscale map]; rewrite qn_nil; ring|].
  destruct k; [cbn [vscale map nth]; apply Qred_correct | cbn [vscale map nth]; apply IH].
Qed.

Lemma qn_vzero m k : qn k (vzero m) = 0.
Proof. unfold vzero. revert k. induction m; destruct k; simpl; auto. Qed.

Lemma length_vadd : forall u v, length (vadd u v) = Nat.max (length u) (length v).
Proof.
  induction u as [|x r IH]; intro v; [reflexivity|].
  destruct v as [|y s]; [reflexivity|]. simpl. rewrite IH. reflexivity.
Qed.

Lemma length_matvec A v : length (matvec A v) = length A.
Proof. apply map_length. Qed.

Lemma qn_matvec : forall A v k, qn k (matvec A v) == dot (nth k A []) v.
Proof.
  induction A as [|row A IH]; intros v k.
  - cbn [matvec map]. rewrite qn_nil. destruct k; reflexivity.
  - destruct k; [reflexivity | simpl; apply IH].
Qed.

Lemma dot_nil_r r : dot r [] = 0.
Proof. destruct r; reflexivity. Qed.

Lemma dot_cons x r y v : dot (x :: r) (y :: v) == x * y + dot r v.
Proof. cbn [dot]. apply Qred_correct. Qed.

Lemma dot_veq : forall r u v, veq u v -> dot r u == dot r v.
Proof.
  induction r as [|x r IH]; intros u v H; [reflexivity|].
  destruct u as [|a u], v as [|b v].
  - reflexivity.
  - pose proof (H 0%nat) as H0. cbn [nth] in H0. rewrite dot_cons, <- H0.
    rewrite <- (IH [] v); [rewrite !dot_nil_r; ring|].
    intro k. specialize (H (S k)). cbn [nth] in H. rewrite <- H. destruct k; reflexivity.
  - pose proof (H 0%nat) as H0. cbn [nth] in H0. rewrite dot_cons, H0.
    rewrite (IH u []); [rewrite !dot_nil_r; ring|].
    intro k. specialize (H (S k)). cbn [nth] in H. rewrite H. destruct k; reflexivity.
  - pose proof (H 0%nat) as H0. cbn [nth] in H0. rewrite !dot_cons, H0.
    rewrite (IH u v); [reflexivity|]. intro k. apply (H (S k)).
Qed.

Lemma dot_vadd : forall r u v, dot r (vadd u v) == dot r u + dot r v.
Proof.
  induction r as [|x r IH]; intros u v; [cbn [dot]; ring|].
  destruct u as [|a u]; [cbn [vadd]; rewrite dot_nil_r; ring|].
  destruct v as [|b v]; [cbn [vadd]; rewrite dot_nil_r; ring|].
  cbn [vadd]. rewrite !dot_cons, IH, Qred_correct. ring.
Qed.

Lemma dot_vscale c : forall r v, dot r (vscale c v) == c * dot r v.
Proof.
  induction r as [|x r IH]; intro v; [cbn [dot]; ring|].
  destruct v as [|b v]; [cbn [vscale map]; rewrite dot_nil_r; ring|].
  cbn [vscale map]. rewrite !dot_cons. fold (vscale c v). rewrite IH, Qred_correct. ring.
Qed.

Lemma matvec_vadd A u v : veq (matvec A (vadd u v)) (vadd (matvec A u) (matvec A v)).
Proof. intro k. rewrite qn_vadd, !qn_matvec. apply dot_vadd. Qed.

Lemma matvec_vscale A c v : veq (matvec A (vscale c v)) (vscale c (matvec A v)).
Proof. intro k. rewrite qn_vscale, !qn_matvec. apply dot_vscale. Qed.

Lemma matvec_veq A u v : veq u v -> veq (matvec A u) (matvec A v).
Proof. intros H k. rewrite !qn_matvec. apply dot_veq; assumption. Qed.

Lemma vadd_veq u u' v v' : veq u u' -> veq v v' -> veq (vadd u v) (vadd u' v').
Proof. intros H1 H2 k. rewrite !qn_vadd, (H1 k), (H2 k). reflexivity. Qed.

Lemma vscale_veq c u u' : veq u u' -> veq (vscale c u) (vscale c u').
Proof. intros H k. rewrite !qn_vscale, (H k). reflexivity. Qed.

(* row k of diag(x) (x * np.eye(m)): x_k at position k, zeros elsewhere *)
Definition diag_row (m k : nat) (xk : Q) : list Q := map (fun j => if Nat.eqb j k then xk else 0) (seq 0 m).
Definition diag (x : list Q) : list (list Q) :=
  map (fun k => diag_row (length x) k (qn k x)) (seq 0 (length x)).

Lemma dot_zeros (f : nat -> Q) : forall l v, (forall j, In j l -> f j == 0) -> dot (map f l) v == 0.
Proof.
  induction l as [|a l IH]; intros v H; [reflexivity|].
  destruct v as [|y v]; [reflexivity|]. cbn [map]. rewrite dot_cons.
  rewrite (H a (or_introl eq_refl)), IH; [ring|]. intros; apply H; right; assumption.
Qed.

Lemma dot_indicator xk k : forall m s v, (s <= k < s + m)%nat ->
  dot (map (fun j => if Nat.eqb j k then xk else 0) (seq s m)) v == xk * qn (k - s) v.
Proof.
  induction m as [|m IH]; intros s v H; [lia|].
  cbn [seq map]. destruct v as [|y v].
  - rewrite dot_nil_r, qn_nil. ring.
  - rewrite dot_cons. destruct (Nat.eqb s k) eqn:E.
    + apply Nat.eqb_eq in E. subst. replace (k - k)%nat with 0%nat by lia. cbn [nth].
      rewrite dot_zeros; [ring|]. intros j Hj. apply in_seq in Hj.
      destruct (Nat.eqb j k) eqn:E'; [apply Nat.eqb_eq in E'; lia | reflexivity].
    + apply Nat.eqb_neq in E. rewrite IH by lia. replace (k - s)%nat with (S (k - S s)) by lia.
      cbn [nth]. ring.
Qed.

Lemma nth_map_seq {A} (f : nat -> A) d : forall m s k, (k < m)%nat -> nth k (map f (seq s m)) d = f (s + k)%nat.
Proof.
  induction m as [|m IH]; intros s k H; [lia|].
  destruct k; simpl; [f_equal; lia|]. rewrite IH by lia. f_equal. lia.
Qed.

(* diag(x) @ v = x * v componentwise *)
Lemma qn_matvec_diag x v k : qn k (matvec (diag x) v) == qn k x * qn k v.
Proof.
  rewrite qn_matvec. unfold diag.
  destruct (Nat.lt_ge_cases k (length x)) as [H|H].
  - rewrite (nth_map_seq _ []) by assumption. simpl. unfold diag_row.
    rewrite dot_indicator by lia. rewrite Nat.sub_0_r. reflexivity.
  - rewrite nth_overflow by (rewrite map_length, seq_length; assumption).
    rewrite (nth_overflow x) by assumption. simpl. ring.
Qed.

Lemma length_diag x : length (diag x) = length x.
Proof. unfold diag. rewrite map_length, seq_length. reflexivity. Qed.

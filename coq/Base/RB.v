(* Boolean comparisons on R (via the standard decidability of order) for generated models. *)
From Coq Require Import Reals Bool.
Open Scope R_scope.

Definition Rltb (x y : R) : bool := if Rlt_dec x y then true else false.
Definition Rleb (x y : R) : bool := if Rle_dec x y then true else false.
Definition Reqb (x y : R) : bool := if Req_EM_T x y then true else false.

Lemma Rltb_true x y : Rltb x y = true <-> x < y.
Proof. unfold Rltb; destruct (Rlt_dec x y); split; intros; auto; discriminate. Qed.
Lemma Rltb_false x y : Rltb x y = false <-> y <= x.
Proof. unfold Rltb; destruct (Rlt_dec x y); split; intros; auto; try discriminate.
  - exfalso; apply (Rlt_not_le _ _ r); assumption.
  - apply Rnot_lt_le; assumption. Qed.
Lemma Rleb_true x y : Rleb x y = true <-> x <= y.
Proof. unfold Rleb; destruct (Rle_dec x y); split; intros; auto; discriminate. Qed.
Lemma Rleb_false x y : Rleb x y = false <-> y < x.
Proof. unfold Rleb; destruct (Rle_dec x y); split; intros; auto; try discriminate.
  - exfalso; apply (Rlt_not_le _ _ H); assumption.
  - apply Rnot_le_lt; assumption. Qed.
Lemma Reqb_true x y : Reqb x y = true <-> x = y.
Proof. unfold Reqb; destruct (Req_EM_T x y); split; intros; auto; discriminate. Qed.

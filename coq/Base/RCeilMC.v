(* Ceiling of a real number as a real (np.ceil), used by the generated model of compute_mc_paths_giles (C06). *)
From Coq Require Import Reals ZArith Lra.
From Flocq Require Import Raux.
Open Scope R_scope.

Definition Rceil (x : R) : R := IZR (Zceil x).

Lemma Rceil_ub x : x <= Rceil x.
Proof. apply Zceil_ub. Qed.
Lemma Rceil_lt x : Rceil x < x + 1.
Proof. unfold Rceil, Zceil. rewrite opp_IZR. pose proof (Zfloor_ub (- x)). lra. Qed.
Lemma Rceil_IZR n : Rceil (IZR n) = IZR n.
Proof. unfold Rceil. now rewrite Zceil_IZR. Qed.
Lemma Rceil_nonneg x : 0 <= x -> 0 <= Rceil x.
Proof. intros H. pose proof (Rceil_ub x). lra. Qed.

(* Special functions used by the generated real-valued models, defined by what they mean (C09, C10).
   scipy.special.erf x          = 2/sqrt(pi) * int_0^x exp(-t^2) dt
   scipy.special.exp1           : only differences E1(x) - E1(y) = int_x^y exp(-t)/t dt enter on finite intervals; E1c c0 is
                                  "an exponential integral up to the constant c0 = E1(1)"
   gamma(s) * gammaincc(s, x)   : upper incomplete gamma, likewise up to the constant g0 = Gamma(s, 1). *)
From Coq Require Import Reals.
From Coquelicot Require Import Coquelicot.
Open Scope R_scope.

Definition erf (x : R) : R := 2 / sqrt PI * RInt (fun t => exp (- t ^ 2)) 0 x.
Definition E1c (c0 x : R) : R := c0 - RInt (fun t => exp (- t) / t) 1 x.
Definition Gupc (g0 s x : R) : R := g0 - RInt (fun t => Rpower t (s - 1) * exp (- t)) 1 x.

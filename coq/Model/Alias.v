(* C02 -- model of rpylib/distribution/variate/alias.py: create_alias (Walker/Vose construction with
   the two deques) and AliasMethod._draw_with_u.
   The deques `smaller` and `greater` are lists whose HEAD is the RIGHT end of the deque
   (append = cons, pop = take the head), i.e. each list is the deque read from right to left. *)
From Coq Require Import List Arith ZArith QArith Qround Bool.
From RV Require Import Base.QB Model.Bst.
Import ListNotations.
Open Scope Q_scope.

Record astate := { a_q : list Q; a_j : list nat; a_small : list nat; a_great : list nat }.

(* for l in range(dim): smaller.append(l) if q[l] < 1.0 else greater.append(l) *)
Fixpoint alias_split (q : list Q) (l : nat) (small great : list nat) : list nat * list nat :=
  match q with
  | [] => (small, great)
  | ql :: r => if Qltb ql 1 then alias_split r (S l) (l :: small) great
               else alias_split r (S l) small (l :: great)
  end.

(* while smaller and greater: ... (one iteration; None when the loop condition is false) *)
Definition alias_step (s : astate) : option astate :=
  match a_great s, a_small s with
  | great :: gr, small :: sr =>
      let j' := upd (a_j s) small great in
      let qg := (nth great (a_q s) 0 + nth small (a_q s) 0) - 1 in
      let q' := upd (a_q s) great qg in
      if Qltb qg 1 then Some {| a_q := q'; a_j := j'; a_small := great :: sr; a_great := gr |}
      else Some {| a_q := q'; a_j := j'; a_small := sr; a_great := great :: gr |}
  | _, _ => None
  end.

Fixpoint alias_loop (fuel : nat) (s : astate) : astate :=
  match fuel with
  | O => s
  | S f => match alias_step s with Some s' => alias_loop f s' | None => s end
  end.

(* the two clean-up loops: q[x] = 1.0 for everything still on a deque *)
Definition set_ones (q : list Q) (xs : list nat) : list Q := fold_left (fun acc x => upd acc x 1) xs q.

Definition alias_init (p : list Q) : astate :=
  let dim := length p in
  let q := map (fun x => x * inject_Z (Z.of_nat dim)) p in
  let sg := alias_split q 0 [] [] in
  {| a_q := q; a_j := repeat O dim; a_small := fst sg; a_great := snd sg |}.

(* every iteration removes one column for good (the popped `small`), so dim iterations suffice;
   fuel dim + 1 so that the loop provably ends by its own condition *)
Definition alias_main (p : list Q) : astate := alias_loop (S (length p)) (alias_init p).

Definition create_alias (p : list Q) : list nat * list Q :=
  let s := alias_main p in
  (a_j s, set_ones (set_ones (a_q s) (a_great s)) (a_small s)).

(* _draw_with_u: ku = K u; x = uint(ku); v = ku - x; x if v < q[x] else J[x] *)
Definition alias_draw (K : nat) (q : list Q) (J : list nat) (u : Q) : nat :=
  let ku := inject_Z (Z.of_nat K) * u in
  let x := Z.to_nat (Qfloor ku) in
  let v := ku - inject_Z (Z.of_nat x) in
  if Qltb v (nth x q 0) then x else nth x J O.

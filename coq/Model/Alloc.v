(* Model of rpylib/montecarlo/multilevel/criteria.py  compute_mc_paths_giles over the reals (lists for numpy
   arrays).  The scalar core `giles_alloc_core` (theta, the 1e30 replacement of a zero cost, the formula and
   its ceil) and `criteria_giles` are GENERATED from the source by py2coq (Gen/GenC06Criteria.v); only the
   lifting of the numpy vector code to all levels and np.sum are written by hand here:
       N_l = giles_alloc_core rmse V_l C_l S,     S = np.sum(np.sqrt(vl * cl)).
   Tied to the implementation by interval-certified case lemmas (harness/props/C06.py). *)
From Coq Require Import Reals List Bool.
From RV Require Import Base.RB Base.RCeilMC Gen.GenC06Criteria.
Import ListNotations.
Open Scope R_scope.

Definition Rsum (l : list R) : R := fold_right Rplus 0 l.

(* np.sqrt(vl * cl), componentwise *)
Fixpoint sqrt_vc (V C : list R) : list R :=
  match V, C with
  | v :: V', c :: C' => sqrt (v * c) :: sqrt_vc V' C'
  | _, _ => []
  end.
Definition S_of (V C : list R) : R := Rsum (sqrt_vc V C).

Fixpoint alloc_with (rmse S : R) (V C : list R) : list R :=
  match V, C with
  | v :: V', c :: C' => giles_alloc_core rmse v c S :: alloc_with rmse S V' C'
  | _, _ => []
  end.
Definition giles_alloc (rmse : R) (V C : list R) : list R := alloc_with rmse (S_of V C) V C.

(* variance of the multilevel estimator with N_l samples on level l: sum of V_l / N_l over the levels
   that have any variance (a level with V_l = 0 needs no sample and contributes nothing) *)
Fixpoint est_var (V N : list R) : R :=
  match V, N with
  | v :: V', n :: N' => (if Rltb 0 v then v / n else 0) + est_var V' N'
  | _, _ => 0
  end.

(* pointwise: N_l is at least the real-valued optimum  sqrt(V_l/C_l) * T / B *)
Fixpoint ge_bound (T B : R) (V C N : list R) : Prop :=
  match V, C, N with
  | v :: V', c :: C', n :: N' => sqrt (v / c) * T / B <= n /\ ge_bound T B V' C' N'
  | [], [], [] => True
  | _, _, _ => False
  end.

(* the real-valued optimum of one level before the ceil (the cost as the code uses it: 1e30 where it is 0), and the
   bound below which np.ceil(...).astype(int) is a faithful integer; above it (or for nan / inf) the repaired code
   (fix-mc4 f58964a) raises ValueError: error value -1 in the generated core *)
Definition int_bound : R := (IZR 2 / IZR 1) ^ 63.
Definition cost_used (c : R) : R := if Reqb c 0 then IZR 1000000000000000000000000000000 / IZR 1 else c.
Definition giles_optimal (rmse v c T : R) : R := sqrt (v / cost_used c) * T / ((1 - 1 / 4) * rmse ^ 2).
Fixpoint in_range (rmse T : R) (V C : list R) : Prop :=
  match V, C with
  | v :: V', c :: C' => giles_optimal rmse v c T < int_bound /\ in_range rmse T V' C'
  | _, _ => True
  end.

(* the bias estimate of criteria_giles: extrapolation from the last (up to) three level means (ml as a list; an empty
   ml raises IndexError in numpy -- the engine always passes at least one level) *)
Definition giles_rem (alpha : R) (ml : list R) : R :=
  let rem := nth (length ml - 1) ml 0 in
  let rem := if Nat.leb 2 (length ml) then Rmax rem (nth (length ml - 2) ml 0 / Rpower 2 alpha) else rem in
  let rem := if Nat.leb 3 (length ml) then Rmax rem (nth (length ml - 3) ml 0 / Rpower 2 (2 * alpha)) else rem in
  rem / (Rpower 2 alpha - 1).

(* C02 -- model of rpylib/distribution/variate/binarysearchtree.py.
   create_binary_search_tree: implicit heap in an array of 2k+1 entries (k internal nodes then the k+1
   probabilities), filled by the explicit stack machine of lines 40-62; sample_with_u: descent.
   Pointers are 1-based as in the Python code (array index = ptr - 1). *)
From Coq Require Import List Arith ZArith QArith Bool.
From RV Require Import Base.QB.
Import ListNotations.
Open Scope Q_scope.

Fixpoint upd {A : Type} (l : list A) (i : nat) (v : A) : list A :=
  match l, i with
  | [], _ => []
  | _ :: r, O => v :: r
  | x :: r, S j => x :: upd r j v
  end.

Record bcfg := { b_ptr : nat; b_stack : list nat; b_cum : Q; b_arr : list Q }.

(* one execution of the loop body (before the break test).  None = deque.pop() on an empty deque. *)
Definition bst_body (k : nat) (c : bcfg) : option bcfg :=
  if (b_ptr c <=? k)%nat then
    Some {| b_ptr := 2 * b_ptr c; b_stack := b_ptr c :: b_stack c; b_cum := b_cum c; b_arr := b_arr c |}
  else
    match b_stack c with
    | [] => None
    | t :: r =>
        let cum' := b_cum c + nth (b_ptr c - 1) (b_arr c) 0 in
        Some {| b_ptr := 2 * t + 1; b_stack := r; b_cum := cum'; b_arr := upd (b_arr c) (t - 1) cum' |}
    end.

(* `if ptr > k and not len(stack): break` *)
Definition bst_halt (k : nat) (c : bcfg) : bool :=
  (k <? b_ptr c)%nat && match b_stack c with [] => true | _ => false end.

Fixpoint bst_run (fuel : nat) (k : nat) (c : bcfg) : option (list Q) :=
  match fuel with
  | O => None
  | S f => match bst_body k c with
           | None => None
           | Some c' => if bst_halt k c' then Some (b_arr c') else bst_run f k c'
           end
  end.

Definition bst_init (p : list Q) : bcfg :=
  let k := (length p - 1)%nat in
  {| b_ptr := 1; b_stack := []; b_cum := 0; b_arr := repeat 0 k ++ p |}.

(* the whole array after the loop.  `if k == 0: return bst` is the repair `fix: BinarySearchTree raised
   IndexError for a single state` (before it the loop popped an empty deque: bst_run gives None for k = 0). *)
Definition bst_fill (p : list Q) : option (list Q) :=
  let k := (length p - 1)%nat in
  if (k =? 0)%nat then Some (b_arr (bst_init p)) else bst_run (4 * k + 4) k (bst_init p).

(* what create_binary_search_tree returns: bst[: k + 1] *)
Definition create_bst (p : list Q) : option (list Q) :=
  match bst_fill p with
  | Some a => Some (firstn (length p) a)
  | None => None
  end.

(* sample_with_u: while ptr <= K: ptr = 2 ptr if u < bst[ptr-1] else 2 ptr + 1 *)
Fixpoint bst_descend (fuel : nat) (k : nat) (bst : list Q) (u : Q) (ptr : nat) : nat :=
  match fuel with
  | O => ptr
  | S f => if (ptr <=? k)%nat
           then (if Qltb u (nth (ptr - 1) bst 0) then bst_descend f k bst u (2 * ptr)
                 else bst_descend f k bst u (2 * ptr + 1))
           else ptr
  end.

(* returned index ptr - K - 1 (before `states` is applied) *)
Definition bst_sample (k : nat) (bst : list Q) (u : Q) : Z :=
  (Z.of_nat (bst_descend (S k) k bst u 1) - Z.of_nat k - 1)%Z.

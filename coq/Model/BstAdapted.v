(* C02 -- model of BinarySearchTreeAdapted1D (rpylib/distribution/variate/binarysearchtreeadapted.py):
   choice of the left/right half axis by _proba_left_axis, then bisection on coordinates with the mass of
   the cells [left .. middle] computed on the fly.  Tree with the repair `fix: F-C02-2` (cell boundaries are
   grid.middle of the neighbouring axis points, as everywhere else in the chain).
   The lru_cache of _compute_probability memoises a pure function of (a, b): modelled as the identity.
   Also: an executable step-measure mass (piecewise constant density) used by the correspondence. *)
From Coq Require Import List Arith ZArith QArith Bool.
From RV Require Import Base.QB.
Import ListNotations.
Open Scope Q_scope.

Section BstAdapted1D.
  Variable axis : list Q.          (* grid.axes[0] *)
  Variable o : Z.                  (* grid.origin_coordinate.value *)
  Variable middle : Q -> Q -> Q.   (* grid.middle *)
  Variable mass : Q -> Q -> Q.     (* model.mass(a, b) of the truncated measure *)
  Variable lam : Q.                (* intensity_of_jumps *)
  Variable h : Q.                  (* grid.h *)
  Variable minf : Q.               (* stands for -inf: any point not to the right of axis[0] *)

  Definition ba_n : Z := Z.of_nat (length axis).
  Definition ba_ax (i : Z) : Q := nth (Z.to_nat i) axis 0.
  Definition ba_left_point (i : Z) : Q := ba_ax (Z.max 0 (i - 1)).
  Definition ba_right_point (i : Z) : Q := ba_ax (Z.min (ba_n - 1) (i + 1)).
  Definition ba_cell_a (l : Z) : Q := middle (ba_left_point l) (ba_ax l).
  Definition ba_cell_b (r : Z) : Q := middle (ba_ax r) (ba_right_point r).
  (* _compute_probability(a, b) for the cells l..r *)
  Definition ba_prob (l r : Z) : Q := mass (ba_cell_a l) (ba_cell_b r) / lam.
  Definition ba_proba_left : Q := if Qltb 0 lam then mass minf (- (h / 2)) / lam else 0.

  Fixpoint ba_bisect (fuel : nat) (left right : Z) (cp : Q) : Z :=
    match fuel with
    | O => left
    | S f =>
        if (left =? right)%Z then left
        else
          let mid := ((left + right) / 2)%Z in
          let p := ba_prob left mid in
          if Qltb p cp then ba_bisect f (Z.min right (mid + 1)) right (cp - p)
          else ba_bisect f left mid cp
    end.

  (* sample_with_u: state increment = coordinate - origin *)
  Definition ba_sample (u : Q) : Z :=
    let fuel := S (length axis) in
    if Qltb ba_proba_left u
    then (ba_bisect fuel (o + 1) (ba_n - 1) (u - ba_proba_left) - o)%Z
    else (ba_bisect fuel 0 (o - 1) u - o)%Z.
End BstAdapted1D.

(* arithmetic mid-point: CTMCGrid.middle for floats *)
Definition mid_arith (x y : Q) : Q := (1 # 2) * (x + y).

(* executable mass of a step measure: pieces (left, right, density); mass a b = sum d * |[a,b] /\ [left,right]| *)
Definition piece_mass (a b : Q) (pc : Q * Q * Q) : Q :=
  let '(l, r, d) := pc in
  let lo := Qmaxb a l in let hi := Qminb b r in
  if Qltb lo hi then d * (hi - lo) else 0.
Fixpoint step_mass (pieces : list (Q * Q * Q)) (a b : Q) : Q :=
  match pieces with [] => 0 | pc :: r => piece_mass a b pc + step_mass r a b end.

(* C02 -- model of the n-dimensional BinarySearchTreeAdapted (rpylib/distribution/variate/binarysearchtreeadapted.py):
   _pre_computation (buckets = itertools.product of the per-axis pieces {origin}, left half, right half, minus the
   first; bucket probabilities; cached cumulative vectors for the buckets that move along one axis only),
   sample_with_us (np.searchsorted on the cumulative bucket probabilities, residual probability, then either the
   cached vector or sample_one_bucket) and sample_one_bucket (`while any(l != r): for k, axis: bisect axis k`).
   A box is a list of inclusive coordinate ranges (lo, hi), one per axis.  bm box stands for
   _compute_probability(a, b) = model.mass(lower bounds of the box, upper bounds of the box) / intensity_of_jumps
   (the lru_cache memoises this pure function: modelled as the identity, cf. Model/Stateful.v). *)
From Coq Require Import List Arith ZArith QArith Bool.
From RV Require Import Base.QB Model.Bst.
Import ListNotations.
Open Scope Q_scope.

Definition box := list (Z * Z).

(* np.cumsum *)
Fixpoint cumsum_from (acc : Q) (l : list Q) : list Q :=
  match l with [] => [] | x :: r => (acc + x) :: cumsum_from (acc + x) r end.
Definition cumsum (l : list Q) : list Q := cumsum_from 0 l.      (* 0.0 + x is x, exactly, also in floating point *)

(* np.searchsorted(a, v) (side='left') on a non-decreasing array: the number of entries < v *)
Fixpoint searchsorted (a : list Q) (v : Q) : nat :=
  match a with [] => O | x :: r => if Qltb x v then S (searchsorted r v) else O end.

Section Nd.
  Variable bm : box -> Q.

  Definition degenerate (lr : Z * Z) : bool := Z.eqb (fst lr) (snd lr).
  Definition all_degenerate (res : box) : bool := forallb degenerate res.

  (* the body of `for k, ((left, right), axis) in enumerate(zip(result, axes))` *)
  Definition nd_axis (k : nat) (res : box) (cp : Q) : box * Q :=
    let lr := nth k res (0, 0)%Z in
    if degenerate lr then (res, cp)
    else
      let mid := ((snd lr + fst lr) / 2)%Z in
      let res1 := upd res k (fst lr, mid) in
      let p := bm res1 in
      if Qltb p cp then (upd res k (Z.min (snd lr) (mid + 1), snd lr), cp - p) else (res1, cp).

  (* while any(l != r): for k in range(d): ...   flattened: k = d is the `while` test, k < d one axis step *)
  Fixpoint nd_go (fuel : nat) (k : nat) (res : box) (cp : Q) : option box :=
    match fuel with
    | O => None
    | S f =>
        if (k <? length res)%nat then let rc := nd_axis k res cp in nd_go f (S k) (fst rc) (snd rc)
        else if all_degenerate res then Some res else nd_go f 0 res cp
    end.

  Definition box_size (res : box) : nat := fold_right (fun lr acc => (Z.to_nat (snd lr - fst lr) + acc)%nat) O res.
  (* enough for every run (Proofs/C02_BstAdaptedNd.v) *)
  Definition nd_fuel (res : box) : nat := S (S (length res) * S (box_size res)).

  (* sample_one_bucket: coordinates of the cell (before the origin is subtracted); None never happens *)
  Definition sample_one_bucket (res : box) (cp : Q) : option (list Z) :=
    option_map (map fst) (nd_go (nd_fuel res) (length res) res cp).

  (* ---------- _pre_computation ---------- *)
  Variable d : nat.          (* number of axes *)
  Variable n o : Z.          (* points per axis, coordinate of the origin (the same on every axis) *)

  Definition axis_pieces : list (Z * Z) := [(o, o); (0, o - 1); (o + 1, n - 1)]%Z.
  Fixpoint boxes_product (k : nat) : list box :=
    match k with
    | O => [[]]
    | S k' => flat_map (fun iv => map (cons iv) (boxes_product k')) axis_pieces
    end.
  Definition buckets : list box := tl (boxes_product d).     (* next(cartesian_product) discards the origin cell *)

  Definition moving_axes (b : box) : nat := length (filter (fun lr => negb (degenerate lr)) b).
  Definition low_nb_of_pts : bool := (Z.of_nat d * n <? 10001)%Z.
  Definition is_axis_bucket (b : box) : bool := low_nb_of_pts && (moving_axes b =? 1)%nat.

  Fixpoint moving_axis_index (b : box) : nat :=
    match b with [] => O | lr :: r => if degenerate lr then S (moving_axis_index r) else O end.
  Fixpoint zrange_incl (lo : Z) (cnt : nat) : list Z := match cnt with O => [] | S c => lo :: zrange_incl (lo + 1) c end.

  (* precomputed_cum_p_for_axes[k]: cumulative probabilities of the cells of an axis bucket *)
  Definition axis_cum (b : box) : list Q :=
    let k := moving_axis_index b in
    let lr := nth k b (0, 0)%Z in
    cumsum (map (fun c => bm (upd b k (c, c))) (zrange_incl (fst lr) (Z.to_nat (snd lr - fst lr + 1)))).

  Definition cum_ps : list Q := cumsum (map bm buckets).

  (* sample_with_us for one uniform, for a given list of buckets: the state increment (coordinates - origin);
     None = IndexError (the uniform exceeds the sum of the bucket probabilities) *)
  Definition nd_sample_with (bs : list box) (u : Q) : option (list Z) :=
    let cps := cumsum (map bm bs) in
    let pos := searchsorted cps u in
    match nth_error bs pos with
    | None => None
    | Some b =>
        let prob := match pos with O => u | S q => u - nth q cps 0 end in
        if is_axis_bucket b then
          (* min(np.searchsorted(cum_p, prob), len(cum_p) - 1): repair `fix: ... residual above the cached cumulative sum` *)
          let ith := Z.of_nat (Nat.min (searchsorted (axis_cum b) prob) (length (axis_cum b) - 1)) in
          Some (map (fun lr => ((if degenerate lr then fst lr else fst lr + ith) - o)%Z) b)
        else
          option_map (map (fun c => (c - o)%Z)) (sample_one_bucket b prob)
    end.
  Definition nd_sample (u : Q) : option (list Z) := nd_sample_with buckets u.
End Nd.

(* executable box mass for the correspondence: a table (cell, probability); bm box = sum over the cells inside *)
Fixpoint in_box (c : list Z) (b : box) : bool :=
  match c, b with
  | [], [] => true
  | x :: cr, (lo, hi) :: br => (lo <=? x)%Z && (x <=? hi)%Z && in_box cr br
  | _, _ => false
  end.
Definition table_bm (tab : list (list Z * Q)) (b : box) : Q :=
  fold_right (fun cq acc => if in_box (fst cq) b then snd cq + acc else acc) 0 tab.

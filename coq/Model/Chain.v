(* Hand-written model of the generic chain construction:
     rpylib/distribution/samplingfactory.py   compute_intensity_of_jumps (:32-56), create_q_vector (:59-70),
                                              create_sampling_inversion_method.probability_to_jump_to_state (:161-169)
     rpylib/model/levymodel/levymodel.py      TruncatedLevyMeasure.integrate (:152-156) around _truncated_interval
                                              (generated: Gen/GenC01Trunc.v)
   parametrised by the interval mass of the Levy measure, `mass a b` = nu([a,b]) (LevyMeasure.integrate), and by
   grid.middle (`mid`).  `step_mass` is the concrete mass of the harness's StepMeasure, used to run the model. *)
From Coq Require Import ZArith QArith Qabs List Bool Lia.
From RV Require Import Base.QB Model.Grid Gen.GenC01Trunc.
Import ListNotations.
Open Scope Q_scope.

Definition qsum (l : list Q) : Q := fold_right Qplus 0 l.

Section Chain.
  Variable mid : Q -> Q -> Q.
  Variable mass : Q -> Q -> Q.

  (* cell of the state at index k: [middle(left_point(k), x_k), middle(x_k, right_point(k))] *)
  Definition cell_lo (xs : list Q) (k : nat) : Q := mid (left_point xs k) (nthq xs k).
  Definition cell_hi (xs : list Q) (k : nat) : Q := mid (nthq xs k) (right_point xs k).

  (* create_q_vector: q[k] = int_lm(x_left, x_right) for k != origin, q[origin] = 0 *)
  Definition q_entry (xs : list Q) (o k : nat) : Q :=
    if Nat.eqb k o then 0 else mass (cell_lo xs k) (cell_hi xs k).
  Definition q_vector (xs : list Q) (o : nat) : list Q := map (q_entry xs o) (seq 0 (length xs)).

  (* compute_intensity_of_jumps, dimension 1: h_left = middle(left_point(o), 0.0), h_right = middle(0.0, right_point(o));
     intervals [[h_l,h_r],[x_0,h_l],[h_r,x_n]], the first one is skipped, masses added starting from 0 *)
  Definition h_left (xs : list Q) (o : nat) : Q := mid (left_point xs o) 0.
  Definition h_right (xs : list Q) (o : nat) : Q := mid 0 (right_point xs o).
  Definition intensity1 (xs : list Q) (o : nat) : Q :=
    0 + mass (headq xs) (h_left xs o) + mass (h_right xs o) (lastq xs).

  (* probability_to_jump_to_state(state_increment) of the inversion sampler *)
  Definition prob_state (xs : list Q) (o : nat) (lam : Q) (k : nat) : Q :=
    Qmaxb (mass (cell_lo xs k) (cell_hi xs k)) 0 / lam.

  (* dimension 2, product grid, rectangle mass massd (a1,a2) (b1,b2) = model.mass(a, b):
     the 3^2-1 = 8 blocks of itertools.product over the intervals after the first *)
  Variable mass2 : Q * Q -> Q * Q -> Q.
  Definition blocks (xs : list Q) (o : nat) : list (Q * Q) :=
    [(h_left xs o, h_right xs o); (headq xs, h_left xs o); (h_right xs o, lastq xs)].
  Definition intensity2 (xs ys : list Q) (o : nat) : Q :=
    qsum (tl (flat_map (fun bx => map (fun by_ => mass2 (fst bx, fst by_) (snd bx, snd by_)) (blocks ys o)) (blocks xs o))).
  Definition q_entry2 (xs ys : list Q) (o i j : nat) : Q :=
    if Nat.eqb i o && Nat.eqb j o then 0
    else mass2 (cell_lo xs i, cell_lo ys j) (cell_hi xs i, cell_hi ys j).
  Definition q_matrix2 (xs ys : list Q) (o : nat) : list (list Q) :=
    map (fun i => map (q_entry2 xs ys o i) (seq 0 (length ys))) (seq 0 (length xs)).
End Chain.

(* a box [a1,b1]x[a2,b2] avoids the origin when one of its two coordinate intervals does (the Levy measure of a box is finite
   exactly then) *)
Definition avoids (a b : Q * Q) : Prop := fst b < 0 \/ 0 < fst a \/ snd b < 0 \/ 0 < snd a.
Definition qsum2 (m : list (list Q)) : Q := qsum (map qsum m).

(* TruncatedLevyMeasure.integrate: clip the interval to the truncations, then integrate the inner measure *)
Definition tmass (mass : Q -> Q -> Q) (l r a b : Q) : Q :=
  let '(aa, bb) := truncated_interval l r a b in mass aa bb.

(* ---- the harness's StepMeasure: pieces (lo, hi, density); integrate clips [a,b] to each piece *)
Definition piece_mass (a b : Q) (p : Q * Q * Q) : Q :=
  let '(lo, hi, d) := p in
  let l := Qmaxb a lo in let h := Qminb b hi in
  if Qltb l h then d * (h - l) else 0.
Definition step_mass (ps : list (Q * Q * Q)) (a b : Q) : Q := qsum (map (piece_mass a b) ps).

(* what MarkovChainProcess builds for a 1-d model: truncate to (axis[0], axis[-1]), then rates / intensity *)
Definition chain_mass (ps : list (Q * Q * Q)) (xs : list Q) : Q -> Q -> Q :=
  tmass (step_mass ps) (headq xs) (lastq xs).
Definition chain_q_vector (ps : list (Q * Q * Q)) (xs : list Q) (o : nat) : list Q :=
  q_vector amid (chain_mass ps xs) xs o.
Definition chain_intensity (ps : list (Q * Q * Q)) (xs : list Q) (o : nat) : Q :=
  intensity1 amid (chain_mass ps xs) xs o.

(* product of two step measures: the rectangle mass of the independent copula restricted to quadrant-free
   rectangles is NOT a product (the Levy measure of independent components lives on the axes); the 2-d model
   is therefore run on an explicit density table: pieces2 = (lo1, hi1, lo2, hi2, density) *)
Definition piece_mass2 (a b : Q * Q) (p : Q * Q * Q * Q * Q) : Q :=
  let '(lo1, hi1, lo2, hi2, d) := p in
  let l1 := Qmaxb (fst a) lo1 in let h1 := Qminb (fst b) hi1 in
  let l2 := Qmaxb (snd a) lo2 in let h2 := Qminb (snd b) hi2 in
  if Qltb l1 h1 && Qltb l2 h2 then d * (h1 - l1) * (h2 - l2) else 0.
Definition step_mass2 (ps : list (Q * Q * Q * Q * Q)) (a b : Q * Q) : Q := qsum (map (piece_mass2 a b) ps).

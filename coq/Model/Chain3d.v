(* Hand-written model of the generic chain construction in dimension 3 (copula chains, MarkovChainLevyCopula):
     rpylib/distribution/samplingfactory.py   compute_intensity_of_jumps (:32-56) with a 3-d model: itertools.product of the
                                              three lists [[h_l,h_r],[x_0,h_l],[h_r,x_n]], the first of the 27 boxes discarded,
                                              model.mass(a, b) of the 26 others added starting from 0;
                                              create_sampling_inversion_method.probability_to_jump_to_state (:161-169):
                                              the cell of a state is the product of the 1-d cells of its coordinates
     rpylib/grid/spatial.py                   left_point / right_point / middle on CoordinateND (:74-108): coordinate-wise
   parametrised by the box mass `mass3 a b` = LevyCopulaModel.mass(a, b) and by grid.middle (`mid`).
   The implementation's right_point(CoordinateND) clamps EVERY axis with len(axes[0]) (spatial.py:93 "FIXME: fixed length across
   all axes"); this model clamps each axis with its own length: the two coincide for axes of equal lengths, which is what every
   constructor of the library builds and what the correspondence drives.
   `step_mass3` is the concrete mass of the harness's 3-d density table (harness/c01_table3.py), used to run the model. *)
From Coq Require Import ZArith QArith Qabs List Bool Lia.
From RV Require Import Base.QB Model.Grid Gen.GenC01Trunc Model.Chain.
Import ListNotations.
Open Scope Q_scope.

Definition Q3 : Type := (Q * Q * Q)%type.
Definition p1 (t : Q3) : Q := fst (fst t).
Definition p2 (t : Q3) : Q := snd (fst t).
Definition p3 (t : Q3) : Q := snd t.

(* a box [a1,b1]x[a2,b2]x[a3,b3] avoids the origin when one of its three coordinate intervals does *)
Definition avoids3 (a b : Q3) : Prop := p1 b < 0 \/ 0 < p1 a \/ p2 b < 0 \/ 0 < p2 a \/ p3 b < 0 \/ 0 < p3 a.

Definition qsum3 (t : list (list (list Q))) : Q := qsum (map qsum2 t).

Section Chain3d.
  Variable mid : Q -> Q -> Q.
  Variable mass3 : Q3 -> Q3 -> Q.

  (* the 3^3-1 = 26 boxes of itertools.product over the three interval lists after the first *)
  Definition intensity3 (xs ys zs : list Q) (o : nat) : Q :=
    qsum (tl (flat_map (fun bx => flat_map (fun by_ => map (fun bz =>
                 mass3 (fst bx, fst by_, fst bz) (snd bx, snd by_, snd bz)) (blocks mid zs o)) (blocks mid ys o)) (blocks mid xs o))).

  Definition q_entry3 (xs ys zs : list Q) (o i j k : nat) : Q :=
    if Nat.eqb i o && Nat.eqb j o && Nat.eqb k o then 0
    else mass3 (cell_lo mid xs i, cell_lo mid ys j, cell_lo mid zs k) (cell_hi mid xs i, cell_hi mid ys j, cell_hi mid zs k).
  Definition q_tensor3 (xs ys zs : list Q) (o : nat) : list (list (list Q)) :=
    map (fun i => map (fun j => map (q_entry3 xs ys zs o i j) (seq 0 (length zs))) (seq 0 (length ys))) (seq 0 (length xs)).
End Chain3d.

(* ---- the harness's 3-d density table: pieces (lo1, hi1, lo2, hi2, lo3, hi3, density), each inside one closed octant;
   the mass of a box is sum_p d_p * |[a1,b1] n [lo1,hi1]| * |[a2,b2] n [lo2,hi2]| * |[a3,b3] n [lo3,hi3]| *)
Definition clip_len (a b lo hi : Q) : Q :=
  let l := Qmaxb a lo in let h := Qminb b hi in if Qltb l h then h - l else 0.
Definition piece_mass3 (a b : Q3) (p : Q * Q * Q * Q * Q * Q * Q) : Q :=
  let '(lo1, hi1, lo2, hi2, lo3, hi3, d) := p in
  d * clip_len (p1 a) (p1 b) lo1 hi1 * clip_len (p2 a) (p2 b) lo2 hi2 * clip_len (p3 a) (p3 b) lo3 hi3.
Definition step_mass3 (ps : list (Q * Q * Q * Q * Q * Q * Q)) (a b : Q3) : Q := qsum (map (piece_mass3 a b) ps).
Definition dens3 (p : Q * Q * Q * Q * Q * Q * Q) : Q := snd p.

Definition qlll_eqb (a b : list (list (list Q))) : bool :=
  Nat.eqb (length a) (length b) && forallb (fun p => qll_eqb (fst p) (snd p)) (combine a b).

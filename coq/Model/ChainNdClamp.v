(* C01 (wave 7, audit 4 X-d / D3) -- the n-d cell of a state AS THE CODE COMPUTES IT.
     rpylib/grid/spatial.py:91-96   right_point(CoordinateND):  grid_length = len(self.axes[0])  # FIXME: fixed length across all axes
                                                              tuple(self.axes[k][min(grid_length - 1, c + 1)] for k, c in enumerate(coordinate))
   EVERY axis is clamped with the length of the FIRST axis.  Model/Grid.v right_point clamps an axis with its own length; the two agree
   exactly when the axes have equal lengths (what every constructor of the library builds).  Here the clamp is the code's:
     n0 = length of axes[0];  right neighbour of index k on axis xs = xs[min(n0 - 1, k + 1)], an IndexError (None) when that index is
     beyond the axis (axis shorter than axes[0]).
   left_point(CoordinateND) (spatial.py:74-76: axes[k][max(0, c - 1)]) uses the axis itself and is Model/Grid.v left_point.
   compute_intensity_of_jumps calls right_point only at the origin coordinate (index o + 1 <= n0 - 1 on an admissible first axis, inside every
   admissible axis), so intensity2 / intensity3 of Model/Chain.v / Model/Chain3d.v are the code's whatever the lengths.
   The origin entry of the rate matrices is 0 BY CONVENTION (the n-d code has no rate array; the inversion sampler's state manager never asks
   for the origin: C02/C14).  *)
From Coq Require Import ZArith QArith List Bool Lia.
From RV Require Import Base.QB Model.Grid Model.Chain Model.Chain3d.
Import ListNotations.
Open Scope Q_scope.

(* all-or-nothing: one IndexError aborts the construction *)
Fixpoint opt_all {A : Type} (l : list (option A)) : option (list A) :=
  match l with
  | [] => Some []
  | x :: r => match x, opt_all r with Some a, Some b => Some (a :: b) | _, _ => None end
  end.

Definition right_point_c (n0 : nat) (xs : list Q) (k : nat) : option Q := nth_error xs (Nat.min (n0 - 1) (k + 1)).

Section Clamp.
  Variable mid : Q -> Q -> Q.
  Definition cell_hi_c (n0 : nat) (xs : list Q) (k : nat) : option Q := option_map (mid (nthq xs k)) (right_point_c n0 xs k).

  (* probability_to_jump_to_state * intensity (before max(., 0)): model.mass(middle(left_point(state), value), middle(value, right_point(state))) *)
  Variable mass2 : Q * Q -> Q * Q -> Q.
  Definition q_entry2_c (xs ys : list Q) (o i j : nat) : option Q :=
    if Nat.eqb i o && Nat.eqb j o then Some 0
    else match cell_hi_c (length xs) xs i, cell_hi_c (length xs) ys j with
         | Some hx, Some hy => Some (mass2 (cell_lo mid xs i, cell_lo mid ys j) (hx, hy))
         | _, _ => None
         end.
  Definition q_matrix2_c (xs ys : list Q) (o : nat) : option (list (list Q)) :=
    opt_all (map (fun i => opt_all (map (q_entry2_c xs ys o i) (seq 0 (length ys)))) (seq 0 (length xs))).

  Variable mass3 : Q3 -> Q3 -> Q.
  Definition q_entry3_c (xs ys zs : list Q) (o i j k : nat) : option Q :=
    if Nat.eqb i o && Nat.eqb j o && Nat.eqb k o then Some 0
    else match cell_hi_c (length xs) xs i, cell_hi_c (length xs) ys j, cell_hi_c (length xs) zs k with
         | Some hx, Some hy, Some hz => Some (mass3 (cell_lo mid xs i, cell_lo mid ys j, cell_lo mid zs k) (hx, hy, hz))
         | _, _, _ => None
         end.
  Definition q_tensor3_c (xs ys zs : list Q) (o : nat) : option (list (list (list Q))) :=
    opt_all (map (fun i => opt_all (map (fun j => opt_all (map (q_entry3_c xs ys zs o i j) (seq 0 (length zs)))) (seq 0 (length ys))))
                 (seq 0 (length xs))).
End Clamp.

(* comparison helpers for the correspondence *)
Definition oq_eqb (a : option Q) (b : option Q) : bool :=
  match a, b with Some x, Some y => Qeq_bool x y | None, None => true | _, _ => false end.
Definition oqlist_eqb (a : list (option Q)) (b : list (option Q)) : bool :=
  Nat.eqb (length a) (length b) && forallb (fun p => oq_eqb (fst p) (snd p)) (combine a b).

(* LevyCopulaModel.mass on a REVERSED interval (a_k > b_k: what the collapsed cells of an axis longer than axes[0] are): the inclusion-exclusion
   over the corners changes sign, it does not clip to 0.  Signed variant of Model/Chain3d.v's table integral, equal to it on a <= b; used only by
   the correspondence group chain3d_uneq (the sampler turns the negative value into probability 0 by max(state_mass, 0)). *)
Definition sclip (a b lo hi : Q) : Q := if Qle_bool a b then clip_len a b lo hi else - clip_len b a lo hi.
Definition piece_mass3s (a b : Q3) (p : Q * Q * Q * Q * Q * Q * Q) : Q :=
  let '(lo1, hi1, lo2, hi2, lo3, hi3, d) := p in
  d * sclip (p1 a) (p1 b) lo1 hi1 * sclip (p2 a) (p2 b) lo2 hi2 * sclip (p3 a) (p3 b) lo3 hi3.
Definition step_mass3s (ps : list (Q * Q * Q * Q * Q * Q * Q)) (a b : Q3) : Q := qsum (map (piece_mass3s a b) ps).

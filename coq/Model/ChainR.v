(* Hand-written model OVER THE REALS of the 1-d chain construction (the real-number twin of Model/Grid.v + Model/Chain.v):
     rpylib/grid/spatial.py                    CTMCGrid.left_point / right_point (:63-96), middle (:106-108)
     rpylib/distribution/samplingfactory.py    create_q_vector (:59-70), compute_intensity_of_jumps (:32-56, dimension 1),
                                               create_vec_jump_matrix (:73-76)
   numbers are R so that `mass` can be instantiated with the real closed forms of the model families (Gen/GenC09Hem.v ... and the
   integral theorems of Proofs/C09_*.v).  The truncated measure is NOT re-modelled here: it is Model/LevyClosedForms.v's
   truncated_integrate around the generated Gen/GenC09Trunc.v truncated_interval (the objects C09's theorems are about).
   Gen/GenC01ChainR.v regenerates left_point / right_point / middle / create_q_vector over R from the source; Proofs/C01_ChainR.v
   proves them equal to the definitions below. *)
From Coq Require Import Reals List Lia.
Import ListNotations.
Open Scope R_scope.

Definition nthR (xs : list R) (k : nat) : R := nth k xs 0.
Definition lastR (xs : list R) : R := last xs 0.
Definition headR (xs : list R) : R := hd 0 xs.
Definition rsum (l : list R) : R := fold_right Rplus 0 l.

(* strictly increasing *)
Fixpoint incrR (xs : list R) : Prop :=
  match xs with
  | [] => True
  | x :: r => match r with [] => True | y :: _ => x < y /\ incrR r end
  end.

Definition left_pointR (xs : list R) (k : nat) : R := nthR xs (Nat.pred k).
Definition right_pointR (xs : list R) (k : nat) : R := nthR xs (Nat.min (length xs - 1) (k + 1)).
Definition amidR (x y : R) : R := 1 / 2 * (x + y).

(* an admissible axis (what every grid constructor promises, C13): increasing, origin 0 at index o with neighbours -h, +h *)
Definition admissibleR (xs : list R) (o : nat) (h : R) : Prop :=
  incrR xs /\ (1 <= o)%nat /\ (o + 1 < length xs)%nat /\ 0 < h
  /\ nthR xs o = 0 /\ nthR xs (o - 1) = - h /\ nthR xs (o + 1) = h.

Section ChainR.
  Variable mid : R -> R -> R.
  Variable mass : R -> R -> R.

  Definition cell_loR (xs : list R) (k : nat) : R := mid (left_pointR xs k) (nthR xs k).
  Definition cell_hiR (xs : list R) (k : nat) : R := mid (nthR xs k) (right_pointR xs k).

  (* create_q_vector: q[k] = int_lm(x_left, x_right) for k != origin, q[origin] = 0 *)
  Definition q_entryR (xs : list R) (o k : nat) : R :=
    if Nat.eqb k o then 0 else mass (cell_loR xs k) (cell_hiR xs k).
  Definition q_vectorR (xs : list R) (o : nat) : list R := map (q_entryR xs o) (seq 0 (length xs)).

  (* compute_intensity_of_jumps, dimension 1: masses of [x_0, h_left] and [h_right, x_n] added starting from 0 *)
  Definition h_leftR (xs : list R) (o : nat) : R := mid (left_pointR xs o) 0.
  Definition h_rightR (xs : list R) (o : nat) : R := mid 0 (right_pointR xs o).
  Definition intensity1R (xs : list R) (o : nat) : R :=
    0 + mass (headR xs) (h_leftR xs o) + mass (h_rightR xs o) (lastR xs).
End ChainR.

(* create_vec_jump_matrix(q_vector, init_state, intensity): res = q_vector / intensity; res[init_state] = 0.0 -- the probability
   vector handed to AliasMethod / TableMethod / BinarySearchTree / HuffmanTree by create_sampling_method *)
Fixpoint set_nthR (l : list R) (i : nat) (v : R) : list R :=
  match l, i with
  | [], _ => []
  | _ :: r, O => v :: r
  | x :: r, S j => x :: set_nthR r j v
  end.
Definition jump_vectorR (q : list R) (o : nat) (lam : R) : list R := set_nthR (map (fun x => x / lam) q) o 0.

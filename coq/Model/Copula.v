(* C11 -- hand models of rpylib/distribution/levycopula.py and of the `volume` / `margin`
   operators of rpylib/model/levycopulamodel.py.

   The piecewise-linear copulas (independent, completely dependent) and the two operators are
   written once over a `Num` (Base/ExtNum.v): instance QNum runs inside vm_compute for the
   correspondence, instance RNum is what the theorems are about.  Arguments are extended numbers
   (`ext`): the code feeds +-np.inf to the copulas.  The Clayton copula needs real powers and is
   modelled over R only (Rpower), tied by Interval case lemmas.

   Conventions of the code that the models keep:
     - Clayton: `0 in us` -> 0;  |+-inf| ** (-theta) = 0;  sign product >= 0 -> eta, else -(1-eta);
       scaling 2 ** (2 - d).  A vector whose entries are ALL infinite makes the code return +-inf
       (0 ** negative); the model is only used with at least one finite entry.
     - independent: sum over the finite entries u_k of u_k * prod_{j<>k} [u_j == +inf]   (-inf counts as 0)
     - dependent: all > 0 -> min; all < 0 -> -max * (-1 if d odd else +1); else 0 (a zero entry gives 0)
     - volume(f,a,b) = sum over p in product([0,1]) (a_i if p_i = 0 else b_i), sign (-1)^(n - sum p)
     - margin(f, I, d)(u) = sum over p in product([-inf, inf], repeat = d - |I|) of f(u on I, p elsewhere) * prod sign(p) *)
From Coq Require Import List Arith Bool ZArith QArith Reals Lia.
From RV Require Import Base.QB Base.RB Base.ExtNum.
Import ListNotations.

Section Generic.
  Variable N : Num.
  Notation E := (ext N).

  Definition is_pinf (x : E) : bool := match x with PInf => true | _ => false end.
  Definition is_fin (x : E) : bool := match x with Fin _ => true | _ => false end.
  Definition fin_val (x : E) : N := match x with Fin v => v | _ => n0 N end.

  (* ---- IndependentComponentsCopula.__call__ ------------------------------------------------ *)
  Fixpoint indep_from (acc : N) (before : list E) (us : list E) : N :=     (* res += u * product, left to right *)
    match us with
    | [] => acc
    | u :: rest =>
        indep_from (match u with
                    | Fin v => nadd N acc (if forallb is_pinf before && forallb is_pinf rest then v else n0 N)
                    | _ => acc
                    end) (before ++ [u]) rest
    end.
  Definition indep (us : list E) : N := indep_from (n0 N) [] us.

  (* ---- DependentComponentsCopula.__call__ -------------------------------------------------- *)
  Definition xpos (x : E) : bool := match x with PInf => true | Fin v => nltb N (n0 N) v | NInf => false end.
  Definition xneg (x : E) : bool := match x with NInf => true | Fin v => nltb N v (n0 N) | PInf => false end.
  Definition emin (x y : E) : E := if xleb x y then x else y.
  Definition emax (x y : E) : E := if xleb x y then y else x.
  Definition dep (us : list E) : N :=
    match us with
    | [] => n0 N
    | u :: rest =>
        if forallb xpos us then fin_val (fold_left emin rest u)
        else if forallb xneg us then
          let m := fin_val (fold_left emax rest u) in
          if Nat.odd (length us) then m else nopp N m      (* -max * eps, eps = -1 if d odd *)
        else n0 N
    end.

  (* ---- volume(f, a, b) ---------------------------------------------------------------------- *)
  (* corners in itertools.product([0,1], repeat=n) order: (number of b's chosen, point) *)
  Fixpoint corners {A : Type} (a b : list A) : list (nat * list A) :=
    match a, b with
    | x :: a', y :: b' =>
        map (fun c => (fst c, x :: snd c)) (corners a' b') ++ map (fun c => (S (fst c), y :: snd c)) (corners a' b')
    | _, _ => [(0%nat, [])]
    end.
  Definition volume {A : Type} (f : list A -> N) (a b : list A) : N :=
    let n := length a in
    fold_left (fun (res : N) (c : nat * list A) => if Nat.even (n - fst c) then nadd N res (f (snd c)) else nsub N res (f (snd c)))
              (corners a b) (n0 N).

  (* ---- margin(f, indices, dimension) -------------------------------------------------------- *)
  Fixpoint assoc {A : Type} (i : nat) (keys : list nat) (vals : list A) : option A :=
    match keys, vals with
    | k :: ks, v :: vs => match assoc i ks vs with Some w => Some w | None => if Nat.eqb i k then Some v else None end
    | _, _ => None
    end.     (* numpy fancy assignment: the LAST occurrence of a repeated index wins *)
  Definition complement (d : nat) (indices : list nat) : list nat :=
    filter (fun i => negb (existsb (Nat.eqb i) indices)) (seq 0 d).
  (* product([-inf, inf], repeat=nb) with the sign of each tuple (true = negative) *)
  Fixpoint inf_tuples (nb : nat) : list (bool * list E) :=
    match nb with
    | O => [(false, [])]
    | S k => map (fun t => (negb (fst t), NInf :: snd t)) (inf_tuples k) ++ map (fun t => (fst t, PInf :: snd t)) (inf_tuples k)
    end.
  Definition scatter (d : nat) (indices : list nat) (u : list E) (cidx : list nat) (p : list E) : list E :=
    map (fun i => match assoc i indices u with
                  | Some v => v
                  | None => match assoc i cidx p with Some v => v | None => Fin (n0 N) end
                  end) (seq 0 d).
  Definition margin (f : list E -> N) (indices : list nat) (d : nat) (u : list E) : N :=
    let cidx := complement d indices in
    fold_left (fun (res : N) (t : bool * list E) => let v := f (scatter d indices u cidx (snd t)) in
                            nadd N res (if fst t then nopp N v else v))
              (inf_tuples (length cidx)) (n0 N).
End Generic.

Arguments corners {A} a b.
Arguments volume N {A} f a b.

(* ---- ClaytonCopula (reals only) --------------------------------------------------------------- *)
Open Scope R_scope.

Definition pow_abs (theta : R) (x : ext R) : R :=      (* abs(x) ** (-theta), 0 for +-inf *)
  match x with Fin v => Rpower (Rabs v) (- theta) | _ => 0 end.
Definition ext_is_zero (x : ext R) : bool := match x with Fin v => Reqb v 0 | _ => false end.
Definition ext_negative (x : ext R) : bool := match x with NInf => true | Fin v => Rltb v 0 | PInf => false end.
Definition sign_prod_neg (us : list (ext R)) : bool := fold_left xorb (map ext_negative us) false.
Definition clayton_sum (theta : R) (us : list (ext R)) : R := fold_left Rplus (map (pow_abs theta) us) 0.
Definition clayton (theta eta : R) (us : list (ext R)) : R :=
  if existsb ext_is_zero us then 0
  else let factor := if sign_prod_neg us then - (1 - eta) else eta in
       Rpower 2 (2 - INR (length us)) * Rpower (clayton_sum theta us) (- 1 / theta) * factor.

(* _condition_distribution_2d(eps, x)  (x <> 0) *)
Definition clayton_cond (theta eta eps x : R) : R :=
  let core := Rpower (1 + Rpower (Rabs (eps / x)) theta) (- 1 - 1 / theta) in
  if Rleb 0 eps then 1 - eta + core * (eta - (if Rltb x 0 then 1 else 0))
  else eta + core * ((if Rleb 0 x then 1 else 0) - eta).

(* _inverse_conditional_distribution_2d(eps, u): fun_b * |eps| * (fun_c ** (-theta/(theta+1)) - 1) ** (-1/theta) *)
Definition sgn (x : R) : R := if Rltb x 0 then -1 else if Rltb 0 x then 1 else 0.     (* np.sign *)
Definition clayton_fun_b (eta eps u : R) : R := if Rleb 0 eps then sgn (u - 1 + eta) else sgn (u - eta).
Definition clayton_fun_c (eta eps u : R) : R :=
  if Rleb 0 eps then (if Rleb (1 - eta) u then (u - 1 + eta) / eta else (1 - eta - u) / (1 - eta))
  else (if Rleb eta u then (u - eta) / (1 - eta) else (eta - u) / eta).
Definition clayton_inv (theta eta eps u : R) : R :=
  clayton_fun_b eta eps u * Rabs eps * Rpower (Rpower (clayton_fun_c eta eps u) (- theta / (theta + 1)) - 1) (- 1 / theta).

(* x_first_derivative(u), d = 2 (finite non-zero arguments) *)
Definition clayton_xderiv2 (theta eta u v : R) : R :=
  let factor := if Rleb 0 (u * v) then eta else - (1 - eta) in
  (1 * (1 + theta)) * factor * (Rpower (Rabs (u * v)) (- theta - 1)
     * Rpower (Rpower (Rabs u) (- theta) + Rpower (Rabs v) (- theta)) (- 1 / theta - 2)).

(* ---- what "is a Levy copula" means for a function on extended reals (d = 2, 3) ------------------
   grounded, d-increasing, uniform one-dimensional margins (computed by `margin` as the code does).
   The increasing clause is about rectangles (u1,u2] x ... of (-inf, inf]^d with at least one side
   finite at both ends: then no corner has all entries infinite (where the code's values are +-inf/nan
   and the models do not apply). *)
Definition finite_side (u1 u2 : ext R) : bool := is_fin RNum u1 && is_fin RNum u2.

Definition copula2_ok (cop : list (ext R) -> R) : Prop :=
  (forall v, cop [Fin 0; v] = 0 /\ cop [v; Fin 0] = 0) /\
  (forall u1 u2 v1 v2, @xleb RNum u1 u2 = true -> @xleb RNum v1 v2 = true ->
     (finite_side u1 u2 || finite_side v1 v2)%bool = true ->
     0 <= cop [u2; v2] - cop [u2; v1] - cop [u1; v2] + cop [u1; v1]) /\
  (forall u : R, margin RNum cop [0%nat] 2 [Fin u] = u /\ margin RNum cop [1%nat] 2 [Fin u] = u).

Definition copula3_ok (cop : list (ext R) -> R) : Prop :=
  (forall u v, cop [Fin 0; u; v] = 0 /\ cop [u; Fin 0; v] = 0 /\ cop [u; v; Fin 0] = 0) /\
  (forall u1 u2 v1 v2 w1 w2, @xleb RNum u1 u2 = true -> @xleb RNum v1 v2 = true -> @xleb RNum w1 w2 = true ->
     (finite_side u1 u2 || finite_side v1 v2 || finite_side w1 w2)%bool = true ->
     0 <= cop [u2; v2; w2] - cop [u2; v2; w1] - cop [u2; v1; w2] + cop [u2; v1; w1]
          - cop [u1; v2; w2] + cop [u1; v2; w1] + cop [u1; v1; w2] - cop [u1; v1; w1]) /\
  (forall u : R, margin RNum cop [0%nat] 3 [Fin u] = u /\ margin RNum cop [1%nat] 3 [Fin u] = u /\ margin RNum cop [2%nat] 3 [Fin u] = u).

(* ---- totalisation made explicit (C11-4): the values the (repaired) code returns on vectors whose entries are ALL infinite.
   indep / dep / clayton above are only meaningful when at least one entry is finite; there the extended value below is
   Fin of them.  All-infinite vectors:
     independent: sum_k u_k * prod_{j<>k}[u_j == +inf]  ->  +inf if all +inf, -inf if exactly one -inf and the rest +inf, else 0
     dependent  : all +inf -> +inf; all -inf -> -(-inf) * eps = +inf (d even) / -inf (d odd); mixed -> 0
     Clayton    : 0 ** (-1/theta) = inf times 2^(2-d) factor: +-inf, and nan when the factor is 0 (eta in {0,1}): NOT modelled.
   copula2_ok / copula3_ok exclude rectangles with no finite side precisely because such corners are infinite. *)
Section Total.
  Variable N : Num.
  Notation E := (ext N).
  Definition all_inf (us : list E) : bool := forallb (fun x => negb (is_fin N x)) us.
  Definition count_ninf (us : list E) : nat := length (filter (fun x => match x with NInf => true | _ => false end) us).
  Definition indep_x (us : list E) : E :=
    if all_inf us then (match count_ninf us with O => PInf | S O => NInf | _ => Fin (n0 N) end) else Fin (indep N us).
  Definition dep_x (us : list E) : E :=
    if all_inf us then
      (if Nat.eqb (count_ninf us) 0 then PInf
       else if Nat.eqb (count_ninf us) (length us) then (if Nat.odd (length us) then NInf else PInf)
       else Fin (n0 N))
    else Fin (dep N us).
End Total.

(* C04 (wave 5) -- hand model of the variance matrix of a copula chain:
     rpylib/process/markovchain/markovchainlevycopula.py  MCLevyCopulaSimulation.__init__ (:179-212)
       model_variance = diag(sigma_k^2); adj_matrix = zeros
       if not model.jump_of_finite_variation():           # JOINT flag (LevyCopulaModel, repaired d166938: all margins of finite variation)
           outputs = iter([vol_adjustment_ij(i, j, h, model) for i in range(d) for j in range(i, d)])   (computed in a pool)
           for i in range(d): adj[i,i] = next(outputs); for j in range(i+1, d): adj[i,j] = adj[j,i] = next(outputs)
       for i, m in enumerate(models): if m.jump_of_finite_variation(): adj[i,:] = 0; adj[:,i] = 0     # margin flags
       variance_matrix = adj_matrix + model_variance;  diffusion_matrix = sqrtm(variance_matrix)
   The quadrature vol_adjustment_ij (scipy nquad of the copula mass) is NOT modelled: its results are the list `outs` (data in the
   correspondence, `pool_outputs vadj d` in the theorems).  Matrices are functions nat -> nat -> Q. *)
From Coq Require Import ZArith QArith Qabs List Bool Lia Arith.
From RV Require Import Base.QB.
Import ListNotations.
Open Scope Q_scope.

Definition mat := nat -> nat -> Q.
Definition upd (M : mat) (i j : nat) (v : Q) : mat := fun r c => if Nat.eqb r i && Nat.eqb c j then v else M r c.

(* one row of the unpacking loop: j runs over i, i+1, .., d-1 (the diagonal entry is stored twice with the same value);
   an exhausted iterator (StopIteration) leaves the matrix as it is -- never reached when outs has d(d+1)/2 entries *)
Fixpoint fill_row (i : nat) (js : list nat) (outs : list Q) (M : mat) : list Q * mat :=
  match js with
  | [] => (outs, M)
  | j :: js' => match outs with
                | [] => (outs, M)
                | v :: outs' => fill_row i js' outs' (upd (upd M i j v) j i v)
                end
  end.
Fixpoint fill (d : nat) (is_ : list nat) (outs : list Q) (M : mat) : mat :=
  match is_ with
  | [] => M
  | i :: is' => let '(outs', M') := fill_row i (seq i (d - i)) outs M in fill d is' outs' M'
  end.
(* the list comprehension handed to the pool, in its order *)
Definition pool_outputs (vadj : nat -> nat -> Q) (d : nat) : list Q :=
  flat_map (fun i => map (vadj i) (seq i (d - i))) (seq 0 d).

(* the margin loop: row and column i are zeroed when margin i has jumps of finite variation *)
Definition zero_cross (M : mat) (i : nat) : mat := fun r c => if Nat.eqb r i || Nat.eqb c i then 0 else M r c.
Fixpoint zero_fv (flags : list bool) (i : nat) (M : mat) : mat :=
  match flags with
  | [] => M
  | f :: fl => zero_fv fl (S i) (if f then zero_cross M i else M)
  end.

Definition zeros : mat := fun _ _ => 0.
(* variance_matrix, from the pool's outputs as a list *)
Definition copula_variance_matrix_outs (d : nat) (joint_fv : bool) (flags : list bool) (sig2 : list Q) (outs : list Q) : mat :=
  let adj1 := if negb joint_fv then fill d (seq 0 d) outs zeros else zeros in
  let adj2 := zero_fv flags 0 adj1 in
  fun r c => adj2 r c + (if Nat.eqb r c then nth r sig2 0 else 0).
Definition copula_variance_matrix (d : nat) (joint_fv : bool) (flags : list bool) (sig2 : list Q) (vadj : nat -> nat -> Q) : mat :=
  copula_variance_matrix_outs d joint_fv flags sig2 (pool_outputs vadj d).

(* LevyCopulaModel.jump_of_finite_variation (levycopulamodel.py:140-142, repaired by d166938 / F-C04-5): all margins have jumps of
   finite variation *)
Definition copula_joint_fv_all (flags : list bool) : bool := forallb (fun f => f) flags.
(* ... before the repair: blumenthal_getoor_index() <= 1 with the index = max over the margins (kept for the Example
   C04_copula_joint_flag_before_repair only) *)
Definition copula_joint_fv_orig (bgs : list Q) : bool := forallb (fun b => Qle_bool b 1) bgs.

(* variance_matrix of the current code: the joint flag is computed from the margins' flags *)
Definition copula_variance_matrix_cur (d : nat) (flags : list bool) (sig2 : list Q) (vadj : nat -> nat -> Q) : mat :=
  copula_variance_matrix d (copula_joint_fv_all flags) flags sig2 vadj.

Definition sym_entry (vadj : nat -> nat -> Q) (r c : nat) : Q := if Nat.leb r c then vadj r c else vadj c r.
Definition mat_rows (d : nat) (M : mat) : list (list Q) := map (fun r => map (M r) (seq 0 d)) (seq 0 d).
Definition memb (x : nat) (l : list nat) : bool := existsb (Nat.eqb x) l.

(* executable: what the correspondence compares with the matrix handed to scipy.linalg.sqrtm; margins = (sigma_k, flag_k) *)
Definition copula_chain_variance_matrix_j (joint_fv : bool) (ms : list (Q * bool)) (outs : list Q) : list (list Q) :=
  let d := length ms in
  mat_rows d (copula_variance_matrix_outs d joint_fv (map snd ms) (map (fun m => fst m * fst m) ms) outs).
Definition copula_chain_variance_matrix (ms : list (Q * bool)) (outs : list Q) : list (list Q) :=
  copula_chain_variance_matrix_j (copula_joint_fv_all (map snd ms)) ms outs.
(* the code before d166938: joint flag from the Blumenthal-Getoor indices *)
Definition copula_chain_variance_matrix_orig (bgs : list Q) (ms : list (Q * bool)) (outs : list Q) : list (list Q) :=
  copula_chain_variance_matrix_j (copula_joint_fv_orig bgs) ms outs.

(* ================= wave 8 (audit 5a, B6): WHAT vol_adjustment_ij integrates, on 2-d density tables =================
   markovchainlevycopula.py:50-62,76-81: ranges = [-h/2, h/2]^d for EVERY coordinate;
     i = j : 2/h^(d-1) * int_cube |s_i| * mass([s_i, h/2] (or [-h/2, s_i]) x central cell of the OTHER coordinates) ds
           = int over the central CUBE of x_i^2 nu(dx)                                (Fubini; not formalised -- tied numerically)
     i <> j: 1/h^(d-2) * int_cube sign(s_i) sign(s_j) * mass(...) ds = int over the central cube of x_i x_j nu(dx)
   NOT the margin's central cell {|x_i| <= h/2} x R^(d-1): jumps with |x_i| <= h/2 and some |x_j| > h/2 are left out.
   Tables: pieces (lo1, hi1, lo2, hi2, density), each inside one closed quadrant (harness/stepmeasure.py Table2); the margins of
   a table are step measures and LevyCopulaModel.mass of a rectangle is the integral of the density. *)
(* int_{[lo,hi] cap [a,b]} x^n dx for n = 0, 1, 2 (0 when the intersection is empty) *)
Definition clip_m0 (lo hi a b : Q) : Q := let l := Qmaxb lo a in let u := Qminb hi b in if Qle_bool l u then u - l else 0.
Definition clip_m1 (lo hi a b : Q) : Q := let l := Qmaxb lo a in let u := Qminb hi b in if Qle_bool l u then (u * u - l * l) / 2 else 0.
Definition clip_m2 (lo hi a b : Q) : Q := let l := Qmaxb lo a in let u := Qminb hi b in if Qle_bool l u then (u * u * u - l * l * l) / 3 else 0.
Definition table2 := list (Q * Q * Q * Q * Q).
Definition qsum' (l : list Q) : Q := fold_right Qplus 0 l.
(* int over [a1,b1] x [a2,b2] of x_k^2 nu(dx) (k = 0, 1) and of x_0 x_1 nu(dx) *)
Definition tab2_m2 (t : table2) (k : nat) (a1 b1 a2 b2 : Q) : Q :=
  qsum' (map (fun p => match p with (lo1, hi1, lo2, hi2, d) =>
     d * (match k with O => clip_m2 lo1 hi1 a1 b1 * clip_m0 lo2 hi2 a2 b2 | _ => clip_m0 lo1 hi1 a1 b1 * clip_m2 lo2 hi2 a2 b2 end) end) t).
Definition tab2_m11 (t : table2) (a1 b1 a2 b2 : Q) : Q :=
  qsum' (map (fun p => match p with (lo1, hi1, lo2, hi2, d) => d * (clip_m1 lo1 hi1 a1 b1 * clip_m1 lo2 hi2 a2 b2) end) t).
(* vol_adjustment_ij on a table: the central cube *)
Definition tab2_vadj (t : table2) (h : Q) (i j : nat) : Q :=
  if Nat.eqb i j then tab2_m2 t i (- (h / 2)) (h / 2) (- (h / 2)) (h / 2) else tab2_m11 t (- (h / 2)) (h / 2) (- (h / 2)) (h / 2).
(* second-moment function of margin k of the table (the other coordinate runs over the whole support [-big, big]):
   what the 1-d chain of that margin integrates over its central cell *)
Definition tab2_margin_m2 (t : table2) (big : Q) (k : nat) (a b : Q) : Q :=
  match k with O => tab2_m2 t 0 a b (- big) big | _ => tab2_m2 t 1 (- big) big a b end.
(* second moment of x_k over the part of margin k's central cell that lies OUTSIDE the central cube *)
Definition tab2_strip_gap (t : table2) (big h : Q) (k : nat) : Q :=
  tab2_margin_m2 t big k (- (h / 2)) (h / 2) - tab2_vadj t h k k.
(* executable: the matrix handed to sqrtm by the copula chain of a table whose two margins are flagged infinite variation *)
Definition table_chain_variance_matrix (t : table2) (h s0 s1 : Q) : list (list Q) :=
  copula_chain_variance_matrix [(s0, false); (s1, false)] [tab2_vadj t h 0 0; tab2_vadj t h 0 1; tab2_vadj t h 1 1].

(* C11 (wave 5) -- further hand models of rpylib/distribution/levycopula.py, on top of Model/Copula.v:

   1. clayton_xderiv : ClaytonCopula.x_first_derivative for ANY dimension (list of finite reals), including the
      `np.any(u == 0) -> 0` branch, theta_prod = prod_{k<d} (1 + k theta), 2 ** (2 - d), factor by the sign of
      np.prod(u), term1 = |prod u| ** (-theta-1), term2 = (sum |u_i| ** -theta) ** (-1/theta - d).
   2. clayton_cond_x : ClaytonCopula._condition_distribution_2d on the values Rpower cannot express, i.e. with numpy's
      IEEE conventions written out on an extended non-negative number (`ext R`, only Fin r with 0 <= r, and PInf occur):
         eps / x          : x = +-inf -> 0;  x = 0, eps <> 0 -> +-inf (abs: +inf);  x = 0 = eps -> nan  (EXCLUDED: see cond_defined)
         np.power(r, th)  : th > 0:  0 -> 0,  +inf -> +inf, else r ** th
         1 + r            : +inf -> +inf
         np.power(s, a)   : a = -1 - 1/th < 0, s >= 1:  +inf -> 0, else s ** a
      x is an extended real (the code is called with +-np.inf), eps a finite real (eps = 0 included).
   3. dep_cond : DependentComponentsCopula.conditional_distribution = np.count_nonzero(x == np.inf). *)
From Coq Require Import List Arith Bool Reals Lra.
From RV Require Import Base.RB Base.ExtNum Model.Copula.
Import ListNotations.
Open Scope R_scope.

(* ---- 1. x_first_derivative(u), any dimension ------------------------------------------------------------------ *)
Definition theta_prod (theta : R) (d : nat) : R := fold_left Rmult (map (fun k => 1 + INR k * theta) (seq 0 d)) 1.
Definition clayton_xderiv (theta eta : R) (us : list R) : R :=
  if existsb (fun v => Reqb v 0) us then 0
  else let d := length us in
       let u_prod := fold_left Rmult us 1 in
       let factor := if Rleb 0 u_prod then eta else - (1 - eta) in
       Rpower 2 (2 - INR d) * theta_prod theta d * factor *
         (Rpower (Rabs u_prod) (- theta - 1) * Rpower (fold_left Rplus (map (fun v => Rpower (Rabs v) (- theta)) us) 0) (- 1 / theta - INR d)).

(* ---- 2. _condition_distribution_2d on the extended domain ------------------------------------------------------- *)
(* abs(eps / x) as an extended non-negative number; (eps, x) = (0, 0) is nan in the code and NOT modelled (guard: cond_defined) *)
Definition cond_defined (eps : R) (x : ext R) : bool := match x with Fin v => negb (Reqb v 0 && Reqb eps 0) | _ => true end.
Definition abs_ratio (eps : R) (x : ext R) : ext R :=
  match x with
  | Fin v => if Reqb v 0 then PInf else Fin (Rabs (eps / v))
  | _ => Fin 0
  end.
Definition np_power_pos (r : ext R) (theta : R) : ext R :=        (* np.power(r, theta), r >= 0, theta > 0 *)
  match r with Fin v => if Reqb v 0 then Fin 0 else Fin (Rpower v theta) | _ => PInf end.
Definition xadd1 (r : ext R) : ext R := match r with Fin v => Fin (1 + v) | _ => PInf end.
Definition np_power_neg (s : ext R) (a : R) : R :=                (* np.power(s, a), s >= 1, a < 0 *)
  match s with Fin v => Rpower v a | _ => 0 end.
Definition cond_core_x (theta eps : R) (x : ext R) : R :=
  np_power_neg (xadd1 (np_power_pos (abs_ratio eps x) theta)) (- 1 - 1 / theta).
Definition clayton_cond_x (theta eta eps : R) (x : ext R) : R :=
  let core := cond_core_x theta eps x in
  if Rleb 0 eps then 1 - eta + core * (eta - (if @xlt0 RNum x then 1 else 0))
  else eta + core * ((if @xge0 RNum x then 1 else 0) - eta).

(* ---- 3. DependentComponentsCopula.conditional_distribution ------------------------------------------------------ *)
Definition dep_cond {A : Type} (x : list (ext A)) : nat := length (filter (fun t => match t with PInf => true | _ => false end) x).

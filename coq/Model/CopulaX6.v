(* C11 (wave 6) -- further hand models of rpylib/distribution/levycopula.py on top of Model/Copula.v and Model/CopulaX.v, for the
   values Rpower cannot express (numpy's IEEE conventions written out step by step on extended reals `ext R`):

   4. clayton_inv_x : ClaytonCopula._inverse_conditional_distribution_2d(eps, u) on the CLOSED interval u in [0, 1], 0 < eta < 1:
         fun_c(eps, u) in [0, 1];   np.power(c, a), a = -theta/(theta+1) < 0:  c = 0 -> +inf, else c ** a   (>= 1)
         t - 1                      : +inf -> +inf
         np.power(t, -1/theta)      : t = 0 -> +inf,  t = +inf -> 0,  else t ** (-1/theta)
         fun_b * |eps| * w          : w = +inf -> +inf / -inf by the sign of fun_b * |eps|;  0 * inf = nan (EXCLUDED: inv_defined)
      hence u = 1 -> +inf, u = 0 -> -inf, u = the plateau value (1 - eta for eps >= 0, eta for eps < 0) -> 0 * |eps| * 0 = 0.
      (u outside [0,1]: np.power of a negative base = nan, not modelled: the theorems carry 0 <= u <= 1;  eta in {0, 1}: the selected
       np.where branch divides by 0, not modelled.)
   5. clayton_x : ClaytonCopula.__call__ on EVERY vector of extended reals of length >= 1: when all entries are infinite the code
      computes sum = 0, 0 ** (-1/theta) = +inf, 2 ** (2-d) * inf = inf, inf * factor = +inf / -inf by the sign of the factor
      (eta or -(1-eta));  inf * 0 = nan (EXCLUDED: clayton_x_defined) happens only for eta in {0, 1}.
   6. dep_strip xi h x : the volume (levycopulamodel.volume) that the completely dependent copula gives to the strip
      (xi, xi+h] x (-inf, x] -- h times the conditional distribution of the second coordinate given the first, which is what
      DependentComponentsCopula.conditional_distribution (model dep_cond, Model/CopulaX.v) is compared with. *)
From Coq Require Import List Arith Bool Reals Lra.
From RV Require Import Base.RB Base.ExtNum Model.Copula Model.CopulaX.
Import ListNotations.
Open Scope R_scope.

(* ---- 4. _inverse_conditional_distribution_2d on u in [0, 1] ------------------------------------------------------- *)
Definition np_power0_neg (c a : R) : ext R := if Reqb c 0 then PInf else Fin (Rpower c a).          (* np.power(c, a), c >= 0, a < 0 *)
Definition xsub1 (t : ext R) : ext R := match t with Fin v => Fin (v - 1) | _ => t end.             (* t - 1 *)
Definition np_powerx_neg (t : ext R) (a : R) : ext R :=                                             (* np.power(t, a), t in [0, +inf], a < 0 *)
  match t with Fin v => if Reqb v 0 then PInf else Fin (Rpower v a) | _ => Fin 0 end.
Definition xscale (k : R) (w : ext R) : ext R :=                                                    (* k * w, w in [0, +inf]; k = 0, w = inf is nan *)
  match w with Fin v => Fin (k * v) | _ => if Rltb 0 k then PInf else NInf end.
Definition inv_w (theta eta eps u : R) : ext R :=
  np_powerx_neg (xsub1 (np_power0_neg (clayton_fun_c eta eps u) (- theta / (theta + 1)))) (- 1 / theta).
Definition inv_defined (theta eta eps u : R) : bool :=
  negb (Reqb (clayton_fun_b eta eps u * Rabs eps) 0 && negb (is_fin RNum (inv_w theta eta eps u))).
Definition clayton_inv_x (theta eta eps u : R) : ext R := xscale (clayton_fun_b eta eps u * Rabs eps) (inv_w theta eta eps u).

(* ---- 5. ClaytonCopula.__call__ on all vectors, the all-infinite ones included ------------------------------------- *)
Definition clayton_factor (eta : R) (us : list (ext R)) : R := if sign_prod_neg us then - (1 - eta) else eta.
Definition clayton_x_defined (eta : R) (us : list (ext R)) : bool := negb (all_inf RNum us && Reqb (clayton_factor eta us) 0).
Definition clayton_x (theta eta : R) (us : list (ext R)) : ext R :=
  if all_inf RNum us then (if Rltb 0 (clayton_factor eta us) then PInf else NInf)
  else Fin (clayton theta eta us).

(* ---- 6. the strip volume behind a conditional distribution (d = 2) -------------------------------------------------- *)
Definition dep_strip (xi h : R) (x : ext R) : R := volume RNum (dep RNum) [Fin xi; NInf] [Fin (xi + h); x].

(* Hand-written companions of the generated Gen/GenC18Cos.v (rpylib/numerical/cosmethod.py, fft.py,
   closedform/cfblackscholes.py): the mathematical objects the generated formulas are compared with. *)
From Coq Require Import Reals.
From Coquelicot Require Import Coquelicot.
From RV Require Import Base.RB Gen.GenC18Cos.
Open Scope R_scope.

(* k-th cosine basis function of the COS expansion on [a,b] *)
Definition cosk (k a b y : R) : R := cos (k * PI / (b - a) * (y - a)).

(* antiderivatives used by COSPricer.xi / COSPricer.psi *)
Definition xi_prim (cst a x : R) : R := (cos (cst * (x - a)) * exp x + cst * sin (cst * (x - a)) * exp x) / (1 + cst ^ 2).
Definition psi_prim (cst a x : R) : R := sin (cst * (x - a)) / cst.

(* composite Simpson weights eta/3 * (1, 4, 2, 4, 2, ...) *)
Definition simpson_target (eta : R) (j : nat) : R :=
  match j with O => eta / 3 | S _ => if Nat.even j then 2 * eta / 3 else 4 * eta / 3 end.

(* Black-Scholes closed form: call = _call_put(+1), put = _call_put(-1) *)
Definition bs_call (Phi : R -> R) (r d spot sigma strike maturity : R) : R := bs_call_put Phi r d spot sigma 1 strike maturity.
Definition bs_put (Phi : R -> R) (r d spot sigma strike maturity : R) : R := bs_call_put Phi r d spot sigma (-1) strike maturity.
Definition bs_degenerate (spot sigma maturity : R) : bool :=
  Rltb sigma (1 / 100000000) || Rltb spot (1 / 100000000) || Rltb maturity (1 / 100000000).

(* the standard normal distribution function as an integral (used by the Interval case lemmas that tie
   CFBlackScholes._call_put to scipy.stats.norm.cdf) *)
Definition PhiR (x : R) : R := 1 / 2 + / sqrt (2 * PI) * RInt (fun t => exp (- (t * t) / 2)) 0 x.

(* ExponentialOfLevyModel.__init__: z = complex(levy_exponent(x=-1j)) enters as the data (finite1 = np.isfinite(z), z_re, z_im);
   the generated guard decides, None = ValueError.  On the real reading z_re = kappa(1), z_im = 0 inside the strip where
   E[exp(u L_1)] exists; beyond it the closed forms give inf (HEM at the pole), a complex power (CGMY) or the log of a negative
   number (VG), i.e. finite1 = false or z_im <> 0 -- the branch that fires is an observation on the implementation (harness). *)
Definition exp_omega_checked (finite1 : bool) (z_re z_im : R) : option R :=
  if exp_omega_raises finite1 z_re z_im then None else Some (exp_omega z_re).
(* ExponentialOfHEMModel.__init__: its own guard first (the HEM closed form is finite and real beyond the pole), then the generic one *)
Definition hem_exp_omega_checked (eta1 : R) (finite1 : bool) (z_re z_im : R) : option R :=
  if hem_exp_raises eta1 then None else exp_omega_checked finite1 z_re z_im.
(* ExponentialOfCGMYModel.__init__: its own guard (m < 1, or m = 1 with y <= 0) first, then the generic one *)
Definition cgmy_exp_omega_checked (m y : R) (finite1 : bool) (z_re z_im : R) : option R :=
  if cgmy_exp_raises m y then None else exp_omega_checked finite1 z_re z_im.
(* where 1 lies in the strip, per family (right-tail rate > 1): HEM eta1, CGMY M, VG lambda_+ *)
Definition strip_contains_one (tail_rate : R) : bool := Rltb 1 tail_rate.

(* E[S_t^u] for a constructed exponential model, composed exactly as ExponentialOfLevyModel.log_characteristic_function does
   (read at x = -i u):  exp(u (log_spot + t (r - d + omega))) * exp(t kappa(u)),  omega = -kappa(1)  (generated pieces) *)
Definition exp_mgf (kappa : R -> R) (r d : R) (log_spot t u : R) : R :=
  exp_mgf_formula log_spot t (exp_drift r d (exp_omega (exp_exponent_at_minus_i kappa))) (levy_mgf t (kappa u)) u.

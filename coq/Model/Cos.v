(* Hand-written companions of the generated Gen/GenC18Cos.v (rpylib/numerical/cosmethod.py, fft.py,
   closedform/cfblackscholes.py): the mathematical objects the generated formulas are compared with. *)
From Coq Require Import Reals.
From Coquelicot Require Import Coquelicot.
From RV Require Import Base.RB Gen.GenC18Cos.
Open Scope R_scope.

(* k-th cosine basis function of the COS expansion on [a,b] *)
Definition cosk (k a b y : R) : R := cos (k * PI / (b - a) * (y - a)).

(* antiderivatives used by COSPricer.xi / COSPricer.psi *)
Definition xi_prim (cst a x : R) : R := (cos (cst * (x - a)) * exp x + cst * sin (cst * (x - a)) * exp x) / (1 + cst ^ 2).
Definition psi_prim (cst a x : R) : R := sin (cst * (x - a)) / cst.

(* composite Simpson weights eta/3 * (1, 4, 2, 4, 2, ...) *)
Definition simpson_target (eta : R) (j : nat) : R :=
  match j with O => eta / 3 | S _ => if Nat.even j then 2 * eta / 3 else 4 * eta / 3 end.

(* Black-Scholes closed form: call = _call_put(+1), put = _call_put(-1) *)
Definition bs_call (Phi : R -> R) (r d spot sigma strike maturity : R) : R := bs_call_put Phi r d spot sigma 1 strike maturity.
Definition bs_put (Phi : R -> R) (r d spot sigma strike maturity : R) : R := bs_call_put Phi r d spot sigma (-1) strike maturity.
Definition bs_degenerate (spot sigma maturity : R) : bool :=
  Rltb sigma (1 / 100000000) || Rltb spot (1 / 100000000) || Rltb maturity (1 / 100000000).

(* the standard normal distribution function as an integral (used by the Interval case lemmas that tie
   CFBlackScholes._call_put to scipy.stats.norm.cdf) *)
Definition PhiR (x : R) : R := 1 / 2 + / sqrt (2 * PI) * RInt (fun t => exp (- (t * t) / 2)) 0 x.

(* ExponentialOfLevyModel.__init__ on the real reading (the exponent on the imaginary axis x = -i is kappa(1), its imaginary part 0):
   `finite1` says whether kappa(1) is finite, i.e. whether 1 lies in the strip where E[exp(u L_1)] exists.  None = ValueError. *)
Definition exp_omega_checked (finite1 : bool) (kappa : R -> R) : option R :=
  let z := exp_exponent_at_minus_i kappa in
  if exp_omega_raises finite1 z 0 then None else Some (exp_omega z).

(* E[S_t^u] for a constructed exponential model, composed exactly as ExponentialOfLevyModel.log_characteristic_function does
   (read at x = -i u):  exp(u (log_spot + t (r - d + omega))) * exp(t kappa(u)),  omega = -kappa(1)  (generated pieces) *)
Definition exp_mgf (kappa : R -> R) (r d : R) (log_spot t u : R) : R :=
  exp_mgf_formula log_spot t (exp_drift r d (exp_omega (exp_exponent_at_minus_i kappa))) (levy_mgf t (kappa u)) u.

(* C18, wave 5.  Compositions of the generated pieces of COSPricer (Gen/GenC18Cos.v) with the hand model cos_sum of the pricing
   sum (Model/CosSum.v), and two yardsticks that are NOT in the code.

   In the code (rpylib/numerical/cosmethod.py), with A_k = Re(cf(u_k) e^{-i u_k log_spot} e^{i u_k (x-a)}), x = log(S/K):
     _pricing_formula(x, T, a, b, V) = df * sum' A_k V_k                 = cos_pricing_formula df (cos_sum n A V)   [generated * hand]
     put(K)     = K * _pricing_formula(.., u_put)                         = cos_put K (...)                          [generated]
     digital(K) = _pricing_formula(.., 2/(b-a) psi(k,a,b,0,b))            = cos_digital (...)                        [generated]
     cdf(K)     = 1 - digital(K) / df                                     = cos_cdf df (...)                         [generated]
     call(K)    = forward(K) + put(K)                                     = cos_call df fwd put K                    [generated]
     butterfly  = calls[0] - 2 calls[1] + calls[2]                        = cos_butterfly                            [generated]
     _interval_a_b = (c1 - delta, c1 + delta), delta = l sqrt(c2 + sqrt(c4 + sqrt(c6)))  = cos_window / cos_window_delta [generated]
   n below is the LAST index: the sums have n+1 terms (COSPricer.n = n+1). *)
From Coq Require Import Reals.
From RV Require Import Base.RB Gen.GenC18Cos Model.Cos Model.CosSum.
Open Scope R_scope.

Definition cos_put_coeffs (uninit a b : R) : nat -> R := fun k => cos_u_put uninit (INR k) a b.
Definition cos_digital_coeffs (uninit a b : R) : nat -> R := fun k => cos_digital_vk uninit (INR k) a b.

Definition cos_put_price (uninit : R) (n : nat) (A : nat -> R) (a b df K : R) : R :=
  cos_put K (cos_pricing_formula df (cos_sum n A (cos_put_coeffs uninit a b))).
Definition cos_digital_price (uninit : R) (n : nat) (A : nat -> R) (a b df : R) : R :=
  cos_digital (cos_pricing_formula df (cos_sum n A (cos_digital_coeffs uninit a b))).
Definition cos_cdf_value (uninit : R) (n : nat) (A : nat -> R) (a b df : R) : R :=
  cos_cdf df (cos_digital_price uninit n A a b df).
Definition cos_call_price (uninit : R) (n : nat) (A : nat -> R) (a b df fwd K : R) : R :=
  cos_call df fwd (cos_put_price uninit n A a b df K) K.

(* YARDSTICKS, not in the code: the cosine coefficients of the call payoff (e^y - 1)^+ = e^y - 1 on [0,b] and of the forward
   payoff e^y - 1 on the whole window [a,b] (both in units of the strike), built from the generated xi / psi.  Fang-Oosterlee
   price the call with cos_u_call; the code prices it by parity instead. *)
Definition cos_u_call (uninit k a b : R) : R := 2 / (b - a) * (cos_xi k a b 0 b - cos_psi uninit k a b 0 b).
Definition cos_u_fwd (uninit k a b : R) : R := 2 / (b - a) * (cos_xi k a b a b - cos_psi uninit k a b a b).
Definition cos_call_coeffs (uninit a b : R) : nat -> R := fun k => cos_u_call uninit (INR k) a b.
Definition cos_fwd_coeffs (uninit a b : R) : nat -> R := fun k => cos_u_fwd uninit (INR k) a b.
(* the call as the COS method would price it directly, and the forward as the COS sum sees it *)
Definition cos_call_direct (uninit : R) (n : nat) (A : nat -> R) (a b df K : R) : R :=
  K * cos_pricing_formula df (cos_sum n A (cos_call_coeffs uninit a b)).
Definition cos_fwd_direct (uninit : R) (n : nat) (A : nat -> R) (a b df K : R) : R :=
  K * cos_pricing_formula df (cos_sum n A (cos_fwd_coeffs uninit a b)).

(* CFBlackScholes.digital with the model's parameters, degenerate test as in Model/Cos.v (bs_degenerate) *)
Definition bs_d2 (r d S sigma K T : R) : R := ln (S * exp ((r - d) * T) / K) / (sigma * sqrt T) - 1 / 2 * (sigma * sqrt T).

(* Hand model of COSPricer._pricing_formula and COSPricer.density (rpylib/numerical/cosmethod.py), real part taken
   termwise.  With w_0 = 1/2, w_k = 1 (self._weights) and u_k = k pi/(b-a):

     _pricing_formula(x, T, a, b, V) = df * sum_{k<n} w_k * A_k * V_k ,   A_k = Re( cf(u_k) e^{-i u_k log_spot} e^{i u_k (x - a)} )
     (x = log(S/K); V_k the payoff coefficients)                                                        -> cos_sum

     density(T, s)  (cosmethod.py:72-82):  the window is shifted by log_spot, a' = a + x0, b' = b + x0, and
       density = sum_{k<n} cos(u_k (ln s - a')) * w_k * 2/(b'-a') * B_k / s ,  B_k = Re( cf(u_k) e^{-i a' u_k} )   -> cos_density_impl

   cos_density n A a b y = sum_k w_k A_k 2/(b-a) cos(u_k (y - a)) is the cosine series in the variable y; it is
     (i)  with A := B, window [a',b'] and y := ln s : exactly s * density(T, s)   (lemma cos_density_impl_eq), and
     (ii) with the pricing numbers A_k(x) and window [a,b] : the series the pricing sum integrates the payoff against
          (theorem C18_cos_is_integral), in the variable y = log(S_T/K).
   (i) and (ii) use the same characteristic-function values but DIFFERENT windows unless K = S (x = 0, where A_k = B_k):
   for K <> S the series of (ii) is not COSPricer.density -- the pricer never shifts its window with the strike.
   Both cos_sum and cos_density_impl are tied to the implementation by Interval case lemmas on pricers with 3-5 terms
   (A_k resp. B_k fed as data). *)
From Coq Require Import Reals.
From RV Require Import Base.RB Gen.GenC18Cos Model.Cos.
Open Scope R_scope.

Definition cos_weight (k : nat) : R := match k with O => 1 / 2 | S _ => 1 end.
(* sum over k = 0..n  (n+1 terms) *)
Definition cos_sum (n : nat) (A V : nat -> R) : R := sum_f_R0 (fun k => cos_weight k * A k * V k) n.
Definition cos_density (n : nat) (A : nat -> R) (a b y : R) : R :=
  sum_f_R0 (fun k => cos_weight k * A k * (2 / (b - a) * cosk (INR k) a b y)) n.
(* line by line: cst = ks*pi/(b-a) [shifted a, b]; fk = 2/(b-a)*B; cosines = cos((log s - a)*cst); sum(cosines*weights*fk)/s *)
Definition cos_density_impl (n : nat) (B : nat -> R) (a b x0 s : R) : R :=
  let a' := a + x0 in let b' := b + x0 in
  sum_f_R0 (fun k => cos ((ln s - a') * (INR k * PI / (b' - a'))) * cos_weight k * (2 / (b' - a') * B k)) n / s.

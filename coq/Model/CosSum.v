(* Hand model of COSPricer._pricing_formula and COSPricer.density (rpylib/numerical/cosmethod.py), real part taken
   termwise:   price = df * sum_{k<n} w_k * A_k * V_k   with  w_0 = 1/2, w_k = 1  (self._weights) and
   A_k = Re( cf(u_k) * exp(-i u_k log_spot) * exp(i u_k (x - a)) ),  u_k = k pi/(b-a);  V_k the payoff coefficients.
   COSPricer.density reconstructs from the same numbers  f_N(y) = sum_{k<n} w_k * A_k * 2/(b-a) * cos(k pi (y-a)/(b-a)).
   Tied to the implementation by Interval case lemmas on small n (A_k fed as data). *)
From Coq Require Import Reals.
From RV Require Import Base.RB Gen.GenC18Cos Model.Cos.
Open Scope R_scope.

Definition cos_weight (k : nat) : R := match k with O => 1 / 2 | S _ => 1 end.
(* sum over k = 0..n  (n+1 terms) *)
Definition cos_sum (n : nat) (A V : nat -> R) : R := sum_f_R0 (fun k => cos_weight k * A k * V k) n.
Definition cos_density (n : nat) (A : nat -> R) (a b y : R) : R :=
  sum_f_R0 (fun k => cos_weight k * A k * (2 / (b - a) * cosk (INR k) a b y)) n.

(* Hand-written model of the one-dimensional level coupling:
     rpylib/process/coupling/couplingmarkovchain.py
        CouplingSimulation.probability_to_right_jump (:171-188), coupling_state (:190-209),
        coupling_states_for_a_slice (:211-222), simulate_diffusion_with_coupling (:153-166),
        CouplingMarkovChain.__init__ / next_level (:26-43, :85-141)
   over Model/Grid.v (refine), Model/Chain.v (cells, rates) and Model/Drift.v (drift, diffusion coefficient).
   `mass` is fine_process.model.mass: the measure truncated to the grid's end points (unchanged by refine). *)
From Coq Require Import ZArith QArith Qabs List Bool Lia.
From RV Require Import Base.QB Model.Grid Gen.GenC01Trunc Gen.GenC04Triplet Model.Chain Model.Drift.
Import ListNotations.
Open Scope Q_scope.

Section Coupling.
  Variable mid : Q -> Q -> Q.
  Variable mass : Q -> Q -> Q.

  (* probability_to_right_jump at the fine index p = origin + increment:
       val_right = mass(x_p, mid_point_right); val_left = mass(mid_point_left, x_p); val_right/(val_left+val_right)
     Python floats: 0.0/0.0 raises ZeroDivisionError -> None *)
  Definition val_left (xs : list Q) (p : nat) : Q := mass (cell_lo mid xs p) (nthq xs p).
  Definition val_right (xs : list Q) (p : nat) : Q := mass (nthq xs p) (cell_hi mid xs p).
  Definition prob_right_at (xs : list Q) (p : nat) : option Q :=
    let d := val_left xs p + val_right xs p in
    if Qeq_bool d 0 then None else Some (val_right xs p / d).

  Definition position (o : nat) (inc : Z) : nat := Z.to_nat (Z.of_nat o + inc).
  Definition prob_right (xs : list Q) (o : nat) (inc : Z) : option Q := prob_right_at xs (position o inc).

  (* coupling_state(increment) with the coupling uniform u: the VALUE added to the coarse path *)
  Definition coupling_state (xs : list Q) (o : nat) (inc : Z) (u : Q) : option Q :=
    let p := position o inc in
    if Z.eqb (inc mod 2) 0 then Some (nthq xs p)
    else match prob_right_at xs p with
         | None => None
         | Some pr => Some (if Qltb u pr then right_point xs p else left_point xs p)
         end.
  (* the same as an index of the fine axis *)
  Definition coupling_index (xs : list Q) (p : nat) (u : Q) : option nat :=
    if Nat.even p then Some p
    else match prob_right_at xs p with
         | None => None
         | Some pr => Some (if Qltb u pr then Nat.min (length xs - 1) (p + 1) else Nat.pred p)
         end.

  (* coupling_states_for_a_slice: running sum of the coupled values, starting from grid.origin = 0.0 *)
  Fixpoint coupling_slice (xs : list Q) (o : nat) (incs : list Z) (us : list Q) (cur : Q) : option (list Q) :=
    match incs with
    | [] => Some []
    | inc :: r =>
        if Z.eqb (inc mod 2) 0
        then match coupling_state xs o inc 0 with
             | Some v => option_map (cons (cur + v)) (coupling_slice xs o r us (cur + v))
             | None => None end
        else match us with
             | [] => None
             | u :: us' => match coupling_state xs o inc u with
                           | Some v => option_map (cons (cur + v)) (coupling_slice xs o r us' (cur + v))
                           | None => None end
             end
    end.

  (* law of the coupled coarse state: P(fine index p -> fine index t), u uniform on [0,1) *)
  Definition prob_to (xs : list Q) (p t : nat) : Q :=
    if Nat.even p then (if Nat.eqb p t then 1 else 0)
    else match prob_right_at xs p with
         | None => 0                                   (* a state of zero rate: never sampled *)
         | Some pr => (if Nat.eqb (p + 1) t then pr else 0) + (if Nat.eqb p (t + 1) then 1 - pr else 0)
         end.
  (* total rate at which the coupled coarse path jumps by the state at fine index t *)
  Definition inflow (xs : list Q) (o t : nat) : Q :=
    qsum (map (fun p => q_entry mid mass xs o p * prob_to xs p t) (seq 0 (length xs))).
End Coupling.

(* simulate_diffusion_with_coupling: one list w of Brownian increments, two coefficients *)
Fixpoint cumsum_from (acc : Q) (l : list Q) : list Q :=
  match l with [] => [] | x :: r => (acc + x) :: cumsum_from (acc + x) r end.
Definition diffusion_path (coef : Q) (sqrt_dts w : list Q) : list Q :=
  cumsum_from 0 (map (fun sw => fst sw * coef * snd sw) (combine sqrt_dts w)).
Definition diffusion_pair (coef_fine coef_coarse : Q) (sqrt_dts w : list Q) : list Q * list Q :=
  (diffusion_path coef_fine sqrt_dts w, diffusion_path coef_coarse sqrt_dts w).

(* ---- the level state machine.  sig2_of / drift_of give the squared equivalent diffusion coefficient and the
   process drift of the chain MarkovChainProcess builds on a grid (Model/Drift.v for the concrete chain) *)
Record cstate := {
  c_level : nat; c_grid : grid;
  c_sig2_fine : Q; c_sig2_coarse : Q;
  c_drift_fine : Q; c_drift_coarse : option Q;       (* None: no coupled path manager exists yet (level 0) *)
}.

Section Levels.
  Variable mid : Q -> Q -> Q.
  Variable sig2_of : grid -> Q.
  Variable drift_of : grid -> Q.
  Variable x0 : Q.

  (* CouplingMarkovChain.__init__ followed by initialisation(product) *)
  Definition init_state (g : grid) : cstate :=
    {| c_level := 0; c_grid := g; c_sig2_fine := sig2_of g; c_sig2_coarse := 0;
       c_drift_fine := drift_of g; c_drift_coarse := None |}.

  (* next_level: freeze_spots = path(0), freeze_process_drift = path(1) - path(0) with path(t) = x0 + drift*t;
     level += 1; grid.refine(); coarse coefficient := old fine; new fine process on the refined grid *)
  Definition next_level (s : cstate) : cstate :=
    let g' := refine mid (c_grid s) in
    {| c_level := S (c_level s); c_grid := g';
       c_sig2_fine := sig2_of g'; c_sig2_coarse := c_sig2_fine s;
       c_drift_fine := drift_of g';
       c_drift_coarse := Some ((x0 + c_drift_fine s * 1) - (x0 + c_drift_fine s * 0)) |}.

  Fixpoint run_levels (n : nat) (g : grid) : cstate :=
    match n with O => init_state g | S m => next_level (run_levels m g) end.
End Levels.

(* the concrete chain of a StepModel(ps, a, sigma, rep, fv) (1-d grid) *)
Definition step_sig2_of (ps : list (Q * Q * Q)) (sigma : Q) (fv : bool) (g : grid) : Q :=
  chain_sig_h2 ps (nth 0 (g_axes g) []) sigma fv (g_h g).
Definition step_drift_of (ps : list (Q * Q * Q)) (md : Q) (rep : Z) (fv : bool) (a : Q) (g : grid) : Q :=
  chain_process_drift ps (nth 0 (g_axes g) []) (g_o g) md rep fv a.
Definition step_prob_right (ps : list (Q * Q * Q)) (xs : list Q) (o : nat) (inc : Z) : option Q :=
  prob_right amid (chain_mass ps xs) xs o inc.
Definition step_coupling_state (ps : list (Q * Q * Q)) (xs : list Q) (o : nat) (inc : Z) (u : Q) : option Q :=
  coupling_state amid (chain_mass ps xs) xs o inc u.
Definition step_inflow (ps : list (Q * Q * Q)) (xs : list Q) (o t : nat) : Q :=
  inflow amid (chain_mass ps xs) xs o t.

(* Hand-written model of the Levy-copula level coupling in dimension 2:
     rpylib/process/coupling/couplinglevycopula.py  CouplingLevyCopulaSimulation.__coupling_state (:157-216)
   The recursion removes the even coordinates from axis_coordinates; what is left are the ODD axes O.
     O = []      : the fine state is a coarse state, copied.
     O = [k]     : total_mass = mass(cell_k, [k]) and the two corner masses mass(half cell_k, [k]) are taken from the
                   MARGIN of the model over axis k (`mass(a, b, axis_coordinates)`), whatever the cell of the even axis is;
     O = [0, 1]  : joint masses of the four quarter cells, corners in itertools.product([-1, 1], repeat=2) order.
   The loop returns the first corner whose cumulative probability reaches u (`u <= probability`).
   The two axes xs, ys may differ (CTMCCredit with different thresholds); they share the origin index (CTMCGrid has one).
   The repaired code (fix-grid3) reads the neighbours of an odd coordinate on that coordinate's own axis.
   mass2 a b = model.mass(a, b) (joint rectangle mass), marg k a b = model.mass((a,), (b,), [k]). *)
From Coq Require Import ZArith QArith Qabs List Bool Lia.
From RV Require Import Base.QB Model.Grid Gen.GenC01Trunc Model.Chain.
Import ListNotations.
Open Scope Q_scope.

Section Nd.
  Variable mid : Q -> Q -> Q.
  Variable mass2 : Q * Q -> Q * Q -> Q.
  Variable marg : nat -> Q -> Q -> Q.

  (* interval between the projected value x and middle(p_value, x), ordered by min/max as the code does *)
  Definition half (xs : list Q) (p : nat) (dir : bool) : Q * Q :=       (* dir = true: corner +1 *)
    let x := nthq xs p in
    let pv := if dir then nthq xs (p + 1) else nthq xs (p - 1) in
    let m := mid pv x in (Qminb x m, Qmaxb x m).

  (* one odd axis k at fine index p: (P(corner -1), P(corner +1)), None when total_mass = 0 *)
  Definition corner1 (k : nat) (xs : list Q) (p : nat) : option (Q * Q) :=
    let total := marg k (cell_lo mid xs p) (cell_hi mid xs p) in
    if Qeq_bool total 0 then None
    else Some (marg k (fst (half xs p false)) (snd (half xs p false)) / total,
               marg k (fst (half xs p true)) (snd (half xs p true)) / total).

  (* both axes odd: joint masses of the quarter cells, order (-1,-1), (-1,1), (1,-1), (1,1) *)
  Definition quarter (xs ys : list Q) (p1 p2 : nat) (d1 d2 : bool) : Q :=
    mass2 (fst (half xs p1 d1), fst (half ys p2 d2)) (snd (half xs p1 d1), snd (half ys p2 d2)).
  Definition corner2 (xs ys : list Q) (p1 p2 : nat) : option (list (bool * bool * Q)) :=
    let total := mass2 (cell_lo mid xs p1, cell_lo mid ys p2) (cell_hi mid xs p1, cell_hi mid ys p2) in
    if Qeq_bool total 0 then None
    else Some (map (fun dd => (fst dd, snd dd, quarter xs ys p1 p2 (fst dd) (snd dd) / total))
                   [(false, false); (false, true); (true, false); (true, true)]).

  Definition step_idx (p : nat) (dir : bool) : nat := if dir then (p + 1)%nat else (p - 1)%nat.

  (* __coupling_state as a function of the coupling uniform: the coarse VALUE, None = the ValueError / 0-division *)
  Fixpoint first_corner (u acc : Q) (cs : list (bool * bool * Q)) : option (bool * bool) :=
    match cs with
    | [] => None
    | (d1, d2, pr) :: r => if Qle_bool u (acc + pr) then Some (d1, d2) else first_corner u (acc + pr) r
    end.
  Definition coupling_state2 (xs ys : list Q) (o : nat) (i1 i2 : Z) (u : Q) : option (Q * Q) :=
    let p1 := Z.to_nat (Z.of_nat o + i1) in let p2 := Z.to_nat (Z.of_nat o + i2) in
    match Z.eqb (i1 mod 2) 0, Z.eqb (i2 mod 2) 0 with
    | true, true => Some (nthq xs p1, nthq ys p2)
    | false, true =>
        match corner1 0 xs p1 with
        | None => None
        | Some (pl, pr) => if Qle_bool u (0 + pl) then Some (nthq xs (p1 - 1), nthq ys p2)
                           else if Qle_bool u (0 + pl + pr) then Some (nthq xs (p1 + 1), nthq ys p2) else None
        end
    | true, false =>
        match corner1 1 ys p2 with
        | None => None
        | Some (pl, pr) => if Qle_bool u (0 + pl) then Some (nthq xs p1, nthq ys (p2 - 1))
                           else if Qle_bool u (0 + pl + pr) then Some (nthq xs p1, nthq ys (p2 + 1)) else None
        end
    | false, false =>
        match corner2 xs ys p1 p2 with
        | None => None
        | Some cs => match first_corner u 0 cs with
                     | Some (d1, d2) => Some (nthq xs (step_idx p1 d1), nthq ys (step_idx p2 d2))
                     | None => None end
        end
    end.

  (* law of the coupled coarse state for u uniform: P((p1,p2) -> (t1,t2)) *)
  Definition prob_to2 (xs ys : list Q) (p1 p2 t1 t2 : nat) : Q :=
    match Nat.even p1, Nat.even p2 with
    | true, true => if Nat.eqb p1 t1 && Nat.eqb p2 t2 then 1 else 0
    | false, true =>
        if Nat.eqb p2 t2 then
          match corner1 0 xs p1 with
          | None => 0
          | Some (pl, pr) => (if Nat.eqb (p1 - 1) t1 then pl else 0) + (if Nat.eqb (p1 + 1) t1 then pr else 0)
          end
        else 0
    | true, false =>
        if Nat.eqb p1 t1 then
          match corner1 1 ys p2 with
          | None => 0
          | Some (pl, pr) => (if Nat.eqb (p2 - 1) t2 then pl else 0) + (if Nat.eqb (p2 + 1) t2 then pr else 0)
          end
        else 0
    | false, false =>
        match corner2 xs ys p1 p2 with
        | None => 0
        | Some cs => qsum (map (fun c => match c with (d1, d2, pr) =>
                            if Nat.eqb (step_idx p1 d1) t1 && Nat.eqb (step_idx p2 d2) t2 then pr else 0 end) cs)
        end
    end.

  (* what a repair has to use for one odd axis: the JOINT mass of (half cell of the odd axis) x (cell of the even axis) *)
  Definition corner1_joint (k : nat) (xs ys : list Q) (p1 p2 : nat) : option (Q * Q) :=
    let lo := (cell_lo mid xs p1, cell_lo mid ys p2) in let hi := (cell_hi mid xs p1, cell_hi mid ys p2) in
    let total := mass2 lo hi in
    if Qeq_bool total 0 then None
    else if Nat.eqb k 0
    then Some (mass2 (fst (half xs p1 false), snd lo) (snd (half xs p1 false), snd hi) / total,
               mass2 (fst (half xs p1 true), snd lo) (snd (half xs p1 true), snd hi) / total)
    else Some (mass2 (fst lo, fst (half ys p2 false)) (fst hi, snd (half ys p2 false)) / total,
               mass2 (fst lo, fst (half ys p2 true)) (fst hi, snd (half ys p2 true)) / total).
  Definition prob_to2_joint (xs ys : list Q) (p1 p2 t1 t2 : nat) : Q :=
    match Nat.even p1, Nat.even p2 with
    | false, true =>
        if Nat.eqb p2 t2 then
          match corner1_joint 0 xs ys p1 p2 with
          | None => 0
          | Some (pl, pr) => (if Nat.eqb (p1 - 1) t1 then pl else 0) + (if Nat.eqb (p1 + 1) t1 then pr else 0)
          end
        else 0
    | true, false =>
        if Nat.eqb p1 t1 then
          match corner1_joint 1 xs ys p1 p2 with
          | None => 0
          | Some (pl, pr) => (if Nat.eqb (p2 - 1) t2 then pl else 0) + (if Nat.eqb (p2 + 1) t2 then pr else 0)
          end
        else 0
    | _, _ => prob_to2 xs ys p1 p2 t1 t2
    end.

  Definition inflow2_gen (pt : list Q -> list Q -> nat -> nat -> nat -> nat -> Q) (xs ys : list Q) (o t1 t2 : nat) : Q :=
    qsum (flat_map (fun p1 => map (fun p2 => q_entry2 mid mass2 xs ys o p1 p2 * pt xs ys p1 p2 t1 t2) (seq 0 (length ys)))
                   (seq 0 (length xs))).
End Nd.

(* concrete instance on a density table: joint mass = step_mass2, margins = the table integrated over the other axis *)
Definition table_big : Q := 1024.
Definition table_marg (ps : list (Q * Q * Q * Q * Q)) (k : nat) (a b : Q) : Q :=
  if Nat.eqb k 0 then step_mass2 ps (a, - table_big) (b, table_big) else step_mass2 ps (- table_big, a) (table_big, b).
Definition inflow2 (ps : list (Q * Q * Q * Q * Q)) (xs ys : list Q) (o t1 t2 : nat) : Q :=
  inflow2_gen amid (step_mass2 ps) (prob_to2 amid (step_mass2 ps) (table_marg ps)) xs ys o t1 t2.
Definition inflow2_joint (ps : list (Q * Q * Q * Q * Q)) (xs ys : list Q) (o t1 t2 : nat) : Q :=
  inflow2_gen amid (step_mass2 ps) (prob_to2_joint amid (step_mass2 ps) (table_marg ps)) xs ys o t1 t2.
Definition table_coupling_state2 (ps : list (Q * Q * Q * Q * Q)) (xs ys : list Q) (o : nat) (i1 i2 : Z) (u : Q) : option (Q * Q) :=
  coupling_state2 amid (step_mass2 ps) (table_marg ps) xs ys o i1 i2 u.

(* F-C03-1 witness: density 4 on [1/4,1/2]x[-1/4,1/4] and on [1/2,3/4]x[1/4,2]; coarse axis [-2,-1,0,1,2] *)
Definition nd_witness : list (Q * Q * Q * Q * Q) * list Q * nat :=
  ([(1#4, 1#2, -(1#4), 1#4, 4); (1#2, 3#4, 1#4, 2, 4)], [-2; -1; 0; 1; 2], 2%nat).

(* ---- CouplingProcessLevyCopula.next_level (couplinglevycopula.py:90-125): level += 1; grid.refine();
   _diffusion_matrix_2h = the fine matrix of the level being left; the coarse deterministic path is frozen
   (freeze_spots + freeze_process_drift * t with the drift VECTOR of the level being left); new fine chain on the refined grid *)
Record cstate_nd := {
  cn_level : nat; cn_grid : grid;
  cn_dm_fine : list (list Q); cn_dm_coarse : option (list (list Q));
  cn_drift_fine : list Q; cn_drift_coarse : option (list Q) }.

Section LevelsNd.
  Variable mid : Q -> Q -> Q.
  Variable dmat_of : grid -> list (list Q).
  Variable driftv_of : grid -> list Q.
  Variable x0 : list Q.

  Definition freeze_vec (d : list Q) : list Q :=
    map (fun xd => (fst xd + snd xd * 1) - (fst xd + snd xd * 0)) (combine x0 d).
  Definition init_state_nd (g : grid) : cstate_nd :=
    {| cn_level := 0; cn_grid := g; cn_dm_fine := dmat_of g; cn_dm_coarse := None;
       cn_drift_fine := driftv_of g; cn_drift_coarse := None |}.
  Definition next_level_nd (s : cstate_nd) : cstate_nd :=
    let g' := refine mid (cn_grid s) in
    {| cn_level := S (cn_level s); cn_grid := g';
       cn_dm_fine := dmat_of g'; cn_dm_coarse := Some (cn_dm_fine s);
       cn_drift_fine := driftv_of g'; cn_drift_coarse := Some (freeze_vec (cn_drift_fine s)) |}.
  Fixpoint run_levels_nd (n : nat) (g : grid) : cstate_nd :=
    match n with O => init_state_nd g | S m => next_level_nd (run_levels_nd m g) end.
End LevelsNd.

(* ---- the REPAIRED rule as a function of the coupling uniform (what C03_telescoping_nd_joint is about): as coupling_state2, with the
   corner probabilities of ONE odd axis taken from the JOINT mass of (half cell of the odd axis) x (cell of the even axis) *)
Section NdJoint.
  Variable mid : Q -> Q -> Q.
  Variable mass2 : Q * Q -> Q * Q -> Q.
  Variable marg : nat -> Q -> Q -> Q.
  Definition coupling_state2_joint (xs ys : list Q) (o : nat) (i1 i2 : Z) (u : Q) : option (Q * Q) :=
    let p1 := Z.to_nat (Z.of_nat o + i1) in let p2 := Z.to_nat (Z.of_nat o + i2) in
    match Z.eqb (i1 mod 2) 0, Z.eqb (i2 mod 2) 0 with
    | false, true =>
        match corner1_joint mid mass2 0 xs ys p1 p2 with
        | None => None
        | Some (pl, pr) => if Qle_bool u (0 + pl) then Some (nthq xs (p1 - 1), nthq ys p2)
                           else if Qle_bool u (0 + pl + pr) then Some (nthq xs (p1 + 1), nthq ys p2) else None
        end
    | true, false =>
        match corner1_joint mid mass2 1 xs ys p1 p2 with
        | None => None
        | Some (pl, pr) => if Qle_bool u (0 + pl) then Some (nthq xs p1, nthq ys (p2 - 1))
                           else if Qle_bool u (0 + pl + pr) then Some (nthq xs p1, nthq ys (p2 + 1)) else None
        end
    | _, _ => coupling_state2 mid mass2 marg xs ys o i1 i2 u
    end.
End NdJoint.

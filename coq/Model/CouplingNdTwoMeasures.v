(* The Levy-copula level coupling in dimension 2 with the TWO measures the code really uses (audit4 B1).
     rates of the fine / coarse chain : fine_process.model.mass      -- MarkovChainLevyCopula.__init__ deep-copies the model and TRUNCATES
                                                                        its margins to the grid (markovchainlevycopula.py:95-96)   = rate2
     corner masses of __coupling_state: coupling_process.model.mass  -- the model the coupling was constructed with, NOT truncated
                                                                        (couplinglevycopula.py:177: mass = self.coupling_process.model.mass)
                                                                        joint rectangles = cmass2, margin over axis k = cmarg k
   For a Levy copula F the truncated model's rectangle mass is F evaluated at the tail integrals of the TRUNCATED margins; it is not the
   restriction of the un-truncated measure, so rate2 and cmass2 differ even on boxes inside the grid.
   Model/CouplingNd.v (kept unchanged; also used by C15) has ONE mass2 for both roles.  Its definitions already separate the two roles
   syntactically (inflow2_gen takes the rate measure and a law `pt`), so the two-measure objects are instances of them: *)
From Coq Require Import ZArith QArith Qabs List Bool Lia.
From RV Require Import Base.QB Model.Grid Gen.GenC01Trunc Model.Chain Model.CouplingNd.
Import ListNotations.
Open Scope Q_scope.

Section TwoMeasures.
  Variable mid : Q -> Q -> Q.
  Variable rate2 : Q * Q -> Q * Q -> Q.      (* fine_process.model.mass(a, b): the truncated model *)
  Variable cmass2 : Q * Q -> Q * Q -> Q.     (* coupling_process.model.mass(a, b, [0, 1]): the un-truncated model *)
  Variable cmarg : nat -> Q -> Q -> Q.       (* coupling_process.model.mass((a,), (b,), [k]) *)

  (* THE CODE AS IT IS: the law of the coupled coarse state comes from (cmass2, cmarg) only ... *)
  Definition coupling_state2_code := coupling_state2 mid cmass2 cmarg.
  Definition prob_to2_code := prob_to2 mid cmass2 cmarg.
  (* ... and the coupled inflow of a coarse state weighs it with the rates of the truncated chain *)
  Definition inflow2_code (xs ys : list Q) (o t1 t2 : nat) : Q := inflow2_gen mid rate2 prob_to2_code xs ys o t1 t2.

  (* the JOINT rule (one odd axis: half cell x cell of the even axis) with the corner masses still read from the coupling's own model:
     cures the first cause of F-C03-1 (margin masses) and keeps the second (two measures) *)
  Definition coupling_state2_joint_2m := coupling_state2_joint mid cmass2 cmarg.
  Definition prob_to2_joint_2m := prob_to2_joint mid cmass2 cmarg.
  Definition inflow2_joint_2m (xs ys : list Q) (o t1 t2 : nat) : Q := inflow2_gen mid rate2 prob_to2_joint_2m xs ys o t1 t2.

  (* the code's MARGIN rule with every mass read from the rate measure (rmarg = its margins): cures the second cause, keeps the first *)
  Variable rmarg : nat -> Q -> Q -> Q.
  Definition inflow2_margin_1m (xs ys : list Q) (o t1 t2 : nat) : Q := inflow2_gen mid rate2 (prob_to2 mid rate2 rmarg) xs ys o t1 t2.
End TwoMeasures.

(* instances on two density tables: psr = the rate measure, psc = the measure the corner masses are read from *)
Definition inflow2_code_tab (psr psc : list (Q * Q * Q * Q * Q)) (xs ys : list Q) (o t1 t2 : nat) : Q :=
  inflow2_code amid (step_mass2 psr) (step_mass2 psc) (table_marg psc) xs ys o t1 t2.
Definition inflow2_joint_tab (psr psc : list (Q * Q * Q * Q * Q)) (xs ys : list Q) (o t1 t2 : nat) : Q :=
  inflow2_joint_2m amid (step_mass2 psr) (step_mass2 psc) (table_marg psc) xs ys o t1 t2.
Definition table_coupling_state2_joint (ps : list (Q * Q * Q * Q * Q)) (xs ys : list Q) (o : nat) (i1 i2 : Z) (u : Q) : option (Q * Q) :=
  coupling_state2_joint amid (step_mass2 ps) (table_marg ps) xs ys o i1 i2 u.

(* witness of the SECOND cause: rates = density 4 on the fine cell [5/4,7/4] x [1/4,3/4] of fine state (7,5) (both coordinates odd);
   corner measure = the same total mass 1 concentrated on the lower-left quarter [5/4,3/2] x [1/4,1/2]; coarse axis [-2,-1,0,1,2], origin 2 *)
Definition nd_witness_2m : list (Q * Q * Q * Q * Q) * list (Q * Q * Q * Q * Q) * list Q * nat :=
  ([(5#4, 7#4, 1#4, 3#4, 4)], [(5#4, 3#2, 1#4, 1#2, 16)], [-2; -1; 0; 1; 2], 2%nat).

(* C03 (wave 6): rpylib/process/coupling/couplingsde.py -- CouplingSDE with a ONE-dimensional driver, as the composition of
   Model/Coupling1d.v (the coupled driver: coupling_state, the level machine run_levels, the shared Brownian increments) and
   Model/Euler.v (C16: the stacked Euler recursion ceuler_st of simulate_one_path_with_coupling).  Definitions only.

   The coupled driver path (CouplingSimulationWithJumpTimes / MaximumStep.simulate_one_path_with_coupling) enters as a list of
   EVENTS, one per interval [t, t + dt] of its time grid:
     e_inc = Some i : the fine chain jumps by the increment i at the end of the interval (fine value x_(o+i); the coarse
                      value is coupling_state(i) with the coupling uniform e_u -- used for an odd i only);
     e_inc = None   : an inserted time (maximum step epsilon) or the maturity: neither component jumps;
     e_sw           : sqrt(dt) * w, the Brownian increment of the interval; BOTH diffusion parts are a coefficient times it
                      (simulate_diffusion_with_coupling: stddev_fine * w, stddev_coarse * w with the same w). *)
From Coq Require Import ZArith QArith List Bool.
From RV Require Import Base.QB Base.QVec Model.Grid Model.Chain Model.Drift Model.Coupling1d Model.Euler.
Import ListNotations.
Open Scope Q_scope.

Record devent := { e_t : Q; e_dt : Q; e_inc : option Z; e_u : Q; e_sw : Q }.

Section Driver.
  Variables mid mass : Q -> Q -> Q.
  Variables (xs : list Q) (o : nat).          (* the fine (refined) axis of the driver's grid and its origin index *)
  Variables cf cc : Q.                         (* equivalent_diffusion_coefficient_fine / _coarse *)

  Definition fine_jump (e : devent) : Q := match e_inc e with None => 0 | Some i => nthq xs (position o i) end.
  (* None: coupling_state raises ZeroDivisionError (a fine state of rate 0, never sampled) *)
  Definition coarse_jump (e : devent) : option Q :=
    match e_inc e with None => Some 0 | Some i => coupling_state mid mass xs o i (e_u e) end.
  Definition driver_cstep (e : devent) : option cstep :=
    option_map (fun v => {| c_t := e_t e; c_dt := e_dt e; c_dLf := [fine_jump e]; c_dLc := [v];
                            c_dWf := [cf * e_sw e]; c_dWc := [cc * e_sw e] |}) (coarse_jump e).
  Fixpoint driver_csteps (es : list devent) : option (list cstep) :=
    match es with
    | [] => Some []
    | e :: r => match driver_cstep e, driver_csteps r with Some c, Some cs => Some (c :: cs) | _, _ => None end
    end.
End Driver.

(* ---- the level machine of CouplingSDE.  b_of g = fine_process.sde_drift as fine_process.initialisation builds it on the grid g
   it sees (LevyDrivenSDEModel: model.drift, independent of g; MarkovChainLevyLiborModel: the closure over
   _integral_zz() = second moments of the driver's Levy measure outside (-h/2, h/2), h = g.h).
   CouplingSDE.initialisation calls fine_process.initialisation ONLY at level 0, and simulate_one_path_with_coupling uses
   self.fine_process.sde_drift for both components at every level: s_b is set once and never updated. *)
Record sstate := { s_level : nat; s_drv : cstate; s_mu_h : Q; s_mu_2h : option Q; s_b : Q -> list Q -> list Q }.

Section SdeLevels.
  Variable mid : Q -> Q -> Q.
  Variable sig2_of : grid -> Q.
  Variable drift_of : grid -> Q.
  Variable b_of : grid -> Q -> list Q -> list Q.

  (* __init__ + initialisation(product) at level 0: mc_drift_h = fine_process.markov_chain.process_drift() *)
  Definition sde_init (g : grid) : sstate :=
    {| s_level := 0; s_drv := init_state sig2_of drift_of g; s_mu_h := drift_of g; s_mu_2h := None; s_b := b_of g |}.
  (* next_level: level += 1; mc_drift_2h = deepcopy(mc_drift_h); driver.next_level (refines the shared grid);
     mc_drift_h = driver.fine_process.process_drift() *)
  Definition sde_next (s : sstate) : sstate :=
    let d := next_level mid sig2_of drift_of 0 (s_drv s) in
    {| s_level := S (s_level s); s_drv := d; s_mu_h := c_drift_fine d; s_mu_2h := Some (s_mu_h s); s_b := s_b s |}.
  Fixpoint sde_run (n : nat) (g : grid) : sstate :=
    match n with O => sde_init g | S m => sde_next (sde_run m g) end.
End SdeLevels.

(* simulate_one_path_with_coupling at the state s (level >= 1): the (fine, coarse) terms (drift_dt, d_diffusion, d_jump) per step *)
Definition sde_coupled (a_st : Q -> list Q -> list Q -> smat) (mass : Q -> Q -> Q) (cf cc : Q) (s : sstate) (es : list devent) (x0 : list Q) :=
  let g := c_grid (s_drv s) in
  match s_mu_2h s, driver_csteps amid mass (nth 0 (g_axes g) []) (g_o g) cf cc es with
  | Some m2, Some cs => Some (ceuler_st a_st (s_b s) [s_mu_h s] [m2] cs x0 x0)
  | _, _ => None
  end.
(* MarkovChainSDE.simulate_one_path at level 0 (mc_drift = markov_chain.process_drift(), sde_drift = self.sde_drift) *)
Definition sde_single (a : Q -> list Q -> list (list Q)) (s : sstate) (steps : list step) (x0 : list Q) :=
  euler a (s_b s) [s_mu_h s] steps x0.

(* the Libor closure: zz = nu.integrate_against_xx(-inf, -h/2) + nu.integrate_against_xx(h/2, inf) of a step measure ps
   (pinf: any bound beyond the support), h = the grid's CURRENT h when _coefficient_sszz() is called *)
Definition libor_zz (ps : list (Q * Q * Q)) (pinf : Q) (g : grid) : list (list Q) :=
  [[step_m2 ps (- pinf) (- (g_h g / 2)) + step_m2 ps (g_h g / 2) pinf]].

(* concrete instance for the correspondence: StepModel driver *)
Definition step_sde_coupled (a_st : Q -> list Q -> list Q -> smat) (b : Q -> list Q -> list Q) (ps : list (Q * Q * Q))
    (xs : list Q) (o : nat) (cf cc : Q) (mu_h mu_2h : Q) (es : list devent) (x0 : list Q) :=
  option_map (fun cs => ceuler_st a_st b [mu_h] [mu_2h] cs x0 x0) (driver_csteps amid (chain_mass ps xs) xs o cf cc es).

(* ---- wave 8 (audit5a D1, finding F-C03-2): the time grid of the COARSE component.
   simulate_one_path_with_coupling advances both components on mc_path.jump_times of the coupled driver path = the time grid of the level-l
   FINE driver (all fine jump times, cap epsilon_l, maturity).  The level-(l-1) process (MarkovChainSDE.simulate_one_path on the grid of level
   l-1) advances on ITS OWN grid: its own jump times, its cap epsilon_(l-1), the maturity.  Seen from the coupled path: a step at whose end
   the coarse driver does not jump (a fine jump coupled to the origin, or a time inserted by the level-l cap) is NOT a point of that grid; the
   step is merged into the following one (dt, Brownian increment and jump add up).  own_grid models this for a path whose merged steps stay
   below the cap epsilon_(l-1) (finite-variation drivers: epsilon = h^0 = 1 >= maturity at every level, so this is the exact own grid). *)
Definition no_jump (s : step) : bool := forallb (fun x => Qeq_bool x 0) (s_dL s).
Definition merge_step (p s : step) : step :=
  {| s_t := s_t p; s_dt := s_dt p + s_dt s; s_dL := vadd (s_dL p) (s_dL s); s_dW := vadd (s_dW p) (s_dW s) |}.
Fixpoint own_grid (steps : list step) : list step :=
  match steps with
  | [] => []
  | s :: r => match own_grid r with
              | [] => [s]                                   (* the last step ends at the maturity: always a grid point *)
              | s' :: r' => if no_jump s then merge_step s s' :: r' else s :: s' :: r'
              end
  end.
(* x0 + drift[-1] + jump[-1] + diffusion[-1] of a StochasticSDEPath given by its per-step terms (zi when the loop ends) *)
Definition end_value (x0 : list Q) (tms : list (list Q * list Q * list Q)) : list Q := fold_left (fun z tm => next_of tm z) tms x0.
(* the one-step increment of the k-th component of the driver as the Euler step of a = diag(x) sees it: mu dt + dL + dW *)
Definition dY (k : nat) (mu : list Q) (s : step) : Q := qn k mu * s_dt s + qn k (s_dL s) + qn k (s_dW s).

(* C15, wave 6: the deterministic SHAPE of CouplingLevyCopulaSimulation.__coupling_state (rpylib/process/coupling/couplinglevycopula.py)
   for any dimension d: after the recursion that removes the even coordinates, axis_coordinates holds exactly the coordinates with an ODD state
   increment; the returned coarse value keeps the fine grid value `grid[origin + increment][k]` on every even coordinate and, on every odd
   coordinate k, is a neighbour on ITS OWN axis, `axis_k[min(len - 1, max(0, position_k + p_k))]` with p_k in {-1, +1}.  WHICH sign vector p
   is returned depends on the uniform and on the Levy masses (that law is C03's subject); here the sign vector is an input.
   _coupling_states_for_a_slice then cumulates these values from the origin (PathsNd.nd_slice_chain). *)
From Coq Require Import ZArith QArith Bool List.
From RV Require Import Base.QB Model.Paths Model.PathsNd.
Import ListNotations.
Open Scope Q_scope.

(* axis[i] for an index inside the axis *)
Definition axis_at (axis : list Q) (i : Z) : Q := nth (Z.to_nat i) axis 0.
(* min(len(axis) - 1, max(0, c)) *)
Definition clamp_index (axis : list Q) (c : Z) : Z := Z.min (Z.of_nat (length axis) - 1) (Z.max 0 c).

(* one coordinate: origin index o, state increment i, sign s (true = +1); Python's `increment % 2` is 0 exactly for the even integers *)
Definition cs_comp (axis : list Q) (o i : Z) (s : bool) : Q :=
  if Z.even i then axis_at axis (o + i)
  else axis_at axis (clamp_index axis (o + i + (if s then 1 else -1))).

(* grid[origin + increment]: the fine value *)
Fixpoint fine_value (axes : list (list Q)) (org inc : list Z) : vec :=
  match axes, org, inc with
  | a :: ax, o :: og, i :: ic => axis_at a (o + i) :: fine_value ax og ic
  | _, _, _ => []
  end.

(* the value __coupling_state returns when the sign vector p is picked (signs of even coordinates are not used) *)
Fixpoint coupling_value (axes : list (list Q)) (org inc : list Z) (signs : list bool) : vec :=
  match axes, org, inc, signs with
  | a :: ax, o :: og, i :: ic, s :: sg => cs_comp a o i s :: coupling_value ax og ic sg
  | _, _, _, _ => []
  end.

(* itertools.product([-1, 1], repeat = d), one sign per coordinate *)
Fixpoint all_signs (d : nat) : list (list bool) :=
  match d with O => [[]] | S n => map (cons false) (all_signs n) ++ map (cons true) (all_signs n) end.

(* correspondence: a recorded return value of the real function is one of the model's outcomes *)
Definition coupling_value_possible (axes : list (list Q)) (org inc : list Z) (c : vec) : bool :=
  existsb (fun sg => (fix eqb (a b : list Q) := match a, b with [] , [] => true | x :: r, y :: s => Qeq_bool x y && eqb r s | _, _ => false end)
                       (coupling_value axes org inc sg) c) (all_signs (length axes)).

(* per product interval and per jump: the fine increments and the coupling states handed to _coupling_states_for_a_slice / chain_over_intervals *)
Definition fine_incs (axes : list (list Q)) (org : list Z) (raws : list (list (list Z))) : list (list vec) :=
  map (map (fine_value axes org)) raws.
Definition coarse_incs (axes : list (list Q)) (org : list Z) (raws : list (list (list Z))) (sgs : list (list (list bool))) : list (list vec) :=
  map2 (map2 (coupling_value axes org)) raws sgs.

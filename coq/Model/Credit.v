(* C19 -- credit closed forms: instances of the py2coq-generated default intensity
   (Gen/GenC19Theta.v: CFLevyModel._theta, CFLevyCopulaModel._theta unrolled for d = 2, 3) over a Num,
   wired to the tail integrals of the copula model exactly as the code wires them:
     models[i].mass( *interval_I(a) )  and  marginal_tail_integral(i, a) = sign(a) * (the same integral)
       -> for a < 0:  M1 i a = - U1 i a   (for a >= 0 the code raises; M1 is then + U1 i a)
     levy_copula_model.tail_integrals(x) = margin_tail_integral(full indices, x)                       *)
From Coq Require Import List Arith Bool ZArith QArith Reals.
From RV Require Import Base.QB Base.RB Base.ExtNum Model.Copula Gen.GenC12Mass Model.MassNd Gen.GenC19Theta.
Import ListNotations.

Section Credit.
  Variable N : Num.
  Notation E := (ext N).
  Variable U1 : nat -> E -> N.
  Variable UI : idx -> list E -> N.
  Definition mass_below (i : nat) (a : E) : N := if xlt0 a then nopp N (U1 i a) else U1 i a.
  Definition th1 (a1 : E) : N := theta_1 N mass_below a1.
  Definition th2 (a1 a2 : E) : N := theta_2 N mass_below UI (n0 N) a1 a2.
  Definition th3 (a1 a2 a3 : E) : N := theta_3 N mass_below UI (UI (Some [0; 1; 2]%nat)) (n0 N) a1 a2 a3.
End Credit.

(* Hand-written model of rpylib/distribution/pairing.py:
     Domain.compute_total_number_of_states_and_frontier   (max_state_index and the frontier deque)
     StatesManager.__init__                               (max_frontier_indices)
     StatesManager.is_outside / CTMCGrid.outside          (the admissibility test of a state increment)
   over an abstract grid box as CTMCGrid builds it: axis sizes n_1..n_d and ONE origin index o used on every
   axis (origin_coordinate = [o] * d); a state increment s is in the grid iff 0 <= o + s_i <= n_i - 1.
   outside = Domain.outside(grid[origin + s]) as a predicate on the state increment s (a pure function of s),
   pair    = pairing.pair on state increments. *)
From Coq Require Import ZArith List Bool.
From RV Require Import Model.Pairing.
Import ListNotations.
Open Scope Z_scope.

Section Domain.
  Variable outside : list Z -> bool.
  Variable pair : list Z -> Z.

  (* for k in range(left_size, right_size): state_increment = ks_shifted + (k,);  k = j - o, j in range(last_size);
     the line as zip(all_states, outside_states) *)
  Definition dom_line (o last_size : Z) (ks_shifted : list Z) : list (Z * bool) :=
    map (fun j => let s := ks_shifted ++ [j - o] in (pair s, outside s)) (zrange last_size).

  (* body of `for ks in lazy_indices_product(all_sizes)`; acc = (max_state_index, frontier deque, leftmost first).
     all_states[origin_last_coordinate] is read with 0 <= o < last_size (otherwise Python raises / wraps). *)
  Definition dom_step (o last_size : Z) (acc : Z * list Z) (ks : list Z) : Z * list Z :=
    let line := dom_line o last_size (map (fun ki => ki - o) ks) in
    match map fst (filter (fun p => negb (snd p)) line) with
    | [] => (fst acc, nth (Z.to_nat o) (map fst line) (-1) :: snd acc)
    | i0 :: r => (Z.max (fst acc) (fold_left Z.max r i0), last r i0 :: i0 :: snd acc)
    end.

  (* dimension >= 2: sizes = all_sizes ++ [last_size] *)
  Definition dom_nd (sizes : list Z) (o : Z) : Z * list Z :=
    fold_left (dom_step o (last sizes 0)) (lazy_product (removelast sizes)) (-1, []).
End Domain.

(* dimension 1: res = deque([right_index, left_index]); max_state_index = max(left_index, right_index) *)
Definition dom_1d (pair1 : Z -> Z) (n o : Z) : Z * list Z :=
  let left_index := pair1 (- o) in
  let right_index := pair1 (n + - o - 1) in
  (Z.max left_index right_index, [right_index; left_index]).

(* StatesManager.__init__: max_frontier_indices = max(max(frontier_states), domain.max_state_index)
   (max of an empty deque raises: modelled as max_state_index) *)
Definition dom_maxf (r : Z * list Z) : Z :=
  match snd r with
  | [] => fst r
  | f0 :: fr => Z.max (fold_left Z.max fr f0) (fst r)
  end.

(* CTMCGrid.outside(origin_coordinates + state_increment): any(c < 0 or c > len(axes[k]) - 1) *)
Definition grid_outside (sizes : list Z) (o : Z) (s : list Z) : bool :=
  existsb (fun cn => (fst cn <? 0) || (snd cn - 1 <? fst cn)) (combine (map (fun si => o + si) s) sizes).
(* StatesManager.is_outside *)
Definition sm_is_outside (sizes : list Z) (o : Z) (dom_outside : list Z -> bool) (s : list Z) : bool :=
  grid_outside sizes o s || dom_outside s.
Definition sm_is_outside_1d (n o : Z) (dom_outside : Z -> bool) (s : Z) : bool :=
  ((o + s <? 0) || (n - 1 <? o + s)) || dom_outside s.

(* Hand-written model of the drift compensation:
     rpylib/process/markovchain/markovchain.py  vol_adjustment (:27-41), compute_mu_h (:44-67, with its running
                                                mid_point_left), MarkovChainProcess.__init__ (:96-119: truncate, switch the
                                                triplet to the TILDE representation, equivalent diffusion coefficient),
                                                initialisation (:147-160: mu_tilde, _process_drift)
     rpylib/model/levymodel/levymodel.py        LevyTriplet.set_representation (:275-283) around the four conversions
                                                (generated: Gen/GenC04Triplet.v)
   m1 a b / m2 a b stand for nu.integrate_against_x / integrate_against_xx of the UNtruncated measure; the chain uses
   their truncations (TruncatedLevyMeasure clips every interval with _truncated_interval: `tmass`).
   rep : Z is LevyRepresentation.value (ZERO=1, CENTER=2, ONEONE=3, TILDE=4).  pinf stands for np.inf. *)
From Coq Require Import ZArith QArith Qabs List Bool Lia.
From RV Require Import Base.QB Model.Grid Gen.GenC01Trunc Gen.GenC04Triplet Model.Chain.
Import ListNotations.
Open Scope Q_scope.

Section Drift.
  Variable mid : Q -> Q -> Q.
  Variable mass : Q -> Q -> Q.     (* integrate of the measure the chain uses (already truncated) *)

  (* compute_mu_h: the loop carries (mu_h, mid_point_left) over enumerate(axis) *)
  Fixpoint mu_h_loop (xs : list Q) (o : nat) (ps : list nat) (mu mpl : Q) : Q :=
    match ps with
    | [] => mu
    | p :: rest =>
        if Nat.eqb p o
        then mu_h_loop xs o rest mu (mid (left_point xs (o + 1)) (nthq xs (o + 1)))
        else let mpr := mid (nthq xs p) (right_point xs p) in
             mu_h_loop xs o rest (mu + nthq xs p * mass mpl mpr) mpr
    end.
  Definition compute_mu_h (xs : list Q) (o : nat) : Q :=
    mu_h_loop xs o (seq 0 (length xs)) 0 (mid (left_point xs 0) (nthq xs 0)).

  (* sum_k x_k * q_k with q = create_q_vector (Model/Chain.v) *)
  Definition mean_of_rates (xs : list Q) (o : nat) : Q :=
    qsum (map (fun k => nthq xs k * q_entry mid mass xs o k) (seq 0 (length xs))).
  Definition second_moment_of_rates (xs : list Q) (o : nat) : Q :=
    qsum (map (fun k => nthq xs k * nthq xs k * q_entry mid mass xs o k) (seq 0 (length xs))).
End Drift.

Section Compensation.
  Variable m1t : Q -> Q -> Q.      (* integrate_against_x of the truncated measure *)
  Variable m2t : Q -> Q -> Q.      (* integrate_against_xx of the truncated measure *)
  Variable pinf : Q.
  Variable err : Q.                (* the value of a `raise` in the generated conversions (ZERO representation, infinite variation) *)

  (* LevyTriplet.set_representation(TILDE): a is replaced by tilde_drift() unless the triplet is already TILDE *)
  Definition a_tilde (rep : Z) (fv : bool) (a : Q) : Q :=
    if Z.eqb rep 4 then a else tilde_drift m1t pinf err rep fv a.

  (* initialisation: v = 0.0 if finite variation else 1.0; mu_tilde = int_{-inf}^{-v} x nu + int_v^{inf} x nu *)
  Definition v_cut (fv : bool) : Q := if fv then 0 else 1.
  Definition mu_tilde (fv : bool) : Q := m1t (- pinf) (- v_cut fv) + m1t (v_cut fv) pinf.

  (* _process_drift = model.drift() + levy_triplet.a + mu_tilde - mu_h *)
  Definition process_drift (model_drift : Q) (rep : Z) (fv : bool) (a mu_h : Q) : Q :=
    model_drift + a_tilde rep fv a + mu_tilde fv - mu_h.

  (* vol_adjustment(model, h)**2 : c_h = int x^2 nu over [max(-h/2,-1), min(h/2,1)] for infinite variation, else 0;
     equivalent_diffusion_coefficient**2 = sigma**2 + vol_adj**2 *)
  Definition vol_adj2 (fv : bool) (h : Q) : Q :=
    if fv then 0 else m2t (Qmaxb (- h / 2) (- (1))) (Qminb (h / 2) 1).
  Definition sig_h2 (sigma : Q) (fv : bool) (h : Q) : Q := sigma * sigma + vol_adj2 fv h.

  (* first cumulant per unit time of the Levy process with triplet (a, sigma, nu|[l,r]) declared in representation rep *)
  Definition mean_rate (rep : Z) (fv : bool) (a : Q) : Q :=
    let all := m1t (- pinf) pinf in
    let tails := m1t (- pinf) (- (1)) + m1t 1 pinf in
    if Z.eqb rep 1 then a + all                       (* ZERO:   E X_1 = a + int x nu *)
    else if Z.eqb rep 2 then a                        (* CENTER: E X_1 = a *)
    else if Z.eqb rep 3 then a + tails                (* ONEONE: E X_1 = a + int_{|x|>=1} x nu *)
    else if fv then a + all else a + tails.           (* TILDE:  cut-off 1_{|x|<V}, V = 0 (fin. var.) or 1 *)
End Compensation.

(* MarkovChainLevyCopula.initialisation (markovchainlevycopula.py:132-167): one drift per margin,
     _process_drift[k] = model.drift()[k] + a_k + mu_tilde_k - mu_h_k,
   a_k the margin's triplet drift after set_representation(TILDE) (the margin's OWN finite-variation flag) and
   mu_tilde_k cut at V_k.  `fvV` is the flag the code uses for V_k: the repaired code (fix-grid2) passes the margin's own
   flag (fvV = fv); the previous code passed the joint flag of the copula model. *)
Definition process_drift_v (m1t : Q -> Q -> Q) (pinf err model_drift : Q) (rep : Z) (fv fvV : bool) (a mu_h : Q) : Q :=
  model_drift + a_tilde m1t pinf err rep fv a + mu_tilde m1t pinf fvV - mu_h.

(* one margin of a copula chain: its own first-moment integral, truncation bounds, triplet, axis and cell masses *)
Record cmargin := {
  cm_m1 : Q -> Q -> Q; cm_l : Q; cm_r : Q; cm_pinf : Q; cm_err : Q; cm_md : Q; cm_rep : Z; cm_fv : bool; cm_a : Q;
  cm_xs : list Q; cm_o : nat; cm_mass : Q -> Q -> Q }.
Definition cm_m1t (m : cmargin) : Q -> Q -> Q := tmass (cm_m1 m) (cm_l m) (cm_r m).
Definition cm_drift (mid : Q -> Q -> Q) (m : cmargin) : Q :=
  process_drift_v (cm_m1t m) (cm_pinf m) (cm_err m) (cm_md m) (cm_rep m) (cm_fv m) (cm_fv m) (cm_a m)
                  (compute_mu_h mid (cm_mass m) (cm_xs m) (cm_o m)).
Definition copula_process_drift (mid : Q -> Q -> Q) (ms : list cmargin) : list Q := map (cm_drift mid) ms.

(* ---- moments of the harness's StepMeasure *)
Definition piece_m1 (a b : Q) (p : Q * Q * Q) : Q :=
  let '(lo, hi, d) := p in
  let l := Qmaxb a lo in let h := Qminb b hi in
  if Qltb l h then d * (h * h - l * l) / 2 else 0.
Definition piece_m2 (a b : Q) (p : Q * Q * Q) : Q :=
  let '(lo, hi, d) := p in
  let l := Qmaxb a lo in let h := Qminb b hi in
  if Qltb l h then d * (h * h * h - l * l * l) / 3 else 0.
Definition step_m1 (ps : list (Q * Q * Q)) (a b : Q) : Q := qsum (map (piece_m1 a b) ps).
Definition step_m2 (ps : list (Q * Q * Q)) (a b : Q) : Q := qsum (map (piece_m2 a b) ps).

(* what MarkovChainProcess(StepModel(ps, a, sigma, rep, fv), grid).initialisation computes *)
Definition chain_pinf (xs : list Q) : Q := 1 + Qabs (headq xs) + Qabs (lastq xs).
(* sentinel for the ValueError of the conversions; far outside the range of the correspondence inputs *)
Definition chain_err : Q := - (1000003 # 1).
(* valid_rep: the ZERO representation requires jumps of finite variation (levymodel.py raises ValueError otherwise) *)
Definition valid_repb (rep : Z) (fv : bool) : bool := fv || negb (Z.eqb rep 1).
Definition chain_mu_h (ps : list (Q * Q * Q)) (xs : list Q) (o : nat) : Q :=
  compute_mu_h amid (chain_mass ps xs) xs o.
Definition chain_process_drift (ps : list (Q * Q * Q)) (xs : list Q) (o : nat) (md : Q) (rep : Z) (fv : bool) (a : Q) : Q :=
  process_drift (tmass (step_m1 ps) (headq xs) (lastq xs)) (chain_pinf xs) chain_err md rep fv a (chain_mu_h ps xs o).
(* MarkovChainProcess.__init__ raises (set_representation(TILDE) -> tilde_drift -> canonical_drift) exactly when the generated
   conversion returns the error value: None *)
Definition chain_a_tilde (ps : list (Q * Q * Q)) (xs : list Q) (rep : Z) (fv : bool) (a : Q) : Q :=
  a_tilde (tmass (step_m1 ps) (headq xs) (lastq xs)) (chain_pinf xs) chain_err rep fv a.
Definition chain_process_drift_opt (ps : list (Q * Q * Q)) (xs : list Q) (o : nat) (md : Q) (rep : Z) (fv : bool) (a : Q) : option Q :=
  if Qeq_bool (chain_a_tilde ps xs rep fv a) chain_err then None else Some (chain_process_drift ps xs o md rep fv a).
Definition chain_sig_h2 (ps : list (Q * Q * Q)) (xs : list Q) (sigma : Q) (fv : bool) (h : Q) : Q :=
  sig_h2 (tmass (step_m2 ps) (headq xs) (lastq xs)) sigma fv h.
Definition chain_mean (ps : list (Q * Q * Q)) (xs : list Q) (o : nat) : Q :=
  mean_of_rates amid (chain_mass ps xs) xs o.

(* the drift vector of a copula chain on step margins (repaired code: per-margin flag); one entry per margin:
   (pieces, axis, origin index, model drift, representation, finite-variation flag, declared drift) *)
Definition copula_chain_drift (ms : list (list (Q * Q * Q) * list Q * nat * Q * Z * bool * Q)) : list Q :=
  map (fun m => match m with (ps, xs, o, md, rep, fv, a) => chain_process_drift ps xs o md rep fv a end) ms.
Definition copula_chain_drift_joint (joint_fv : bool) (ms : list (list (Q * Q * Q) * list Q * nat * Q * Z * bool * Q)) : list Q :=
  map (fun m => match m with (ps, xs, o, md, rep, fv, a) =>
         process_drift_v (tmass (step_m1 ps) (headq xs) (lastq xs)) (chain_pinf xs) chain_err md rep fv joint_fv a (chain_mu_h ps xs o) end) ms.

(* MCLevyCopulaSimulation.__init__ (markovchainlevycopula.py:173-199, repaired: fix-grid3): variance_matrix = adj_matrix +
   diag(sigma_k^2); for independent margins adj_matrix is diagonal and its k-th entry is the second moment of margin k's jumps
   inside the central cell, 0 for a margin of finite variation.  Diagonal of D D^T, one entry per margin:
   (pieces, axis, sigma, finite-variation flag) *)
Definition copula_chain_sig2 (ms : list (list (Q * Q * Q) * list Q * Q * bool)) (h : Q) : list Q :=
  map (fun m => match m with (ps, xs, sigma, fv) => chain_sig_h2 ps xs sigma fv h end) ms.

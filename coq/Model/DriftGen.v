(* C04 (wave 5) -- the drift compensation stated on the GENERATED dispatch.
   Gen/GenC04SetRep.v : set_representation target rep fv a = (new a, new representation) is regenerated on every run from
   LevyTriplet.set_representation + the _drift_mapping dict of LevyTriplet.__init__ + the values of the enum
   (harness/py2coq_c04.py); it replaces the hand-written table `a_tilde` of Model/Drift.v.
     MarkovChainProcess.__init__ (markovchain.py)         : self.model.levy_triplet.set_representation(LevyRepresentation.TILDE)
     MarkovChainLevyCopula.__init__ (markovchainlevycopula.py:97-98) : the same call for every margin
     initialisation                                       : _process_drift = model.drift() + levy_triplet.a + mu_tilde - mu_h *)
From Coq Require Import ZArith QArith Qabs List Bool Lia.
From RV Require Import Base.QB Model.Grid Gen.GenC01Trunc Gen.GenC04Triplet Gen.GenC04SetRep Model.Chain Model.Drift.
Import ListNotations.
Open Scope Q_scope.

Definition TILDE : Z := 4.

Section CompensationGen.
  Variable m1t : Q -> Q -> Q.
  Variables pinf err : Q.
  (* levy_triplet.a after __init__ has switched the triplet to TILDE *)
  Definition a_after_init (rep : Z) (fv : bool) (a : Q) : Q := fst (set_representation m1t pinf err TILDE rep fv a).
  Definition rep_after_init (rep : Z) (fv : bool) (a : Q) : Z := snd (set_representation m1t pinf err TILDE rep fv a).
  Definition process_drift_gen (model_drift : Q) (rep : Z) (fv : bool) (a mu_h : Q) : Q :=
    model_drift + a_after_init rep fv a + mu_tilde m1t pinf fv - mu_h.
End CompensationGen.

(* what MarkovChainProcess(StepModel(ps, a, sigma, rep, fv), grid).initialisation computes, through the generated dispatch *)
Definition chain_process_drift_gen (ps : list (Q * Q * Q)) (xs : list Q) (o : nat) (md : Q) (rep : Z) (fv : bool) (a : Q) : Q :=
  process_drift_gen (tmass (step_m1 ps) (headq xs) (lastq xs)) (chain_pinf xs) chain_err md rep fv a (chain_mu_h ps xs o).
Definition chain_process_drift_gen_opt (ps : list (Q * Q * Q)) (xs : list Q) (o : nat) (md : Q) (rep : Z) (fv : bool) (a : Q) : option Q :=
  if Qeq_bool (a_after_init (tmass (step_m1 ps) (headq xs) (lastq xs)) (chain_pinf xs) chain_err rep fv a) chain_err then None
  else Some (chain_process_drift_gen ps xs o md rep fv a).

(* LevyTriplet(sigma, TruncatedLevyMeasure(StepMeasure(ps), (l, r)), a, rep).set_representation(target) observed from outside:
   None when the call raises (ValueError of the conversions = the sentinel), else (triplet.a, triplet.representation.value);
   pinf = 1 + |l| + |r| stands for np.inf *)
(* wave 8 (audit 5a, B5): the generated conversions signal a `raise` with the VALUE err, and arithmetic does not propagate it:
   center_drift on a ZERO-declared triplet of infinite variation is err + tails, a number, while levymodel.py raises ValueError
   ('the ZERO representation requires jumps of finite variation').  The observation wrapper therefore makes the error ABSORBING with
   an explicit, hand-written guard = the calls that raise: a conversion (target <> current) FROM or TO ZERO with jumps of infinite
   variation.  The guard is tied to /repo by the groups setrep1/setrep2, which drive exactly those calls too (expected: None). *)
Definition setrep_call_raises (target rep : Z) (fv : bool) : bool :=
  negb fv && negb (Z.eqb target rep) && (Z.eqb target 1 || Z.eqb rep 1).
Definition step_set_representation (ps : list (Q * Q * Q)) (l r : Q) (target rep : Z) (fv : bool) (a : Q) : option (Q * Z) :=
  let s := set_representation (tmass (step_m1 ps) l r) (1 + Qabs l + Qabs r) chain_err target rep fv a in
  if setrep_call_raises target rep fv then None else if Qeq_bool (fst s) chain_err then None else Some s.
(* two calls in a row: set_representation(t1) then set_representation(t2) on the same triplet *)
Definition step_set_representation2 (ps : list (Q * Q * Q)) (l r : Q) (t1 t2 rep : Z) (fv : bool) (a : Q) : option (Q * Z) :=
  match step_set_representation ps l r t1 rep fv a with
  | None => None
  | Some (a1, rep1) => step_set_representation ps l r t2 rep1 fv a1
  end.

(* the drift vector of a copula chain on step margins through the generated dispatch (one entry per margin, as in
   Model/Drift.v copula_chain_drift) *)
Definition copula_chain_drift_gen (ms : list (list (Q * Q * Q) * list Q * nat * Q * Z * bool * Q)) : list Q :=
  map (fun m => match m with (ps, xs, o, md, rep, fv, a) => chain_process_drift_gen ps xs o md rep fv a end) ms.

(* one margin of a copula chain (record cmargin of Model/Drift.v) through the generated dispatch *)
Definition cm_drift_gen (mid : Q -> Q -> Q) (m : cmargin) : Q :=
  process_drift_gen (cm_m1t m) (cm_pinf m) (cm_err m) (cm_md m) (cm_rep m) (cm_fv m) (cm_a m)
                    (compute_mu_h mid (cm_mass m) (cm_xs m) (cm_o m)).

(* Model of the Euler recursions of rpylib/process/markovchain/markovchainsde.py
   (MarkovChainSDE.simulate_one_path) and rpylib/process/coupling/couplingsde.py
   (CouplingSDE.simulate_one_path_with_coupling, next_level) over Q (C16).
   Vectors are lists (Base/QVec.v), matrices lists of rows.  The driver path enters as
     times (n), jump rows (d rows of n values), diffusion rows (d rows of n values);
   `steps_of` mirrors  zip(times[:-1], np.diff(times), np.diff(jump_path).T, np.diff(diffusion_path).T).
   Follows the tree with the fix commit "DiagX builds diag(x) ..." (x * np.eye(m)). *)
From Coq Require Import ZArith QArith Qabs Bool List.
From RV Require Import Base.QB Base.QVec.
Import ListNotations.
Open Scope Q_scope.

Record step := { s_t : Q; s_dt : Q; s_dL : list Q; s_dW : list Q }.

(* np.diff of a 1-d array *)
Fixpoint qdiff (l : list Q) : list Q :=
  match l with
  | x :: r => match r with y :: _ => (y - x) :: qdiff r | [] => [] end
  | [] => []
  end.

(* columns of a matrix given by rows: column j = map (nth j) rows, j < n *)
Definition columns (n : nat) (rows : list (list Q)) : list (list Q) :=
  map (fun j => map (fun row => nth j row 0) rows) (seq 0 n).

Fixpoint zip_steps (ts dts : list Q) (dLs dWs : list (list Q)) : list step :=
  match ts, dts, dLs, dWs with
  | t :: ts', dt :: dts', dL :: dLs', dW :: dWs' =>
      {| s_t := t; s_dt := dt; s_dL := dL; s_dW := dW |} :: zip_steps ts' dts' dLs' dWs'
  | _, _, _, _ => []
  end.

Definition steps_of (times : list Q) (jump_rows diff_rows : list (list Q)) : list step :=
  let n1 := pred (length times) in
  zip_steps times (qdiff times) (columns n1 (map qdiff jump_rows)) (columns n1 (map qdiff diff_rows)).

Definition fst3 {A B C} (x : A * B * C) : A := fst (fst x).
Definition snd3 {A B C} (x : A * B * C) : B := snd (fst x).
Definition thd3 {A B C} (x : A * B * C) : C := snd x.

Section Euler.
  Variable a : Q -> list Q -> list (list Q).    (* model.a(t, x): m x d matrix *)
  Variable b : Q -> list Q -> list Q.            (* sde_drift(t, x): m *)

  (* (drift_dt, d_diffusion, d_jump) of one pass through the loop body, state z *)
  Definition terms (mu : list Q) (s : step) (z : list Q) : list Q * list Q * list Q :=
    let A := a (s_t s) z in
    (vscale (s_dt s) (vadd (b (s_t s) z) (matvec A mu)), matvec A (s_dW s), matvec A (s_dL s)).

  (* zi += drift_dt + d_jump + d_diffusion *)
  Definition next (mu : list Q) (s : step) (z : list Q) : list Q :=
    let tm := terms mu s z in vadd z (vadd (vadd (fst3 tm) (thd3 tm)) (snd3 tm)).

  Fixpoint euler (mu : list Q) (steps : list step) (z : list Q) : list (list Q * list Q * list Q) :=
    match steps with
    | [] => []
    | s :: r => terms mu s z :: euler mu r (next mu s z)
    end.

  Fixpoint states (mu : list Q) (steps : list step) (z : list Q) : list (list Q) :=
    z :: match steps with [] => [] | s :: r => states mu r (next mu s z) end.

  (* the state after the last step (zi when the loop ends) *)
  Fixpoint final (mu : list Q) (steps : list step) (z : list Q) : list Q :=
    match steps with [] => z | s :: r => final mu r (next mu s z) end.

  (* np.cumsum(z_xxx, axis=-1) with column 0 = 0: time-major list of m-vectors *)
  Fixpoint cumsum_from (acc : list Q) (l : list (list Q)) : list (list Q) :=
    match l with
    | [] => []
    | x :: r => let acc' := vadd acc x in acc' :: cumsum_from acc' r
    end.
  Definition path_of (m : nat) (incs : list (list Q)) : list (list Q) := vzero m :: cumsum_from (vzero m) incs.

  (* StochasticSDEPath(drift, jump_times, diffusion, jump) as (drift path, diffusion path, jump path) *)
  Definition sde_path (mu x0 : list Q) (steps : list step) :=
    let tms := euler mu steps x0 in
    let m := length x0 in
    (path_of m (map fst3 tms), path_of m (map snd3 tms), path_of m (map thd3 tms)).

  (* ---- coupled recursion on the stacked (fine, coarse) state ---- *)
  Record cstep := { c_t : Q; c_dt : Q; c_dLf : list Q; c_dLc : list Q; c_dWf : list Q; c_dWc : list Q }.
  Definition fine_step (c : cstep) : step := {| s_t := c_t c; s_dt := c_dt c; s_dL := c_dLf c; s_dW := c_dWf c |}.
  Definition coarse_step (c : cstep) : step := {| s_t := c_t c; s_dt := c_dt c; s_dL := c_dLc c; s_dW := c_dWc c |}.

  (* one pass of the loop of simulate_one_path_with_coupling: both components updated together *)
  Fixpoint ceuler (mu_h mu_2h : list Q) (csteps : list cstep) (zf zc : list Q)
    : list ((list Q * list Q * list Q) * (list Q * list Q * list Q)) :=
    match csteps with
    | [] => []
    | c :: r =>
        let tf := terms mu_h (fine_step c) zf in
        let tc := terms mu_2h (coarse_step c) zc in
        (tf, tc) :: ceuler mu_h mu_2h r (next mu_h (fine_step c) zf) (next mu_2h (coarse_step c) zc)
    end.
End Euler.

Fixpoint zip_csteps (f c : list step) : list cstep :=
  match f, c with
  | sf :: f', sc :: c' =>
      {| c_t := s_t sf; c_dt := s_dt sf; c_dLf := s_dL sf; c_dLc := s_dL sc; c_dWf := s_dW sf; c_dWc := s_dW sc |} :: zip_csteps f' c'
  | _, _ => []
  end.

(* ---- the coupled loop as the code runs it: ONE call a(t, zi) on the stacked state zi = [zf; zc] (shape (2, m, 1)).
   The result is either a single matrix that matmul broadcasts over both components (Constant: constant_matrix)
   or a stack of two matrices (DiagX: zi * np.eye(m)); the drift is stacked explicitly:
   np.stack((sde_drift(t, zi[0]), sde_drift(t, zi[1]))); mc_drift = np.stack((mc_drift_h, mc_drift_2h)). *)
Inductive smat := Shared (A : list (list Q)) | Stacked (Af Ac : list (list Q)).
Definition smat_f (s : smat) : list (list Q) := match s with Shared A => A | Stacked Af _ => Af end.
Definition smat_c (s : smat) : list (list Q) := match s with Shared A => A | Stacked _ Ac => Ac end.

(* the three terms of one component, given its slice of a_zi and of the stacked drift *)
Definition terms_of (A : list (list Q)) (bv mu : list Q) (s : step) : list Q * list Q * list Q :=
  (vscale (s_dt s) (vadd bv (matvec A mu)), matvec A (s_dW s), matvec A (s_dL s)).
Definition next_of (tm : list Q * list Q * list Q) (z : list Q) : list Q := vadd z (vadd (vadd (fst3 tm) (thd3 tm)) (snd3 tm)).

Section Stacked.
  Variable a_st : Q -> list Q -> list Q -> smat.     (* a(t, zi), zi given by its two components *)
  Variable b : Q -> list Q -> list Q.
  Fixpoint ceuler_st (mu_h mu_2h : list Q) (csteps : list cstep) (zf zc : list Q)
    : list ((list Q * list Q * list Q) * (list Q * list Q * list Q)) :=
    match csteps with
    | [] => []
    | c :: r =>
        let S := a_st (c_t c) zf zc in
        let tf := terms_of (smat_f S) (b (c_t c) zf) mu_h (fine_step c) in
        let tc := terms_of (smat_c S) (b (c_t c) zc) mu_2h (coarse_step c) in
        (tf, tc) :: ceuler_st mu_h mu_2h r (next_of tf zf) (next_of tc zc)
    end.
End Stacked.

(* stacked versions of the offered coefficient functions *)
Definition a_st_constant (A : list (list Q)) : Q -> list Q -> list Q -> smat := fun _ _ _ => Shared A.
Definition a_st_diag : Q -> list Q -> list Q -> smat := fun _ zf zc => Stacked (diag zf) (diag zc).

(* the coefficient functions offered by levydrivensde.py *)
Definition a_constant (A : list (list Q)) : Q -> list Q -> list (list Q) := fun _ _ => A.   (* Constant *)
Definition a_diag : Q -> list Q -> list (list Q) := fun _ x => diag x.                       (* DiagX (repaired) *)
Definition b_zero : Q -> list Q -> list Q := fun _ x => vzero (length x).                    (* LevyDrivenSDEModel.drift *)

(* CouplingSDE drift bookkeeping: initialisation (level 0) sets mc_drift_h; next_level copies it to
   mc_drift_2h and takes the drift of the refined driver as the new mc_drift_h *)
Record cdrift := { cd_level : nat; cd_h : list Q; cd_2h : option (list Q) }.
Definition cd_init (d0 : list Q) : cdrift := {| cd_level := 0; cd_h := d0; cd_2h := None |}.
Definition cd_next (s : cdrift) (d : list Q) : cdrift := {| cd_level := S (cd_level s); cd_h := d; cd_2h := Some (cd_h s) |}.
Definition cd_run (d0 : list Q) (ds : list (list Q)) : cdrift := fold_left cd_next ds (cd_init d0).

(* comparison helpers for the correspondence *)
Definition qtol_eqb (tol : Q) (x y : Q) : bool := Qle_bool (Qabs (x - y)) tol.
Fixpoint list_eqb2 {A} (eqb : A -> A -> bool) (l1 l2 : list A) : bool :=
  match l1, l2 with
  | [], [] => true
  | x :: r1, y :: r2 => eqb x y && list_eqb2 eqb r1 r2
  | _, _ => false
  end.
Definition mat_eqb (tol : Q) := list_eqb2 (list_eqb2 (qtol_eqb tol)).

(* C02 -- what rpylib/distribution/samplingfactory.py hands to the table-driven samplers (ALIAS, TABLE,
   BINARYSEARCHTREE, HUFFMANNTREE) of a 1-d chain:
     create_vec_jump_matrix: res = q_vector / intensity_of_jumps; res[init_state.value] = 0.0
     states(k) = -pivot.value + np.array(k, dtype=int)          (support on both sides of 0)
   so that the sampled index k becomes the state increment k - origin, and the origin has probability 0. *)
From Coq Require Import List Arith ZArith QArith.
From RV Require Import Base.QB Model.Bst.
Import ListNotations.
Open Scope Q_scope.

Definition vec_jump (q : list Q) (lam : Q) (o : nat) : list Q := upd (map (fun x => x / lam) q) o 0.
Definition states_map (o : Z) (k : Z) : Z := (k - o)%Z.

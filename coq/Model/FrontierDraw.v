(* C14 (wave 5) -- the frontier draw of StatesManager on exhaustion, with the random choice as an explicit input.

     pairing.py, StatesManager:
       def _sample_frontier_state_increment(self):
           index = np.random.choice(self.frontier_states_indices)     # = deque[c], c uniform in range(len(deque))
           state_increment = self.pairing.project(index)
           return state_increment
       def project_index_to_state_increment(self, x, max_logged=-1):
           ...  (Model/StatesManager.v: sm_step_index; the machine state is (_last_projected_index, _last_logged_index))
           self._last_projected_index = xx
           state_increment = self._sample_frontier_state_increment()
           return state_increment, True

   frontier = self.frontier_states_indices, the deque Domain.compute_total_number_of_states_and_frontier returns
   (Model/Domain.v: snd (dom_nd ..) / snd (dom_1d ..), leftmost element first).  c is the position np.random.choice
   picks; it is consumed only by a call that signals exhaustion and it does not touch the machine state. *)
From Coq Require Import ZArith List Bool.
From RV Require Import Model.Pairing Model.StatesManager Model.Domain.
Import ListNotations.
Open Scope Z_scope.

Section FrontierDraw.
  Variable State : Type.
  Variable project : Z -> State.
  Variable outside : State -> bool.
  Variable maxf : Z.
  Variable frontier : list Z.

  (* _sample_frontier_state_increment; np.random.choice raises on an empty deque and c < len otherwise: the
     default -1 of nth is never read when c < length frontier (the theorems assume it) *)
  Definition fd_state (c : nat) : State := project (nth c frontier (-1)).

  (* one call of project_index_to_state_increment as the code returns it: ((state increment, break flag), new state) *)
  Definition fd_step (st : Z * Z) (x max_logged : Z) (c : nat) : (State * bool) * (Z * Z) :=
    let r := sm_step_index State project outside maxf st x max_logged in
    (match fst r with Some i => (project i, false) | None => (fd_state c, true) end, snd r).

  (* a history of calls ((x, max_logged), c): the returned pairs *)
  Fixpoint fd_run (st : Z * Z) (calls : list (Z * Z * nat)) : list (State * bool) :=
    match calls with
    | [] => []
    | c :: r => let s := fd_step st (fst (fst c)) (snd (fst c)) (snd c) in fst s :: fd_run (snd s) r
    end.
  (* the machine state (_last_projected_index, _last_logged_index) after each call *)
  Fixpoint fd_lasts (st : Z * Z) (calls : list (Z * Z * nat)) : list (Z * Z) :=
    match calls with
    | [] => []
    | c :: r => let s := fd_step st (fst (fst c)) (snd (fst c)) (snd c) in snd s :: fd_lasts (snd s) r
    end.
End FrontierDraw.

(* the state increment of the j-th point of the line through ks (grid coordinates ks on the first axes, j on the last) *)
Definition line_state (o : Z) (ks : list Z) (j : Z) : list Z := map (fun ki => ki - o) ks ++ [j - o].

(* C14 (wave 7, audit4 A2 / table "conditional") -- boolean forms of the hypotheses of the admissibility theorems of the frontier
   draw (Proofs/C14_FrontierDraw.v: lines_meet_domain, origin_interior) and the class of a drawn state, so that the MODEL evaluates
   them for every object of the correspondence and for every violation the matcher of F-C14-8 is asked about (harness/props/C14.py).
   Reflection lemmas: Proofs/C14_FrontierDrawReal.v. *)
From Coq Require Import ZArith List Bool.
From RV Require Import Model.Pairing Model.StatesManager Model.Domain Model.FrontierDraw.
Import ListNotations.
Open Scope Z_scope.

(* the line through ks (grid coordinates on the first axes) has an in-domain state *)
Definition line_meets_b (last_size o : Z) (dout : list Z -> bool) (ks : list Z) : bool :=
  existsb (fun j => negb (dout (line_state o ks j))) (zrange last_size).
Definition lines_meet_b (all_sizes : list Z) (last_size o : Z) (dout : list Z -> bool) : bool :=
  forallb (line_meets_b last_size o dout) (lazy_product all_sizes).
Definition origin_interior_b (all_sizes : list Z) (last_size o : Z) (dout : list Z -> bool) : bool :=
  existsb (fun j => (j <? o) && negb (dout (repeat 0 (length all_sizes) ++ [j - o]))) (zrange last_size)
  && existsb (fun j => (o <? j) && negb (dout (repeat 0 (length all_sizes) ++ [j - o]))) (zrange last_size).
(* the hypotheses of C14_frontier_draw_szudzik_nd / _rs_nd, as one boolean *)
Definition fd_hyp_nd (sizes : list Z) (o : Z) (dout : list Z -> bool) : bool :=
  (0 <=? o) && (o <? last sizes 0) && lines_meet_b (removelast sizes) (last sizes 0) o dout
  && origin_interior_b (removelast sizes) (last sizes 0) o dout.
(* 1-d (C14_frontier_draw_z1d_admissible): interior origin, both grid ends in the domain *)
Definition fd_hyp_1d (n o : Z) (dout : Z -> bool) : bool :=
  (0 <? o) && (o <? n - 1) && negb (dout (- o)) && negb (dout (n - o - 1)).

(* class of a returned state: 0 admissible, 1 the origin, 2 in the grid but outside the domain, 3 outside the grid *)
Definition draw_class (sizes : list Z) (o : Z) (dout : list Z -> bool) (s : list Z) : Z :=
  if negb (length s =? length sizes)%nat || grid_outside sizes o s then 3
  else if forallb (Z.eqb 0) s then 1 else if dout s then 2 else 0.
Definition draw_class_1d (n o : Z) (dout : Z -> bool) (s : Z) : Z :=
  if (o + s <? 0) || (n - 1 <? o + s) then 3 else if s =? 0 then 1 else if dout s then 2 else 0.

(* the recorded classes of F-C14-8, exactly (complement of the theorems' hypotheses, cause by cause; C14_frontier_draw_char):
   the origin comes back iff it is the first or the last in-domain state of its line (one side of its line has no in-domain
   state: origin_interior fails -- this includes Boundary() with the origin on the edge of the last axis) or its whole line is
   outside the domain; an out-of-domain state comes back iff its whole line is outside the domain and it sits at the last axis'
   origin.  Anything else (a state outside the grid, an out-of-domain state on a line that meets the domain, ...) is NOT it. *)
Definition fd_known_cause_nd (sizes : list Z) (o : Z) (dout : list Z -> bool) (s : list Z) : bool :=
  let all_sizes := removelast sizes in let last_size := last sizes 0 in
  let ks := map (fun v => v + o) (removelast s) in
  match draw_class sizes o dout s with
  | 1 => negb (origin_interior_b all_sizes last_size o dout) || negb (line_meets_b last_size o dout ks)
  | 2 => (last s 1 =? 0) && negb (line_meets_b last_size o dout ks)
  | _ => false
  end.
(* 1-d: the deque is [right end; left end] whatever the boundary: an end outside the domain, or an end that is the origin *)
Definition fd_known_cause_1d (n o : Z) (dout : Z -> bool) (s : Z) : bool :=
  match draw_class_1d n o dout s with
  | 1 => (o =? 0) || (o =? n - 1)
  | 2 => (s =? - o) || (s =? n - o - 1)
  | _ => false
  end.

(* Hand-written model of rpylib/grid/spatial.py (CTMCGrid and its constructors, refine) and of the
   in-place origin coordinate of rpylib/grid/grid.py.  Numbers are Q (floats minus rounding), indices nat.

   numpy array  -> list Q           axis[k] -> nthq xs k         Coordinates (mutable cell) -> field g_o
   `middle`     -> a parameter `mid : Q -> Q -> Q`.  CTMCGrid.middle is `amid`, the arithmetic mean, the only PROVED instance.
                   CTMCGridProbabilityStep.middle is a root-found point that also reads grid.h (it changes after refine and
                   middle(x,0) = -h/2 whatever x): the n-level theorems (one stateless `mid`) do not apply to it; the one-step
                   theorems with hypotheses on the axis at hand (C13_refine_admissible_axis, C03 with two middles) do, provided
                   the root lies strictly inside its bracket, which the oracle checks on the implementation. *)
From Coq Require Import ZArith QArith Qabs Qround List Bool Lia.
From RV Require Import Base.QB.
Import ListNotations.
Open Scope Q_scope.

Definition nthq (xs : list Q) (k : nat) : Q := nth k xs 0.
Definition lastq (xs : list Q) : Q := last xs 0.
Definition headq (xs : list Q) : Q := hd 0 xs.

(* strictly increasing *)
Fixpoint incr (xs : list Q) : Prop :=
  match xs with
  | [] => True
  | x :: r => match r with [] => True | y :: _ => x < y /\ incr r end
  end.
Fixpoint incrb (xs : list Q) : bool :=
  match xs with
  | [] => true
  | x :: r => match r with [] => true | y :: _ => Qltb x y && incrb r end
  end.

(* spatial.py:63-96  left_point / right_point clamp at the ends *)
Definition left_point (xs : list Q) (k : nat) : Q := nthq xs (Nat.pred k).
Definition right_point (xs : list Q) (k : nat) : Q := nthq xs (Nat.min (length xs - 1) (k + 1)).

(* spatial.py:106-108 *)
Definition amid (x y : Q) : Q := (1 # 2) * (x + y).

(* An admissible axis: what every constructor promises (property C13). *)
Definition admissible (xs : list Q) (o : nat) (h : Q) : Prop :=
  incr xs /\ (1 <= o)%nat /\ (o + 1 < length xs)%nat /\ 0 < h
  /\ nthq xs o == 0 /\ nthq xs (o - 1) == - h /\ nthq xs (o + 1) == h.
Definition admissibleb (xs : list Q) (o : nat) (h : Q) : bool :=
  incrb xs && (1 <=? o)%nat && (o + 1 <? length xs)%nat && Qltb 0 h
  && Qeq_bool (nthq xs o) 0 && Qeq_bool (nthq xs (o - 1)) (- h) && Qeq_bool (nthq xs (o + 1)) h.

(* ---------------------------------------------------------------- constructors *)
(* the assembly used by every constructor: np.concatenate((left, [0.0], right)), pivot = left.size *)
Definition assemble (left right : list Q) : list Q * nat := (left ++ [0] ++ right, length left).

(* create_from_fixed_nb_of_points (spatial.py:166-186):
     axis_right = [k*h for k in range(1, nb//2+1)]; axis_left = [-x for x in axis_right[::-1]] *)
Definition fixed_right (h : Q) (m : nat) : list Q := map (fun k => inject_Z (Z.of_nat k) * h) (seq 1 m).
Definition fixed_left (h : Q) (m : nat) : list Q := map Qopp (rev (fixed_right h m)).
Definition fixed_axis (h : Q) (nb : nat) : list Q * nat :=
  assemble (fixed_left h (nb / 2)) (fixed_right h (nb / 2)).

(* CTMCUniformGrid.__init__ (spatial.py:148-164), one axis; l, r = truncation bounds returned by the root search.
   np.linspace is modelled as its mathematical sequence start + i*(stop-start)/(num-1) (num = 1: [start]);
   int(x) of a non-negative float as the floor.  The repaired constructor (fix-grid) raises ValueError unless
   int(|l|/h) >= 2 and int(r/h) >= 2 (both bounds and -h, +h are then states): None. *)
Definition linspace (a b : Q) (n : nat) : list Q :=
  match n with
  | O => []
  | S O => [a]
  | S (S m) => map (fun i => a + inject_Z (Z.of_nat i) * ((b - a) / inject_Z (Z.of_nat (S m)))) (seq 0 n)
  end.
Definition uniform_axis (l h r : Q) : option (list Q * nat) :=
  let nl := Z.to_nat (Qfloor (Qabs l / h)) in let nr := Z.to_nat (Qfloor (r / h)) in
  if (nl <? 2)%nat || (nr <? 2)%nat then None else Some (assemble (linspace l (- h) nl) (linspace h r nr)).

(* CTMCCredit (spatial.py:338-357), one axis; l, r are the truncation bounds returned by the root search.
   The repaired constructor (fix-grid: "CTMCCredit rejects thresholds that make an axis non-monotone")
   raises ValueError unless the axis is strictly increasing: None. *)
Definition credit_eps (l a h : Q) : Q := Qminb (Qabs (l - a) / 2) (Qabs (a + h) / 2).
Definition credit_values (l a h r : Q) (sym : bool) : list Q :=
  let eps := credit_eps l a h in
  if sym then [l; a - eps; a + eps; - h; 0; h; - a - eps; - a + eps; r]
  else [l; a - eps; a + eps; - h; 0; h; r].
Definition credit_axis (l a h r : Q) (sym : bool) : option (list Q * nat) :=
  let xs := credit_values l a h r sym in
  if incrb xs then Some (xs, 4%nat) else None.

(* ---------------------------------------------------------------- refine (spatial.py:110-120) *)
Section Mid.
  Variable mid : Q -> Q -> Q.

  (* result of the loop `for k,(xi,xip) in enumerate(zip(axis, axis[1:])): axis = np.insert(axis, 2k+1, middle(xi,xip))` *)
  Fixpoint refine_axis (xs : list Q) : list Q :=
    match xs with
    | [] => []
    | x :: r => match r with [] => [x] | y :: _ => x :: mid x y :: refine_axis r end
    end.

  (* the loop itself: np.insert at 2k+1 into the growing array, pairs taken from the *original* array *)
  Fixpoint insert_at (k : nat) (v : Q) (xs : list Q) : list Q :=
    match k, xs with
    | O, _ => v :: xs
    | S k', [] => [v]                      (* numpy would raise; never reached *)
    | S k', x :: r => x :: insert_at k' v r
    end.
  Fixpoint refine_loop (pairs : list (Q * Q)) (k : nat) (acc : list Q) : list Q :=
    match pairs with
    | [] => acc
    | (x, y) :: ps => refine_loop ps (S k) (insert_at (2 * k + 1) (mid x y) acc)
    end.
  Definition refine_axis_loop (xs : list Q) : list Q := refine_loop (combine xs (tl xs)) 0 xs.

  Fixpoint refine_axis_n (n : nat) (xs : list Q) : list Q :=
    match n with O => xs | S m => refine_axis (refine_axis_n m xs) end.
End Mid.

(* The grid object: axes (shared or per-axis storage makes no difference: np.insert copies), h, the origin
   coordinate (ONE mutable cell: every alias of grid.origin_coordinate taken earlier reads this field),
   and the truncations computed once by __init__ and never touched by refine. *)
Record grid := { g_axes : list (list Q); g_h : Q; g_o : nat; g_trunc : list (Q * Q) }.

Definition mk_grid (h : Q) (o : nat) (axes : list (list Q)) : grid :=
  {| g_axes := axes; g_h := h; g_o := o; g_trunc := map (fun xs => (headq xs, lastq xs)) axes |}.

Definition refine (mid : Q -> Q -> Q) (g : grid) : grid :=
  {| g_axes := map (refine_axis mid) (g_axes g); g_h := g_h g / 2; g_o := (g_o g * 2)%nat; g_trunc := g_trunc g |}.

Fixpoint refine_n (mid : Q -> Q -> Q) (n : nat) (g : grid) : grid :=
  match n with O => g | S m => refine mid (refine_n mid m g) end.

Definition fixed_grid (h : Q) (nb dim : nat) : grid :=
  let '(xs, o) := fixed_axis h nb in mk_grid h o (repeat xs dim).

(* the repaired constructor raises ValueError for nb_of_points < 2 (fix-grid) *)
Definition fixed_ctor (h : Q) (nb dim : nat) : option grid :=
  if (2 <=? nb)%nat then Some (fixed_grid h nb dim) else None.

(* CTMCCredit for a list of thresholds (dimension = length); dimension 1 never uses the symmetric layout *)
Fixpoint all_some {A : Type} (l : list (option A)) : option (list A) :=
  match l with
  | [] => Some []
  | None :: _ => None
  | Some x :: r => match all_some r with Some xs => Some (x :: xs) | None => None end
  end.
Definition credit_grid (l h r : Q) (levels : list Q) (sym : bool) : option grid :=
  let sym' := match levels with [_] => false | _ => sym end in
  match all_some (map (fun a => credit_axis l a h r sym') levels) with
  | Some axs => Some (mk_grid h 4%nat (map fst axs))
  | None => None
  end.

(* comparison helpers for the correspondence *)
Definition qll_eqb (a b : list (list Q)) : bool :=
  (fix go (a b : list (list Q)) := match a, b with
     | [], [] => true
     | x :: r, y :: s => (fix eq (u v : list Q) := match u, v with
                            | [], [] => true
                            | p :: u', q :: v' => Qeq_bool p q && eq u' v'
                            | _, _ => false end) x y && go r s
     | _, _ => false end) a b.
Definition qpl_eqb (a b : list (Q * Q)) : bool :=
  (fix go (a b : list (Q * Q)) := match a, b with
     | [], [] => true
     | (x1, x2) :: r, (y1, y2) :: s => Qeq_bool x1 y1 && Qeq_bool x2 y2 && go r s
     | _, _ => false end) a b.
Definition ogrid_eqb (og : option grid) (e : option (list (list Q) * Q * nat * list (Q * Q))) : bool :=
  match og, e with
  | None, None => true
  | Some g, Some (axes, h, o, tr) =>
      qll_eqb (g_axes g) axes && Qeq_bool (g_h g) h && Nat.eqb (g_o g) o && qpl_eqb (g_trunc g) tr
  | _, _ => false
  end.
Definition grid_eqb (g : grid) (axes : list (list Q)) (h : Q) (o : nat) (tr : list (Q * Q)) : bool :=
  qll_eqb (g_axes g) axes && Qeq_bool (g_h g) h && Nat.eqb (g_o g) o && qpl_eqb (g_trunc g) tr.

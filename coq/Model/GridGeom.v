(* Hand-written model of the np.geomspace axes of rpylib/grid/spatial.py (CTMCGridGeometric.__init__ and
   CTMCGridGeometric.create_with_bounds, spatial.py:266-329) and of CTMCUniformGrid seen with the grid record.  Owner: C13.

   np.geomspace(start, stop, num) for start, stop of the same sign is, mathematically,
        start * (stop/start)^(i/(num-1)),  i = 0..num-1          (numpy: sign * 10^(log10|start| + i*step), ends overwritten)
   Two models:
   * over R (faithful for EVERY real l < -h < 0 < h < r):  geomspace_R a b n,  point i = a * exp(i/(n-1) * ln(b/a));
     lists of R with their own incrR / admissibleR / assembleR / refineR (the arithmetic-mean refine of CTMCGrid);
   * over Q for bounds with a rational common ratio (l = -h*ql^(nb-1), r = h*qr^(nb-1)):  geomq a q n = [a*q^i];
     this one plugs into Model/Grid.v (admissible, refine_axis_n, grid) and is linked to the R model by a theorem
     (Proofs/C13_GridGeom.v: geomq_is_geomspace).  *)
From Coq Require Import ZArith QArith Qabs Qround List Bool Lia Reals.
From RV Require Import Base.QB Model.Grid.
Import ListNotations.

(* ------------------------------------------------------------------------------------------------ Q, rational ratio *)
Open Scope Q_scope.

Fixpoint qpow (q : Q) (i : nat) : Q := match i with O => 1 | S k => q * qpow q k end.

(* np.geomspace(start=a, stop=a*q^(n-1), num=n) *)
Definition geomq (a q : Q) (n : nat) : list Q := map (fun i => a * qpow q i) (seq 0 n).
(* np.geomspace(start=-(h*q^(n-1)), stop=-h, num=n):  point i is -(h*q^(n-1-i)) *)
Definition geom_left (h q : Q) (n : nat) : list Q := map Qopp (rev (geomq h q n)).

(* CTMCGridGeometric.create_with_bounds(h, (l, r), dim, nb) / CTMCGridGeometric.__init__ after compute_truncation, one axis,
   for l = -(h*ql^(nb-1)), r = h*qr^(nb-1).  Guards as in the code, in the code's order: ValueError (None) if nb < 2, if not h > 0
   (wave 7: F-C13-7 repaired, /repo branch fix-w7-c13 -- before that h <= 0 was accepted and np.geomspace returned nan / a
   decreasing axis), or if not (l < -h and h < r). *)
Definition geom_l (h ql : Q) (nb : nat) : Q := - (h * qpow ql (nb - 1)).
Definition geom_r (h qr : Q) (nb : nat) : Q := h * qpow qr (nb - 1).
Definition geometric_axis (h ql qr : Q) (nb : nat) : option (list Q * nat) :=
  if (nb <? 2)%nat then None
  else if negb (Qltb 0 h) then None
  else if Qltb (geom_l h ql nb) (- h) && Qltb h (geom_r h qr nb)
       then Some (assemble (geom_left h ql nb) (geomq h qr nb)) else None.
Definition geometric_grid (h ql qr : Q) (nb dim : nat) : option grid :=
  match geometric_axis h ql qr nb with
  | Some (xs, o) => Some (mk_grid h o (repeat xs dim))
  | None => None
  end.

(* CTMCUniformGrid.__init__ as a grid: the same axis object for every dimension of the model (spatial.py:166-168) *)
Definition uniform_grid (l h r : Q) (dim : nat) : option grid :=
  match uniform_axis l h r with
  | Some (xs, o) => Some (mk_grid h o (repeat xs dim))
  | None => None
  end.

(* tolerance comparison used by the correspondence (numpy goes through log10 / 10**x: not exact even on dyadic inputs) *)
Definition qclose (tol x y : Q) : bool := Qle_bool (Qabs (x - y)) ((1 + Qabs y) * tol).
Fixpoint qlist_close (tol : Q) (xs ys : list Q) : bool :=
  match xs, ys with
  | [], [] => true
  | x :: r, y :: s => qclose tol x y && qlist_close tol r s
  | _, _ => false
  end.

(* ------------------------------------------------------------------------------------------------ R, every real bound *)
Open Scope R_scope.

Definition nthr (xs : list R) (k : nat) : R := nth k xs 0.
Definition lastr (xs : list R) : R := last xs 0.
Definition headr (xs : list R) : R := hd 0 xs.

Fixpoint incrR (xs : list R) : Prop :=
  match xs with
  | [] => True
  | x :: r => match r with [] => True | y :: _ => x < y /\ incrR r end
  end.

Definition admissibleR (xs : list R) (o : nat) (h : R) : Prop :=
  incrR xs /\ (1 <= o)%nat /\ (o + 1 < length xs)%nat /\ 0 < h
  /\ nthr xs o = 0 /\ nthr xs (o - 1) = - h /\ nthr xs (o + 1) = h.

Definition assembleR (left right : list R) : list R * nat := (left ++ [0] ++ right, length left).

(* point i of np.geomspace(a, b, m+1); integers as Z so that the case lemmas of the correspondence are closed terms *)
Definition gs_point (a b : R) (m i : Z) : R := a * exp (IZR i / IZR m * ln (b / a)).
Definition geomspace_R (a b : R) (n : nat) : list R :=
  match n with
  | O => []
  | S O => [a]
  | S (S m) => map (fun i => gs_point a b (Z.of_nat (S m)) (Z.of_nat i)) (seq 0 n)
  end.

(* the constructor; same guards as the code (nb >= 2, then h > 0 -- wave 7, F-C13-7 repaired --, then l < -h and h < r) *)
Definition geometric_axis_R (l h r : R) (nb : nat) : option (list R * nat) :=
  if (nb <? 2)%nat then None
  else if Rle_dec h 0 then None
  else if Rlt_dec l (- h) then
         if Rlt_dec h r then Some (assembleR (geomspace_R l (- h) nb) (geomspace_R h r nb)) else None
       else None.

(* CTMCGrid.refine with CTMCGrid.middle = 0.5*(x+y), on a real axis *)
Fixpoint refineR (xs : list R) : list R :=
  match xs with
  | [] => []
  | x :: r => match r with [] => [x] | y :: _ => x :: (x + y) / 2 :: refineR r end
  end.
Fixpoint refineR_n (n : nat) (xs : list R) : list R :=
  match n with O => xs | S m => refineR (refineR_n m xs) end.

(* ------------------------------------------------------------------------------------------------ probability-step axes
   CTMCGridProbabilityStep (spatial.py:195-263, compute_right_axis 453-503), right half axis beyond h, while the tail is not
   exhausted.  F = nu([h/2, x]) / intensity_of_jumps as a function of x (the cumulative jump probability), `root x p` = the
   point scipy's brentq is asked for: F(root x p) - F x = p.  Both are parameters constrained by hypotheses in the proofs
   (the root finder is SPECIFIED, not modelled).  One pass of the while loop:
        middle_point = root start_right (p/2);  start_right' = root middle_point (p/2)                                  *)
Section ProbStep.
  Variable root : R -> R -> R.
  Fixpoint ps_axis (x p : R) (n : nat) : list R :=
    match n with O => [x] | S k => x :: ps_axis (root (root x (p / 2)) (p / 2)) p k end.
End ProbStep.

(* refine with an arbitrary middle on a real axis; CTMCGridProbabilityStep.middle away from the origin is
   root xi (0.5 * (F xip - F xi)) *)
Fixpoint refineG (mid : R -> R -> R) (xs : list R) : list R :=
  match xs with
  | [] => []
  | x :: r => match r with [] => [x] | y :: _ => x :: mid x y :: refineG mid r end
  end.
Definition ps_middle (F : R -> R) (root : R -> R -> R) (x y : R) : R := root x ((F y - F x) / 2).

(* C02 -- model of rpylib/distribution/variate/huffmantree.py: Node/Leaf/InternalNode, the Heap class with
   BOTH of its lists exactly as written (`nodes` in decreasing order, `_values` in increasing order, `pop`
   popping the last element of both, `insert` using bisect_left on `_values` and the position
   len(_values) - index in `nodes`), create_huffman_tree and sample_with_u (subtract and descend). *)
From Coq Require Import List Arith ZArith QArith Bool.
From RV Require Import Base.QB.
Import ListNotations.
Open Scope Q_scope.

Inductive htree : Type :=
| HLeaf (v : Q) (state : Z)
| HNode (v : Q) (l r : htree).

Definition hval (t : htree) : Q := match t with HLeaf v _ => v | HNode v _ _ => v end.

(* list.sort(key=value, reverse=True): stable, decreasing (equal keys keep their original order) *)
Fixpoint hins (x : htree) (l : list htree) : list htree :=
  match l with
  | [] => [x]
  | y :: r => if Qltb (hval x) (hval y) then y :: hins x r else x :: y :: r
  end.
Definition hsort (l : list htree) : list htree := fold_right hins [] l.

(* bisect.bisect_left(a, x): lo, hi = 0, len(a); while lo < hi: mid = (lo+hi)//2;
   if a[mid] < x: lo = mid + 1 else: hi = mid *)
Fixpoint bisect_left_loop (fuel : nat) (a : list Q) (x : Q) (lo hi : nat) : nat :=
  match fuel with
  | O => lo
  | S f => if (lo <? hi)%nat then
             let mid := ((lo + hi) / 2)%nat in
             if Qltb (nth mid a 0) x then bisect_left_loop f a x (S mid) hi
             else bisect_left_loop f a x lo mid
           else lo
  end.
Definition bisect_left (a : list Q) (x : Q) : nat := bisect_left_loop (S (length a)) a x 0 (length a).

(* list.insert(i, x): positions beyond the end append *)
Definition insert_at {A : Type} (i : nat) (x : A) (l : list A) : list A := firstn i l ++ x :: skipn i l.

Record heap := { h_nodes : list htree; h_values : list Q }.

Definition heap_make (nodes : list htree) : heap :=
  let s := hsort nodes in {| h_nodes := s; h_values := rev (map hval s) |}.

(* pop: self._values.pop(); return self.nodes.pop()   (None: pop from an empty list) *)
Definition heap_pop (h : heap) : option (htree * heap) :=
  match h_nodes h, h_values h with
  | [], _ => None
  | _, [] => None
  | n :: ns, _ => Some (last (h_nodes h) n, {| h_nodes := removelast (h_nodes h); h_values := removelast (h_values h) |})
  end.

Definition heap_insert (h : heap) (node : htree) : heap :=
  let index := bisect_left (h_values h) (hval node) in
  let values' := insert_at index (hval node) (h_values h) in
  let index' := (length values' - index)%nat in
  {| h_nodes := insert_at index' node (h_nodes h); h_values := values' |}.

Definition huff_round (h : heap) : option heap :=
  match heap_pop h with
  | None => None
  | Some (node1, h1) =>
      match heap_pop h1 with
      | None => None
      | Some (node2, h2) => Some (heap_insert h2 (HNode (hval node1 + hval node2) node1 node2))
      end
  end.

Fixpoint huff_rounds (n : nat) (h : heap) : option heap :=
  match n with
  | O => Some h
  | S m => match huff_round h with None => None | Some h' => huff_rounds m h' end
  end.

Fixpoint leaves_from (i : Z) (p : list Q) : list htree :=
  match p with [] => [] | x :: r => HLeaf x i :: leaves_from (i + 1)%Z r end.

(* create_huffman_tree: None = the code raises (empty vector) *)
Definition create_huffman (p : list Q) : option htree :=
  match huff_rounds (length p - 1) (heap_make (leaves_from 0 p)) with
  | Some h => match h_nodes h with t :: _ => Some t | [] => None end
  | None => None
  end.

(* sample_with_u(u, head) : state (the cost counter is not modelled) *)
Fixpoint huff_sample (t : htree) (u : Q) : Z :=
  match t with
  | HLeaf _ s => s
  | HNode _ l r => if Qltb u (hval l) then huff_sample l u else huff_sample r (u - hval l)
  end.

(* pre-order serialisation used by the correspondence: (state, value) for a leaf, (-1, value) for an internal node *)
Fixpoint huff_preorder (t : htree) : list (Z * Q) :=
  match t with
  | HLeaf v s => [(s, v)]
  | HNode v l r => ((-1)%Z, v) :: huff_preorder l ++ huff_preorder r
  end.

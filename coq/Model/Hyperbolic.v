(* C14 (wave 5) -- numerical/numbers.py upper_bound_a_n: the integer part (bracket selection + bisection over a_n), the
   three floating-point guesses of inv_guess_a (Halley root finder, scipy) being inputs:

     if z == 0: return 1
     delta_c = 3 * z ** (1 / 4)
     n_low_bound = inv_guess_a(max(0, z - delta_c)); n_guess = inv_guess_a(z); n_high_bound = inv_guess_a(z + delta_c)
     a_guess = a_n(n_guess)
     if a_guess == z: return n_guess + 1
     if a_guess > z: start, end = n_low_bound, n_guess
     else:           start, end = n_guess, n_high_bound
     while (increment := end - start) > 1:
         middle = start + increment // 2
         a_middle = a_n(middle)
         if a_middle > z: end = middle
         else:            start = middle
     return start + 1

   and the mixed-radix offset of HyperbolicPairing (pairing.py), the factorisation sympy.factorint returns being an input:
     pairing2d:    offset = sum_i multiplicity(p_i, x+1) * prod_{k<i} (1 + e_k);  z = a_n(n - 1) + offset,  n = (x+1)(y+1)
     projection2d: x_exponent_i = floor((z - a_n(n-1)) / prod_{k<i} (1 + e_k)) % (e_i + 1);  x = prod p_i ** x_exponent_i;  y = n // x *)
From Coq Require Import ZArith List Bool.
From RV Require Import Model.Pairing.
Import ListNotations.
Open Scope Z_scope.

Fixpoint ub_bisect (fuel : nat) (z start end_ : Z) : Z :=
  match fuel with
  | O => start
  | S k =>
      if 1 <? end_ - start then
        let middle := start + (end_ - start) / 2 in
        if z <? a_n middle then ub_bisect k z start middle else ub_bisect k z middle end_
      else start
  end.

Definition upper_bound_a_n (z n_low n_guess n_high : Z) : Z :=
  if z =? 0 then 1 else
  let a_guess := a_n n_guess in
  if a_guess =? z then n_guess + 1 else
  let se := if z <? a_guess then (n_low, n_guess) else (n_guess, n_high) in
  ub_bisect (Z.to_nat (snd se - fst se)) z (fst se) (snd se) + 1.

(* sympy.multiplicity(p, n) for p >= 2, n >= 1: the largest r with p^r | n *)
Fixpoint mult_fuel (fuel : nat) (p n : Z) : Z :=
  match fuel with
  | O => 0
  | S k => if (1 <? p) && (0 <? n) && (n mod p =? 0) then 1 + mult_fuel k p (n / p) else 0
  end.
Definition multiplicity (p n : Z) : Z := mult_fuel (Z.to_nat (Z.log2 n + 1)) p n.

(* fact = sorted(factorint(n).items()): [(p_1, e_1); ...] *)
Definition hyp_radices (fact : list (Z * Z)) : list Z := map (fun pe => 1 + snd pe) fact.
Fixpoint mixed_encode (ms rs : list Z) : Z :=          (* sum_i r_i * prod_{k<i} m_k *)
  match ms, rs with m :: mr, r :: rr => r + m * mixed_encode mr rr | _, _ => 0 end.
Definition hyp_pairing2d (fact : list (Z * Z)) (x y : Z) : Z :=
  if (x =? 0) && (y =? 0) then 0 else
  let n := (x + 1) * (y + 1) in
  a_n (n - 1) + mixed_encode (hyp_radices fact) (map (fun pe => multiplicity (fst pe) (x + 1)) fact).
Definition hyp_projection2d (fact : list (Z * Z)) (n z : Z) : Z * Z :=
  if z =? 0 then (0, 0) else
  let off := z - a_n (n - 1) in
  let rs := lazy_tuple (hyp_radices fact) off in
  let x := fold_right Z.mul 1 (map (fun pr => fst (fst pr) ^ snd pr) (combine fact rs)) in
  (x - 1, n / x - 1).
(* the factorisation handed in is one of n: n = prod p_i ^ e_i, primes increasing, exponents positive *)
Fixpoint fact_sorted (lo : Z) (fact : list (Z * Z)) : bool :=
  match fact with [] => true | (p, e) :: r => (lo <? p) && (0 <? e) && fact_sorted p r end.
Definition fact_of (fact : list (Z * Z)) (n : Z) : bool :=
  fact_sorted 1 fact && (fold_right Z.mul 1 (map (fun pe => fst pe ^ snd pe) fact) =? n).

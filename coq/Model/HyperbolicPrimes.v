(* C14 (wave 6) -- the factorisation sympy.factorint hands to HyperbolicPairing is DATA for the model (Model/Hyperbolic.v: fact_of
   checks increasing bases > 1, positive exponents, product = n).  The round trip of the pairing also needs the bases to be prime
   (multiplicity(p_i, x+1) reads the exponent vector of a divisor back only then): checked here by trial division up to the integer
   square root, so that the correspondence verifies, not trusts, sympy's primes. *)
From Coq Require Import ZArith List Bool.
Import ListNotations.
Open Scope Z_scope.

Definition is_prime_b (p : Z) : bool :=
  (1 <? p) && forallb (fun k => negb (p mod k =? 0)) (map (fun i => Z.of_nat i + 2) (seq 0 (Z.to_nat (Z.sqrt p - 1)))).
Definition fact_primes (fact : list (Z * Z)) : bool := forallb (fun pe => is_prime_b (fst pe)) fact.

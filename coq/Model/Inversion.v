(* C02 -- model of rpylib/distribution/variate/inversion.py (InversionMethod.sample_with_u) on top of the model of
   StatesManager.project_index_to_state_increment (Model/StatesManager.v, tree with the repair a073fcb: a restart at
   x == max_logged resumes after the pairing index of the last LOGGED state).
   State of the machine: the two deques (_cumulative_probabilities, _simulated_state_increments; lists read
   left to right, append at the end) and the StatesManager pair (_last_projected_index, _last_logged_index).
   The enumeration is abstract: proj : index -> state (pairing.project), outside : state -> bool
   (StatesManager.is_outside), F = max_frontier_indices, prob = probability_to_jump_to_state,
   M = _max_storage. *)
From Coq Require Import List Arith ZArith QArith Bool.
From RV Require Import Base.QB Model.Huffman Model.StatesManager.
Import ListNotations.
Open Scope Q_scope.

Section Inversion.
  Context {S : Type}.
  Variable proj : Z -> S.
  Variable outside : S -> bool.
  Variable F : Z.
  Variable prob : S -> Q.
  Variable M : Z.

  Record ist := { i_cum : list Q; i_states : list S; i_sm : Z * Z }.

  (* what sample_with_u returns: a state, or (break_here) a state drawn at random on the frontier, or
     Python's None (only if the loop body were never entered -- unreachable) *)
  Inductive iout := Out (s : S) | Frontier | NoOut.

  Definition zlen {A : Type} (l : list A) : Z := Z.of_nat (length l).

  (* the `while u > s` loop; project_index_to_state_increment(x, self._max_storage) = sm_step_index ... x M *)
  Fixpoint inv_loop (fuel : nat) (u s : Q) (x : Z) (st : ist) (out : iout) : ist * iout :=
    match fuel with
    | O => (st, out)
    | Datatypes.S f =>
        if Qltb s u then
          let x' := (x + 1)%Z in
          let r := sm_step_index S proj outside F (i_sm st) x' M in
          match fst r with
          | None => ({| i_cum := i_cum st; i_states := i_states st; i_sm := snd r |}, Frontier)
          | Some i =>
              let state := proj i in
              let s' := s + prob state in
              let st' := if (zlen (i_cum st) <? M)%Z
                         then {| i_cum := i_cum st ++ [s']; i_states := i_states st ++ [state]; i_sm := snd r |}
                         else {| i_cum := i_cum st; i_states := i_states st; i_sm := snd r |} in
              inv_loop f u s' x' st' (Out state)
          end
        else (st, out)
    end.

  Definition inv_step (st : ist) (u : Q) : ist * iout :=
    let s := last (i_cum st) 0 in
    if Qltb s u then
      inv_loop (Z.to_nat (F + 3)) u s (zlen (i_cum st) - 1)%Z st NoOut
    else
      match nth_error (i_states st) (bisect_left (i_cum st) u) with
      | Some state => (st, Out state)
      | None => (st, NoOut)
      end.

  (* __init__: project_index_to_state_increment(0) on a fresh StatesManager, max_logged = -1 (the default) *)
  Definition inv_init : option ist :=
    let r := sm_step_index S proj outside F sm_init 0 (-1) in
    match fst r with
    | Some i => Some {| i_cum := [prob (proj i)]; i_states := [proj i]; i_sm := snd r |}
    | None => None
    end.

  (* a sequence of draws from a given state: outputs in order *)
  Fixpoint inv_run (st : ist) (us : list Q) : list iout :=
    match us with
    | [] => []
    | u :: r => let so := inv_step st u in snd so :: inv_run (fst so) r
    end.

  Inductive reachable : ist -> Prop :=
  | reach_init st : inv_init = Some st -> reachable st
  | reach_step st u : reachable st -> reachable (fst (inv_step st u)).
End Inversion.

Arguments Out {S}. Arguments Frontier {S}. Arguments NoOut {S}.

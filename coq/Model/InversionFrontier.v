(* C02 (wave 5) -- the exhaustion path of InversionMethod.sample_with_u with the frontier draw INSIDE the model.

     pairing.py, StatesManager:
       def _sample_frontier_state_increment(self):
           index = np.random.choice(self.frontier_states_indices)      # the only random choice: position c in the deque
           state_increment = self.pairing.project(index)
           return state_increment
       project_index_to_state_increment: ... (enumeration exhausted) return self._sample_frontier_state_increment(), True
     inversion.py:  state_increment, break_here = project_index_to_state_increment(x, self._max_storage)
                    if break_here: break          ...        return state_increment

   Model/Inversion.v returns the symbol `Frontier` on that path.  Here the symbol is resolved: the random choice is an
   explicit input c (the position np.random.choice picks in the deque frontier_states_indices, 0 <= c < len), consumed
   only when the enumeration is exhausted; fr is the deque (pairing indices, leftmost first). *)
From Coq Require Import List ZArith QArith Bool.
From RV Require Import Base.QB Gen.GenPairing Model.Pairing Model.StatesManager Model.Inversion Model.Domain.
Import ListNotations.
Open Scope Q_scope.

Section InvFrontier.
  Context {S : Type}.
  Variable proj : Z -> S.
  Variable outside : S -> bool.
  Variable F : Z.
  Variable prob : S -> Q.
  Variable M : Z.
  Variable fr : list Z.

  (* _sample_frontier_state_increment with np.random.choice = position c *)
  Definition frontier_state (c : nat) : S := proj (nth c fr 0%Z).

  (* what sample_with_u returns (None = Python's None, unreachable) *)
  Definition inv_resolve (c : nat) (o : @iout S) : option S :=
    match o with Out s => Some s | Frontier => Some (frontier_state c) | NoOut => None end.

  Definition inv_step_f (st : @ist S) (u : Q) (c : nat) : @ist S * option S :=
    let so := inv_step proj outside F prob M st u in (fst so, inv_resolve c (snd so)).

  (* is np.random.choice called by this draw? *)
  Definition inv_uses_choice (st : @ist S) (u : Q) : bool :=
    match snd (inv_step proj outside F prob M st u) with Frontier => true | _ => false end.

  (* a history of draws (u, c): outputs in order, and the final state *)
  Fixpoint inv_run_f (st : @ist S) (ucs : list (Q * nat)) : list (option S) * @ist S :=
    match ucs with
    | [] => ([], st)
    | (u, c) :: r => let so := inv_step_f st u c in
                     let rr := inv_run_f (fst so) r in (snd so :: fst rr, snd rr)
    end.
End InvFrontier.

(* the 1-d deque of Domain.compute_total_number_of_states_and_frontier on the factory's pairing
   PairingToZ1d((-L, R), omit_zero=True): deque([pair(R), pair(-L)]) (Model/Domain.v: dom_1d) *)
Definition fr1d (L R : Z) : list Z := snd (dom_1d (z1d_pair (- L) R 1) (L + R + 1) L).
(* StatesManager.__init__: max_frontier_indices of that grid *)
Definition maxf1d (L R : Z) : Z := dom_maxf (dom_1d (z1d_pair (- L) R 1) (L + R + 1) L).
(* StatesManager.is_outside with the factory's Boundary() (never outside the domain): outside the grid *)
Definition outside1d (L R : Z) (s : Z) : bool := negb ((- L <=? s) && (s <=? R))%Z.

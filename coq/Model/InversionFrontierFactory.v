(* C02 (wave 8, audit 5a B11) -- the n-d INVERSION sampler with the enumeration the factory REALLY picks:
     samplingfactory.py, create_sampling_inversion_method:
        if model.dimension() == 2:  pairing = PairingToZd(pairing=Szudzik(), dimension=2)
        else:                       pairing = PairingToZd(pairing=RosenbergStrong(), dimension=model.dimension())
        domain = Domain(boundary=Boundary(), grid=grid, pairing=pairing);  StatesManager(pairing, domain, grid)
   Model/InversionFrontierNd.v is the (nested) Szudzik instance for every d >= 2 -- the factory's enumeration ONLY for d = 2.
   Here: the Rosenberg-Strong instance (rsnd_pair, rsnd_project: PairingToZd over rs_pairing / rs_projection of Model/Pairing.v, omit_zero = True)
   and the factory's own choice by dimension (fac_pair, fac_project).  Deque and max_frontier_indices are computed by Model/Domain.v as before. *)
From Coq Require Import List ZArith QArith Bool.
From RV Require Import Base.QB Gen.GenPairing Model.Pairing Model.Domain Model.InversionFrontierNd.
Import ListNotations.
Open Scope Z_scope.

Definition rsnd_pair : list Z -> Z := zdn_pair rs_pairing 1.
Definition rsnd_project (d : nat) : Z -> list Z := zdn_project rs_projection d 1.
Definition frrs (sizes : list Z) (o : Z) : list Z := snd (dom_nd nobound rsnd_pair sizes o).
Definition maxfrs (sizes : list Z) (o : Z) : Z := dom_maxf (dom_nd nobound rsnd_pair sizes o).

(* the branch of create_sampling_inversion_method on model.dimension() *)
Definition fac_pair (d : nat) : list Z -> Z := if Nat.eqb d 2 then sznd_pair else rsnd_pair.
Definition fac_project (d : nat) : Z -> list Z := if Nat.eqb d 2 then sznd_project d else rsnd_project d.
Definition frfac (sizes : list Z) (o : Z) : list Z := snd (dom_nd nobound (fac_pair (length sizes)) sizes o).
Definition maxffac (sizes : list Z) (o : Z) : Z := dom_maxf (dom_nd nobound (fac_pair (length sizes)) sizes o).

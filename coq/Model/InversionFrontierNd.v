(* C02 (wave 6) -- the n-d (d >= 2) instance of the INVERSION sampler the factory builds, with the frontier deque inside:
     samplingfactory.py:  pairing = PairingToZd(Szudzik(), dimension)      (d = 2; nested Szudzik is Model/Pairing.v nest_pairing)
                          domain  = Domain(grid, Boundary())               (nothing outside the domain)
                          StatesManager(grid, pairing, domain)
   - the deque frontier_states_indices = snd (dom_nd ..) of Model/Domain.v (C14), leftmost first,
   - max_frontier_indices = dom_maxf (dom_nd ..),
   - is_outside = sm_is_outside (outside the grid box; Boundary() adds nothing),
   - states are state increments as lists of d integers; sizes = axis sizes, o = the origin index used on every axis. *)
From Coq Require Import List ZArith QArith Bool.
From RV Require Import Base.QB Gen.GenPairing Model.Pairing Model.Domain.
Import ListNotations.
Open Scope Z_scope.

Definition nobound (_ : list Z) : bool := false.
Definition sznd_pair : list Z -> Z := zdn_pair (nest_pairing szudzik_pairing2d) 1.
Definition sznd_project (d : nat) : Z -> list Z := zdn_project (nest_projection szudzik_projection2d) d 1.
Definition frnd (sizes : list Z) (o : Z) : list Z := snd (dom_nd nobound sznd_pair sizes o).
Definition maxfnd (sizes : list Z) (o : Z) : Z := dom_maxf (dom_nd nobound sznd_pair sizes o).
Definition outsidend (sizes : list Z) (o : Z) : list Z -> bool := sm_is_outside sizes o nobound.

(* a probability table given as data (correspondence): state increment -> probability, 0 elsewhere *)
Fixpoint zl_eqb (a b : list Z) : bool :=
  match a, b with
  | [], [] => true
  | x :: a', y :: b' => Z.eqb x y && zl_eqb a' b'
  | _, _ => false
  end.
Fixpoint lookupn (t : list (list Z * Q)) (s : list Z) : Q :=
  match t with [] => 0%Q | (a, q) :: r => if zl_eqb a s then q else lookupn r s end.

(* C02 -- the model of InversionMethod + StatesManager BEFORE the repair a073fcb (StatesManager reset
   _last_projected_index to -1 when x == max_logged and so restarted at the PAIRING index max_logged): kept only for the
   historical witness of F-C02-7 / F-C14-6 (Example inversion_overflow_orig in Proofs/C02_Refuted.v). *)
From Coq Require Import List Arith ZArith QArith Bool.
From RV Require Import Base.QB Model.Huffman.
Import ListNotations.
Open Scope Q_scope.

Module InvOrig.
Section Inversion.
  Context {S : Type}.
  Variable proj : Z -> S.
  Variable inside : S -> bool.
  Variable F : Z.
  Variable prob : S -> Q.
  Variable M : Z.

  Record ist := { i_cum : list Q; i_states : list S; i_lpi : Z }.

  (* what sample_with_u returns: a state, or (break_here) a state drawn at random on the frontier, or
     Python's None (only if the loop body were never entered -- unreachable) *)
  Inductive iout := Out (s : S) | Frontier | NoOut.

  (* while xx <= max_frontier: if not is_outside(project(xx)): found; xx += 1      -> (found state?, xx) *)
  Fixpoint sm_search (fuel : nat) (xx : Z) : option S * Z :=
    match fuel with
    | O => (None, xx)
    | Datatypes.S f =>
        if (xx <=? F)%Z then
          if inside (proj xx) then (Some (proj xx), xx) else sm_search f (xx + 1)%Z
        else (None, xx)
    end.

  (* project_index_to_state_increment(x, max_logged = M) with _last_projected_index = lpi:
     returns (state or None when break_here, new _last_projected_index) *)
  Definition sm_project (x lpi : Z) : option S * Z :=
    let lpi1 := if (x =? M)%Z then (-1)%Z else lpi in
    let xx := Z.max x (lpi1 + 1) in
    sm_search (Z.to_nat (F + 2 - xx)) xx.

  Definition zlen {A : Type} (l : list A) : Z := Z.of_nat (length l).

  (* the `while u > s` loop *)
  Fixpoint inv_loop (fuel : nat) (u s : Q) (x : Z) (st : ist) (out : iout) : ist * iout :=
    match fuel with
    | O => (st, out)
    | Datatypes.S f =>
        if Qltb s u then
          let x' := (x + 1)%Z in
          match sm_project x' (i_lpi st) with
          | (None, lpi') => ({| i_cum := i_cum st; i_states := i_states st; i_lpi := lpi' |}, Frontier)
          | (Some state, lpi') =>
              let s' := s + prob state in
              let st' := if (zlen (i_cum st) <? M)%Z
                         then {| i_cum := i_cum st ++ [s']; i_states := i_states st ++ [state]; i_lpi := lpi' |}
                         else {| i_cum := i_cum st; i_states := i_states st; i_lpi := lpi' |} in
              inv_loop f u s' x' st' (Out state)
          end
        else (st, out)
    end.

  Definition inv_step (st : ist) (u : Q) : ist * iout :=
    let s := last (i_cum st) 0 in
    if Qltb s u then
      inv_loop (Z.to_nat (F + 3)) u s (zlen (i_cum st) - 1)%Z st NoOut
    else
      match nth_error (i_states st) (bisect_left (i_cum st) u) with
      | Some state => (st, Out state)
      | None => (st, NoOut)
      end.

  (* __init__: project_index_to_state_increment(0) with _last_projected_index = -1 and max_logged = -1 *)
  Definition inv_init : option ist :=
    match sm_search (Z.to_nat (F + 2)) 0%Z with
    | (Some s0, lpi) => Some {| i_cum := [prob s0]; i_states := [s0]; i_lpi := lpi |}
    | (None, _) => None
    end.

  (* a sequence of draws from a given state: outputs in order *)
  Fixpoint inv_run (st : ist) (us : list Q) : list iout :=
    match us with
    | [] => []
    | u :: r => let so := inv_step st u in snd so :: inv_run (fst so) r
    end.

  Inductive reachable : ist -> Prop :=
  | reach_init st : inv_init = Some st -> reachable st
  | reach_step st u : reachable st -> reachable (fst (inv_step st u)).
End Inversion.

Arguments Out {S}. Arguments Frontier {S}. Arguments NoOut {S}.
End InvOrig.

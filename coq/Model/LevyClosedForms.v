(* C09 -- closed-form Levy-measure integrals: hand-written part of the model.

   The straight-line closed forms are NOT here: they are regenerated from the source by py2coq
   (Gen.GenC09Hem, Gen.GenC09Vg, Gen.GenC09Merton, Gen.GenC09Trunc).  This file only
     * ties the knot of the methods that call themselves on the two halves of a straddling interval
       (the generated definitions take the callee as the argument [rec]); Python evaluates
       f(a,b) -> f(a,0) + f(0,b) and both inner calls return without recursing, so unrolling twice over an
       arbitrary default [dflt] is the faithful model (Proofs/C09_*.v prove the result does not depend on dflt);
     * defines the special functions by what they mean (erf, E1 difference, incomplete-gamma difference);
     * models the loop/numpy code of rpylib/tools/integral.py, of VG integrate_against_xn, of the generic
       LevyMeasure.integrate_against_xn dispatch, of TruncatedLevyMeasure.integrate* and CGMY's recursion by hand. *)
From Coq Require Import Reals Bool Arith.
From Coquelicot Require Import Coquelicot.
From RV Require Import Base.RB Base.RSpecial Gen.GenC09Hem Gen.GenC09Vg Gen.GenC09Merton Gen.GenC09Trunc.
Open Scope R_scope.

Definition dflt : R -> R -> R := fun _ _ => 0.

(* ---------------------------------------------------------------- HEM (hem.py) *)
Definition hem_integrate INF lam p eta1 eta2 : R -> R -> R :=
  hem_integrate_F (hem_integrate_F dflt INF lam p eta1 eta2) INF lam p eta1 eta2.
Definition hem_integrate_x INF lam p eta1 eta2 : R -> R -> R :=
  hem_integrate_x_F (hem_integrate_x_F dflt INF lam p eta1 eta2) INF lam p eta1 eta2.
Definition hem_integrate_xx INF lam p eta1 eta2 : R -> R -> R :=
  hem_integrate_xx_F (hem_integrate_xx_F dflt INF lam p eta1 eta2) INF lam p eta1 eta2.

(* half-line masses: Python evaluates the same expression with np.exp(-inf) = 0.0 *)
Definition hem_integrate_left lam p eta2 b : R := lam * (1 - p) * exp (eta2 * b).
Definition hem_integrate_right lam p eta1 a : R := lam * p * exp (- eta1 * a).

(* special functions (erf, E1c, Gupc) are defined by their integrals in Base/RSpecial.v *)
Definition E1diff (x y : R) : R := RInt (fun t => exp (- t) / t) x y.

(* ---------------------------------------------------------------- VG (variancegamma.py) *)
Definition vg_integrate_x INF c lm lp : R -> R -> R :=
  vg_integrate_x_F (vg_integrate_x_F dflt INF c lm lp) INF c lm lp.
Definition vg_integrate_xx INF c lm lp : R -> R -> R :=
  vg_integrate_xx_F (vg_integrate_xx_F dflt INF c lm lp) INF c lm lp.

(* ---------------------------------------------------------------- tools/integral.py (hand model: numpy loop)
   _helper_sum_fact_xk(n, x) = n! * sum_{k=0..n} |x|^k / k!                    (after fix: divides by k!)          *)
Fixpoint sum_pow_over_fact (n : nat) (x : R) : R :=
  match n with
  | O => 1
  | S m => sum_pow_over_fact m x + Rabs x ^ (S m) / INR (fact (S m))
  end.
Definition helper_sum_fact_xk (n : nat) (x : R) : R := INR (fact n) * sum_pow_over_fact n x.

(* helper(u) inside integral_xn_exp_minus_x *)
Definition xn_helper (n : nat) (alpha u : R) : R :=
  helper_sum_fact_xk n (u * alpha) * exp (- Rabs u * alpha) / alpha ^ (n + 1).

(* integral_xn_exp_minus_x(n, a, b, alpha) for finite a <= b   (alpha <= 0 raises: modelled as 0).
   After the fix: on a <= b <= 0 the value helper(a) - helper(b) is negated for even n. *)
Definition xn_exp_F (rec : R -> R -> R) (n : nat) (alpha a b : R) : R :=
  if Rleb alpha 0 then 0 else
  if Rltb a 0 && Rltb 0 b then rec a 0 + rec 0 b else
  let res := xn_helper n alpha a - xn_helper n alpha b in
  if Rleb b 0 && Nat.even n then - res else res.
Definition integral_xn_exp_minus_x (n : nat) (alpha : R) : R -> R -> R :=
  xn_exp_F (xn_exp_F dflt n alpha) n alpha.
(* half lines: a = -inf -> -helper(b) (then the sign rule), b = +inf -> helper(a) *)
Definition integral_xn_exp_left (n : nat) (alpha b : R) : R :=
  let res := - xn_helper n alpha b in if Rleb b 0 && Nat.even n then - res else res.
Definition integral_xn_exp_right (n : nat) (alpha a : R) : R := xn_helper n alpha a.

(* the code before the two fix: commits (kept for the _refuted witnesses): multiplies by k!, no sign rule *)
Fixpoint sum_pow_times_fact (n : nat) (x : R) : R :=
  match n with
  | O => 1
  | S m => sum_pow_times_fact m x + Rabs x ^ (S m) * INR (fact (S m))
  end.
Definition xn_helper_old (n : nat) (alpha u : R) : R :=
  INR (fact n) * sum_pow_times_fact n (u * alpha) * exp (- Rabs u * alpha) / alpha ^ (n + 1).
Definition integral_xn_exp_old (n : nat) (alpha a b : R) : R := xn_helper_old n alpha a - xn_helper_old n alpha b.

(* VG integrate_against_xn(a, b, n), n >= 1, after the fix (b <= 0 -> lambda-, straddling split at 0) *)
Definition vg_integrate_xn_F (rec : R -> R -> R) (c lm lp : R) (n : nat) (a b : R) : R :=
  if Rltb a 0 && Rltb 0 b then rec a 0 + rec 0 b else
  if Rleb b 0 then - c * integral_xn_exp_minus_x (n - 1) lm a b
  else c * integral_xn_exp_minus_x (n - 1) lp a b.
Definition vg_integrate_xn c lm lp n : R -> R -> R :=
  vg_integrate_xn_F (vg_integrate_xn_F dflt c lm lp n) c lm lp n.
(* before the fix: `if b < 0` (so b = 0 and straddling intervals use lambda+ and +c on both sides) *)
Definition vg_integrate_xn_old (xn_exp : nat -> R -> R -> R -> R) (c lm lp : R) (n : nat) (a b : R) : R :=
  if Rltb b 0 then - c * xn_exp (n - 1)%nat lm a b else c * xn_exp (n - 1)%nat lp a b.

(* ---------------------------------------------------------------- LevyMeasure.integrate_against_xn dispatch
   (levymodel.py; n = 0 -> integrate(a, b) after the fix, was integrate(a, a)) *)
Definition base_integrate_xn (integ integ_x integ_xx : R -> R -> R) (quad_xn : nat -> R -> R -> R)
           (a b : R) (n : nat) : R :=
  match n with
  | 0%nat => integ a b
  | 1%nat => integ_x a b
  | 2%nat => integ_xx a b
  | _ => quad_xn n a b
  end.
Definition base_integrate_xn_old (integ integ_x integ_xx : R -> R -> R) (quad_xn : nat -> R -> R -> R)
           (a b : R) (n : nat) : R :=
  match n with
  | 0%nat => integ a a
  | 1%nat => integ_x a b
  | 2%nat => integ_xx a b
  | _ => quad_xn n a b
  end.

(* ---------------------------------------------------------------- TruncatedLevyMeasure.integrate* *)
(* a > b raises (modelled as 0); an empty or one-point intersection returns 0 without calling the wrapped measure *)
Definition truncated_integrate (integ : R -> R -> R) (l r a b : R) : R :=
  if Rltb b a then 0 else
  let '(aa, bb) := truncated_interval l r a b in if Reqb aa bb then 0 else integ aa bb.

(* ---------------------------------------------------------------- CGMY (cgmy.py), hand model of the branch structure
   __integrate_h_to_inf(alpha, h, u) = int_h^inf exp(-u x) / x^(1+alpha) dx for alpha < 1, alpha <> 0:
   Gup s x stands for gamma(s) * gammaincc(s, x).  *)
Definition cgmy_tail (Gup : R -> R -> R) (alpha h u : R) : R :=
  let uh := u * h in
  (exp (- uh) * (1 + uh / (1 - alpha)) - Rpower uh alpha * Gup (2 - alpha) uh / (1 - alpha)) / (alpha * Rpower h alpha).
(* __integrate_h_to_inf_for_xx(alpha, h, u) = int_h^inf exp(-u x) / x^alpha dx, alpha <> 1 *)
Definition cgmy_tail_x (Gup : R -> R -> R) (alpha h u : R) : R :=
  let uh := u * h in
  (Rpower h (1 - alpha) * exp (- uh) - Rpower u (alpha - 1) * Gup (2 - alpha) uh) / (alpha - 1).
(* integrate(a,b), integrate_against_x(a,b) on 0 < a <= b finite *)
Definition cgmy_integrate_pos Gup c m y a b : R := c * cgmy_tail Gup y a m - c * cgmy_tail Gup y b m.
Definition cgmy_integrate_x_pos Gup c m y a b : R := c * (cgmy_tail_x Gup y a m - cgmy_tail_x Gup y b m).
Definition cgmy_integrate_neg Gup c g y a b : R := c * cgmy_tail Gup y (- b) g - c * cgmy_tail Gup y (- a) g.
Definition cgmy_integrate_x_neg Gup c g y a b : R := c * (cgmy_tail_x Gup y (- a) g - cgmy_tail_x Gup y (- b) g).
Definition cgmy_nu (c g m y x : R) : R :=
  if Rltb x 0 then c * exp (- g * Rabs x) / Rpower (Rabs x) (y + 1)
  else if Rltb 0 x then c * exp (- m * Rabs x) / Rpower (Rabs x) (y + 1) else 0.

(* CGMY tails WITH the branch structure the code executes (E1 stands for scipy.special.exp1):
   __integrate_h_to_inf(alpha, h, u):  alpha == 0 -> exp1(uh);
                                      alpha >= 1 -> exp(-uh)/(alpha h^alpha) - (u/alpha) * __integrate_h_to_inf(alpha - 1, h, u);
                                      otherwise the incomplete-gamma closed form cgmy_tail.
   One recursion step is unrolled: for alpha < 2 (every admissible y) the inner call has alpha - 1 < 1 and does not recurse. *)
Definition cgmy_tail_code (E1 : R -> R) (Gup : R -> R -> R) (alpha h u : R) : R :=
  if Reqb alpha 0 then E1 (u * h)
  else if Rleb 1 alpha
       then exp (- (u * h)) / (alpha * Rpower h alpha)
            - u / alpha * (if Reqb (alpha - 1) 0 then E1 (u * h) else cgmy_tail Gup (alpha - 1) h u)
       else cgmy_tail Gup alpha h u.
(* __integrate_h_to_inf_for_xx(alpha, h, u): alpha == 1.0 -> exp1(uh); otherwise cgmy_tail_x *)
Definition cgmy_tail_x_code (E1 : R -> R) (Gup : R -> R -> R) (alpha h u : R) : R :=
  if Reqb alpha 1 then E1 (u * h) else cgmy_tail_x Gup alpha h u.
Definition cgmy_mass_pos_code E1 Gup c m y a b : R := c * cgmy_tail_code E1 Gup y a m - c * cgmy_tail_code E1 Gup y b m.
Definition cgmy_mass_neg_code E1 Gup c g y a b : R := c * cgmy_tail_code E1 Gup y (- b) g - c * cgmy_tail_code E1 Gup y (- a) g.
Definition cgmy_x_pos_code E1 Gup c m y a b : R := c * (cgmy_tail_x_code E1 Gup y a m - cgmy_tail_x_code E1 Gup y b m).
Definition cgmy_x_neg_code E1 Gup c g y a b : R := c * (cgmy_tail_x_code E1 Gup y (- a) g - cgmy_tail_x_code E1 Gup y (- b) g).

(* C10 -- exponent, triplet, cumulants and simulation drifts: hand-written part of the model.

   Generated from the source by py2coq (Gen.GenC10Triplet/Hem/Merton/Vg/Cgmy/Bs/Exp): the four drift conversions of
   LevyTriplet, every levy_exponent_pure_jump (for a real argument), the cumulants, the simulation drifts, xi, the
   triplet drifts a, ExponentialOfLevyModel.drift.  Hand-written here:
     * LevyTriplet.set_representation (mutation of self.a / self.representation) and _drift_mapping;
     * LevyModel.levy_exponent restricted to the real axis u = -i s:  kappa(s) = psi(-i s) = a s + sigma^2 s^2/2 + pj(s)
       (Python computes 1j*x*a - 0.5*(x*sigma)**2 + pj(1j*x) with x = -1j*s; complex arithmetic is not modelled);
     * omega = -levy_exponent(-1j).real, log_characteristic_function(t, -1j), Process.deterministic_path,
       MarkovChainProcess drift (markovchain.py: model.drift() + a + mu_tilde - mu_h);
     * the Levy-Khintchine integrand for a representation. *)
From Coq Require Import Reals Bool.
From Coquelicot Require Import Coquelicot.
From RV Require Import Base.RB Gen.GenC10Triplet Gen.GenC10Cgmy Gen.GenC10Exp.
Open Scope R_scope.

(* ---------------------------------------------------------------- representations *)
Inductive Rep := ZERO | CENTER | ONEONE | TILDE.
Definition rep_code (r : Rep) : R := match r with ZERO => 1 | CENTER => 2 | ONEONE => 3 | TILDE => 4 end.
Definition rep_eqb (r r' : Rep) : bool :=
  match r, r' with ZERO, ZERO | CENTER, CENTER | ONEONE, ONEONE | TILDE, TILDE => true | _, _ => false end.

Record Triplet := mkTriplet { t_a : R; t_rep : Rep }.

Section Conversions.
Variable INF : R.                 (* the float infinity *)
Variable m1 : R -> R -> R.        (* nu.integrate_against_x *)
Variable fv : bool.               (* nu.jump_of_finite_variation() *)

(* self._drift_mapping[representation]() *)
Definition drift_in (r' : Rep) (t : Triplet) : R :=
  match r' with
  | ONEONE => canonical_drift INF m1 fv (t_a t) (rep_code (t_rep t))
  | TILDE => tilde_drift INF m1 fv (t_a t) (rep_code (t_rep t))
  | CENTER => center_drift INF m1 fv (t_a t) (rep_code (t_rep t))
  | ZERO => zero_drift INF m1 fv (t_a t) (rep_code (t_rep t))
  end.

(* LevyTriplet.set_representation: if representation != self.representation: self.a = mapping(); self.representation = ... *)
Definition set_representation (r' : Rep) (t : Triplet) : Triplet :=
  if rep_eqb r' (t_rep t) then t else mkTriplet (drift_in r' t) r'.

Fixpoint set_representations (rs : list Rep) (t : Triplet) : Triplet :=
  match rs with
  | nil => t
  | cons r rs' => set_representations rs' (set_representation r t)
  end.

(* what the conversions mean: the drift of representation r for canonical drift c *)
Definition I11 : R := m1 (-1) 1.
Definition Tails : R := m1 (- INF) (-1) + m1 1 INF.
Definition of_canonical (r : Rep) (c : R) : R :=
  match r with
  | ONEONE => c
  | ZERO => c - I11
  | CENTER => c + Tails
  | TILDE => if fv then c - I11 else c
  end.
Definition to_canonical (r : Rep) (a : R) : R :=
  match r with
  | ONEONE => a
  | ZERO => a + I11
  | CENTER => a - Tails
  | TILDE => if fv then a + I11 else a
  end.
End Conversions.

(* ---------------------------------------------------------------- exponent on the real axis *)
Definition kappa (a sigma : R) (pj : R -> R) (s : R) : R := a * s + sigma ^ 2 * s ^ 2 / 2 + pj s.

(* Levy-Khintchine integrand exp(s x) - 1 - s h_rep(x) *)
Definition h_rep (r : Rep) (fv : bool) (x : R) : R :=
  match r with
  | ZERO => 0
  | CENTER => x
  | ONEONE => if Rltb (Rabs x) 1 then x else 0
  | TILDE => if fv then 0 else (if Rltb (Rabs x) 1 then x else 0)
  end.
Definition lk_integrand (r : Rep) (fv : bool) (s x : R) : R := exp (s * x) - 1 - s * h_rep r fv x.

(* CGMY exponent: the generated definition has two dummy arguments (see specs/C10.py) *)
Definition cgmy_kappa_pj (c g m y CGammamY : R) (s : R) : R := cgmy_pj c g m y CGammamY 0 0 s.

(* ---------------------------------------------------------------- exponential models *)
(* self.omega = -levy_model.levy_exponent(x=-1j).real *)
Definition omega_of (a sigma : R) (pj : R -> R) : R := - kappa a sigma pj 1.
(* log_characteristic_function(t, -1j, log_spot) = exp(1j*x*(log_spot + t*drift)) * exp(t*levy_exponent(x)) at x = -1j *)
Definition expected_spot_cf (log_spot r d a sigma : R) (pj : R -> R) (t : R) : R :=
  exp (log_spot + t * exp_model_drift r d (omega_of a sigma pj)) * exp (t * kappa a sigma pj 1).
(* direct simulation: log S_t = x0 + process_drift * t + sigma W_t + sum of the jumps (jump law nu, not compensated):
   E S_t = exp(x0 + t * (process_drift + sigma^2/2 + int (e^x - 1) nu(dx))) *)
Definition direct_growth (process_drift sigma J0 : R) : R := process_drift + sigma ^ 2 / 2 + J0.
(* Process.deterministic_path *)
Definition deterministic_path (x0 process_drift t : R) : R := x0 + process_drift * t.
(* MarkovChainProcess.initialisation: self._process_drift = model.drift() + a + mu_tilde - mu_h *)
Definition ctmc_process_drift (model_drift a_tilde mu_tilde mu_h : R) : R := model_drift + a_tilde + mu_tilde - mu_h.
(* mu_tilde = nu.integrate_against_x(-inf, -v) + nu.integrate_against_x(v, inf), v = 0 if finite variation else 1 *)
Definition ctmc_mu_tilde (INF : R) (m1 : R -> R -> R) (fv : bool) : R :=
  let v := if fv then 0 else 1 in m1 (- INF) (- v) + m1 v INF.
(* growth rate of E exp(X_t) for X_t = process_drift t + sigma W_t + chain jumps, when the chain's jump law
   (rates q_k on states x_k, sum q_k x_k = mu_h) is replaced by the exact one:
   sum q_k (e^{x_k} - 1) = sum q_k (e^{x_k} - 1 - x_k) + mu_h  |->  Jc + mu_h  with  Jc = int (e^x - 1 - x) nu(dx) *)
Definition ctmc_growth_exact (process_drift mu_h sigma Jc : R) : R := process_drift + mu_h + sigma ^ 2 / 2 + Jc.

(* C10 (wave 6) -- the characteristic exponent for a REAL argument u (complex value), as the code computes it.
   Generated (Gen.GenC10Cx, plug-in py2coq_c10cx over C = R * R): LevyModel.levy_exponent (levy_exponent_c, the pure-jump exponent
   being a function argument), HEMModel / VarianceGammaModel.levy_exponent_pure_jump for a complex argument (hem_pj_c, vg_pj_c).
   Hand-written here: the evaluation at a real u, and the real / imaginary parts of the Levy-Khintchine integrand
   e^{i u x} - 1 - i u h_rep(x) of a representation. *)
From Coq Require Import Reals Bool.
From Coquelicot Require Import Coquelicot.
From RV Require Import Base.RB Base.CxPair Gen.GenC10Cx Model.LevyExponent.
Open Scope R_scope.

(* model.levy_exponent(u) for a real (float) u: Python promotes u to the complex number u + 0j *)
Definition psi_c (a sigma : R) (pj : C -> C) (u : R) : C := levy_exponent_c a sigma pj (RtoC u).

(* Re and Im of exp(i u x) - 1 - i u h_rep(x) *)
Definition lk_integrand_re (u x : R) : R := cos (u * x) - 1.
Definition lk_integrand_im (r : Rep) (fv : bool) (u x : R) : R := sin (u * x) - u * h_rep r fv x.

(* C09 -- the generic quadrature fall-backs of LevyMeasure (levymodel.py:81-115), hand model.

   scipy.integrate.quad is NOT modelled: it is the parameter [quad n a b] = the value quad returns for the integrand
   x |-> x^n * nu(x) on [a, b] (n = 0: `lambda x: self.__call__(x)`, n = 1: `self.x_nu`, n = 2: `lambda x: x*x*self.__call__(x)`,
   n >= 3: `lambda x: x**n * self.__call__(x)`); its SPECIFICATION is [quad_spec] below.  What is modelled is the code around it:
   the a > b guard (raise, modelled as 0), the dispatch on n of integrate_against_xn and the split of a straddling interval at
   zero for n >= 3 (fix a75f3f4), which calls integrate_against_xn again on [a,0] and [0,b] (neither straddles: unrolled twice). *)
From Coq Require Import Reals Bool Arith.
From Coquelicot Require Import Coquelicot.
From RV Require Import Base.RB.
Open Scope R_scope.

(* LevyMeasure.integrate / integrate_against_x / integrate_against_xx : guard, then one quad call over the whole [a, b] *)
Definition generic_integrate_n (quad : nat -> R -> R -> R) (n : nat) (a b : R) : R :=
  if Rltb b a then 0 else quad n a b.

(* LevyMeasure.integrate_against_xn(a, b, n), open recursion on the straddling branch *)
Definition generic_xn_F (rec : R -> R -> R) (quad : nat -> R -> R -> R) (n : nat) (a b : R) : R :=
  match n with
  | 0%nat | 1%nat | 2%nat => generic_integrate_n quad n a b
  | _ => if Rltb b a then 0
         else if Rltb a 0 && Rltb 0 b then rec a 0 + rec 0 b
         else quad n a b
  end.
Definition generic_xn (quad : nat -> R -> R -> R) (n : nat) : R -> R -> R :=
  generic_xn_F (generic_xn_F (fun _ _ => 0) quad n) quad n.

(* specification of scipy.integrate.quad on these integrands: whenever x^n nu is integrable over [a, b], a <= b, the value is
   the integral (the oracle checks it up to quad's tolerance, 1e-6 relative + 1e-7 absolute) *)
Definition quad_spec (nu : R -> R) (quad : nat -> R -> R -> R) : Prop :=
  forall n a b, a <= b -> ex_RInt (fun x => x ^ n * nu x) a b -> is_RInt (fun x => x ^ n * nu x) a b (quad n a b).

(* ---------------------------------------------------------------- CGMY first moment as EXECUTED by Python floats at a rate of 0
   (finding F-C09-13).  `0.0 ** negative` raises ZeroDivisionError: values are option R, None = the call raises.
   __integrate_h_to_inf_for_xx(alpha, h, u), branch alpha <> 1 and not (h = 0 and alpha > 1):
       (h ** (1 - alpha) * exp(-u h) - u ** (alpha - 1) * gamma(2 - alpha) * gammaincc(2 - alpha, u h)) / (alpha - 1)            *)
Definition pypow (x y : R) : option R := if Reqb x 0 && Rltb y 0 then None else Some (Rpower x y).
Definition cgmy_tail_x_exec (Gup : R -> R -> R) (alpha h u : R) : option R :=
  match pypow h (1 - alpha), pypow u (alpha - 1) with
  | Some p, Some q => Some ((p * exp (- (u * h)) - q * Gup (2 - alpha) (u * h)) / (alpha - 1))
  | _, _ => None
  end.
(* integrate_against_x(a, b), branch b <= 0, a finite:  c * (tail(-a, g) - tail(-b, g)) *)
Definition cgmy_x_neg_exec (Gup : R -> R -> R) (c g y a b : R) : option R :=
  match cgmy_tail_x_exec Gup y (- a) g, cgmy_tail_x_exec Gup y (- b) g with
  | Some s, Some t => Some (c * (s - t))
  | _, _ => None
  end.

(* ---------------------------------------------------------------- wave 7 (audit 4, A5): the INTEGRAND handed to scipy.quad, explicit.
   In [generic_xn quad n a b] the index n stands for "the callable the code passes to quad"; nothing in the term says which
   function that is.  Here scipy.integrate.quad is a function of its integrand, [Q f a b], specified for EVERY integrand, and the
   code's four callables are one definition:
       n = 0  lambda x: self.__call__(x)            n = 1  self.x_nu  (= x * self.__call__(x))
       n = 2  lambda x: x * x * self.__call__(x)     n >= 3 lambda x: x**n * self.__call__(x)
   [quad_of Q nu] is the old parameter.  The correspondence probes each recorded callable at a few points against
   [generic_integrand nu n] (props/C09.py _generic_cases). *)
Definition generic_integrand (nu : R -> R) (n : nat) : R -> R := fun x => x ^ n * nu x.
Definition quad_of (Q : (R -> R) -> R -> R -> R) (nu : R -> R) : nat -> R -> R -> R := fun n => Q (generic_integrand nu n).
Definition quad_fn_spec (Q : (R -> R) -> R -> R -> R) : Prop :=
  forall f a b, a <= b -> ex_RInt f a b -> is_RInt f a b (Q f a b).

(* C12 -- hand model of LevyCopulaModel._mass_nd / margin_tail_integral / tail_integrals /
   marginal_tail_integral (rpylib/model/levycopulamodel.py) and the instances of the py2coq-generated
   fast paths (Gen/GenC12Mass.v: mass_1d, mass_2d, mass_3d).

   Everything is written over a `Num` N (Base/ExtNum.v); coordinates are `ext N` (the code passes
   +-np.inf as end points).  QNum runs (correspondence), RNum is what the theorems are about. *)
From Coq Require Import List Arith Bool ZArith QArith Reals Lia.
From RV Require Import Base.QB Base.RB Base.ExtNum Model.Copula Gen.GenC12Mass.
Import ListNotations.

Section MassNd.
  Variable N : Num.
  Notation E := (ext N).
  Variable U1 : nat -> E -> N.                (* marginal_tail_integral(i, x)  *)
  Variable UI : idx -> list E -> N.           (* margin_tail_integral(indices, x) *)

  (* ---- the generated fast paths at this number type -------------------------------------- *)
  Definition fast_1d : E -> E -> nat -> N := mass_1d N U1.
  Definition fast_2d : list E -> list E -> idx -> N := mass_2d N U1 UI.
  Definition fast_3d : list E -> list E -> idx -> N := mass_3d N U1 UI.

  (* ---- _mass_nd ------------------------------------------------------------------------------
       j = next((i for i, ai, bi in zip(indices, a, b) if ai < 0 <= bi), None)
       if j is not None: k = indices.index(j); ... return j_mass - m1 - m2
       else: eps * volume(partial(margin_tail_integral, indices), a, b),  eps = -1 if len(a) odd *)
  Definition straddles (a b : E) : bool := xlt0 a && xge0 b.
  Fixpoint first_straddling (indices : list nat) (a b : list E) : option nat :=
    match indices, a, b with
    | i :: is', x :: a', y :: b' => if straddles x y then Some i else first_straddling is' a' b'
    | _, _, _ => None
    end.
  Fixpoint index_of (j : nat) (l : list nat) : nat :=          (* list.index *)
    match l with [] => 0 | i :: r => if Nat.eqb i j then 0 else S (index_of j r) end.
  Fixpoint set_nth {A : Type} (k : nat) (v : A) (l : list A) : list A :=
    match l, k with
    | [], _ => []
    | _ :: r, O => v :: r
    | x :: r, S k' => x :: set_nth k' v r
    end.
  Fixpoint pop_nth {A : Type} (k : nat) (l : list A) : list A :=
    match l, k with
    | [], _ => []
    | _ :: r, O => r
    | x :: r, S k' => x :: pop_nth k' r
    end.

  Fixpoint mass_nd (fuel : nat) (a b : list E) (indices : list nat) : N :=
    match first_straddling indices a b with
    | Some j =>
        match fuel with
        | O => n0 N      (* unreachable when fuel > number of straddling coordinates *)
        | S fuel' =>
            let k := index_of j indices in
            let a_1 := set_nth k (nth k b PInf) a in
            let b_1 := set_nth k PInf b in
            let a_2 := set_nth k NInf a in
            let b_2 := set_nth k (nth k a NInf) b in
            let j_mass := mass_nd fuel' (pop_nth k a) (pop_nth k b) (pop_nth k indices) in
            let m1 := mass_nd fuel' a_1 b_1 indices in
            let m2 := mass_nd fuel' a_2 b_2 indices in
            nsub N (nsub N j_mass m1) m2
        end
    | None =>
        let res := volume N (UI (Some indices)) a b in
        if Nat.odd (length a) then nmul N (nopp N (n1 N)) res else nmul N (n1 N) res
    end.
  Definition mass_nd_top (full : list nat) (a b : list E) (indices : idx) : N :=
    let ind := match indices with Some l => l | None => full end in
    mass_nd (S (length a)) a b ind.
End MassNd.

(* ---- the concrete tail integrals of a copula model ---------------------------------------------
   margin_tail_integral(indices, x):
      indices == full      -> copula([U_i(x_i) for i, x_i in enumerate(x)])
      len(indices) == 1    -> U_{i0}(x0)
      otherwise            -> margin(copula, indices, d)([U_i(x_i) for i, x_i in zip(indices, x)]) *)
Section Concrete.
  Variable N : Num.
  Notation E := (ext N).
  (* V i x = marginal_tail_integral(i, x) as an EXTENDED number: for an infinite-activity margin the code has
     U_i(0) = sign(0) * nu_i((0, inf)) = +inf, and that +inf is what the copula receives. *)
  Variable V : nat -> E -> E.
  Variable cop : list E -> N.
  Variable d : nat.
  Definition tail_val (i : nat) (x : E) : N := fin_val N (V i x).     (* the value where it is finite *)
  Fixpoint map2 {A B C : Type} (f : A -> B -> C) (l : list A) (m : list B) : list C :=
    match l, m with x :: l', y :: m' => f x y :: map2 f l' m' | _, _ => [] end.
  Definition nat_list_eqb (l m : list nat) : bool :=
    Nat.eqb (length l) (length m) && forallb (fun p => Nat.eqb (fst p) (snd p)) (combine l m).
  Definition margin_tail_integral (indices : idx) (x : list E) : N :=
    match indices with
    | None => n0 N
    | Some ind =>
        if nat_list_eqb ind (seq 0 d) then cop (map2 V (seq 0 (length x)) x)
        else match ind, x with
             | [i0], x0 :: _ => tail_val i0 x0
             | _, _ => margin N cop ind d (map2 V ind x)
             end
    end.
End Concrete.

(* ---- step margins (correspondence only): density d on (lo, hi), dyadic data ------------------
   marginal_tail_integral(i, x) = sign(x) * nu_i.integrate over interval_I(x),  sign(0) = +1,
   interval_I(x) = (-inf, x) if x < 0 else (x, inf);  the harness' StepMeasure clips to its support. *)
Open Scope Q_scope.
Definition piece_mass (p : Q * Q * Q) (a b : ext Q) : Q :=
  let '(lo, hi, dens) := p in
  let l := match a with NInf => lo | Fin v => Qmaxb v lo | PInf => hi end in
  let h := match b with NInf => lo | Fin v => Qminb v hi | PInf => hi end in
  if Qltb l h then dens * (h - l) else 0.
Definition step_integrate (ps : list (Q * Q * Q)) (a b : ext Q) : Q :=
  fold_left (fun acc p => acc + piece_mass p a b) ps 0.
Definition step_tail (ps : list (Q * Q * Q)) (x : ext Q) : Q :=
  match x with
  | NInf => - step_integrate ps NInf NInf
  | PInf => step_integrate ps PInf PInf
  | Fin v => if Qltb v 0 then - step_integrate ps NInf (Fin v) else step_integrate ps (Fin v) PInf
  end.
Definition step_U1 (margins : list (list (Q * Q * Q))) (i : nat) (x : ext Q) : Q := step_tail (nth i margins []) x.

Inductive copula_kind := Indep | Dep.
Definition copula_q (c : copula_kind) : list (ext Q) -> Q :=
  match c with Indep => indep QNum | Dep => dep QNum end.
Definition step_V (margins : list (list (Q * Q * Q))) (i : nat) (x : ext Q) : ext Q := Fin (step_U1 margins i x).
Definition step_UI (c : copula_kind) (margins : list (list (Q * Q * Q))) : idx -> list (ext Q) -> Q :=
  margin_tail_integral QNum (step_V margins) (copula_q c) (length margins).

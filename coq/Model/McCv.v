(* Hand-written model (over Q) of ControlVariates.helper_compute_coefficients for ANY number k of controls
     rpylib/product/product.py:223-258
       covariance = np.cov(x.T, y.T, bias=True); sigma_x, sigma_xy
       if any(diag(sigma_x) <= 1e-24 * mean(x^2)):  b_star = 0
       else: scale = sqrt(diag(sigma_x)); correlation = sigma_x / outer(scale, scale)
             b_star = np.linalg.lstsq(correlation, sigma_xy / scale, rcond=None)[0] / scale
       cv_stats = y - b_star . (x - prices)
   np.linalg.lstsq is modelled BY ITS SPECIFICATION: c = lstsq(R, r) is the least-squares solution of minimal
   Euclidean norm, i.e. (the system being consistent, see normal_eq_solvable in Proofs/C07_CvGeneral.v)
       R c = r   and   c in range(R^T) = range(R)  (c = R u for some u).
   With S = diag(scale), R = S^-1 Sigma S^-1, r = S^-1 sigma_xy, b = S^-1 c and w = S^-1 u this reads, without
   any square root (D = S^2 = diag(Sigma)):
       Sigma b = sigma_xy            (normal equations,  normal_eq of Model/McStats.v)
       D b = Sigma w  for some w     (minimal norm on the correlation scale,  minnorm_cert)
   Proofs/C07_CvGeneral.v proves that these two conditions determine b uniquely (so the model has ONE b_star for every k,
   also for collinear controls) and that it minimises the variance of the adjusted sample over all coefficient vectors.
   The harness computes (b, w) by an exact Fraction solve; the vm_compute correspondence CHECKS the two conditions here
   (code_bb) and compares Y - b.(X - p) with the rows the implementation stored.
   Only C07 imports this file. *)
From Coq Require Import List ZArith QArith Qabs Bool Lia.
From RV Require Import Base.QB Model.McStats.
Import ListNotations.
Open Scope Q_scope.

(* pointwise difference of two coefficient vectors *)
Fixpoint vsub (a b : list Q) : list Q :=
  match a, b with
  | x :: a', y :: b' => (x - y) :: vsub a' b'
  | _, _ => []
  end.

(* (Sigma_X b)_j *)
Definition sigma_row (n : nat) (X : nat -> nat -> Q) (b : list Q) (j : nat) : Q := dotf b (fun k => Cn n (X j) (X k)) 0.

(* b has minimal norm on the correlation scale: diag(Sigma_X) b = Sigma_X w *)
Definition minnorm_cert (n : nat) (b w : list Q) (X : nat -> nat -> Q) : Prop :=
  length w = length b /\ forall j, (j < length b)%nat -> Cn n (X j) (X j) * nth j b 0 == sigma_row n X w j.

Definition lstsq_spec (n : nat) (b w : list Q) (X : nat -> nat -> Q) (Y : nat -> Q) : Prop :=
  normal_eq n b X Y /\ minnorm_cert n b w X.

(* the guard of the code: some control is degenerate (variance <= 1e-24 * second moment) *)
Definition any_degenerate (n k : nat) (X : nat -> nat -> Q) : bool := existsb (fun j => degenerate n (X j)) (seq 0 k).

(* b is what helper_compute_coefficients computes for k controls *)
Definition code_b (n k : nat) (b : list Q) (X : nat -> nat -> Q) (Y : nat -> Q) : Prop :=
  length b = k /\
  if any_degenerate n k X then Forall (fun x => x == 0) b else exists w, lstsq_spec n b w X Y.

(* ------------------------------------------------------------------ executable checks (vm_compute correspondence) *)
Definition normal_eqb (n : nat) (b : list Q) (X : nat -> nat -> Q) (Y : nat -> Q) : bool :=
  forallb (fun j => Qeq_bool (sigma_row n X b j) (Cn n (X j) Y)) (seq 0 (length b)).
Definition minnorm_certb (n : nat) (b w : list Q) (X : nat -> nat -> Q) : bool :=
  Nat.eqb (length w) (length b) &&
  forallb (fun j => Qeq_bool (Cn n (X j) (X j) * nth j b 0) (sigma_row n X w j)) (seq 0 (length b)).
Definition code_bb (n k : nat) (b w : list Q) (X : nat -> nat -> Q) (Y : nat -> Q) : bool :=
  Nat.eqb (length b) k &&
  if any_degenerate n k X then forallb (fun x => Qeq_bool x 0) b else normal_eqb n b X Y && minnorm_certb n b w X.

(* case = (k, prices, controls per path, payoff per path, adjusted rows OBSERVED on the implementation,
           b and its certificate w from the exact Fraction solve of the harness) *)
Definition cvk_case := (nat * list Q * list (list Q) * list Q * list Q * list Q * list Q)%type.
Definition corr_cvk (tol : Q) (c : cvk_case) : bool :=
  let '(k, p, xs, y, adj, b, w) := c in
  let n := length y in
  code_bb n k b w (tabX xs) (tabY y)
  && Qclose_list tol (map (cv_adj b (tabP p) (tabX xs) (tabY y)) (seq 0 n)) adj.

(* Hand-written executable model (over Q, lists for numpy arrays) of
     rpylib/montecarlo/statistic/tools.py      mean, stddev, mc_stddev (squared), NonCenteredMoments
     rpylib/montecarlo/statistic/statistic.py  Statistic.add / extend, MCStatistics.price / mc_stddev
     rpylib/montecarlo/standard/engine.py      Engine.price (single process loop)
     rpylib/product/product.py                 Product.__call__, ControlVariates.helper_compute_coefficients
   Shared with Model/Mlmc.v (multilevel engine).  Tied to the implementation by the vm_compute
   correspondences of harness/props/C05.py, C07.py. *)
From Coq Require Import List ZArith QArith Qabs Qminmax Bool Lia.
From RV Require Import Base.QB.
Import ListNotations.
Open Scope Q_scope.

(* ------------------------------------------------------------------ numpy reductions *)
Definition Qsum (l : list Q) : Q := fold_right Qplus 0 l.
Definition qlen {A : Type} (l : list A) : Q := inject_Z (Z.of_nat (length l)).
Definition qnat (n : nat) : Q := inject_Z (Z.of_nat n).

(* np.mean over axis 0 (tools.mean returns zeros for an empty array; in Q  0/0 = 0).
   Qred only keeps the numbers small for vm_compute; it does not change the value. *)
Definition mean (l : list Q) : Q := Qred (Qsum l / qlen l).

Definition sq (x : Q) : Q := x * x.
Definition cube (x : Q) : Q := x * x * x.
Definition fourth (x : Q) : Q := x * x * x * x.

(* scipy.stats.moment(samples, moment=k) = mean((x - mean(x))**k) *)
Definition center (l : list Q) : list Q := let m := mean l in map (fun x => x - m) l.
Definition m2c (l : list Q) : Q := mean (map sq (center l)).
Definition m3c (l : list Q) : Q := mean (map cube (center l)).
Definition m4c (l : list Q) : Q := mean (map fourth (center l)).

(* tools.NonCenteredMoments: ncm_first .. ncm_fourth as the code computes them (from central moments) *)
Definition ncm1 (l : list Q) : Q := mean l.
Definition ncm2 (l : list Q) : Q := m2c l + sq (mean l).
Definition ncm3 (l : list Q) : Q := m3c l + cube (mean l) + 3 * mean l * m2c l.
Definition ncm4 (l : list Q) : Q := m4c l + fourth (mean l) + 4 * mean l * m3c l + 6 * sq (mean l) * m2c l.

(* raw moments, the textbook quantities the theorems compare with *)
Definition raw2 (l : list Q) : Q := Qsum (map sq l) / qlen l.
Definition raw3 (l : list Q) : Q := Qsum (map cube l) / qlen l.
Definition raw4 (l : list Q) : Q := Qsum (map fourth l) / qlen l.

(* tools.stddev squared: np.std(axis=0, ddof=1)**2, and [0.0] when there is one row *)
Definition var_unbiased (l : list Q) : Q :=
  match l with
  | [_] => 0
  | _ => Qsum (map sq (center l)) / (qlen l - 1)
  end.

(* tools.mc_stddev squared.  `per_size` is the divisor under the square root:
   number of rows (repaired code: simulations.shape[0]) -- the unrepaired code used rows*columns. *)
Definition mc_var_col (divisor : Q) (col : list Q) : Q := var_unbiased col / divisor.

(* columns of an (n x d) array given as list of rows *)
Definition column (j : nat) (rows : list (list Q)) : list Q := map (fun r => nth j r 0) rows.
Definition columns (d : nat) (rows : list (list Q)) : list (list Q) := map (fun j => column j rows) (seq 0 d).

Definition mc_var_repaired (d : nat) (rows : list (list Q)) : list Q :=
  map (mc_var_col (qlen rows)) (columns d rows).
Definition mc_var_old (d : nat) (rows : list (list Q)) : list Q :=        (* sqrt(array.size) = sqrt(n*d) *)
  map (mc_var_col (qlen rows * qnat d)) (columns d rows).

(* ------------------------------------------------------------------ Statistic container *)
Section Container.
  Context {A : Type}.
  (* Statistic.add(simulation, variable): stats[simulation] = variable
     (an index beyond the end raises IndexError in numpy; here: no change -- excluded by the invariants) *)
  Fixpoint set_nth (i : nat) (v : A) (s : list A) : list A :=
    match s, i with
    | [], _ => []
    | _ :: r, O => v :: r
    | x :: r, S j => x :: set_nth j v r
    end.
  (* Statistic.extend(n): pad with `z` rows up to n rows *)
  Definition extend (z : A) (n : nat) (s : list A) : list A := s ++ repeat z (n - length s).
End Container.

(* ------------------------------------------------------------------ standard engine loop *)
Section StandardEngine.
  Variable payoff : Q -> list Q.       (* product.payoff(underlying): d components *)
  Variable path : nat -> Q.            (* the i-th simulated path (its payoff underlying) *)
  Variables df notional : Q.

  (* path_manager.process: payoff = notional * payoff(x);  discount: payoff *= df *)
  Definition std_row (i : nat) : list Q := map (fun p => df * (notional * p)) (payoff (path i)).

  (* for iteration in range(mc_paths): statistics.add(iteration, path_manager) *)
  Fixpoint std_loop (iters : list nat) (s : list (list Q)) : list (list Q) :=
    match iters with
    | [] => s
    | i :: r => std_loop r (set_nth i (std_row i) s)
    end.
  (* `init` = the np.empty((mc_paths, d)) array: arbitrary content *)
  Definition std_engine (n : nat) (init : list (list Q)) : list (list Q) := std_loop (seq 0 n) init.

  Definition std_price (d : nat) (rows : list (list Q)) : list Q := map mean (columns d rows).
End StandardEngine.

(* ------------------------------------------------------------------ control variates *)
(* ControlVariates.helper_compute_coefficients(x, y, prices), one payoff component:
     covariance = np.cov(x.T, y.T, bias=True); sigma_x = covariance[:-1,:-1]; sigma_xy = covariance[:-1,-1]
     b_star = 0 if min|sigma_x| < 1e-12 else inv(sigma_x) @ sigma_xy
     cv_stats = y - np.dot(b_star, (x - prices).T)
   Arrays are read through index functions:  X k i = control k on path i,  Y i = payoff on path i,
   p k = given price of control k (repaired code: each control centred on its own price). *)
Definition Sn (n : nat) (f : nat -> Q) : Q := Qsum (map f (seq 0 n)).
Definition En (n : nat) (f : nat -> Q) : Q := Sn n f / qnat n.
(* np.cov(..., bias=True): mean of the products of the centred samples *)
Definition Cn (n : nat) (f g : nat -> Q) : Q :=
  let mf := Qred (En n f) in let mg := Qred (En n g) in      (* Qred: value unchanged, numbers kept small *)
  Qred (En n (fun i => (f i - mf) * (g i - mg))).

(* np.dot(b, v) with v read through an index function starting at k0 *)
Fixpoint dotf (b : list Q) (f : nat -> Q) (k0 : nat) : Q :=
  match b with
  | [] => 0
  | bk :: r => bk * f k0 + dotf r f (S k0)
  end.

Definition cv_adj (b : list Q) (p : nat -> Q) (X : nat -> nat -> Q) (Y : nat -> Q) (i : nat) : Q :=
  Y i - dotf b (fun k => X k i - p k) 0.

(* the normal equations  Sigma_X b = Sigma_XY  that b_star = inv(Sigma_X) @ Sigma_XY solves *)
Definition normal_eq (n : nat) (b : list Q) (X : nat -> nat -> Q) (Y : nat -> Q) : Prop :=
  forall j, (j < length b)%nat -> dotf b (fun k => Cn n (X j) (X k)) 0 == Cn n (X j) Y.

(* b_star as the (repaired, fix-mc3 aaa3e1f) code computes it, for one and two controls (closed-form inverse).
   guard: a control whose variance vanishes relative to its second moment (variance <= 1e-24 * mean(x^2)) -> b = 0.
   Three or more controls: np.linalg.inv is NOT modelled (the theorems quantify over any b solving the normal
   equations; the harness checks 3 controls with an exact Fraction solve). *)
Definition cv_eps : Q := 1 # 1000000000000000000000000.
Definition degenerate (n : nat) (x : nat -> Q) : bool := Qle_bool (Cn n x x) (cv_eps * En n (fun i => x i * x i)).
Definition b_star1 (n : nat) (X : nat -> nat -> Q) (Y : nat -> Q) : list Q :=
  if degenerate n (X 0%nat) then [0] else [Cn n (X 0%nat) Y / Cn n (X 0%nat) (X 0%nat)].
Definition b_star2 (n : nat) (X : nat -> nat -> Q) (Y : nat -> Q) : list Q :=
  let a := Cn n (X 0%nat) (X 0%nat) in let c := Cn n (X 0%nat) (X 1%nat) in let d := Cn n (X 1%nat) (X 1%nat) in
  let u := Cn n (X 0%nat) Y in let v := Cn n (X 1%nat) Y in
  if degenerate n (X 0%nat) || degenerate n (X 1%nat) then [0; 0]
  else let det := a * d - c * c in [(d * u - c * v) / det; (a * v - c * u) / det].

(* correspondence helpers: arrays given as lists of rows *)
Definition tabX (xs : list (list Q)) (k i : nat) : Q := nth k (nth i xs []) 0.
Definition tabY (y : list Q) (i : nat) : Q := nth i y 0.
Definition tabP (p : list Q) (k : nat) : Q := nth k p 0.
Definition cv_adjust_tab (nc : nat) (p : list Q) (xs : list (list Q)) (y : list Q) : option (list Q) :=
  let n := length y in
  match nc with
  | 1%nat => Some (map (cv_adj (b_star1 n (tabX xs) (tabY y)) (tabP p) (tabX xs) (tabY y)) (seq 0 n))
  | 2%nat => Some (map (cv_adj (b_star2 n (tabX xs) (tabY y)) (tabP p) (tabX xs) (tabY y)) (seq 0 n))
  | _ => None
  end.

(* ------------------------------------------------------------------ comparison with a tolerance *)
(* |a - b| <= tol * max(1, |a|): used where the float computation is not exact (division by n) *)
Definition Qclose (tol a b : Q) : bool := Qle_bool (Qabs (a - b)) (tol * Qmaxb 1 (Qabs a)).
Fixpoint Qclose_list (tol : Q) (a b : list Q) : bool :=
  match a, b with
  | [], [] => true
  | x :: a', y :: b' => Qclose tol x y && Qclose_list tol a' b'
  | _, _ => false
  end.

(* ------------------------------------------------------------------ helpers of the vm_compute correspondence (C07) *)
Definition strike_payoff (strikes : list Q) (x : Q) : list Q := map (fun K => Qmaxb (x - K) 0) strikes.
Definition tab_path (t : list Q) (i : nat) : Q := nth i t 0.
Fixpoint qrows_eqb (a b : list (list Q)) : bool :=
  match a, b with
  | [], [] => true
  | x :: a', y :: b' => (fix eq (u v : list Q) : bool :=
                           match u, v with
                           | [], [] => true
                           | p :: u', q :: v' => Qeq_bool p q && eq u' v'
                           | _, _ => false
                           end) x y && qrows_eqb a' b'
  | _, _ => false
  end.
(* expected = (rows, price per component, mc_stddev^2 per component) observed on Engine.price *)
Definition corr_std (tol : Q) (strikes paths : list Q) (df notional : Q) (n d : nat)
           (e : list (list Q) * list Q * list Q) : bool :=
  let '(erows, eprice, evar) := e in
  let rows := std_engine (strike_payoff strikes) (tab_path paths) df notional n (repeat (repeat (9 # 7) d) n) in
  qrows_eqb rows erows && Qclose_list tol (std_price d rows) eprice &&
  (if Nat.ltb n 2 then true else Qclose_list tol (mc_var_repaired d rows) evar).

(* ------------------------------------------------------------------ several pricings on ONE engine *)
(* Engine.price called repeatedly on the same Engine object (possibly after changing configuration.mc_paths or with
   another product).  The engine keeps self.statistics between the calls; Engine.initialisation REPLACES it by a new
   MCStatistics whose arrays come from np.empty((mc_paths, d)): uninitialised memory, which may well be the memory of
   the statistics object just released.  np_empty is therefore an ORACLE that may depend on the previous statistics
   in any way; it only has the right number of rows. *)
Record pricing := mkPricing {
  p_payoff : Q -> list Q; p_path : nat -> Q; p_df : Q; p_notional : Q; p_n : nat }.
Section Reprice.
  Variable garb : list (list Q) -> nat -> list Q.    (* content of row i of np.empty: anything, may depend on the released statistics *)
  Variable keep : bool.   (* false = the code: a NEW MCStatistics at every initialisation;
                             true = the variant "keep the buffers of the previous pricing and only extend() them" *)
  Definition np_empty (prev : list (list Q)) (n : nat) : list (list Q) := map (garb prev) (seq 0 n).
  Definition initialisation (prev : list (list Q)) (p : pricing) : list (list Q) :=
    if keep then extend (garb prev 0%nat) (p_n p) prev else np_empty prev (p_n p).
  Definition reprice (prev : list (list Q)) (p : pricing) : list (list Q) :=
    std_engine (p_payoff p) (p_path p) (p_df p) (p_notional p) (p_n p) (initialisation prev p).
  Fixpoint price_seq (prev : list (list Q)) (ps : list pricing) : list (list (list Q)) :=
    match ps with
    | [] => []
    | p :: r => let s := reprice prev p in s :: price_seq s r
    end.
End Reprice.
(* the worst allocator: hands back the rows of the previous statistics (then junk) *)
Definition recycling_garb (prev : list (list Q)) (i : nat) : list Q := nth i prev [9 # 7].

Fixpoint all2s {A B : Type} (f : A -> B -> bool) (a : list A) (b : list B) : bool :=
  match a, b with
  | [], [] => true
  | x :: a', y :: b' => f x y && all2s f a' b'
  | _, _ => false
  end.
(* MCStatistics.mc_stddev()**2 as reported: for ONE path tools.stddev returns [0.0] whatever the payoff dimension *)
Definition mc_var_reported (d : nat) (rows : list (list Q)) : list Q :=
  match rows with [_] => [0] | _ => mc_var_repaired d rows end.
Definition corr_stats (tol : Q) (d n : nat) (rows : list (list Q)) (e : list (list Q) * list Q * list Q) : bool :=
  let '(erows, eprice, evar) := e in
  qrows_eqb rows erows && Qclose_list tol (std_price d rows) eprice &&
  (if Nat.eqb n 0 then true else Qclose_list tol (mc_var_reported d rows) evar).
(* a sequence of pricings on one engine: (strikes, paths of this pricing, df, notional, n, observed) each *)
Definition seq_case := (list Q * list Q * Q * Q * nat * (list (list Q) * list Q * list Q))%type.
Definition corr_seq (tol : Q) (cs : list seq_case) : bool :=
  let mk := fun c : seq_case => let '(ks, pth, df, no, n, _) := c in
              mkPricing (strike_payoff ks) (tab_path pth) df no n in
  all2s (fun rows (c : seq_case) => let '(ks, _, _, _, n, e) := c in corr_stats tol (length ks) n rows e)
        (price_seq recycling_garb false [] (map mk cs)) cs.

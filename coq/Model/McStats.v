(* Hand-written executable model (over Q, lists for numpy arrays) of
     rpylib/montecarlo/statistic/tools.py      mean, stddev, mc_stddev (squared), NonCenteredMoments
     rpylib/montecarlo/statistic/statistic.py  Statistic.add / extend, MCStatistics.price / mc_stddev
     rpylib/montecarlo/standard/engine.py      Engine.price (single process loop)
     rpylib/product/product.py                 Product.__call__, ControlVariates.helper_compute_coefficients
   Shared with Model/Mlmc.v (multilevel engine).  Tied to the implementation by the vm_compute
   correspondences of harness/props/C05.py, C07.py. *)
From Coq Require Import List ZArith QArith Qabs Qminmax Bool Lia.
From RV Require Import Base.QB.
Import ListNotations.
Open Scope Q_scope.

(* ------------------------------------------------------------------ numpy reductions *)
Definition Qsum (l : list Q) : Q := fold_right Qplus 0 l.
Definition qlen {A : Type} (l : list A) : Q := inject_Z (Z.of_nat (length l)).
Definition qnat (n : nat) : Q := inject_Z (Z.of_nat n).

(* np.mean over axis 0 (tools.mean returns zeros for an empty array; in Q  0/0 = 0).
   Qred only keeps the numbers small for vm_compute; it does not change the value. *)
Definition mean (l : list Q) : Q := Qred (Qsum l / qlen l).

Definition sq (x : Q) : Q := x * x.
Definition cube (x : Q) : Q := x * x * x.
Definition fourth (x : Q) : Q := x * x * x * x.

(* scipy.stats.moment(samples, moment=k) = mean((x - mean(x))**k) *)
Definition center (l : list Q) : list Q := let m := mean l in map (fun x => x - m) l.
Definition m2c (l : list Q) : Q := mean (map sq (center l)).
Definition m3c (l : list Q) : Q := mean (map cube (center l)).
Definition m4c (l : list Q) : Q := mean (map fourth (center l)).

(* tools.NonCenteredMoments: ncm_first .. ncm_fourth as the code computes them (from central moments) *)
Definition ncm1 (l : list Q) : Q := mean l.
Definition ncm2 (l : list Q) : Q := m2c l + sq (mean l).
Definition ncm3 (l : list Q) : Q := m3c l + cube (mean l) + 3 * mean l * m2c l.
Definition ncm4 (l : list Q) : Q := m4c l + fourth (mean l) + 4 * mean l * m3c l + 6 * sq (mean l) * m2c l.

(* raw moments, the textbook quantities the theorems compare with *)
Definition raw2 (l : list Q) : Q := Qsum (map sq l) / qlen l.
Definition raw3 (l : list Q) : Q := Qsum (map cube l) / qlen l.
Definition raw4 (l : list Q) : Q := Qsum (map fourth l) / qlen l.

(* tools.stddev squared: np.std(axis=0, ddof=1)**2, and [0.0] when there is one row *)
Definition var_unbiased (l : list Q) : Q :=
  match l with
  | [_] => 0
  | _ => Qsum (map sq (center l)) / (qlen l - 1)
  end.

(* tools.mc_stddev squared.  `per_size` is the divisor under the square root:
   number of rows (repaired code: simulations.shape[0]) -- the unrepaired code used rows*columns. *)
Definition mc_var_col (divisor : Q) (col : list Q) : Q := var_unbiased col / divisor.

(* columns of an (n x d) array given as list of rows *)
Definition column (j : nat) (rows : list (list Q)) : list Q := map (fun r => nth j r 0) rows.
Definition columns (d : nat) (rows : list (list Q)) : list (list Q) := map (fun j => column j rows) (seq 0 d).

Definition mc_var_repaired (d : nat) (rows : list (list Q)) : list Q :=
  map (mc_var_col (qlen rows)) (columns d rows).
Definition mc_var_old (d : nat) (rows : list (list Q)) : list Q :=        (* sqrt(array.size) = sqrt(n*d) *)
  map (mc_var_col (qlen rows * qnat d)) (columns d rows).

(* ------------------------------------------------------------------ Statistic container *)
Section Container.
  Context {A : Type}.
  (* Statistic.add(simulation, variable): stats[simulation] = variable
     (an index beyond the end raises IndexError in numpy; here: no change -- excluded by the invariants) *)
  Fixpoint set_nth (i : nat) (v : A) (s : list A) : list A :=
    match s, i with
    | [], _ => []
    | _ :: r, O => v :: r
    | x :: r, S j => x :: set_nth j v r
    end.
  (* Statistic.extend(n): pad with `z` rows up to n rows *)
  Definition extend (z : A) (n : nat) (s : list A) : list A := s ++ repeat z (n - length s).
End Container.

(* ------------------------------------------------------------------ standard engine loop *)
Section StandardEngine.
  Variable payoff : Q -> list Q.       (* product.payoff(underlying): d components *)
  Variable path : nat -> Q.            (* the i-th simulated path (its payoff underlying) *)
  Variables df notional : Q.

  (* path_manager.process: payoff = notional * payoff(x);  discount: payoff *= df *)
  Definition std_row (i : nat) : list Q := map (fun p => df * (notional * p)) (payoff (path i)).

  (* for iteration in range(mc_paths): statistics.add(iteration, path_manager) *)
  Fixpoint std_loop (iters : list nat) (s : list (list Q)) : list (list Q) :=
    match iters with
    | [] => s
    | i :: r => std_loop r (set_nth i (std_row i) s)
    end.
  (* `init` = the np.empty((mc_paths, d)) array: arbitrary content *)
  Definition std_engine (n : nat) (init : list (list Q)) : list (list Q) := std_loop (seq 0 n) init.

  Definition std_price (d : nat) (rows : list (list Q)) : list Q := map mean (columns d rows).
End StandardEngine.

(* ------------------------------------------------------------------ control variates *)
(* biased sample covariance np.cov(..., bias=True) *)
Definition cov (x y : list Q) : Q :=
  mean (map (fun p => (fst p - mean x) * (snd p - mean y)) (combine x y)).

(* dot product b . v *)
Fixpoint dot (b v : list Q) : Q :=
  match b, v with
  | bk :: b', vk :: v' => bk * vk + dot b' v'
  | _, _ => 0
  end.

(* helper_compute_coefficients: cv_stats = y - np.dot(b_star, (x - prices).T)
   xs : list of rows (one entry per control), b : the coefficients (b_star), prices : given prices *)
Definition cv_adjust (b prices : list Q) (xs : list (list Q)) (y : list Q) : list Q :=
  map (fun p => snd p - dot b (map (fun xp => fst xp - snd xp) (combine (fst p) prices))) (combine xs y).

(* the normal equations  Sigma_X b = Sigma_XY  that b_star = inv(Sigma_X) @ Sigma_XY solves *)
Definition xcol (k : nat) (xs : list (list Q)) : list Q := map (fun r => nth k r 0) xs.
Definition sigma_x_row (nc : nat) (xs : list (list Q)) (j : nat) : list Q :=
  map (fun k => cov (xcol j xs) (xcol k xs)) (seq 0 nc).
Definition sigma_xy (nc : nat) (xs : list (list Q)) (y : list Q) : list Q :=
  map (fun j => cov (xcol j xs) y) (seq 0 nc).
Definition normal_residuals (nc : nat) (b : list Q) (xs : list (list Q)) (y : list Q) : list Q :=
  map (fun j => dot (sigma_x_row nc xs j) b - cov (xcol j xs) y) (seq 0 nc).

(* one control: b_star = cov(x,y)/var(x) exactly; the code's threshold  min|Sigma_X| < 1e-12 -> b = 0 *)
Definition b_star_1 (x y : list Q) : Q :=
  if Qltb (Qabs (cov x x)) (1 # 1000000000000) then 0 else cov x y / cov x x.

(* ------------------------------------------------------------------ comparison with a tolerance *)
(* |a - b| <= tol * max(1, |a|): used where the float computation is not exact (division by n) *)
Definition Qclose (tol a b : Q) : bool := Qle_bool (Qabs (a - b)) (tol * Qmaxb 1 (Qabs a)).
Fixpoint Qclose_list (tol : Q) (a b : list Q) : bool :=
  match a, b with
  | [], [] => true
  | x :: a', y :: b' => Qclose tol x y && Qclose_list tol a' b'
  | _, _ => false
  end.

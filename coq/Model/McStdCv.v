(* Hand-written model (over Q) of the standard engine's Monte-Carlo loop WITH control variates, both branches
     rpylib/montecarlo/standard/engine.py:116-152   loop / pool callback:  path_manager.process(product, cv); discount(df);
                                                   statistics.add(it, path_manager);  then cv.compute_coefficients(statistics)
     rpylib/montecarlo/statistic/statistic.py      MCStatistics.add: the payoff row AND the control-variate rows of the path the
                                                   path manager currently holds are stored at the SAME index `it`
   One payoff component: ycol dr = df*notional*payoff_j(path of draw dr), crow dr = (df*notional_c*control_c(path of draw dr))_c.
   Which draw gets which iteration index in the multi-process branch is the oracle sigma (see Model/McStdFull.v); the results
   are delivered to the callback in any order / chunking (`its`).  After the loop compute_coefficients works on the two tables
   (Model/McCv.v).  Only C07 imports this file. *)
From Coq Require Import List ZArith QArith Qabs Bool Lia.
From RV Require Import Base.QB Base.Corr Model.McStats Model.McCv Model.McStdFull.
Import ListNotations.
Open Scope Q_scope.

Section Tbl.
  Context {A : Type}.
  (* statistics.add(it, ...) over the delivered results, for one table whose row is a function of the draw *)
  Fixpoint tbl_merge (row : nat -> A) (res : list (nat * nat)) (t : list A) : list A :=
    match res with
    | [] => t
    | (it, dr) :: r => tbl_merge row r (set_nth it (row dr) t)
    end.
End Tbl.

(* the two tables compute_coefficients reads, after the loop: gy, gx = np.empty content *)
Definition mpcv_engine (ycol : nat -> Q) (crow : nat -> list Q) (its : list nat) (sigma : nat -> nat)
           (gy : list Q) (gx : list (list Q)) : list Q * list (list Q) :=
  let res := map (fun it => (it, sigma it)) its in (tbl_merge ycol res gy, tbl_merge crow res gx).

(* the samples of a permuted run, as index functions *)
Definition permX (sigma : nat -> nat) (X : nat -> nat -> Q) : nat -> nat -> Q := fun k i => X k (sigma i).
Definition permY (sigma : nat -> nat) (Y : nat -> Q) : nat -> Q := fun i => Y (sigma i).

(* ------------------------------------------------------------------ vm_compute correspondence
   case = (k, sigma OBSERVED through the spot statistics, controls by draw number (exact), payoff component by draw number (exact),
           given prices, observed: control rows, payoff column, adjusted column; b and certificate w from the exact solve) *)
Definition mpcv_case := (nat * list nat * list (list Q) * list Q * list Q * (list (list Q) * list Q * list Q) * list Q * list Q)%type.
Definition corr_mpcv (tol : Q) (c : mpcv_case) : bool :=
  let '(k, sig, ctab, ytab, p, (ex, ey, eadj), b, w) := c in
  let n := length sig in
  let '(y, xs) := mpcv_engine (fun dr => nth dr ytab 0) (fun dr => nth dr ctab []) (seq 0 n) (fun it => nth it sig 0%nat)
                              (repeat (9 # 7) n) (repeat (repeat (9 # 7) k) n) in
  qrows_eqb xs ex && qlist_eqb y ey && corr_cvk tol (k, p, xs, y, eadj, b, w).

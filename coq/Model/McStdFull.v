(* Hand-written model (over Q) of the parts of the standard engine that Model/McStats.v leaves out:
     rpylib/montecarlo/standard/engine.py:116-149   BOTH branches of the Monte-Carlo loop: the single-process loop and the
                                                   multi-process branch (pool.map_async(simulating_one_path, range(mc_paths), callback))
     rpylib/montecarlo/statistic/statistic.py:171-176, 440-447   MCStatistics.add with the spot statistics on
     statistic.py:201-217, tools.py:12-29          price / mc_stddev / get_variance as REPORTED, for n = 0, n = 1 and n >= 2
   In the multi-process branch a worker evaluates simulating_one_path(it) = (it, simulate_one_path()): which simulated path
   (draw number sigma it) ends up with which iteration index is decided by the pool -- sigma is an ORACLE; the parent's callback
   then runs statistics.add(it, ...) over the list of results it is handed (any order / chunking / repetition: `its`).
   The single-process loop is the instance its = 0,1,..,n-1, sigma = identity.  Only C07 imports this file. *)
From Coq Require Import List ZArith QArith Qabs Bool Lia.
From RV Require Import Base.QB Model.McStats.
Import ListNotations.
Open Scope Q_scope.

Record mcstate := mkMc { st_pay : list (list Q); st_spot : option (list (list Q)) }.

Section Full.
  Variable payoff : Q -> list Q.
  Variable path : nat -> Q.           (* the value of the k-th path drawn from the process (draw number k) *)
  Variables df notional : Q.

  (* MCStatistics.add(it, path_manager) after set_to_path / process / discount of draw number dr:
     payoff row = df * notional * payoff(path), spot row = the spot underlying of the same path (NoStatistic when off) *)
  Definition mc_add (it dr : nat) (s : mcstate) : mcstate :=
    mkMc (set_nth it (std_row payoff path df notional dr) (st_pay s))
         (option_map (set_nth it [path dr]) (st_spot s)).

  (* the callback / the loop: results (it, draw) in the order they are handed over *)
  Fixpoint mc_merge (res : list (nat * nat)) (s : mcstate) : mcstate :=
    match res with
    | [] => s
    | (it, dr) :: r => mc_merge r (mc_add it dr s)
    end.

  (* create_mc_statistics: np.empty arrays (arbitrary content g1, g2), the spot array only when activate_spot_statistics *)
  Definition mc_init (spot_on : bool) (g1 g2 : list (list Q)) : mcstate := mkMc g1 (if spot_on then Some g2 else None).

  Definition mc_engine (spot_on : bool) (its : list nat) (sigma : nat -> nat) (g1 g2 : list (list Q)) : mcstate :=
    mc_merge (map (fun it => (it, sigma it)) its) (mc_init spot_on g1 g2).
End Full.

(* ------------------------------------------------------------------ what MCStatistics reports *)
(* price(): tools.mean returns zeros for no row *)
Definition price_reported (d : nat) (rows : list (list Q)) : list Q :=
  match rows with [] => repeat 0 d | _ => std_price d rows end.
(* mc_stddev()**2 on the REPAIRED tree (/repo 380d7c7, F-C07-6 fixed): no row -> tools.mc_stddev returns zeros(shape[1:]); one row ->
   tools.stddev returns zeros(shape[1:]); else unbiased variance / n per component: always one number per payoff component *)
Definition mc_stddev2_reported (d : nat) (rows : list (list Q)) : option (list Q) :=
  match rows with [] => Some (repeat 0 d) | [_] => Some (repeat 0 d) | _ => Some (mc_var_repaired d rows) end.
(* get_variance(): no row -> np.std of nothing = nan per component (None); one row -> 0 per component; else the
   unbiased variance per component *)
Definition get_variance_reported (d : nat) (rows : list (list Q)) : option (list Q) :=
  match rows with [] => None | [_] => Some (repeat 0 d) | _ => Some (map var_unbiased (columns d rows)) end.
(* BEFORE the repair (F-C07-6): no row -> tools.mc_stddev returned the float 0.0 and MCStatistics.mc_stddev raised AttributeError on
   res.size (None); one row -> the single number 0.0 whatever d.  Kept for the Example C07_error_per_component_before_repair only. *)
Definition mc_stddev2_reported_orig (d : nat) (rows : list (list Q)) : option (list Q) :=
  match rows with [] => None | [_] => Some [0] | _ => Some (mc_var_repaired d rows) end.
Definition get_variance_reported_orig (d : nat) (rows : list (list Q)) : option (list Q) :=
  match rows with [] => None | [_] => Some [0] | _ => Some (map var_unbiased (columns d rows)) end.

(* ------------------------------------------------------------------ vm_compute correspondence *)
Definition opt_close (tol : Q) (a b : option (list Q)) : bool :=
  match a, b with
  | None, None => true
  | Some x, Some y => Qclose_list tol x y
  | _, _ => false
  end.
Definition spot_eqb (a b : option (list (list Q))) : bool :=
  match a, b with
  | None, None => true
  | Some x, Some y => qrows_eqb x y
  | _, _ => false
  end.
(* case = (strikes, scripted path values by draw number, df, notional, n, spot_on, sigma as the list sigma 0 .. sigma (n-1)
           OBSERVED through the spot statistics (identity for single-process runs),
           observed: payoff rows, spot rows, price(), mc_stddev()^2 (None = raised), get_variance() (None = nan)) *)
Definition full_case := (list Q * list Q * Q * Q * nat * bool * list nat *
                         (list (list Q) * option (list (list Q)) * list Q * option (list Q) * option (list Q)))%type.
Definition corr_full (tol : Q) (c : full_case) : bool :=
  let '(ks, pth, df, no, n, spot_on, sig, (erows, espot, eprice, evar, egv)) := c in
  let d := length ks in
  let junk := repeat (repeat (9 # 7) d) n in
  let s := mc_engine (strike_payoff ks) (tab_path pth) df no spot_on (seq 0 n) (fun it => nth it sig 0%nat) junk (repeat [9 # 7] n) in
  qrows_eqb (st_pay s) erows && spot_eqb (st_spot s) espot
  && Qclose_list tol (price_reported d (st_pay s)) eprice
  && opt_close tol (mc_stddev2_reported d (st_pay s)) evar
  && opt_close tol (get_variance_reported d (st_pay s)) egv.


(* the sequence correspondence of Model/McStats.v (corr_seq) with the error as reported by the REPAIRED code: one number per component
   for every n (McStats.mc_var_reported still has the pre-repair `[0]` for one row; that file is shared and left alone) *)
Definition corr_stats2 (tol : Q) (d : nat) (rows : list (list Q)) (e : list (list Q) * list Q * list Q) : bool :=
  let '(erows, eprice, evar) := e in
  qrows_eqb rows erows && Qclose_list tol (price_reported d rows) eprice && opt_close tol (mc_stddev2_reported d rows) (Some evar).
Definition corr_seq2 (tol : Q) (cs : list seq_case) : bool :=
  let mk := fun c : seq_case => let '(ks, pth, df, no, n, _) := c in
              mkPricing (strike_payoff ks) (tab_path pth) df no n in
  all2s (fun rows (c : seq_case) => let '(ks, _, _, _, _, e) := c in corr_stats2 tol (length ks) rows e)
        (price_seq recycling_garb false [] (map mk cs)) cs.

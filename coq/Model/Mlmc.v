(* Hand-written executable model of the multilevel Monte-Carlo engine
     rpylib/montecarlo/multilevel/engine.py   Engine.price, compute_level_l (single process),
                                              price_with_constant_mc_paths_and_level
     rpylib/montecarlo/statistic/statistic.py MLMCStatistics (add, extend, price, set_mlmc_results), MLMCResults
     rpylib/montecarlo/path.py                MLMCPath.process / process_l0 / discount (payoff component 0)
   as a deterministic state machine over ORACLES (Section variables):
     sample l n : raw (fine, coarse) value of the n-th path simulated at level l,
     cost l n   : one_simulation_cost of the level-l process once n paths have been drawn,
     alloc k    : the k-th answer of convergence_criteria.compute_mc_paths   (arbitrary: all histories),
     conv j     : the j-th answer of convergence_criteria.criteria           (arbitrary),
     garbage    : content of np.empty rows.
   The model follows the REPAIRED tree (fix-mc: `Nl = np.append(Nl, 0)`); the parameter `phantom`
   is the value appended to Nl for a new level (0 = repaired code, 1 = code before the repair), so
   that the behaviour before the repair can still be exhibited (Proofs/C05_Mlmc.v, *_refuted).

   Arrays Nl, dNl, sum_cost and the per-level statistics are kept as one list of per-level records;
   at every pass boundary of Engine.price these Python lists all have L+1 entries.
   Not modelled: the multiprocess path (nb_of_processes <> 1), the spot statistics, logging,
   the ml/vl work-around and the log2 regressions (they only feed the arguments of the two
   criteria callbacks, whose answers are arbitrary here). *)
From Coq Require Import List ZArith QArith Qabs Qminmax Bool Lia.
From RV Require Import Base.QB Model.McStats.
Import ListNotations.
Open Scope Q_scope.

Definition row := (Q * Q)%type.             (* (fine, coarse) discounted payoff, component 0 *)
Definition zero_row : row := (0, 0).

Record lev := mkLev {
  lN : nat;            (* Nl[level]      : paths done                                   *)
  ldN : nat;           (* dNl[level]     : paths still to do                            *)
  lcnt : nat;          (* ghost: number of paths the level's coupling process has simulated *)
  lcost : Q;           (* sum_cost[level]                                               *)
  lrows : list row;    (* mc_statistics[level]._payoff_statistics.stats[:, 0, :]        *)
  lpasses : list (Q * nat)   (* ghost: (one_simulation_cost, dNl) of every pass of the level, in order *)
}.

Inductive outcome (S : Type) :=
| Converged (s : S)      (* return inside `if has_converged or L == level_max` (engine.py:274-276) *)
| Fallthrough (s : S)    (* the while loop ended: return after the warning (engine.py:297-299)      *)
| OutOfFuel.
Arguments Converged {S} s.
Arguments Fallthrough {S} s.
Arguments OutOfFuel {S}.

Section Engine.
  Variable sample : nat -> nat -> Q * Q.
  Variable cost : nat -> nat -> Q.
  Variable alloc : nat -> list Z.
  Variable conv : nat -> bool.
  Variable garbage : nat -> nat -> row.
  Variables df notional : Q.
  Variable level_max : nat.
  Variable phantom : nat.

  (* MLMCPath.process_l0 / process then discount:  payoff = [notional*f, 0.0] resp. [notional*f, notional*c]; payoff *= df *)
  Definition mk_row (level : nat) (x : Q * Q) : row :=
    (df * (notional * fst x), match level with O => df * 0 | S _ => df * (notional * snd x) end).

  (* compute_level_l: for iteration in range(extra): statistics.add(current + iteration, level, path) *)
  Fixpoint draw (level : nat) (start cnt k : nat) (s : list row) : list row :=
    match k with
    | O => s
    | S k' => draw level (S start) (S cnt) k' (set_nth start (mk_row level (sample level cnt)) s)
    end.

  (* body of `for level in range(L + 1)` (engine.py:202-231) *)
  Definition run_level (level : nat) (v : lev) : lev :=
    mkLev (lN v + ldN v) (ldN v) (lcnt v + ldN v)
          (lcost v + cost level (lcnt v + ldN v) * qnat (ldN v))
          (draw level (lN v) (lcnt v) (ldN v) (lrows v))
          (lpasses v ++ [(cost level (lcnt v + ldN v), ldN v)]).
  Fixpoint run_levels (level : nat) (vs : list lev) : list lev :=
    match vs with
    | [] => []
    | v :: r => run_level level v :: run_levels (S level) r
    end.

  (* dNl = np.maximum(0, Ns - Nl) *)
  Fixpoint set_dN (Ns : list Z) (level : nat) (vs : list lev) : list lev :=
    match vs with
    | [] => []
    | v :: r => mkLev (lN v) (Z.to_nat (nth level Ns 0%Z - Z.of_nat (lN v))) (lcnt v) (lcost v) (lrows v) (lpasses v)
                :: set_dN Ns (S level) r
    end.

  (* np.sum(dNl[dNl > 0.01 * Nl]) == 0   (for integer counts below 2^40 the float test is 100*dNl > Nl) *)
  Definition within_one_pct (vs : list lev) : bool := forallb (fun v => Nat.leb (100 * ldN v) (lN v)) vs.
  Definition total_dN (vs : list lev) : nat := fold_right (fun v a => (ldN v + a)%nat) O vs.

  (* self.statistics.extend(Nl + dNl): new levels start with 0 rows (create_statistic()), zero padding *)
  Definition ext_level (v : lev) : lev :=
    mkLev (lN v) (ldN v) (lcnt v) (lcost v) (extend zero_row (lN v + ldN v) (lrows v)) (lpasses v).

  (* L += 1; Nl = np.append(Nl, phantom); sum_cost = np.append(sum_cost, 0.0); new process, new statistics *)
  Definition new_level : lev := mkLev phantom O O 0 [] [].

  Record state := mkState { levels : list lev; nalloc : nat; nconv : nat }.

  Fixpoint loop (fuel : nat) (s : state) : outcome state :=
    match fuel with
    | O => OutOfFuel
    | S f =>
        if Nat.eqb (total_dN (levels s)) 0 then Fallthrough s          (* while np.sum(dNl) > 0 *)
        else
          let vs := run_levels 0 (levels s) in
          let vs1 := set_dN (alloc (nalloc s)) 0 vs in
          if within_one_pct vs1 then
            if conv (nconv s) || Nat.eqb (length vs1 - 1) level_max       (* has_converged or L == level_max *)
            then Converged (mkState vs1 (S (nalloc s)) (S (nconv s)))
            else
              let vs2 := set_dN (alloc (S (nalloc s))) 0 (vs1 ++ [new_level]) in
              loop f (mkState (map ext_level vs2) (S (S (nalloc s))) (S (nconv s)))
          else loop f (mkState (map ext_level vs1) (S (nalloc s)) (nconv s))
    end.

  (* create_mlmc_statistics(mc_paths = N0, initial_level = L0): L0+1 levels of N0 np.empty rows;
     Nl = zeros, dNl = N0 * ones, sum_cost = zeros *)
  Definition init_level (N0 level : nat) : lev := mkLev O N0 O 0 (map (garbage level) (seq 0 N0)) [].
  Definition init_state (L0 N0 : nat) : state := mkState (map (init_level N0) (seq 0 (S L0))) O O.

  Definition price_run (fuel L0 N0 : nat) : outcome state := loop fuel (init_state L0 N0).

  (* Engine.price as repaired (fix-mc4 fd99a8c): ValueError("initial_level must not exceed maximum_level") before anything
     is simulated -- None; otherwise the loop *)
  Definition price_entry (fuel L0 N0 : nat) : option (outcome state) :=
    if Nat.ltb level_max L0 then None else Some (price_run fuel L0 N0).

  (* ---------------------------------------------------------------- fixed-level variant *)
  (* price_with_constant_mc_paths_and_level: statistics.extend([N]*(Lmax+1)) raises IndexError when the
     statistics hold more levels than Lmax+1 (initial_level > maximum_level): None *)
  Definition fixed_run (L0 Lmax N : nat) : option (list lev) :=
    if Nat.ltb Lmax L0 then None
    else
      let initial := map (init_level N) (seq 0 (S L0)) in
      let added := map (fun _ => mkLev O N O 0 [] []) (seq (S L0) (Lmax - L0)) in
      Some (run_levels 0 (map ext_level (initial ++ added))).
End Engine.

(* -------------------------------------------------------------------- results (MLMCStatistics / MLMCResults) *)
Definition fines (v : lev) : list Q := map fst (lrows v).
Definition coarses (v : lev) : list Q := map snd (lrows v).
Definition dps (v : lev) : list Q := map (fun r => fst r - snd r) (lrows v).

(* MLMCStatistics.price: res += mean(stats)[0, FP] - mean(stats)[0, CP] over all levels *)
Definition mlmc_price (vs : list lev) : Q := Qsum (map (fun v => mean (fines v) - mean (coarses v)) vs).

Definition res_ml (v : lev) : Q := Qabs (ncm1 (dps v)).
Definition res_vl (v : lev) : Q := Qmaxb 0 (ncm2 (dps v) - sq (ncm1 (dps v))).
Definition res_cl (v : lev) : Q := lcost v / qnat (lN v).
Definition res_mean_level (v : lev) : Q := ncm1 (fines v).
Definition res_var_level (v : lev) : Q := ncm2 (fines v) - sq (ncm1 (fines v)).
Definition res_kurtosis (v : lev) : Q :=
  let n1 := ncm1 (dps v) in let n2 := ncm2 (dps v) in let n3 := ncm3 (dps v) in let n4 := ncm4 (dps v) in
  (n4 - 4 * n3 * n1 + 6 * n2 * sq n1 - 3 * fourth n1) / sq (Qmaxb 1 (n2 - sq n1)).
Definition res_cost (vs : list lev) : Q := Qsum (map lcost vs).

(* -------------------------------------------------------------------- table oracles for the correspondence *)
Definition tab_sample (t : list (list (Q * Q))) (l n : nat) : Q * Q := nth n (nth l t []) (0, 0).
Definition tab_cost (t : list Q) (l n : nat) : Q := nth l t 0 + inject_Z (Z.of_nat (n mod 3)) / 4.
Definition tab_alloc (t : list (list Z)) (k : nat) : list Z := nth k t [].
Definition tab_conv (t : list bool) (j : nat) : bool := nth j t true.
Definition const_garbage (l n : nat) : row := (7 # 3, 5 # 3).

(* -------------------------------------------------------------------- helpers of the vm_compute correspondence *)
Definition run_tab (phantom : nat) (samples : list (list (Q * Q))) (ctab : list Q) (atab : list (list Z))
           (vtab : list bool) (df notional : Q) (level_max fuel L0 N0 : nat) : outcome state :=
  price_run (tab_sample samples) (tab_cost ctab) (tab_alloc atab) (tab_conv vtab) const_garbage
            df notional level_max phantom fuel L0 N0.

Definition out_tag (o : outcome state) : Z :=
  match o with Converged _ => 0%Z | Fallthrough _ => 1%Z | OutOfFuel => 2%Z end.
Definition out_levels (o : outcome state) : list lev :=
  match o with Converged s | Fallthrough s => levels s | OutOfFuel => [] end.

Definition row_eqb (a b : row) : bool := Qeq_bool (fst a) (fst b) && Qeq_bool (snd a) (snd b).
Fixpoint rows_eqb (a b : list row) : bool :=
  match a, b with
  | [], [] => true
  | x :: a', y :: b' => row_eqb x y && rows_eqb a' b'
  | _, _ => false
  end.
Fixpoint all2 {A B : Type} (f : A -> B -> bool) (a : list A) (b : list B) : bool :=
  match a, b with
  | [], [] => true
  | x :: a', y :: b' => f x y && all2 f a' b'
  | _, _ => false
  end.

(* a level without samples has NaN statistics in numpy: such entries are reported as 0 on both sides *)
Definition lev_field (f : lev -> Q) (v : lev) : Q := if Nat.eqb (lN v) 0 then 0 else f v.

(* expected = (Nl, counts of simulated paths, rows of every level) *)
Definition corr_rows (vs : list lev) (e : list Z * list Z * list (list row)) : bool :=
  let '(Nl, cnts, rows) := e in
  all2 (fun v n => Z.eqb (Z.of_nat (lN v)) n) vs Nl &&
  all2 (fun v n => Z.eqb (Z.of_nat (lcnt v)) n) vs cnts &&
  all2 (fun v r => rows_eqb (lrows v) r) vs rows.

(* expected = (price, cost, [ml; vl; cl; mean_level_l; var_level_l; kurtosis]) *)
Definition corr_results (tol : Q) (vs : list lev) (e : Q * Q * list (list Q)) : bool :=
  let '(price, cst, fields) := e in
  Qclose tol (mlmc_price vs) price && Qclose tol (res_cost vs) cst &&
  all2 (fun f ex => Qclose_list tol (map (lev_field f) vs) ex)
       [res_ml; res_vl; res_cl; res_mean_level; res_var_level; res_kurtosis] fields.

(* -------------------------------------------------------------------- several pricings on ONE engine *)
(* Engine.initialisation keeps a list self.path_managers that compute_level_l indexes by LEVEL.  Every path manager
   carries the deterministic path frozen when it was created (in pricing e, for level l): tag (e, l).
   repaired code (fix-mc3 2ee0788): the list restarts with the new level-0 manager at every initialisation
   (`reset = true`); before the repair it was only ever appended to (`reset = false`).
   next_level appends the manager of each new level in increasing level order.
   The value of a simulated path is the scripted sample shifted by the deterministic path of the manager USED. *)
Definition pm_tag := (nat * nat)%type.
Definition shift (x o : Q * Q) : Q * Q := (fst x + fst o, snd x + snd o).

Record mpricing := mkMP {
  mp_raw : nat -> nat -> Q * Q; mp_cost : nat -> nat -> Q; mp_alloc : nat -> list Z; mp_conv : nat -> bool;
  mp_garbage : nat -> nat -> row; mp_df : Q; mp_notional : Q; mp_level_max : nat; mp_fuel : nat; mp_L0 : nat; mp_N0 : nat }.

Section Reuse.
  Variable offs : nat -> nat -> Q * Q.      (* deterministic path (fine, coarse) of the manager with tag (e, l) *)
  Variable reset : bool.

  (* Engine.initialisation: the list the pricing starts from *)
  Definition base_of (prev : list pm_tag) : list pm_tag := if reset then [] else prev.
  (* self.path_managers at the moment level l is simulated in pricing e: initialisation has appended (e, 0) and the
     next_level calls of levels 1 .. l have appended (e, 1) .. (e, l), in this order.  Later next_level calls append behind
     and do not change entry l (Proofs: lookup_stable). *)
  Definition managers_at (e : nat) (base : list pm_tag) (l : nat) : list pm_tag :=
    base ++ map (fun k => (e, k)) (seq 0 (S l)).
  (* self.path_managers[level]: IndexError = None (never happens: Proofs, manager_used_some) *)
  Definition manager_used (base : list pm_tag) (e l : nat) : option pm_tag := nth_error (managers_at e base l) l.
  Definition mp_sample (base : list pm_tag) (e : nat) (p : mpricing) (l n : nat) : Q * Q :=
    match manager_used base e l with
    | Some t => shift (mp_raw p l n) (offs (fst t) (snd t))
    | None => mp_raw p l n
    end.

  Fixpoint run_seq (e : nat) (prev : list pm_tag) (ps : list mpricing) : list (outcome state) :=
    match ps with
    | [] => []
    | p :: r =>
        let base := base_of prev in
        let o := price_run (mp_sample base e p) (mp_cost p) (mp_alloc p) (mp_conv p) (mp_garbage p)
                           (mp_df p) (mp_notional p) (mp_level_max p) 0 (mp_fuel p) (mp_L0 p) (mp_N0 p) in
        o :: run_seq (S e) (managers_at e base (length (out_levels o) - 1)) r     (* what this pricing leaves behind *)
    end.
End Reuse.

(* the offsets the scripted coupling of the harness gives its path managers (mcscript.pm_offset) *)
Definition pm_offs (e l : nat) : Q * Q :=
  (inject_Z (Z.of_nat e) * (1 # 2) + inject_Z (Z.of_nat l) * (1 # 16), inject_Z (Z.of_nat e) * (1 # 4) + inject_Z (Z.of_nat l) * (1 # 32)).

Definition tab_pricing (c : list (list (Q * Q)) * list Q * list (list Z) * list bool * (Q * Q) * (nat * nat * nat * nat)) : mpricing :=
  let '(samples, ctab, atab, vtab, (df, no), (lmax, fuel, l0, n0)) := c in
  mkMP (tab_sample samples) (tab_cost ctab) (tab_alloc atab) (tab_conv vtab) const_garbage df no lmax fuel l0 n0.

(* the repaired entry point on table oracles: None = ValueError (initial_level > maximum_level) *)
Definition entry_tab (phantom : nat) (samples : list (list (Q * Q))) (ctab : list Q) (atab : list (list Z))
           (vtab : list bool) (df notional : Q) (level_max fuel L0 N0 : nat) : option (outcome state) :=
  price_entry (tab_sample samples) (tab_cost ctab) (tab_alloc atab) (tab_conv vtab) const_garbage
              df notional level_max phantom fuel L0 N0.

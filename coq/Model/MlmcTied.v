(* C06, wave 7 (audit-4 B4): what it means for the ORACLES of the loop model Model/Mlmc.v (alloc k = k-th answer of
   compute_mc_paths, conv j = j-th answer of criteria) to be the REAL Giles functions applied to the statistics of the state.

   At every pass of Engine.price the arguments of the two callbacks are functions of the state:
     ml, vl, cl  = statistics.mlmc_results.{ml,vl,cl}          = res_ml / res_vl / res_cl of every level (Model/Mlmc.v), as reals
     the rates (alpha, beta, gamma) carried from the previous pass (configured, or regressed there)
     work-around, regressions, extrapolation of an added level   = the GENERATED definitions pass_alloc_V/C, pass_bias_alpha/ml,
                                                                   new_level_alloc_V/C, pass_next_* of Gen/GenC06Regress.v
                                                                   (symbolic execution of the loop body in source order).
   `tied P fuel a b g s` follows `loop` step by step (same tests, same successor states) and says, for every callback call the
   run makes within `fuel` passes from state s with carried rates (a, b, g):
     - every level has at least one sample when its statistics are read (numpy's statistics of an empty level are nan; the
       repaired allocation then raises ValueError and the run does not return: outside this predicate),
     - the allocation answer IS giles_alloc rmse V C for the V, C computed from the state (length = number of levels), and P V C,
     - the convergence answer IS the generated criteria_giles of the (alpha, ml) computed from the state.
   Nothing is existential: V, C, alpha, ml are determined by the state and the carried rates. *)
From Coq Require Import Reals List ZArith QArith Qreals Bool.
From RV Require Import Base.QB Base.RB Base.RCeilMC Gen.GenC06Criteria Gen.GenC06Regress Model.Alloc Model.Regress Model.McStats Model.Mlmc.
Import ListNotations.

Definition mlR (vs : list lev) : list R := map (fun v => Q2R (res_ml v)) vs.
Definition vlR (vs : list lev) : list R := map (fun v => Q2R (res_vl v)) vs.
Definition clR (vs : list lev) : list R := map (fun v => Q2R (res_cl v)) vs.
Definition all_sampled (vs : list lev) : Prop := Forall (fun v => (0 < lN v)%nat) vs.

Section Tied.
  Variable sample : nat -> nat -> Q * Q.
  Variable cost : nat -> nat -> Q.
  Variable alloc : nat -> list Z.
  Variable conv : nat -> bool.
  Variables df notional : Q.
  Variable level_max : nat.
  Variable rmse : R.
  Variables cfg_alpha cfg_beta cfg_gamma : option R.      (* ConvergenceRates(alpha, beta, gamma): None = regressed in every pass *)
  Variable P : list R -> list R -> Prop.                  (* what is assumed of the estimates handed to the allocation *)

  Definition alloc_is (k : nat) (V C : list R) : Prop := map IZR (alloc k) = giles_alloc rmse V C /\ P V C.

  Fixpoint tied (fuel : nat) (a b g : R) (s : state) : Prop :=
    match fuel with
    | O => True
    | S f =>
        if Nat.eqb (total_dN (levels s)) 0 then True
        else
          let vs := run_levels sample cost df notional 0 (levels s) in
          let ml := mlR vs in let vl := vlR vs in let cl := clR vs in
          let a' := pass_next_alpha cfg_alpha cfg_beta cfg_gamma a b g ml vl cl in
          let b' := pass_next_beta cfg_alpha cfg_beta cfg_gamma a b g ml vl cl in
          let g' := pass_next_gamma cfg_alpha cfg_beta cfg_gamma a b g ml vl cl in
          all_sampled vs
          /\ alloc_is (nalloc s) (pass_alloc_V cfg_alpha cfg_beta cfg_gamma a b g ml vl cl)
                                 (pass_alloc_C cfg_alpha cfg_beta cfg_gamma a b g ml vl cl)
          /\ let vs1 := set_dN (alloc (nalloc s)) 0 vs in
             if within_one_pct vs1 then
               conv (nconv s) = criteria_giles (pass_bias_alpha cfg_alpha cfg_beta cfg_gamma a b g ml vl cl)
                                               (pass_bias_ml cfg_alpha cfg_beta cfg_gamma a b g ml vl cl) rmse
               /\ (if conv (nconv s) || Nat.eqb (length vs1 - 1) level_max then True
                   else alloc_is (S (nalloc s)) (new_level_alloc_V cfg_alpha cfg_beta cfg_gamma a b g ml vl cl)
                                                (new_level_alloc_C cfg_alpha cfg_beta cfg_gamma a b g ml vl cl)
                        /\ tied f a' b' g' (mkState (map ext_level (set_dN (alloc (S (nalloc s))) 0 (vs1 ++ [new_level 0])))
                                                    (S (S (nalloc s))) (S (nconv s))))
             else tied f a' b' g' (mkState (map ext_level vs1) (S (nalloc s)) (nconv s))
    end.

  (* the run from the initial state of Engine.price: rates start at `0 if rate_0 is None else rate_0` (generated) *)
  Definition tied_run (garbage : nat -> nat -> row) (fuel L0 N0 : nat) : Prop :=
    tied fuel (alpha_initial cfg_alpha) (beta_initial cfg_beta) (gamma_initial cfg_gamma) (init_state garbage L0 N0).
End Tied.

(* Hand-written executable model of the multilevel Monte-Carlo engine WITH vector payoffs, control variates and the
   multi-process merge (C05, wave 5).  Companion of Model/Mlmc.v (payoff component 0, no controls, one process), whose
   definitions are re-used (mk_row, outcome, set_nth/extend of Model/McStats.v) and to which Proofs/C05_Vec.v links this
   model by a simulation theorem (every payoff component of the engine below IS a run of Model/Mlmc.v).

     rpylib/montecarlo/multilevel/engine.py   Engine.price, compute_level_l (both branches: single process and the
                                              map_async callback), the call of cv.compute_coefficients_mlmc after every pass
     rpylib/montecarlo/statistic/statistic.py MCStatistics.add / extend (payoff rows, control rows, with_cv rows)
     rpylib/montecarlo/path.py                MLMCPath.process / process_l0 / discount (ALL payoff components and the controls)
     rpylib/product/product.py                ControlVariates.process(_mlmc), compute_coefficients_mlmc

   The engine is GENERIC in the type A of what Statistic.add stores for one path and in the type B of a with_cv row:
     rowof l n      : what is stored for the n-th path simulated at level l,
     coef l rows    : the regression coefficients compute_coefficients_mlmc derives from ALL rows of the level (arbitrary),
     adj l c r      : the adjusted row  Y - b (X - price)  of one stored row,
     zA, zB         : np.pad zero rows;  garbA, garbB : np.empty content. *)
From Coq Require Import List ZArith QArith Qabs Qminmax Bool Lia.
From RV Require Import Base.QB Model.McStats Model.Mlmc.
Import ListNotations.
Open Scope Q_scope.

Record glev (A B : Type) := mkG {
  gN : nat; gdN : nat; gcnt : nat; gcost : Q;
  grows : list A;              (* _payoff_statistics.stats and _control_variates_statistics.stats, row by row *)
  gcv : list B;                (* _payoff_statistics_with_cv.stats *)
  gpasses : list (Q * nat) }.  (* ghost, as Mlmc.lpasses *)
Arguments mkG {A B}.
Arguments gN {A B}. Arguments gdN {A B}. Arguments gcnt {A B}. Arguments gcost {A B}.
Arguments grows {A B}. Arguments gcv {A B}. Arguments gpasses {A B}.

Record gstate (A B : Type) := mkGS { glevels : list (glev A B); gnalloc : nat; gnconv : nat }.
Arguments mkGS {A B}. Arguments glevels {A B}. Arguments gnalloc {A B}. Arguments gnconv {A B}.

Section GEngine.
  Context {A B C : Type}.
  Variable rowof : nat -> nat -> A.
  Variable coef : nat -> list A -> C.
  Variable adj : nat -> C -> A -> B.
  Variable zA : A.
  Variable zB : B.
  Variable cost : nat -> nat -> Q.
  Variable alloc : nat -> list Z.
  Variable conv : nat -> bool.
  Variable garbA : nat -> nat -> A.
  Variable garbB : nat -> nat -> B.
  Variable level_max : nat.

  (* cv.compute_coefficients_mlmc(statistics.mc_statistics[level], level): the with_cv array is REPLACED by
     y - dot(b_star, (x - prices).T), b_star computed from all rows the level holds at that moment *)
  Definition derive (level : nat) (rows : list A) : list B := map (adj level (coef level rows)) rows.

  Fixpoint gdraw (level start cnt k : nat) (s : list A) : list A :=
    match k with
    | O => s
    | S k' => gdraw level (S start) (S cnt) k' (set_nth start (rowof level cnt) s)
    end.

  Definition grun_level (level : nat) (v : glev A B) : glev A B :=
    let rows := gdraw level (gN v) (gcnt v) (gdN v) (grows v) in
    mkG (gN v + gdN v) (gdN v) (gcnt v + gdN v)
        (gcost v + cost level (gcnt v + gdN v) * qnat (gdN v))
        rows (derive level rows)
        (gpasses v ++ [(cost level (gcnt v + gdN v), gdN v)]).
  Fixpoint grun_levels (level : nat) (vs : list (glev A B)) : list (glev A B) :=
    match vs with
    | [] => []
    | v :: r => grun_level level v :: grun_levels (S level) r
    end.

  Fixpoint gset_dN (Ns : list Z) (level : nat) (vs : list (glev A B)) : list (glev A B) :=
    match vs with
    | [] => []
    | v :: r => mkG (gN v) (Z.to_nat (nth level Ns 0%Z - Z.of_nat (gN v))) (gcnt v) (gcost v) (grows v) (gcv v) (gpasses v)
                :: gset_dN Ns (S level) r
    end.

  Definition gwithin_one_pct (vs : list (glev A B)) : bool := forallb (fun v => Nat.leb (100 * gdN v) (gN v)) vs.
  Definition gtotal_dN (vs : list (glev A B)) : nat := fold_right (fun v a => (gdN v + a)%nat) O vs.

  (* MCStatistics.extend: payoff, control and with_cv arrays are each zero-padded up to Nl + dNl rows *)
  Definition gext_level (v : glev A B) : glev A B :=
    mkG (gN v) (gdN v) (gcnt v) (gcost v) (extend zA (gN v + gdN v) (grows v)) (extend zB (gN v + gdN v) (gcv v)) (gpasses v).

  Definition gnew_level : glev A B := mkG O O O 0 [] [] [].

  Fixpoint gloop (fuel : nat) (s : gstate A B) : outcome (gstate A B) :=
    match fuel with
    | O => OutOfFuel
    | S f =>
        if Nat.eqb (gtotal_dN (glevels s)) 0 then Fallthrough s
        else
          let vs := grun_levels 0 (glevels s) in
          let vs1 := gset_dN (alloc (gnalloc s)) 0 vs in
          if gwithin_one_pct vs1 then
            if conv (gnconv s) || Nat.eqb (length vs1 - 1) level_max
            then Converged (mkGS vs1 (S (gnalloc s)) (S (gnconv s)))
            else
              let vs2 := gset_dN (alloc (S (gnalloc s))) 0 (vs1 ++ [gnew_level]) in
              gloop f (mkGS (map gext_level vs2) (S (S (gnalloc s))) (S (gnconv s)))
          else gloop f (mkGS (map gext_level vs1) (S (gnalloc s)) (gnconv s))
    end.

  (* create_mlmc_statistics: np.empty arrays; _payoff_statistics_with_cv = deepcopy(payoff_statistics) *)
  Definition ginit_level (N0 level : nat) : glev A B :=
    mkG O N0 O 0 (map (garbA level) (seq 0 N0)) (map (garbB level) (seq 0 N0)) [].
  Definition ginit_state (L0 N0 : nat) : gstate A B := mkGS (map (ginit_level N0) (seq 0 (S L0))) O O.
  Definition gprice_run (fuel L0 N0 : nat) : outcome (gstate A B) := gloop fuel (ginit_state L0 N0).

  (* price_with_constant_mc_paths_and_level *)
  Definition gfixed_run (L0 Lmax N : nat) : option (list (glev A B)) :=
    if Nat.ltb Lmax L0 then None
    else
      let initial := map (ginit_level N) (seq 0 (S L0)) in
      let added := map (fun _ => mkG O N O 0 [] [] []) (seq (S L0) (Lmax - L0)) in
      Some (grun_levels 0 (map gext_level (initial ++ added))).
End GEngine.

Definition gout_levels {A B} (o : outcome (gstate A B)) : list (glev A B) :=
  match o with Converged s | Fallthrough s => glevels s | OutOfFuel => [] end.
Definition gout_tag {S} (o : outcome S) : Z :=
  match o with Converged _ => 0%Z | Fallthrough _ => 1%Z | OutOfFuel => 2%Z end.

(* ==================================================================== concrete rows: vector payoff + control variates *)
Definition vrow := list (Q * Q).             (* payoff component j -> (fine, coarse): stats[i, j, :]                   *)
Definition crow := list (list (Q * Q)).      (* control k -> payoff component j -> (fine, coarse): stats[i, k, j, :]   *)
Definition srow := (vrow * crow)%type.       (* what MCStatistics.add stores for ONE path                              *)
Definition zero_srow (d nc : nat) : srow := (repeat zero_row d, repeat (repeat zero_row d) nc).

Section Concrete.
  Variable sample : nat -> nat -> Q * Q.     (* raw (fine, coarse) value of the n-th path of level l                  *)
  Variable pay : nat -> Q -> Q.              (* payoff component j of the product                                     *)
  Variable d : nat.                          (* payoff dimension                                                      *)
  Variable ctl : nat -> nat -> Q -> Q.       (* payoff component j of control k                                       *)
  Variable cnot : nat -> Q.                  (* notional of control k                                                 *)
  Variable nc : nat.                         (* number of controls (0 = NoControlVariates)                            *)
  Variable prices : nat -> nat -> Q.         (* given price of control k for payoff component j                       *)
  Variable bst : nat -> (nat -> nat -> Q) -> (nat -> Q) -> list Q.    (* regression rule (n, X, Y) -> b_star: ARBITRARY *)
  Variables df notional : Q.

  (* MLMCPath.process / process_l0 then discount -- for EVERY component, through Mlmc.mk_row *)
  Definition pay_row (level j : nat) (x : Q * Q) : row := mk_row df notional level (pay j (fst x), pay j (snd x)).
  (* ControlVariates.process / process_mlmc then discount (level 0: X_coarse = zeros) *)
  Definition ctl_row (level k j : nat) (x : Q * Q) : row := mk_row df (cnot k) level (ctl k j (fst x), ctl k j (snd x)).
  Definition srow_at (level : nat) (x : Q * Q) : srow :=
    (map (fun j => pay_row level j x) (seq 0 d),
     map (fun k => map (fun j => ctl_row level k j x) (seq 0 d)) (seq 0 nc)).
  Definition srow_of (level n : nat) : srow := srow_at level (sample level n).

  (* the arrays of one level read through index functions (as Model/McStats.v cv_adj wants them) *)
  Definition ycell (side : row -> Q) (j : nat) (r : srow) : Q := side (nth j (fst r) zero_row).
  Definition xcell (side : row -> Q) (j : nat) (r : srow) (k : nat) : Q := side (nth j (nth k (snd r) []) zero_row).
  Definition Yv (side : row -> Q) (j : nat) (rows : list srow) (i : nat) : Q := ycell side j (nth i rows ([], [])).
  Definition Xv (side : row -> Q) (j : nat) (rows : list srow) (k i : nat) : Q := xcell side j (nth i rows ([], [])) k.

  (* compute_coefficients_mlmc: for every payoff component j, b_star of the fine columns and b_star of the coarse columns *)
  Definition coef_c (level : nat) (rows : list srow) : list (list Q * list Q) :=
    map (fun j => (bst (length rows) (Xv fst j rows) (Yv fst j rows),
                   bst (length rows) (Xv snd j rows) (Yv snd j rows))) (seq 0 d).
  (* cv_stats = y - np.dot(b_star, (x - prices).T), one row *)
  Definition adj_side (side : row -> Q) (b : list Q) (j : nat) (r : srow) : Q :=
    ycell side j r - dotf b (fun k => xcell side j r k - prices k j) 0.
  Definition adj_c (level : nat) (c : list (list Q * list Q)) (r : srow) : vrow :=
    map (fun j => let b := nth j c ([], []) in (adj_side fst (fst b) j r, adj_side snd (snd b) j r)) (seq 0 d).
End Concrete.

(* MLMCStatistics.price(): component 0 of the mean of the rows _get_payoff_statistics selects
   (with_cv rows when there are controls, the raw payoff rows otherwise) *)
Definition comp (j : nat) (r : vrow) : row := nth j r zero_row.
Definition vec_price (j : nat) (rowsl : list (list vrow)) : Q :=
  Qsum (map (fun rows => mean (map (fun r => fst (comp j r)) rows) - mean (map (fun r => snd (comp j r)) rows)) rowsl).
Definition reported_rows (nc : nat) (v : glev srow vrow) : list vrow :=
  match nc with O => map fst (grows v) | S _ => gcv v end.
Definition gprice (nc : nat) (vs : list (glev srow vrow)) : Q := vec_price 0 (map (reported_rows nc) vs).

(* the Mlmc.lev seen through payoff component j of the reported rows: ml, vl, ... (Mlmc.res_ml and so on) are computed from it *)
Definition lev_of (nc j : nat) (v : glev srow vrow) : lev :=
  mkLev (gN v) (gdN v) (gcnt v) (gcost v) (map (comp j) (reported_rows nc v)) (gpasses v).
(* ... and through payoff component j of the RAW rows (what Model/Mlmc.v models for j = 0) *)
Definition proj_lev (j : nat) (v : glev srow vrow) : lev :=
  mkLev (gN v) (gdN v) (gcnt v) (gcost v) (map (fun r => comp j (fst r)) (grows v)) (gpasses v).

(* ==================================================================== multi-process branch of compute_level_l *)
(* callback(res): for it, path in res: statistics.add(current_mc_paths + it, level, path_manager).
   `res` = (iteration index, row of the path simulated for it), in ANY order and cut into ANY chunks *)
Fixpoint merge {A : Type} (start : nat) (res : list (nat * A)) (s : list A) : list A :=
  match res with
  | [] => s
  | (it, v) :: r => merge start r (set_nth (start + it) v s)
  end.
Fixpoint lookup {A : Type} (dflt : A) (i : nat) (res : list (nat * A)) : A :=
  match res with
  | [] => dflt
  | (it, v) :: r => if Nat.eqb it i then v else lookup dflt i r
  end.
(* which of the level's draws ends up under iteration index n is decided by the pool scheduling: sigma l n *)
Definition mp_rowof {A : Type} (rowat : nat -> Q * Q -> A) (sample : nat -> nat -> Q * Q) (sigma : nat -> nat -> nat)
           (level n : nat) : A := rowat level (sample level (sigma level n)).

(* ==================================================================== the script of the harness (mlmcdrive / mcscript) *)
Definition h_pay (j : nat) (x : Q) : Q := (qnat j + 1) * x + qnat j / 4.       (* mlmcdrive.payoff_component *)
Definition h_ctl (k j : nat) (x : Q) : Q :=                                     (* props/C05.py funs *)
  match k with O => x * x / 8 | _ => Qmaxb (x - 6) 0 end.
Definition h_cnot (k : nat) : Q := match k with O => 1 | _ => - (1 # 2) end.
Definition bst_std (nc n : nat) (X : nat -> nat -> Q) (Y : nat -> Q) : list Q :=
  match nc with
  | 1%nat => b_star1 n X Y
  | 2%nat => b_star2 n X Y
  | _ => repeat 0 nc
  end.
Definition const_garbA (l n : nat) : srow := ([(7 # 3, 5 # 3)], []).
Definition const_garbB (l n : nat) : vrow := [(11 # 3, 13 # 3)].

Definition vrun_tab (d nc : nat) (ptab : list Q) (samples : list (list (Q * Q))) (ctab : list Q) (atab : list (list Z))
           (vtab : list bool) (df notional : Q) (level_max fuel L0 N0 : nat) : outcome (gstate srow vrow) :=
  let prices := fun k (_ : nat) => nth k ptab 0 in
  gprice_run (srow_of (tab_sample samples) h_pay d h_ctl h_cnot nc df notional)
             (coef_c d (bst_std nc)) (adj_c d prices)
             (zero_srow d nc) (repeat zero_row d)
             (tab_cost ctab) (tab_alloc atab) (tab_conv vtab) const_garbA const_garbB level_max fuel L0 N0.

Definition vfixed_tab (d : nat) (samples : list (list (Q * Q))) (ctab : list Q) (df notional : Q) (L0 Lmax N : nat)
  : option (list (glev srow vrow)) :=
  gfixed_run (srow_of (tab_sample samples) h_pay d h_ctl h_cnot 0 df notional)
             (coef_c d (bst_std 0)) (adj_c d (fun _ _ => 0))
             (zero_srow d 0) (repeat zero_row d) (tab_cost ctab) const_garbA const_garbB L0 Lmax N.

(* ---- comparison helpers *)
Definition vrow_eqb (a b : vrow) : bool := rows_eqb a b.
Definition vrows_eqb (a b : list vrow) : bool := all2 vrow_eqb a b.
Definition crow_eqb (a b : crow) : bool := all2 rows_eqb a b.
Definition row_close (tol : Q) (a b : row) : bool := Qclose tol (fst a) (fst b) && Qclose tol (snd a) (snd b).
Definition vrows_close (tol : Q) (a b : list vrow) : bool := all2 (all2 (row_close tol)) a b.

(* expected = (Nl, counts, payoff rows [level][path][component], control rows [level][path][control][component]) *)
Definition corr_vrows (vs : list (glev srow vrow)) (e : list Z * list Z * list (list vrow) * list (list crow)) : bool :=
  let '(Nl, cnts, prow, crw) := e in
  all2 (fun v n => Z.eqb (Z.of_nat (gN v)) n) vs Nl &&
  all2 (fun v n => Z.eqb (Z.of_nat (gcnt v)) n) vs cnts &&
  all2 (fun v r => vrows_eqb (map fst (grows v)) r) vs prow &&
  all2 (fun v r => all2 crow_eqb (map snd (grows v)) r) vs crw.

(* expected = (with_cv rows [level][path][component], (price(), cost, fields computed by the code from the reported rows)).
   The adjusted rows are quotients with long denominators: the comparison first normalises every entry with Qred (value
   unchanged, Qred_correct) so that the fourth moments stay small under vm_compute. *)
Definition red_row (r : row) : row := (Qred (fst r), Qred (snd r)).
Definition red_lev (v : glev srow vrow) : glev srow vrow :=
  mkG (gN v) (gdN v) (gcnt v) (gcost v) (grows v) (map (map red_row) (gcv v)) (gpasses v).
Definition corr_cv (tolr tol : Q) (nc : nat) (vs : list (glev srow vrow)) (e : list (list vrow) * (Q * Q * list (list Q))) : bool :=
  let '(cvrows, res) := e in
  let vr := map red_lev vs in
  all2 (fun v r => vrows_close tolr (gcv v) r) vr cvrows &&
  Qclose tol (gprice nc vr) (fst (fst res)) && Qclose tol (Qsum (map gcost vr)) (snd (fst res)) &&
  (* kurtosis (fourth moments of long quotients) is left to the exact Fraction oracle of the harness *)
  all2 (fun f ex => Qclose_list tol (map (lev_field f) (map (lev_of nc 0) vr)) ex)
       [res_ml; res_vl; res_cl; res_mean_level; res_var_level] (firstn 5 (snd res)).

(* ---- multi-process replay: sigma observed on a real pool run (which draw ended under which iteration index) *)
Definition tab_sigma (t : list (list nat)) (l n : nat) : nat := nth n (nth l t []) n.
Definition mp_run_tab (sig : list (list nat)) (samples : list (list (Q * Q))) (ctab : list Q) (atab : list (list Z))
           (vtab : list bool) (df notional : Q) (level_max fuel L0 N0 : nat) : outcome (gstate row unit) :=
  gprice_run (mp_rowof (mk_row df notional) (tab_sample samples) (tab_sigma sig)) (fun _ _ => tt) (fun _ _ _ => tt)
             zero_row tt (fun l _ => nth l ctab 0) (tab_alloc atab) (tab_conv vtab) const_garbage (fun _ _ => tt) level_max fuel L0 N0.
(* expected = (Nl, rows [level][iteration]) *)
Definition corr_mp (vs : list (glev row unit)) (e : list Z * list (list row)) : bool :=
  all2 (fun v n => Z.eqb (Z.of_nat (gN v)) n) vs (fst e) && all2 (fun v n => Z.eqb (Z.of_nat (gcnt v)) n) vs (fst e) &&
  all2 (fun v r => rows_eqb (grows v) r) vs (snd e).

(* ==================================================================== wave 7: an exception raised by a simulation *)
(* `simulation_path()` raises at iteration fi of the pass of level fl in pass number fp (passes counted from 0 over the pricing).
   Engine.price has no handler: the exception propagates to the caller, NOTHING is returned.  What the engine object still
   exposes (engine.statistics) is the state at that moment: the levels before fl have finished the pass, level fl has fi new
   rows written but Nl[fl] NOT incremented, the levels after fl still hold the zero rows extend(Nl + dNl) padded. *)
Inductive aout (S : Type) :=
| AReturn (o : outcome S)      (* the fault point was never reached: Engine.price returned (or the model ran out of fuel) *)
| ARaised (exposed : S).       (* the exception left Engine.price; `exposed` = what engine.statistics holds               *)
Arguments AReturn {S} o.
Arguments ARaised {S} exposed.

Section GFault.
  Context {A B C : Type}.
  Variable rowof : nat -> nat -> A.
  Variable coef : nat -> list A -> C.
  Variable adj : nat -> C -> A -> B.
  Variable zA : A.
  Variable zB : B.
  Variable cost : nat -> nat -> Q.
  Variable alloc : nat -> list Z.
  Variable conv : nat -> bool.
  Variable garbA : nat -> nat -> A.
  Variable garbB : nat -> nat -> B.
  Variable level_max : nat.

  (* compute_level_l interrupted after fi iterations: fi rows written, the coupling process of the level has simulated fi more
     paths; Nl, sum_cost, the with_cv rows (compute_coefficients_mlmc is after the loop) are untouched *)
  Definition gpartial_level (level fi : nat) (v : glev A B) : glev A B :=
    mkG (gN v) (gdN v) (gcnt v + fi) (gcost v) (gdraw rowof level (gN v) (gcnt v) fi (grows v)) (gcv v) (gpasses v).

  (* the `for level in range(L + 1)` loop with the fault armed at (fl, fi): true = raised *)
  Fixpoint grun_levels_f (fl fi level : nat) (vs : list (glev A B)) : list (glev A B) * bool :=
    match vs with
    | [] => ([], false)
    | v :: r =>
        if Nat.eqb level fl && Nat.ltb fi (gdN v) then (gpartial_level level fi v :: r, true)
        else let '(r', b) := grun_levels_f fl fi (S level) r in (grun_level rowof coef adj cost level v :: r', b)
    end.

  Fixpoint gloop_f (fp fl fi : nat) (pass fuel : nat) (s : gstate A B) : aout (gstate A B) :=
    match fuel with
    | O => AReturn OutOfFuel
    | S f =>
        if Nat.eqb (gtotal_dN (glevels s)) 0 then AReturn (Fallthrough s)
        else
          let '(vs, raised) := if Nat.eqb pass fp then grun_levels_f fl fi 0 (glevels s)
                               else (grun_levels rowof coef adj cost 0 (glevels s), false) in
          if raised then ARaised (mkGS vs (gnalloc s) (gnconv s))
          else
            let vs1 := gset_dN (alloc (gnalloc s)) 0 vs in
            if gwithin_one_pct vs1 then
              if conv (gnconv s) || Nat.eqb (length vs1 - 1) level_max
              then AReturn (Converged (mkGS vs1 (S (gnalloc s)) (S (gnconv s))))
              else
                let vs2 := gset_dN (alloc (S (gnalloc s))) 0 (vs1 ++ [gnew_level]) in
                gloop_f fp fl fi (S pass) f (mkGS (map (gext_level zA zB) vs2) (S (S (gnalloc s))) (S (gnconv s)))
            else gloop_f fp fl fi (S pass) f (mkGS (map (gext_level zA zB) vs1) (S (gnalloc s)) (gnconv s))
    end.

  Definition gprice_run_f (fp fl fi fuel L0 N0 : nat) : aout (gstate A B) :=
    gloop_f fp fl fi 0 fuel (ginit_state garbA garbB L0 N0).
End GFault.

Definition vfault_tab (f : nat * nat * nat) (d : nat) (samples : list (list (Q * Q))) (ctab : list Q) (atab : list (list Z))
           (vtab : list bool) (df notional : Q) (level_max fuel L0 N0 : nat) : aout (gstate srow vrow) :=
  let '(fp, fl, fi) := f in
  gprice_run_f (srow_of (tab_sample samples) h_pay d h_ctl h_cnot 0 df notional)
               (coef_c d (bst_std 0)) (adj_c d (fun _ _ => 0))
               (zero_srow d 0) (repeat zero_row d)
               (tab_cost ctab) (tab_alloc atab) (tab_conv vtab) const_garbA const_garbB level_max fp fl fi fuel L0 N0.

(* expected = (rows to compare: all of them (true) or only those written so far (false: first pass, np.empty content behind),
               number of paths simulated per level, payoff rows [level][path][component]) *)
Definition corr_fault (o : aout (gstate srow vrow)) (e : bool * list Z * list (list vrow)) : bool :=
  let '(full, cnts, prow) := e in
  match o with
  | ARaised s =>
      all2 (fun v n => Z.eqb (Z.of_nat (gcnt v)) n) (glevels s) cnts &&
      all2 (fun v r => Nat.eqb (length (grows v)) (length r) &&
                       (let k := if full then length r else gcnt v in
                        vrows_eqb (firstn k (map fst (grows v))) (firstn k r))) (glevels s) prow
  | AReturn _ => false
  end.

(* Hand-written parts of the model of rpylib/distribution/pairing.py, rpylib/tools/generic.py
   (the straight-line functions are in Gen/GenPairing.v, regenerated from the source). *)
From Coq Require Import ZArith List Bool Lia.
From RV Require Import Gen.GenPairing.
Import ListNotations.
Open Scope Z_scope.

(* PairingToZ1d.__init__ chooses the projection; project(x) = _projection(x + omit). *)
Definition z1d_project (left right omit x : Z) : Z :=
  let y := x + omit in
  if Z.abs left <? right then z1d_proj_right left y
  else if right <? Z.abs left then z1d_proj_left right y
  else projection_to_z y.

(* PairingToZd (dimension 2) around a 2-d pairing of N^2 *)
Definition zd2_pair (pairing2d : Z -> Z -> Z) (omit : Z) (x : Z * Z) : Z :=
  pairing2d (mapping_to_z (fst x)) (mapping_to_z (snd x)) - omit.
Definition zd2_project (projection2d : Z -> Z * Z) (omit : Z) (n : Z) : Z * Z :=
  let p := projection2d (n + omit) in (projection_to_z (fst p), projection_to_z (snd p)).

(* PepisKalmar._aux_k / _aux_j : recursion on the binary representation *)
Fixpoint pk_aux_k_pos (p : positive) : Z :=
  match p with
  | xO q => Zpos q
  | xI q => pk_aux_k_pos q
  | xH => 0
  end.
Definition pk_aux_k (z : Z) : Z := match z with Zpos p => pk_aux_k_pos p | _ => 0 end.
Fixpoint pk_aux_j_pos (p : positive) : Z :=
  match p with
  | xO q => 0
  | xI q => pk_aux_j_pos q + 1
  | xH => 1
  end.
Definition pk_aux_j (z : Z) : Z := match z with Zpos p => pk_aux_j_pos p | _ => 0 end.
Definition pk_projection2d (z : Z) : Z * Z :=
  let q := z / 2 in let r := z mod 2 in
  if r =? 0 then (q, 0) else (pk_aux_k q, pk_aux_j q + 1).

(* tools/generic.py lazy_indices_product:
     denominators = [1] + accumulate(moduli[:-1], mul);  nb = denominators[-1] * args[-1]
     tuple k-th entry = floor(n / denominators[k]) % moduli[k]                          *)
Fixpoint denoms_from (acc : Z) (ms : list Z) : list Z :=
  match ms with [] => [] | m :: r => acc :: denoms_from (acc * m) r end.
Definition lazy_tuple (ms : list Z) (n : Z) : list Z :=
  map (fun dm => (n / fst dm) mod snd dm) (combine (denoms_from 1 ms) ms).
Definition lazy_nb (ms : list Z) : Z := last (denoms_from 1 ms) 1 * last ms 1.
Definition zrange (n : Z) : list Z := map Z.of_nat (seq 0 (Z.to_nat n)).
Definition lazy_product (ms : list Z) : list (list Z) := map (lazy_tuple ms) (zrange (lazy_nb ms)).

(* RosenbergStrong.pairing / projection in dimension d (tuples as lists, last coordinate last).
   iroot d z is the integer d-th root the (repaired) code computes by correcting its float guess. *)
Definition list_max (l : list Z) : Z := fold_right Z.max 0 l.
Fixpoint rs_pairing_rev (xs_rev : list Z) : Z :=   (* argument: the tuple reversed *)
  match xs_rev with
  | [] => 0
  | [x] => x
  | xd :: rest =>
      let d := Z.of_nat (length xs_rev) in
      let m := list_max xs_rev in
      rs_pairing_rev rest + m ^ d + (m - xd) * ((m + 1) ^ (d - 1) - m ^ (d - 1))
  end.
Definition rs_pairing (xs : list Z) : Z := rs_pairing_rev (rev xs).

Fixpoint iroot_search (fuel : nat) (d z m : Z) : Z :=   (* largest m' >= m with m'^d <= z, searching upward *)
  match fuel with
  | O => m
  | S k => if (m + 1) ^ d <=? z then iroot_search k d z (m + 1) else m
  end.
Definition iroot (d z : Z) : Z := iroot_search (Z.to_nat (Z.sqrt z + 1)) d z 0.
Fixpoint rs_projection (dimn : nat) (z : Z) : list Z :=
  match dimn with
  | O => []
  | S O => [z]
  | S k =>
      let d := Z.of_nat dimn in
      let m := iroot d z in
      let m_d1 := m ^ (d - 1) in
      let m_d := m * m_d1 in
      let aux := (m + 1) ^ (d - 1) - m_d1 in
      let xd := m - (Z.max 0 (z - m_d - m_d1)) / aux in
      rs_projection k (z - m_d - (m - xd) * aux) ++ [xd]
  end.

(* ---- Pairing.pairing / Pairing.projection: the generic nesting used for dim > 2 by every pairing that
   does not override them (Szudzik, Pepis-Kalmar, Hyperbolic; Cantor.projection raises for dim <> 2).
     pairing(x)        = pairing2d(pairing(x[:-1]), x[-1]) if len(x) > 2 else pairing2d(x[0], x[1])
                       = the left fold  p2 (... p2 (p2 x1 x2) x3 ...) xd        (nest_pairing_snoc)
     projection(z,dim) = projection2d(t[0]) + t[1:] with t = projection(z, dim-1) if dim > 2 else projection2d(z)
   (len(x) < 2 raises a TypeError in pairing2d(x[0], x[1]): modelled as 0) *)
Definition nest_pairing (p2 : Z -> Z -> Z) (xs : list Z) : Z :=
  match xs with x1 :: x2 :: r => fold_left p2 r (p2 x1 x2) | _ => 0 end.
Fixpoint nest_projection (pr2 : Z -> Z * Z) (dimn : nat) (z : Z) : list Z :=
  match dimn with
  | S (S (S _) as k) =>
      match nest_projection pr2 k z with
      | p :: q => fst (pr2 p) :: snd (pr2 p) :: q
      | [] => []
      end
  | _ => [fst (pr2 z); snd (pr2 z)]
  end.

(* ---- PairingToZd for a general dimension (tuples as lists) around a pairing of N^d:
     pairing(x) = n_pairing.pairing(tuple(map(mapping_to_z, x)));  pair(x) = pairing(x) - omit
     projection(n) = tuple(map(projection_to_z, n_pairing.projection(n, dimension)));  project(x) = projection(x + omit) *)
Definition zdn_pair (npair : list Z -> Z) (omit : Z) (xs : list Z) : Z :=
  npair (map mapping_to_z xs) - omit.
Definition zdn_project (nproj : nat -> Z -> list Z) (dimn : nat) (omit : Z) (n : Z) : list Z :=
  map projection_to_z (nproj dimn (n + omit)).

(* ---- numerical/numbers.py a_n (with the integer square root):
     sqrt_x = isqrt(n);  2 * sum(n // k for k in range(1, sqrt_x + 1)) - sqrt_x**2 *)
Fixpoint zsum_from (f : Z -> Z) (a : Z) (len : nat) : Z :=   (* f a + f (a+1) + ... + f (a+len-1) *)
  match len with O => 0 | S l => f a + zsum_from f (a + 1) l end.
Definition a_n (n : Z) : Z :=
  let s := Z.sqrt n in 2 * zsum_from (fun k => n / k) 1 (Z.to_nat s) - s ^ 2.
(* the divisor summatory function  D(n) = sum_{k=1..n} floor(n/k)  (OEIS A006218) *)
Definition divisor_summatory (n : Z) : Z := zsum_from (fun k => n / k) 1 (Z.to_nat n).

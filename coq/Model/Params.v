(* Model of the five Parameters classes of rpylib (HEMParameters, MertonParameters, VGParameters, CGMYParameters,
   BlackScholesParameters) as records of primary + derived (cached) fields, and of the calibration helpers of model/utils.py.

   Generated from the source on every run (Gen/GenC20Params.v, harness/specs/C20.py):
     - cond_*            : the constraint predicates of rpylib/tools/parameter.py
     - <cls>_guard_<f>   : which predicate the class declares for which attribute
     - <cls>_nfields     : how many attributes the class stores (the translator refuses a class whose __init__ /
                           initialisation store anything else than the fields listed here)
     - <cls>_init_<d>    : the derived field d as computed by __init__
     - <cls>_reinit_<d>  : the derived field d as computed by initialisation()
   Hand-written here: the record, `set` (the property setter: stores the value iff the guard holds, otherwise raises
   ValueError and leaves the object unchanged), `initialisation`, `construct` (= __init__: every assignment goes through the
   setter, so construction raises ValueError iff some guard fails; then the derived fields are computed, which raises
   ZeroDivisionError where Python float division by zero occurs -- `<cls>_defined`), `run` (a history of assignments, each
   ValueError being caught by the caller).

   fsqrt / fgamma / fpow stand for np.sqrt / scipy.special.gamma / np.power: the theorems hold for every interpretation. *)
From Coq Require Import ZArith QArith Qabs Bool List.
From RV Require Import Base.QB Gen.GenC20Params.
Import ListNotations.
Open Scope Q_scope.

Inductive outcome (A : Type) : Type :=
  | Built (a : A)
  | RaisesValueError            (* a property setter refused a value *)
  | RaisesZeroDivisionError.    (* float division by zero in a derived-field formula *)
Arguments Built {A} a.
Arguments RaisesValueError {A}.
Arguments RaisesZeroDivisionError {A}.

Section Params.
Variable fsqrt : Q -> Q.
Variable fgamma : Q -> Q.
Variable fpow : Q -> Q -> Q.

(* ------------------------------------------------------------------ HEM: _xi = p*eta1/(eta1-1) + (1-p)*eta2/(eta2+1) - 1 raises ZeroDivisionError when a denominator is 0 *)
Record HemRec := { h_sigma : Q; h_p : Q; h_eta1 : Q; h_eta2 : Q; h_intensity : Q; h_xi : Q }.
Inductive HemField := HSigma | HP | HEta1 | HEta2 | HIntensity | HXi.
Definition hem_guard (f : HemField) (v : Q) : bool :=
  match f with
  | HSigma => hem_guard_sigma v
  | HP => hem_guard_p v
  | HEta1 => hem_guard_eta1 v
  | HEta2 => hem_guard_eta2 v
  | HIntensity => hem_guard_intensity v
  | HXi => true      (* cached fields are plain attributes *)
  end.
Definition hem_write (f : HemField) (v : Q) (r : HemRec) : HemRec :=
  match f with
  | HSigma => {| h_sigma := v; h_p := h_p r; h_eta1 := h_eta1 r; h_eta2 := h_eta2 r; h_intensity := h_intensity r; h_xi := h_xi r |}
  | HP => {| h_sigma := h_sigma r; h_p := v; h_eta1 := h_eta1 r; h_eta2 := h_eta2 r; h_intensity := h_intensity r; h_xi := h_xi r |}
  | HEta1 => {| h_sigma := h_sigma r; h_p := h_p r; h_eta1 := v; h_eta2 := h_eta2 r; h_intensity := h_intensity r; h_xi := h_xi r |}
  | HEta2 => {| h_sigma := h_sigma r; h_p := h_p r; h_eta1 := h_eta1 r; h_eta2 := v; h_intensity := h_intensity r; h_xi := h_xi r |}
  | HIntensity => {| h_sigma := h_sigma r; h_p := h_p r; h_eta1 := h_eta1 r; h_eta2 := h_eta2 r; h_intensity := v; h_xi := h_xi r |}
  | HXi => {| h_sigma := h_sigma r; h_p := h_p r; h_eta1 := h_eta1 r; h_eta2 := h_eta2 r; h_intensity := h_intensity r; h_xi := v |}
  end.
Definition hem_set (r : HemRec) (f : HemField) (v : Q) : HemRec * bool :=
  if hem_guard f v then (hem_write f v r, true) else (r, false).
Definition hem_initialisation (r : HemRec) : HemRec :=
  {| h_sigma := h_sigma r; h_p := h_p r; h_eta1 := h_eta1 r; h_eta2 := h_eta2 r; h_intensity := h_intensity r; h_xi := hem_reinit_xi (h_sigma r) (h_p r) (h_eta1 r) (h_eta2 r) (h_intensity r) |}.
Definition hem_valid (r : HemRec) : bool :=
  hem_guard_sigma (h_sigma r) && hem_guard_p (h_p r) && hem_guard_eta1 (h_eta1 r) && hem_guard_eta2 (h_eta2 r) && hem_guard_intensity (h_intensity r).
Definition hem_defined (r : HemRec) : bool := negb (Qeq_bool (h_eta1 r - 1) 0) && negb (Qeq_bool (h_eta2 r + 1) 0).
Definition hem_build (sigma p eta1 eta2 intensity : Q) : HemRec :=
  {| h_sigma := sigma; h_p := p; h_eta1 := eta1; h_eta2 := eta2; h_intensity := intensity; h_xi := hem_init_xi sigma p eta1 eta2 intensity |}.
Definition hem_construct (sigma p eta1 eta2 intensity : Q) : outcome HemRec :=
  let r := hem_build sigma p eta1 eta2 intensity in
  if hem_valid r then (if hem_defined r then Built r else RaisesZeroDivisionError) else RaisesValueError.
Definition hem_initialisation_checked (r : HemRec) : outcome HemRec :=
  if hem_defined r then Built (hem_initialisation r) else RaisesZeroDivisionError.
Definition hem_run (ops : list (HemField * Q)) (r : HemRec) : HemRec :=
  fold_left (fun r op => fst (hem_set r (fst op) (snd op))) ops r.
Definition hem_rebuild (r : HemRec) : outcome HemRec := hem_construct (h_sigma r) (h_p r) (h_eta1 r) (h_eta2 r) (h_intensity r).
Definition hem_fields (r : HemRec) : list Q := [h_sigma r; h_p r; h_eta1 r; h_eta2 r; h_intensity r; h_xi r].

(* ------------------------------------------------------------------ Merton: no derived field; initialisation is the base-class no-op *)
Record MertonRec := { m_sigma : Q; m_mu_j : Q; m_sigma_j : Q; m_intensity : Q }.
Inductive MertonField := MSigma | MMuJ | MSigmaJ | MIntensity.
Definition merton_guard (f : MertonField) (v : Q) : bool :=
  match f with
  | MSigma => merton_guard_sigma v
  | MMuJ => merton_guard_mu_j v
  | MSigmaJ => merton_guard_sigma_j v
  | MIntensity => merton_guard_intensity v
  end.
Definition merton_write (f : MertonField) (v : Q) (r : MertonRec) : MertonRec :=
  match f with
  | MSigma => {| m_sigma := v; m_mu_j := m_mu_j r; m_sigma_j := m_sigma_j r; m_intensity := m_intensity r |}
  | MMuJ => {| m_sigma := m_sigma r; m_mu_j := v; m_sigma_j := m_sigma_j r; m_intensity := m_intensity r |}
  | MSigmaJ => {| m_sigma := m_sigma r; m_mu_j := m_mu_j r; m_sigma_j := v; m_intensity := m_intensity r |}
  | MIntensity => {| m_sigma := m_sigma r; m_mu_j := m_mu_j r; m_sigma_j := m_sigma_j r; m_intensity := v |}
  end.
Definition merton_set (r : MertonRec) (f : MertonField) (v : Q) : MertonRec * bool :=
  if merton_guard f v then (merton_write f v r, true) else (r, false).
Definition merton_initialisation (r : MertonRec) : MertonRec :=
  r.
Definition merton_valid (r : MertonRec) : bool :=
  merton_guard_sigma (m_sigma r) && merton_guard_mu_j (m_mu_j r) && merton_guard_sigma_j (m_sigma_j r) && merton_guard_intensity (m_intensity r).
Definition merton_defined (r : MertonRec) : bool := true.
Definition merton_build (sigma mu_j sigma_j intensity : Q) : MertonRec :=
  {| m_sigma := sigma; m_mu_j := mu_j; m_sigma_j := sigma_j; m_intensity := intensity |}.
Definition merton_construct (sigma mu_j sigma_j intensity : Q) : outcome MertonRec :=
  let r := merton_build sigma mu_j sigma_j intensity in
  if merton_valid r then (if merton_defined r then Built r else RaisesZeroDivisionError) else RaisesValueError.
Definition merton_initialisation_checked (r : MertonRec) : outcome MertonRec :=
  if merton_defined r then Built (merton_initialisation r) else RaisesZeroDivisionError.
Definition merton_run (ops : list (MertonField * Q)) (r : MertonRec) : MertonRec :=
  fold_left (fun r op => fst (merton_set r (fst op) (snd op))) ops r.
Definition merton_rebuild (r : MertonRec) : outcome MertonRec := merton_construct (m_sigma r) (m_mu_j r) (m_sigma_j r) (m_intensity r).
Definition merton_fields (r : MertonRec) : list Q := [m_sigma r; m_mu_j r; m_sigma_j r; m_intensity r].

(* ------------------------------------------------------------------ Variance Gamma: 1/nu, 2*sigma2/nu, theta/sigma2 raise ZeroDivisionError (Python floats) when nu = 0 or sigma**2 = 0 *)
Record VgRec := { v_sigma : Q; v_nu : Q; v_theta : Q; v_c : Q; v_lambda_p : Q; v_lambda_m : Q }.
Inductive VgField := VSigma | VNu | VTheta | VC | VLambdaP | VLambdaM.
Definition vg_guard (f : VgField) (v : Q) : bool :=
  match f with
  | VSigma => vg_guard_sigma v
  | VNu => vg_guard_nu v
  | VTheta => vg_guard_theta v
  | VC | VLambdaP | VLambdaM => true      (* cached fields are plain attributes *)
  end.
Definition vg_write (f : VgField) (v : Q) (r : VgRec) : VgRec :=
  match f with
  | VSigma => {| v_sigma := v; v_nu := v_nu r; v_theta := v_theta r; v_c := v_c r; v_lambda_p := v_lambda_p r; v_lambda_m := v_lambda_m r |}
  | VNu => {| v_sigma := v_sigma r; v_nu := v; v_theta := v_theta r; v_c := v_c r; v_lambda_p := v_lambda_p r; v_lambda_m := v_lambda_m r |}
  | VTheta => {| v_sigma := v_sigma r; v_nu := v_nu r; v_theta := v; v_c := v_c r; v_lambda_p := v_lambda_p r; v_lambda_m := v_lambda_m r |}
  | VC => {| v_sigma := v_sigma r; v_nu := v_nu r; v_theta := v_theta r; v_c := v; v_lambda_p := v_lambda_p r; v_lambda_m := v_lambda_m r |}
  | VLambdaP => {| v_sigma := v_sigma r; v_nu := v_nu r; v_theta := v_theta r; v_c := v_c r; v_lambda_p := v; v_lambda_m := v_lambda_m r |}
  | VLambdaM => {| v_sigma := v_sigma r; v_nu := v_nu r; v_theta := v_theta r; v_c := v_c r; v_lambda_p := v_lambda_p r; v_lambda_m := v |}
  end.
Definition vg_set (r : VgRec) (f : VgField) (v : Q) : VgRec * bool :=
  if vg_guard f v then (vg_write f v r, true) else (r, false).
Definition vg_initialisation (r : VgRec) : VgRec :=
  {| v_sigma := v_sigma r; v_nu := v_nu r; v_theta := v_theta r; v_c := vg_reinit_c fsqrt (v_sigma r) (v_nu r) (v_theta r); v_lambda_p := vg_reinit_lambda_p fsqrt (v_sigma r) (v_nu r) (v_theta r); v_lambda_m := vg_reinit_lambda_m fsqrt (v_sigma r) (v_nu r) (v_theta r) |}.
Definition vg_valid (r : VgRec) : bool :=
  vg_guard_sigma (v_sigma r) && vg_guard_nu (v_nu r) && vg_guard_theta (v_theta r).
Definition vg_defined (r : VgRec) : bool := negb (Qeq_bool (v_nu r) 0) && negb (Qeq_bool (v_sigma r ^ 2) 0).
Definition vg_build (sigma nu theta : Q) : VgRec :=
  {| v_sigma := sigma; v_nu := nu; v_theta := theta; v_c := vg_init_c fsqrt sigma nu theta; v_lambda_p := vg_init_lambda_p fsqrt sigma nu theta; v_lambda_m := vg_init_lambda_m fsqrt sigma nu theta |}.
Definition vg_construct (sigma nu theta : Q) : outcome VgRec :=
  let r := vg_build sigma nu theta in
  if vg_valid r then (if vg_defined r then Built r else RaisesZeroDivisionError) else RaisesValueError.
Definition vg_initialisation_checked (r : VgRec) : outcome VgRec :=
  if vg_defined r then Built (vg_initialisation r) else RaisesZeroDivisionError.
Definition vg_run (ops : list (VgField * Q)) (r : VgRec) : VgRec :=
  fold_left (fun r op => fst (vg_set r (fst op) (snd op))) ops r.
Definition vg_rebuild (r : VgRec) : outcome VgRec := vg_construct (v_sigma r) (v_nu r) (v_theta r).
Definition vg_fields (r : VgRec) : list Q := [v_sigma r; v_nu r; v_theta r; v_c r; v_lambda_p r; v_lambda_m r].

(* ------------------------------------------------------------------ CGMY: no division (Gamma poles / 0**negative give inf in numpy, no exception) *)
Record CgmyRec := { c_c : Q; c_g : Q; c_m : Q; c_y : Q; c_CGammamY : Q; c_MpowerY : Q; c_GpowerY : Q }.
Inductive CgmyField := CC | CG | CM | CY | CCGammamY | CMpowerY | CGpowerY.
Definition cgmy_guard (f : CgmyField) (v : Q) : bool :=
  match f with
  | CC => cgmy_guard_c v
  | CG => cgmy_guard_g v
  | CM => cgmy_guard_m v
  | CY => cgmy_guard_y v
  | CCGammamY | CMpowerY | CGpowerY => true      (* cached fields are plain attributes *)
  end.
Definition cgmy_write (f : CgmyField) (v : Q) (r : CgmyRec) : CgmyRec :=
  match f with
  | CC => {| c_c := v; c_g := c_g r; c_m := c_m r; c_y := c_y r; c_CGammamY := c_CGammamY r; c_MpowerY := c_MpowerY r; c_GpowerY := c_GpowerY r |}
  | CG => {| c_c := c_c r; c_g := v; c_m := c_m r; c_y := c_y r; c_CGammamY := c_CGammamY r; c_MpowerY := c_MpowerY r; c_GpowerY := c_GpowerY r |}
  | CM => {| c_c := c_c r; c_g := c_g r; c_m := v; c_y := c_y r; c_CGammamY := c_CGammamY r; c_MpowerY := c_MpowerY r; c_GpowerY := c_GpowerY r |}
  | CY => {| c_c := c_c r; c_g := c_g r; c_m := c_m r; c_y := v; c_CGammamY := c_CGammamY r; c_MpowerY := c_MpowerY r; c_GpowerY := c_GpowerY r |}
  | CCGammamY => {| c_c := c_c r; c_g := c_g r; c_m := c_m r; c_y := c_y r; c_CGammamY := v; c_MpowerY := c_MpowerY r; c_GpowerY := c_GpowerY r |}
  | CMpowerY => {| c_c := c_c r; c_g := c_g r; c_m := c_m r; c_y := c_y r; c_CGammamY := c_CGammamY r; c_MpowerY := v; c_GpowerY := c_GpowerY r |}
  | CGpowerY => {| c_c := c_c r; c_g := c_g r; c_m := c_m r; c_y := c_y r; c_CGammamY := c_CGammamY r; c_MpowerY := c_MpowerY r; c_GpowerY := v |}
  end.
Definition cgmy_set (r : CgmyRec) (f : CgmyField) (v : Q) : CgmyRec * bool :=
  if cgmy_guard f v then (cgmy_write f v r, true) else (r, false).
Definition cgmy_initialisation (r : CgmyRec) : CgmyRec :=
  {| c_c := c_c r; c_g := c_g r; c_m := c_m r; c_y := c_y r; c_CGammamY := cgmy_reinit_CGammamY fgamma fpow (c_c r) (c_g r) (c_m r) (c_y r); c_MpowerY := cgmy_reinit_MpowerY fgamma fpow (c_c r) (c_g r) (c_m r) (c_y r); c_GpowerY := cgmy_reinit_GpowerY fgamma fpow (c_c r) (c_g r) (c_m r) (c_y r) |}.
Definition cgmy_valid (r : CgmyRec) : bool :=
  cgmy_guard_c (c_c r) && cgmy_guard_g (c_g r) && cgmy_guard_m (c_m r) && cgmy_guard_y (c_y r).
Definition cgmy_defined (r : CgmyRec) : bool := true.
Definition cgmy_build (c g m y : Q) : CgmyRec :=
  {| c_c := c; c_g := g; c_m := m; c_y := y; c_CGammamY := cgmy_init_CGammamY fgamma fpow c g m y; c_MpowerY := cgmy_init_MpowerY fgamma fpow c g m y; c_GpowerY := cgmy_init_GpowerY fgamma fpow c g m y |}.
Definition cgmy_construct (c g m y : Q) : outcome CgmyRec :=
  let r := cgmy_build c g m y in
  if cgmy_valid r then (if cgmy_defined r then Built r else RaisesZeroDivisionError) else RaisesValueError.
Definition cgmy_initialisation_checked (r : CgmyRec) : outcome CgmyRec :=
  if cgmy_defined r then Built (cgmy_initialisation r) else RaisesZeroDivisionError.
Definition cgmy_run (ops : list (CgmyField * Q)) (r : CgmyRec) : CgmyRec :=
  fold_left (fun r op => fst (cgmy_set r (fst op) (snd op))) ops r.
Definition cgmy_rebuild (r : CgmyRec) : outcome CgmyRec := cgmy_construct (c_c r) (c_g r) (c_m r) (c_y r).
Definition cgmy_fields (r : CgmyRec) : list Q := [c_c r; c_g r; c_m r; c_y r; c_CGammamY r; c_MpowerY r; c_GpowerY r].

(* ------------------------------------------------------------------ Black-Scholes: variance = sigma*sigma *)
Record BsRec := { b_sigma : Q; b_variance : Q }.
Inductive BsField := BSigma | BVariance.
Definition bs_guard (f : BsField) (v : Q) : bool :=
  match f with
  | BSigma => bs_guard_sigma v
  | BVariance => true      (* cached fields are plain attributes *)
  end.
Definition bs_write (f : BsField) (v : Q) (r : BsRec) : BsRec :=
  match f with
  | BSigma => {| b_sigma := v; b_variance := b_variance r |}
  | BVariance => {| b_sigma := b_sigma r; b_variance := v |}
  end.
Definition bs_set (r : BsRec) (f : BsField) (v : Q) : BsRec * bool :=
  if bs_guard f v then (bs_write f v r, true) else (r, false).
Definition bs_initialisation (r : BsRec) : BsRec :=
  {| b_sigma := b_sigma r; b_variance := bs_reinit_variance (b_sigma r) |}.
Definition bs_valid (r : BsRec) : bool :=
  bs_guard_sigma (b_sigma r).
Definition bs_defined (r : BsRec) : bool := true.
Definition bs_build (sigma : Q) : BsRec :=
  {| b_sigma := sigma; b_variance := bs_init_variance sigma |}.
Definition bs_construct (sigma : Q) : outcome BsRec :=
  let r := bs_build sigma in
  if bs_valid r then (if bs_defined r then Built r else RaisesZeroDivisionError) else RaisesValueError.
Definition bs_initialisation_checked (r : BsRec) : outcome BsRec :=
  if bs_defined r then Built (bs_initialisation r) else RaisesZeroDivisionError.
Definition bs_run (ops : list (BsField * Q)) (r : BsRec) : BsRec :=
  fold_left (fun r op => fst (bs_set r (fst op) (snd op))) ops r.
Definition bs_rebuild (r : BsRec) : outcome BsRec := bs_construct (b_sigma r).
Definition bs_fields (r : BsRec) : list Q := [b_sigma r; b_variance r].

End Params.

(* ------------------------------------------------------------------ calibration (model/utils.py)
   Objects live in a heap (list of records, addresses = positions); `model.levy_model.parameters` is the address p.
   calibrate_model_parameter:  q := deepcopy(p);  brentq then calls calibration_fun on trial values of ITS choosing
   (any list xs);  calibration_fun(x) does  q.<f> = x  (ValueError of the setter propagates: None),  q.initialisation(),
   builds a model on q and returns price - market.   `alias = true` is the variant WITHOUT the deep copy (q := p), kept to
   show that "the input is untouched" is a real statement about the code.
   run_default_calibration then takes the value x returned by brentq, deep-copies p again, assigns, re-initialises and
   returns a model on that new object.  brentq itself is specified (BrentSpec), not modelled. *)
Section Calibration.
  Variable Rec Field : Type.
  Variable set : Rec -> Field -> Q -> Rec * bool.
  Variable initialisation : Rec -> outcome Rec.   (* the CHECKED initialisation: RaisesZeroDivisionError where Python divides by zero *)
  Variable price : Rec -> Q.            (* COS price of the calibration product as a function of the parameter object *)
  Variable dflt : Rec.

  Definition Heap := list Rec.
  Definition load (h : Heap) (p : nat) : Rec := nth p h dflt.
  Fixpoint store (h : Heap) (p : nat) (r : Rec) : Heap :=
    match h, p with
    | [], _ => []
    | _ :: t, O => r :: t
    | x :: t, S p' => x :: store t p' r
    end.
  Definition deepcopy (h : Heap) (p : nat) : Heap * nat := (h ++ [load h p], length h).

  (* copy.<f> = x (ValueError of the setter -> None); copy.initialisation() (ZeroDivisionError -> None); price - market *)
  Definition assign_init (r : Rec) (f : Field) (x : Q) : option Rec :=
    let '(r', ok) := set r f x in
    if ok then match initialisation r' with Built r'' => Some r'' | _ => None end else None.
  Definition calibration_fun (q : nat) (f : Field) (market : Q) (st : Heap) (x : Q) : option (Heap * Q) :=
    match assign_init (load st q) f x with
    | Some r'' => Some (store st q r'', price r'' - market)
    | None => None
    end.
  Fixpoint run_trials (q : nat) (f : Field) (market : Q) (st : Heap) (xs : list Q) : option Heap :=
    match xs with
    | [] => Some st
    | x :: rest => match calibration_fun q f market st x with
                   | Some (st', _) => run_trials q f market st' rest
                   | None => None
                   end
    end.
  Definition calibrate_model_parameter (alias : bool) (h : Heap) (p : nat) (f : Field) (market : Q) (xs : list Q) : option Heap :=
    let '(h1, q) := if alias then (h, p) else deepcopy h p in run_trials q f market h1 xs.
  (* (heap afterwards, address of the returned model's parameters) *)
  Definition run_default_calibration (h : Heap) (p : nat) (f : Field) (market : Q) (xs : list Q) (x : Q) : option (Heap * nat) :=
    match calibrate_model_parameter false h p f market xs with
    | None => None
    | Some h1 => let '(h2, q2) := deepcopy h1 p in
                 match assign_init (load h2 q2) f x with
                 | Some r'' => Some (store h2 q2 r'', q2)
                 | None => None
                 end
    end.
End Calibration.

(* what scipy.optimize.brentq promises when it RETURNS x for an objective F on [a,b] (a bracketing method: the returned
   point lies in a sub-bracket of width <= delta = 2*(xtol + rtol*|x|) on which F changes sign; it RAISES ValueError when
   F(a) and F(b) have the same strict sign).  Nothing is promised about |F(x)|: that needs regularity of F. *)
Definition BrentSpec (F : Q -> Q) (a b delta x : Q) : Prop :=
  exists x1 x2, a <= x1 /\ x1 <= x /\ x <= x2 /\ x2 <= b /\ x2 - x1 <= delta /\ F x1 * F x2 <= 0.
Definition brent_must_raise (F : Q -> Q) (a b : Q) : Prop := 0 < F a * F b.
Definition Lipschitz (g : Q -> Q) (a b L : Q) : Prop :=
  forall y z, a <= y /\ y <= b -> a <= z /\ z <= b -> Qabs (g y - g z) <= L * Qabs (y - z).

(* ------------------------------------------------------------------ executable stand-ins used by the correspondence only *)
(* square root to 2^-100 (relative to 1) of a non-negative rational: floor(sqrt(q * 4^100)) / 2^100 *)
Definition qsqrt_hi (q : Q) : Q :=
  (Z.sqrt ((Qnum q * 2 ^ 200) / Zpos (Qden q)) # (2 ^ 100))%Q.
(* finite table standing for a float function on the exact arguments it was called with *)
Fixpoint qlookup1 (t : list (Q * Q)) (x : Q) : Q :=
  match t with [] => 0 | (k, v) :: r => if Qeq_bool k x then v else qlookup1 r x end.
Fixpoint qlookup2 (t : list (Q * Q * Q)) (x y : Q) : Q :=
  match t with [] => 0 | (k1, k2, v) :: r => if Qeq_bool k1 x && Qeq_bool k2 y then v else qlookup2 r x y end.

(* Statement-level operations of the heap model of rpylib/model/utils.py (calibration helpers).  The py2coq plug-in
   harness/py2coq_c20.py translates the BODIES of calibrate_model_parameter / its inner calibration_fun /
   run_default_calibration statement by statement into a program over these operations (module Gen/GenC20Calib.v,
   regenerated from the source on every run); Proofs/C20_Calib.v proves that program equal to the hand-written
   calibration model of Model/Params.v.  Only definitions here.

   state = Heap (list of parameter records, addresses = positions).  A model object is identified with the address of the
   Parameters object it was built on (`model_cls(spot=model.spot, r=model.r, d=model.d, parameters=q)` keeps a REFERENCE to q).
   CORRECTED (audit 5b, B14): the Python model object does NOT read q at the time of pricing -- HEMModel.__init__ caches sigma and the
   drift in its Levy triplet and ExponentialOfLevyModel.__init__ caches omega, so a model priced after `q.sigma = 0.3; q.initialisation()`
   still gives the old price (COS call(100, 1): 5.7026 against 13.6366 for a fresh model).  hop_price st m = price (load st m) is therefore
   the price of a model CONSTRUCTED on the record at m at that moment; it is used only that way: in utils.py every price follows a fresh
   `model_cls(...)` on the object just re-initialised (gen_calibration_fun: op_model then op_price on the same address, nothing in between).
   A program pricing an OLD model object after a later assignment would not be described by hop_price.
   An operation that raises in Python returns None: ValueError and ZeroDivisionError are ONE outcome here (utils.py re-wraps ValueError
   only, so a ZeroDivisionError of the re-initialisation leaves calibrate_model_parameter un-wrapped -- not distinguished by this model). *)
From Coq Require Import ZArith QArith Qabs Bool List.
From RV Require Import Base.QB Gen.GenC20Params Model.Params.
Import ListNotations.
Open Scope Q_scope.

Definition obind {A B : Type} (o : option A) (k : A -> option B) : option B :=
  match o with Some a => k a | None => None end.

(* every operation takes the whole class description (Rec Field set initialisation price dflt), used or not, so that the
   generated program can apply them uniformly *)
Section HeapOps.
  Variable Rec Field : Type.
  Variable set : Rec -> Field -> Q -> Rec * bool.
  Variable initialisation : Rec -> outcome Rec.   (* the CHECKED initialisation *)
  Variable price : Rec -> Q.
  Variable dflt : Rec.

  (* q = copy.deepcopy(p) *)
  Definition hop_deepcopy (st : Heap Rec) (p : nat) : Heap Rec * nat := deepcopy Rec dflt st p.
  (* q.__setattr__(f, v): the property setter; ValueError -> None *)
  Definition hop_setattr (st : Heap Rec) (q : nat) (f : Field) (v : Q) : option (Heap Rec) :=
    let '(r', ok) := set (load Rec dflt st q) f v in if ok then Some (store Rec st q r') else None.
  (* q.initialisation(): ZeroDivisionError -> None *)
  Definition hop_initialisation (st : Heap Rec) (q : nat) : option (Heap Rec) :=
    match initialisation (load Rec dflt st q) with Built r => Some (store Rec st q r) | _ => None end.
  (* COSPricer(m).price(product=product) for a model m built on the parameters at address m *)
  Definition hop_price (st : Heap Rec) (m : nat) : Q := price (load Rec dflt st m).
  (* scipy.optimize.brentq(f=F, a=a, b=b): calls F on trial values of ITS choosing (any list xs), each call running on the
     heap left by the previous one; an exception inside F propagates.  Which value it returns is specified by BrentSpec
     (Model/Params.v), not computed. *)
  Fixpoint hop_brentq (F : Heap Rec -> Q -> option (Heap Rec * Q)) (st : Heap Rec) (xs : list Q) : option (Heap Rec) :=
    match xs with
    | [] => Some st
    | x :: rest => match F st x with Some (st', _) => hop_brentq F st' rest | None => None end
    end.
End HeapOps.

Definition op_deepcopy (Rec Field : Type) (set : Rec -> Field -> Q -> Rec * bool) (initialisation : Rec -> outcome Rec) (price : Rec -> Q) (dflt : Rec)
  := hop_deepcopy Rec dflt.
Definition op_setattr (Rec Field : Type) (set : Rec -> Field -> Q -> Rec * bool) (initialisation : Rec -> outcome Rec) (price : Rec -> Q) (dflt : Rec)
  := hop_setattr Rec Field set dflt.
Definition op_initialisation (Rec Field : Type) (set : Rec -> Field -> Q -> Rec * bool) (initialisation : Rec -> outcome Rec) (price : Rec -> Q) (dflt : Rec)
  := hop_initialisation Rec initialisation dflt.
Definition op_price (Rec Field : Type) (set : Rec -> Field -> Q -> Rec * bool) (initialisation : Rec -> outcome Rec) (price : Rec -> Q) (dflt : Rec)
  := hop_price Rec price dflt.
Definition op_brentq (Rec Field : Type) (set : Rec -> Field -> Q -> Rec * bool) (initialisation : Rec -> outcome Rec) (price : Rec -> Q) (dflt : Rec)
  := hop_brentq Rec.

(* ------------------------------------------------------------------ wave 7 (audit 4, B3): the raises that the operations above
   cannot produce.  (1) `model_cls(spot=..., parameters=q)`: the constructor of the exponential model may REFUSE the parameters
   object with ValueError (hem.py: eta1 <= 1; cgmy.py: m < 1 or (m = 1 and y <= 0); exponentialoflevymodel.py: E[exp(L_1)] not
   finite / not real) -- `model_ok : Rec -> bool` is that test, one more component of the class description (any interpretation).
   (2) scipy.optimize.brentq(f, a, b) (scipy 1.18: Zeros/brentq.c) first calls f(a), then f(b); returns a (resp. b) if that value
   is 0; raises ValueError("f(a) and f(b) must have different signs") if both are non-zero with the same sign; only then iterates
   (trial values xs of ITS choosing).  An exception inside f propagates. *)
Section HeapOpsG.
  Variable Rec : Type.
  Variable model_ok : Rec -> bool.
  Variable dflt : Rec.
  Definition hop_model (st : Heap Rec) (q : nat) : option nat := if model_ok (load Rec dflt st q) then Some q else None.
  Definition hop_brentq_ab (F : Heap Rec -> Q -> option (Heap Rec * Q)) (st : Heap Rec) (a b : Q) (xs : list Q) : option (Heap Rec) :=
    match F st a with
    | None => None
    | Some (st1, fa) =>
        match F st1 b with
        | None => None
        | Some (st2, fb) =>
            if Qeq_bool fa 0 || Qeq_bool fb 0 then Some st2
            else if Qle_bool (fa * fb) 0 then hop_brentq Rec F st2 xs else None
        end
    end.
End HeapOpsG.
Definition op_model (Rec Field : Type) (set : Rec -> Field -> Q -> Rec * bool) (initialisation : Rec -> outcome Rec) (price : Rec -> Q) (dflt : Rec)
  (model_ok : Rec -> bool) := hop_model Rec model_ok dflt.
Definition op_brentq_ab (Rec Field : Type) (set : Rec -> Field -> Q -> Rec * bool) (initialisation : Rec -> outcome Rec) (price : Rec -> Q) (dflt : Rec)
  (model_ok : Rec -> bool) := hop_brentq_ab Rec.

(* hand-written heap model WITH these two raises (the one of Model/Params.v has neither): Proofs/C20_Calib.v proves the generated
   program equal to it, that whenever it returns the model of Params.v returns the same heap on the trial list [a; b] or a :: b :: xs
   (so every clause of C20_calibration_spec_partial applies), and when exactly it raises. *)
Section CalibrationG.
  Variable Rec Field : Type.
  Variable set : Rec -> Field -> Q -> Rec * bool.
  Variable initialisation : Rec -> outcome Rec.
  Variable price : Rec -> Q.
  Variable dflt : Rec.
  Variable model_ok : Rec -> bool.
  Notation assign_init := (assign_init Rec Field set initialisation).
  Notation load := (load Rec dflt).
  Definition calibration_fun_g (q : nat) (f : Field) (market : Q) (st : Heap Rec) (x : Q) : option (Heap Rec * Q) :=
    match assign_init (load st q) f x with
    | Some r'' => if model_ok r'' then Some (store Rec st q r'', price r'' - market) else None
    | None => None
    end.
  Fixpoint run_trials_g (q : nat) (f : Field) (market : Q) (st : Heap Rec) (xs : list Q) : option (Heap Rec) :=
    match xs with
    | [] => Some st
    | x :: rest => match calibration_fun_g q f market st x with Some (st', _) => run_trials_g q f market st' rest | None => None end
    end.
  Definition calibrate_model_parameter_g (h : Heap Rec) (p : nat) (f : Field) (ab : Q * Q) (market : Q) (xs : list Q) : option (Heap Rec) :=
    let '(h1, q) := deepcopy Rec dflt h p in
    match calibration_fun_g q f market h1 (fst ab) with
    | None => None
    | Some (st1, fa) =>
        match calibration_fun_g q f market st1 (snd ab) with
        | None => None
        | Some (st2, fb) =>
            if Qeq_bool fa 0 || Qeq_bool fb 0 then Some st2
            else if Qle_bool (fa * fb) 0 then run_trials_g q f market st2 xs else None
        end
    end.
  Definition run_default_calibration_g (h : Heap Rec) (p : nat) (f : Field) (ab : Q * Q) (market : Q) (xs : list Q) (x : Q) : option (Heap Rec * nat) :=
    match calibrate_model_parameter_g h p f ab market xs with
    | None => None
    | Some h1 => let '(h2, q2) := deepcopy Rec dflt h1 p in
                 match assign_init (load h2 q2) f x with
                 | Some r'' => if model_ok r'' then Some (store Rec h2 q2 r'', q2) else None
                 | None => None
                 end
    end.
End CalibrationG.

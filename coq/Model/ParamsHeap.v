(* Statement-level operations of the heap model of rpylib/model/utils.py (calibration helpers).  The py2coq plug-in
   harness/py2coq_c20.py translates the BODIES of calibrate_model_parameter / its inner calibration_fun /
   run_default_calibration statement by statement into a program over these operations (module Gen/GenC20Calib.v,
   regenerated from the source on every run); Proofs/C20_Calib.v proves that program equal to the hand-written
   calibration model of Model/Params.v.  Only definitions here.

   state = Heap (list of parameter records, addresses = positions).  A model object is identified with the address of the
   Parameters object it was built on (`model_cls(spot=model.spot, r=model.r, d=model.d, parameters=q)` keeps a REFERENCE to q:
   its price reads the heap at q at the time of pricing).  An operation that raises in Python returns None. *)
From Coq Require Import ZArith QArith Qabs Bool List.
From RV Require Import Base.QB Gen.GenC20Params Model.Params.
Import ListNotations.
Open Scope Q_scope.

Definition obind {A B : Type} (o : option A) (k : A -> option B) : option B :=
  match o with Some a => k a | None => None end.

(* every operation takes the whole class description (Rec Field set initialisation price dflt), used or not, so that the
   generated program can apply them uniformly *)
Section HeapOps.
  Variable Rec Field : Type.
  Variable set : Rec -> Field -> Q -> Rec * bool.
  Variable initialisation : Rec -> outcome Rec.   (* the CHECKED initialisation *)
  Variable price : Rec -> Q.
  Variable dflt : Rec.

  (* q = copy.deepcopy(p) *)
  Definition hop_deepcopy (st : Heap Rec) (p : nat) : Heap Rec * nat := deepcopy Rec dflt st p.
  (* q.__setattr__(f, v): the property setter; ValueError -> None *)
  Definition hop_setattr (st : Heap Rec) (q : nat) (f : Field) (v : Q) : option (Heap Rec) :=
    let '(r', ok) := set (load Rec dflt st q) f v in if ok then Some (store Rec st q r') else None.
  (* q.initialisation(): ZeroDivisionError -> None *)
  Definition hop_initialisation (st : Heap Rec) (q : nat) : option (Heap Rec) :=
    match initialisation (load Rec dflt st q) with Built r => Some (store Rec st q r) | _ => None end.
  (* COSPricer(m).price(product=product) for a model m built on the parameters at address m *)
  Definition hop_price (st : Heap Rec) (m : nat) : Q := price (load Rec dflt st m).
  (* scipy.optimize.brentq(f=F, a=a, b=b): calls F on trial values of ITS choosing (any list xs), each call running on the
     heap left by the previous one; an exception inside F propagates.  Which value it returns is specified by BrentSpec
     (Model/Params.v), not computed. *)
  Fixpoint hop_brentq (F : Heap Rec -> Q -> option (Heap Rec * Q)) (st : Heap Rec) (xs : list Q) : option (Heap Rec) :=
    match xs with
    | [] => Some st
    | x :: rest => match F st x with Some (st', _) => hop_brentq F st' rest | None => None end
    end.
End HeapOps.

Definition op_deepcopy (Rec Field : Type) (set : Rec -> Field -> Q -> Rec * bool) (initialisation : Rec -> outcome Rec) (price : Rec -> Q) (dflt : Rec)
  := hop_deepcopy Rec dflt.
Definition op_setattr (Rec Field : Type) (set : Rec -> Field -> Q -> Rec * bool) (initialisation : Rec -> outcome Rec) (price : Rec -> Q) (dflt : Rec)
  := hop_setattr Rec Field set dflt.
Definition op_initialisation (Rec Field : Type) (set : Rec -> Field -> Q -> Rec * bool) (initialisation : Rec -> outcome Rec) (price : Rec -> Q) (dflt : Rec)
  := hop_initialisation Rec initialisation dflt.
Definition op_price (Rec Field : Type) (set : Rec -> Field -> Q -> Rec * bool) (initialisation : Rec -> outcome Rec) (price : Rec -> Q) (dflt : Rec)
  := hop_price Rec price dflt.
Definition op_brentq (Rec Field : Type) (set : Rec -> Field -> Q -> Rec * bool) (initialisation : Rec -> outcome Rec) (price : Rec -> Q) (dflt : Rec)
  := hop_brentq Rec.

(* C17 (wave 6): hand model of the path managers of rpylib/montecarlo/path.py -- MCPath.process, MLMCPath.process,
   MLMCPath.process_l0, MCPath.update -- together with ControlVariates.initialisation / process / process_mlmc for ANY number of
   control products and ANY order of the operations
       product.update(rep) | cv.products[i].update(rep) | for p in cv.products: p.update(rep) | cv.initialisation(type(main underlying))
       | path_manager.update(rep) | path_manager.process* (...)
   Follows the tree repaired by commit 09f959e (F-C17-17): initialisation stores, per control, either `lambda ...: payoff_underlying`
   (control underlying of the main underlying's class) or a lambda that looks `control_underlying.value` up AT CALL TIME, so the
   representation in force when the path is processed is used whatever the order of update() and initialisation().
   (Before the repair the bound method of that moment was stored: Spot / LogSpot / DefaultTime frozen at the representation in force at
   initialisation, Asian live -- captured_rep_orig / ctrl_out_orig below keep that behaviour for the recorded witness only.)
   Product.process_path always uses the CURRENT representation of the product.
   Built on the product state machine of Model/Payoff.v (step / eval3) -- one state per product object; the main product and the
   controls are distinct objects with distinct underlying objects (shared underlyings: implementation-only oracle).
   A product call on a non-finite underlying value is outside the model (OutNone), as in eval3. *)
From Coq Require Import ZArith QArith Qminmax Qabs Bool List.
From RV Require Import Base.QB Model.PayoffVec Gen.GenC17Payoff Gen.GenC17Exotic Model.Payoff Model.PayoffExt.
Import ListNotations.
Open Scope Q_scope.

(* what ControlVariates.initialisation stored for one control *)
Inductive capture := CapImplied | CapOwn (lg : bool).

(* one control product object inside a ControlVariates object: its terms, its mutable state, its entry of _underlying_functions
   (None before the first initialisation: _underlying_functions = []) *)
Record ctl := { c_prod : product; c_st : state; c_cap : option capture }.

(* everything mutable: the main product object, the controls, the binding of MCPath.spot (MCPath.update) *)
Record sys := { s_main : state; s_ctls : list ctl; s_pm_log : bool }.

(* what one processed path leaves on the path manager: payoff, spot_underlying (when activated), payoff_control_variates *)
Record pathout := { po_main : out; po_spot : option Q; po_ctrl : list out }.

Inductive sop :=
| SUpdateMain (lg : bool)                                   (* product.update(rep) *)
| SUpdateCtrl (i : nat) (lg : bool)                         (* cv.products[i].update(rep) *)
| SUpdateCtrls (lg : bool)                                  (* for p in cv.products: p.update(rep)        (both engines) *)
| SInit                                                     (* cv.initialisation(type(product.payoff_underlying)) *)
| SUpdatePath (lg : bool)                                   (* path_manager.update(rep) *)
| SProcess (times det diff jump : list Q)                   (* MCPath.process: path = deterministic_path(times) + (diffusion + jump) *)
| SProcessL0 (times det diff jump : list Q)                 (* MLMCPath.process_l0 *)
| SProcessMLMC (times det diff_f jump_f diff_c jump_c : list Q).   (* MLMCPath.process: rows PT.FP / PT.CP of the 2 x n arrays *)

Definition is_process (o : sop) : bool :=
  match o with SProcess _ _ _ _ | SProcessL0 _ _ _ _ | SProcessMLMC _ _ _ _ _ _ => true | _ => false end.

(* self.deterministic_path(times) + self.stochastic_path.value() *)
Definition mkpath (det diff jump : list Q) : list Q := map2q Qplus det (map2q Qplus diff jump).

Section PathProcess.
  Variable expf logf : Q -> Q.

  (* Underlying.imply_from_payoff_underlying(type of the main underlying) on a control whose underlying is bound as in state s *)
  Definition init_capture (main_und : underlying) (c : product) (s : state) : capture :=
    if same_class (p_und c) main_und then CapImplied else CapOwn (uses_log s).

  (* the stored function called later, when the control is in state s: self.value is looked up at call time (lg0, the representation
     in force at initialisation, is recorded but no longer used) *)
  Definition captured_rep (u : underlying) (lg0 : bool) (s : state) : bool := uses_log s.
  (* ORIGINAL code (before 09f959e): the bound method was stored *)
  Definition captured_rep_orig (u : underlying) (lg0 : bool) (s : state) : bool :=
    match u with UAsian => uses_log s | _ => lg0 end.
  Definition captured_value (c : product) (cap : capture) (s : state) (main_u : uval) (t p j : list Q) : uval :=
    match cap with
    | CapImplied => main_u
    | CapOwn lg0 => und_value expf logf (p_und c) (captured_rep (p_und c) lg0 s) t p j
    end.

  (* product.process_path(times, path): the flag payoff.process leaves, computed in the product's CURRENT representation *)
  Definition ctrl_flag (c : product) (s : state) (p : list Q) : bool :=
    payoff_process (p_pay c) (if uses_log s then map expf p else p) (barrier_event s).
  Definition ctrl_step (c : product) (s : state) (p : list Q) : state :=
    {| barrier_event := ctrl_flag c s p; uses_log := uses_log s |}.
  (* product(value) after process_path *)
  Definition ctrl_out (c : product) (cap : capture) (s : state) (main_u : uval) (t p j : list Q) : out :=
    match captured_value c cap s main_u t p j with
    | UFin q => OutV (product_call (p_notional c) (payoff_eval (p_pay c) (ctrl_flag c s p)) q)
    | _ => OutNone
    end.

  (* ORIGINAL code (before 09f959e), for the recorded witness of F-C17-17 only *)
  Definition ctrl_out_orig (c : product) (cap : capture) (s : state) (main_u : uval) (t p j : list Q) : out :=
    match (match cap with
           | CapImplied => main_u
           | CapOwn lg0 => und_value expf logf (p_und c) (captured_rep_orig (p_und c) lg0 s) t p j
           end) with
    | UFin q => OutV (product_call (p_notional c) (payoff_eval (p_pay c) (ctrl_flag c s p)) q)
    | _ => OutNone
    end.

  (* one path through product.underlying_value; product(...); control_variates.process -- zip(self.products, payoff_underlyings)
     yields nothing while _underlying_functions is empty, but process_path runs for every control *)
  Definition one_path (pr : product) (pm_log activate : bool) (ms : state) (ctls : list ctl) (t p j : list Q) : state * list ctl * pathout :=
    let u := und_value expf logf (p_und pr) (uses_log ms) t p j in
    let ms' := fst (step expf logf pr ms (OpUnderlying t p j)) in
    let o := match u with UFin q => snd (step expf logf pr ms' (OpCall q)) | _ => OutNone end in
    (ms',
     map (fun c => {| c_prod := c_prod c; c_st := ctrl_step (c_prod c) (c_st c) p; c_cap := c_cap c |}) ctls,
     {| po_main := o;
        po_spot := if activate then Some (spot_value expf pm_log p) else None;
        po_ctrl := flat_map (fun c => match c_cap c with Some cap => [ctrl_out (c_prod c) cap (c_st c) u t p j] | None => [] end) ctls |}).

  Definition upd_ctl (lg : bool) (c : ctl) : ctl :=
    {| c_prod := c_prod c; c_st := fst (step expf logf (c_prod c) (c_st c) (OpUpdate lg)); c_cap := c_cap c |}.

  Fixpoint upd_nth (i : nat) (lg : bool) (l : list ctl) : list ctl :=
    match l, i with
    | [], _ => []                                            (* IndexError: outside the model *)
    | c :: r, O => upd_ctl lg c :: r
    | c :: r, S k => c :: upd_nth k lg r
    end.

  (* pr = the main product's terms, activate = configuration.activate_spot_statistics *)
  Definition sys_step (pr : product) (activate : bool) (x : sys) (o : sop) : sys * list pathout :=
    match o with
    | SUpdateMain lg => ({| s_main := fst (step expf logf pr (s_main x) (OpUpdate lg)); s_ctls := s_ctls x; s_pm_log := s_pm_log x |}, [])
    | SUpdateCtrl i lg => ({| s_main := s_main x; s_ctls := upd_nth i lg (s_ctls x); s_pm_log := s_pm_log x |}, [])
    | SUpdateCtrls lg => ({| s_main := s_main x; s_ctls := map (upd_ctl lg) (s_ctls x); s_pm_log := s_pm_log x |}, [])
    | SInit => ({| s_main := s_main x;
                   s_ctls := map (fun c => {| c_prod := c_prod c; c_st := c_st c;
                                              c_cap := Some (init_capture (p_und pr) (c_prod c) (c_st c)) |}) (s_ctls x);
                   s_pm_log := s_pm_log x |}, [])
    | SUpdatePath lg => ({| s_main := s_main x; s_ctls := s_ctls x; s_pm_log := lg |}, [])
    | SProcess t det diff jump | SProcessL0 t det diff jump =>     (* process_l0: the same valuation, stacked with a zero coarse column *)
        let r := one_path pr (s_pm_log x) activate (s_main x) (s_ctls x) t (mkpath det diff jump) jump in
        ({| s_main := fst (fst r); s_ctls := snd (fst r); s_pm_log := s_pm_log x |}, [snd r])
    | SProcessMLMC t det df jf dc jc =>
        (* fine: underlying_value, call; coarse: underlying_value, call; process_mlmc: functions, process_path, calls on the fine
           path, then on the coarse path -- the objects being distinct, that is one_path on the fine then on the coarse path *)
        let r1 := one_path pr (s_pm_log x) activate (s_main x) (s_ctls x) t (mkpath det df jf) jf in
        let r2 := one_path pr (s_pm_log x) activate (fst (fst r1)) (snd (fst r1)) t (mkpath det dc jc) jc in
        ({| s_main := fst (fst r2); s_ctls := snd (fst r2); s_pm_log := s_pm_log x |}, [snd r1; snd r2])
    end.

  Fixpoint sys_run (pr : product) (activate : bool) (x : sys) (ops : list sop) : sys * list (list pathout) :=
    match ops with
    | [] => (x, [])
    | o :: r => let xo := sys_step pr activate x o in
                let xr := sys_run pr activate (fst xo) r in (fst xr, snd xo :: snd xr)
    end.

  (* what both engines do before the first path: product.update(rep); cv products update(rep); cv.initialisation; path_manager.update(rep) *)
  Definition engine_protocol (lg : bool) : list sop := [SUpdateMain lg; SUpdateCtrls lg; SInit; SUpdatePath lg].

  (* the specification: every object FRESH, valued alone on the path with update(rep); underlying_value; call  (eval3 of Model/Payoff.v) *)
  Definition fresh_path_out (pr : product) (prods : list product) (lg activate : bool) (t p j : list Q) : pathout :=
    {| po_main := snd (eval3 expf logf pr fresh lg t p j);
       po_spot := if activate then Some (spot_value expf lg p) else None;
       po_ctrl := map (fun c => snd (eval3 expf logf c fresh lg t p j)) prods |}.
  Definition fresh_out (pr : product) (prods : list product) (lg activate : bool) (o : sop) : list pathout :=
    match o with
    | SProcess t det diff jump | SProcessL0 t det diff jump => [fresh_path_out pr prods lg activate t (mkpath det diff jump) jump]
    | SProcessMLMC t det df jf dc jc => [fresh_path_out pr prods lg activate t (mkpath det df jf) jf;
                                         fresh_path_out pr prods lg activate t (mkpath det dc jc) jc]
    | _ => []
    end.

  (* the specification when the objects are bound to DIFFERENT representations: each object fresh, valued alone in ITS OWN representation
     (lgm: main product, lgp: the path manager's Spot, one flag per control) *)
  Definition fresh_path_out_own (pr : product) (lgm lgp : bool) (cl : list (product * bool)) (activate : bool) (t p j : list Q) : pathout :=
    {| po_main := snd (eval3 expf logf pr fresh lgm t p j);
       po_spot := if activate then Some (spot_value expf lgp p) else None;
       po_ctrl := map (fun cb => snd (eval3 expf logf (fst cb) fresh (snd cb) t p j)) cl |}.
  Definition fresh_out_own (pr : product) (lgm lgp : bool) (cl : list (product * bool)) (activate : bool) (o : sop) : list pathout :=
    match o with
    | SProcess t det diff jump | SProcessL0 t det diff jump => [fresh_path_out_own pr lgm lgp cl activate t (mkpath det diff jump) jump]
    | SProcessMLMC t det df jf dc jc => [fresh_path_out_own pr lgm lgp cl activate t (mkpath det df jf) jf;
                                         fresh_path_out_own pr lgm lgp cl activate t (mkpath det dc jc) jc]
    | _ => []
    end.
  (* the (terms, current representation) of every control *)
  Definition ctl_reps (ctls : list ctl) : list (product * bool) := map (fun c => (c_prod c, uses_log (c_st c))) ctls.

  (* a ControlVariates object just built around fresh products *)
  Definition sys0 (prods : list product) : sys :=
    {| s_main := fresh; s_ctls := map (fun c => {| c_prod := c; c_st := fresh; c_cap := None |}) prods; s_pm_log := false |}.
End PathProcess.

(* correspondence only: outputs up to a tolerance *)
Definition optq_eqb (tol : Q) (a b : option Q) : bool :=
  match a, b with
  | None, None => true
  | Some x, Some y => Qle_bool (Qabs (x - y)) (tol * (1 + Qabs y))
  | _, _ => false
  end.
Fixpoint outl_eqb (tol : Q) (a b : list out) : bool :=
  match a, b with
  | [], [] => true
  | x :: r, y :: s => out_eqb tol x y && outl_eqb tol r s
  | _, _ => false
  end.
Definition pathout_eqb (tol : Q) (a b : pathout) : bool :=
  out_eqb tol (po_main a) (po_main b) && optq_eqb tol (po_spot a) (po_spot b) && outl_eqb tol (po_ctrl a) (po_ctrl b).
Fixpoint pathouts_eqb (tol : Q) (a b : list pathout) : bool :=
  match a, b with
  | [], [] => true
  | x :: r, y :: s => pathout_eqb tol x y && pathouts_eqb tol r s
  | _, _ => false
  end.
Fixpoint runouts_eqb (tol : Q) (a b : list (list pathout)) : bool :=
  match a, b with
  | [], [] => true
  | x :: r, y :: s => pathouts_eqb tol x y && runouts_eqb tol r s
  | _, _ => false
  end.

(* Model of the path builders of rpylib/process/levyprocess.py, process/markovchain/markovchain.py,
   process/coupling/couplingmarkovchain.py and of build_finer_grid (levyprocess.py and
   process/coupling/helper.py) over lists of Q (C15).
   Inputs are the consumed variates: per product interval the jump sizes (LevyProcess: model.jump_increment;
   Markov chain: grid values of the sampled state increments), the sorted jump-time offsets, the standard
   normals; np.sqrt enters as data (the list `sq` of the floats numpy returned for sqrt(dt)).
   Follows the tree with the fix commits for F-C15-3 (fixed-date simulators cumulate the interval totals), F-C15-4
   (chain_over_intervals: the per-interval chains are shifted by the end value of the previous intervals) and F-C15-1
   (refine_up_to_maturity: the maturity is refined together with the jump times). *)
From Coq Require Import ZArith QArith Qabs Bool List.
From RV Require Import Base.QB.
Import ListNotations.
Open Scope Q_scope.

(* np.cumsum *)
Fixpoint cumsum_from (acc : Q) (l : list Q) : list Q :=
  match l with
  | [] => []
  | x :: r => (acc + x) :: cumsum_from (acc + x) r
  end.
Definition cumsum (l : list Q) : list Q := cumsum_from 0 l.
Fixpoint qsum (l : list Q) : Q := match l with [] => 0 | x :: r => x + qsum r end.

Fixpoint map2 {A B C} (f : A -> B -> C) (l1 : list A) (l2 : list B) : list C :=
  match l1, l2 with
  | x :: r1, y :: r2 => f x y :: map2 f r1 r2
  | _, _ => []
  end.

(* ------------------------------------------------------------------ fixed product dates *)
(* SimulationFixedTimes.simulate_jumps (repaired): cumulated sums of the jump increments of each interval *)
Definition fixed_jump_path (intervals : list (list Q)) : list Q := 0 :: cumsum (map qsum intervals).

(* MCSimulationFixedTimes.project (repaired): per interval the last value of the chain restarted at the
   origin (helper_simulate_markov_chain: np.cumsum of the grid values), 0 if the interval has no jump *)
Definition chain_total (slice : list Q) : Q := last (cumsum slice) 0.
Definition mc_fixed_jump_path (intervals : list (list Q)) : list Q := 0 :: cumsum (map chain_total intervals).

(* simulate_diffusion: np.cumsum((sqrt_dts * sigma) * w), leading 0 *)
Definition diffusion_path (sq : list Q) (sigma : Q) (ws : list Q) : list Q :=
  0 :: cumsum (map2 (fun s w => (s * sigma) * w) sq ws).

(* ------------------------------------------------------------------ jump times *)
(* new_jumps = tm + offsets for each interval, appended *)
Definition jump_times_of (tms : list Q) (offsets : list (list Q)) : list Q :=
  concat (map2 (fun tm offs => map (Qplus tm) offs) tms offsets).

(* SimulationWithJumpTimes.simulate_jumps: np.cumsum over all increments *)
Definition levy_jump_values (incs : list (list Q)) : list Q := cumsum (concat incs).
(* MCSimulationWithJumpTimes.simulate_jumps (repaired): chain_over_intervals - each interval's chain (np.cumsum from the
   origin) is shifted by the end value of the previous intervals; empty intervals are skipped *)
Fixpoint chain_running (level : Q) (incs : list (list Q)) : list Q :=
  match incs with
  | [] => []
  | inc :: r => let piece := map (Qplus level) (cumsum inc) in piece ++ chain_running (last piece level) r
  end.
Definition mc_jump_values (incs : list (list Q)) : list Q := chain_running 0 incs.

(* add t = 0 and t = maturity; the last value is repeated at maturity (0 without jumps) *)
Definition assemble_times (T : Q) (times : list Q) : list Q := 0 :: times ++ [T].
Definition assemble_values (vals : list Q) : list Q := 0 :: vals ++ [last vals 0].

(* np.diff(x, prepend=0) *)
Fixpoint gaps_from (prev : Q) (l : list Q) : list Q :=
  match l with [] => [] | t :: r => (t - prev) :: gaps_from t r end.
Definition gaps (l : list Q) : list Q := gaps_from 0 l.

(* ------------------------------------------------------------------ build_finer_grid *)
Section Finer.
  Context {V : Type}.
  Variable zero : V.                  (* np.where(positions == 0, 0, ...) *)

  (* one pass of the while loop: before every gap > eps an eps-gap carrying the value of the
     preceding point is inserted and the gap is shortened by eps *)
  Fixpoint round (eps : Q) (pv : V) (l : list (Q * V)) : list (Q * V) :=
    match l with
    | [] => []
    | (dt, v) :: r =>
        if Qltb eps dt then (eps, pv) :: (dt - eps, v) :: round eps v r
        else (dt, v) :: round eps v r
    end.

  Definition has_long (eps : Q) (l : list (Q * V)) : bool := existsb (fun x => Qltb eps (fst x)) l.

  (* while positions.size > 0 (fuel = maximal number of passes) *)
  Fixpoint refine (fuel : nat) (eps : Q) (l : list (Q * V)) : list (Q * V) :=
    match fuel with
    | O => l
    | S f => if has_long eps l then refine f eps (round eps zero l) else l
    end.

  (* _build_finer_grid: gaps, loop, times = np.cumsum(gaps) *)
  Definition finer_grid (fuel : nat) (eps : Q) (times : list Q) (vals : list V) : list Q * list V :=
    let l := refine fuel eps (combine (gaps times) vals) in
    (cumsum (map fst l), map snd l).

  (* create_build_finer_grid_fun: the identity when epsilon >= maturity *)
  Definition build_finer_grid (fuel : nat) (eps T : Q) (times : list Q) (vals : list V) : list Q * list V :=
    if Qle_bool T eps then (times, vals) else finer_grid fuel eps times vals.
End Finer.

(* refine_up_to_maturity (repaired SimulationMaximumStep.simulate_jumps): the maturity is appended with the last value
   (0 without jumps), refined together with the jump times and removed again *)
Definition refine_to_maturity {V : Type} (zero : V) (fuel : nat) (eps T : Q) (times : list Q) (vals : list V) : list Q * list V :=
  let tv := build_finer_grid zero fuel eps T (times ++ [T]) (vals ++ [last vals zero]) in
  (removelast (fst tv), removelast (snd tv)).

(* ... + simulate_one_path: t = 0 and the maturity are added *)
Definition capped_path (fuel : nat) (eps T : Q) (times vals : list Q) : list Q * list Q :=
  let tv := refine_to_maturity 0 fuel eps T times vals in
  (assemble_times T (fst tv), assemble_values (snd tv)).

(* coupled (helper.py): one list of gaps, the fine and the coarse values are inserted at the same positions *)
Definition coupled_finer_grid (fuel : nat) (eps T : Q) (times : list Q) (fine coarse : list Q)
  : list Q * list Q * list Q :=
  let r := build_finer_grid (0, 0) fuel eps T times (combine fine coarse) in
  (fst r, map fst (snd r), map snd (snd r)).
Definition coupled_refine_to_maturity (fuel : nat) (eps T : Q) (times : list Q) (fine coarse : list Q)
  : list Q * list Q * list Q :=
  let r := coupled_finer_grid fuel eps T (times ++ [T]) (fine ++ [last fine 0]) (coarse ++ [last coarse 0]) in
  match r with (t, f, c) => (removelast t, removelast f, removelast c) end.

(* ------------------------------------------------------------------ whole paths (for the correspondence) *)
(* LevyProcess / MarkovChainProcess with fixed dates: (times, diffusion, jumps) *)
Definition fixed_path (chain : bool) (sq : list Q) (sigma : Q) (ws : list Q) (intervals : list (list Q)) : list Q * list Q :=
  (diffusion_path sq sigma ws, if chain then mc_fixed_jump_path intervals else fixed_jump_path intervals).

(* jump times, optional cap: returns (times, jump path) - the diffusion needs sqrt of the returned gaps (data) *)
Definition jump_path (chain : bool) (cap : option Q) (fuel : nat) (T : Q) (tms : list Q) (offsets incs : list (list Q))
  : list Q * list Q :=
  let times := jump_times_of tms offsets in
  let vals := if chain then mc_jump_values incs else levy_jump_values incs in
  match cap with
  | None => (assemble_times T times, assemble_values vals)
  | Some eps => capped_path fuel eps T times vals
  end.

(* coupled, jump times: fine and coarse chains carried over the product dates (chain_over_intervals) *)
Definition coupled_jump_path (cap : option Q) (fuel : nat) (T : Q) (tms : list Q) (offsets fincs cincs : list (list Q))
  : list Q * list Q * list Q :=
  let times := jump_times_of tms offsets in
  let fine := mc_jump_values fincs in
  let coarse := mc_jump_values cincs in
  let '(t, f, c) := match cap with
                    | Some eps => coupled_refine_to_maturity fuel eps T times fine coarse
                    | None => (times, fine, coarse)
                    end in
  (assemble_times T t, assemble_values f, assemble_values c).

Definition qlist_tol_eqb (tol : Q) (a b : list Q) : bool :=
  (fix go (a b : list Q) := match a, b with
     | [], [] => true
     | x :: r, y :: s => Qle_bool (Qabs (x - y)) tol && go r s
     | _, _ => false end) a b.

(* n-d (d = 2, 3, ...) model of the Levy-copula path builders (C15, wave 5):
     rpylib/process/markovchain/markovchainlevycopula.py  MCLevyCopulaSimulation{FixedTimes,WithJumpTimes,MaximumStep}
     rpylib/process/coupling/couplinglevycopula.py        CouplingLevyCopulaSimulation{FixedTimes,WithJumpTimes,MaximumStep}
   A path value is a d-vector (list Q); an array of shape (d, n) is modelled by its n COLUMNS (list of d-vectors), a coupled
   (2, d, n) array by the pair of column lists (fine, coarse).  Inputs are the consumed variates: per product interval the grid
   values of the sampled fine state increments (d-vectors), the values returned by __coupling_state (d-vectors), the uniforms of
   jump_times_from_nb_of_jumps, the standard normals (one d-vector per time step), the diffusion matrix (data: scipy sqrtm),
   np.sqrt of the time steps (data).  Follows /repo HEAD (with the repairs F-C15-2/4/6/7/8).
   One coupling state per fine state (_coupling_states_for_a_slice), so the guard `if slice_fine_states:` of the coupled
   simulators is the emptiness of the coarse slice as well; grid.origin is the zero vector (grid/spatial.py:43-46). *)
From Coq Require Import ZArith QArith Qabs Bool List.
From RV Require Import Base.QB Model.Paths.
Import ListNotations.
Open Scope Q_scope.

Definition vec := list Q.
Definition vzero (d : nat) : vec := repeat 0 d.
Definition vadd (a b : vec) : vec := map2 Qplus a b.
Definition comp (k : nat) (v : vec) : Q := nth k v 0.

(* np.cumsum(values, axis=0) of the rows grid[origin + increment]  /  current_value += coupling_state; copy *)
Fixpoint vcumsum_from (acc : vec) (l : list vec) : list vec :=
  match l with
  | [] => []
  | x :: r => vadd acc x :: vcumsum_from (vadd acc x) r
  end.

(* helper_simulate_levy_copula_markov_chain / _coupling_states_for_a_slice: the chain of ONE product interval, restarted at the origin *)
Definition nd_slice_chain (d : nat) (incs : list vec) : list vec := vcumsum_from (vzero d) incs.
(* sliceStates[-1] if sliceStates.size else zero *)
Definition nd_chain_total (d : nat) (slice : list vec) : vec := last (nd_slice_chain d slice) (vzero d).

(* ------------------------------------------------------------------ fixed product dates *)
(* MCLevyCopulaSimulationFixedTimes.project (np.cumsum(definitive_values, axis=0).T) + simulate_one_path (hstack of the zero column) *)
Definition nd_fixed_jump_path (d : nat) (intervals : list (list vec)) : list vec :=
  vzero d :: vcumsum_from (vzero d) (map (nd_chain_total d) intervals).

(* CouplingLevyCopulaSimulationFixedTimes.simulate_jumps_with_coupling: column 0 stays zero, column k+1 = last value of the
   interval's chain (fine: of the grid values; coarse: of the coupling states), then np.cumsum(..., axis=1) over ALL columns *)
Definition nd_coupled_fixed_component (d : nat) (intervals : list (list vec)) : list vec :=
  vcumsum_from (vzero d) (vzero d :: map (nd_chain_total d) intervals).
Definition nd_coupled_fixed_jump_paths (d : nat) (fine coarse : list (list vec)) : list vec * list vec :=
  (nd_coupled_fixed_component d fine, nd_coupled_fixed_component d coarse).

(* ------------------------------------------------------------------ diffusion *)
Definition dot (a b : vec) : Q := qsum (map2 Qmult a b).
Definition matvec (m : list vec) (v : vec) : vec := map (fun row => dot row v) m.
(* helper_simulate_diffusion_part / simulate_diffusion_with_coupling: np.cumsum(sqrt_dts * (diffusion_matrix @ W), axis=1), zero column
   in front; wcols = the columns of the (d, n) array of normals *)
Definition nd_diffusion_steps (dm : list vec) (sq : list Q) (wcols : list vec) : list vec :=
  map2 (fun s w => map (Qmult s) (matvec dm w)) sq wcols.
Definition nd_diffusion_path (d : nat) (dm : list vec) (sq : list Q) (wcols : list vec) : list vec :=
  vzero d :: vcumsum_from (vzero d) (nd_diffusion_steps dm sq wcols).

(* ------------------------------------------------------------------ jump times *)
(* LevyProcess.jump_times_from_nb_of_jumps: np.sort(dt * np.random.random_sample(n)) - insertion sort of the scaled uniforms *)
Fixpoint qinsert (x : Q) (l : list Q) : list Q :=
  match l with
  | [] => [x]
  | y :: r => if Qle_bool x y then x :: l else y :: qinsert x r
  end.
Definition qsort (l : list Q) : list Q := fold_right qinsert [] l.
Definition offsets_of_uniforms (dt : Q) (us : list Q) : list Q := qsort (map (Qmult dt) us).
(* MCLevyCopulaSimulationWithJumpTimes.simulate_markov_chain: for (tp, tm) in zip(times[1:], times): sorted offsets of dt = tp - tm, + tm *)
Definition real_jump_times (dates : list Q) (uniforms : list (list Q)) : list Q :=
  jump_times_of dates (map2 (fun dt us => offsets_of_uniforms dt us) (gaps_from (hd 0 dates) (tl dates)) uniforms).

(* chain_over_intervals on (n_k, d) arrays: each interval's chain is shifted by the end value of the previous intervals *)
Fixpoint nd_chain_running (d : nat) (level : vec) (incs : list (list vec)) : list vec :=
  match incs with
  | [] => []
  | inc :: r => let piece := map (vadd level) (nd_slice_chain d inc) in piece ++ nd_chain_running d (last piece level) r
  end.
Definition nd_jump_values (d : nat) (incs : list (list vec)) : list vec := nd_chain_running d (vzero d) incs.

(* simulate_one_path / simulate_one_path_with_coupling: zero column, the jump columns, the last column again (zeros(d, 2) without jumps) *)
Definition nd_assemble_values (d : nat) (vals : list vec) : list vec := vzero d :: vals ++ [last vals (vzero d)].

(* MCLevyCopulaSimulationMaximumStep.simulate_jumps: refine_up_to_maturity(build_finer_grid (levyprocess.py), ..., empty_shape=(d,)) *)
Definition nd_capped_path (d : nat) (fuel : nat) (eps T : Q) (times : list Q) (vals : list vec) : list Q * list vec :=
  let tv := refine_to_maturity (vzero d) fuel eps T times vals in
  (assemble_times T (fst tv), nd_assemble_values d (snd tv)).

(* MarkovChainLevyCopula.simulate_one_path, jump times with optional cap *)
Definition nd_jump_path (d : nat) (cap : option Q) (fuel : nat) (T : Q) (times : list Q) (incs : list (list vec)) : list Q * list vec :=
  let vals := nd_jump_values d incs in
  match cap with
  | None => (assemble_times T times, nd_assemble_values d vals)
  | Some eps => nd_capped_path d fuel eps T times vals
  end.

(* ------------------------------------------------------------------ coupled: helper.py build_finer_grid for any value type *)
Section CoupledV.
  Context {V : Type}.
  Variable zero : V.
  (* one list of gaps; fine and coarse values inserted by two np.insert calls at the same positions *)
  Definition coupled_finer_grid_v (fuel : nat) (eps T : Q) (times : list Q) (fine coarse : list V) : list Q * list V * list V :=
    let r := build_finer_grid (zero, zero) fuel eps T times (combine fine coarse) in
    (fst r, map fst (snd r), map snd (snd r)).
  (* refine_up_to_maturity(build_finer_grid, maturity, jump_times, fine, coarse, empty_shape) *)
  Definition coupled_refine_to_maturity_v (fuel : nat) (eps T : Q) (times : list Q) (fine coarse : list V) : list Q * list V * list V :=
    let r := coupled_finer_grid_v fuel eps T (times ++ [T]) (fine ++ [last fine zero]) (coarse ++ [last coarse zero]) in
    match r with (t, f, c) => (removelast t, removelast f, removelast c) end.
End CoupledV.

(* CouplingLevyCopulaSimulation{WithJumpTimes,MaximumStep}.simulate_one_path_with_coupling: (times, fine columns, coarse columns) *)
Definition nd_coupled_jump_path (d : nat) (cap : option Q) (fuel : nat) (T : Q) (times : list Q) (fincs cincs : list (list vec))
  : list Q * list vec * list vec :=
  let fine := nd_jump_values d fincs in
  let coarse := nd_jump_values d cincs in
  let '(t, f, c) := match cap with
                    | Some eps => coupled_refine_to_maturity_v (vzero d) fuel eps T times fine coarse
                    | None => (times, fine, coarse)
                    end in
  (assemble_times T t, nd_assemble_values d f, nd_assemble_values d c).

(* comparison of column lists with a tolerance (diffusion) *)
Definition vlist_tol_eqb (tol : Q) (a b : list vec) : bool :=
  (fix go (a b : list vec) := match a, b with
     | [], [] => true
     | x :: r, y :: s => qlist_tol_eqb tol x y && go r s
     | _, _ => false end) a b.

(* Hand-written part of the model of rpylib/product/{underlying,payoff,product}.py (C17).
   The payoff `evaluate` bodies and Product.__call__ are in Gen/GenC17Payoff.v (regenerated from the
   source by py2coq); here: the underlyings (loops / numpy code) and the product-object state machine.
   Paths are 1-d lists of Q (numpy 1-d arrays); np.exp / np.log are the Section variables expf/logf
   (the correspondence instantiates them with the table of the floats numpy returned).
   Follows the tree with the fix commits of branch fix-paths:
     Barrier.process resets barrier_event, Underlying.update switches back from LOG,
     Asian.value takes the spot at every averaging date, Product.underlying_value hands exp(path) to
     payoff.process in the LOG representation. *)
From Coq Require Import ZArith QArith Qminmax Qabs Bool List.
From RV Require Import Base.QB Gen.GenC17Payoff.
Import ListNotations.
Open Scope Q_scope.

(* value of an underlying: a number, np.inf (DefaultTime without default), or UErr where Python raises /
   returns nan (average over a grid ending at time 0, n-th default with n above the number of names) *)
Inductive uval := UFin (q : Q) | UInf | UErr.

(* order of default times; UErr never occurs among them and is placed with np.inf *)
Definition uval_leb (x y : uval) : bool :=
  match x, y with
  | UFin a, UFin b => Qle_bool a b
  | _, UFin _ => false
  | _, _ => true
  end.

Definition uval_le (x y : uval) : Prop :=
  match x, y with
  | UFin a, UFin b => a <= b
  | _, UFin _ => False
  | _, _ => True
  end.

Definition uval_eqb (x y : uval) : bool :=
  match x, y with
  | UInf, UInf => true
  | UErr, UErr => true
  | UFin a, UFin b => Qeq_bool a b
  | _, _ => false
  end.

(* np.diff of a 1-d array *)
Fixpoint diffq (l : list Q) : list Q :=
  match l with
  | x :: r => match r with y :: _ => (y - x) :: diffq r | [] => [] end
  | [] => []
  end.

(* np.min(np.argwhere(d < a)) : first index whose entry is below a *)
Fixpoint first_below (a : Q) (d : list Q) (i : nat) : option nat :=
  match d with
  | [] => None
  | x :: r => if Qltb x a then Some i else first_below a r (S i)
  end.

(* DefaultTime._value_log(times, path, jump_path): jump_path holds the LOG of the pure-jump path *)
Definition default_time_log (a : Q) (times jumps : list Q) : uval :=
  match first_below a (diffq jumps) 0 with
  | Some i => UFin (nth (S i) times 0)
  | None => UInf
  end.

(* insertion sort of default times (np.argpartition + amax of the k+1 smallest = (k+1)-th smallest) *)
Fixpoint uval_insert (x : uval) (l : list uval) : list uval :=
  match l with
  | [] => [x]
  | y :: r => if uval_leb x y then x :: l else y :: uval_insert x r
  end.
Definition uval_sort (l : list uval) : list uval := fold_right uval_insert [] l.

(* _DefaultTimes._value_log: one default time per underlying (rows of the d x n log-jump array) *)
Definition default_times_log (levels : list Q) (times : list Q) (jumps : list (list Q)) : list uval :=
  map (fun ar => default_time_log (fst ar) times (snd ar)) (combine levels jumps).

(* NthDefaultTimes._value_log with self._k = k (index - 1); np.argpartition raises for k >= number of names *)
Definition nth_default_log (k : nat) (levels : list Q) (times : list Q) (jumps : list (list Q)) : uval :=
  nth k (uval_sort (default_times_log levels times jumps)) UErr.

(* Barrier.__barrier_event_down / _up (repaired): flag := False, then True at the first crossing *)
Definition crosses (down : bool) (barrier : Q) (path : list Q) : bool :=
  existsb (fun v => if down then Qltb v barrier else Qltb barrier v) path.

Section Representation.
  Variable expf logf : Q -> Q.           (* np.exp, np.log *)

  Definition lastq (l : list Q) : Q := last l 0.

  (* Spot.value (uses_log = false) / Spot._value_log (uses_log = true): path[..., -1] *)
  Definition spot_of (uses_log : bool) (v : Q) : Q := if uses_log then expf v else v.
  Definition spot_value (uses_log : bool) (path : list Q) : Q := spot_of uses_log (lastq path).

  (* Asian.value (repaired): for k, t in enumerate(times): val = spot(path[..., :k+1]);
       last_t, res = t, res + val * (t - last_t);   return res / last_t *)
  Fixpoint asian_acc (uses_log : bool) (tp : list (Q * Q)) (last_t res : Q) : Q * Q :=
    match tp with
    | [] => (last_t, res)
    | (t, v) :: r => asian_acc uses_log r t (res + spot_of uses_log v * (t - last_t))
    end.
  Definition asian_value (uses_log : bool) (times path : list Q) : Q :=
    let lr := asian_acc uses_log (combine times path) 0 0 in snd lr / fst lr.
  (* res / last_t with last_t = 0 is nan (ZeroDivisionError for an empty grid) *)
  Definition asian_uval (uses_log : bool) (times path : list Q) : uval :=
    if Qeq_bool (fst (asian_acc uses_log (combine times path) 0 0)) 0 then UErr else UFin (asian_value uses_log times path).

  (* LogSpot.value = np.log(path[..., -1]) / LogSpot._value_log = path[..., -1] *)
  Definition logspot_value (uses_log : bool) (path : list Q) : Q := if uses_log then lastq path else logf (lastq path).

  (* DefaultTime.value = _value_log after np.log(jump_path); after update(LOG) value = _value_log *)
  Definition default_time (uses_log : bool) (a : Q) (times jumps : list Q) : uval :=
    default_time_log a times (if uses_log then jumps else map logf jumps).

  Definition nth_default (uses_log : bool) (k : nat) (levels times : list Q) (jumps : list (list Q)) : uval :=
    nth_default_log k levels times (if uses_log then jumps else map (map logf) jumps).

  (* ---------------- the product object ---------------- *)
  Inductive payoff :=
  | PForward (k : Q)
  | PVanilla (cp k : Q)                         (* cp = +1 call, -1 put *)
  | PCallSpread (k1 k2 : Q)
  | PButterfly (k1 k2 k3 : Q)
  | PDigital (is_call : bool) (k : Q)
  | PBarrier (cp k : Q) (knock_in down : bool) (barrier : Q).

  Inductive underlying := USpot | UAsian | UDefaultTime (a : Q) | ULogSpot.    (* Libors.value is Spot.value *)

  Record product := { p_und : underlying; p_pay : payoff; p_notional : Q }.

  (* mutable state of a Product object: Barrier.barrier_event and the binding of Underlying.value *)
  Record state := { barrier_event : bool; uses_log : bool }.
  Definition fresh : state := {| barrier_event := false; uses_log := false |}.

  (* payoff.process(times, path): only Barrier overrides it *)
  Definition payoff_process (p : payoff) (path : list Q) (ev : bool) : bool :=
    match p with
    | PBarrier _ _ _ down b => crosses down b path
    | _ => ev
    end.

  (* payoff.evaluate(underlying) *)
  Definition payoff_eval (p : payoff) (ev : bool) (u : Q) : Q :=
    match p with
    | PForward k => forward_eval k u
    | PVanilla cp k => vanilla_eval cp k u
    | PCallSpread k1 k2 => callspread_eval k1 k2 u
    | PButterfly k1 k2 k3 => butterfly_eval k1 k2 k3 u
    | PDigital c k => digital_eval c k u
    | PBarrier cp k true _ _ => knockin_eval ev cp k u
    | PBarrier cp k false _ _ => knockout_eval ev cp k u
    end.

  Definition und_value (u : underlying) (lg : bool) (times path jumps : list Q) : uval :=
    match u with
    | USpot => UFin (spot_value lg path)
    | UAsian => asian_uval lg times path
    | UDefaultTime a => default_time lg a times jumps
    | ULogSpot => UFin (logspot_value lg path)
    end.

  Inductive op :=
  | OpUpdate (lg : bool)                         (* Product.update(representation) *)
  | OpUnderlying (times path jumps : list Q)     (* Product.underlying_value(times, path, jump_path) *)
  | OpCall (u : Q).                              (* Product.__call__(underlying) *)

  Inductive out := OutNone | OutU (v : uval) | OutV (q : Q).

  Definition step (pr : product) (s : state) (o : op) : state * out :=
    match o with
    | OpUpdate lg => ({| barrier_event := barrier_event s; uses_log := lg |}, OutNone)
    | OpUnderlying t p j =>
        (* payoff.process(times, spot_path): exp(path) in the LOG representation (Product remembers the representation) *)
        ({| barrier_event := payoff_process (p_pay pr) (if uses_log s then map expf p else p) (barrier_event s); uses_log := uses_log s |},
         OutU (und_value (p_und pr) (uses_log s) t p j))
    | OpCall u => (s, OutV (product_call (p_notional pr) (payoff_eval (p_pay pr) (barrier_event s)) u))
    end.

  Fixpoint run (pr : product) (s : state) (ops : list op) : state * list out :=
    match ops with
    | [] => (s, [])
    | o :: r => let so := step pr s o in
                let sr := run pr (fst so) r in (fst sr, snd so :: snd sr)
    end.

  (* update(rep); u = underlying_value(times, path, jumps); product(u)   -- the observation of C17 *)
  Definition eval3 (pr : product) (s : state) (lg : bool) (t p j : list Q) : out * out :=
    let s1 := fst (step pr s (OpUpdate lg)) in
    let s2u := step pr s1 (OpUnderlying t p j) in
    match snd s2u with
    | OutU (UFin q) => (snd s2u, snd (step pr (fst s2u) (OpCall q)))
    | o => (o, OutNone)
    end.
End Representation.

(* np.exp / np.log as data: association table, default 0 (correspondence only) *)
Fixpoint qlookup (tbl : list (Q * Q)) (x : Q) : Q :=
  match tbl with
  | [] => 0
  | (k, v) :: r => if Qeq_bool k x then v else qlookup r x
  end.

Definition out_eqb (tol : Q) (a b : out) : bool :=
  match a, b with
  | OutNone, OutNone => true
  | OutU UInf, OutU UInf => true
  | OutU UErr, OutU UErr => true
  | OutU (UFin x), OutU (UFin y) => Qle_bool (Qabs (x - y)) (tol * (1 + Qabs y))
  | OutV x, OutV y => Qle_bool (Qabs (x - y)) (tol * (1 + Qabs y))
  | _, _ => false
  end.

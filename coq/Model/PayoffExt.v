(* C17 (wave 5): hand-written models of the classes that rpylib/product never instantiates in its tests:
     payoffs      Ratchet.evaluate (loop), CDS.evaluate on np.inf (the finite case is generated: Gen/GenC17Exotic.cds_eval);
     underlyings  on d x n paths (list of rows): Spot/Libors (vector of last spots), Mean, Performances,
                  MaximumOfPerformances, NthSpot, Indicators, in both process representations;
     Underlying.imply_from_payoff_underlying (the short cut ControlVariates.initialisation installs).
   The bodies of Rainbow/CDS/Bond/Cap/Swaption/FixedCoupon.evaluate are regenerated from the source (Gen/GenC17Exotic.v).
   expf/logf stand for np.exp / np.log / math.exp (Section variables; tables in the correspondence). *)
From Coq Require Import ZArith QArith Qminmax Qabs Bool List.
From RV Require Import Base.QB Model.PayoffVec Gen.GenC17Payoff Gen.GenC17Exotic Model.Payoff.
Import ListNotations.
Open Scope Q_scope.

(* ---------------------------------------------------------------- Ratchet.evaluate
     adj = np.cumprod(1 + self.deltas * underlying_rates)
     c_previous = self.first_rate
     for k, (libor, delta) in enumerate(zip(underlying_rates, self.deltas)):
         aux = delta * (libor + self.spread)
         c[k] = c_previous = min(max(aux, c_previous), c_previous + self.increment)
     funding_leg = self.deltas * (self.gearing * underlying_rates + self.margin)
     return np.sum((c - funding_leg) * adj[::-1])                                              *)
Fixpoint ratchet_coupons (spread incr c_prev : Q) (rates deltas : list Q) : list Q :=
  match rates, deltas with
  | libor :: rs, delta :: ds =>
      let c := Qminb (Qmaxb (delta * (libor + spread)) c_prev) (c_prev + incr) in
      c :: ratchet_coupons spread incr c rs ds
  | _, _ => []
  end.

Definition ratchet_eval (deltas : list Q) (gearing margin spread incr first_rate : Q) (rates : list Q) : Q :=
  let adj := cumprod (accruals deltas rates) in
  let c := ratchet_coupons spread incr first_rate rates deltas in
  let funding := map2q (fun d l => d * (gearing * l + margin)) deltas rates in
  dotq (map2q Qminus c funding) (rev adj).

(* ---------------------------------------------------------------- CDS.evaluate on a default time (a number or np.inf)
   np.inf > T is True (default leg 0) and min(T, np.inf) = T *)
Definition cds_inf (spread T r df_T : Q) (df : Q -> Q) : Q :=
  (0 / df_T) - ((spread * (1 - df T)) / r) / df_T.

Definition cds_uval (recovery spread T r df_T : Q) (df : Q -> Q) (tau : uval) : option Q :=
  match tau with
  | UFin t => Some (cds_eval recovery spread T r df_T df t)
  | UInf => Some (cds_inf spread T r df_T df)
  | UErr => None
  end.

(* ---------------------------------------------------------------- underlyings on d x n paths (rows = names) *)
Section Rep2.
  Variable expf logf : Q -> Q.

  Definition lasts (path : list (list Q)) : list Q := map lastq path.                      (* path[..., -1] *)

  (* Spot.value / Libors.value on a (d, n) path: the vector of last spots (np.exp of it under LOG) *)
  Definition spot_vec (lg : bool) (path : list (list Q)) : list Q := map (spot_of expf lg) (lasts path).

  (* Mean.value: np.mean(self._spot.value(...)); Mean.update only re-binds the inner Spot *)
  Definition mean_value (lg : bool) (path : list (list Q)) : Q :=
    qsum (spot_vec lg path) / inject_Z (Z.of_nat (length path)).
  Definition mean_uval (lg : bool) (path : list (list Q)) : uval :=
    match path with [] => UErr | _ => UFin (mean_value lg path) end.                       (* mean of an empty array: nan *)

  (* Performances.value = path[..., -1] / spots;  _value_log = np.exp(path[..., -1] - np.log(spots)) *)
  Definition perf_value (lg : bool) (spots : list Q) (path : list (list Q)) : list Q :=
    if lg then map2q (fun v s => expf (v - logf s)) (lasts path) spots
    else map2q Qdiv (lasts path) spots.

  (* Python's max over a sequence: the first maximal element *)
  Definition qmax_list (l : list Q) : uval :=
    match l with
    | [] => UErr                                                                           (* ValueError *)
    | x :: r => UFin (fold_left (fun m y => if Qltb m y then y else m) r x)
    end.

  (* MaximumOfPerformances.value = max(path[..., -1] / spots);  _value_log = exp(max(path[..., -1] - log_spots)) *)
  Definition maxperf_value (lg : bool) (spots : list Q) (path : list (list Q)) : uval :=
    if lg then match qmax_list (map2q (fun v s => v - logf s) (lasts path) spots) with
               | UFin m => UFin (expf m)
               | o => o
               end
    else qmax_list (map2q Qdiv (lasts path) spots).

  (* NthSpot(index).value = path[index - 1, -1]  (k = index - 1);  np.exp of it under LOG; IndexError beyond the rows *)
  Definition nthspot_value (lg : bool) (k : nat) (path : list (list Q)) : uval :=
    match nth_error (lasts path) k with
    | Some v => UFin (spot_of expf lg v)
    | None => UErr
    end.

  (* Indicators.value = 1 if np.all(path[..., -1] > thresholds) else 0   (np.exp(path[..., -1]) under LOG: repaired tree) *)
  Fixpoint all_above (vals thresholds : list Q) : bool :=
    match vals, thresholds with
    | v :: vs, t :: ts => Qltb t v && all_above vs ts
    | _, _ => true
    end.
  Definition indicators_value (lg : bool) (thresholds : list Q) (path : list (list Q)) : Q :=
    if all_above (spot_vec lg path) thresholds then 1 else 0.

  (* ------------------------------------------------------------ vector underlyings through the payoffs that broadcast
     Forward / Vanilla .evaluate on the vector of last spots: np.maximum and - act componentwise *)
  Definition forward_vec (k : Q) (u : list Q) : list Q := map (forward_eval k) u.
  Definition vanilla_vec (cp k : Q) (u : list Q) : list Q := map (vanilla_eval cp k) u.

  (* Barrier.process on a (d, n) path: np.any over ALL entries *)
  Definition crosses2 (down : bool) (barrier : Q) (path : list (list Q)) : bool :=
    existsb (crosses down barrier) path.

  (* ------------------------------------------------------------ Underlying.imply_from_payoff_underlying
     if isinstance(self, payoff_underlying_type): return lambda ...: payoff_underlying      else: return self.value
     NthSpot overrides it: payoff_underlying_type is Spot -> payoff_underlying[self.index - 1] *)
  Definition nthspot_implied (k : nat) (main_spot_vec : list Q) : uval :=
    match nth_error main_spot_vec k with Some v => UFin v | None => UErr end.
End Rep2.

(* ---------------------------------------------------------------- ControlVariates.initialisation / process, one control product
   initialisation(type(main underlying)) (called by the engines after the update() calls):
       fun = (lambda ...: payoff_underlying) if isinstance(control underlying, main type) else control_underlying.value
   process(times, path, jump_path, payoff_underlying):
       u = fun(times, path, jump_path, payoff_underlying); product.process_path(times, path); product(u)                     *)
Section CV.
  Variable expf logf : Q -> Q.

  Definition same_class (a b : underlying) : bool :=
    match a, b with
    | USpot, USpot | UAsian, UAsian | ULogSpot, ULogSpot | UDefaultTime _, UDefaultTime _ => true
    | _, _ => false
    end.

  (* s = state of the control product when process is called (flag left by earlier paths), lg = representation of the process;
     main_u = the main product's underlying value handed over by MCPath.process *)
  Definition cv_value_given (ctrl : product) (main_und : underlying) (main_u : uval) (s : state) (lg : bool) (t p j : list Q) : out :=
    let u := if same_class (p_und ctrl) main_und then main_u else und_value expf logf (p_und ctrl) lg t p j in
    match u with
    | UFin q => OutV (product_call (p_notional ctrl)
                        (payoff_eval (p_pay ctrl) (payoff_process (p_pay ctrl) (if lg then map expf p else p) (barrier_event s))) q)
    | _ => OutNone
    end.

  Definition cv_value (ctrl : product) (main_und : underlying) (s : state) (lg : bool) (t p j : list Q) : out :=
    cv_value_given ctrl main_und (und_value expf logf main_und lg t p j) s lg t p j.
End CV.

(* C17 (wave 5): numpy vector primitives used by the py2coq-generated bodies of the multi-underlying / rates / credit
   payoffs (Gen/GenC17Exotic.v: Rainbow, CDS, Bond, Cap, Swaption, FixedCoupon .evaluate) and by the hand models of
   Model/PayoffExt.v.  1-d numpy arrays are lists of Q; operands of an elementwise product are assumed equally long
   (numpy raises on a broadcast mismatch, the list functions truncate: outside the model, excluded by hypotheses). *)
From Coq Require Import ZArith QArith Qminmax Qabs Bool List.
From RV Require Import Base.QB.
Import ListNotations.
Open Scope Q_scope.

(* np.sort of a 1-d array (ascending) *)
Fixpoint qinsert (x : Q) (l : list Q) : list Q :=
  match l with
  | [] => [x]
  | y :: r => if Qle_bool x y then x :: l else y :: qinsert x r
  end.
Definition qsort (l : list Q) : list Q := fold_right qinsert [] l.

(* sum(w * x) / np.sum(w * x) *)
Fixpoint dotq (w x : list Q) : Q :=
  match w, x with
  | a :: w', b :: x' => a * b + dotq w' x'
  | _, _ => 0
  end.

Definition qsum (l : list Q) : Q := fold_right Qplus 0 l.        (* np.sum *)
Definition qprod (l : list Q) : Q := fold_right Qmult 1 l.       (* np.prod *)

(* 1 + deltas * rates *)
Fixpoint accruals (deltas rates : list Q) : list Q :=
  match deltas, rates with
  | d :: ds, l :: ls => (1 + d * l) :: accruals ds ls
  | _, _ => []
  end.

(* np.cumprod *)
Fixpoint cumprod_from (acc : Q) (l : list Q) : list Q :=
  match l with
  | [] => []
  | x :: r => (acc * x) :: cumprod_from (acc * x) r
  end.
Definition cumprod (l : list Q) : list Q := cumprod_from 1 l.

(* deltas * np.maximum(rates - strike, 0) * adj      (Cap.evaluate; adj is already reversed by the caller) *)
Fixpoint cap_terms (deltas : list Q) (strike : Q) (rates adj : list Q) : list Q :=
  match deltas, rates, adj with
  | d :: ds, l :: ls, a :: r => (d * Qmaxb (l - strike) 0 * a) :: cap_terms ds strike ls r
  | _, _, _ => []
  end.

Fixpoint map2q (f : Q -> Q -> Q) (a b : list Q) : list Q :=
  match a, b with
  | x :: a', y :: b' => f x y :: map2q f a' b'
  | _, _ => []
  end.

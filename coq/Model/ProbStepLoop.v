(* C13, wave 6: the two `while True` loops of rpylib/grid/spatial.py that build a probability-step axis,
   compute_right_axis (spatial.py:454-507) and compute_left_axis (spatial.py:510-560), with ALL their branches:
   the exhaustion exit (`p_left < minimum_probability_step / 2`: one extrapolated last point, break), the regular
   `try` branch (two root searches of p/2 each) and the bare `except` branch (a root search raised: the axis is
   continued by extrapolation with the step 2*delta), including the case where the FIRST root search succeeded (and
   has already overwritten middle_point) and the SECOND raised.

   Numbers are Q (floats minus rounding).  What is NOT modelled is replaced by two oracles, arbitrary functions:
     exhausted m : bool        the test  (intensity_of_side - integrate(h/2, m)) / intensity < p/2   (quadrature)
     root x      : option Q    scipy.optimize.root_scalar(fun(x, p/2), bracket=[x, 100] resp. [-100, x], brentq).root;
                               None = the call raised (no sign change on the bracket, ...)
   `while True` has no bound: the model takes a fuel and returns None when it runs out (the code would still be looping).
   numpy: np.append(axis, v) = axis ++ [v];  np.insert(axis, 0, v) = v :: axis;  right_axis[1:] = tl;  left_axis[:-1] = removelast. *)
From Coq Require Import QArith Qabs List.
From RV Require Import Base.QB Model.Grid.
Import ListNotations.
Open Scope Q_scope.

Section Loops.
  Variable exhausted : Q -> bool.
  Variable root : Q -> option Q.

  (* state: start_left, middle_point, start_right, right_axis *)
  Fixpoint right_loop (fuel : nat) (sl m sr : Q) (axis : list Q) : option (list Q) :=
    match fuel with
    | O => None
    | S f =>
      if exhausted m then Some (axis ++ [sr + 2 * (sr - m)])
      else match root sr with
           | Some m1 =>
             match root m1 with
             | Some s1 => right_loop f sr m1 s1 (axis ++ [s1])
             | None => let d := Qabs (m1 - sr) in right_loop f sr (sr + d) (sr + 2 * d) (axis ++ [sr + 2 * d])
             end
           | None => let d := Qabs (m - sr) in right_loop f sr (sr + d) (sr + 2 * d) (axis ++ [sr + 2 * d])
           end
    end.
  (* start_left, start_right = 0, h; middle_point = start_right - (start_right - start_left) / 2; right_axis = [0, h] *)
  Definition compute_right_axis (fuel : nat) (h : Q) : option (list Q) :=
    option_map (@tl Q) (right_loop fuel 0 (h - (h - 0) / 2) h [0; h]).

  (* state: start_left, middle_point, start_right, left_axis.  NOT the mirror image of right_loop in the except branch:
     delta = abs(start_right - middle_point) is measured from the INNER end of the last gap (the right loop measures
     abs(middle_point - start_right) from the moving end), so the extrapolated left steps are longer *)
  Fixpoint left_loop (fuel : nat) (sl m sr : Q) (axis : list Q) : option (list Q) :=
    match fuel with
    | O => None
    | S f =>
      if exhausted m then Some ((sl - 2 * (m - sl)) :: axis)
      else match root sl with
           | Some m1 =>
             match root m1 with
             | Some s1 => left_loop f s1 m1 sl (s1 :: axis)
             | None => let d := Qabs (sr - m1) in left_loop f (sl - 2 * d) ((sl - 2 * d) + d) sl ((sl - 2 * d) :: axis)
             end
           | None => let d := Qabs (sr - m) in left_loop f (sl - 2 * d) ((sl - 2 * d) + d) sl ((sl - 2 * d) :: axis)
           end
    end.
  (* start_left, start_right = -h, 0; middle_point = start_right - (start_right - start_left) / 2; left_axis = [-h, 0] *)
  Definition compute_left_axis (fuel : nat) (h : Q) : option (list Q) :=
    option_map (@removelast Q) (left_loop fuel (- h) (0 - (0 - - h) / 2) 0 [- h; 0]).
End Loops.

(* CTMCGridProbabilityStep.__init__ (spatial.py:211-230), one axis: concatenate((axis_left, [0.0], axis_right)), pivot = axis_left.size *)
Definition probstep_axis (exl exr : Q -> bool) (rootl rootr : Q -> option Q) (fuel : nat) (h : Q) : option (list Q * nat) :=
  match compute_left_axis exl rootl fuel h, compute_right_axis exr rootr fuel h with
  | Some l, Some r => Some (assemble l r)
  | _, _ => None
  end.

(* the cumulative-probability reading of the oracles used by the per-gap theorems: F x = integrate(c, x) / intensity.
   gaps_F q xs: every gap of xs carries F-probability q;  gaps_w w xs: every gap of xs has width w *)
Fixpoint gaps_F (F : Q -> Q) (q : Q) (xs : list Q) : Prop :=
  match xs with
  | [] => True
  | x :: r => match r with [] => True | y :: _ => F y - F x == q /\ gaps_F F q r end
  end.
Fixpoint gaps_w (w : Q) (xs : list Q) : Prop :=
  match xs with
  | [] => True
  | x :: r => match r with [] => True | y :: _ => y - x == w /\ gaps_w w r end
  end.

(* a concrete oracle pair for the correspondence and the examples: constant jump density on [-A, A] (A < 100), none beyond.
   With intensity I = 2*c*(A - h/2), `mass(x, y) / I = q` has the root y = x + w, w = q * 2 * (A - h/2), on the bracket iff x + w <= A *)
Definition lin_root_r (w A x : Q) : option Q := if Qle_bool (x + w) A then Some (x + w) else None.
Definition lin_root_l (w A x : Q) : option Q := if Qle_bool (- A) (x - w) then Some (x - w) else None.
(* p_left = (c * (A - h/2) - c * (min(m, A) - h/2)) / (2 * c * (A - h/2)) < q   (m >= h/2) *)
Definition lin_exh_r (A h q m : Q) : bool := Qltb ((A - Qminb m A) / (2 * (A - h / 2))) q.
Definition lin_exh_l (A h q m : Q) : bool := Qltb ((A - Qminb (- m) A) / (2 * (A - h / 2))) q.

(* table oracles for the correspondence: the answers the implementation's root searches / exhaustion tests gave during one run
   (recorded by the harness), looked up by argument with a relative tolerance (float rounding of sr + 2*delta);
   an argument the implementation never met: the root search `raised`, the tail `is exhausted` *)
Definition key_close (tol x y : Q) : bool := Qle_bool (Qabs (x - y)) ((1 + Qabs y) * tol).
Definition tab_root (tol : Q) (tbl : list (Q * option Q)) (x : Q) : option Q :=
  match find (fun e => key_close tol x (fst e)) tbl with Some e => snd e | None => None end.
Definition tab_exh (tol : Q) (tbl : list (Q * bool)) (m : Q) : bool :=
  match find (fun e => key_close tol m (fst e)) tbl with Some e => snd e | None => true end.

(* ================================================================================================ wave 8 (audit 5b, D4 / D5)
   Two argument defects of the constructor, repaired in /repo by fix-w8-c13 (6825494, e5add93); the model above is the REPAIRED code
   for a positive minimum_probability_step.
   (a) F-C13-8, before 6825494: `left_axis = np.array([-h, 0])` is an int64 array when h is a Python int, and np.insert casts every
       inserted state to int64 (C cast: truncation towards zero); the loop variables stay floats, the array is only written, so the
       returned half axis is the float axis truncated state by state.  (np.append on the right side re-allocates as float64: the
       right half axis was never affected.)  After the repair both arrays are float64 and `np.insert(axis, 0, v) = v :: axis` holds
       for every h. *)
From Coq Require Import Qround.
Definition trunc0 (x : Q) : Q := inject_Z (if Qle_bool 0 x then Qfloor x else Qceiling x).
Definition compute_left_axis_int_h (exhausted : Q -> bool) (root : Q -> option Q) (fuel : nat) (h : Q) : option (list Q) :=
  option_map (map trunc0) (compute_left_axis exhausted root fuel h).
(* (b) F-C13-9, repaired by e5add93: `if not minimum_probability_step > 0: raise ValueError` is the first statement of both
       compute_*_axis functions.  The exhaustion test of the code, with the quadrature as an arbitrary function pleft:
       exhausted m = (pleft m < p / 2).  None = the constructor raised or is still looping when the fuel runs out. *)
Definition exh_of (pleft : Q -> Q) (p : Q) (m : Q) : bool := Qltb (pleft m) (p / 2).
Definition probstep_ctor (p : Q) (pleft_l pleft_r : Q -> Q) (rootl rootr : Q -> option Q) (fuel : nat) (h : Q) : option (list Q * nat) :=
  if Qltb 0 p then probstep_axis (exh_of pleft_l p) (exh_of pleft_r p) rootl rootr fuel h else None.
(* the quadrature of the constant-density oracle as a function: lin_exh_r A h q = exh_of (lin_pleft_r A h) (2 * q) *)
Definition lin_pleft_r (A h m : Q) : Q := (A - Qminb m A) / (2 * (A - h / 2)).
Definition lin_pleft_l (A h m : Q) : Q := (A - Qminb (- m) A) / (2 * (A - h / 2)).

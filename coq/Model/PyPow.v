(* C09 (wave 8, audit 5a B1 / X-e) -- what the generated CGMY module needs that Base/RB.v does not have.

   pypow x y : Python's float `x ** y` for a base x >= 0 (the only bases cgmy.py forms: h, u*h, u with h = |end point|, u = g or m):
       x > 0             exp (y ln x)            = Rpower x y
       x = 0, y > 0      0.0                     (Coq's Rpower 0 y is exp (y * ln 0) = exp 0 = 1: NOT the code's value)
       x = 0, y = 0      1.0
       x = 0, y < 0      ZeroDivisionError       -> pypow_raises x y = true; the R value is then the placeholder 0 and means nothing:
                                                    every theorem that reads a value keeps pypow_raises false by its hypotheses
                                                    (the option-valued pypow of Model/LevyGenericQuad.v models the raise: F-C09-13).
   A base x < 0 with a non-integer exponent is a complex number in Python; no caller of the translated functions produces one
   (g, m > 0 in every theorem) and pypow is Rpower there, i.e. unspecified.

   SpecialFns: the special functions the generated module calls, as a RECORD with named projections (audit 5a X-e): the generated
   term says `sf_gammaincc sf s x`, so replacing scipy.special.gammaincc by scipy.special.gammainc in the source changes the
   projection NAME in the term and the proofs (whose hypotheses are about sf_gammaincc) stop applying. *)
From Coq Require Import Reals Bool Lra.
From RV Require Import Base.RB.
Open Scope R_scope.

Definition pypow (x y : R) : R :=
  if Reqb x 0 then (if Rltb 0 y then 0 else if Reqb y 0 then 1 else 0) else Rpower x y.
Definition pypow_raises (x y : R) : bool := Reqb x 0 && Rltb y 0.

Lemma pp_Reqb_ne x y : x <> y -> Reqb x y = false.
Proof. intros H. destruct (Reqb x y) eqn:E; [apply Reqb_true in E; contradiction | reflexivity]. Qed.
Lemma pp_Reqb_same x : Reqb x x = true.
Proof. apply Reqb_true; reflexivity. Qed.

Lemma pypow_ne0 x y : x <> 0 -> pypow x y = Rpower x y.
Proof. intros H. unfold pypow. rewrite (pp_Reqb_ne x 0) by assumption. reflexivity. Qed.
Lemma pypow_0_pos y : 0 < y -> pypow 0 y = 0.
Proof. intros H. unfold pypow. rewrite pp_Reqb_same. replace (Rltb 0 y) with true by (symmetry; apply Rltb_true; assumption). reflexivity. Qed.
Lemma pypow_0_0 : pypow 0 0 = 1.
Proof.
  unfold pypow. rewrite !pp_Reqb_same. replace (Rltb 0 0) with false by (symmetry; apply Rltb_false; lra). reflexivity.
Qed.
Lemma pypow_raises_iff x y : pypow_raises x y = true <-> x = 0 /\ y < 0.
Proof. unfold pypow_raises. rewrite andb_true_iff, Reqb_true, Rltb_true. tauto. Qed.
(* the defect of the old translation, as a fact: at base 0 with a positive exponent Rpower is off by exactly 1 *)
Lemma Rpower_0_is_not_python y : 0 < y -> Rpower 0 y = 1 /\ pypow 0 y = 0.
Proof.
  intros H. split; [|apply pypow_0_pos; assumption].
  assert (L0 : ln 0 = 0). { unfold ln. destruct (Rlt_dec 0 0) as [F | F]; [exfalso; apply (Rlt_irrefl 0 F) | reflexivity]. }
  unfold Rpower. rewrite L0, Rmult_0_r. apply exp_0.
Qed.

Record SpecialFns : Type := mkSpecialFns {
  sf_exp1 : R -> R;            (* scipy.special.exp1 *)
  sf_Gamma : R -> R;           (* scipy.special.gamma *)
  sf_gammaincc : R -> R -> R;  (* scipy.special.gammaincc : regularised UPPER incomplete gamma *)
  sf_gammainc : R -> R -> R;   (* scipy.special.gammainc  : regularised LOWER incomplete gamma *)
  sf_quad_xx : R -> R -> R     (* quad(self._xx_levy_measure, a, b, ...)[0] *)
}.

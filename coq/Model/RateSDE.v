(* C16: the coefficient a(t, x) = sigma(t) * x and the sde drift of the rate models
   (rpylib/model/levydrivensde/levydrivensde.py: LiborSDEFunction, ForwardMarketSDEFunction;
    rpylib/process/markovchain/markovchainsde.py: MarkovChainLevyLiborModel.sde_drift / _coefficient_sszz / compute_drift_term)
   as functions Q -> list Q -> ... that plug into the Euler recursions of Model/Euler.v.
   The ENTRIES come from the py2coq-generated pointwise definitions of Gen/GenC16Coef.v (libor_sigma_entry, fwd_sigma_entry,
   libor_a_entry, fwd_a_entry, libor_x_delta, libor_omega, libor_drift_entry); hand-written here: the assembly of the (m, d)
   arrays from their entries and the matrix part of the drift (the loop of _coefficient_sszz.helper and
   sszz[:, 1:] @ omegas[1:]).  zz = _integral_zz() (second moments of the driver's Levy measure outside (-h/2, h/2)) is an input. *)
From Coq Require Import ZArith QArith Qminmax Qabs Bool List.
From RV Require Import Base.QB Base.QVec Base.QArr Gen.GenC16Coef Model.Euler.
Import ListNotations.
Open Scope Q_scope.

(* an (m, d) array computed entry by entry from sigma: row i, entry (sigma_ij, i) *)
Definition rows_with (entry : Q -> Z -> Q) (sigma : list (list Q)) : list (list Q) :=
  map (fun i => map (fun sij => entry sij (Z.of_nat i)) (nth i sigma [])) (seq 0 (length sigma)).

(* LiborSDEFunction.sigma(t), ForwardMarketSDEFunction.sigma(t) *)
Definition libor_sigma (tenors : list Q) (sigma : list (list Q)) (t : Q) : list (list Q) :=
  rows_with (fun sij i => libor_sigma_entry tenors sij i t) sigma.
Definition fwd_sigma (tenors : list Q) (sigma : list (list Q)) (t : Q) : list (list Q) :=
  rows_with (fun sij i => fwd_sigma_entry tenors sij i t) sigma.

(* __call__(t, x) = sigma(t) * x : (m, d) * (m, 1) *)
Definition a_libor (tenors : list Q) (sigma : list (list Q)) : Q -> list Q -> list (list Q) :=
  fun t x => rows_with (fun sij i => libor_a_entry tenors sij i t (qnth x i)) sigma.
Definition a_fwd (tenors : list Q) (sigma : list (list Q)) : Q -> list Q -> list (list Q) :=
  fun t x => rows_with (fun sij i => fwd_a_entry tenors sij i t (qnth x i)) sigma.

(* the ONE call a(t, zi) on the stacked (2, m, 1) state: sigma(t) (m, d) * zi broadcasts to a stack of two (m, d) matrices *)
Definition a_st_of (a : Q -> list Q -> list (list Q)) : Q -> list Q -> list Q -> smat :=
  fun t zf zc => Stacked (a t zf) (a t zc).

Section LiborDrift.
  Variables (tenors deltas : list Q) (sigma zz : list (list Q)).

  (* sigma[i, :].T @ zz @ sigma[i + 1, :] *)
  Definition sszz_coef (Sg : list (list Q)) (i : nat) : Q := dot (nth i Sg []) (matvec zz (nth (S i) Sg [])).

  (* _coefficient_sszz.helper(t): res2 = zeros((nb, nb)); for i in range(nb - 1): res2[i, i+1:] = coefficient i *)
  Definition sszz (t : Q) : list (list Q) :=
    let Sg := libor_sigma tenors sigma t in
    let nb := length sigma in
    map (fun i => map (fun j => if (Nat.ltb i (nb - 1) && Nat.ltb i j)%bool then sszz_coef Sg i else 0) (seq 0 nb)) (seq 0 nb).

  (* compute_drift_term: sszz[:, 1:] @ omegas[1:] *)
  Definition drift_term (t : Q) (omegas : list Q) : list Q := map (fun row => dot (tl row) (tl omegas)) (sszz t).

  (* MarkovChainLevyLiborModel.sde_drift(t, x) *)
  Definition b_libor : Q -> list Q -> list Q := fun t x =>
    let idx := seq 0 (length x) in
    let omegas := map (fun i => libor_omega (libor_x_delta (nth i x 0) (nth i deltas 0))) idx in
    let dr := drift_term t omegas in
    map (fun i => libor_drift_entry (nth i x 0) (nth i dr 0)) idx.
End LiborDrift.

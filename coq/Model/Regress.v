(* Model of the rate regression of rpylib/montecarlo/multilevel/engine.py (Engine.price, nested `log2_regression`)
   and of the ml/vl work-around that precedes it, over the reals (lists for numpy arrays).

       def log2_regression(regress_to, max_val=0.5):
           mat = np.ones((L, 2)); mat[:, 0] = range(1, L + 1)
           x = np.linalg.lstsq(mat, np.log2(regress_to[1:]), rcond=None)[0]
           res = max(max_val, -x[0]); return res

   np.linalg.lstsq returns the MINIMUM-NORM least-squares solution (slope, intercept) of  mat @ x = y:
     L = 0 (no row)            : (0, 0)
     L = 1 (one equation)      : y * (x1, 1) / (x1^2 + 1)            (x1 = 1: slope = intercept = y / 2)
     L >= 2 (full column rank) : the ordinary least-squares line.
   Only this hand model of lstsq is written here; the clamp `max(max_val, -x[0])`, the slice [1:] and the default
   max_val are GENERATED from the source (Gen/GenC06Regress.v, emitter harness/py2coq_c06.py) on top of `log2_slope`.
   Tied to the implementation by interval case lemmas on real Engine.price runs (harness/props/C06.py). *)
From Coq Require Import Reals List.
Import ListNotations.
Open Scope R_scope.

Definition log2R (x : R) : R := ln x / ln 2.          (* np.log2 on a positive real *)

(* rows of the system: (level number, observation); mat[:, 0] = range(1, L + 1) -> x, x+1, x+2, ... from x = 1 *)
Fixpoint points (x : R) (ys : list R) : list (R * R) :=
  match ys with
  | [] => []
  | y :: r => (x, y) :: points (x + 1) r
  end.

Definition sum_by (f : R * R -> R) (ps : list (R * R)) : R := fold_right (fun p a => f p + a) 0 ps.
Definition Sn (ps : list (R * R)) : R := sum_by (fun _ => 1) ps.
Definition Sx (ps : list (R * R)) : R := sum_by fst ps.
Definition Sy (ps : list (R * R)) : R := sum_by snd ps.
Definition Sxx (ps : list (R * R)) : R := sum_by (fun p => fst p * fst p) ps.
Definition Sxy (ps : list (R * R)) : R := sum_by (fun p => fst p * snd p) ps.
Definition Syy (ps : list (R * R)) : R := sum_by (fun p => snd p * snd p) ps.

(* the quantity lstsq minimises: || mat @ (a, b) - y ||^2 *)
Definition sse (a b : R) (ps : list (R * R)) : R := sum_by (fun p => (a * fst p + b - snd p) ^ 2) ps.

Definition ols_det (ps : list (R * R)) : R := Sn ps * Sxx ps - Sx ps * Sx ps.
Definition ols_slope (ps : list (R * R)) : R := (Sn ps * Sxy ps - Sx ps * Sy ps) / ols_det ps.
Definition ols_icpt (ps : list (R * R)) : R := (Sy ps - ols_slope ps * Sx ps) / Sn ps.

Definition lstsq (ps : list (R * R)) : R * R :=
  match ps with
  | [] => (0, 0)
  | [(x, y)] => (x * y / (x * x + 1), y / (x * x + 1))
  | _ => (ols_slope ps, ols_icpt ps)
  end.

(* x[0] of  np.linalg.lstsq(mat, np.log2(ys), rcond=None)[0]  for the already sliced observations ys = regress_to[1:] *)
Definition log2_slope (ys : list R) : R := fst (lstsq (points 1 (map log2R ys))).

(* work-around for possible zero values (engine.py):  for level in range(3, L + 1):
       ml[level] = np.maximum(ml[level], 0.5 * ml[level - 1] / 2**alpha)         (in place: uses the UPDATED ml[level-1]) *)
Fixpoint floor_chain (r prev : R) (l : list R) : list R :=
  match l with
  | [] => []
  | m :: t => let m' := Rmax m (1 / 2 * prev / r) in m' :: floor_chain r m' t
  end.
Definition workaround (r : R) (ml : list R) : list R :=           (* r = 2**alpha resp. 2**beta *)
  match ml with
  | m0 :: m1 :: m2 :: t => m0 :: m1 :: m2 :: floor_chain r m2 t
  | _ => ml
  end.

(* ------------------------------------------------------------------ wave 7 (audit-4 B5): the numpy path of a non-positive entry
   np.log2 of 0 is -inf (of a negative number or of nan: nan); np.linalg.lstsq of a right-hand side with such an entry answers
   x = [nan, nan] for EVERY number of levels L >= 1 (observed on numpy 2.x: [3,0,.25,.125], [3,0], [3,.5,0], [3,nan], ...), and
   Python's builtin max(max_val, -nan) keeps its first argument.  Coq's ln 0 = 0 must therefore never be reached: the slope is
   an OPTION, None = "x is nan".  The generated log2_regression (Gen/GenC06Regress.v) matches on it. *)
From RV Require Import Base.RB.
Definition all_positive (ys : list R) : bool := forallb (Rltb 0) ys.
Definition log2_slope_np (ys : list R) : option R :=
  if all_positive ys then Some (log2_slope ys) else None.

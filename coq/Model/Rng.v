(* Model of the randomness discipline of rpylib's two Monte-Carlo engines (property C08).

   What is modelled (hand model, tied to the implementation by RNG tracing, harness/props/C08.py):

   * the generators.  numpy's global generator and Python's `random` are abstract position spaces.
     A variate is identified by  (python stream?, seed id, index) : `seed id` is the argument of the
     last  np.random.seed / random.seed  (Configuration.initialisation_seed always seeds both with the
     same value), `index` counts the variates requested from that stream since that call.
     gen = (seed id, next numpy index, next python index).
   * pre-drawn rows.  SimulationFixedTimes.pre_computation(mc_paths = n) with nb product dates and a
     d-dimensional process calls  poisson(size=1)  n*nb times, column by column
     (poisson_np_array[:, k] = [nb_jump_dt(dt) for _ in range(n)]), then  normal(size=(n, d, nb))  once,
     and REPLACES the two deques:  _brownian_increments  (row i = the i-th (d,nb) block) and
     _poisson_rv  (row i = entries i, n+i, 2n+i, ... of the Poisson draws).  Every deque created gets
     the next creation number; a row is tagged (creation number, row number).
   * process objects live in slots (slot 0 = the process handed to the engine, slot l+1 =
     ml_processes[l]); copy.deepcopy copies both deques with their rows (same tags).
   * one sample (simulate_one_path / simulate_one_path_with_coupling):  fixed-date mode pops the left
     Poisson row, draws fresh variates (jump sizes, state samplers, coupling uniforms: a data
     dependent list of (stream, count, decision?) -- the *schedule*, an explicit parameter), pops the
     left Brownian row;  jump-time mode only draws.  A draw flagged `decision` is the one made inside
     CouplingSimulation.coupling_state (`self.coupling_process.uniform.sample() < probability`): the
     variates it returns are consumed at once by that comparison, one EUse event each (the harness
     observes the uniform actually compared and maps it back to its position).
   * engines = instruction lists (std_ops, mlc_ops, mlp_ops) for the repaired tree
     (seed applied once, first, `seed is not None`), *_orig for the tree before the fix: commits,
     and a fork-with-copy model of the worker pool (pool_run).

   Only definitions and computation here; proofs are in Proofs/C08_Rng.v. *)
From Coq Require Import ZArith List Bool Lia.
Import ListNotations.
Open Scope Z_scope.

Definition pos : Type := (bool * Z * Z)%type.      (* python stream?, seed id, index *)
Definition tag : Type := (Z * Z)%type.             (* creation number of the deque, row number *)
Definition row : Type := (tag * list pos)%type.

Record gen := mkGen { g_sid : Z; g_np : Z; g_py : Z }.
Record proc := mkProc { q_brown : list row; q_pois : list row }.
Definition empty_proc := mkProc [] [].
Record state := mkSt { s_gen : gen; s_cid : Z; s_slot : Z -> proc }.

Definition init (g : gen) : state := mkSt g 1 (fun _ => empty_proc).

Definition zrange (n : Z) : list Z := map Z.of_nat (seq 0 (Z.to_nat n)).

Definition ctr (py : bool) (g : gen) : Z := if py then g_py g else g_np g.
Definition block (py : bool) (sid from k : Z) : list pos := map (fun j => (py, sid, from + j)) (zrange k).
Definition advance (py : bool) (k : Z) (g : gen) : gen :=
  if py then mkGen (g_sid g) (g_np g) (g_py g + Z.max 0 k) else mkGen (g_sid g) (g_np g + Z.max 0 k) (g_py g).

Inductive ev :=
| ESeed (s : Z)                         (* np.random.seed s ; random.seed s *)
| EDraw (py : bool) (sid from k : Z)    (* one call returning k variates: positions (py,sid,from..from+k-1) *)
| ENew (cid n : Z)                      (* deque number cid created with n rows *)
| EPop (t : tag)                        (* popleft returned the row tagged t *)
| EUnderflow                            (* popleft on an empty deque (IndexError in Python) *)
| EBegin (lvl : Z)
| EEnd
| EUse (p : pos).                       (* a coupling decision compared the variate at position p *)

Definition sample : Type := (Z * list pos)%type.   (* level (-1 = standard engine), positions used *)
Definition sched : Type := list (bool * Z * bool). (* fresh draws of one sample: (python stream?, count, decision?) *)

Inductive op :=
| OSeed (s : Z)
| OPre (slot n nb d : Z)
| OCopy (src dst : Z)
| OSample (slot : Z) (fixed : bool) (lvl : Z) (draws : sched).

Definition set_slot (f : Z -> proc) (s : Z) (p : proc) : Z -> proc := fun z => if z =? s then p else f z.

(* fresh draws of a sample, in order *)
Fixpoint draws_run (g : gen) (ds : sched) : list ev * list pos * gen :=
  match ds with
  | [] => ([], [], g)
  | (py, k, dec) :: r =>
      let c := ctr py g in
      let '(es, ps, g') := draws_run (advance py k g) r in
      (EDraw py (g_sid g) c (Z.max 0 k) :: (if dec then map EUse (block py (g_sid g) c k) else []) ++ es,
       block py (g_sid g) c k ++ ps, g')
  end.

Definition pois_rows (cid sid p0 n nb : Z) : list row :=
  map (fun i => ((cid, i), map (fun k => (false, sid, p0 + k * n + i)) (zrange nb))) (zrange n).
Definition brown_rows (cid sid q0 n w : Z) : list row :=
  map (fun i => ((cid, i), block false sid (q0 + i * w) w)) (zrange n).

Definition pop (q : list row) : list ev * list pos * list row :=
  match q with
  | [] => ([EUnderflow], [], [])
  | r :: rest => ([EPop (fst r)], snd r, rest)
  end.

Definition step (st : state) (o : op) : state * (list ev * list sample) :=
  let g := s_gen st in
  match o with
  | OSeed s => (mkSt (mkGen s 0 0) (s_cid st) (s_slot st), ([ESeed s], []))
  | OPre slot n nb d =>
      let n := Z.max 0 n in let nb := Z.max 0 nb in let w := Z.max 0 d * nb in
      let p0 := g_np g in let q0 := p0 + n * nb in
      let c := s_cid st in
      (mkSt (advance false (n * nb + n * w) g) (c + 2)
            (set_slot (s_slot st) slot (mkProc (brown_rows c (g_sid g) q0 n w) (pois_rows (c + 1) (g_sid g) p0 n nb))),
       (map (fun j => EDraw false (g_sid g) (p0 + j) 1) (zrange (n * nb))
          ++ [EDraw false (g_sid g) q0 (n * w); ENew c n; ENew (c + 1) n], []))
  | OCopy src dst => (mkSt g (s_cid st) (set_slot (s_slot st) dst (s_slot st src)), ([], []))
  | OSample slot fixed lvl ds =>
      if fixed then
        let p := s_slot st slot in
        let '(e1, r1, qp) := pop (q_pois p) in
        let '(e2, r2, g') := draws_run g ds in
        let '(e3, r3, qb) := pop (q_brown p) in
        (mkSt g' (s_cid st) (set_slot (s_slot st) slot (mkProc qb qp)),
         (EBegin lvl :: e1 ++ e2 ++ e3 ++ [EEnd], [(lvl, r1 ++ r2 ++ r3)]))
      else
        let '(e2, r2, g') := draws_run g ds in
        (mkSt g' (s_cid st) (s_slot st), (EBegin lvl :: e2 ++ [EEnd], [(lvl, r2)]))
  end.

Fixpoint run (ops : list op) (st : state) : list ev * list sample * state :=
  match ops with
  | [] => ([], [], st)
  | o :: r =>
      let '(st', (e, s)) := step st o in
      let '(es, ss, stf) := run r st' in
      (e ++ es, s ++ ss, stf)
  end.

(* adaptive run: the next instruction is an arbitrary function D of everything that has happened so far
   (instructions executed and events; the events carry the positions, and the value of a variate is a
   function of its position), i.e. the sampler's decisions, the allocation, the number of levels and
   passes are all left open.  Returns the instructions chosen, the events and the samples. *)
Fixpoint arun (fuel : nat) (D : list op -> list ev -> option op) (st : state) (oh : list op) (hist : list ev)
  : list op * list ev * list sample :=
  match fuel with
  | O => (oh, hist, [])
  | S f =>
      match D oh hist with
      | None => (oh, hist, [])
      | Some o =>
          let '(st', (e, s)) := step st o in
          let '(ops, h, ss) := arun f D st' (oh ++ [o]) (hist ++ e) in
          (ops, h, s ++ ss)
      end
  end.

Definition events (ops : list op) (st : state) : list ev := fst (fst (run ops st)).
Definition samples (ops : list op) (st : state) : list sample := snd (fst (run ops st)).
Definition final (ops : list op) (st : state) : state := snd (run ops st).
Definition consumed (ops : list op) (st : state) : list pos := flat_map snd (samples ops st).

Fixpoint popped (es : list ev) : list tag :=
  match es with [] => [] | EPop t :: r => t :: popped r | _ :: r => popped r end.
Fixpoint created (es : list ev) : list tag :=
  match es with [] => [] | ENew c n :: r => map (fun i => (c, i)) (zrange n) ++ created r | _ :: r => created r end.
Fixpoint underflows (es : list ev) : nat :=
  match es with [] => O | EUnderflow :: r => S (underflows r) | _ :: r => underflows r end.
Fixpoint drawn (es : list ev) : list pos :=
  match es with [] => [] | EDraw py sid from k :: r => block py sid from k ++ drawn r | _ :: r => drawn r end.
Fixpoint uses (es : list ev) : list pos :=
  match es with [] => [] | EUse p :: r => p :: uses r | _ :: r => uses r end.
Fixpoint seeds (es : list ev) : list Z :=
  match es with [] => [] | ESeed s :: r => s :: seeds r | _ :: r => seeds r end.

(* "no seed operation moves the generator to a (seed id, position) that has already produced variates" *)
Definition reseed_free (es : list ev) : Prop :=
  forall pre s post, es = pre ++ ESeed s :: post -> forall p, In p (drawn pre) -> snd (fst p) <> s.

(* ------------------------------------------------------------------ Configuration.initialisation_seed *)
(* t = (os.getpid() * int(time.time())) % 123456789 at the moment of the call (environment) *)
Definition seed_choice (seed : option Z) (multi : bool) (t : Z) : Z :=
  match seed with Some s => if multi then t else s | None => t end.            (* repaired: `self.seed is not None` *)
Definition seed_choice_orig (seed : option Z) (multi : bool) (t : Z) : Z :=
  match seed with Some s => if (s =? 0) || multi then t else s | None => t end. (* before: `if self.seed and ...` *)

(* ------------------------------------------------------------------ engines, nb_of_processes = 1 *)
Record mode := mkMode { m_fixed : bool; m_nb : Z; m_dim : Z }.

Definition pre (m : mode) (slot n : Z) : list op :=
  if m_fixed m then [OPre slot n (m_nb m) (m_dim m)] else [].
Definition samples_ops (m : mode) (slot lvl : Z) (ss : list sched) : list op :=
  map (fun d => OSample slot (m_fixed m) lvl d) ss.
Definition len {A} (l : list A) : Z := Z.of_nat (length l).

(* standard engine (repaired): price() = initialisation_seed(); initialisation -> pre_computation(mc_paths); path loop *)
Definition std_ops (seed : option Z) (t : Z) (m : mode) (ss : list sched) : list op :=
  OSeed (seed_choice seed false t) :: pre m 0 (len ss) ++ samples_ops m 0 (-1) ss.
(* before the fix: commits: pre_computation first, seed inside the loop set-up *)
Definition std_ops_orig (seed : option Z) (t : Z) (m : mode) (ss : list sched) : list op :=
  pre m 0 (len ss) ++ OSeed (seed_choice_orig seed false t) :: samples_ops m 0 (-1) ss.

(* multilevel engine, price_with_constant_mc_paths_and_level (repaired):
   seed; initialisation -> pre_computation(n0) on slot 0; ml_process_level_l = deepcopy (slot 1);
   level 0 pops the copied rows; every further level: next_level(mc_paths = n0) -> pre_computation(n0) *)
Fixpoint mlc_levels (m : mode) (n0 lvl : Z) (levels : list (list sched)) : list op :=
  match levels with
  | [] => []
  | ss :: r => pre m 1 n0 ++ samples_ops m 1 lvl ss ++ mlc_levels m n0 (lvl + 1) r
  end.
Definition mlc_body (m : mode) (n0 : Z) (levels : list (list sched)) : list op :=
  pre m 0 n0 ++ OCopy 0 1 ::
  match levels with
  | [] => []
  | ss :: r => samples_ops m 1 0 ss ++ mlc_levels m n0 1 r
  end.
Definition mlc_ops (seed : option Z) (t : Z) (m : mode) (n0 : Z) (levels : list (list sched)) : list op :=
  OSeed (seed_choice seed false t) :: mlc_body m n0 levels.

(* before the fix: no seed at the start, compute_level_l seeds (after the level's pre_computation)
   with the value of initialisation_seed at that moment: ts = one clock value per level *)
Fixpoint mlc_levels_orig (seed : option Z) (m : mode) (n0 lvl : Z) (levels : list (list sched * Z)) : list op :=
  match levels with
  | [] => []
  | (ss, t) :: r => pre m 1 n0 ++ OSeed (seed_choice_orig seed false t) :: samples_ops m 1 lvl ss
                    ++ mlc_levels_orig seed m n0 (lvl + 1) r
  end.
Definition mlc_ops_orig (seed : option Z) (m : mode) (n0 : Z) (levels : list (list sched * Z)) : list op :=
  pre m 0 n0 ++ OCopy 0 1 ::
  match levels with
  | [] => []
  | (ss, t) :: r => OSeed (seed_choice_orig seed false t) :: samples_ops m 1 0 ss ++ mlc_levels_orig seed m n0 1 r
  end.

(* multilevel engine, adaptive price (repaired).  A history is a list of passes; a pass lists, per
   level 0..L, the samples simulated (dNl[level] = their number) and says whether the pass ended by
   adding a level with next_level(mc_paths = m).  cr = len(ml_processes). *)
Record pass := mkPass { p_levels : list (list sched); p_add : option Z }.

Fixpoint mlp_levels (m : mode) (cr lvl : Z) (levels : list (list sched)) : list op * Z :=
  match levels with
  | [] => ([], cr)
  | ss :: r =>
      let mk := if cr <=? lvl then OCopy cr (cr + 1) :: pre m (cr + 1) 0 else [] in
      let cr' := if cr <=? lvl then cr + 1 else cr in
      let '(rest, crf) := mlp_levels m cr' (lvl + 1) r in
      (mk ++ pre m (lvl + 1) (len ss) ++ samples_ops m (lvl + 1) lvl ss ++ rest, crf)
  end.
Fixpoint mlp_passes (m : mode) (cr : Z) (ps : list pass) : list op :=
  match ps with
  | [] => []
  | p :: r =>
      let '(body, cr1) := mlp_levels m cr 0 (p_levels p) in
      match p_add p with
      | Some mm => body ++ OCopy cr1 (cr1 + 1) :: pre m (cr1 + 1) mm ++ mlp_passes m (cr1 + 1) r
      | None => body ++ mlp_passes m cr1 r
      end
  end.
Definition mlp_body (m : mode) (n0 : Z) (ps : list pass) : list op :=
  pre m 0 n0 ++ OCopy 0 1 :: mlp_passes m 1 ps.
Definition mlp_ops (seed : option Z) (t : Z) (m : mode) (n0 : Z) (ps : list pass) : list op :=
  OSeed (seed_choice seed false t) :: mlp_body m n0 ps.

(* ------------------------------------------------------------------ worker pool (standard engine, nb_of_processes > 1)
   Parent: initialisation -> pre_computation(n) with the ambient generator; Pool(w, initializer):
   every worker seeds itself with its own clock value; map_async pickles the bound method
   simulate_one_path with every chunk, so every chunk starts from a COPY of the parent's deques;
   a worker keeps its generator from one chunk to the next.  The assignment of chunks to workers
   and their order is the explicit schedule `chunks` (worker number, samples of the chunk). *)
Fixpoint set_nth {A} (l : list A) (i : nat) (x : A) : list A :=
  match l, i with
  | [], _ => []
  | _ :: r, O => x :: r
  | y :: r, S j => y :: set_nth r j x
  end.

Fixpoint pool_chunks (m : mode) (parent : state) (gens : list gen) (logs : list (list ev))
         (chunks : list (nat * list sched)) : list (list ev) * list sample :=
  match chunks with
  | [] => (logs, [])
  | (w, ss) :: r =>
      let g := nth w gens (mkGen 0 0 0) in
      let '(es, sm, stf) := run (samples_ops m 0 (-1) ss) (mkSt g (s_cid parent) (s_slot parent)) in
      let '(logs', sms) := pool_chunks m parent (set_nth gens w (s_gen stf)) (set_nth logs w (nth w logs [] ++ es)) r in
      (logs', sm ++ sms)
  end.

Definition pool_run (g0 : gen) (m : mode) (n : Z) (wseeds : list Z) (chunks : list (nat * list sched))
  : list ev * list (list ev) * list sample :=
  let '(pe, _, parent) := run (pre m 0 n) (init g0) in
  let '(logs, sms) := pool_chunks m parent (map (fun s => mkGen s 0 0) wseeds) (map (fun s => [ESeed s]) wseeds) chunks in
  (pe, logs, sms).

(* ------------------------------------------------------------------ the clock-based seed
   Configuration.initialisation_seed without a usable seed.  Repaired tree (fix: commit of branch
   fix-rng2): np.random.seed([pid, now]); random.seed(pid * 2**32 + now)  -- the seed id is the pair,
   encoded pid * 2^32 + now (now = int(time.time()) < 2^32).  Before: (pid * now) % 123456789. *)
Definition seed_of (pid now : Z) : Z := pid * 2 ^ 32 + now.
Definition seed_of_orig (pid now : Z) : Z := (pid * now) mod 123456789.

Definition pool_run_pids (g0 : gen) (m : mode) (n : Z) (pids : list Z) (now : Z) (chunks : list (nat * list sched)) :=
  pool_run g0 m n (map (fun p => seed_of p now) pids) chunks.
Definition pool_run_pids_orig (g0 : gen) (m : mode) (n : Z) (pids : list Z) (now : Z) (chunks : list (nat * list sched)) :=
  pool_run g0 m n (map (fun p => seed_of_orig p now) pids) chunks.

(* successive pools of one run (the multilevel engine builds one pool per level and pass): each with the pids of its
   workers, the clock value at its start, and its chunks *)
Definition pools_samples (g0 : gen) (m : mode) (pools : list (list Z * Z * list (nat * list sched))) : list sample :=
  flat_map (fun p => snd (pool_run_pids g0 m 0 (fst (fst p)) (snd (fst p)) (snd p))) pools.
Definition pools_keys (pools : list (list Z * Z * list (nat * list sched))) : list (Z * Z) :=
  flat_map (fun p => map (fun pid => (pid, snd (fst p))) (fst (fst p))) pools.

(* ------------------------------------------------------------------ schedules derived from the variates' values
   val = the generators as deterministic functions of the position; nxt = the sampler / coupling logic
   of one sample: given the values the sample has seen so far (in fixed-date mode it starts with the
   Poisson row it pops) it names the next fresh draw, or None when the sample is complete. *)
Section Derived.
  Variable val : pos -> Z.
  Variable nxt : list Z -> option (bool * Z * bool).

  Fixpoint derive_sched (fuel : nat) (g : gen) (seen : list Z) : sched :=
    match fuel with
    | O => []
    | S f =>
        match nxt seen with
        | None => []
        | Some (py, k, dec) =>
            (py, k, dec) :: derive_sched f (advance py k g) (seen ++ map val (block py (g_sid g) (ctr py g) k))
        end
    end.

  Definition next_sched (fuel : nat) (st : state) (slot : Z) (fixed : bool) : sched :=
    derive_sched fuel (s_gen st)
      (if fixed then match q_pois (s_slot st slot) with r :: _ => map val (snd r) | [] => [] end else []).

  Fixpoint derive_samples (n fuel : nat) (st : state) (slot : Z) (fixed : bool) (lvl : Z) : list sched :=
    match n with
    | O => []
    | S k =>
        let sc := next_sched fuel st slot fixed in
        sc :: derive_samples k fuel (fst (step st (OSample slot fixed lvl sc))) slot fixed lvl
    end.

  (* the schedule of a standard-engine run of n paths, as the run itself produces it *)
  (* ... from an arbitrary state st0 of the process object (generators anywhere, deques possibly holding the rows a
     previous pricing left behind) *)
  Definition std_derived_from (fuel : nat) (seed : option Z) (t : Z) (m : mode) (n : nat) (st0 : state) : list sched :=
    derive_samples n fuel (snd (run (OSeed (seed_choice seed false t) :: pre m 0 (Z.of_nat n)) st0)) 0 (m_fixed m) (-1).
  Definition std_derived (fuel : nat) (seed : option Z) (t : Z) (m : mode) (n : nat) (g : gen) : list sched :=
    std_derived_from fuel seed t m n (init g).
  Definition std_derived_orig (fuel : nat) (seed : option Z) (t : Z) (m : mode) (n : nat) (g : gen) : list sched :=
    derive_samples n fuel (snd (run (pre m 0 (Z.of_nat n) ++ [OSeed (seed_choice_orig seed false t)]) (init g))) 0 (m_fixed m) (-1).
End Derived.

(* ------------------------------------------------------------------ encodings used by the correspondence *)
Definition b2z (b : bool) : Z := if b then 1 else 0.
Definition enc_ev (e : ev) : list Z :=
  match e with
  | ESeed s => [0; s]
  | EDraw py sid from k => [1; b2z py; sid; from; k]
  | ENew c n => [2; c; n]
  | EPop t => [3; fst t; snd t]
  | EBegin l => [4; l]
  | EEnd => [5]
  | EUnderflow => [9]
  | EUse p => [6; b2z (fst (fst p)); snd (fst p); snd p]
  end.
Definition enc_sample (s : sample) : list Z :=
  fst s :: flat_map (fun p : pos => [b2z (fst (fst p)); snd (fst p); snd p]) (snd s).

(* The multilevel engine with worker pools (property C08, wave 6) -- multilevel/engine.py with nb_of_processes <> 1.

   What the code does (engine.py:47-66, 96-155, 157-330):
   * the PARENT never seeds (initialisation(): `if nb_of_processes == 1: initialisation_seed()`): every pre_computation
     of the run (initialisation(), next_level(), the per-level pre_computation of the adaptive price()) draws from the
     parent's ambient generator; the parent never simulates a sample and never pops a row;
   * compute_level_l builds ONE Pool PER LEVEL AND PASS: `with mp.Pool(processes, initializer)`: fresh worker processes,
     each seeds itself with seed_of pid now (Configuration.initialisation_seed(True)); map_async pickles the bound method
     simulate_one_path / simulate_one_path_with_coupling of the LEVEL's coupling process (slot 1 for the constant run,
     slot level+1 for the adaptive price) with every chunk: every chunk starts from a COPY of that slot's deques as the
     parent holds them at that moment; a worker keeps its generator from one chunk to the next; the pool is closed at
     the end of the level: the next level forks new workers (new pids).
   So a run is a list of parent instructions (Model/Rng.v `op`, without OSample) interleaved with pools; a pool leaves
   the parent state unchanged.  poolspec = (pids of the workers, clock value at the pool's start, chunks = (worker
   number, samples of the chunk) in the order the chunks were served).

   Only definitions and computation here; proofs are in Proofs/C08_MlPool.v. *)
From Coq Require Import ZArith List Bool Lia.
From RV Require Import Model.Rng.
Import ListNotations.
Open Scope Z_scope.

Definition poolspec : Type := (list Z * Z * list (nat * list sched))%type.

(* pool_chunks of Model/Rng.v with the slot of the level's process and the level carried by the samples *)
Fixpoint pool_chunks_at (m : mode) (slot lvl : Z) (parent : state) (gens : list gen) (logs : list (list ev))
         (chunks : list (nat * list sched)) : list (list ev) * list sample :=
  match chunks with
  | [] => (logs, [])
  | (w, ss) :: r =>
      let g := nth w gens (mkGen 0 0 0) in
      let '(es, sm, stf) := run (samples_ops m slot lvl ss) (mkSt g (s_cid parent) (s_slot parent)) in
      let '(logs', sms) := pool_chunks_at m slot lvl parent (set_nth gens w (s_gen stf)) (set_nth logs w (nth w logs [] ++ es)) r in
      (logs', sm ++ sms)
  end.

Definition pool_wseeds (p : poolspec) : list Z := map (fun pid => seed_of pid (snd (fst p))) (fst (fst p)).

(* one pool of compute_level_l: worker logs (one per pid, starting with its seed event) and the samples *)
Definition pool_at (m : mode) (slot lvl : Z) (parent : state) (p : poolspec) : list (list ev) * list sample :=
  pool_chunks_at m slot lvl parent (map (fun s => mkGen s 0 0) (pool_wseeds p)) (map (fun s => [ESeed s]) (pool_wseeds p)) (snd p).

Inductive pop_ :=
| PPar (o : op)                              (* instruction executed by the parent process *)
| PPool (slot lvl : Z) (p : poolspec).       (* compute_level_l with a pool on the process in `slot` *)

(* parent events, worker logs of every pool (in order), samples, final parent state *)
Fixpoint prun (m : mode) (ops : list pop_) (st : state) : list ev * list (list (list ev)) * list sample * state :=
  match ops with
  | [] => ([], [], [], st)
  | PPar o :: r =>
      let '(st', (e, s)) := step st o in
      let '(pe, wl, sm, stf) := prun m r st' in
      (e ++ pe, wl, s ++ sm, stf)
  | PPool slot lvl p :: r =>
      let '(logs, sms) := pool_at m slot lvl st p in
      let '(pe, wl, sm, stf) := prun m r st in
      (pe, logs :: wl, sms ++ sm, stf)
  end.

Definition psamples (m : mode) (ops : list pop_) (st : state) : list sample := snd (fst (prun m ops st)).
Definition pfinal (m : mode) (ops : list pop_) (st : state) : state := snd (prun m ops st).

Fixpoint pools_of (ops : list pop_) : list poolspec :=
  match ops with [] => [] | PPar _ :: r => pools_of r | PPool _ _ p :: r => p :: pools_of r end.
(* the parent never simulates *)
Definition par_quiet (o : pop_) : bool :=
  match o with PPar (OSample _ _ _ _) => false | _ => true end.

Definition pool_total (p : poolspec) : Z := len (flat_map snd (snd p)).

(* ------------------------------------------------------------------ price_with_constant_mc_paths_and_level, pools
   initialisation -> pre_computation(n0) on slot 0; deepcopy -> slot 1; level 0 = pool on slot 1;
   every further level: next_level(n0) -> pre_computation(n0) on slot 1 (parent), pool on slot 1 *)
Fixpoint mlcp_levels (m : mode) (n0 lvl : Z) (pools : list poolspec) : list pop_ :=
  match pools with
  | [] => []
  | p :: r => map PPar (pre m 1 n0) ++ PPool 1 lvl p :: mlcp_levels m n0 (lvl + 1) r
  end.
Definition mlcp_ops (m : mode) (n0 : Z) (pools : list poolspec) : list pop_ :=
  map PPar (pre m 0 n0 ++ [OCopy 0 1]) ++
  match pools with
  | [] => []
  | p :: r => PPool 1 0 p :: mlcp_levels m n0 1 r
  end.

(* ------------------------------------------------------------------ adaptive price(), pools
   as mlp_levels / mlp_passes of Model/Rng.v: per level pre_computation(dNl[level]) in the parent -- dNl[level] is the
   number of samples the pool then simulates (pool_total) -- then the pool on slot level+1 *)
Record ppass := mkPPass { pp_levels : list poolspec; pp_add : option Z }.

Fixpoint mlpp_levels (m : mode) (cr lvl : Z) (levels : list poolspec) : list pop_ * Z :=
  match levels with
  | [] => ([], cr)
  | p :: r =>
      let mk := if cr <=? lvl then OCopy cr (cr + 1) :: pre m (cr + 1) 0 else [] in
      let cr' := if cr <=? lvl then cr + 1 else cr in
      let '(rest, crf) := mlpp_levels m cr' (lvl + 1) r in
      (map PPar (mk ++ pre m (lvl + 1) (pool_total p)) ++ PPool (lvl + 1) lvl p :: rest, crf)
  end.
Fixpoint mlpp_passes (m : mode) (cr : Z) (ps : list ppass) : list pop_ :=
  match ps with
  | [] => []
  | p :: r =>
      let '(body, cr1) := mlpp_levels m cr 0 (pp_levels p) in
      match pp_add p with
      | Some mm => body ++ map PPar (OCopy cr1 (cr1 + 1) :: pre m (cr1 + 1) mm) ++ mlpp_passes m (cr1 + 1) r
      | None => body ++ mlpp_passes m cr1 r
      end
  end.
Definition mlpp_ops (m : mode) (n0 : Z) (ps : list ppass) : list pop_ :=
  map PPar (pre m 0 n0 ++ [OCopy 0 1]) ++ mlpp_passes m 1 ps.

(* a pool schedule with two non-empty chunks (any workers, anything before, between and after) *)
Definition two_chunks (p : poolspec) : Prop :=
  exists c0 w1 s1 ss1 mid w2 s2 ss2 rest, snd p = c0 ++ (w1, s1 :: ss1) :: mid ++ (w2, s2 :: ss2) :: rest.

(* two different samples of a list share a position *)
Definition Shared (l : list sample) : Prop :=
  exists l1 a l2 b l3 p, l = l1 ++ a :: l2 ++ b :: l3 /\ In p (snd a) /\ In p (snd b) /\ fst a = fst b.

(* Wave 8 (audit5a D2): two pricings of ONE Python process, one after the other (property C08, finding F-C08-9).

   Configuration.initialisation_seed (configuration.py:95-104) with `seed is None` seeds numpy and `random` with
   [os.getpid(), int(time.time())] at EVERY price() / price_with_constant_mc_paths_and_level(): the clock enters in whole
   seconds.  Model/Rng.v takes the clock value per run (the argument t of std_ops / mlc_ops / mlp_ops, fed with
   seed_of pid now); a second pricing of the same process is the same instruction list started from the state the first
   one left behind: generators where they are, deques holding whatever rows were not popped.  The tracer
   (harness/rngtrace.py) numbers the deques of every traced run from 1, so the creation counter restarts. *)
From Coq Require Import ZArith List Bool.
From RV Require Import Model.Rng.
Import ListNotations.
Open Scope Z_scope.

Definition next_run_state (st : state) : state := mkSt (s_gen st) 1 (s_slot st).

(* the instruction lists of an unseeded single-process run of process `pid` whose initialisation_seed reads the clock at
   `now` (whole seconds) *)
Definition std_unseeded (pid now : Z) (m : mode) (ss : list sched) : list op := std_ops None (seed_of pid now) m ss.
Definition mlc_unseeded (pid now : Z) (m : mode) (n0 : Z) (lv : list (list sched)) : list op := mlc_ops None (seed_of pid now) m n0 lv.
Definition mlp_unseeded (pid now : Z) (m : mode) (n0 : Z) (ps : list pass) : list op := mlp_ops None (seed_of pid now) m n0 ps.

(* events of two successive runs of one process, as one history (for reseed_free) *)
Definition two_runs_events (ops1 ops2 : list op) (g : gen) : list ev :=
  events ops1 (init g) ++ events ops2 (next_run_state (final ops1 (init g))).
Definition two_runs_consumed (ops1 ops2 : list op) (g : gen) : list pos :=
  consumed ops1 (init g) ++ consumed ops2 (next_run_state (final ops1 (init g))).

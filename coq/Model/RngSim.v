(* Consumption patterns of the simulators that Model/Rng.v leaves to the schedule parameter (property C08, wave 5).

   Model/Rng.v runs one sample as "pop a Poisson row, a data-dependent list of fresh draws, pop a Brownian row"
   (fixed-date mode) or as fresh draws only (jump-time mode).  The simulators added here are all jump-time
   simulators in that sense -- nothing is pre-drawn, `pre_computation` creates no deque:

   * SimulationMaximumStep, MCSimulationMaximumStep, MCLevyCopulaSimulationMaximumStep and the Coupling*MaximumStep
     classes (levyprocess.py:284, markovchain*.py, coupling*.py): subclasses of the jump-time simulators; the
     refinement of the time grid only changes the size of the final normal draw.
   * the SDE processes (markovchainsde.py, couplingsde.py): max-step simulators by construction.
   * LevyCopula2dSeriesRepresentation (levycopulaseries.py:95-178), one sample:
         poisson(size=2) -> (N1, N2);  uniform(N1); uniform(N2); uniform(N1); uniform(N2); uniform(max(N1,N2));
         for every product interval holding at least one of the max(N1,N2) arrival times:
             uniform(a_k); uniform(b_k)      a_k (b_k) = arrivals of the interval with index < N1 (< N2)
         normal(nb); normal(nb)             nb = number of product intervals
     `series_sched` below; the data (N1, N2, the (a_k, b_k), nb) are read by the harness from the VALUES of the
     Poisson draw and from the trace, and the model's event list is compared with the traced one.
   * copula coupling decisions (couplinglevycopula.py:159-228): one uniform(1) per projected fine jump, compared at
     once (`u <= probability`, walking the cumulated probabilities): a draw flagged `decision` with count 1.

   Only definitions and computation here; proofs are in Proofs/C08_Sim.v. *)
From Coq Require Import ZArith List Bool Lia.
From RV Require Import Model.Rng.
Import ListNotations.
Open Scope Z_scope.

(* instruction lists without pre-drawn rows: what every jump-time simulator produces *)
Definition jump_op (o : op) : bool :=
  match o with
  | OSeed _ | OCopy _ _ => true
  | OPre _ _ _ _ => false
  | OSample _ fixed _ _ => negb fixed
  end.

(* number of variates a schedule requests *)
Fixpoint sched_total (ds : sched) : Z :=
  match ds with [] => 0 | (_, k, _) :: r => Z.max 0 k + sched_total r end.

(* ------------------------------------------------------------------ series representation *)
Record series_data := mkSer { sr_n1 : Z; sr_n2 : Z; sr_slices : list (Z * Z); sr_nb : Z }.

Definition npd (k : Z) : bool * Z * bool := (false, k, false).

Definition series_sched (d : series_data) : sched :=
  [npd 2; npd (sr_n1 d); npd (sr_n2 d); npd (sr_n1 d); npd (sr_n2 d); npd (Z.max (sr_n1 d) (sr_n2 d))]
    ++ flat_map (fun ab : Z * Z => [npd (fst ab); npd (snd ab)]) (sr_slices d)
    ++ [npd (sr_nb d); npd (sr_nb d)].

Definition zsum (l : list Z) : Z := fold_right Z.add 0 l.

(* every arrival index below N1 (N2) lies in exactly one product interval: V = T * uniform[0,1) < T *)
Definition series_wf (d : series_data) : Prop :=
  0 <= sr_n1 d /\ 0 <= sr_n2 d /\ 0 <= sr_nb d
  /\ Forall (fun ab : Z * Z => 0 <= fst ab /\ 0 <= snd ab) (sr_slices d)
  /\ zsum (map fst (sr_slices d)) = sr_n1 d /\ zsum (map snd (sr_slices d)) = sr_n2 d.

Definition series_wfb (d : series_data) : bool :=
  (0 <=? sr_n1 d) && (0 <=? sr_n2 d) && (0 <=? sr_nb d)
  && forallb (fun ab : Z * Z => (0 <=? fst ab) && (0 <=? snd ab)) (sr_slices d)
  && (zsum (map fst (sr_slices d)) =? sr_n1 d) && (zsum (map snd (sr_slices d)) =? sr_n2 d).

(* Engine.price (standard engine) on a series process over a product with nb intervals: the process is
   2-dimensional and nothing is pre-drawn *)
Definition series_ops (seed : option Z) (t : Z) (ds : list series_data) : list op :=
  std_ops seed t (mkMode false 1 2) (map series_sched ds).

(* ------------------------------------------------------------------ coupling decisions *)
(* every draw made inside a coupling decision returns exactly one numpy variate *)
Definition dec_single (ds : sched) : bool :=
  forallb (fun x : bool * Z * bool => let '(py, k, dec) := x in if dec then negb py && (k =? 1) else true) ds.
Fixpoint sched_decisions (ds : sched) : Z :=
  match ds with [] => 0 | (_, _, dec) :: r => (if dec then 1 else 0) + sched_decisions r end.

(* ------------------------------------------------------------------ series representation: the thinning sizes from the
   arrival times (wave 6, audit4 B7).  levycopulaseries.py:124 draws ONE vector V = T * uniform(max(N1,N2)) and slices it
   for BOTH point sets (:136-141): arrival i falls in product interval vk_i (0-based: the first k with V_i <= times[k+1]);
   interval k, if it holds at least one arrival, thins a_k = #{i < N1 : vk_i = k} points of the first set and
   b_k = #{i < N2 : vk_i = k} of the second -- for i < min(N1,N2) the two sets share the arrival time V_i
   (observation D2 of audit4: a modelling defect of the series representation, outside C08's statement). *)
Fixpoint count_in (k bound i : Z) (vk : list Z) : Z :=
  match vk with
  | [] => 0
  | v :: r => (if (v =? k) && (i <? bound) then 1 else 0) + count_in k bound (i + 1) r
  end.
Definition series_slices (n1 n2 nb : Z) (vk : list Z) : list (Z * Z) :=
  flat_map (fun k => if existsb (Z.eqb k) vk then [(count_in k n1 0 vk, count_in k n2 0 vk)] else []) (zrange nb).

(* C02 -- the hidden state the samplers carry between draws, threaded explicitly:
     * Sampling.sampling_cost (BinarySearchTree.sample_with_u adds 1 per level, HuffmanTree.sample adds the
       cost returned by sample_with_u, AliasMethod / TableMethod count the uniforms);
     * functools.lru_cache of BinarySearchTreeAdapted1D._compute_probability: a finite map (a, b) -> value with an
       arbitrary eviction policy (`evict` only ever drops entries).
   A draw is a function  state -> u -> (output, state'); Proofs/C02_Stateful.v shows that the output does not
   depend on the state (for every state reachable from the initial one). *)
From Coq Require Import List Arith ZArith QArith Bool.
From RV Require Import Base.QB Model.Bst Model.Alias Model.Huffman Model.BstAdapted.
Import ListNotations.
Open Scope Q_scope.

(* BinarySearchTree.sample_with_u with the counter: self.sampling_cost += 1 at every level *)
Fixpoint bst_descend_st (fuel : nat) (k : nat) (bst : list Q) (u : Q) (ptr : nat) (cost : Z) : nat * Z :=
  match fuel with
  | O => (ptr, cost)
  | S f => if (ptr <=? k)%nat
           then (if Qltb u (nth (ptr - 1) bst 0) then bst_descend_st f k bst u (2 * ptr) (cost + 1)
                 else bst_descend_st f k bst u (2 * ptr + 1) (cost + 1))
           else (ptr, cost)
  end.
Definition bst_sample_st (k : nat) (bst : list Q) (cost : Z) (u : Q) : Z * Z :=
  let r := bst_descend_st (S k) k bst u 1 cost in
  ((Z.of_nat (fst r) - Z.of_nat k - 1)%Z, snd r).

(* huffmantree.sample_with_u(u, head) -> (state, sampling_cost); HuffmanTree.sample adds it to self.sampling_cost *)
Fixpoint huff_sample_cost (t : htree) (u : Q) (cost : Z) : Z * Z :=
  match t with
  | HLeaf _ s => (s, cost)
  | HNode _ l r => if Qltb u (hval l) then huff_sample_cost l u (cost + 1) else huff_sample_cost r (u - hval l) (cost + 1)
  end.
Definition huff_sample_st (t : htree) (total_cost : Z) (u : Q) : Z * Z :=
  let r := huff_sample_cost t u 0 in (fst r, (total_cost + snd r)%Z).

(* AliasMethod: the uniform generator counts the uniforms drawn *)
Definition alias_draw_st (K : nat) (q : list Q) (J : list nat) (cost : Z) (u : Q) : nat * Z :=
  (alias_draw K q J u, (cost + 1)%Z).

(* a sequence of draws of a stateful sampler: outputs in order *)
Fixpoint run_st {St Out : Type} (step : St -> Q -> Out * St) (st : St) (us : list Q) : list Out :=
  match us with
  | [] => []
  | u :: r => let os := step st u in fst os :: run_st step (snd os) r
  end.

(* ---------- lru_cache of _compute_probability ---------- *)
Definition pcache := list (Q * Q * Q).        (* ((a, b), value) *)

Fixpoint pcache_lookup (c : pcache) (a b : Q) : option Q :=
  match c with
  | [] => None
  | (a', b', v) :: r => if Qeq_bool a a' && Qeq_bool b b' then Some v else pcache_lookup r a b
  end.

Section CachedBisect.
  Variable axis : list Q.
  Variable o : Z.
  Variable middle : Q -> Q -> Q.
  Variable mass : Q -> Q -> Q.
  Variable lam : Q.
  Variable evict : pcache -> pcache.          (* what lru_cache does when it is full: some entries are dropped *)

  (* self._compute_probability(a, b) through the cache *)
  Definition compute_probability_cached (c : pcache) (a b : Q) : Q * pcache :=
    match pcache_lookup c a b with
    | Some v => (v, c)
    | None => let v := mass a b / lam in (v, evict ((a, b, v) :: c))
    end.

  Fixpoint ba_bisect_c (fuel : nat) (left right : Z) (cp : Q) (c : pcache) : Z * pcache :=
    match fuel with
    | O => (left, c)
    | S f =>
        if (left =? right)%Z then (left, c)
        else
          let mid := ((left + right) / 2)%Z in
          let pc := compute_probability_cached c (ba_cell_a axis middle left) (ba_cell_b axis middle mid) in
          if Qltb (fst pc) cp then ba_bisect_c f (Z.min right (mid + 1)) right (cp - fst pc) (snd pc)
          else ba_bisect_c f left mid cp (snd pc)
    end.

  Definition ba_sample_c (h minf : Q) (c : pcache) (u : Q) : Z * pcache :=
    let fuel := S (length axis) in
    let pl := ba_proba_left mass lam h minf in
    if Qltb pl u
    then let r := ba_bisect_c fuel (o + 1) (ba_n axis - 1) (u - pl) c in ((fst r - o)%Z, snd r)
    else let r := ba_bisect_c fuel 0 (o - 1) u c in ((fst r - o)%Z, snd r).
End CachedBisect.

(* ---------- lru_cache of the n-d BinarySearchTreeAdapted._compute_probability ---------- *)
From RV Require Import Base.Corr Model.BstAdaptedNd.

Definition box_eqb (a b : box) : bool := list_eqb zpair_eqb a b.
Definition ndcache := list (box * Q).          (* key: the box whose corner bounds (a, b) are the arguments *)

Fixpoint ndcache_lookup (c : ndcache) (b : box) : option Q :=
  match c with
  | [] => None
  | (b', v) :: r => if box_eqb b b' then Some v else ndcache_lookup r b
  end.

Section NdCached.
  Variable bm : box -> Q.
  Variable evict : ndcache -> ndcache.

  Definition bm_cached (c : ndcache) (b : box) : Q * ndcache :=
    match ndcache_lookup c b with
    | Some v => (v, c)
    | None => (bm b, evict ((b, bm b) :: c))
    end.

  Definition nd_axis_c (k : nat) (res : box) (cp : Q) (c : ndcache) : box * Q * ndcache :=
    let lr := nth k res (0, 0)%Z in
    if degenerate lr then (res, cp, c)
    else
      let mid := ((snd lr + fst lr) / 2)%Z in
      let res1 := upd res k (fst lr, mid) in
      let pc := bm_cached c res1 in
      if Qltb (fst pc) cp then (upd res k (Z.min (snd lr) (mid + 1), snd lr), cp - fst pc, snd pc) else (res1, cp, snd pc).

  Fixpoint nd_go_c (fuel : nat) (k : nat) (res : box) (cp : Q) (c : ndcache) : option box * ndcache :=
    match fuel with
    | O => (None, c)
    | S f =>
        if (k <? length res)%nat then let rc := nd_axis_c k res cp c in nd_go_c f (S k) (fst (fst rc)) (snd (fst rc)) (snd rc)
        else if all_degenerate res then (Some res, c) else nd_go_c f 0 res cp c
    end.

  Definition sample_one_bucket_c (res : box) (c : ndcache) (cp : Q) : option (list Z) * ndcache :=
    let r := nd_go_c (nd_fuel res) (length res) res cp c in (option_map (map fst) (fst r), snd r).
End NdCached.

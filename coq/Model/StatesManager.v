(* Hand-written model of rpylib/distribution/pairing.py: StatesManager.project_index_to_state_increment
   (the repaired method: a restart resumes after the last LOGGED state)

     if x == max_logged: self._last_projected_index = self._last_logged_index
     xx = max(x, self._last_projected_index + 1)
     while xx <= self.max_frontier_indices:
         if not is_outside(state_increment := project(xx)):
             self._last_projected_index = xx
             if x < max_logged or max_logged < 0: self._last_logged_index = xx
             return state_increment, False
         xx = xx + 1
     self._last_projected_index = xx
     return self._sample_frontier_state_increment(), True

   over an abstract enumeration: project = self.pairing.project (index -> state increment),
   outside = self.is_outside, maxf = self.max_frontier_indices.  The state of the machine is the pair
   (_last_projected_index, _last_logged_index), initially (-1, -1).  x is the RANK of the requested state
   among the admissible ones (InversionMethod: number of states returned before it), not a pairing index.
   The random frontier draw returned on exhaustion is not modelled: exhaustion is (None, true). *)
From Coq Require Import ZArith List Bool.
Import ListNotations.
Open Scope Z_scope.

Definition sm_init : Z * Z := (-1, -1).

Section StatesManager.
  Variable State : Type.
  Variable project : Z -> State.
  Variable outside : State -> bool.
  Variable maxf : Z.

  (* the while loop started at xx with fuel = number of indices left in [xx, maxf]:
     result = (index found, new _last_projected_index) *)
  Fixpoint sm_search (fuel : nat) (xx : Z) : option Z * Z :=
    match fuel with
    | O => (None, xx)
    | S k => if outside (project xx) then sm_search k (xx + 1) else (Some xx, xx)
    end.

  (* one call, returning the index whose state is returned (None = exhausted) and the new state
     st = (_last_projected_index, _last_logged_index) *)
  Definition sm_step_index (st : Z * Z) (x max_logged : Z) : option Z * (Z * Z) :=
    let last0 := if x =? max_logged then snd st else fst st in
    let xx := Z.max x (last0 + 1) in
    let r := sm_search (Z.to_nat (maxf + 1 - xx)) xx in
    match fst r with
    | Some _ => (fst r, (snd r, if (x <? max_logged) || (max_logged <? 0) then snd r else snd st))
    | None => (None, (snd r, snd st))
    end.

  (* one call as the code returns it: ((state increment, break flag), new state) *)
  Definition sm_lift (o : option Z) : option State * bool :=
    match o with Some i => (Some (project i), false) | None => (None, true) end.
  Definition sm_step (st : Z * Z) (x max_logged : Z) : (option State * bool) * (Z * Z) :=
    let r := sm_step_index st x max_logged in (sm_lift (fst r), snd r).

  (* a history of calls (x, max_logged) *)
  Fixpoint sm_run_index (st : Z * Z) (calls : list (Z * Z)) : list (option Z) :=
    match calls with
    | [] => []
    | c :: r => let s := sm_step_index st (fst c) (snd c) in fst s :: sm_run_index (snd s) r
    end.
  Fixpoint sm_run (st : Z * Z) (calls : list (Z * Z)) : list (option State * bool) :=
    match calls with
    | [] => []
    | c :: r => let s := sm_step st (fst c) (snd c) in fst s :: sm_run (snd s) r
    end.

  (* the calls x = 0, 1, ..., n-1 with max_logged = ml x *)
  Definition sm_incr_calls (ml : Z -> Z) (n : nat) : list (Z * Z) :=
    map (fun k => (Z.of_nat k, ml (Z.of_nat k))) (seq 0 n).
End StatesManager.

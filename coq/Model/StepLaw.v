(* C02 -- the law of a discrete sampler without measure theory.
   A sampler that consumes one uniform u is a STEP FUNCTION of u: there is an explicit finite list of
   consecutive intervals (given by their lengths, laid out from a start point c) with labels such that
   sample u = label of the interval that contains u.  The mass a sampler gives to label k is the total
   length of the intervals labelled k.  *)
From Coq Require Import List ZArith QArith Bool.
From RV Require Import Base.QB.
Import ListNotations.
Open Scope Q_scope.

Definition seg := (Q * Z)%type.          (* (length, label) *)

(* intervals closed on the left:  [c, c+l1), [c+l1, c+l1+l2), ...   (u < bound -> take it) *)
Fixpoint locate (c : Q) (segs : list seg) (u : Q) : option Z :=
  match segs with
  | [] => None
  | (l, k) :: r => if Qltb u (c + l) then Some k else locate (c + l) r u
  end.

(* intervals closed on the right:  (c, c+l1], (c+l1, c+l1+l2], ...  (u <= bound -> take it) *)
Fixpoint locate_r (c : Q) (segs : list seg) (u : Q) : option Z :=
  match segs with
  | [] => None
  | (l, k) :: r => if Qle_bool u (c + l) then Some k else locate_r (c + l) r u
  end.

Fixpoint len_of (k : Z) (segs : list seg) : Q :=
  match segs with
  | [] => 0
  | (l, k') :: r => (if Z.eqb k' k then l else 0) + len_of k r
  end.

Fixpoint total (segs : list seg) : Q :=
  match segs with [] => 0 | (l, _) :: r => l + total r end.

Definition seg_nonneg (segs : list seg) : Prop := Forall (fun s => 0 <= fst s) segs.

Fixpoint qsum (l : list Q) : Q := match l with [] => 0 | x :: r => x + qsum r end.

(* a probability vector: non-negative entries (zeros and ties allowed) *)
Definition nonneg (p : list Q) : Prop := Forall (fun x => 0 <= x) p.

(* segments of a vector in its own order: state i has length p_i *)
Fixpoint segs_from (i : Z) (p : list Q) : list seg :=
  match p with [] => [] | x :: r => (x, i) :: segs_from (i + 1) r end.

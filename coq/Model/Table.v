(* C02 -- model of rpylib/distribution/variate/table.py (Marsaglia's 256-slot table + alias on the residual).
   create_table: ks[i] = int(256 p_i), thetas[i] = 256 p_i - ks[i], J = ks[0]*[0] + ks[1]*[1] + ... padded
   with -1 up to 256 slots, AliasMethod on thetas / sum(thetas) when the sum is positive.
   Repaired tree (fix: F-C02-1): when the residual is zero and no slot is left, the table alone is returned.
   _sample_one: i = getrandbits(32); J[i & 255] if it is >= 0, else the alias draw with u = i / 2^32.
   The model takes the low byte b and the alias uniform u as two separate arguments.
   Qred (reduction of a fraction to lowest terms, Qred x == x) only keeps the executable model fast. *)
From Coq Require Import List Arith ZArith QArith Qround Bool.
From RV Require Import Base.QB Model.StepLaw Model.Bst Model.Alias.
Import ListNotations.
Open Scope Q_scope.

(* int(x): truncation towards zero *)
Definition Qtrunc (x : Q) : Z := if Qltb x 0 then Qceiling x else Qfloor x.

Definition table_ks (p : list Q) : list Z := map (fun x => Qtrunc (256 * x)) p.
Definition table_thetas (p : list Q) : list Q := map (fun x => 256 * x - inject_Z (Qtrunc (256 * x))) p.

Fixpoint table_slots (i : Z) (ks : list Z) : list Z :=
  match ks with
  | [] => []
  | k :: r => repeat i (Z.to_nat k) ++ table_slots (i + 1)%Z r
  end.

Definition table_J (p : list Q) : list Z :=
  let J := table_slots 0 (table_ks p) in
  J ++ repeat (-1)%Z (Z.abs_nat (256 - Z.of_nat (length J))).

Inductive table_result : Type :=
| TableAlias (J : list Z) (aJ : list nat) (aq : list Q)     (* table + embedded alias tables *)
| TableOnly (J : list Z)                                     (* every 256 p_i is an integer: no residual *)
| TableError.                                                (* ValueError("probabilities is an array of 0s") *)

Definition create_table (p : list Q) : table_result :=
  let thetas := table_thetas p in
  let J := table_J p in
  let s := Qred (qsum thetas) in
  if Qltb 0 s then
    let a := create_alias (map (fun t => Qred (t / s)) thetas) in TableAlias J (fst a) (snd a)
  else if (length (table_slots 0 (table_ks p)) =? 256)%nat then TableOnly J
  else TableError.

(* _sample_one with the byte b = i & 255 and the alias uniform u; None: no state can be produced *)
Definition table_draw (t : table_result) (b : nat) (u : Q) : option Z :=
  match t with
  | TableAlias J aJ aq =>
      let ji := nth b J (-1)%Z in
      if (0 <=? ji)%Z then Some ji else Some (Z.of_nat (alias_draw (length aq) aq aJ u))
  | TableOnly J => let ji := nth b J (-1)%Z in if (0 <=? ji)%Z then Some ji else None
  | TableError => None
  end.

(* _sample_one exactly as written: ONE 32-bit word i gives both the slot byte i & 255 and the alias uniform i * 2^-32 *)
Definition table_draw_word (t : table_result) (w : Z) : option Z :=
  table_draw t (Z.to_nat (w mod 256)) (inject_Z w / inject_Z (2 ^ 32)).

(* C01 -- proofs about Model/Chain.v: cells tile the truncated support, rates are non-negative cell masses,
   their sum telescopes to the reported intensity (any axis length); truncation = intersection. *)
From Coq Require Import ZArith QArith Qabs List Bool Lia Lqa Morphisms Setoid.
From RV Require Import Base.QB Model.Grid Gen.GenC01Trunc Model.Chain Proofs.C13_Grid.
Import ListNotations.
Open Scope Q_scope.

(* ---------- sums *)
Lemma qsum_app l1 l2 : qsum (l1 ++ l2) == qsum l1 + qsum l2.
Proof. unfold qsum. induction l1 as [|x r IH]; simpl; [lra|]. rewrite IH. lra. Qed.

Lemma qsum_map_ext_in {A} (f g : A -> Q) l : (forall x, In x l -> f x == g x) -> qsum (map f l) == qsum (map g l).
Proof.
  unfold qsum. induction l as [|x r IH]; intros H; simpl; [reflexivity|].
  rewrite (H x (or_introl eq_refl)), IH; [reflexivity|]. intros y Hy. apply H. right. exact Hy.
Qed.

Lemma qsum_nonneg l : (forall x, In x l -> 0 <= x) -> 0 <= qsum l.
Proof.
  unfold qsum. induction l as [|x r IH]; intros H; simpl; [lra|].
  assert (0 <= x) by (apply H; left; reflexivity).
  assert (0 <= fold_right Qplus 0 r) by (apply IH; intros y Hy; apply H; right; exact Hy). lra.
Qed.

Lemma seq_split3 n o : (o < n)%nat -> seq 0 n = seq 0 o ++ o :: seq (o + 1) (n - o - 1).
Proof.
  intros H. replace n with (o + (1 + (n - o - 1)))%nat at 1 by lia.
  rewrite seq_app. simpl. f_equal. f_equal. f_equal. lia.
Qed.

(* the end points of the axis are not the origin *)
Definition ends_ok (xs : list Q) : Prop := nthq xs 0 < 0 /\ 0 < nthq xs (length xs - 1).
Lemma admissible_ends xs o h : admissible xs o h -> ends_ok xs.
Proof.
  intros (Hi & H1 & H2 & Hh & H0 & _). split.
  - rewrite <- H0. apply incr_nth_lt; [exact Hi|lia|lia].
  - rewrite <- H0. apply incr_nth_lt; [exact Hi|lia|lia].
Qed.
Lemma neq0_neg x : x < 0 -> ~ x == 0.
Proof. intros H E. rewrite E in H. lra. Qed.
Lemma neq0_pos x : 0 < x -> ~ x == 0.
Proof. intros H E. rewrite E in H. lra. Qed.

Section Measure.
  Variable mid : Q -> Q -> Q.
  Hypothesis mid_between : forall x y, x < y -> x < mid x y /\ mid x y < y.
  Hypothesis mid_refl : forall x, ~ x == 0 -> mid x x == x.      (* only used at the two end points of the axis *)
  Hypothesis mid_proper : forall x x' y y', x == x' -> y == y' -> mid x y == mid x' y'.
  Variable mass : Q -> Q -> Q.
  (* additivity / positivity are only required of intervals that do not contain the origin, where a Levy measure is
     finite (infinite-activity measures, VG and CGMY, have infinite mass on every neighbourhood of 0) *)
  Hypothesis mass_add : forall a b c, a <= b -> b <= c -> (c < 0 \/ 0 < a) -> mass a c == mass a b + mass b c.
  Hypothesis mass_pos : forall a b, a <= b -> (b < 0 \/ 0 < a) -> 0 <= mass a b.
  Hypothesis mass_proper : forall a a' b b', a == a' -> b == b' -> mass a b == mass a' b'.

  (* ---------- telescoping over consecutive intervals, any length *)
  Lemma tele_le (lo hi : nat -> Q) m : forall a, (1 <= m)%nat ->
    (forall k, (a <= k < a + m)%nat -> lo k <= hi k) ->
    (forall k, (a <= k)%nat -> (k + 1 < a + m)%nat -> hi k == lo (k + 1)%nat) ->
    lo a <= hi (a + m - 1)%nat.
  Proof.
    induction m as [|m IH]; intros a Hm Hle Heq; [lia|].
    destruct m as [|m'].
    - replace (a + 1 - 1)%nat with a by lia. apply Hle. lia.
    - apply Qle_trans with (hi a); [apply Hle; lia|]. rewrite (Heq a) by lia.
      replace (a + S (S m') - 1)%nat with (a + 1 + S m' - 1)%nat by lia.
      apply IH; [lia| |]; intros k Hk; [apply Hle; lia|intros; apply Heq; lia].
  Qed.

  Lemma telescope (lo hi : nat -> Q) m : forall a, (1 <= m)%nat ->
    (forall k, (a <= k < a + m)%nat -> lo k <= hi k) ->
    (forall k, (a <= k)%nat -> (k + 1 < a + m)%nat -> hi k == lo (k + 1)%nat) ->
    ((forall k, (a <= k < a + m)%nat -> hi k < 0) \/ (forall k, (a <= k < a + m)%nat -> 0 < lo k)) ->
    qsum (map (fun k => mass (lo k) (hi k)) (seq a m)) == mass (lo a) (hi (a + m - 1)%nat).
  Proof.
    induction m as [|m IH]; intros a Hm Hle Heq Hside; [lia|].
    destruct m as [|m'].
    - simpl. replace (a + 1 - 1)%nat with a by lia. unfold qsum. simpl. lra.
    - change (seq a (S (S m'))) with (a :: seq (S a) (S m')). cbn [map]. unfold qsum at 1. cbn [fold_right]. fold (qsum (map (fun k => mass (lo k) (hi k)) (seq (S a) (S m')))).
      rewrite IH; [|lia| | |]; [|intros k Hk; apply Hle; lia|intros k H1 H2; apply Heq; lia
                                |destruct Hside as [Hs|Hs]; [left|right]; intros k Hk; apply Hs; lia].
      replace (S a + S m' - 1)%nat with (a + S (S m') - 1)%nat by lia.
      assert (E : hi a == lo (S a)) by (replace (S a) with (a + 1)%nat by lia; apply Heq; lia).
      rewrite (mass_proper (lo (S a)) (hi a) (hi (a + S (S m') - 1)%nat) (hi (a + S (S m') - 1)%nat)); [|symmetry; exact E|reflexivity].
      symmetry. apply mass_add; [apply Hle; lia| |destruct Hside as [Hs|Hs]; [left|right]; apply Hs; lia].
      rewrite E. replace (a + S (S m') - 1)%nat with (S a + S m' - 1)%nat by lia.
      apply tele_le; [lia| |]; [intros k Hk; apply Hle; lia|intros k H1 H2; apply Heq; lia].
  Qed.

  (* ---------- cells *)
  Lemma right_point_inner xs k : (k + 1 < length xs)%nat -> right_point xs k = nthq xs (k + 1).
  Proof. intros H. unfold right_point. f_equal. lia. Qed.
  Lemma right_point_last xs k : (k + 1 = length xs)%nat -> right_point xs k = nthq xs k.
  Proof. intros H. unfold right_point. f_equal. lia. Qed.
  Lemma left_point_inner xs k : (1 <= k)%nat -> left_point xs k = nthq xs (k - 1).
  Proof. intros H. unfold left_point. f_equal. lia. Qed.

  Lemma cell_share xs k : (k + 1 < length xs)%nat -> cell_hi mid xs k = cell_lo mid xs (k + 1).
  Proof.
    intros H. unfold cell_hi, cell_lo. rewrite right_point_inner by exact H.
    rewrite left_point_inner by lia. replace (k + 1 - 1)%nat with k by lia. reflexivity.
  Qed.

  Lemma cell_lo_le xs k : incr xs -> ends_ok xs -> (k < length xs)%nat ->
    cell_lo mid xs k <= nthq xs k /\ ((1 <= k)%nat -> cell_lo mid xs k < nthq xs k) /\ ((1 <= k)%nat -> nthq xs (k - 1) < cell_lo mid xs k).
  Proof.
    intros Hi [E0 EN] Hk. unfold cell_lo. destruct k as [|k].
    - unfold left_point. simpl Nat.pred. rewrite mid_refl by (apply neq0_neg; exact E0). split; [lra|]. split; intros; lia.
    - rewrite left_point_inner by lia. replace (S k - 1)%nat with k by lia.
      assert (L : nthq xs k < nthq xs (S k)) by (replace (S k) with (k + 1)%nat by lia; apply incr_nth_succ; [exact Hi|lia]).
      destruct (mid_between _ _ L). split; [lra|]. split; intros; assumption.
  Qed.

  Lemma cell_hi_ge xs k : incr xs -> ends_ok xs -> (k < length xs)%nat ->
    nthq xs k <= cell_hi mid xs k /\ ((k + 1 < length xs)%nat -> nthq xs k < cell_hi mid xs k /\ cell_hi mid xs k < nthq xs (k + 1)).
  Proof.
    intros Hi [E0 EN] Hk. unfold cell_hi. destruct (Nat.eq_dec (k + 1) (length xs)) as [E|E].
    - rewrite right_point_last by exact E.
      rewrite mid_refl by (apply neq0_pos; replace k with (length xs - 1)%nat by lia; exact EN). split; [lra|]. intros; lia.
    - rewrite right_point_inner by lia.
      assert (L : nthq xs k < nthq xs (k + 1)) by (apply incr_nth_succ; [exact Hi|lia]).
      destruct (mid_between _ _ L). split; [lra|]. intros; split; assumption.
  Qed.

  Lemma cell_lo_hi xs k : incr xs -> ends_ok xs -> (k < length xs)%nat -> cell_lo mid xs k <= cell_hi mid xs k.
  Proof. intros Hi He Hk. destruct (cell_lo_le xs k Hi He Hk) as [A _]. destruct (cell_hi_ge xs k Hi He Hk) as [B _]. lra. Qed.

  Lemma cell_lo_mono xs : incr xs -> ends_ok xs -> forall k k', (k <= k')%nat -> (k' < length xs)%nat -> cell_lo mid xs k <= cell_lo mid xs k'.
  Proof.
    intros Hi He k k' Hle Hk'. induction k' as [|k' IH]; [replace k with 0%nat by lia; lra|].
    destruct (Nat.eq_dec k (S k')) as [->|Hne]; [lra|].
    apply Qle_trans with (cell_lo mid xs k'); [apply IH; lia|].
    apply Qle_trans with (cell_hi mid xs k'); [apply cell_lo_hi; [exact Hi|exact He|lia]|].
    rewrite cell_share by lia. replace (k' + 1)%nat with (S k') by lia. lra.
  Qed.

  (* no overlap beyond end points: the cell of a state ends before the cell of every later state begins *)
  Lemma cells_ordered xs k k' : incr xs -> ends_ok xs -> (k < k')%nat -> (k' < length xs)%nat -> cell_hi mid xs k <= cell_lo mid xs k'.
  Proof.
    intros Hi He Hlt Hk'. rewrite cell_share by lia. apply cell_lo_mono; [exact Hi|exact He|lia|exact Hk'].
  Qed.

  (* the cells of the states left of the origin lie strictly left of 0, those right of it strictly right of 0 *)
  Lemma cell_side xs o : incr xs -> ends_ok xs -> (1 <= o)%nat -> (o + 1 < length xs)%nat -> nthq xs o == 0 ->
    forall k, (k < length xs)%nat -> ((k < o)%nat -> cell_hi mid xs k < 0) /\ ((o < k)%nat -> 0 < cell_lo mid xs k).
  Proof.
    intros Hi He H1 H2 H0 k Hk. split; intros Hko.
    - apply Qle_lt_trans with (cell_lo mid xs o); [apply cells_ordered; try assumption; lia|].
      destruct (cell_lo_le xs o Hi He ltac:(lia)) as (_ & A & _). rewrite <- H0. apply A. lia.
    - apply Qlt_le_trans with (cell_lo mid xs (o + 1)); [|apply cell_lo_mono; try assumption; lia].
      destruct (cell_lo_le xs (o + 1) Hi He ltac:(lia)) as (_ & _ & A). rewrite <- H0.
      replace o with (o + 1 - 1)%nat at 1 by lia. apply A. lia.
  Qed.

  Theorem rates_nonneg xs o h k : admissible xs o h -> (k < length xs)%nat -> 0 <= q_entry mid mass xs o k.
  Proof.
    intros A Hk. pose proof (admissible_ends xs o h A) as He. destruct A as (Hi & H1 & H2 & Hh & H0 & _).
    unfold q_entry. destruct (Nat.eqb_spec k o); [lra|].
    destruct (cell_side xs o Hi He H1 H2 H0 k Hk) as [S1 S2].
    apply mass_pos; [apply cell_lo_hi; assumption|].
    destruct (Nat.lt_ge_cases k o); [left; apply S1; assumption|right; apply S2; lia].
  Qed.

  Lemma sum_cells xs a m : incr xs -> ends_ok xs -> (1 <= m)%nat -> (a + m <= length xs)%nat ->
    ((forall k, (a <= k < a + m)%nat -> cell_hi mid xs k < 0) \/ (forall k, (a <= k < a + m)%nat -> 0 < cell_lo mid xs k)) ->
    qsum (map (fun k => mass (cell_lo mid xs k) (cell_hi mid xs k)) (seq a m)) == mass (cell_lo mid xs a) (cell_hi mid xs (a + m - 1)).
  Proof.
    intros Hi He Hm Hl Hs. apply (telescope (cell_lo mid xs) (cell_hi mid xs)); [exact Hm| | |exact Hs].
    - intros k Hk. apply cell_lo_hi; [exact Hi|exact He|lia].
    - intros k H1 H2. rewrite cell_share by lia. reflexivity.
  Qed.

  Theorem sum_rates_is_intensity_1d xs o h : admissible xs o h ->
    qsum (q_vector mid mass xs o) == intensity1 mid mass xs o.
  Proof.
    intros A. pose proof (admissible_ends xs o h A) as He. destruct A as (Hi & Ho1 & Ho2 & Hh & H0 & Hm & Hp).
    pose proof (cell_side xs o Hi He Ho1 Ho2 H0) as CS. unfold q_vector, intensity1.
    rewrite (seq_split3 (length xs) o) by lia. rewrite map_app. cbn [map]. rewrite qsum_app.
    unfold qsum at 2. cbn [fold_right]. fold (qsum (map (q_entry mid mass xs o) (seq (o + 1) (length xs - o - 1)))).
    unfold q_entry at 2. rewrite Nat.eqb_refl.
    rewrite (qsum_map_ext_in (q_entry mid mass xs o) (fun k => mass (cell_lo mid xs k) (cell_hi mid xs k)) (seq 0 o)).
    2:{ intros k Hk. apply in_seq in Hk. unfold q_entry. destruct (Nat.eqb_spec k o); [lia|reflexivity]. }
    rewrite (qsum_map_ext_in (q_entry mid mass xs o) (fun k => mass (cell_lo mid xs k) (cell_hi mid xs k)) (seq (o + 1) _)).
    2:{ intros k Hk. apply in_seq in Hk. unfold q_entry. destruct (Nat.eqb_spec k o); [lia|reflexivity]. }
    rewrite (sum_cells xs 0 o Hi He) by (try lia; left; intros k Hk; apply CS; lia).
    rewrite (sum_cells xs (o + 1) (length xs - o - 1) Hi He) by (try lia; right; intros k Hk; apply CS; lia).
    replace (0 + o - 1)%nat with (o - 1)%nat by lia.
    replace (o + 1 + (length xs - o - 1) - 1)%nat with (length xs - 1)%nat by lia.
    assert (E1 : cell_lo mid xs 0 == headq xs).
    { unfold cell_lo, left_point. simpl Nat.pred. rewrite mid_refl by (apply neq0_neg; apply He). rewrite headq_nth. reflexivity. }
    assert (E2 : cell_hi mid xs (o - 1) == h_left mid xs o).
    { unfold cell_hi, h_left. rewrite right_point_inner by lia. rewrite left_point_inner by lia.
      replace (o - 1 + 1)%nat with o by lia. apply mid_proper; [reflexivity|exact H0]. }
    assert (E3 : cell_lo mid xs (o + 1) == h_right mid xs o).
    { unfold cell_lo, h_right. rewrite left_point_inner by lia. rewrite right_point_inner by lia.
      replace (o + 1 - 1)%nat with o by lia. apply mid_proper; [exact H0|reflexivity]. }
    assert (E4 : cell_hi mid xs (length xs - 1) == lastq xs).
    { unfold cell_hi. rewrite right_point_last by lia. rewrite mid_refl by (apply neq0_pos; apply He). rewrite lastq_nth. reflexivity. }
    rewrite (mass_proper _ _ _ _ E1 E2), (mass_proper _ _ _ _ E3 E4). lra.
  Qed.

  (* the tiling statement *)
  Theorem cells_tile xs o h : admissible xs o h ->
    let n := length xs in
    (forall k, (k < n)%nat -> cell_lo mid xs k <= nthq xs k <= cell_hi mid xs k
                 /\ ((1 <= k)%nat -> cell_lo mid xs k < nthq xs k) /\ ((k + 1 < n)%nat -> nthq xs k < cell_hi mid xs k))
    /\ (forall k, (k + 1 < n)%nat -> cell_hi mid xs k = cell_lo mid xs (k + 1))
    /\ (forall k k', (k < k')%nat -> (k' < n)%nat -> cell_hi mid xs k <= cell_lo mid xs k')
    /\ cell_lo mid xs 0 == headq xs /\ cell_hi mid xs (n - 1) == lastq xs
    /\ cell_hi mid xs (o - 1) == h_left mid xs o /\ cell_lo mid xs (o + 1) == h_right mid xs o
    /\ h_left mid xs o < 0 /\ 0 < h_right mid xs o.
  Proof.
    intros A n. pose proof (admissible_ends xs o h A) as He. destruct A as (Hi & Ho1 & Ho2 & Hh & H0 & Hm & Hp). subst n.
    split; [|split; [|split; [|split; [|split; [|split; [|split; [|split]]]]]]].
    - intros k Hk. destruct (cell_lo_le xs k Hi He Hk) as (A1 & A2 & _). destruct (cell_hi_ge xs k Hi He Hk) as (B1 & B2).
      split; [split; assumption|]. split; [exact A2|]. intros H; apply B2; exact H.
    - intros k Hk. apply cell_share. exact Hk.
    - intros k k' H1 H2. apply cells_ordered; assumption.
    - unfold cell_lo, left_point. simpl Nat.pred. rewrite mid_refl by (apply neq0_neg; apply He). rewrite headq_nth. reflexivity.
    - unfold cell_hi. rewrite right_point_last by lia. rewrite mid_refl by (apply neq0_pos; apply He). rewrite lastq_nth. reflexivity.
    - unfold cell_hi, h_left. rewrite right_point_inner by lia. rewrite left_point_inner by lia.
      replace (o - 1 + 1)%nat with o by lia. apply mid_proper; [reflexivity|exact H0].
    - unfold cell_lo, h_right. rewrite left_point_inner by lia. rewrite right_point_inner by lia.
      replace (o + 1 - 1)%nat with o by lia. apply mid_proper; [exact H0|reflexivity].
    - unfold h_left. rewrite left_point_inner by lia. assert (L : nthq xs (o - 1) < 0) by (rewrite Hm; lra).
      destruct (mid_between _ _ L). assumption.
    - unfold h_right. rewrite right_point_inner by lia. assert (L : 0 < nthq xs (o + 1)) by (rewrite Hp; lra).
      destruct (mid_between _ _ L). assumption.
  Qed.
End Measure.

Lemma Qmaxb_spec x y : (x <= y /\ Qmaxb x y = y) \/ (y < x /\ Qmaxb x y = x).
Proof. unfold Qmaxb. destruct (Qle_bool x y) eqn:E; [left; apply Qle_bool_iff in E|right; apply Qle_bool_false in E]; tauto. Qed.
Lemma Qminb_spec x y : (x <= y /\ Qminb x y = x) \/ (y < x /\ Qminb x y = y).
Proof. unfold Qminb. destruct (Qle_bool x y) eqn:E; [left; apply Qle_bool_iff in E|right; apply Qle_bool_false in E]; tauto. Qed.
Lemma Qltb_spec x y : (x < y /\ Qltb x y = true) \/ (y <= x /\ Qltb x y = false).
Proof. destruct (Qltb x y) eqn:E; [left; apply Qltb_lt in E|right; apply Qltb_false in E]; tauto. Qed.

Ltac qcases :=
  repeat match goal with
  | |- context [Qmaxb ?x ?y] => let H := fresh in let E := fresh in destruct (Qmaxb_spec x y) as [[H E]|[H E]]; rewrite E in *; clear E
  | |- context [Qminb ?x ?y] => let H := fresh in let E := fresh in destruct (Qminb_spec x y) as [[H E]|[H E]]; rewrite E in *; clear E
  | |- context [Qltb ?x ?y] => let H := fresh in let E := fresh in destruct (Qltb_spec x y) as [[H E]|[H E]]; rewrite E in *; clear E
  | _ : context [Qmaxb ?x ?y] |- _ => let H := fresh in let E := fresh in destruct (Qmaxb_spec x y) as [[H E]|[H E]]; rewrite E in *; clear E
  | _ : context [Qminb ?x ?y] |- _ => let H := fresh in let E := fresh in destruct (Qminb_spec x y) as [[H E]|[H E]]; rewrite E in *; clear E
  end.

(* ---------- _truncated_interval (generated definition) *)
Theorem truncated_interval_spec l r a b : l <= r -> a <= b ->
  let '(aa, bb) := truncated_interval l r a b in
  aa <= bb /\ l <= aa /\ bb <= r
  /\ (Qmaxb a l <= Qminb b r -> aa == Qmaxb a l /\ bb == Qminb b r)      (* non-empty intersection: exactly it *)
  /\ (b < l -> aa == l /\ bb == l) /\ (r < a -> aa == r /\ bb == r)       (* disjoint: a degenerate interval *)
  /\ (l <= a -> b <= r -> aa == a /\ bb == b).
Proof.
  intros Hlr Hab. unfold truncated_interval. cbv beta iota zeta.
  qcases; repeat split; intros; try lra.
Qed.

Section Trunc.
  Variable mass : Q -> Q -> Q.
  Hypothesis mass_add : forall a b c, a <= b -> b <= c -> mass a c == mass a b + mass b c.
  Hypothesis mass_pos : forall a b, a <= b -> 0 <= mass a b.
  Hypothesis mass_proper : forall a a' b b', a == a' -> b == b' -> mass a b == mass a' b'.
  Variables l r : Q.
  Hypothesis l_le_r : l <= r.

  Definition clip (x : Q) : Q := Qminb (Qmaxb x l) r.

  Lemma tmass_clip a b : a <= b -> tmass mass l r a b == mass (clip a) (clip b).
  Proof.
    intros Hab. unfold tmass, truncated_interval, clip. cbv beta iota zeta.
    apply mass_proper; qcases; lra.
  Qed.
  Lemma clip_mono a b : a <= b -> clip a <= clip b.
  Proof. intros. unfold clip. qcases; lra. Qed.
  Lemma clip_proper a a' : a == a' -> clip a == clip a'.
  Proof. intros E. unfold clip. qcases; lra. Qed.

  Theorem tmass_add a b c : a <= b -> b <= c -> tmass mass l r a c == tmass mass l r a b + tmass mass l r b c.
  Proof.
    intros H1 H2. rewrite !tmass_clip by lra. apply mass_add; apply clip_mono; assumption.
  Qed.
  Theorem tmass_pos a b : a <= b -> 0 <= tmass mass l r a b.
  Proof. intros H. rewrite tmass_clip by exact H. apply mass_pos. apply clip_mono. exact H. Qed.
  Theorem tmass_proper a a' b b' : a == a' -> b == b' -> tmass mass l r a b == tmass mass l r a' b'.
  Proof.
    intros E1 E2. unfold tmass, truncated_interval. cbv beta iota zeta.
    apply mass_proper; qcases; lra.
  Qed.
  Theorem tmass_inside a b : l <= a -> a <= b -> b <= r -> tmass mass l r a b == mass a b.
  Proof.
    intros H1 H2 H3. unfold tmass, truncated_interval. cbv beta iota zeta. apply mass_proper; qcases; lra.
  Qed.
  (* the truncated mass of [a,b] is the mass of the intersection with [l,r]; 0-width when they are disjoint *)
  Theorem tmass_is_intersection a b : a <= b -> Qmaxb a l <= Qminb b r -> tmass mass l r a b == mass (Qmaxb a l) (Qminb b r).
  Proof.
    intros H1 H2. unfold tmass, truncated_interval. cbv beta iota zeta. apply mass_proper; revert H2; qcases; intros; lra.
  Qed.
End Trunc.

(* the same for a mass that is additive / non-negative only away from the origin; truncation bounds l < 0 < r *)
Section TruncR.
  Variable mass : Q -> Q -> Q.
  Hypothesis mass_add : forall a b c, a <= b -> b <= c -> (c < 0 \/ 0 < a) -> mass a c == mass a b + mass b c.
  Hypothesis mass_pos : forall a b, a <= b -> (b < 0 \/ 0 < a) -> 0 <= mass a b.
  Hypothesis mass_proper : forall a a' b b', a == a' -> b == b' -> mass a b == mass a' b'.
  Variables l r : Q.
  Hypothesis l_neg : l < 0.
  Hypothesis r_pos : 0 < r.

  Lemma clip_neg x : x < 0 -> clip l r x < 0.
  Proof. intros. unfold clip. qcases; lra. Qed.
  Lemma clip_pos x : 0 < x -> 0 < clip l r x.
  Proof. intros. unfold clip. qcases; lra. Qed.

  Theorem tmass_add_r a b c : a <= b -> b <= c -> (c < 0 \/ 0 < a) ->
    tmass mass l r a c == tmass mass l r a b + tmass mass l r b c.
  Proof.
    intros H1 H2 Hs. assert (LR : l <= r) by lra.
    rewrite !(tmass_clip mass mass_proper l r LR) by lra.
    apply mass_add; [apply clip_mono; assumption|apply clip_mono; assumption|].
    destruct Hs; [left; apply clip_neg|right; apply clip_pos]; assumption.
  Qed.
  Theorem tmass_pos_r a b : a <= b -> (b < 0 \/ 0 < a) -> 0 <= tmass mass l r a b.
  Proof.
    intros H Hs. assert (LR : l <= r) by lra. rewrite (tmass_clip mass mass_proper l r LR) by exact H.
    apply mass_pos; [apply clip_mono; assumption|]. destruct Hs; [left; apply clip_neg|right; apply clip_pos]; assumption.
  Qed.
End TruncR.

Ltac try_eq x y := try (let E := fresh "E" in assert (E : x == y) by lra; rewrite E in *; clear E).
Ltac eqs5 a b c lo hi :=
  try_eq a b; try_eq a c; try_eq a lo; try_eq a hi; try_eq b c; try_eq b lo; try_eq b hi; try_eq c lo; try_eq c hi; try_eq lo hi.

Section ChainRates.
  Variable mid : Q -> Q -> Q.
  Hypothesis mid_between : forall x y, x < y -> x < mid x y /\ mid x y < y.
  Hypothesis mid_refl : forall x, ~ x == 0 -> mid x x == x.
  Hypothesis mid_proper : forall x x' y y', x == x' -> y == y' -> mid x y == mid x' y'.
  Variable mass : Q -> Q -> Q.
  Hypothesis mass_add : forall a b c, a <= b -> b <= c -> (c < 0 \/ 0 < a) -> mass a c == mass a b + mass b c.
  Hypothesis mass_pos : forall a b, a <= b -> (b < 0 \/ 0 < a) -> 0 <= mass a b.
  Hypothesis mass_proper : forall a a' b b', a == a' -> b == b' -> mass a b == mass a' b'.

  Theorem truncated_mass l r : l < 0 -> 0 < r ->
    (forall a b c, a <= b -> b <= c -> (c < 0 \/ 0 < a) -> tmass mass l r a c == tmass mass l r a b + tmass mass l r b c)
    /\ (forall a b, a <= b -> (b < 0 \/ 0 < a) -> 0 <= tmass mass l r a b)
    /\ (forall a a' b b', a == a' -> b == b' -> tmass mass l r a b == tmass mass l r a' b')
    /\ (forall a b, l <= a -> a <= b -> b <= r -> tmass mass l r a b == mass a b)
    /\ (forall a b, a <= b -> Qmaxb a l <= Qminb b r -> tmass mass l r a b == mass (Qmaxb a l) (Qminb b r)).
  Proof.
    intros Hl Hr. assert (H : l <= r) by lra. split; [intros; apply tmass_add_r; assumption|].
    split; [intros; apply tmass_pos_r; assumption|].
    split; [intros; apply tmass_proper; assumption|].
    split; [intros; apply tmass_inside; assumption|intros; apply tmass_is_intersection; assumption].
  Qed.

  Theorem chain_rates xs o h : admissible xs o h ->
    let m := tmass mass (headq xs) (lastq xs) in
    qsum (q_vector mid m xs o) == intensity1 mid m xs o
    /\ (forall k, (k < length xs)%nat -> 0 <= q_entry mid m xs o k)
    /\ (forall k, (k < length xs)%nat -> k <> o -> q_entry mid m xs o k == mass (cell_lo mid xs k) (cell_hi mid xs k)).
  Proof.
    intros A m.
    assert (LR : headq xs <= lastq xs).
    { destruct A as (Hi & Ho1 & Ho2 & _). rewrite headq_nth, lastq_nth.
      apply Qlt_le_weak. apply incr_nth_lt; [exact Hi|lia|lia]. }
    pose proof (admissible_ends xs o h A) as He.
    assert (Ln : headq xs < 0) by (rewrite headq_nth; apply He).
    assert (Rp : 0 < lastq xs) by (rewrite lastq_nth; apply He).
    assert (MA : forall a b c, a <= b -> b <= c -> (c < 0 \/ 0 < a) -> m a c == m a b + m b c) by (intros; apply tmass_add_r; assumption).
    assert (MP : forall a b, a <= b -> (b < 0 \/ 0 < a) -> 0 <= m a b) by (intros; apply tmass_pos_r; assumption).
    assert (MR : forall a a' b b', a == a' -> b == b' -> m a b == m a' b') by (intros; apply tmass_proper; assumption).
    split; [|split].
    - apply (sum_rates_is_intensity_1d mid) with (h := h); assumption.
    - intros k Hk. apply (rates_nonneg mid) with (h := h); assumption.
    - intros k Hk Hne. unfold q_entry. destruct (Nat.eqb_spec k o); [contradiction|].
      pose proof (cells_tile mid mid_between mid_refl mid_proper xs o h A) as T. cbv zeta in T.
      destruct T as (T1 & T2 & T3 & T4 & T5 & _). destruct A as (Hi & Ho1 & Ho2 & _).
      apply tmass_inside; try assumption.
      + rewrite <- T4. apply (cell_lo_mono mid); try assumption; lia.
      + apply (cell_lo_hi mid); assumption.
      + rewrite <- T5. destruct (Nat.eq_dec k (length xs - 1)) as [->|Hn]; [apply Qle_refl|].
        apply Qle_trans with (cell_lo mid xs (length xs - 1)); [apply T3; lia|].
        apply (cell_lo_hi mid); try assumption. lia.
  Qed.
End ChainRates.

(* ---------- the step measure used to run the model is an additive non-negative interval function *)
Lemma piece_mass_add a b c p : a <= b -> b <= c -> piece_mass a c p == piece_mass a b p + piece_mass b c p.
Proof.
  destruct p as [[lo hi] d]. intros H1 H2. unfold piece_mass. qcases; try lra; eqs5 a b c lo hi; lra.
Qed.
Lemma piece_mass_pos a b p : 0 <= snd p -> 0 <= piece_mass a b p.
Proof.
  destruct p as [[lo hi] d]. simpl. intros Hd. unfold piece_mass. qcases; try lra; apply Qmult_le_0_compat; lra.
Qed.
Lemma piece_mass_proper a a' b b' p : a == a' -> b == b' -> piece_mass a b p == piece_mass a' b' p.
Proof.
  destruct p as [[lo hi] d]. intros E1 E2. unfold piece_mass. qcases; try lra;
    try_eq a a'; try_eq b b'; try lra; eqs5 a' b' a' lo hi; lra.
Qed.

Theorem step_mass_add ps a b c : a <= b -> b <= c -> step_mass ps a c == step_mass ps a b + step_mass ps b c.
Proof.
  intros H1 H2. unfold step_mass, qsum. induction ps as [|p r IH]; simpl; [lra|].
  rewrite IH, (piece_mass_add a b c p H1 H2). lra.
Qed.
Theorem step_mass_pos ps a b : Forall (fun p => 0 <= snd p) ps -> 0 <= step_mass ps a b.
Proof.
  intros H. unfold step_mass, qsum. induction ps as [|p r IH]; simpl; [lra|].
  inversion H; subst. pose proof (piece_mass_pos a b p H2). specialize (IH H3). lra.
Qed.
Theorem step_mass_proper ps a a' b b' : a == a' -> b == b' -> step_mass ps a b == step_mass ps a' b'.
Proof.
  intros E1 E2. unfold step_mass, qsum. induction ps as [|p r IH]; simpl; [lra|].
  rewrite IH, (piece_mass_proper a a' b b' p E1 E2). lra.
Qed.

(* C01 -- the product grid in dimension 2: the rates of all non-origin states sum to the intensity computed from the
   3^2-1 blocks (samplingfactory.compute_intensity_of_jumps), by telescoping axis by axis. *)
From Coq Require Import ZArith QArith Qabs List Bool Lia Lqa.
From RV Require Import Base.QB Model.Grid Gen.GenC01Trunc Model.Chain Proofs.C13_Grid Proofs.C01_Chain.
Import ListNotations.
Open Scope Q_scope.

(* telescoping from the left end, with exactly the additivity instances it needs *)
Lemma tele_right (m : Q -> Q -> Q) (lo hi : nat -> Q) : forall n a, (1 <= n)%nat ->
  (forall k, (a <= k)%nat -> (k + 1 < a + n)%nat -> m (lo a) (hi (k + 1)%nat) == m (lo a) (hi k) + m (lo (k + 1)%nat) (hi (k + 1)%nat)) ->
  qsum (map (fun k => m (lo k) (hi k)) (seq a n)) == m (lo a) (hi (a + n - 1)%nat).
Proof.
  induction n as [|n IH]; intros a Hn Hs; [lia|].
  destruct n as [|n'].
  - unfold qsum. simpl. replace (a + 1 - 1)%nat with a by lia. lra.
  - rewrite seq_S, map_app, qsum_app. rewrite IH; [|lia|intros k H1 H2; apply Hs; lia].
    cbn [map]. unfold qsum at 1. cbn [fold_right].
    replace (a + S n' - 1)%nat with (a + n')%nat by lia.
    replace (a + S (S n') - 1)%nat with (a + n' + 1)%nat by lia.
    replace (a + S n')%nat with (a + n' + 1)%nat by lia.
    rewrite (Hs (a + n')%nat) by lia. lra.
Qed.

Section Chain2d.
  Variable mid : Q -> Q -> Q.
  Hypothesis mid_between : forall x y, x < y -> x < mid x y /\ mid x y < y.
  Hypothesis mid_refl : forall x, ~ x == 0 -> mid x x == x.
  Hypothesis mid_proper : forall x x' y y', x == x' -> y == y' -> mid x y == mid x' y'.
  Variable mass2 : Q * Q -> Q * Q -> Q.
  (* additive under a split of either coordinate interval, non-negative: on boxes that avoid the origin *)
  Hypothesis mass2_add1 : forall a1 b1 c1 y1 y2, a1 <= b1 -> b1 <= c1 -> avoids (a1, y1) (c1, y2) ->
    mass2 (a1, y1) (c1, y2) == mass2 (a1, y1) (b1, y2) + mass2 (b1, y1) (c1, y2).
  Hypothesis mass2_add2 : forall x1 x2 a2 b2 c2, a2 <= b2 -> b2 <= c2 -> avoids (x1, a2) (x2, c2) ->
    mass2 (x1, a2) (x2, c2) == mass2 (x1, a2) (x2, b2) + mass2 (x1, b2) (x2, c2).
  Hypothesis mass2_pos : forall a b, fst a <= fst b -> snd a <= snd b -> avoids a b -> 0 <= mass2 a b.
  Hypothesis mass2_proper : forall a1 a2 b1 b2 a1' a2' b1' b2', a1 == a1' -> a2 == a2' -> b1 == b1' -> b2 == b2' ->
    mass2 (a1, a2) (b1, b2) == mass2 (a1', a2') (b1', b2').

  Local Notation clo := (cell_lo mid).
  Local Notation chi := (cell_hi mid).

  Lemma cell_hi_mono ys : incr ys -> ends_ok ys -> forall k k', (k <= k')%nat -> (k' < length ys)%nat -> chi ys k <= chi ys k'.
  Proof.
    intros Hi He k k' Hle Hk. destruct (Nat.eq_dec k k') as [->|Hne]; [lra|].
    apply Qle_trans with (clo ys k'); [apply (cells_ordered mid); try assumption; lia|apply (cell_lo_hi mid); assumption].
  Qed.

  (* a run of cells of the second axis under a fixed interval [lx, hx] of the first one *)
  Lemma row_sum ys lx hx a n : incr ys -> ends_ok ys -> (1 <= n)%nat -> (a + n <= length ys)%nat ->
    (forall k, (a <= k < a + n)%nat -> avoids (lx, clo ys a) (hx, chi ys k)) ->
    qsum (map (fun j => mass2 (lx, clo ys j) (hx, chi ys j)) (seq a n)) == mass2 (lx, clo ys a) (hx, chi ys (a + n - 1)).
  Proof.
    intros Hi He Hn Hl AV.
    apply (tele_right (fun u v => mass2 (lx, u) (hx, v)) (clo ys) (chi ys) n a Hn).
    intros k H1 H2. cbv beta.
    rewrite (mass2_add2 lx hx (clo ys a) (chi ys k) (chi ys (k + 1))).
    - rewrite (cell_share mid ys k) by lia. reflexivity.
    - apply Qle_trans with (clo ys k); [apply (cell_lo_mono mid); try assumption; lia|apply (cell_lo_hi mid); try assumption; lia].
    - apply cell_hi_mono; try assumption; lia.
    - apply AV. lia.
  Qed.
  Lemma col_sum xs ly hy a n : incr xs -> ends_ok xs -> (1 <= n)%nat -> (a + n <= length xs)%nat ->
    (forall k, (a <= k < a + n)%nat -> avoids (clo xs a, ly) (chi xs k, hy)) ->
    qsum (map (fun i => mass2 (clo xs i, ly) (chi xs i, hy)) (seq a n)) == mass2 (clo xs a, ly) (chi xs (a + n - 1), hy).
  Proof.
    intros Hi He Hn Hl AV.
    apply (tele_right (fun u v => mass2 (u, ly) (v, hy)) (clo xs) (chi xs) n a Hn).
    intros k H1 H2. cbv beta.
    rewrite (mass2_add1 (clo xs a) (chi xs k) (chi xs (k + 1)) ly hy).
    - rewrite (cell_share mid xs k) by lia. reflexivity.
    - apply Qle_trans with (clo xs k); [apply (cell_lo_mono mid); try assumption; lia|apply (cell_lo_hi mid); try assumption; lia].
    - apply cell_hi_mono; try assumption; lia.
    - apply AV. lia.
  Qed.

  (* what an admissible axis provides *)
  Lemma axis_facts xs o h : admissible xs o h ->
    incr xs /\ ends_ok xs /\ (1 <= o)%nat /\ (o + 1 < length xs)%nat
    /\ clo xs 0 == headq xs /\ chi xs (length xs - 1) == lastq xs
    /\ chi xs (o - 1) == h_left mid xs o /\ clo xs (o + 1) == h_right mid xs o
    /\ h_left mid xs o < 0 /\ 0 < h_right mid xs o
    /\ (forall k, (k < length xs)%nat -> ((k < o)%nat -> chi xs k < 0) /\ ((o < k)%nat -> 0 < clo xs k))
    /\ clo xs o = chi xs (o - 1) /\ chi xs o = clo xs (o + 1).
  Proof.
    intros A. pose proof (admissible_ends xs o h A) as He.
    pose proof (cells_tile mid mid_between mid_refl mid_proper xs o h A) as T. cbv zeta in T.
    destruct T as (_ & _ & _ & T4 & T5 & T6 & T7 & T8 & T9).
    destruct A as (Hi & H1 & H2 & Hh & H0 & _).
    split; [exact Hi|]. split; [exact He|]. split; [exact H1|]. split; [exact H2|].
    split; [exact T4|]. split; [exact T5|]. split; [exact T6|]. split; [exact T7|]. split; [exact T8|]. split; [exact T9|].
    split; [intros k Hk; apply (cell_side mid mid_between mid_refl xs o Hi He H1 H2 H0 k Hk)|].
    split; [rewrite (cell_share mid xs (o - 1)) by lia; f_equal; lia|apply (cell_share mid xs o); lia].
  Qed.

  Lemma qsum2_matrix xs ys o :
    qsum2 (q_matrix2 mid mass2 xs ys o) = qsum (map (fun i => qsum (map (q_entry2 mid mass2 xs ys o i) (seq 0 (length ys)))) (seq 0 (length xs))).
  Proof. unfold qsum2, q_matrix2. rewrite map_map. reflexivity. Qed.

  Theorem sum_rates_is_intensity_2d xs ys o hx hy : admissible xs o hx -> admissible ys o hy ->
    qsum2 (q_matrix2 mid mass2 xs ys o) == intensity2 mid mass2 xs ys o.
  Proof.
    intros Ax Ay.
    destruct (axis_facts xs o hx Ax) as (Xi & Xe & X1 & X2 & XE1 & XE4 & XE2 & XE3 & XN & XP & XS & XC1 & XC2).
    destruct (axis_facts ys o hy Ay) as (Yi & Ye & Y1 & Y2 & YE1 & YE4 & YE2 & YE3 & YN & YP & YS & YC1 & YC2).
    rewrite qsum2_matrix.
    set (nx := length xs) in *. set (ny := length ys) in *.
    (* rows of the states off the origin row *)
    assert (RowOff : forall i, (i < nx)%nat -> i <> o ->
              qsum (map (q_entry2 mid mass2 xs ys o i) (seq 0 ny)) == mass2 (clo xs i, clo ys 0) (chi xs i, chi ys (ny - 1))).
    { intros i Hi Hne.
      rewrite (qsum_map_ext_in (q_entry2 mid mass2 xs ys o i) (fun j => mass2 (clo xs i, clo ys j) (chi xs i, chi ys j))).
      2:{ intros j _. unfold q_entry2. destruct (Nat.eqb_spec i o); [contradiction|reflexivity]. }
      assert (R : qsum (map (fun j => mass2 (clo xs i, clo ys j) (chi xs i, chi ys j)) (seq 0 ny))
                  == mass2 (clo xs i, clo ys 0) (chi xs i, chi ys (0 + ny - 1))).
      { apply (row_sum ys (clo xs i) (chi xs i) 0 ny Yi Ye); try (unfold ny; lia).
        intros k _; unfold avoids; cbn [fst snd]; destruct (XS i Hi) as [S1 S2].
        destruct (Nat.lt_ge_cases i o); [left; apply S1; assumption|right; left; apply S2; lia]. }
      rewrite R. replace (0 + ny - 1)%nat with (ny - 1)%nat by lia. reflexivity. }
    (* the row of the origin index: all columns but the origin *)
    assert (RowO : qsum (map (q_entry2 mid mass2 xs ys o o) (seq 0 ny))
                   == mass2 (clo xs o, clo ys 0) (chi xs o, chi ys (o - 1)) + mass2 (clo xs o, clo ys (o + 1)) (chi xs o, chi ys (ny - 1))).
    { rewrite (seq_split3 ny o) by (unfold ny; lia). rewrite map_app. cbn [map]. rewrite qsum_app.
      assert (Z0 : q_entry2 mid mass2 xs ys o o o = 0) by (unfold q_entry2; rewrite Nat.eqb_refl; reflexivity).
      assert (E2 : forall l, qsum (q_entry2 mid mass2 xs ys o o o :: l) == qsum l) by (intros l; rewrite Z0; unfold qsum; simpl; lra).
      rewrite E2.
      rewrite (qsum_map_ext_in (q_entry2 mid mass2 xs ys o o) (fun j => mass2 (clo xs o, clo ys j) (chi xs o, chi ys j)) (seq 0 o)).
      2:{ intros j Hj. apply in_seq in Hj. unfold q_entry2. rewrite Nat.eqb_refl. destruct (Nat.eqb_spec j o); [lia|reflexivity]. }
      rewrite (qsum_map_ext_in (q_entry2 mid mass2 xs ys o o) (fun j => mass2 (clo xs o, clo ys j) (chi xs o, chi ys j)) (seq (o + 1) _)).
      2:{ intros j Hj. apply in_seq in Hj. unfold q_entry2. rewrite Nat.eqb_refl. destruct (Nat.eqb_spec j o); [lia|reflexivity]. }
      rewrite (row_sum ys (clo xs o) (chi xs o) 0 o Yi Ye) by (try (unfold ny in *; lia);
        intros k Hk; unfold avoids; cbn [fst snd]; right; right; left; apply (YS k); unfold ny in *; lia).
      rewrite (row_sum ys (clo xs o) (chi xs o) (o + 1) (ny - o - 1) Yi Ye) by (try (unfold ny in *; lia);
        intros k Hk; unfold avoids; cbn [fst snd]; right; right; right; apply (YS (o + 1)%nat); unfold ny in *; lia).
      replace (0 + o - 1)%nat with (o - 1)%nat by lia. replace (o + 1 + (ny - o - 1) - 1)%nat with (ny - 1)%nat by lia. reflexivity. }
    (* outer sum over the rows *)
    rewrite (seq_split3 nx o) by (unfold nx; lia). rewrite map_app. cbn [map]. rewrite qsum_app.
    assert (E3 : forall v l, qsum (v :: l) == v + qsum l) by (intros; unfold qsum; simpl; lra).
    rewrite E3, RowO.
    rewrite (qsum_map_ext_in (fun i => qsum (map (q_entry2 mid mass2 xs ys o i) (seq 0 ny)))
                             (fun i => mass2 (clo xs i, clo ys 0) (chi xs i, chi ys (ny - 1))) (seq 0 o)).
    2:{ intros i Hi. apply in_seq in Hi. apply RowOff; unfold nx; lia. }
    rewrite (qsum_map_ext_in (fun i => qsum (map (q_entry2 mid mass2 xs ys o i) (seq 0 ny)))
                             (fun i => mass2 (clo xs i, clo ys 0) (chi xs i, chi ys (ny - 1))) (seq (o + 1) _)).
    2:{ intros i Hi. apply in_seq in Hi. apply RowOff; unfold nx in *; lia. }
    rewrite (col_sum xs (clo ys 0) (chi ys (ny - 1)) 0 o Xi Xe) by (try (unfold nx in *; lia);
      intros k Hk; unfold avoids; cbn [fst snd]; left; apply (XS k); unfold nx in *; lia).
    rewrite (col_sum xs (clo ys 0) (chi ys (ny - 1)) (o + 1) (nx - o - 1) Xi Xe) by (try (unfold nx in *; lia);
      intros k Hk; unfold avoids; cbn [fst snd]; right; left; apply (XS (o + 1)%nat); unfold nx in *; lia).
    replace (0 + o - 1)%nat with (o - 1)%nat by lia. replace (o + 1 + (nx - o - 1) - 1)%nat with (nx - 1)%nat by lia.
    rewrite XC1, XC2.
    (* name the eight blocks of the intensity *)
    unfold intensity2, blocks. cbn [flat_map map app tl fst snd]. unfold qsum. cbn [fold_right].
    set (x0 := headq xs) in *. set (xN := lastq xs) in *. set (hlx := h_left mid xs o) in *. set (hrx := h_right mid xs o) in *.
    set (y0 := headq ys) in *. set (yN := lastq ys) in *. set (hly := h_left mid ys o) in *. set (hry := h_right mid ys o) in *.
    rewrite (mass2_proper _ _ _ _ _ _ _ _ XE1 YE1 XE2 YE4), (mass2_proper _ _ _ _ _ _ _ _ XE3 YE1 XE4 YE4),
            (mass2_proper _ _ _ _ _ _ _ _ XE2 YE1 XE3 YE2), (mass2_proper _ _ _ _ _ _ _ _ XE2 YE3 XE3 YE4).
    (* orderings of the block boundaries *)
    assert (OY1 : y0 <= hly).
    { rewrite <- YE1, <- YE2. apply Qle_trans with (clo ys (o - 1)); [apply (cell_lo_mono mid); try assumption; unfold ny in *; lia|
        apply (cell_lo_hi mid); try assumption; unfold ny in *; lia]. }
    assert (OY2 : hry <= yN).
    { rewrite <- YE3, <- YE4. apply Qle_trans with (clo ys (ny - 1)); [apply (cell_lo_mono mid); try assumption; unfold ny in *; lia|
        apply (cell_lo_hi mid); try assumption; unfold ny in *; lia]. }
    assert (AL : forall a2 b2, avoids (x0, a2) (hlx, b2)) by (intros; unfold avoids; cbn [fst snd]; left; exact XN).
    assert (AR : forall a2 b2, avoids (hrx, a2) (xN, b2)) by (intros; unfold avoids; cbn [fst snd]; right; left; exact XP).
    rewrite (mass2_add2 x0 hlx y0 hly yN) by (try lra; apply AL).
    rewrite (mass2_add2 x0 hlx hly hry yN) by (try lra; apply AL).
    rewrite (mass2_add2 hrx xN y0 hly yN) by (try lra; apply AR).
    rewrite (mass2_add2 hrx xN hly hry yN) by (try lra; apply AR).
    lra.
  Qed.

  (* the product cells tile the truncated box minus the central cell: every state lies in its own cell, the cell of every
     non-origin state avoids the origin, neighbouring cells share a face along each axis, and the outermost faces are the
     truncation bounds *)
  Theorem cells_tile_2d xs ys o hx hy : admissible xs o hx -> admissible ys o hy ->
    (forall i j, (i < length xs)%nat -> (j < length ys)%nat ->
       (clo xs i <= nthq xs i <= chi xs i /\ clo ys j <= nthq ys j <= chi ys j)
       /\ ((i, j) <> (o, o) -> avoids (clo xs i, clo ys j) (chi xs i, chi ys j))
       /\ ((i + 1 < length xs)%nat -> chi xs i = clo xs (i + 1)) /\ ((j + 1 < length ys)%nat -> chi ys j = clo ys (j + 1)))
    /\ clo xs 0 == headq xs /\ chi xs (length xs - 1) == lastq xs /\ clo ys 0 == headq ys /\ chi ys (length ys - 1) == lastq ys
    /\ chi xs (o - 1) == h_left mid xs o /\ clo xs (o + 1) == h_right mid xs o
    /\ chi ys (o - 1) == h_left mid ys o /\ clo ys (o + 1) == h_right mid ys o.
  Proof.
    intros Ax Ay.
    destruct (axis_facts xs o hx Ax) as (Xi & Xe & X1 & X2 & XE1 & XE4 & XE2 & XE3 & XN & XP & XS & XC1 & XC2).
    destruct (axis_facts ys o hy Ay) as (Yi & Ye & Y1 & Y2 & YE1 & YE4 & YE2 & YE3 & YN & YP & YS & YC1 & YC2).
    split; [|repeat split; assumption].
    intros i j Hi Hj.
    destruct (cell_lo_le mid mid_between mid_refl xs i Xi Xe Hi) as (A1 & _). destruct (cell_hi_ge mid mid_between mid_refl xs i Xi Xe Hi) as (A2 & _).
    destruct (cell_lo_le mid mid_between mid_refl ys j Yi Ye Hj) as (B1 & _). destruct (cell_hi_ge mid mid_between mid_refl ys j Yi Ye Hj) as (B2 & _).
    split; [tauto|]. split; [|split; intros; apply (cell_share mid); assumption].
    intros Hne. unfold avoids; cbn [fst snd].
    destruct (Nat.eq_dec i o) as [->|Hio].
    - assert (j <> o) by (intro E; apply Hne; rewrite E; reflexivity).
      destruct (YS j Hj) as [S1 S2]. destruct (Nat.lt_ge_cases j o); [right; right; left; apply S1; assumption|right; right; right; apply S2; lia].
    - destruct (XS i Hi) as [S1 S2]. destruct (Nat.lt_ge_cases i o); [left; apply S1; assumption|right; left; apply S2; lia].
  Qed.

  Theorem rates_nonneg_2d xs ys o hx hy i j : admissible xs o hx -> admissible ys o hy ->
    (i < length xs)%nat -> (j < length ys)%nat -> 0 <= q_entry2 mid mass2 xs ys o i j.
  Proof.
    intros Ax Ay Hi Hj. unfold q_entry2.
    destruct (Nat.eqb_spec i o) as [Ei|Ei]; destruct (Nat.eqb_spec j o) as [Ej|Ej]; cbn [andb]; try lra;
      destruct (cells_tile_2d xs ys o hx hy Ax Ay) as (T & _); destruct (T i j Hi Hj) as ((A & B) & AV & _);
      (apply mass2_pos; cbn [fst snd]; [lra|lra|apply AV; intro E; injection E; intros; subst; contradiction]).
  Qed.
End Chain2d.

(* C01 -- the product grid in dimension 3: the rates of all non-origin states sum to the intensity computed from the
   3^3-1 = 26 boxes (samplingfactory.compute_intensity_of_jumps), by telescoping axis by axis; the product cells tile the
   truncated box minus the central cell; rates are non-negative.  Model: Model/Chain3d.v. *)
From Coq Require Import ZArith QArith Qabs List Bool Lia Lqa.
From RV Require Import Base.QB Model.Grid Gen.GenC01Trunc Model.Chain Model.Chain3d Proofs.C13_Grid Proofs.C01_Chain Proofs.C01_Chain2d.
Import ListNotations.
Open Scope Q_scope.

(* a sub-box of a box that avoids the origin avoids it *)
Lemma avoids3_sub a1 a2 a3 b1 b2 b3 a1' a2' a3' b1' b2' b3' :
  a1 <= a1' -> b1' <= b1 -> a2 <= a2' -> b2' <= b2 -> a3 <= a3' -> b3' <= b3 ->
  avoids3 (a1, a2, a3) (b1, b2, b3) -> avoids3 (a1', a2', a3') (b1', b2', b3').
Proof.
  unfold avoids3, p1, p2, p3. cbn [fst snd]. intros H1 H2 H3 H4 H5 H6 [A|[A|[A|[A|[A|A]]]]].
  - left. lra.
  - right; left. lra.
  - right; right; left. lra.
  - right; right; right; left. lra.
  - right; right; right; right; left. lra.
  - right; right; right; right; right. lra.
Qed.

Lemma av1n a1 a2 a3 b1 b2 b3 : b1 < 0 -> avoids3 (a1, a2, a3) (b1, b2, b3).
Proof. intros H. unfold avoids3, p1. cbn [fst snd]. left. exact H. Qed.
Lemma av1p a1 a2 a3 b1 b2 b3 : 0 < a1 -> avoids3 (a1, a2, a3) (b1, b2, b3).
Proof. intros H. unfold avoids3, p1. cbn [fst snd]. right; left. exact H. Qed.
Lemma av2n a1 a2 a3 b1 b2 b3 : b2 < 0 -> avoids3 (a1, a2, a3) (b1, b2, b3).
Proof. intros H. unfold avoids3, p2. cbn [fst snd]. right; right; left. exact H. Qed.
Lemma av2p a1 a2 a3 b1 b2 b3 : 0 < a2 -> avoids3 (a1, a2, a3) (b1, b2, b3).
Proof. intros H. unfold avoids3, p2. cbn [fst snd]. right; right; right; left. exact H. Qed.
Lemma av3n a1 a2 a3 b1 b2 b3 : b3 < 0 -> avoids3 (a1, a2, a3) (b1, b2, b3).
Proof. intros H. unfold avoids3, p3. cbn [fst snd]. right; right; right; right; left. exact H. Qed.
Lemma av3p a1 a2 a3 b1 b2 b3 : 0 < a3 -> avoids3 (a1, a2, a3) (b1, b2, b3).
Proof. intros H. unfold avoids3, p3. cbn [fst snd]. right; right; right; right; right. exact H. Qed.

Section Chain3d.
  Variable mid : Q -> Q -> Q.
  Hypothesis mid_between : forall x y, x < y -> x < mid x y /\ mid x y < y.
  Hypothesis mid_refl : forall x, ~ x == 0 -> mid x x == x.
  Hypothesis mid_proper : forall x x' y y', x == x' -> y == y' -> mid x y == mid x' y'.
  Variable mass3 : Q3 -> Q3 -> Q.
  (* additive under a split of any one coordinate interval, non-negative: on boxes that avoid the origin *)
  Hypothesis mass3_add1 : forall a b c y1 y2 z1 z2, a <= b -> b <= c -> avoids3 (a, y1, z1) (c, y2, z2) ->
    mass3 (a, y1, z1) (c, y2, z2) == mass3 (a, y1, z1) (b, y2, z2) + mass3 (b, y1, z1) (c, y2, z2).
  Hypothesis mass3_add2 : forall x1 x2 a b c z1 z2, a <= b -> b <= c -> avoids3 (x1, a, z1) (x2, c, z2) ->
    mass3 (x1, a, z1) (x2, c, z2) == mass3 (x1, a, z1) (x2, b, z2) + mass3 (x1, b, z1) (x2, c, z2).
  Hypothesis mass3_add3 : forall x1 x2 y1 y2 a b c, a <= b -> b <= c -> avoids3 (x1, y1, a) (x2, y2, c) ->
    mass3 (x1, y1, a) (x2, y2, c) == mass3 (x1, y1, a) (x2, y2, b) + mass3 (x1, y1, b) (x2, y2, c).
  Hypothesis mass3_pos : forall a b, p1 a <= p1 b -> p2 a <= p2 b -> p3 a <= p3 b -> avoids3 a b -> 0 <= mass3 a b.
  Hypothesis mass3_proper : forall a1 a2 a3 b1 b2 b3 a1' a2' a3' b1' b2' b3',
    a1 == a1' -> a2 == a2' -> a3 == a3' -> b1 == b1' -> b2 == b2' -> b3 == b3' ->
    mass3 (a1, a2, a3) (b1, b2, b3) == mass3 (a1', a2', a3') (b1', b2', b3').

  Local Notation clo := (cell_lo mid).
  Local Notation chi := (cell_hi mid).

  (* ---- a run of consecutive cells of one axis under fixed intervals of the two others telescopes *)
  Lemma run1 xs ly hy lz hz a n : incr xs -> ends_ok xs -> (1 <= n)%nat -> (a + n <= length xs)%nat ->
    avoids3 (clo xs a, ly, lz) (chi xs (a + n - 1), hy, hz) ->
    qsum (map (fun i => mass3 (clo xs i, ly, lz) (chi xs i, hy, hz)) (seq a n)) == mass3 (clo xs a, ly, lz) (chi xs (a + n - 1), hy, hz).
  Proof.
    intros Hi He Hn Hl AV.
    apply (tele_right (fun u v => mass3 (u, ly, lz) (v, hy, hz)) (clo xs) (chi xs) n a Hn).
    intros k H1 H2. cbv beta.
    rewrite (mass3_add1 (clo xs a) (chi xs k) (chi xs (k + 1)) ly hy lz hz).
    - rewrite (cell_share mid xs k) by lia. reflexivity.
    - apply Qle_trans with (clo xs k); [apply (cell_lo_mono mid); try assumption; lia|apply (cell_lo_hi mid); try assumption; lia].
    - apply (cell_hi_mono mid); try assumption; lia.
    - apply (avoids3_sub _ _ _ _ _ _ _ _ _ _ _ _) with (7 := AV); try lra.
      apply (cell_hi_mono mid); try assumption; lia.
  Qed.
  Lemma run2 ys lx hx lz hz a n : incr ys -> ends_ok ys -> (1 <= n)%nat -> (a + n <= length ys)%nat ->
    avoids3 (lx, clo ys a, lz) (hx, chi ys (a + n - 1), hz) ->
    qsum (map (fun j => mass3 (lx, clo ys j, lz) (hx, chi ys j, hz)) (seq a n)) == mass3 (lx, clo ys a, lz) (hx, chi ys (a + n - 1), hz).
  Proof.
    intros Hi He Hn Hl AV.
    apply (tele_right (fun u v => mass3 (lx, u, lz) (hx, v, hz)) (clo ys) (chi ys) n a Hn).
    intros k H1 H2. cbv beta.
    rewrite (mass3_add2 lx hx (clo ys a) (chi ys k) (chi ys (k + 1)) lz hz).
    - rewrite (cell_share mid ys k) by lia. reflexivity.
    - apply Qle_trans with (clo ys k); [apply (cell_lo_mono mid); try assumption; lia|apply (cell_lo_hi mid); try assumption; lia].
    - apply (cell_hi_mono mid); try assumption; lia.
    - apply (avoids3_sub _ _ _ _ _ _ _ _ _ _ _ _) with (7 := AV); try lra.
      apply (cell_hi_mono mid); try assumption; lia.
  Qed.
  Lemma run3 zs lx hx ly hy a n : incr zs -> ends_ok zs -> (1 <= n)%nat -> (a + n <= length zs)%nat ->
    avoids3 (lx, ly, clo zs a) (hx, hy, chi zs (a + n - 1)) ->
    qsum (map (fun k => mass3 (lx, ly, clo zs k) (hx, hy, chi zs k)) (seq a n)) == mass3 (lx, ly, clo zs a) (hx, hy, chi zs (a + n - 1)).
  Proof.
    intros Hi He Hn Hl AV.
    apply (tele_right (fun u v => mass3 (lx, ly, u) (hx, hy, v)) (clo zs) (chi zs) n a Hn).
    intros k H1 H2. cbv beta.
    rewrite (mass3_add3 lx hx ly hy (clo zs a) (chi zs k) (chi zs (k + 1))).
    - rewrite (cell_share mid zs k) by lia. reflexivity.
    - apply Qle_trans with (clo zs k); [apply (cell_lo_mono mid); try assumption; lia|apply (cell_lo_hi mid); try assumption; lia].
    - apply (cell_hi_mono mid); try assumption; lia.
    - apply (avoids3_sub _ _ _ _ _ _ _ _ _ _ _ _) with (7 := AV); try lra.
      apply (cell_hi_mono mid); try assumption; lia.
  Qed.

  (* ---- a box split in three along the second / third coordinate *)
  Lemma split_y x1 x2 z1 z2 u0 u1 u2 u3 : u0 <= u1 -> u1 <= u2 -> u2 <= u3 -> avoids3 (x1, u0, z1) (x2, u3, z2) ->
    mass3 (x1, u0, z1) (x2, u3, z2) == mass3 (x1, u0, z1) (x2, u1, z2) + mass3 (x1, u1, z1) (x2, u2, z2) + mass3 (x1, u2, z1) (x2, u3, z2).
  Proof.
    intros H1 H2 H3 AV.
    rewrite (mass3_add2 x1 x2 u0 u1 u3 z1 z2) by (try lra; exact AV).
    rewrite (mass3_add2 x1 x2 u1 u2 u3 z1 z2); [lra|lra|lra|].
    apply (avoids3_sub _ _ _ _ _ _ _ _ _ _ _ _) with (7 := AV); lra.
  Qed.
  Lemma split_z x1 x2 y1 y2 u0 u1 u2 u3 : u0 <= u1 -> u1 <= u2 -> u2 <= u3 -> avoids3 (x1, y1, u0) (x2, y2, u3) ->
    mass3 (x1, y1, u0) (x2, y2, u3) == mass3 (x1, y1, u0) (x2, y2, u1) + mass3 (x1, y1, u1) (x2, y2, u2) + mass3 (x1, y1, u2) (x2, y2, u3).
  Proof.
    intros H1 H2 H3 AV.
    rewrite (mass3_add3 x1 x2 y1 y2 u0 u1 u3) by (try lra; exact AV).
    rewrite (mass3_add3 x1 x2 y1 y2 u1 u2 u3); [lra|lra|lra|].
    apply (avoids3_sub _ _ _ _ _ _ _ _ _ _ _ _) with (7 := AV); lra.
  Qed.

  Lemma qsum_cons v l : qsum (v :: l) == v + qsum l.
  Proof. unfold qsum. simpl. lra. Qed.

  Lemma qsum3_tensor xs ys zs o :
    qsum3 (q_tensor3 mid mass3 xs ys zs o)
    = qsum (map (fun i => qsum (map (fun j => qsum (map (q_entry3 mid mass3 xs ys zs o i j) (seq 0 (length zs)))) (seq 0 (length ys)))) (seq 0 (length xs))).
  Proof.
    unfold qsum3, q_tensor3. rewrite map_map. f_equal. apply map_ext. intros i. unfold qsum2. rewrite map_map. reflexivity.
  Qed.

  (* the four boundary points of an admissible axis are ordered *)
  Lemma bounds_ordered xs o h : admissible xs o h ->
    headq xs <= h_left mid xs o /\ h_left mid xs o <= h_right mid xs o /\ h_right mid xs o <= lastq xs.
  Proof.
    intros A.
    destruct (axis_facts mid mid_between mid_refl mid_proper xs o h A) as (Xi & Xe & X1 & X2 & XE1 & XE4 & XE2 & XE3 & XN & XP & XS & XC1 & XC2).
    split; [|split; [lra|]].
    - rewrite <- XE1, <- XE2. apply Qle_trans with (clo xs (o - 1)); [apply (cell_lo_mono mid); try assumption; lia|
        apply (cell_lo_hi mid); try assumption; lia].
    - rewrite <- XE3, <- XE4. apply Qle_trans with (clo xs (length xs - 1)); [apply (cell_lo_mono mid); try assumption; lia|
        apply (cell_lo_hi mid); try assumption; lia].
  Qed.

  Theorem sum_rates_is_intensity_3d xs ys zs o hx hy hz : admissible xs o hx -> admissible ys o hy -> admissible zs o hz ->
    qsum3 (q_tensor3 mid mass3 xs ys zs o) == intensity3 mid mass3 xs ys zs o.
  Proof.
    intros Ax Ay Az.
    destruct (bounds_ordered xs o hx Ax) as (OX1 & OX2 & OX3).
    destruct (bounds_ordered ys o hy Ay) as (OY1 & OY2 & OY3).
    destruct (bounds_ordered zs o hz Az) as (OZ1 & OZ2 & OZ3).
    destruct (axis_facts mid mid_between mid_refl mid_proper xs o hx Ax) as (Xi & Xe & X1 & X2 & XE1 & XE4 & XE2 & XE3 & XN & XP & XS & XC1 & XC2).
    destruct (axis_facts mid mid_between mid_refl mid_proper ys o hy Ay) as (Yi & Ye & Y1 & Y2 & YE1 & YE4 & YE2 & YE3 & YN & YP & YS & YC1 & YC2).
    destruct (axis_facts mid mid_between mid_refl mid_proper zs o hz Az) as (Zi & Ze & Z1 & Z2 & ZE1 & ZE4 & ZE2 & ZE3 & ZN & ZP & ZS & ZC1 & ZC2).
    rewrite qsum3_tensor.
    set (nx := length xs) in *. set (ny := length ys) in *. set (nz := length zs) in *.
    set (q := q_entry3 mid mass3 xs ys zs o).
    (* innermost sums: all k, for (i, j) off the origin pair *)
    assert (Zoff : forall i j, (i < nx)%nat -> (j < ny)%nat -> (i <> o \/ j <> o) ->
              qsum (map (q i j) (seq 0 nz)) == mass3 (clo xs i, clo ys j, clo zs 0) (chi xs i, chi ys j, chi zs (nz - 1))).
    { intros i j Hi Hj Hne.
      rewrite (qsum_map_ext_in (q i j) (fun k => mass3 (clo xs i, clo ys j, clo zs k) (chi xs i, chi ys j, chi zs k))).
      2:{ intros k _. unfold q, q_entry3. destruct (Nat.eqb_spec i o); destruct (Nat.eqb_spec j o); cbn [andb]; try reflexivity.
          exfalso; tauto. }
      rewrite (run3 zs (clo xs i) (chi xs i) (clo ys j) (chi ys j) 0 nz Zi Ze); [|(unfold nx, ny, nz in *; lia)|(unfold nx, ny, nz in *; lia)|].
      2:{ destruct (XS i Hi) as [S1 S2]. destruct (YS j Hj) as [T1 T2].
          destruct (Nat.lt_total i o) as [L|[L|L]]; [apply av1n, S1, L| |apply av1p, S2, L].
          destruct (Nat.lt_total j o) as [M|[M|M]]; [apply av2n, T1, M|exfalso; tauto|apply av2p, T2, M]. }
      replace (0 + nz - 1)%nat with (nz - 1)%nat by lia. reflexivity. }
    (* innermost sum at (o, o): all k but the origin *)
    assert (Zoo : qsum (map (q o o) (seq 0 nz))
                  == mass3 (clo xs o, clo ys o, clo zs 0) (chi xs o, chi ys o, chi zs (o - 1))
                   + mass3 (clo xs o, clo ys o, clo zs (o + 1)) (chi xs o, chi ys o, chi zs (nz - 1))).
    { rewrite (seq_split3 nz o) by (unfold nx, ny, nz in *; lia). rewrite map_app. cbn [map]. rewrite qsum_app, qsum_cons.
      assert (Z0 : q o o o = 0) by (unfold q, q_entry3; rewrite Nat.eqb_refl; reflexivity). rewrite Z0.
      assert (EX : forall k, k <> o -> q o o k = mass3 (clo xs o, clo ys o, clo zs k) (chi xs o, chi ys o, chi zs k)).
      { intros k Hk. unfold q, q_entry3. rewrite Nat.eqb_refl. destruct (Nat.eqb_spec k o); [contradiction|reflexivity]. }
      rewrite (qsum_map_ext_in (q o o) (fun k => mass3 (clo xs o, clo ys o, clo zs k) (chi xs o, chi ys o, chi zs k)) (seq 0 o))
        by (intros k Hk; apply in_seq in Hk; rewrite EX by lia; reflexivity).
      rewrite (qsum_map_ext_in (q o o) (fun k => mass3 (clo xs o, clo ys o, clo zs k) (chi xs o, chi ys o, chi zs k)) (seq (o + 1) _))
        by (intros k Hk; apply in_seq in Hk; rewrite EX by lia; reflexivity).
      rewrite (run3 zs (clo xs o) (chi xs o) (clo ys o) (chi ys o) 0 o Zi Ze);
        [|(unfold nx, ny, nz in *; lia)|(unfold nx, ny, nz in *; lia)|apply av3n, (ZS (0 + o - 1)%nat); (unfold nx, ny, nz in *; lia)].
      rewrite (run3 zs (clo xs o) (chi xs o) (clo ys o) (chi ys o) (o + 1) (nz - o - 1) Zi Ze);
        [|(unfold nx, ny, nz in *; lia)|(unfold nx, ny, nz in *; lia)|apply av3p, (ZS (o + 1)%nat); (unfold nx, ny, nz in *; lia)].
      replace (0 + o - 1)%nat with (o - 1)%nat by lia. replace (o + 1 + (nz - o - 1) - 1)%nat with (nz - 1)%nat by lia. lra. }
    (* middle sums: all (j, k), for i off the origin *)
    assert (Yoff : forall i, (i < nx)%nat -> i <> o ->
              qsum (map (fun j => qsum (map (q i j) (seq 0 nz))) (seq 0 ny))
              == mass3 (clo xs i, clo ys 0, clo zs 0) (chi xs i, chi ys (ny - 1), chi zs (nz - 1))).
    { intros i Hi Hne.
      rewrite (qsum_map_ext_in (fun j => qsum (map (q i j) (seq 0 nz)))
                 (fun j => mass3 (clo xs i, clo ys j, clo zs 0) (chi xs i, chi ys j, chi zs (nz - 1))))
        by (intros j Hj; apply in_seq in Hj; apply Zoff; [exact Hi|unfold nx, ny, nz in *; lia|left; exact Hne]).
      rewrite (run2 ys (clo xs i) (chi xs i) (clo zs 0) (chi zs (nz - 1)) 0 ny Yi Ye); [|(unfold nx, ny, nz in *; lia)|(unfold nx, ny, nz in *; lia)|].
      2:{ destruct (XS i Hi) as [S1 S2].
          destruct (Nat.lt_total i o) as [L|[L|L]]; [apply av1n, S1, L|contradiction|apply av1p, S2, L]. }
      replace (0 + ny - 1)%nat with (ny - 1)%nat by lia. reflexivity. }
    (* middle sum at i = o *)
    assert (Yo : qsum (map (fun j => qsum (map (q o j) (seq 0 nz))) (seq 0 ny))
                 == mass3 (clo xs o, clo ys 0, clo zs 0) (chi xs o, chi ys (o - 1), chi zs (nz - 1))
                  + (mass3 (clo xs o, clo ys o, clo zs 0) (chi xs o, chi ys o, chi zs (o - 1))
                     + mass3 (clo xs o, clo ys o, clo zs (o + 1)) (chi xs o, chi ys o, chi zs (nz - 1)))
                  + mass3 (clo xs o, clo ys (o + 1), clo zs 0) (chi xs o, chi ys (ny - 1), chi zs (nz - 1))).
    { rewrite (seq_split3 ny o) by (unfold nx, ny, nz in *; lia). rewrite map_app. cbn [map]. rewrite qsum_app, qsum_cons, Zoo.
      rewrite (qsum_map_ext_in (fun j => qsum (map (q o j) (seq 0 nz)))
                 (fun j => mass3 (clo xs o, clo ys j, clo zs 0) (chi xs o, chi ys j, chi zs (nz - 1))) (seq 0 o))
        by (intros j Hj; apply in_seq in Hj; apply Zoff; [unfold nx, ny, nz in *; lia|unfold nx, ny, nz in *; lia|right; lia]).
      rewrite (qsum_map_ext_in (fun j => qsum (map (q o j) (seq 0 nz)))
                 (fun j => mass3 (clo xs o, clo ys j, clo zs 0) (chi xs o, chi ys j, chi zs (nz - 1))) (seq (o + 1) _))
        by (intros j Hj; apply in_seq in Hj; apply Zoff; [unfold nx, ny, nz in *; lia|unfold nx, ny, nz in *; lia|right; lia]).
      rewrite (run2 ys (clo xs o) (chi xs o) (clo zs 0) (chi zs (nz - 1)) 0 o Yi Ye);
        [|(unfold nx, ny, nz in *; lia)|(unfold nx, ny, nz in *; lia)|apply av2n, (YS (0 + o - 1)%nat); (unfold nx, ny, nz in *; lia)].
      rewrite (run2 ys (clo xs o) (chi xs o) (clo zs 0) (chi zs (nz - 1)) (o + 1) (ny - o - 1) Yi Ye);
        [|(unfold nx, ny, nz in *; lia)|(unfold nx, ny, nz in *; lia)|apply av2p, (YS (o + 1)%nat); (unfold nx, ny, nz in *; lia)].
      replace (0 + o - 1)%nat with (o - 1)%nat by lia. replace (o + 1 + (ny - o - 1) - 1)%nat with (ny - 1)%nat by lia. lra. }
    (* outer sum *)
    rewrite (seq_split3 nx o) by (unfold nx, ny, nz in *; lia). rewrite map_app. cbn [map]. rewrite qsum_app, qsum_cons, Yo.
    rewrite (qsum_map_ext_in (fun i => qsum (map (fun j => qsum (map (q i j) (seq 0 nz))) (seq 0 ny)))
               (fun i => mass3 (clo xs i, clo ys 0, clo zs 0) (chi xs i, chi ys (ny - 1), chi zs (nz - 1))) (seq 0 o))
      by (intros i Hi; apply in_seq in Hi; apply Yoff; unfold nx, ny, nz in *; lia).
    rewrite (qsum_map_ext_in (fun i => qsum (map (fun j => qsum (map (q i j) (seq 0 nz))) (seq 0 ny)))
               (fun i => mass3 (clo xs i, clo ys 0, clo zs 0) (chi xs i, chi ys (ny - 1), chi zs (nz - 1))) (seq (o + 1) _))
      by (intros i Hi; apply in_seq in Hi; apply Yoff; unfold nx, ny, nz in *; lia).
    rewrite (run1 xs (clo ys 0) (chi ys (ny - 1)) (clo zs 0) (chi zs (nz - 1)) 0 o Xi Xe);
      [|(unfold nx, ny, nz in *; lia)|(unfold nx, ny, nz in *; lia)|apply av1n, (XS (0 + o - 1)%nat); (unfold nx, ny, nz in *; lia)].
    rewrite (run1 xs (clo ys 0) (chi ys (ny - 1)) (clo zs 0) (chi zs (nz - 1)) (o + 1) (nx - o - 1) Xi Xe);
      [|(unfold nx, ny, nz in *; lia)|(unfold nx, ny, nz in *; lia)|apply av1p, (XS (o + 1)%nat); (unfold nx, ny, nz in *; lia)].
    replace (0 + o - 1)%nat with (o - 1)%nat by lia. replace (o + 1 + (nx - o - 1) - 1)%nat with (nx - 1)%nat by lia.
    rewrite XC1, XC2, YC1, YC2.
    (* name the boundaries and the 26 boxes of the intensity *)
    unfold intensity3, blocks. cbn [flat_map map app tl fst snd]. unfold qsum. cbn [fold_right].
    set (x0 := headq xs) in *. set (xN := lastq xs) in *. set (hlx := h_left mid xs o) in *. set (hrx := h_right mid xs o) in *.
    set (y0 := headq ys) in *. set (yN := lastq ys) in *. set (hly := h_left mid ys o) in *. set (hry := h_right mid ys o) in *.
    set (z0 := headq zs) in *. set (zN := lastq zs) in *. set (hlz := h_left mid zs o) in *. set (hrz := h_right mid zs o) in *.
    rewrite (mass3_proper _ _ _ _ _ _ _ _ _ _ _ _ XE1 YE1 ZE1 XE2 YE4 ZE4),
            (mass3_proper _ _ _ _ _ _ _ _ _ _ _ _ XE3 YE1 ZE1 XE4 YE4 ZE4),
            (mass3_proper _ _ _ _ _ _ _ _ _ _ _ _ XE2 YE1 ZE1 XE3 YE2 ZE4),
            (mass3_proper _ _ _ _ _ _ _ _ _ _ _ _ XE2 YE3 ZE1 XE3 YE4 ZE4),
            (mass3_proper _ _ _ _ _ _ _ _ _ _ _ _ XE2 YE2 ZE1 XE3 YE3 ZE2),
            (mass3_proper _ _ _ _ _ _ _ _ _ _ _ _ XE2 YE2 ZE3 XE3 YE3 ZE4).
    assert (AL : forall a2 a3 b2 b3, avoids3 (x0, a2, a3) (hlx, b2, b3)) by (intros; unfold avoids3, p1; cbn [fst snd]; left; exact XN).
    assert (AR : forall a2 a3 b2 b3, avoids3 (hrx, a2, a3) (xN, b2, b3)) by (intros; unfold avoids3, p1; cbn [fst snd]; right; left; exact XP).
    assert (BL : forall a1 a3 b1 b3, avoids3 (a1, y0, a3) (b1, hly, b3)) by (intros; unfold avoids3, p2; cbn [fst snd]; right; right; left; exact YN).
    assert (BR : forall a1 a3 b1 b3, avoids3 (a1, hry, a3) (b1, yN, b3)) by (intros; unfold avoids3, p2; cbn [fst snd]; right; right; right; left; exact YP).
    (* the two slabs left / right of the central x-cell: 9 boxes each *)
    rewrite (split_y x0 hlx z0 zN y0 hly hry yN) by (try lra; apply AL).
    rewrite (split_z x0 hlx y0 hly z0 hlz hrz zN) by (try lra; apply AL).
    rewrite (split_z x0 hlx hly hry z0 hlz hrz zN) by (try lra; apply AL).
    rewrite (split_z x0 hlx hry yN z0 hlz hrz zN) by (try lra; apply AL).
    rewrite (split_y hrx xN z0 zN y0 hly hry yN) by (try lra; apply AR).
    rewrite (split_z hrx xN y0 hly z0 hlz hrz zN) by (try lra; apply AR).
    rewrite (split_z hrx xN hly hry z0 hlz hrz zN) by (try lra; apply AR).
    rewrite (split_z hrx xN hry yN z0 hlz hrz zN) by (try lra; apply AR).
    (* the two columns below / above the central y-cell inside the central x-slab: 3 boxes each *)
    rewrite (split_z hlx hrx y0 hly z0 hlz hrz zN) by (try lra; apply BL).
    rewrite (split_z hlx hrx hry yN z0 hlz hrz zN) by (try lra; apply BR).
    lra.
  Qed.

  (* the product cells tile the truncated box minus the central cell: every state lies in its own cell, the cell of every
     non-origin state avoids the origin, neighbouring cells share a face along each axis, and the outermost faces are the
     truncation bounds, the innermost ones the faces of the central cell *)
  Theorem cells_tile_3d xs ys zs o hx hy hz : admissible xs o hx -> admissible ys o hy -> admissible zs o hz ->
    (forall i j k, (i < length xs)%nat -> (j < length ys)%nat -> (k < length zs)%nat ->
       (clo xs i <= nthq xs i <= chi xs i /\ clo ys j <= nthq ys j <= chi ys j /\ clo zs k <= nthq zs k <= chi zs k)
       /\ ((i, j, k) <> (o, o, o) -> avoids3 (clo xs i, clo ys j, clo zs k) (chi xs i, chi ys j, chi zs k))
       /\ ((i + 1 < length xs)%nat -> chi xs i = clo xs (i + 1)) /\ ((j + 1 < length ys)%nat -> chi ys j = clo ys (j + 1))
       /\ ((k + 1 < length zs)%nat -> chi zs k = clo zs (k + 1)))
    /\ (clo xs 0 == headq xs /\ chi xs (length xs - 1) == lastq xs /\ chi xs (o - 1) == h_left mid xs o /\ clo xs (o + 1) == h_right mid xs o)
    /\ (clo ys 0 == headq ys /\ chi ys (length ys - 1) == lastq ys /\ chi ys (o - 1) == h_left mid ys o /\ clo ys (o + 1) == h_right mid ys o)
    /\ (clo zs 0 == headq zs /\ chi zs (length zs - 1) == lastq zs /\ chi zs (o - 1) == h_left mid zs o /\ clo zs (o + 1) == h_right mid zs o).
  Proof.
    intros Ax Ay Az.
    destruct (axis_facts mid mid_between mid_refl mid_proper xs o hx Ax) as (Xi & Xe & X1 & X2 & XE1 & XE4 & XE2 & XE3 & XN & XP & XS & XC1 & XC2).
    destruct (axis_facts mid mid_between mid_refl mid_proper ys o hy Ay) as (Yi & Ye & Y1 & Y2 & YE1 & YE4 & YE2 & YE3 & YN & YP & YS & YC1 & YC2).
    destruct (axis_facts mid mid_between mid_refl mid_proper zs o hz Az) as (Zi & Ze & Z1 & Z2 & ZE1 & ZE4 & ZE2 & ZE3 & ZN & ZP & ZS & ZC1 & ZC2).
    split; [|repeat split; assumption].
    intros i j k Hi Hj Hk.
    destruct (cell_lo_le mid mid_between mid_refl xs i Xi Xe Hi) as (A1 & _). destruct (cell_hi_ge mid mid_between mid_refl xs i Xi Xe Hi) as (A2 & _).
    destruct (cell_lo_le mid mid_between mid_refl ys j Yi Ye Hj) as (B1 & _). destruct (cell_hi_ge mid mid_between mid_refl ys j Yi Ye Hj) as (B2 & _).
    destruct (cell_lo_le mid mid_between mid_refl zs k Zi Ze Hk) as (C1 & _). destruct (cell_hi_ge mid mid_between mid_refl zs k Zi Ze Hk) as (C2 & _).
    split; [tauto|]. split; [|repeat split; intros; apply (cell_share mid); assumption].
    intros Hne. unfold avoids3, p1, p2, p3; cbn [fst snd].
    destruct (XS i Hi) as [S1 S2]. destruct (YS j Hj) as [T1 T2]. destruct (ZS k Hk) as [U1 U2].
    destruct (Nat.lt_total i o) as [L|[L|L]]; [left; apply S1; exact L| |right; left; apply S2; exact L].
    destruct (Nat.lt_total j o) as [M|[M|M]]; [right; right; left; apply T1; exact M| |right; right; right; left; apply T2; exact M].
    destruct (Nat.lt_total k o) as [N|[N|N]]; [right; right; right; right; left; apply U1; exact N| |right; right; right; right; right; apply U2; exact N].
    exfalso. apply Hne. subst. reflexivity.
  Qed.

  Theorem rates_nonneg_3d xs ys zs o hx hy hz i j k : admissible xs o hx -> admissible ys o hy -> admissible zs o hz ->
    (i < length xs)%nat -> (j < length ys)%nat -> (k < length zs)%nat -> 0 <= q_entry3 mid mass3 xs ys zs o i j k.
  Proof.
    intros Ax Ay Az Hi Hj Hk. unfold q_entry3.
    destruct (cells_tile_3d xs ys zs o hx hy hz Ax Ay Az) as (T & _). destruct (T i j k Hi Hj Hk) as ((A & B & C) & AV & _).
    destruct (Nat.eqb_spec i o) as [Ei|Ei]; destruct (Nat.eqb_spec j o) as [Ej|Ej]; destruct (Nat.eqb_spec k o) as [Ek|Ek]; cbn [andb]; try lra;
      (apply mass3_pos; unfold p1, p2, p3; cbn [fst snd]; [lra|lra|lra|apply AV; intro E; injection E; intros; subst; contradiction]).
  Qed.
End Chain3d.

(* ---------- the 3-d density table used to run the model satisfies the hypotheses of Section Chain3d on ALL boxes
   (also those containing the origin: its density is bounded) *)
Lemma clip_len_piece a b lo hi : clip_len a b lo hi == piece_mass a b (lo, hi, 1).
Proof. unfold clip_len, piece_mass. destruct (Qltb (Qmaxb a lo) (Qminb b hi)); lra. Qed.
Lemma clip_len_add a b c lo hi : a <= b -> b <= c -> clip_len a c lo hi == clip_len a b lo hi + clip_len b c lo hi.
Proof. intros H1 H2. rewrite !clip_len_piece. apply piece_mass_add; assumption. Qed.
Lemma clip_len_pos a b lo hi : 0 <= clip_len a b lo hi.
Proof. rewrite clip_len_piece. apply piece_mass_pos. simpl. lra. Qed.
Lemma clip_len_proper a a' b b' lo hi : a == a' -> b == b' -> clip_len a b lo hi == clip_len a' b' lo hi.
Proof. intros E1 E2. rewrite !clip_len_piece. apply piece_mass_proper; assumption. Qed.

Lemma piece_mass3_add1 a b c y1 y2 z1 z2 p : a <= b -> b <= c ->
  piece_mass3 (a, y1, z1) (c, y2, z2) p == piece_mass3 (a, y1, z1) (b, y2, z2) p + piece_mass3 (b, y1, z1) (c, y2, z2) p.
Proof.
  destruct p as [[[[[[lo1 hi1] lo2] hi2] lo3] hi3] d]. intros H1 H2. unfold piece_mass3, p1, p2, p3. cbn [fst snd].
  rewrite (clip_len_add a b c lo1 hi1 H1 H2). ring.
Qed.
Lemma piece_mass3_add2 x1 x2 a b c z1 z2 p : a <= b -> b <= c ->
  piece_mass3 (x1, a, z1) (x2, c, z2) p == piece_mass3 (x1, a, z1) (x2, b, z2) p + piece_mass3 (x1, b, z1) (x2, c, z2) p.
Proof.
  destruct p as [[[[[[lo1 hi1] lo2] hi2] lo3] hi3] d]. intros H1 H2. unfold piece_mass3, p1, p2, p3. cbn [fst snd].
  rewrite (clip_len_add a b c lo2 hi2 H1 H2). ring.
Qed.
Lemma piece_mass3_add3 x1 x2 y1 y2 a b c p : a <= b -> b <= c ->
  piece_mass3 (x1, y1, a) (x2, y2, c) p == piece_mass3 (x1, y1, a) (x2, y2, b) p + piece_mass3 (x1, y1, b) (x2, y2, c) p.
Proof.
  destruct p as [[[[[[lo1 hi1] lo2] hi2] lo3] hi3] d]. intros H1 H2. unfold piece_mass3, p1, p2, p3. cbn [fst snd].
  rewrite (clip_len_add a b c lo3 hi3 H1 H2). ring.
Qed.
Lemma piece_mass3_pos a b p : 0 <= dens3 p -> 0 <= piece_mass3 a b p.
Proof.
  destruct p as [[[[[[lo1 hi1] lo2] hi2] lo3] hi3] d]. unfold dens3, piece_mass3. cbn [snd]. intros Hd.
  repeat apply Qmult_le_0_compat; try apply clip_len_pos. exact Hd.
Qed.
Lemma piece_mass3_proper a1 a2 a3 b1 b2 b3 a1' a2' a3' b1' b2' b3' p :
  a1 == a1' -> a2 == a2' -> a3 == a3' -> b1 == b1' -> b2 == b2' -> b3 == b3' ->
  piece_mass3 (a1, a2, a3) (b1, b2, b3) p == piece_mass3 (a1', a2', a3') (b1', b2', b3') p.
Proof.
  destruct p as [[[[[[lo1 hi1] lo2] hi2] lo3] hi3] d]. intros E1 E2 E3 E4 E5 E6. unfold piece_mass3, p1, p2, p3. cbn [fst snd].
  rewrite (clip_len_proper a1 a1' b1 b1' lo1 hi1 E1 E4), (clip_len_proper a2 a2' b2 b2' lo2 hi2 E2 E5),
          (clip_len_proper a3 a3' b3 b3' lo3 hi3 E3 E6). reflexivity.
Qed.

Lemma step_mass3_lift (f g h : Q * Q * Q * Q * Q * Q * Q -> Q) ps : (forall p, f p == g p + h p) ->
  qsum (map f ps) == qsum (map g ps) + qsum (map h ps).
Proof. intros H. unfold qsum. induction ps as [|p r IH]; simpl; [lra|]. rewrite IH, (H p). lra. Qed.

Theorem step_mass3_add1 ps a b c y1 y2 z1 z2 : a <= b -> b <= c ->
  step_mass3 ps (a, y1, z1) (c, y2, z2) == step_mass3 ps (a, y1, z1) (b, y2, z2) + step_mass3 ps (b, y1, z1) (c, y2, z2).
Proof. intros H1 H2. unfold step_mass3. apply step_mass3_lift. intros p. apply piece_mass3_add1; assumption. Qed.
Theorem step_mass3_add2 ps x1 x2 a b c z1 z2 : a <= b -> b <= c ->
  step_mass3 ps (x1, a, z1) (x2, c, z2) == step_mass3 ps (x1, a, z1) (x2, b, z2) + step_mass3 ps (x1, b, z1) (x2, c, z2).
Proof. intros H1 H2. unfold step_mass3. apply step_mass3_lift. intros p. apply piece_mass3_add2; assumption. Qed.
Theorem step_mass3_add3 ps x1 x2 y1 y2 a b c : a <= b -> b <= c ->
  step_mass3 ps (x1, y1, a) (x2, y2, c) == step_mass3 ps (x1, y1, a) (x2, y2, b) + step_mass3 ps (x1, y1, b) (x2, y2, c).
Proof. intros H1 H2. unfold step_mass3. apply step_mass3_lift. intros p. apply piece_mass3_add3; assumption. Qed.
Theorem step_mass3_pos ps a b : Forall (fun p => 0 <= dens3 p) ps -> 0 <= step_mass3 ps a b.
Proof.
  intros H. unfold step_mass3. apply qsum_nonneg. intros x Hx. apply in_map_iff in Hx. destruct Hx as (p & <- & Hp).
  apply piece_mass3_pos. rewrite Forall_forall in H. apply H. exact Hp.
Qed.
Theorem step_mass3_proper ps a1 a2 a3 b1 b2 b3 a1' a2' a3' b1' b2' b3' :
  a1 == a1' -> a2 == a2' -> a3 == a3' -> b1 == b1' -> b2 == b2' -> b3 == b3' ->
  step_mass3 ps (a1, a2, a3) (b1, b2, b3) == step_mass3 ps (a1', a2', a3') (b1', b2', b3').
Proof.
  intros E1 E2 E3 E4 E5 E6. unfold step_mass3. apply qsum_map_ext_in. intros p _. apply piece_mass3_proper; assumption.
Qed.

Lemma amid_refl x : amid x x == x.
Proof. unfold amid. lra. Qed.
Lemma amid_proper x x' y y' : x == x' -> y == y' -> amid x y == amid x' y'.
Proof. intros E1 E2. unfold amid. rewrite E1, E2. reflexivity. Qed.

(* the three theorems instantiated: NO hypothesis on the mass is left for the chains the correspondence runs *)
Theorem step_chain_3d ps xs ys zs o hx hy hz : Forall (fun p => 0 <= dens3 p) ps ->
  admissible xs o hx -> admissible ys o hy -> admissible zs o hz ->
  qsum3 (q_tensor3 amid (step_mass3 ps) xs ys zs o) == intensity3 amid (step_mass3 ps) xs ys zs o
  /\ (forall i j k, (i < length xs)%nat -> (j < length ys)%nat -> (k < length zs)%nat -> 0 <= q_entry3 amid (step_mass3 ps) xs ys zs o i j k).
Proof.
  intros Hd Ax Ay Az. split.
  - apply (sum_rates_is_intensity_3d amid amid_between (fun x _ => amid_refl x) amid_proper (step_mass3 ps)) with (hx := hx) (hy := hy) (hz := hz);
      try assumption.
    + intros; apply step_mass3_add1; assumption.
    + intros; apply step_mass3_add2; assumption.
    + intros; apply step_mass3_add3; assumption.
    + intros; apply step_mass3_proper; assumption.
  - intros i j k Hi Hj Hk.
    apply (rates_nonneg_3d amid amid_between (fun x _ => amid_refl x) amid_proper (step_mass3 ps)) with (hx := hx) (hy := hy) (hz := hz);
      try assumption.
    intros; apply step_mass3_pos; assumption.
Qed.

(* C01 over the reals -- port of Proofs/C01_Chain.v to Model/ChainR.v (cells tile, rates >= 0, sum of rates = intensity: the same
   telescoping, over R with Leibniz equality), then COMPOSITION with C09: the abstract `mass` is instantiated with the truncated
   closed form of a density whose integral identity is a theorem (HEM: Proofs/C09_Hem.v about Gen/GenC09Hem.v), so that the rates of
   the chain are integrals of the generated density over the cells with NO hypothesis left on the mass. *)
From Coq Require Import ZArith Reals List Bool Lia Lra.
From Coquelicot Require Import Coquelicot.
From RV Require Import Base.RB Base.RSpecial Gen.GenC09Trunc Gen.GenC09Hem Gen.GenC09Merton Gen.GenC09Vg Model.LevyClosedForms Model.ChainR
  Proofs.C09_Generic Proofs.C09_Hem Proofs.C09_Merton Proofs.C09_Vg Proofs.Tie_PyLoops Gen.GenC01ChainR.
Import ListNotations.
Open Scope R_scope.

(* ---------- lists *)
Lemma rsum_app l1 l2 : rsum (l1 ++ l2) = rsum l1 + rsum l2.
Proof. unfold rsum. induction l1 as [|x r IH]; simpl; [lra|]. rewrite IH. lra. Qed.
Lemma rsum_map_ext_in {A} (f g : A -> R) l : (forall x, In x l -> f x = g x) -> rsum (map f l) = rsum (map g l).
Proof. intros H. f_equal. apply map_ext_in. exact H. Qed.
Lemma rsum_nonneg l : (forall x, In x l -> 0 <= x) -> 0 <= rsum l.
Proof.
  unfold rsum. induction l as [|x r IH]; intros H; simpl; [lra|].
  assert (0 <= x) by (apply H; left; reflexivity).
  assert (0 <= fold_right Rplus 0 r) by (apply IH; intros y Hy; apply H; right; exact Hy). lra.
Qed.
Lemma seq_split3R n o : (o < n)%nat -> seq 0 n = seq 0 o ++ o :: seq (o + 1) (n - o - 1).
Proof.
  intros H. replace n with (o + (1 + (n - o - 1)))%nat at 1 by lia.
  rewrite seq_app. simpl. f_equal. f_equal. f_equal. lia.
Qed.

Lemma incrR_nth_succ xs : incrR xs -> forall i, (i + 1 < length xs)%nat -> nthR xs i < nthR xs (i + 1).
Proof.
  unfold nthR. induction xs as [|x r IH]; simpl; intros H i Hi; [lia|].
  destruct r as [|y r']; [simpl in Hi; lia|].
  destruct H as [Hxy Hr]. destruct i as [|i]; simpl; [exact Hxy|].
  apply IH; [exact Hr| simpl in *; lia].
Qed.
Lemma incrR_nth_lt xs : incrR xs -> forall i j, (i < j)%nat -> (j < length xs)%nat -> nthR xs i < nthR xs j.
Proof.
  intros H i j Hij Hj. induction j as [|j IH]; [lia|].
  destruct (Nat.eq_dec i j) as [->|Hne].
  - replace (S j) with (j + 1)%nat by lia. apply incrR_nth_succ; [exact H|lia].
  - apply Rlt_trans with (nthR xs j); [apply IH; lia|].
    replace (S j) with (j + 1)%nat by lia. apply incrR_nth_succ; [exact H|lia].
Qed.
Lemma lastR_nth xs : lastR xs = nthR xs (length xs - 1).
Proof.
  unfold lastR, nthR. induction xs as [|x r IH]; [reflexivity|].
  destruct r as [|y r']; [reflexivity|].
  change (last (x :: y :: r') 0) with (last (y :: r') 0). rewrite IH. simpl. rewrite Nat.sub_0_r. reflexivity.
Qed.
Lemma headR_nth xs : headR xs = nthR xs 0.
Proof. destruct xs; reflexivity. Qed.

Definition ends_okR (xs : list R) : Prop := nthR xs 0 < 0 /\ 0 < nthR xs (length xs - 1).
Lemma admissibleR_ends xs o h : admissibleR xs o h -> ends_okR xs.
Proof.
  intros (Hi & H1 & H2 & Hh & H0 & _). split.
  - rewrite <- H0. apply incrR_nth_lt; [exact Hi|lia|lia].
  - rewrite <- H0. apply incrR_nth_lt; [exact Hi|lia|lia].
Qed.

Section MeasureR.
  Variable mid : R -> R -> R.
  Hypothesis mid_between : forall x y, x < y -> x < mid x y /\ mid x y < y.
  Hypothesis mid_refl : forall x, x <> 0 -> mid x x = x.      (* only used at the two end points of the axis *)
  Variable mass : R -> R -> R.
  (* additivity / positivity only of intervals that do not contain the origin (finite for every Levy measure) *)
  Hypothesis mass_add : forall a b c, a <= b -> b <= c -> (c < 0 \/ 0 < a) -> mass a c = mass a b + mass b c.
  Hypothesis mass_pos : forall a b, a <= b -> (b < 0 \/ 0 < a) -> 0 <= mass a b.

  Lemma tele_leR (lo hi : nat -> R) m : forall a, (1 <= m)%nat ->
    (forall k, (a <= k < a + m)%nat -> lo k <= hi k) ->
    (forall k, (a <= k)%nat -> (k + 1 < a + m)%nat -> hi k = lo (k + 1)%nat) ->
    lo a <= hi (a + m - 1)%nat.
  Proof.
    induction m as [|m IH]; intros a Hm Hle Heq; [lia|].
    destruct m as [|m'].
    - replace (a + 1 - 1)%nat with a by lia. apply Hle. lia.
    - apply Rle_trans with (hi a); [apply Hle; lia|]. rewrite (Heq a) by lia.
      replace (a + S (S m') - 1)%nat with (a + 1 + S m' - 1)%nat by lia.
      apply IH; [lia| |]; intros k Hk; [apply Hle; lia|intros; apply Heq; lia].
  Qed.

  Lemma telescopeR (lo hi : nat -> R) m : forall a, (1 <= m)%nat ->
    (forall k, (a <= k < a + m)%nat -> lo k <= hi k) ->
    (forall k, (a <= k)%nat -> (k + 1 < a + m)%nat -> hi k = lo (k + 1)%nat) ->
    ((forall k, (a <= k < a + m)%nat -> hi k < 0) \/ (forall k, (a <= k < a + m)%nat -> 0 < lo k)) ->
    rsum (map (fun k => mass (lo k) (hi k)) (seq a m)) = mass (lo a) (hi (a + m - 1)%nat).
  Proof.
    induction m as [|m IH]; intros a Hm Hle Heq Hside; [lia|].
    destruct m as [|m'].
    - simpl. replace (a + 1 - 1)%nat with a by lia. unfold rsum. simpl. lra.
    - change (seq a (S (S m'))) with (a :: seq (S a) (S m')). cbn [map]. unfold rsum at 1. cbn [fold_right].
      fold (rsum (map (fun k => mass (lo k) (hi k)) (seq (S a) (S m')))).
      rewrite IH; [|lia| | |]; [|intros k Hk; apply Hle; lia|intros k H1 H2; apply Heq; lia
                                |destruct Hside as [Hs|Hs]; [left|right]; intros k Hk; apply Hs; lia].
      replace (S a + S m' - 1)%nat with (a + S (S m') - 1)%nat by lia.
      assert (E : hi a = lo (S a)) by (replace (S a) with (a + 1)%nat by lia; apply Heq; lia).
      rewrite <- E. symmetry. apply mass_add; [apply Hle; lia| |destruct Hside as [Hs|Hs]; [left|right]; apply Hs; lia].
      rewrite E. replace (a + S (S m') - 1)%nat with (S a + S m' - 1)%nat by lia.
      apply tele_leR; [lia| |]; [intros k Hk; apply Hle; lia|intros k H1 H2; apply Heq; lia].
  Qed.

  (* ---------- cells *)
  Lemma right_pointR_inner xs k : (k + 1 < length xs)%nat -> right_pointR xs k = nthR xs (k + 1).
  Proof. intros H. unfold right_pointR. f_equal. lia. Qed.
  Lemma right_pointR_last xs k : (k + 1 = length xs)%nat -> right_pointR xs k = nthR xs k.
  Proof. intros H. unfold right_pointR. f_equal. lia. Qed.
  Lemma left_pointR_inner xs k : (1 <= k)%nat -> left_pointR xs k = nthR xs (k - 1).
  Proof. intros H. unfold left_pointR. f_equal. lia. Qed.

  Lemma cell_shareR xs k : (k + 1 < length xs)%nat -> cell_hiR mid xs k = cell_loR mid xs (k + 1).
  Proof.
    intros H. unfold cell_hiR, cell_loR. rewrite right_pointR_inner by exact H.
    rewrite left_pointR_inner by lia. replace (k + 1 - 1)%nat with k by lia. reflexivity.
  Qed.

  Lemma cell_loR_le xs k : incrR xs -> ends_okR xs -> (k < length xs)%nat ->
    cell_loR mid xs k <= nthR xs k /\ ((1 <= k)%nat -> cell_loR mid xs k < nthR xs k) /\ ((1 <= k)%nat -> nthR xs (k - 1) < cell_loR mid xs k).
  Proof.
    intros Hi [E0 EN] Hk. unfold cell_loR. destruct k as [|k].
    - unfold left_pointR. simpl Nat.pred. rewrite mid_refl by lra. split; [lra|]. split; intros; lia.
    - rewrite left_pointR_inner by lia. replace (S k - 1)%nat with k by lia.
      assert (L : nthR xs k < nthR xs (S k)) by (replace (S k) with (k + 1)%nat by lia; apply incrR_nth_succ; [exact Hi|lia]).
      destruct (mid_between _ _ L). split; [lra|]. split; intros; assumption.
  Qed.

  Lemma cell_hiR_ge xs k : incrR xs -> ends_okR xs -> (k < length xs)%nat ->
    nthR xs k <= cell_hiR mid xs k /\ ((k + 1 < length xs)%nat -> nthR xs k < cell_hiR mid xs k /\ cell_hiR mid xs k < nthR xs (k + 1)).
  Proof.
    intros Hi [E0 EN] Hk. unfold cell_hiR. destruct (Nat.eq_dec (k + 1) (length xs)) as [E|E].
    - rewrite right_pointR_last by exact E.
      rewrite mid_refl by (replace k with (length xs - 1)%nat by lia; lra). split; [lra|]. intros; lia.
    - rewrite right_pointR_inner by lia.
      assert (L : nthR xs k < nthR xs (k + 1)) by (apply incrR_nth_succ; [exact Hi|lia]).
      destruct (mid_between _ _ L). split; [lra|]. intros; split; assumption.
  Qed.

  Lemma cell_loR_hi xs k : incrR xs -> ends_okR xs -> (k < length xs)%nat -> cell_loR mid xs k <= cell_hiR mid xs k.
  Proof. intros Hi He Hk. destruct (cell_loR_le xs k Hi He Hk) as [A _]. destruct (cell_hiR_ge xs k Hi He Hk) as [B _]. lra. Qed.

  Lemma cell_loR_mono xs : incrR xs -> ends_okR xs -> forall k k', (k <= k')%nat -> (k' < length xs)%nat -> cell_loR mid xs k <= cell_loR mid xs k'.
  Proof.
    intros Hi He k k' Hle Hk'. induction k' as [|k' IH]; [replace k with 0%nat by lia; lra|].
    destruct (Nat.eq_dec k (S k')) as [->|Hne]; [lra|].
    apply Rle_trans with (cell_loR mid xs k'); [apply IH; lia|].
    apply Rle_trans with (cell_hiR mid xs k'); [apply cell_loR_hi; [exact Hi|exact He|lia]|].
    rewrite cell_shareR by lia. replace (k' + 1)%nat with (S k') by lia. lra.
  Qed.

  Lemma cells_orderedR xs k k' : incrR xs -> ends_okR xs -> (k < k')%nat -> (k' < length xs)%nat -> cell_hiR mid xs k <= cell_loR mid xs k'.
  Proof.
    intros Hi He Hlt Hk'. rewrite cell_shareR by lia. apply cell_loR_mono; [exact Hi|exact He|lia|exact Hk'].
  Qed.

  Lemma cell_sideR xs o : incrR xs -> ends_okR xs -> (1 <= o)%nat -> (o + 1 < length xs)%nat -> nthR xs o = 0 ->
    forall k, (k < length xs)%nat -> ((k < o)%nat -> cell_hiR mid xs k < 0) /\ ((o < k)%nat -> 0 < cell_loR mid xs k).
  Proof.
    intros Hi He H1 H2 H0 k Hk. split; intros Hko.
    - apply Rle_lt_trans with (cell_loR mid xs o); [apply cells_orderedR; try assumption; lia|].
      destruct (cell_loR_le xs o Hi He ltac:(lia)) as (_ & A & _). rewrite <- H0. apply A. lia.
    - apply Rlt_le_trans with (cell_loR mid xs (o + 1)); [|apply cell_loR_mono; try assumption; lia].
      destruct (cell_loR_le xs (o + 1) Hi He ltac:(lia)) as (_ & _ & A). rewrite <- H0.
      replace o with (o + 1 - 1)%nat at 1 by lia. apply A. lia.
  Qed.

  Theorem rates_nonnegR xs o h k : admissibleR xs o h -> (k < length xs)%nat -> 0 <= q_entryR mid mass xs o k.
  Proof.
    intros A Hk. pose proof (admissibleR_ends xs o h A) as He. destruct A as (Hi & H1 & H2 & Hh & H0 & _).
    unfold q_entryR. destruct (Nat.eqb_spec k o); [lra|].
    destruct (cell_sideR xs o Hi He H1 H2 H0 k Hk) as [S1 S2].
    apply mass_pos; [apply cell_loR_hi; assumption|].
    destruct (Nat.lt_ge_cases k o); [left; apply S1; assumption|right; apply S2; lia].
  Qed.

  Lemma sum_cellsR xs a m : incrR xs -> ends_okR xs -> (1 <= m)%nat -> (a + m <= length xs)%nat ->
    ((forall k, (a <= k < a + m)%nat -> cell_hiR mid xs k < 0) \/ (forall k, (a <= k < a + m)%nat -> 0 < cell_loR mid xs k)) ->
    rsum (map (fun k => mass (cell_loR mid xs k) (cell_hiR mid xs k)) (seq a m)) = mass (cell_loR mid xs a) (cell_hiR mid xs (a + m - 1)).
  Proof.
    intros Hi He Hm Hl Hs. apply (telescopeR (cell_loR mid xs) (cell_hiR mid xs)); [exact Hm| | |exact Hs].
    - intros k Hk. apply cell_loR_hi; [exact Hi|exact He|lia].
    - intros k H1 H2. rewrite cell_shareR by lia. reflexivity.
  Qed.

  (* the tiling statement *)
  Theorem cells_tileR xs o h : admissibleR xs o h ->
    let n := length xs in
    (forall k, (k < n)%nat -> cell_loR mid xs k <= nthR xs k <= cell_hiR mid xs k
                 /\ ((1 <= k)%nat -> cell_loR mid xs k < nthR xs k) /\ ((k + 1 < n)%nat -> nthR xs k < cell_hiR mid xs k))
    /\ (forall k, (k + 1 < n)%nat -> cell_hiR mid xs k = cell_loR mid xs (k + 1))
    /\ (forall k k', (k < k')%nat -> (k' < n)%nat -> cell_hiR mid xs k <= cell_loR mid xs k')
    /\ cell_loR mid xs 0 = headR xs /\ cell_hiR mid xs (n - 1) = lastR xs
    /\ cell_hiR mid xs (o - 1) = h_leftR mid xs o /\ cell_loR mid xs (o + 1) = h_rightR mid xs o
    /\ h_leftR mid xs o < 0 /\ 0 < h_rightR mid xs o
    /\ (forall k, (k < n)%nat -> ((k < o)%nat -> cell_hiR mid xs k < 0) /\ ((o < k)%nat -> 0 < cell_loR mid xs k)).
  Proof.
    intros A n. pose proof (admissibleR_ends xs o h A) as He. destruct A as (Hi & Ho1 & Ho2 & Hh & H0 & Hm & Hp). subst n.
    pose proof He as [E0 EN].
    split; [|split; [|split; [|split; [|split; [|split; [|split; [|split; [|split]]]]]]]].
    - intros k Hk. destruct (cell_loR_le xs k Hi He Hk) as (A1 & A2 & _). destruct (cell_hiR_ge xs k Hi He Hk) as (B1 & B2).
      split; [split; assumption|]. split; [exact A2|]. intros H; apply B2; exact H.
    - intros k Hk. apply cell_shareR. exact Hk.
    - intros k k' H1 H2. apply cells_orderedR; assumption.
    - unfold cell_loR, left_pointR. simpl Nat.pred. rewrite mid_refl by lra. rewrite headR_nth. reflexivity.
    - unfold cell_hiR. rewrite right_pointR_last by lia. rewrite mid_refl by lra. rewrite lastR_nth. reflexivity.
    - unfold cell_hiR, h_leftR. rewrite right_pointR_inner by lia. rewrite left_pointR_inner by lia.
      replace (o - 1 + 1)%nat with o by lia. rewrite H0. reflexivity.
    - unfold cell_loR, h_rightR. rewrite left_pointR_inner by lia. rewrite right_pointR_inner by lia.
      replace (o + 1 - 1)%nat with o by lia. rewrite H0. reflexivity.
    - unfold h_leftR. rewrite left_pointR_inner by lia. assert (L : nthR xs (o - 1) < 0) by (rewrite Hm; lra).
      destruct (mid_between _ _ L). assumption.
    - unfold h_rightR. rewrite right_pointR_inner by lia. assert (L : 0 < nthR xs (o + 1)) by (rewrite Hp; lra).
      destruct (mid_between _ _ L). assumption.
    - apply cell_sideR; assumption.
  Qed.

  Theorem sum_rates_is_intensity_1dR xs o h : admissibleR xs o h ->
    rsum (q_vectorR mid mass xs o) = intensity1R mid mass xs o.
  Proof.
    intros A. pose proof (cells_tileR xs o h A) as T. cbv zeta in T. destruct T as (_ & _ & _ & E1 & E4 & E2 & E3 & _).
    pose proof (admissibleR_ends xs o h A) as He. destruct A as (Hi & Ho1 & Ho2 & Hh & H0 & Hm & Hp).
    pose proof (cell_sideR xs o Hi He Ho1 Ho2 H0) as CS. unfold q_vectorR, intensity1R.
    rewrite (seq_split3R (length xs) o) by lia. rewrite map_app. cbn [map]. rewrite rsum_app.
    unfold rsum at 2. cbn [fold_right]. fold (rsum (map (q_entryR mid mass xs o) (seq (o + 1) (length xs - o - 1)))).
    unfold q_entryR at 2. rewrite Nat.eqb_refl.
    rewrite (rsum_map_ext_in (q_entryR mid mass xs o) (fun k => mass (cell_loR mid xs k) (cell_hiR mid xs k)) (seq 0 o)).
    2:{ intros k Hk. apply in_seq in Hk. unfold q_entryR. destruct (Nat.eqb_spec k o); [lia|reflexivity]. }
    rewrite (rsum_map_ext_in (q_entryR mid mass xs o) (fun k => mass (cell_loR mid xs k) (cell_hiR mid xs k)) (seq (o + 1) _)).
    2:{ intros k Hk. apply in_seq in Hk. unfold q_entryR. destruct (Nat.eqb_spec k o); [lia|reflexivity]. }
    rewrite (sum_cellsR xs 0 o Hi He) by (try lia; left; intros k Hk; apply CS; lia).
    rewrite (sum_cellsR xs (o + 1) (length xs - o - 1) Hi He) by (try lia; right; intros k Hk; apply CS; lia).
    replace (0 + o - 1)%nat with (o - 1)%nat by lia.
    replace (o + 1 + (length xs - o - 1) - 1)%nat with (length xs - 1)%nat by lia.
    rewrite E1, E2, E3, E4. lra.
  Qed.
End MeasureR.

Lemma amidR_between x y : x < y -> x < amidR x y /\ amidR x y < y.
Proof. unfold amidR; intros; split; lra. Qed.
Lemma amidR_refl x : amidR x x = x.
Proof. unfold amidR. field. Qed.

(* ---------- the rate vector regenerated over R from the source = the hand model (port of Proofs/Tie_Chain.v to R) *)
Lemma genR_middle_eq_model x y : GenC01ChainR.middle x y = amidR x y.
Proof. reflexivity. Qed.
Lemma genR_left_point_eq_model xs (k : nat) : GenC01ChainR.left_point xs (Z.of_nat k) = left_pointR xs k.
Proof.
  unfold GenC01ChainR.left_point, left_pointR, nthR.
  rewrite py_nth_nonneg by lia. f_equal. lia.
Qed.
Lemma genR_right_point_eq_model xs (k : nat) : GenC01ChainR.right_point xs (Z.of_nat k) = right_pointR xs k.
Proof.
  unfold GenC01ChainR.right_point, right_pointR, nthR, py_len.
  destruct xs as [|a r].
  - simpl length. destruct (Nat.min (0 - 1) (k + 1)); unfold py_nth; simpl;
      destruct (Z.min (0 - 1) (Z.of_nat k + 1) <? 0)%Z; try destruct (_ <? _)%Z; try reflexivity;
      destruct (Z.to_nat _); reflexivity.
  - rewrite py_nth_nonneg by (simpl length; lia). f_equal. simpl length. lia.
Qed.
Theorem genR_create_q_vector_eq_model (mass mid : R -> R -> R) xs (o : nat) :
  GenC01ChainR.create_q_vector mass mid xs (Z.of_nat o) = q_vectorR mid mass xs o.
Proof.
  unfold GenC01ChainR.create_q_vector, q_vectorR. cbv zeta.
  rewrite (fold_enumerate_seq 0).
  rewrite (fold_left_ext _
    (fun q k => if negb (Nat.eqb k o)
                then py_set q (Z.of_nat k) (mass (cell_loR mid xs k) (cell_hiR mid xs k)) else q)).
  - unfold py_len. rewrite (fold_set_seq 0 (fun k => negb (Nat.eqb k o))).
    apply map_ext. intros k. unfold q_entryR. destruct (Nat.eqb k o); reflexivity.
  - intros q k _. cbv beta iota zeta.
    replace (Z.eqb (Z.of_nat k) (Z.of_nat o)) with (Nat.eqb k o)
      by (destruct (Nat.eqb_spec k o); destruct (Z.eqb_spec (Z.of_nat k) (Z.of_nat o)); try reflexivity; lia).
    destruct (Nat.eqb k o); [reflexivity|]. simpl negb. cbv iota.
    unfold cell_loR, cell_hiR. rewrite genR_left_point_eq_model, genR_right_point_eq_model. reflexivity.
Qed.
(* compute_intensity_of_jumps (1-d model), regenerated over R: the two blocks left after next(..), added from 0 *)
Theorem genR_compute_intensity_of_jumps_1d_eq_model (mass mid : R -> R -> R) xs (o : nat) :
  GenC01ChainR.compute_intensity_of_jumps_1d mass mid xs (Z.of_nat o) = intensity1R mid mass xs o.
Proof.
  unfold GenC01ChainR.compute_intensity_of_jumps_1d, intensity1R, h_leftR, h_rightR. cbv zeta.
  rewrite genR_left_point_eq_model, genR_right_point_eq_model.
  change (Z.opp 1%Z) with (-1)%Z. rewrite py_nth_last, py_nth_head. reflexivity.
Qed.
Lemma nth_q_vectorR mid m xs o k : (k < length xs)%nat -> nthR (q_vectorR mid m xs o) k = q_entryR mid m xs o k.
Proof.
  intros Hk. unfold nthR, q_vectorR.
  rewrite (nth_indep _ 0 (q_entryR mid m xs o 0%nat)) by (rewrite map_length, seq_length; exact Hk).
  rewrite map_nth. rewrite seq_nth by exact Hk. reflexivity.
Qed.

(* ---------- COMPOSITION with C09: a density nu whose integral over [a,b] is the closed form F a b on the sub-intervals of the
   truncation range [l,r] (l < 0 < r) that do not contain the origin.  The truncated closed form TruncatedLevyMeasure.integrate =
   truncated_integrate F l r (Model/LevyClosedForms.v around the generated truncated_interval) is then additive and non-negative
   away from the origin ON ALL OF R, and is the integral of nu on the sub-intervals of [l,r]: the hypotheses of Section MeasureR
   become theorems. *)
Ltac rcases := unfold Rmax, Rmin in *;
  repeat match goal with
  | |- context [Rle_dec ?x ?y] => destruct (Rle_dec x y)
  | _ : context [Rle_dec ?x ?y] |- _ => destruct (Rle_dec x y)
  end; try lra.

Section Density.
  Variable nu : R -> R.
  Variable F : R -> R -> R.
  Variables l r : R.
  Hypothesis l_neg : l < 0.
  Hypothesis r_pos : 0 < r.
  Hypothesis HF : forall a b, l <= a -> a <= b -> b <= r -> (b < 0 \/ 0 < a) -> is_RInt nu a b (F a b).
  Hypothesis nu_pos : forall x, 0 <= nu x.

  Definition G (a b : R) : R := if Reqb a b then 0 else F a b.
  Definition clipR (x : R) : R := Rmax (Rmin x r) l.
  Let tm := truncated_integrate F l r.

  Lemma tm_clip a b : a <= b -> tm a b = G (clipR a) (clipR b).
  Proof.
    intros Hab. unfold tm, truncated_integrate.
    replace (Rltb b a) with false by (symmetry; apply Rltb_false; assumption).
    rewrite truncated_interval_eq. unfold G, clipR.
    replace (Rmin (Rmax b l) r) with (Rmax (Rmin b r) l) by rcases. reflexivity.
  Qed.
  Lemma clipR_mono a b : a <= b -> clipR a <= clipR b.
  Proof. intros. unfold clipR. rcases. Qed.
  Lemma clipR_range a : l <= clipR a <= r.
  Proof. unfold clipR. rcases. Qed.
  Lemma clipR_neg a : a < 0 -> clipR a < 0.
  Proof. intros. unfold clipR. rcases. Qed.
  Lemma clipR_pos a : 0 < a -> 0 < clipR a.
  Proof. intros. unfold clipR. rcases. Qed.
  Lemma clipR_inside a : l <= a <= r -> clipR a = a.
  Proof. intros. unfold clipR. rcases. Qed.

  Lemma G_is_RInt a b : l <= a -> a <= b -> b <= r -> (b < 0 \/ 0 < a) -> is_RInt nu a b (G a b).
  Proof.
    intros H1 H2 H3 Hs. unfold G. destruct (Req_dec a b) as [E|N].
    - subst b. rewrite Reqb_refl. apply (@is_RInt_point R_NormedModule).
    - rewrite Reqb_false by exact N. apply HF; assumption.
  Qed.
  Lemma G_add a b c : l <= a -> a <= b -> b <= c -> c <= r -> (c < 0 \/ 0 < a) -> G a c = G a b + G b c.
  Proof.
    intros H1 H2 H3 H4 Hs.
    assert (I1 : is_RInt nu a c (G a c)) by (apply G_is_RInt; try lra; assumption).
    assert (I2 : is_RInt nu a b (G a b)) by (apply G_is_RInt; lra).
    assert (I3 : is_RInt nu b c (G b c)) by (apply G_is_RInt; lra).
    rewrite <- (is_RInt_unique _ _ _ _ I1). apply is_RInt_unique. apply (chasles_R nu a b c); assumption.
  Qed.
  Lemma G_pos a b : l <= a -> a <= b -> b <= r -> (b < 0 \/ 0 < a) -> 0 <= G a b.
  Proof.
    intros H1 H2 H3 Hs. apply (is_RInt_ge_0 nu a b); [exact H2|apply G_is_RInt; assumption|intros; apply nu_pos].
  Qed.

  Theorem tm_add a b c : a <= b -> b <= c -> (c < 0 \/ 0 < a) -> tm a c = tm a b + tm b c.
  Proof.
    intros H1 H2 Hs. rewrite !tm_clip by lra.
    pose proof (clipR_range a). pose proof (clipR_range c).
    apply G_add; try (apply clipR_mono; assumption); try lra.
    destruct Hs; [left; apply clipR_neg|right; apply clipR_pos]; assumption.
  Qed.
  Theorem tm_pos a b : a <= b -> (b < 0 \/ 0 < a) -> 0 <= tm a b.
  Proof.
    intros H Hs. rewrite tm_clip by exact H.
    pose proof (clipR_range a). pose proof (clipR_range b).
    apply G_pos; try (apply clipR_mono; assumption); try lra.
    destruct Hs; [left; apply clipR_neg|right; apply clipR_pos]; assumption.
  Qed.
  (* on the sub-intervals of [l,r] away from the origin the truncated closed form IS the integral of the density *)
  Theorem tm_is_RInt a b : l <= a -> a <= b -> b <= r -> (b < 0 \/ 0 < a) -> is_RInt nu a b (tm a b).
  Proof.
    intros H1 H2 H3 Hs. rewrite tm_clip by exact H2. rewrite !clipR_inside by lra. apply G_is_RInt; assumption.
  Qed.
End Density.

(* the chain a 1-d MarkovChainProcess builds (measure truncated to (axis[0], axis[-1]), arithmetic-mean middle), stated ABOUT THE
   GENERATED create_q_vector / middle, for ANY density with a closed form on the truncation range *)
Theorem density_chain_rates (nu : R -> R) (F : R -> R -> R) xs (o : nat) h : admissibleR xs o h ->
  (forall a b, headR xs <= a -> a <= b -> b <= lastR xs -> (b < 0 \/ 0 < a) -> is_RInt nu a b (F a b)) ->
  (forall x, 0 <= nu x) ->
  let m := truncated_integrate F (headR xs) (lastR xs) in
  let q := GenC01ChainR.create_q_vector m GenC01ChainR.middle xs (Z.of_nat o) in
  length q = length xs
  /\ (forall k, (k < length xs)%nat -> k <> o -> is_RInt nu (cell_loR amidR xs k) (cell_hiR amidR xs k) (nthR q k))
  /\ nthR q o = 0
  /\ (forall k, (k < length xs)%nat -> 0 <= nthR q k)
  /\ rsum q = GenC01ChainR.compute_intensity_of_jumps_1d m GenC01ChainR.middle xs (Z.of_nat o)
  /\ rsum q = m (headR xs) (h_leftR amidR xs o) + m (h_rightR amidR xs o) (lastR xs)
  /\ is_RInt nu (headR xs) (h_leftR amidR xs o) (m (headR xs) (h_leftR amidR xs o))
  /\ is_RInt nu (h_rightR amidR xs o) (lastR xs) (m (h_rightR amidR xs o) (lastR xs)).
Proof.
  intros A HF Hnu m q.
  pose proof (admissibleR_ends xs o h A) as He.
  assert (Ln : headR xs < 0) by (rewrite headR_nth; apply He).
  assert (Rp : 0 < lastR xs) by (rewrite lastR_nth; apply He).
  assert (MA : forall a b c, a <= b -> b <= c -> (c < 0 \/ 0 < a) -> m a c = m a b + m b c)
    by (intros; apply (tm_add nu F (headR xs) (lastR xs)); assumption).
  assert (MP : forall a b, a <= b -> (b < 0 \/ 0 < a) -> 0 <= m a b)
    by (intros; apply (tm_pos nu F (headR xs) (lastR xs)); assumption).
  assert (MI : forall a b, headR xs <= a -> a <= b -> b <= lastR xs -> (b < 0 \/ 0 < a) -> is_RInt nu a b (m a b))
    by (intros; apply (tm_is_RInt nu F (headR xs) (lastR xs)); assumption).
  assert (E : q = q_vectorR amidR m xs o) by (unfold q; apply genR_create_q_vector_eq_model).
  pose proof (cells_tileR amidR amidR_between (fun x _ => amidR_refl x) xs o h A) as T. cbv zeta in T.
  destruct T as (T1 & T2 & T3 & T4 & T5 & T6 & T7 & T8 & T9 & T10).
  pose proof A as (Hi & Ho1 & Ho2 & _).
  rewrite E.
  split; [unfold q_vectorR; rewrite map_length, seq_length; reflexivity|].
  split; [|split; [|split; [|split; [|split; [|split]]]]].
  - intros k Hk Hne. rewrite nth_q_vectorR by exact Hk. unfold q_entryR. destruct (Nat.eqb_spec k o); [contradiction|].
    apply MI.
    + rewrite <- T4. apply (cell_loR_mono amidR amidR_between (fun x _ => amidR_refl x)); try assumption; lia.
    + apply (cell_loR_hi amidR amidR_between (fun x _ => amidR_refl x)); assumption.
    + rewrite <- T5. destruct (Nat.eq_dec k (length xs - 1)) as [->|Hn]; [apply Rle_refl|].
      apply Rle_trans with (cell_loR amidR xs (length xs - 1)); [apply T3; lia|].
      apply (cell_loR_hi amidR amidR_between (fun x _ => amidR_refl x)); try assumption. lia.
    + destruct (T10 k Hk) as [S1 S2]. destruct (Nat.lt_ge_cases k o); [left; apply S1; assumption|right; apply S2; lia].
  - rewrite nth_q_vectorR by lia. unfold q_entryR. rewrite Nat.eqb_refl. reflexivity.
  - intros k Hk. rewrite nth_q_vectorR by exact Hk.
    apply (rates_nonnegR amidR amidR_between (fun x _ => amidR_refl x) m MP) with (h := h); assumption.
  - rewrite genR_compute_intensity_of_jumps_1d_eq_model.
    apply (sum_rates_is_intensity_1dR amidR amidR_between (fun x _ => amidR_refl x) m MA) with (h := h); assumption.
  - rewrite (sum_rates_is_intensity_1dR amidR amidR_between (fun x _ => amidR_refl x) m MA xs o h A). unfold intensity1R. ring.
  - apply MI; [apply Rle_refl| |lra|left; exact T8].
    rewrite <- T4, <- T6. apply Rle_trans with (cell_loR amidR xs (o - 1)).
    + apply (cell_loR_mono amidR amidR_between (fun x _ => amidR_refl x)); try assumption; lia.
    + apply (cell_loR_hi amidR amidR_between (fun x _ => amidR_refl x)); try assumption; lia.
  - apply MI; [lra| |apply Rle_refl|right; exact T9].
    rewrite <- T5, <- T7. apply Rle_trans with (cell_loR amidR xs (length xs - 1)).
    + apply (cell_loR_mono amidR amidR_between (fun x _ => amidR_refl x)); try assumption; lia.
    + apply (cell_loR_hi amidR amidR_between (fun x _ => amidR_refl x)); try assumption; lia.
Qed.

(* ---------- HEM: density and closed form are the GENERATED hem_nu / hem_integrate of hem.py; the integral identity is C09's theorem *)
Theorem hem_chain_rates INF lam p e1 e2 xs (o : nat) h :
  0 <= lam -> 0 <= p <= 1 -> 0 < e1 -> 0 < e2 -> admissibleR xs o h ->
  let nu := hem_nu lam p e1 e2 in
  let m := truncated_integrate (hem_integrate INF lam p e1 e2) (headR xs) (lastR xs) in
  let q := GenC01ChainR.create_q_vector m GenC01ChainR.middle xs (Z.of_nat o) in
  length q = length xs
  /\ (forall k, (k < length xs)%nat -> k <> o -> is_RInt nu (cell_loR amidR xs k) (cell_hiR amidR xs k) (nthR q k))
  /\ nthR q o = 0
  /\ (forall k, (k < length xs)%nat -> 0 <= nthR q k)
  /\ rsum q = GenC01ChainR.compute_intensity_of_jumps_1d m GenC01ChainR.middle xs (Z.of_nat o)
  /\ rsum q = m (headR xs) (h_leftR amidR xs o) + m (h_rightR amidR xs o) (lastR xs)
  /\ is_RInt nu (headR xs) (h_leftR amidR xs o) (m (headR xs) (h_leftR amidR xs o))
  /\ is_RInt nu (h_rightR amidR xs o) (lastR xs) (m (h_rightR amidR xs o) (lastR xs)).
Proof.
  intros Hl Hp H1 H2 A. apply density_chain_rates with (h := h); [exact A| |].
  - intros a b _ Hab _ _. apply is_RInt_ext with (f := fun x => x ^ 0 * hem_nu lam p e1 e2 x); [intros x _; simpl; ring|].
    apply hem_mass_is_RInt; first [exact Hab | lra].
  - intros x. apply hem_nu_nonneg; assumption.
Qed.

(* ---------- Merton: generated merton_nu / merton_integrate of merton.py (erf as in Base/RSpecial.v), integral identity = C09's theorem *)
Theorem merton_chain_rates lam mu sj xs (o : nat) h :
  0 <= lam -> 0 < sj -> admissibleR xs o h ->
  let nu := merton_nu lam mu sj in
  let m := truncated_integrate (merton_integrate lam mu sj) (headR xs) (lastR xs) in
  let q := GenC01ChainR.create_q_vector m GenC01ChainR.middle xs (Z.of_nat o) in
  length q = length xs
  /\ (forall k, (k < length xs)%nat -> k <> o -> is_RInt nu (cell_loR amidR xs k) (cell_hiR amidR xs k) (nthR q k))
  /\ nthR q o = 0
  /\ (forall k, (k < length xs)%nat -> 0 <= nthR q k)
  /\ rsum q = GenC01ChainR.compute_intensity_of_jumps_1d m GenC01ChainR.middle xs (Z.of_nat o)
  /\ rsum q = m (headR xs) (h_leftR amidR xs o) + m (h_rightR amidR xs o) (lastR xs)
  /\ is_RInt nu (headR xs) (h_leftR amidR xs o) (m (headR xs) (h_leftR amidR xs o))
  /\ is_RInt nu (h_rightR amidR xs o) (lastR xs) (m (h_rightR amidR xs o) (lastR xs)).
Proof.
  intros Hl Hs A. apply density_chain_rates with (h := h); [exact A| |].
  - intros a b _ Hab _ _. apply is_RInt_ext with (f := fun x => x ^ 0 * merton_nu lam mu sj x); [intros x _; simpl; ring|].
    apply merton_mass_is_RInt; assumption.
  - intros x. apply merton_nu_nonneg; assumption.
Qed.

(* ---------- VG, INFINITE activity (the mass of every neighbourhood of 0 is infinite; the closed form is the integral only on
   intervals that avoid the origin, which is all the chain ever asks for): generated vg_nu / vg_integrate of vg.py, exp1 as
   E1c c0 (Base/RSpecial.v), INF the float infinity sentinel, required to exceed the truncation range *)
Theorem vg_chain_rates INF c lm lp c0 xs (o : nat) h :
  0 <= c -> 0 < lm -> 0 < lp -> admissibleR xs o h -> - INF < headR xs -> lastR xs < INF ->
  let nu := vg_nu c lm lp in
  let m := truncated_integrate (vg_integrate (E1c c0) INF c lm lp) (headR xs) (lastR xs) in
  let q := GenC01ChainR.create_q_vector m GenC01ChainR.middle xs (Z.of_nat o) in
  length q = length xs
  /\ (forall k, (k < length xs)%nat -> k <> o -> is_RInt nu (cell_loR amidR xs k) (cell_hiR amidR xs k) (nthR q k))
  /\ nthR q o = 0
  /\ (forall k, (k < length xs)%nat -> 0 <= nthR q k)
  /\ rsum q = GenC01ChainR.compute_intensity_of_jumps_1d m GenC01ChainR.middle xs (Z.of_nat o)
  /\ rsum q = m (headR xs) (h_leftR amidR xs o) + m (h_rightR amidR xs o) (lastR xs)
  /\ is_RInt nu (headR xs) (h_leftR amidR xs o) (m (headR xs) (h_leftR amidR xs o))
  /\ is_RInt nu (h_rightR amidR xs o) (lastR xs) (m (h_rightR amidR xs o) (lastR xs)).
Proof.
  intros Hc Hm Hp A IL IR.
  pose proof (admissibleR_ends xs o h A) as He.
  assert (Ln : headR xs < 0) by (rewrite headR_nth; apply He).
  assert (Rp : 0 < lastR xs) by (rewrite lastR_nth; apply He).
  apply density_chain_rates with (h := h); [exact A| |].
  - intros a b Ha Hab Hb Hs. apply is_RInt_ext with (f := fun x => x ^ 0 * vg_nu c lm lp x); [intros x _; simpl; ring|].
    apply vg_mass_is_RInt; try assumption; lra.
  - intros x. apply vg_nu_nonneg; assumption.
Qed.

(* ---------- create_vec_jump_matrix: the probability vector handed to ALIAS / TABLE / BINARYSEARCHTREE / HUFFMANNTREE *)
Lemma set_nthR_same l : forall i, nth i l 0 = 0 -> set_nthR l i 0 = l.
Proof.
  induction l as [|x r IH]; intros i H; [destruct i; reflexivity|].
  destruct i as [|i]; simpl in *; [rewrite H; reflexivity|]. rewrite IH by exact H. reflexivity.
Qed.
Lemma rsum_map_div q lam : rsum (map (fun x => x / lam) q) = rsum q / lam.
Proof. unfold rsum. induction q as [|x r IH]; simpl; [unfold Rdiv; ring|]. rewrite IH. unfold Rdiv. ring. Qed.

Theorem jump_vector_is_distribution q (o : nat) lam :
  nthR q o = 0 -> (forall k, (k < length q)%nat -> 0 <= nthR q k) -> lam = rsum q -> 0 < lam ->
  let pv := jump_vectorR q o lam in
  length pv = length q /\ rsum pv = 1 /\ nthR pv o = 0
  /\ (forall k, (k < length q)%nat -> 0 <= nthR pv k /\ nthR pv k = nthR q k / lam).
Proof.
  intros H0 Hpos Hlam Hl pv.
  assert (E : pv = map (fun x => x / lam) q).
  { unfold pv, jump_vectorR. apply set_nthR_same.
    destruct (Nat.lt_ge_cases o (length q)) as [Ho|Ho].
    - rewrite (nth_indep _ 0 (0 / lam)) by (rewrite map_length; exact Ho).
      rewrite (map_nth (fun x => x / lam)). fold (nthR q o). rewrite H0. unfold Rdiv. ring.
    - apply nth_overflow. rewrite map_length. exact Ho. }
  assert (N : forall k, (k < length q)%nat -> nthR pv k = nthR q k / lam).
  { intros k Hk. rewrite E. unfold nthR. rewrite (nth_indep _ 0 (0 / lam)) by (rewrite map_length; exact Hk).
    rewrite (map_nth (fun x => x / lam)). reflexivity. }
  split; [rewrite E; apply map_length|]. split; [rewrite E, rsum_map_div, <- Hlam; field; lra|]. split.
  - destruct (Nat.lt_ge_cases o (length q)) as [Ho|Ho]; [rewrite N by exact Ho; rewrite H0; unfold Rdiv; ring|].
    unfold nthR. apply nth_overflow. rewrite E, map_length. exact Ho.
  - intros k Hk. split; [|apply N; exact Hk]. rewrite N by exact Hk.
    apply Rmult_le_pos; [apply Hpos; exact Hk|left; apply Rinv_0_lt_compat; exact Hl].
Qed.

(* ---------- the abstract-mass chain statement over R in one piece (for Properties/C01.v) *)
Theorem chain_R (mid mass : R -> R -> R) :
  (forall x y, x < y -> x < mid x y /\ mid x y < y) -> (forall x, x <> 0 -> mid x x = x) ->
  (forall a b c, a <= b -> b <= c -> (c < 0 \/ 0 < a) -> mass a c = mass a b + mass b c) ->
  (forall a b, a <= b -> (b < 0 \/ 0 < a) -> 0 <= mass a b) ->
  forall xs o h, admissibleR xs o h ->
  rsum (q_vectorR mid mass xs o) = intensity1R mid mass xs o
  /\ (forall k, (k < length xs)%nat -> 0 <= q_entryR mid mass xs o k)
  /\ (forall k, (k < length xs)%nat -> cell_loR mid xs k <= nthR xs k <= cell_hiR mid xs k)
  /\ (forall k, (k + 1 < length xs)%nat -> cell_hiR mid xs k = cell_loR mid xs (k + 1))
  /\ cell_loR mid xs 0 = headR xs /\ cell_hiR mid xs (length xs - 1) = lastR xs
  /\ cell_hiR mid xs (o - 1) = h_leftR mid xs o /\ cell_loR mid xs (o + 1) = h_rightR mid xs o
  /\ h_leftR mid xs o < 0 /\ 0 < h_rightR mid xs o.
Proof.
  intros MB MR MA MP xs o h A.
  pose proof (cells_tileR mid MB MR xs o h A) as T. cbv zeta in T. destruct T as (T1 & T2 & _ & T4 & T5 & T6 & T7 & T8 & T9 & _).
  split; [apply (sum_rates_is_intensity_1dR mid MB MR mass MA) with (h := h); exact A|].
  split; [intros k Hk; apply (rates_nonnegR mid MB MR mass MP) with (h := h); assumption|].
  split; [intros k Hk; apply T1; exact Hk|]. repeat split; assumption.
Qed.

(* ---------- non-vacuity on a concrete axis with unequal gaps *)
Lemma hem_nonvacuous :
  let xs := [-2; -1; 0; 1; 3] in
  admissibleR xs 2 1 /\ - 10 < headR xs /\ lastR xs < 10
  /\ cell_loR amidR xs 3 = 1 / 2 /\ cell_hiR amidR xs 3 = 2
  /\ nthR (GenC01ChainR.create_q_vector (truncated_integrate (hem_integrate 10 1 (1/2) 1 1) (headR xs) (lastR xs)) GenC01ChainR.middle xs 2) 3
     = 1 / 2 * (exp (- (1 / 2)) - exp (- 2))
  /\ 0 < 1 / 2 * (exp (- (1 / 2)) - exp (- 2)).
Proof.
  intros xs.
  assert (C1 : cell_loR amidR xs 3 = 1 / 2) by (unfold cell_loR, left_pointR, nthR, amidR, xs; simpl; lra).
  assert (C2 : cell_hiR amidR xs 3 = 2) by (unfold cell_hiR, right_pointR, nthR, amidR, xs; simpl; lra).
  split; [unfold admissibleR, nthR, xs; simpl; repeat split; try lia; lra|].
  split; [unfold headR, xs; simpl; lra|]. split; [unfold lastR, xs; simpl; lra|].
  split; [exact C1|]. split; [exact C2|]. split.
  - pose proof (genR_create_q_vector_eq_model (truncated_integrate (hem_integrate 10 1 (1/2) 1 1) (headR xs) (lastR xs))
                  GenC01ChainR.middle xs 2) as E. simpl Z.of_nat in E. rewrite E. clear E.
    rewrite nth_q_vectorR by (unfold xs; simpl; lia). unfold q_entryR. simpl Nat.eqb. cbv iota.
    change (cell_loR GenC01ChainR.middle xs 3) with (cell_loR amidR xs 3).
    change (cell_hiR GenC01ChainR.middle xs 3) with (cell_hiR amidR xs 3). rewrite C1, C2.
    replace (headR xs) with (-2) by (unfold headR, xs; simpl; lra).
    replace (lastR xs) with 3 by (unfold lastR, xs; simpl; lra).
    unfold truncated_integrate.
    replace (Rltb 2 (1 / 2)) with false by (symmetry; apply Rltb_false; lra).
    rewrite truncated_interval_eq.
    replace (Rmax (Rmin (1 / 2) 3) (-2)) with (1 / 2) by rcases.
    replace (Rmin (Rmax 2 (-2)) 3) with 2 by rcases.
    rewrite Reqb_false by lra. rewrite hem_integrate_pos by lra.
    replace (Ropp 1 * 2) with (-2) by lra. replace (Ropp 1 * (1 / 2)) with (- (1 / 2)) by lra. lra.
  - assert (exp (- 2) < exp (- (1 / 2))) by (apply exp_increasing; lra). lra.
Qed.

(* ---------- evaluation lemmas for the interval-arithmetic correspondence (harness/props/C01.py, stream hemR): the truncated HEM closed form
   on a sub-interval of the truncation range on one side of the origin *)
Lemma hem_rate_pos INF lam p e1 e2 l r a b : l <= a -> a < b -> b <= r -> 0 <= a ->
  truncated_integrate (hem_integrate INF lam p e1 e2) l r a b = - lam * p * (exp (- e1 * b) - exp (- e1 * a)).
Proof.
  intros H1 H2 H3 H4. unfold truncated_integrate.
  replace (Rltb b a) with false by (symmetry; apply Rltb_false; lra).
  rewrite truncated_interval_eq.
  replace (Rmax (Rmin a r) l) with a by rcases. replace (Rmin (Rmax b l) r) with b by rcases.
  rewrite Reqb_false by lra. apply hem_integrate_pos; lra.
Qed.
Lemma hem_rate_neg INF lam p e1 e2 l r a b : l <= a -> a < b -> b <= r -> b <= 0 ->
  truncated_integrate (hem_integrate INF lam p e1 e2) l r a b = lam * (1 - p) * (exp (e2 * b) - exp (e2 * a)).
Proof.
  intros H1 H2 H3 H4. unfold truncated_integrate.
  replace (Rltb b a) with false by (symmetry; apply Rltb_false; lra).
  rewrite truncated_interval_eq.
  replace (Rmax (Rmin a r) l) with a by rcases. replace (Rmin (Rmax b l) r) with b by rcases.
  rewrite Reqb_false by lra. apply hem_integrate_neg; lra.
Qed.
(* entry k of the generated rate vector, for a literal axis *)
Lemma genR_q_entry m xs (o k : nat) : (k < length xs)%nat -> k <> o ->
  nthR (GenC01ChainR.create_q_vector m GenC01ChainR.middle xs (Z.of_nat o)) k = m (cell_loR amidR xs k) (cell_hiR amidR xs k).
Proof.
  intros Hk Hne. rewrite genR_create_q_vector_eq_model, nth_q_vectorR by exact Hk.
  unfold q_entryR. destruct (Nat.eqb_spec k o); [contradiction|reflexivity].
Qed.
Lemma hem_intensity_eval INF lam p e1 e2 l r hl hr : l < hl -> hl <= 0 -> 0 <= hr -> hr < r ->
  0 + truncated_integrate (hem_integrate INF lam p e1 e2) l r l hl + truncated_integrate (hem_integrate INF lam p e1 e2) l r hr r
  = lam * (1 - p) * (exp (e2 * hl) - exp (e2 * l)) + - lam * p * (exp (- e1 * r) - exp (- e1 * hr)).
Proof. intros H1 H2 H3 H4. rewrite hem_rate_neg by lra. rewrite hem_rate_pos by lra. ring. Qed.

(* C01 (wave 7, audit 4 A4 / D5) -- WHICH measure a copula chain takes its rates from.
     MarkovChainLevyCopula.__init__ (markovchainlevycopula.py:95-96):  model_tilde = deepcopy(model); model_tilde.truncate_levy_measure(grid.truncations)
     LevyCopulaModel.truncate_levy_measure (levycopulamodel.py:121-127): "Truncate all marginal measures" -- every MARGIN nu_k is restricted to
     (axes[k][0], axes[k][-1]); the copula F is kept.
   So the rate of a cell is the mass under nu~ := the Levy measure with copula F and margins nu_k|[l_k, r_k]  ("copula of the truncated margins"),
   through LevyCopulaModel.mass = the generated mass_2d / mass_3d of C12 (box_mass2 / box_mass3 of Proofs/C19_Theta2d.v / C19_Theta3d.v) on the
   tail integrals of the truncated margins.  nu~ is NOT the restriction of the model's Levy measure nu to the grid box: the tail integrals are
   shifted (U~_k(x) = U_k(x) - U_k(r_k)), which moves mass between cells INSIDE the box as soon as some margin has mass outside its axis range.
   Below: (1) for nu~ the additivity hypotheses of Sections Measure2d / Measure3d are THEOREMS (inclusion-exclusion; composed read-only with
   C19), so sum of the code's rates = reported intensity holds with truncation active, for any tail integrals; (2) the reading "rate = nu(cell)"
   is REFUTED by a witness run on the real code (finding F-C01-1); (3) both readings are executable for step margins with the library's
   independent / completely dependent copula (what the correspondence group chain2d_trunc / chain3d_trunc evaluates). *)
From Coq Require Import ZArith QArith Qabs List Bool Lia Lqa.
From RV Require Import Base.QB Base.ExtNum Model.Grid Gen.GenC01Trunc Model.Chain Model.Chain3d Model.ChainNdClamp Model.Copula Gen.GenC12Mass
  Model.MassNd Proofs.C13_Grid Proofs.C01_Chain Proofs.C01_Chain2d Proofs.C01_Chain3d Proofs.C01_NdClamp
  Proofs.C19_Theta2d Proofs.C19_StepTails Proofs.C19_Theta3d Proofs.C19_StepTails3.
Import ListNotations.
Open Scope Q_scope.

(* TruncatedLevyMeasure(StepMeasure, (l, r)): the density restricted to [l, r] (a piece that falls outside becomes degenerate: mass 0) *)
Definition clip_piece (l r : Q) (p : Q * Q * Q) : Q * Q * Q := let '(lo, hi, d) := p in (Qmaxb lo l, Qminb hi r, d).
Definition clip_margin (l r : Q) (ps : list (Q * Q * Q)) : list (Q * Q * Q) := map (clip_piece l r) ps.
(* model_tilde: margin k truncated to grid.truncations[k] = (axes[k][0], axes[k][-1]) *)
Definition tilde2 (m0 m1 : list (Q * Q * Q)) (xs ys : list Q) : list (list (Q * Q * Q)) :=
  [clip_margin (headq xs) (lastq xs) m0; clip_margin (headq ys) (lastq ys) m1].
Definition tilde3 (m0 m1 m2 : list (Q * Q * Q)) (xs ys zs : list Q) : list (list (Q * Q * Q)) :=
  [clip_margin (headq xs) (lastq xs) m0; clip_margin (headq ys) (lastq ys) m1; clip_margin (headq zs) (lastq zs) m2].

(* what the chain integrates (nu~) and the model's own Levy measure (nu), d = 2 and 3 *)
Definition chain_mass2 ck m0 m1 xs ys : Q * Q -> Q * Q -> Q := let T := tilde2 m0 m1 xs ys in box_mass2 (step_U1 T) (step_UI ck T).
Definition nu_mass2 ck m0 m1 : Q * Q -> Q * Q -> Q := box_mass2 (step_U1 [m0; m1]) (step_UI ck [m0; m1]).
Definition chain_mass3 ck m0 m1 m2 xs ys zs : Q3 -> Q3 -> Q := let T := tilde3 m0 m1 m2 xs ys zs in box_mass3 (step_U1 T) (step_UI ck T).
Definition nu_mass3 ck m0 m1 m2 : Q3 -> Q3 -> Q := box_mass3 (step_U1 [m0; m1; m2]) (step_UI ck [m0; m1; m2]).

(* ---- (1) no additivity hypothesis left: ANY tail integrals (truncated or not) that are functions of the rational number *)
Theorem copula_chain_sum_2d (U1 : nat -> ext Q -> Q) (UI : idx -> list (ext Q) -> Q) : tails_proper2 U1 UI ->
  forall xs ys o hx hy, admissible xs o hx -> admissible ys o hy -> length ys = length xs ->
  exists t, q_matrix2_c amid (box_mass2 U1 UI) xs ys o = Some t /\ qsum2 t == intensity2 amid (box_mass2 U1 UI) xs ys o.
Proof.
  intros TP xs ys o hx hy Ax Ay E. exists (q_matrix2 amid (box_mass2 U1 UI) xs ys o). split; [apply q_matrix2_c_eq; exact E|].
  apply (sum_rates_is_intensity_2d amid amid_between (fun x _ => amid_refl x) amid_proper (box_mass2 U1 UI)
           (box_mass2_add1 U1 UI) (box_mass2_add2 U1 UI) (box_mass2_proper U1 UI TP)) with (hx := hx) (hy := hy); assumption.
Qed.

Theorem copula_chain_sum_3d (U1 : nat -> ext Q -> Q) (UI : idx -> list (ext Q) -> Q) : tails_proper3 U1 UI ->
  forall xs ys zs o hx hy hz, admissible xs o hx -> admissible ys o hy -> admissible zs o hz -> length ys = length xs -> length zs = length xs ->
  exists t, q_tensor3_c amid (box_mass3 U1 UI) xs ys zs o = Some t /\ qsum3 t == intensity3 amid (box_mass3 U1 UI) xs ys zs o.
Proof.
  intros TP xs ys zs o hx hy hz Ax Ay Az E1 E2. exists (q_tensor3 amid (box_mass3 U1 UI) xs ys zs o). split; [apply q_tensor3_c_eq; assumption|].
  apply (sum_rates_is_intensity_3d amid amid_between (fun x _ => amid_refl x) amid_proper (box_mass3 U1 UI)
           (box_mass3_add1 U1 UI) (box_mass3_add2 U1 UI) (box_mass3_add3 U1 UI) (box_mass3_proper U1 UI TP))
    with (hx := hx) (hy := hy) (hz := hz); assumption.
Qed.

(* the instances the correspondence runs: step margins of ANY support (inside, equal to or EXCEEDING the grid), both library copulas *)
Theorem step_copula_chain_sum_2d ck m0 m1 xs ys o hx hy : admissible xs o hx -> admissible ys o hy -> length ys = length xs ->
  exists t, q_matrix2_c amid (chain_mass2 ck m0 m1 xs ys) xs ys o = Some t /\ qsum2 t == intensity2 amid (chain_mass2 ck m0 m1 xs ys) xs ys o.
Proof. intros Ax Ay E. unfold chain_mass2, tilde2. apply copula_chain_sum_2d with (hx := hx) (hy := hy); try assumption. apply step_tails_proper2. Qed.
Theorem step_copula_chain_sum_3d ck m0 m1 m2 xs ys zs o hx hy hz : admissible xs o hx -> admissible ys o hy -> admissible zs o hz ->
  length ys = length xs -> length zs = length xs ->
  exists t, q_tensor3_c amid (chain_mass3 ck m0 m1 m2 xs ys zs) xs ys zs o = Some t
            /\ qsum3 t == intensity3 amid (chain_mass3 ck m0 m1 m2 xs ys zs) xs ys zs o.
Proof.
  intros Ax Ay Az E1 E2. unfold chain_mass3, tilde3. apply copula_chain_sum_3d with (hx := hx) (hy := hy) (hz := hz); try assumption.
  apply step_tails_proper3.
Qed.

(* ---- (2) rate = nu(cell) REFUTED.  Margins: density 1 on [1, 4] and density 3 on [1, 2]; completely dependent copula
   (DependentComponentsCopula); grid [-2,-1,0,1,2]^2, so margin 0 has mass 2 beyond its axis.  nu lives on the curve U_0(x) = U_1(y) with
   U_0(x) = 4 - x, U_1(y) = 3 (2 - y); the chain's nu~ on U_0(x) - U_0(2) = U_1(y), i.e. 2 - x = 3 (2 - y).
   State (3,4) = (1,2), cell [1/2,3/2] x [3/2,2], inside the grid box: nu(cell) = 0, the chain's rate is 1/2; state (3,3): nu(cell) = 1/2, rate 0.
   The reported intensity is 3 where nu of the box minus the central cell is 1. *)
Definition tr_m0 : list (Q * Q * Q) := [(1, 4, 1)].
Definition tr_m1 : list (Q * Q * Q) := [(1, 2, 3)].
Definition tr_xs : list Q := [-2; -1; 0; 1; 2].
Lemma truncation_witness :
  admissibleb tr_xs 2 1 = true
  /\ Qeq_bool (q_entry2 amid (chain_mass2 Dep tr_m0 tr_m1 tr_xs tr_xs) tr_xs tr_xs 2 3 4) (1 # 2) = true
  /\ Qeq_bool (q_entry2 amid (nu_mass2 Dep tr_m0 tr_m1) tr_xs tr_xs 2 3 4) 0 = true
  /\ Qeq_bool (cell_lo amid tr_xs 3) (1 # 2) = true /\ Qeq_bool (cell_hi amid tr_xs 3) (3 # 2) = true
  /\ Qeq_bool (cell_lo amid tr_xs 4) (3 # 2) = true /\ Qeq_bool (cell_hi amid tr_xs 4) 2 = true
  /\ Qeq_bool (intensity2 amid (chain_mass2 Dep tr_m0 tr_m1 tr_xs tr_xs) tr_xs tr_xs 2) 3 = true
  /\ Qeq_bool (intensity2 amid (nu_mass2 Dep tr_m0 tr_m1) tr_xs tr_xs 2) 1 = true
  /\ Qeq_bool (q_entry2 amid (chain_mass2 Dep tr_m0 tr_m1 tr_xs tr_xs) tr_xs tr_xs 2 3 3) 0 = true
  /\ Qeq_bool (q_entry2 amid (nu_mass2 Dep tr_m0 tr_m1) tr_xs tr_xs 2 3 3) (1 # 2) = true.
Proof. vm_compute. repeat split. Qed.

Theorem copula_rate_is_restricted_nu_refuted :
  exists ck m0 m1 xs o h i j, admissible xs o h /\ (i < length xs)%nat /\ (j < length xs)%nat /\ (i, j) <> (o, o)
    /\ headq xs <= cell_lo amid xs i /\ cell_hi amid xs i <= lastq xs /\ headq xs <= cell_lo amid xs j /\ cell_hi amid xs j <= lastq xs
    /\ ~ q_entry2 amid (chain_mass2 ck m0 m1 xs xs) xs xs o i j == q_entry2 amid (nu_mass2 ck m0 m1) xs xs o i j
    /\ ~ intensity2 amid (chain_mass2 ck m0 m1 xs xs) xs xs o == intensity2 amid (nu_mass2 ck m0 m1) xs xs o.
Proof.
  exists Dep, tr_m0, tr_m1, tr_xs, 2%nat, 1, 3%nat, 4%nat.
  destruct truncation_witness as (A & R1 & R2 & C1 & C2 & C3 & C4 & I1 & I2 & _).
  apply admissibleb_sound in A. apply Qeq_bool_eq in R1, R2, C1, C2, C3, C4, I1, I2.
  split; [exact A|]. split; [cbn; lia|]. split; [cbn; lia|]. split; [intro E; inversion E|].
  rewrite C1, C2, C3, C4. cbn [headq lastq tr_xs hd last].
  repeat split; try lra; try (rewrite R1, R2; lra); try (rewrite I1, I2; lra).
Qed.

(* C01 x C02 -- the ALIAS / TABLE rate path of samplingfactory.create_sampling_method for a 1-d chain:
     q_vector = create_q_vector(levy_measure, grid); jump_vector = create_vec_jump_matrix(q_vector, origin, intensity_of_jumps);
     AliasMethod(jump_vector, states) / TableMethod(jump_vector, states)
   C02's sampler theorems (alias_law, table_law: "state k owns exactly p_k") ASSUME a probability vector (entries >= 0, sum 1).  Here that
   assumption is DISCHARGED for the vector the factory builds from an admissible chain (Model/Factory.v vec_jump of Model/Chain.v q_vector
   and intensity1), and the two are composed: the alias / table sampler of the chain gives state k the probability
   (Levy mass of the cell of k) / (intensity of jumps). *)
From Coq Require Import List Arith ZArith QArith Bool Lia Lqa.
From RV Require Import Base.QB Model.Grid Gen.GenC01Trunc Model.Chain Model.StepLaw Model.Bst Model.Alias Model.Table Model.Factory
  Proofs.C13_Grid Proofs.C01_Chain Proofs.C01_GenTie Proofs.C02_StepLaw Proofs.C02_Bst Proofs.C02_Alias Proofs.C02_Table Proofs.C02_Factory.
Import ListNotations.
Open Scope Q_scope.

Lemma qsum_same l : StepLaw.qsum l = Chain.qsum l.
Proof. unfold Chain.qsum. induction l as [|x r IH]; simpl; [reflexivity|]. rewrite IH. reflexivity. Qed.

Lemma qsum_upd0 l : forall o, (o < length l)%nat -> Chain.qsum (upd l o 0) == Chain.qsum l - nth o l 0.
Proof.
  unfold Chain.qsum. induction l as [|x r IH]; intros o Ho; [simpl in Ho; lia|].
  destruct o as [|o]; simpl; [lra|]. rewrite IH by (simpl in Ho; lia). lra.
Qed.
Lemma qsum_map_div q lam : ~ lam == 0 -> Chain.qsum (map (fun x => x / lam) q) == Chain.qsum q / lam.
Proof.
  intros Hl. unfold Chain.qsum. induction q as [|x r IH]; simpl; [field; exact Hl|]. rewrite IH. field. exact Hl.
Qed.

Section FactoryVector.
  Variable mid : Q -> Q -> Q.
  Hypothesis mid_between : forall x y, x < y -> x < mid x y /\ mid x y < y.
  Hypothesis mid_refl : forall x, ~ x == 0 -> mid x x == x.
  Hypothesis mid_proper : forall x x' y y', x == x' -> y == y' -> mid x y == mid x' y'.
  Variable mass : Q -> Q -> Q.
  Hypothesis mass_add : forall a b c, a <= b -> b <= c -> (c < 0 \/ 0 < a) -> mass a c == mass a b + mass b c.
  Hypothesis mass_pos : forall a b, a <= b -> (b < 0 \/ 0 < a) -> 0 <= mass a b.
  Hypothesis mass_proper : forall a a' b b', a == a' -> b == b' -> mass a b == mass a' b'.

  (* the vector handed to the table-driven samplers is a probability vector whose k-th entry is rate_k / intensity *)
  Theorem factory_vector_is_distribution xs o h : admissible xs o h ->
    let lam := intensity1 mid mass xs o in
    0 < lam ->
    let p := vec_jump (q_vector mid mass xs o) lam o in
    length p = length xs /\ (1 <= length p)%nat /\ nonneg p /\ StepLaw.qsum p == 1 /\ nth o p 0 = 0
    /\ (forall k, (k < length xs)%nat -> k <> o -> nth k p 0 == mass (cell_lo mid xs k) (cell_hi mid xs k) / lam).
  Proof.
    intros A lam Hl p.
    assert (S : Chain.qsum (q_vector mid mass xs o) == lam) by (apply (sum_rates_is_intensity_1d mid) with (h := h); assumption).
    destruct A as (Hi & Ho1 & Ho2 & Hrest).
    assert (A : admissible xs o h) by (repeat split; tauto).
    assert (Lq : length (q_vector mid mass xs o) = length xs) by (unfold q_vector; rewrite map_length, seq_length; reflexivity).
    assert (Lp : length p = length xs) by (unfold p; rewrite vec_jump_length; exact Lq).
    assert (Hne : ~ lam == 0) by (intros E; rewrite E in Hl; lra).
    assert (NK : forall k, (k < length xs)%nat -> k <> o -> nth k p 0 == q_entry mid mass xs o k / lam).
    { intros k Hk Hko. unfold p. rewrite vec_jump_other by (try rewrite Lq; assumption).
      fold (nthq (q_vector mid mass xs o) k). rewrite nth_q_vector by exact Hk. reflexivity. }
    split; [exact Lp|]. split; [lia|]. split; [|split; [|split]].
    - apply Forall_forall. intros x Hx. apply (In_nth _ _ 0) in Hx. destruct Hx as (k & Hk & <-). rewrite Lp in Hk.
      destruct (Nat.eq_dec k o) as [->|Hko].
      + unfold p. rewrite vec_jump_origin by (rewrite Lq; lia). lra.
      + rewrite NK by assumption.
        assert (P : 0 <= q_entry mid mass xs o k) by (apply (rates_nonneg mid) with (h := h); assumption).
        apply Qle_shift_div_l; [exact Hl|]. lra.
    - rewrite qsum_same. unfold p, vec_jump. rewrite qsum_upd0 by (rewrite map_length, Lq; lia).
      rewrite qsum_map_div by exact Hne. rewrite S.
      rewrite (nth_indep _ 0 ((fun x => x / lam) 0)) by (rewrite map_length, Lq; lia).
      rewrite (map_nth (fun x => x / lam)). fold (nthq (q_vector mid mass xs o) o). rewrite nth_q_vector by lia.
      unfold q_entry. rewrite Nat.eqb_refl. field. exact Hne.
    - unfold p. apply vec_jump_origin. rewrite Lq. lia.
    - intros k Hk Hko. rewrite NK by assumption. unfold q_entry. destruct (Nat.eqb_spec k o); [contradiction|reflexivity].
  Qed.

  (* composed with C02: the ALIAS sampler (Walker/Vose tables of create_alias) and the TABLE sampler (256-slot table + embedded alias of
     create_table) built from that vector give state k the probability mass(cell of k) / intensity, the origin probability 0 *)
  Theorem alias_table_chain_law xs o h : admissible xs o h ->
    let lam := intensity1 mid mass xs o in
    0 < lam ->
    let p := vec_jump (q_vector mid mass xs o) lam o in
    let K := length p in let J := fst (create_alias p) in let q := snd (create_alias p) in
    (forall k, (k < length xs)%nat -> k <> o ->
        len_of (Z.of_nat k) (alias_segs K q J) == mass (cell_lo mid xs k) (cell_hi mid xs k) / lam
        /\ table_mass (create_table p) k == mass (cell_lo mid xs k) (cell_hi mid xs k) / lam)
    /\ len_of (Z.of_nat o) (alias_segs K q J) == 0 /\ table_mass (create_table p) o == 0
    /\ create_table p <> TableError
    /\ (forall u, 0 <= u -> u < 1 -> (alias_draw K q J u < length xs)%nat /\ alias_draw K q J u <> o).
  Proof.
    intros A lam Hl p K J q.
    destruct (factory_vector_is_distribution xs o h A Hl) as (Lp & L1 & Nn & S1 & P0 & PK). fold lam p in Lp, L1, Nn, S1, P0, PK.
    destruct (alias_law p L1 Nn S1) as (AL1 & _ & _ & AL4 & AL5). fold K J q in AL1, AL4, AL5.
    destruct (table_law p L1 Nn S1) as (TL1 & TL2 & _).
    pose proof A as (_ & Ho1 & Ho2 & _).
    split; [|split; [|split; [|split]]].
    - intros k Hk Hko. split; [rewrite AL1 by (unfold K; lia)|rewrite TL2 by lia]; apply PK; assumption.
    - rewrite AL1 by (unfold K; lia). rewrite P0. reflexivity.
    - rewrite TL2 by lia. rewrite P0. reflexivity.
    - exact TL1.
    - intros u U0 U1. split; [rewrite <- Lp; apply AL4; assumption|].
      apply AL5; try assumption; [unfold K; lia|rewrite P0; reflexivity].
  Qed.
End FactoryVector.

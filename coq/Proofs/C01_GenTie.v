(* C01 -- the rate vector REGENERATED FROM THE SOURCE (Gen/GenTieChain.v: create_q_vector of samplingfactory.py with its numpy loop,
   CTMCGrid.left_point / right_point / middle of spatial.py; equal to the hand models by Proofs/Tie_Chain.v) satisfies the chain
   theorems of Proofs/C01_Chain.v: the statements are about the generated definitions, the hand model is only the proof vehicle. *)
From Coq Require Import ZArith QArith List Lia.
From RV Require Import Base.QB Model.Grid Gen.GenC01Trunc Model.Chain Proofs.C13_Grid Proofs.C01_Chain Proofs.C01_Chain2d Proofs.C01_Chain3d
  Gen.GenTieChain Proofs.Tie_Chain Gen.GenTieChain2d Proofs.Tie_Chain2d.
Import ListNotations.
Open Scope Q_scope.

Lemma nth_q_vector mid m xs o k : (k < length xs)%nat -> nthq (q_vector mid m xs o) k = q_entry mid m xs o k.
Proof.
  intros Hk. unfold nthq, q_vector.
  rewrite (nth_indep _ 0 (q_entry mid m xs o 0%nat)) by (rewrite map_length, seq_length; exact Hk).
  rewrite map_nth. rewrite seq_nth by exact Hk. reflexivity.
Qed.

Theorem gen_chain_rates : forall (mass : Q -> Q -> Q),
  (forall a b c, a <= b -> b <= c -> (c < 0 \/ 0 < a) -> mass a c == mass a b + mass b c) ->
  (forall a b, a <= b -> (b < 0 \/ 0 < a) -> 0 <= mass a b) ->
  (forall a a' b b', a == a' -> b == b' -> mass a b == mass a' b') ->
  forall xs (o : nat) h, admissible xs o h ->
  let m := tmass mass (headq xs) (lastq xs) in
  let q := GenTieChain.create_q_vector m GenTieChain.middle xs (Z.of_nat o) in
  length q = length xs
  /\ qsum q == GenTieChain.compute_intensity_of_jumps_1d m GenTieChain.middle xs (Z.of_nat o)
  /\ (forall k, (k < length xs)%nat -> 0 <= nthq q k)
  /\ (forall k, (k < length xs)%nat -> k <> o -> nthq q k == mass (cell_lo amid xs k) (cell_hi amid xs k)).
Proof.
  intros mass MA MP MR xs o h A m q.
  assert (E : q = q_vector amid m xs o).
  { unfold q. rewrite gen_create_q_vector_eq_model. reflexivity. }
  destruct (chain_rates amid amid_between (fun x _ => amid_refl x) amid_proper mass MA MP MR xs o h A) as (S & P & C).
  fold m in S, P, C. rewrite E.
  split; [unfold q_vector; rewrite map_length, seq_length; reflexivity|].
  split; [rewrite gen_compute_intensity_of_jumps_1d_eq_model; exact S|]. split.
  - intros k Hk. rewrite nth_q_vector by exact Hk. apply P; exact Hk.
  - intros k Hk Hne. rewrite nth_q_vector by exact Hk. apply C; assumption.
Qed.

(* the 2-d total rate regenerated from the source (Gen/GenTieChain2d.v) is what the rates of the product grid sum to *)
Theorem gen_sum_rates_is_intensity_2d : forall (mass2 : Q * Q -> Q * Q -> Q),
  (forall a1 b1 c1 y1 y2, a1 <= b1 -> b1 <= c1 -> avoids (a1, y1) (c1, y2) ->
     mass2 (a1, y1) (c1, y2) == mass2 (a1, y1) (b1, y2) + mass2 (b1, y1) (c1, y2)) ->
  (forall x1 x2 a2 b2 c2, a2 <= b2 -> b2 <= c2 -> avoids (x1, a2) (x2, c2) ->
     mass2 (x1, a2) (x2, c2) == mass2 (x1, a2) (x2, b2) + mass2 (x1, b2) (x2, c2)) ->
  (forall a1 a2 b1 b2 a1' a2' b1' b2', a1 == a1' -> a2 == a2' -> b1 == b1' -> b2 == b2' ->
     mass2 (a1, a2) (b1, b2) == mass2 (a1', a2') (b1', b2')) ->
  forall xs ys (o : nat) hx hy, admissible xs o hx -> admissible ys o hy ->
  qsum2 (q_matrix2 amid mass2 xs ys o) == GenTieChain2d.compute_intensity_of_jumps_2d mass2 GenTieChain.middle xs ys (Z.of_nat o).
Proof.
  intros mass2 A1 A2 MP xs ys o hx hy Ax Ay. rewrite gen_compute_intensity_of_jumps_2d_eq_model.
  apply (sum_rates_is_intensity_2d amid amid_between (fun x _ => amid_refl x) amid_proper mass2) with (hx := hx) (hy := hy); assumption.
Qed.

(* wave 8 (audit5a X-d): the same for the 2-d intensity whose h_left / h_right are APPLICATIONS OF THE TRANSLATED CoordinateND variants of
   left_point / right_point / middle (GenTieChain2d.compute_intensity_of_jumps_2d_nd: what the code executes on a two-axis CTMCGrid, clamp
   len(axes[0]) on both axes), not the per-axis terms written in the spec; axes of equal lengths (what every constructor builds) make the
   clamp the second axis' own (Tie_Chain2d.clamp_agrees_same_length) *)
Theorem gen_compute_intensity_of_jumps_2d_nd_is_model (mass2 : Q * Q -> Q * Q -> Q) xs ys (o : nat) :
  length ys = length xs ->
  GenTieChain2d.compute_intensity_of_jumps_2d_nd mass2 xs ys (Z.of_nat o) == Chain.intensity2 Grid.amid mass2 xs ys o.
Proof.
  intros E. apply gen_compute_intensity_of_jumps_2d_nd_eq_model. apply clamp_agrees_same_length. symmetry; exact E.
Qed.

Theorem gen_sum_rates_is_intensity_2d_nd : forall (mass2 : Q * Q -> Q * Q -> Q),
  (forall a1 b1 c1 y1 y2, a1 <= b1 -> b1 <= c1 -> avoids (a1, y1) (c1, y2) ->
     mass2 (a1, y1) (c1, y2) == mass2 (a1, y1) (b1, y2) + mass2 (b1, y1) (c1, y2)) ->
  (forall x1 x2 a2 b2 c2, a2 <= b2 -> b2 <= c2 -> avoids (x1, a2) (x2, c2) ->
     mass2 (x1, a2) (x2, c2) == mass2 (x1, a2) (x2, b2) + mass2 (x1, b2) (x2, c2)) ->
  (forall a1 a2 b1 b2 a1' a2' b1' b2', a1 == a1' -> a2 == a2' -> b1 == b1' -> b2 == b2' ->
     mass2 (a1, a2) (b1, b2) == mass2 (a1', a2') (b1', b2')) ->
  forall xs ys (o : nat) hx hy, admissible xs o hx -> admissible ys o hy -> length ys = length xs ->
  qsum2 (q_matrix2 amid mass2 xs ys o) == GenTieChain2d.compute_intensity_of_jumps_2d_nd mass2 xs ys (Z.of_nat o).
Proof.
  intros mass2 A1 A2 MP xs ys o hx hy Ax Ay E. rewrite (gen_compute_intensity_of_jumps_2d_nd_is_model mass2 xs ys o E).
  apply (sum_rates_is_intensity_2d amid amid_between (fun x _ => amid_refl x) amid_proper mass2) with (hx := hx) (hy := hy); assumption.
Qed.

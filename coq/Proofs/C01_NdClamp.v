(* C01 (wave 7) -- the code's n-d clamp (Model/ChainNdClamp.v: every axis clamped with len(axes[0])) against the own-length clamp of
   Model/Grid.v: equal on axes of equal lengths; the 2-d / 3-d chain theorems restated about the code's rate matrices; witnesses that
   the equal-lengths hypothesis cannot be dropped (sum of the rates <> reported intensity; IndexError). *)
From Coq Require Import ZArith QArith Qabs List Bool Lia Lqa.
From RV Require Import Base.QB Model.Grid Gen.GenC01Trunc Model.Chain Model.Chain3d Model.ChainNdClamp Proofs.C13_Grid Proofs.C01_Chain
  Proofs.C01_Chain2d Proofs.C01_Chain3d.
Import ListNotations.
Open Scope Q_scope.

Lemma opt_all_map_some {A B : Type} (f : A -> option B) (g : A -> B) l :
  (forall x, In x l -> f x = Some (g x)) -> opt_all (map f l) = Some (map g l).
Proof.
  induction l as [|x r IH]; intros H; [reflexivity|]. cbn [map opt_all].
  rewrite (H x (or_introl eq_refl)), IH by (intros y Hy; apply H; right; exact Hy). reflexivity.
Qed.

Lemma right_point_c_eq n0 xs k : length xs = n0 -> (k < length xs)%nat -> right_point_c n0 xs k = Some (right_point xs k).
Proof.
  intros <- Hk. unfold right_point_c, right_point, nthq. apply nth_error_nth'. lia.
Qed.

(* an axis LONGER than axes[0]: beyond index n0 - 1 the code's right neighbour is stuck at xs[n0 - 1] (not the axis' own neighbour);
   an axis SHORTER than axes[0]: at its last index the code raises *)
Lemma right_point_c_stuck n0 xs k : (1 <= n0)%nat -> (n0 <= length xs)%nat -> (n0 - 1 <= k)%nat -> right_point_c n0 xs k = Some (nthq xs (n0 - 1)).
Proof.
  intros H1 H2 H3. unfold right_point_c, nthq. replace (Nat.min (n0 - 1) (k + 1)) with (n0 - 1)%nat by lia. apply nth_error_nth'. lia.
Qed.
Lemma right_point_c_raises n0 xs : (length xs < n0)%nat -> (1 <= length xs)%nat -> right_point_c n0 xs (length xs - 1) = None.
Proof.
  intros H1 H2. unfold right_point_c. apply nth_error_None. lia.
Qed.

Section ClampEq.
  Variable mid : Q -> Q -> Q.

  Lemma cell_hi_c_eq n0 xs k : length xs = n0 -> (k < length xs)%nat -> cell_hi_c mid n0 xs k = Some (cell_hi mid xs k).
  Proof. intros E Hk. unfold cell_hi_c, cell_hi. rewrite (right_point_c_eq n0 xs k E Hk). reflexivity. Qed.

  Variable mass2 : Q * Q -> Q * Q -> Q.
  Lemma q_entry2_c_eq xs ys o i j : length ys = length xs -> (i < length xs)%nat -> (j < length ys)%nat ->
    q_entry2_c mid mass2 xs ys o i j = Some (q_entry2 mid mass2 xs ys o i j).
  Proof.
    intros E Hi Hj. unfold q_entry2_c, q_entry2. destruct (Nat.eqb i o && Nat.eqb j o); [reflexivity|].
    rewrite (cell_hi_c_eq (length xs) xs i eq_refl Hi), (cell_hi_c_eq (length xs) ys j E Hj). reflexivity.
  Qed.
  Lemma q_matrix2_c_eq xs ys o : length ys = length xs -> q_matrix2_c mid mass2 xs ys o = Some (q_matrix2 mid mass2 xs ys o).
  Proof.
    intros E. unfold q_matrix2_c, q_matrix2. apply opt_all_map_some. intros i Hi. apply in_seq in Hi.
    apply opt_all_map_some. intros j Hj. apply in_seq in Hj. apply q_entry2_c_eq; [exact E|lia|lia].
  Qed.

  Variable mass3 : Q3 -> Q3 -> Q.
  Lemma q_entry3_c_eq xs ys zs o i j k : length ys = length xs -> length zs = length xs ->
    (i < length xs)%nat -> (j < length ys)%nat -> (k < length zs)%nat ->
    q_entry3_c mid mass3 xs ys zs o i j k = Some (q_entry3 mid mass3 xs ys zs o i j k).
  Proof.
    intros E1 E2 Hi Hj Hk. unfold q_entry3_c, q_entry3. destruct (Nat.eqb i o && Nat.eqb j o && Nat.eqb k o); [reflexivity|].
    rewrite (cell_hi_c_eq (length xs) xs i eq_refl Hi), (cell_hi_c_eq (length xs) ys j E1 Hj), (cell_hi_c_eq (length xs) zs k E2 Hk). reflexivity.
  Qed.
  Lemma q_tensor3_c_eq xs ys zs o : length ys = length xs -> length zs = length xs ->
    q_tensor3_c mid mass3 xs ys zs o = Some (q_tensor3 mid mass3 xs ys zs o).
  Proof.
    intros E1 E2. unfold q_tensor3_c, q_tensor3. apply opt_all_map_some. intros i Hi. apply in_seq in Hi.
    apply opt_all_map_some. intros j Hj. apply in_seq in Hj. apply opt_all_map_some. intros k Hk. apply in_seq in Hk.
    apply q_entry3_c_eq; [exact E1|exact E2|lia|lia|lia].
  Qed.
End ClampEq.

Lemma admissibleb_sound xs o h : admissibleb xs o h = true -> admissible xs o h.
Proof.
  unfold admissibleb, admissible. rewrite !andb_true_iff. intros ((((((A & B) & C) & D) & E) & F) & G).
  apply incrb_incr in A. apply Nat.leb_le in B. apply Nat.ltb_lt in C. apply Qltb_lt in D. apply Qeq_bool_eq in E, F, G. tauto.
Qed.

(* ---- the hypothesis cannot be dropped.  3-d density table with one piece, density 1 on [1,2] x [1/2,5/2] x [1,2] (inside the grid box
   [-2,2] x [-2,3] x [-2,2]: truncation inactive), axes of lengths (5, 7, 5) sharing the origin index 2, all admissible:
   the code's rates exist (no IndexError) but sum to LESS than the reported intensity: on the long axis the states 4, 5, 6 get the
   right neighbour ys[4] = 2, so the cell of 4 ends at 2 and the cells of 5 and 6 are empty / reversed: the mass on 2 < y <= 5/2 is lost.
   With the long axis first, (7, 5, 5) (table [1,2] x [1/2,2] x [1,2], again inside the box), states on the last index of a short axis
   raise IndexError (None). *)
Definition uneq_ps : list (Q * Q * Q * Q * Q * Q * Q) := [(1, 2, 1#2, 5#2, 1, 2, 1)].
Definition uneq_ps' : list (Q * Q * Q * Q * Q * Q * Q) := [(1, 2, 1#2, 2, 1, 2, 1)].
Definition uneq_x5 : list Q := [-2; -1; 0; 1; 2].
Definition uneq_y7 : list Q := [-2; -1; 0; 1; 2; 5#2; 3].
Definition uneq_z5 : list Q := [-2; -(1#2); 0; 1#2; 2].

Lemma uneq_575 :
  admissibleb uneq_x5 2 1 = true /\ admissibleb uneq_y7 2 1 = true /\ admissibleb uneq_z5 2 (1#2) = true
  /\ forallb (fun p => Qle_bool 0 (dens3 p)) uneq_ps = true
  /\ match q_tensor3_c amid (step_mass3 uneq_ps) uneq_x5 uneq_y7 uneq_z5 2 with
     | Some t => Qeq_bool (qsum3 t) (intensity3 amid (step_mass3 uneq_ps) uneq_x5 uneq_y7 uneq_z5 2) = false
                 /\ Qle_bool (intensity3 amid (step_mass3 uneq_ps) uneq_x5 uneq_y7 uneq_z5 2) (qsum3 t) = false
     | None => False
     end.
Proof. vm_compute. repeat split. Qed.

Lemma uneq_755 :
  q_tensor3_c amid (step_mass3 uneq_ps') uneq_y7 uneq_x5 uneq_z5 2 = None
  /\ q_entry3_c amid (step_mass3 uneq_ps') uneq_y7 uneq_x5 uneq_z5 2 0 4 0 = None
  /\ q_entry3_c amid (step_mass3 uneq_ps') uneq_y7 uneq_x5 uneq_z5 2 0 3 0 <> None
  /\ forallb (fun p => Qle_bool 0 (dens3 p)) uneq_ps' = true.
Proof. vm_compute. repeat split; discriminate. Qed.

Theorem unequal_lengths_refuted :
  (exists ps xs ys zs o hx hy hz t, Forall (fun p => 0 <= dens3 p) ps /\ admissible xs o hx /\ admissible ys o hy /\ admissible zs o hz
     /\ q_tensor3_c amid (step_mass3 ps) xs ys zs o = Some t /\ qsum3 t < intensity3 amid (step_mass3 ps) xs ys zs o)
  /\ (exists ps xs ys zs o hx hy hz, Forall (fun p => 0 <= dens3 p) ps /\ admissible xs o hx /\ admissible ys o hy /\ admissible zs o hz
     /\ q_tensor3_c amid (step_mass3 ps) xs ys zs o = None).
Proof.
  destruct uneq_575 as (A1 & A2 & A3 & D & W). destruct uneq_755 as (N & _ & _ & D').
  apply admissibleb_sound in A1, A2, A3.
  assert (DF : Forall (fun p => 0 <= dens3 p) uneq_ps).
  { apply Forall_forall. intros p Hp. rewrite forallb_forall in D. apply Qle_bool_iff. apply D. exact Hp. }
  split.
  - destruct (q_tensor3_c amid (step_mass3 uneq_ps) uneq_x5 uneq_y7 uneq_z5 2) as [t|] eqn:E; [|contradiction].
    exists uneq_ps, uneq_x5, uneq_y7, uneq_z5, 2%nat, 1, 1, (1#2), t. destruct W as (_ & W2).
    split; [exact DF|]. split; [exact A1|]. split; [exact A2|]. split; [exact A3|]. split; [exact E|].
    apply Qnot_le_lt. intro H. apply Qle_bool_iff in H. rewrite H in W2. discriminate.
  - exists uneq_ps', uneq_y7, uneq_x5, uneq_z5, 2%nat, 1, 1, (1#2).
    split; [apply Forall_forall; intros p Hp; rewrite forallb_forall in D'; apply Qle_bool_iff, D', Hp|]. split; [exact A2|]. split; [exact A1|]. split; [exact A3|exact N].
Qed.

(* C02 -- AliasMethod (Walker/Vose): loop invariant of create_alias and the law of _draw_with_u.
   With D the columns already popped as `small` and A the columns still on one of the two deques:
     (Phi)  for every column k:  q_k + sum_{y in D, J y = k} (1 - q_y) = K p_k
     (S)    sum_{x in A} q_x = |A|
     (R)    0 <= q < 1 on `smaller` and on D,  q >= 1 on `greater`.
   At exit (S) and (R) force q = 1 on every remaining column, so the two clean-up loops change nothing in exact
   arithmetic, and (Phi) is the statement that column k owns exactly p_k of [0,1). *)
From Coq Require Import List Arith ZArith QArith Qround Bool Lia Lqa Permutation.
From RV Require Import Base.QB Model.StepLaw Model.Bst Model.Alias Proofs.C02_StepLaw Proofs.C02_Bst.
Import ListNotations.
Open Scope Q_scope.

(* ---------- sums over lists of columns ---------- *)
Definition sumq (l : list nat) (q : list Q) : Q := fold_right (fun x acc => nth x q 0 + acc) 0 l.
Definition dterm (q : list Q) (j : list nat) (k y : nat) : Q := if (nth y j O =? k)%nat then 1 - nth y q 0 else 0.
Definition sumD (D : list nat) (q : list Q) (j : list nat) (k : nat) : Q :=
  fold_right (fun y acc => dterm q j k y + acc) 0 D.

Lemma sumq_cons x l q : sumq (x :: l) q = nth x q 0 + sumq l q.
Proof. reflexivity. Qed.
Lemma sumq_app a b q : sumq (a ++ b) q == sumq a q + sumq b q.
Proof. induction a as [|x a IH]; simpl; [ring | rewrite IH; ring]. Qed.
Lemma sumD_app a b q j k : sumD (a ++ b) q j k == sumD a q j k + sumD b q j k.
Proof. induction a as [|x a IH]; simpl; [ring | rewrite IH; ring]. Qed.
Lemma sumq_perm a b q : Permutation a b -> sumq a q == sumq b q.
Proof. induction 1; simpl; try ring; [rewrite IHPermutation; ring | rewrite IHPermutation1; assumption]. Qed.
Lemma sumD_perm a b q j k : Permutation a b -> sumD a q j k == sumD b q j k.
Proof. induction 1; simpl; try ring; [rewrite IHPermutation; ring | rewrite IHPermutation1; assumption]. Qed.

Lemma sumq_ext l q q' : (forall x, In x l -> nth x q' 0 = nth x q 0) -> sumq l q' = sumq l q.
Proof.
  induction l as [|x l IH]; intro H; simpl; [reflexivity|].
  rewrite H by (left; reflexivity). rewrite IH; [reflexivity | intros y Hy; apply H; right; assumption].
Qed.
Lemma sumD_ext D q q' j j' k : (forall y, In y D -> nth y q' 0 = nth y q 0 /\ nth y j' O = nth y j O) ->
  sumD D q' j' k = sumD D q j k.
Proof.
  induction D as [|y D IH]; intro H; simpl; [reflexivity|].
  unfold dterm. destruct (H y (or_introl eq_refl)) as [-> ->].
  rewrite IH; [reflexivity | intros z Hz; apply H; right; assumption].
Qed.

Lemma sumq_ge l q : (forall x, In x l -> 1 <= nth x q 0) -> inject_Z (Z.of_nat (length l)) <= sumq l q.
Proof.
  induction l as [|x l IH]; intro H; simpl length; [apply Qle_refl|].
  rewrite Nat2Z.inj_succ, <- Z.add_1_r, inject_Z_plus. simpl sumq.
  pose proof (H x (or_introl eq_refl)). pose proof (IH (fun y Hy => H y (or_intror Hy))). change (inject_Z 1) with 1. lra.
Qed.
Lemma sumq_all_one l q : (forall x, In x l -> 1 <= nth x q 0) -> sumq l q == inject_Z (Z.of_nat (length l)) ->
  forall x, In x l -> nth x q 0 == 1.
Proof.
  induction l as [|y l IH]; intros H E x Hx; [contradiction|].
  simpl length in E. rewrite Nat2Z.inj_succ, <- Z.add_1_r, inject_Z_plus in E. simpl sumq in E. change (inject_Z 1) with 1 in E.
  pose proof (H y (or_introl eq_refl)) as Hy. pose proof (sumq_ge l q (fun z Hz => H z (or_intror Hz))) as Hl.
  destruct Hx as [->|Hx]; [lra|]. apply IH; [intros z Hz; apply H; right; assumption | lra | assumption].
Qed.
Lemma sumq_lt l q : l <> [] -> (forall x, In x l -> nth x q 0 < 1) -> sumq l q < inject_Z (Z.of_nat (length l)).
Proof.
  induction l as [|y l IH]; intros Hne H; [congruence|].
  simpl length. rewrite Nat2Z.inj_succ, <- Z.add_1_r, inject_Z_plus. simpl sumq. change (inject_Z 1) with 1.
  pose proof (H y (or_introl eq_refl)) as Hy. destruct l as [|z l]; [unfold sumq; cbn [fold_right length Z.of_nat]; change (inject_Z 0) with 0; lra|].
  pose proof (IH ltac:(discriminate) (fun w Hw => H w (or_intror Hw))). lra.
Qed.

Lemma sumq_seq q : forall pre, sumq (seq (length pre) (length q)) (pre ++ q) == qsum q.
Proof.
  induction q as [|x q IH]; intros pre; simpl; [reflexivity|].
  rewrite app_nth2 by lia. rewrite Nat.sub_diag. simpl nth.
  specialize (IH (pre ++ [x])). rewrite app_length, <- app_assoc in IH. simpl in IH.
  replace (length pre + 1)%nat with (S (length pre)) in IH by lia. rewrite IH. reflexivity.
Qed.

Lemma qsum_map_mul p c : qsum (map (fun x => x * c) p) == qsum p * c.
Proof. induction p as [|x p IH]; simpl; [ring | rewrite IH; ring]. Qed.

(* ---------- the initial split ---------- *)
Lemma split_spec q : forall l sm gr,
  let r := alias_split q l sm gr in
  Permutation (fst r ++ snd r) (seq l (length q) ++ sm ++ gr)
  /\ (forall x, In x (fst r) -> In x sm \/ ((l <= x < l + length q)%nat /\ nth (x - l) q 0 < 1))
  /\ (forall x, In x (snd r) -> In x gr \/ ((l <= x < l + length q)%nat /\ 1 <= nth (x - l) q 0)).
Proof.
  induction q as [|ql q IH]; intros l sm gr; simpl.
  - split; [reflexivity|]. split; intros x Hx; left; assumption.
  - destruct (Qltb ql 1) eqn:C.
    + apply Qltb_lt in C. destruct (IH (S l) (l :: sm) gr) as (P1 & P2 & P3). split; [|split].
      * rewrite P1. simpl. rewrite <- Permutation_middle. reflexivity.
      * intros x Hx. destruct (P2 x Hx) as [[->|H]|[H1 H2]].
        -- right. split; [lia|]. rewrite Nat.sub_diag. exact C.
        -- left. assumption.
        -- right. split; [lia|]. replace (x - l)%nat with (S (x - S l)) by lia. exact H2.
      * intros x Hx. destruct (P3 x Hx) as [H|[H1 H2]]; [left; assumption|].
        right. split; [lia|]. replace (x - l)%nat with (S (x - S l)) by lia. exact H2.
    + apply Qltb_false in C. destruct (IH (S l) sm (l :: gr)) as (P1 & P2 & P3). split; [|split].
      * rewrite P1. simpl. rewrite <- !Permutation_middle. reflexivity.
      * intros x Hx. destruct (P2 x Hx) as [H|[H1 H2]]; [left; assumption|].
        right. split; [lia|]. replace (x - l)%nat with (S (x - S l)) by lia. exact H2.
      * intros x Hx. destruct (P3 x Hx) as [[->|H]|[H1 H2]].
        -- right. split; [lia|]. rewrite Nat.sub_diag. exact C.
        -- left. assumption.
        -- right. split; [lia|]. replace (x - l)%nat with (S (x - S l)) by lia. exact H2.
Qed.

Lemma nth_map_mul p c k : (k < length p)%nat -> nth k (map (fun x => x * c) p) 0 = nth k p 0 * c.
Proof.
  intro H. rewrite (nth_indep _ 0 ((fun x => x * c) 0)) by (rewrite map_length; assumption).
  apply (map_nth (fun x => x * c)).
Qed.

Section AliasInv.
  Variable p : list Q.
  Let K : nat := length p.
  Let Kq : Q := inject_Z (Z.of_nat K).
  Hypothesis p_nonneg : nonneg p.
  Hypothesis p_sum : qsum p == 1.
  Hypothesis K_pos : (1 <= K)%nat.

  Lemma Kq_pos : 0 < Kq.
  Proof. unfold Kq. change 0 with (inject_Z 0). rewrite <- Zlt_Qlt. lia. Qed.

  Definition Inv (D : list nat) (s : astate) : Prop :=
    Permutation (D ++ a_small s ++ a_great s) (seq 0 K)
    /\ length (a_q s) = K /\ length (a_j s) = K
    /\ (forall k, (k < K)%nat -> nth k (a_q s) 0 + sumD D (a_q s) (a_j s) k == Kq * nth k p 0)
    /\ sumq (a_small s ++ a_great s) (a_q s) == inject_Z (Z.of_nat (length (a_small s ++ a_great s)))
    /\ (forall x, In x (a_small s) -> 0 <= nth x (a_q s) 0 /\ nth x (a_q s) 0 < 1)
    /\ (forall x, In x (a_great s) -> 1 <= nth x (a_q s) 0)
    /\ (forall x, In x D -> 0 <= nth x (a_q s) 0 /\ nth x (a_q s) 0 < 1).

  Lemma init_inv : Inv [] (alias_init p).
  Proof.
    unfold alias_init. fold K. fold Kq. set (q := map (fun x => x * Kq) p).
    assert (Lq : length q = K) by (unfold q; rewrite map_length; reflexivity).
    destruct (split_spec q 0 [] []) as (P1 & P2 & P3). rewrite Lq, !app_nil_r in P1.
    unfold Inv. cbn [a_q a_j a_small a_great app]. split; [exact P1|]. split; [exact Lq|]. split; [apply repeat_length|].
    split; [|split; [|split; [|split]]].
    - intros k Hk. simpl. unfold q. rewrite nth_map_mul by (fold K; assumption). ring.
    - rewrite (sumq_perm _ _ q P1). rewrite (Permutation_length P1), seq_length.
      pose proof (sumq_seq q []) as E. simpl in E. rewrite Lq in E. rewrite E. unfold q.
      rewrite qsum_map_mul, p_sum. fold Kq. ring.
    - intros x Hx. destruct (P2 x Hx) as [[]|[H1 H2]]. rewrite Nat.sub_0_r in H2. split; [|exact H2].
      unfold q. rewrite nth_map_mul by (rewrite Lq in H1; fold K; lia).
      pose proof Kq_pos. pose proof (nonneg_nth p x p_nonneg). apply Qmult_le_0_compat; lra.
    - intros x Hx. destruct (P3 x Hx) as [[]|[H1 H2]]. rewrite Nat.sub_0_r in H2. exact H2.
    - intros x [].
  Qed.

  Lemma perm_facts D sm gr : Permutation (D ++ sm ++ gr) (seq 0 K) ->
    NoDup (D ++ sm ++ gr) /\ (forall x, In x (D ++ sm ++ gr) -> (x < K)%nat).
  Proof.
    intro P. split.
    - eapply Permutation_NoDup; [symmetry; exact P | apply seq_NoDup].
    - intros x Hx. apply (Permutation_in _ P) in Hx. apply in_seq in Hx. lia.
  Qed.

  Lemma step_inv D s s' : Inv D s -> alias_step s = Some s' ->
    exists D', Inv D' s' /\ (length (a_small s' ++ a_great s') < length (a_small s ++ a_great s))%nat.
  Proof.
    intros (P & Lq & Lj & Phi & Sm & Rs & Rg & Rd) E. unfold alias_step in E.
    destruct (a_great s) as [|g gr] eqn:Eg; [discriminate|]. destruct (a_small s) as [|sm sr] eqn:Es; [discriminate|].
    destruct (perm_facts _ _ _ P) as (ND & Bd).
    assert (Hs : (sm < K)%nat) by (apply Bd; apply in_or_app; right; left; reflexivity).
    assert (Hg : (g < K)%nat) by (apply Bd; apply in_or_app; right; apply in_or_app; right; left; reflexivity).
    (* distinctness facts from NoDup (D ++ sm :: sr ++ g :: gr) *)
    assert (NDs : ~ In sm D /\ ~ In sm sr /\ sm <> g /\ ~ In sm gr).
    { apply NoDup_remove_2 in ND. repeat split; intro Hc; apply ND; rewrite ?in_app_iff; simpl; rewrite ?in_app_iff; simpl; auto.
      all: try (subst; auto). }
    assert (NDg : ~ In g D /\ ~ In g sr /\ ~ In g gr).
    { replace (D ++ (sm :: sr) ++ g :: gr) with ((D ++ sm :: sr) ++ g :: gr) in ND by (rewrite <- app_assoc; reflexivity).
      apply NoDup_remove_2 in ND. repeat split; intro Hc; apply ND; rewrite ?in_app_iff; simpl; rewrite ?in_app_iff; simpl; auto. }
    destruct NDs as (Ns1 & Ns2 & Ns3 & Ns4). destruct NDg as (Ng1 & Ng2 & Ng3).
    set (qg := nth g (a_q s) 0 + nth sm (a_q s) 0 - 1) in *.
    set (q' := upd (a_q s) g qg) in *. set (j' := upd (a_j s) sm g) in *.
    assert (Q'g : nth g q' 0 = qg) by (unfold q'; apply nth_upd_eq; lia).
    assert (Q'o : forall x, x <> g -> nth x q' 0 = nth x (a_q s) 0) by (intros x Hx; unfold q'; apply nth_upd_neq; congruence).
    assert (J's : nth sm j' O = g) by (unfold j'; apply nth_upd_eq; lia).
    assert (J'o : forall x, x <> sm -> nth x j' O = nth x (a_j s) O) by (intros x Hx; unfold j'; apply nth_upd_neq; congruence).
    assert (SD : forall k, sumD D q' j' k = sumD D (a_q s) (a_j s) k).
    { intro k. apply sumD_ext. intros y Hy. split; [apply Q'o | apply J'o]; intro He; rewrite He in Hy; contradiction. }
    assert (Rsm : 0 <= nth sm (a_q s) 0 /\ nth sm (a_q s) 0 < 1) by (apply Rs; left; reflexivity).
    assert (Rgg : 1 <= nth g (a_q s) 0) by (apply Rg; left; reflexivity).
    assert (Phi' : forall k, (k < K)%nat -> nth k q' 0 + sumD (sm :: D) q' j' k == Kq * nth k p 0).
    { intros k Hk. simpl. rewrite SD. unfold dterm. rewrite J's, (Q'o sm) by congruence.
      destruct (Nat.eqb_spec g k) as [->|Ne].
      - rewrite Q'g. unfold qg. rewrite <- (Phi k Hk). ring.
      - rewrite (Q'o k) by congruence. rewrite <- (Phi k Hk). ring. }
    assert (Sq_sr : sumq sr q' = sumq sr (a_q s)) by (apply sumq_ext; intros x Hx; apply Q'o; intro He; rewrite He in Hx; contradiction).
    assert (Sq_gr : sumq gr q' = sumq gr (a_q s)) by (apply sumq_ext; intros x Hx; apply Q'o; intro He; rewrite He in Hx; contradiction).
    assert (Sm0 : nth sm (a_q s) 0 + sumq sr (a_q s) + (nth g (a_q s) 0 + sumq gr (a_q s))
                  == inject_Z (Z.of_nat (S (length sr + S (length gr))))).
    { rewrite sumq_app in Sm. simpl in Sm. rewrite app_length in Sm. simpl length in Sm. rewrite <- Sm. ring. }
    rewrite Nat2Z.inj_succ, <- Z.add_1_r, inject_Z_plus in Sm0. change (inject_Z 1) with 1 in Sm0.
    assert (Rd' : forall x, In x (sm :: D) -> 0 <= nth x q' 0 /\ nth x q' 0 < 1).
    { intros x [<-|Hx]; [rewrite (Q'o sm) by congruence; exact Rsm|].
      rewrite Q'o by (intro He; rewrite He in Hx; contradiction). apply Rd. assumption. }
    destruct (Qltb qg 1) eqn:C; inversion E; subst s'; clear E; cbn [a_q a_j a_small a_great];
      exists (sm :: D); (split; [|rewrite !app_length; simpl; lia]); unfold Inv; cbn [a_q a_j a_small a_great].
    - apply Qltb_lt in C. unfold qg in C. destruct Rsm as [Rsm0 Rsm1]. split; [|split; [|split; [|split; [|split; [|split; [|split]]]]]].
      + eapply Permutation_trans; [|exact P]. cbn [app].
        eapply Permutation_trans; [|apply Permutation_middle]. apply perm_skip.
        apply Permutation_app_head. apply (Permutation_middle sr gr g).
      + unfold q'. rewrite upd_length. exact Lq.
      + unfold j'. rewrite upd_length. exact Lj.
      + exact Phi'.
      + rewrite sumq_app, sumq_cons, Q'g, Sq_sr, Sq_gr, app_length. cbn [length].
        replace (Z.of_nat (S (length sr) + length gr)) with (Z.of_nat (length sr + S (length gr))) by lia.
        unfold qg. lra.
      + intros x [<-|Hx]; [rewrite Q'g; unfold qg; split; lra|].
        rewrite Q'o by (intro He; rewrite He in Hx; contradiction). apply Rs. right. assumption.
      + intros x Hx. rewrite Q'o by (intro He; rewrite He in Hx; contradiction). apply Rg. right. assumption.
      + exact Rd'.
    - apply Qltb_false in C. unfold qg in C. destruct Rsm as [Rsm0 Rsm1]. split; [|split; [|split; [|split; [|split; [|split; [|split]]]]]].
      + eapply Permutation_trans; [|exact P]. cbn [app]. apply Permutation_middle.
      + unfold q'. rewrite upd_length. exact Lq.
      + unfold j'. rewrite upd_length. exact Lj.
      + exact Phi'.
      + rewrite sumq_app, sumq_cons, Q'g, Sq_sr, Sq_gr, app_length. cbn [length].
        unfold qg. lra.
      + intros x Hx. rewrite Q'o by (intro He; rewrite He in Hx; contradiction). apply Rs. right. assumption.
      + intros x [<-|Hx]; [rewrite Q'g; unfold qg; exact C|].
        rewrite Q'o by (intro He; rewrite He in Hx; contradiction). apply Rg. right. assumption.
      + exact Rd'.
  Qed.

  Definition InvJ (D : list nat) (s : astate) : Prop := Inv D s /\ forall y, (nth y (a_j s) O < K)%nat.

  Lemma step_j D s s' : Inv D s -> alias_step s = Some s' -> (forall y, (nth y (a_j s) O < K)%nat) ->
    forall y, (nth y (a_j s') O < K)%nat.
  Proof.
    intros (P & _) E Jb y. unfold alias_step in E.
    destruct (a_great s) as [|g gr] eqn:Eg; [discriminate|]. destruct (a_small s) as [|sm sr] eqn:Es; [discriminate|].
    destruct (perm_facts _ _ _ P) as (_ & Bd).
    assert (Hg : (g < K)%nat) by (apply Bd; apply in_or_app; right; apply in_or_app; right; left; reflexivity).
    assert (G : (nth y (upd (a_j s) sm g) O < K)%nat).
    { destruct (Nat.eq_dec sm y) as [->|N]; [|rewrite nth_upd_neq by assumption; apply Jb].
      destruct (Nat.lt_ge_cases y (length (a_j s))) as [L|L]; [rewrite nth_upd_eq by assumption; assumption|].
      rewrite nth_overflow by (rewrite upd_length; lia). lia. }
    destruct (Qltb _ 1); inversion E; subst s'; cbn [a_j]; exact G.
  Qed.

  Lemma loop_inv fuel : forall D s, InvJ D s -> (length (a_small s ++ a_great s) < fuel)%nat ->
    exists D', InvJ D' (alias_loop fuel s) /\ alias_step (alias_loop fuel s) = None.
  Proof.
    induction fuel as [|f IH]; intros D s [I Jb] Hf; [lia|]. simpl.
    destruct (alias_step s) as [s'|] eqn:E.
    - destruct (step_inv D s s' I E) as (D' & I' & Hl). apply (IH D' s'); [split; [assumption | exact (step_j D s s' I E Jb)] | lia].
    - exists D. rewrite E. split; [split; assumption | reflexivity].
  Qed.

  Lemma step_none s : alias_step s = None -> a_small s = [] \/ a_great s = [].
  Proof.
    unfold alias_step. destruct (a_great s); [auto|]. destruct (a_small s); [auto|].
    destruct (Qltb _ 1); discriminate.
  Qed.

  (* ---------- the clean-up loops ---------- *)
  Lemma set_ones_length xs : forall q, length (set_ones q xs) = length q.
  Proof. induction xs as [|x xs IH]; intros q; simpl; [reflexivity|]. unfold set_ones in *. simpl. rewrite IH, upd_length. reflexivity. Qed.

  Lemma set_ones_nth xs : forall q y, (forall x, In x xs -> (x < length q)%nat) ->
    nth y (set_ones q xs) 0 = if in_dec Nat.eq_dec y xs then 1 else nth y q 0.
  Proof.
    induction xs as [|x xs IH]; intros q y H; [reflexivity|].
    unfold set_ones in *. cbn [fold_left]. rewrite IH by (intros z Hz; rewrite upd_length; apply H; right; assumption).
    destruct (in_dec Nat.eq_dec y xs) as [I1|I1]; destruct (in_dec Nat.eq_dec y (x :: xs)) as [I2|I2]; try reflexivity.
    - exfalso. apply I2. right. assumption.
    - destruct I2 as [->|I2]; [|contradiction]. apply nth_upd_eq. apply H. left. reflexivity.
    - apply nth_upd_neq. intro; subst. apply I2. left. reflexivity.
  Qed.

  (* ---------- the tables returned by create_alias ---------- *)
  Theorem alias_tables :
    let J := fst (create_alias p) in let qf := snd (create_alias p) in
    length qf = K /\ length J = K
    /\ (forall x, (x < K)%nat -> 0 <= nth x qf 0 /\ nth x qf 0 <= 1)
    /\ (forall k, (k < K)%nat -> nth k qf 0 + sumD (seq 0 K) qf J k == Kq * nth k p 0)
    /\ (forall y, (nth y J O < K)%nat).
  Proof.
    unfold create_alias, alias_main. cbn [fst snd]. fold K.
    pose proof init_inv as I0.
    assert (L0 : (length (a_small (alias_init p) ++ a_great (alias_init p)) < S K)%nat).
    { pose proof I0 as (P0 & _). cbn [app] in P0. rewrite (Permutation_length P0), seq_length. lia. }
    assert (J0 : forall y, (nth y (a_j (alias_init p)) O < K)%nat).
    { intro y. unfold alias_init. cbn [a_j]. fold K. destruct (Nat.lt_ge_cases y K) as [L|L].
      - rewrite nth_repeat. lia.
      - rewrite nth_overflow by (rewrite repeat_length; lia). lia. }
    destruct (loop_inv (S K) [] _ (conj I0 J0) L0) as (D & [I Jb] & Stop).
    set (s := alias_loop (S K) (alias_init p)) in *.
    destruct I as (P & Lq & Lj & Phi & Sm & Rs & Rg & Rd).
    destruct (perm_facts _ _ _ P) as (ND & Bd).
    (* every column still on a deque has q = 1 *)
    assert (One : forall x, In x (a_small s ++ a_great s) -> nth x (a_q s) 0 == 1).
    { destruct (step_none s Stop) as [E|E]; rewrite E in *.
      - simpl in *. apply sumq_all_one; assumption.
      - rewrite app_nil_r in *. destruct (a_small s) as [|y l] eqn:El; [intros x []|].
        exfalso. pose proof (sumq_lt (y :: l) (a_q s) ltac:(discriminate) (fun x Hx => proj2 (Rs x Hx))). lra. }
    set (q1 := set_ones (a_q s) (a_great s)). set (qf := set_ones q1 (a_small s)).
    assert (B1 : forall x, In x (a_great s) -> (x < length (a_q s))%nat).
    { intros x Hx. rewrite Lq. apply Bd. rewrite !in_app_iff. auto. }
    assert (B2 : forall x, In x (a_small s) -> (x < length q1)%nat).
    { intros x Hx. unfold q1. rewrite set_ones_length, Lq. apply Bd. rewrite !in_app_iff. auto. }
    assert (Qf : forall y, nth y qf 0 = if in_dec Nat.eq_dec y (a_small s) then 1
                                        else if in_dec Nat.eq_dec y (a_great s) then 1 else nth y (a_q s) 0).
    { intro y. unfold qf. rewrite set_ones_nth by exact B2. destruct (in_dec Nat.eq_dec y (a_small s)); [reflexivity|].
      unfold q1. apply set_ones_nth. exact B1. }
    assert (QfA : forall y, In y (a_small s ++ a_great s) -> nth y qf 0 = 1).
    { intros y Hy. rewrite Qf. destruct (in_dec Nat.eq_dec y (a_small s)); [reflexivity|].
      destruct (in_dec Nat.eq_dec y (a_great s)); [reflexivity|]. apply in_app_or in Hy. tauto. }
    assert (QfD : forall y, In y D -> nth y qf 0 = nth y (a_q s) 0).
    { intros y Hy. rewrite Qf.
      assert (N1 : ~ In y (a_small s ++ a_great s)).
      { intro Hc. clear -ND Hy Hc. induction D as [|d D IH]; [contradiction|]. simpl in ND. inversion ND; subst.
        destruct Hy as [->|Hy]; [apply H1; apply in_or_app; right; assumption | apply IH; assumption]. }
      destruct (in_dec Nat.eq_dec y (a_small s)) as [i|_]; [exfalso; apply N1; apply in_or_app; auto|].
      destruct (in_dec Nat.eq_dec y (a_great s)) as [i|_]; [exfalso; apply N1; apply in_or_app; auto|]. reflexivity. }
    assert (QfEq : forall y, (y < K)%nat -> nth y qf 0 == nth y (a_q s) 0).
    { intros y Hy. assert (Hin : In y (D ++ a_small s ++ a_great s)) by (apply (Permutation_in _ (Permutation_sym P)); apply in_seq; lia).
      apply in_app_or in Hin. destruct Hin as [Hin|Hin]; [rewrite QfD by assumption; reflexivity|].
      rewrite QfA by assumption. symmetry. apply One. assumption. }
    split; [unfold qf, q1; rewrite !set_ones_length; exact Lq|]. split; [exact Lj|]. split; [|split; [|exact Jb]].
    - intros x Hx. assert (Hin : In x (D ++ a_small s ++ a_great s)) by (apply (Permutation_in _ (Permutation_sym P)); apply in_seq; lia).
      apply in_app_or in Hin. destruct Hin as [Hin|Hin].
      + rewrite QfD by assumption. destruct (Rd x Hin). split; lra.
      + rewrite QfA by assumption. split; lra.
    - intros k Hk. rewrite QfEq by assumption. rewrite <- (Phi k Hk).
      rewrite <- (sumD_perm _ _ qf (a_j s) k P). rewrite sumD_app.
      assert (Z0 : sumD (a_small s ++ a_great s) qf (a_j s) k == 0).
      { clear -QfA. induction (a_small s ++ a_great s) as [|y l IH]; [reflexivity|]. simpl. unfold dterm at 1.
        rewrite QfA by (left; reflexivity). rewrite IH by (intros z Hz; apply QfA; right; assumption).
        destruct (nth y (a_j s) 0 =? k)%nat; ring. }
      rewrite Z0. rewrite (sumD_ext D (a_q s) qf (a_j s) (a_j s) k) by (intros y Hy; split; [apply QfD; assumption | reflexivity]).
      ring.
  Qed.
End AliasInv.

(* ---------- the step function of the sampler ---------- *)
Definition alias_cols (K : nat) (q : list Q) (j : list nat) (l : list nat) : list seg :=
  flat_map (fun x => [(nth x q 0 / inject_Z (Z.of_nat K), Z.of_nat x);
                      ((1 - nth x q 0) / inject_Z (Z.of_nat K), Z.of_nat (nth x j O))]) l.
(* column x of [0,1) is [x/K, (x+1)/K): its first q_x/K goes to x, the rest to J x *)
Definition alias_segs (K : nat) (q : list Q) (j : list nat) : list seg := alias_cols K q j (seq 0 K).

Definition sumI (l : list nat) (q : list Q) (k : nat) : Q :=
  fold_right (fun x acc => (if (x =? k)%nat then nth x q 0 else 0) + acc) 0 l.

Lemma Zeqb_nat a b : Z.eqb (Z.of_nat a) (Z.of_nat b) = Nat.eqb a b.
Proof. destruct (Nat.eqb_spec a b) as [->|N]; [apply Z.eqb_refl | apply Z.eqb_neq; lia]. Qed.

Lemma len_cols K q j k : (1 <= K)%nat -> forall l,
  len_of (Z.of_nat k) (alias_cols K q j l) == (sumI l q k + sumD l q j k) / inject_Z (Z.of_nat K).
Proof.
  intros HK. assert (Kp : 0 < inject_Z (Z.of_nat K)) by (change 0 with (inject_Z 0); rewrite <- Zlt_Qlt; lia).
  induction l as [|x l IH]; unfold alias_cols in *; cbn [flat_map app len_of sumI sumD fold_right].
  - field. lra.
  - rewrite IH. rewrite !Zeqb_nat. unfold dterm at 1. fold (sumI l q k). fold (sumD l q j k).
    destruct (x =? k)%nat; destruct (nth x j 0%nat =? k)%nat; field; lra.
Qed.

Lemma sumI_seq q k : forall n a, sumI (seq a n) q k == if ((a <=? k) && (k <? a + n))%nat then nth k q 0 else 0.
Proof.
  induction n as [|n IH]; intros a; cbn [seq sumI fold_right].
  - destruct (a <=? k)%nat eqn:A; destruct (k <? a + 0)%nat eqn:B; simpl; try reflexivity.
    apply Nat.leb_le in A. apply Nat.ltb_lt in B. lia.
  - fold (sumI (seq (S a) n) q k). rewrite IH. destruct (Nat.eqb_spec a k) as [->|N].
    + assert ((S k <=? k)%nat = false) as -> by (apply Nat.leb_gt; lia).
      assert ((k <=? k)%nat = true) as -> by (apply Nat.leb_le; lia).
      assert ((k <? k + S n)%nat = true) as -> by (apply Nat.ltb_lt; lia). simpl. ring.
    + destruct (a <=? k)%nat eqn:A; destruct (S a <=? k)%nat eqn:B; destruct (k <? a + S n)%nat eqn:C;
        destruct (k <? S a + n)%nat eqn:D2; simpl; try ring;
        repeat match goal with
               | H : (_ <=? _)%nat = true |- _ => apply Nat.leb_le in H
               | H : (_ <=? _)%nat = false |- _ => apply Nat.leb_gt in H
               | H : (_ <? _)%nat = true |- _ => apply Nat.ltb_lt in H
               | H : (_ <? _)%nat = false |- _ => apply Nat.ltb_ge in H
               end; lia.
Qed.

(* ---------- _draw_with_u is locate on the columns ---------- *)
Section Draw.
  Variable K : nat.
  Hypothesis HK : (1 <= K)%nat.
  Variable q : list Q.
  Variable j : list nat.
  Hypothesis q_le1 : forall x, (x < K)%nat -> nth x q 0 <= 1.
  Let Kq : Q := inject_Z (Z.of_nat K).

  Lemma Kq_pos' : 0 < Kq.
  Proof. unfold Kq. change 0 with (inject_Z 0). rewrite <- Zlt_Qlt. lia. Qed.

  Lemma div_lt u y : u < y / Kq <-> Kq * u < y.
  Proof.
    pose proof Kq_pos' as Kp. assert (E : Kq * (y / Kq) == y) by (field; lra).
    rewrite <- (Qmult_lt_l u (y / Kq) Kq Kp). rewrite E. reflexivity.
  Qed.
  Lemma div_le u y : y / Kq <= u <-> y <= Kq * u.
  Proof.
    pose proof Kq_pos' as Kp. assert (E : Kq * (y / Kq) == y) by (field; lra).
    rewrite <- (Qmult_le_l (y / Kq) u Kq Kp). rewrite E. reflexivity.
  Qed.

  Lemma cols_locate u : 0 <= u -> u < 1 ->
    forall n x0, (x0 + n = K)%nat -> (x0 <= Z.to_nat (Qfloor (Kq * u)))%nat ->
      locate (inject_Z (Z.of_nat x0) / Kq) (alias_cols K q j (seq x0 n)) u = Some (Z.of_nat (alias_draw K q j u)).
  Proof.
    intros Hu0 Hu1. pose proof Kq_pos' as Kp.
    set (ku := Kq * u). set (f := Qfloor ku).
    assert (F1 : inject_Z f <= ku) by apply Qfloor_le.
    assert (F2 : ku < inject_Z (f + 1)) by apply Qlt_floor.
    assert (Ku0 : 0 <= ku) by (unfold ku; apply Qmult_le_0_compat; lra).
    assert (Ku1 : ku < Kq) by (unfold ku; rewrite <- (Qmult_1_r Kq) at 2; apply Qmult_lt_l; assumption).
    assert (Hf0 : (0 <= f)%Z).
    { destruct (Z_lt_le_dec f 0) as [L|L]; [|assumption]. exfalso.
      assert (inject_Z (f + 1) <= 0) by (change 0 with (inject_Z 0); rewrite <- Zle_Qle; lia). lra. }
    assert (HfK : (f < Z.of_nat K)%Z).
    { destruct (Z_lt_le_dec f (Z.of_nat K)) as [L|L]; [assumption|]. exfalso.
      assert (Kq <= inject_Z f) by (unfold Kq; rewrite <- Zle_Qle; assumption). lra. }
    set (xf := Z.to_nat f). assert (Hxf : Z.of_nat xf = f) by (unfold xf; lia).
    induction n as [|n IH]; intros x0 Hx Hle; [fold ku f xf in Hle; lia|].
    fold ku f xf in Hle. unfold alias_cols. cbn [seq flat_map app locate]. fold (alias_cols K q j (seq (S x0) n)). change (inject_Z (Z.of_nat K)) with Kq.
    set (c := inject_Z (Z.of_nat x0) / Kq). set (qx := nth x0 q 0).
    assert (T1 : c + qx / Kq == (inject_Z (Z.of_nat x0) + qx) / Kq) by (unfold c; field; lra).
    assert (T2 : c + qx / Kq + (1 - qx) / Kq == inject_Z (Z.of_nat (S x0)) / Kq).
    { unfold c. rewrite Nat2Z.inj_succ, <- Z.add_1_r, inject_Z_plus. change (inject_Z 1) with 1. field. lra. }
    assert (Sx : inject_Z (Z.of_nat (S x0)) == inject_Z (Z.of_nat x0) + 1).
    { rewrite Nat2Z.inj_succ, <- Z.add_1_r, inject_Z_plus. reflexivity. }
    assert (Fx : inject_Z (f + 1) == inject_Z f + 1) by (rewrite inject_Z_plus; reflexivity).
    destruct (Nat.eq_dec x0 xf) as [E|N].
    - (* the column of u *)
      unfold alias_draw. fold Kq ku f xf. rewrite <- E. fold qx.
      assert (Ex : inject_Z (Z.of_nat x0) == inject_Z f) by (rewrite E, Hxf; reflexivity).
      destruct (Qltb (ku - inject_Z (Z.of_nat x0)) qx) eqn:V.
      + apply Qltb_lt in V. assert (Qltb u (c + qx / Kq) = true) as ->; [|reflexivity].
        apply Qltb_lt. rewrite T1. apply div_lt. fold ku. lra.
      + apply Qltb_false in V. assert (Qltb u (c + qx / Kq) = false) as ->.
        { apply Qltb_false. rewrite T1. apply div_le. fold ku. lra. }
        assert (Qltb u (c + qx / Kq + (1 - qx) / Kq) = true) as ->; [|reflexivity].
        apply Qltb_lt. rewrite T2. apply div_lt. fold ku. lra.
    - (* u lies in a later column *)
      assert (Hlt : (x0 < xf)%nat) by lia.
      assert (Hge : inject_Z (Z.of_nat x0) + 1 <= ku).
      { assert (inject_Z (Z.of_nat x0) + 1 <= inject_Z f); [|lra].
        rewrite <- Sx. rewrite <- Zle_Qle. lia. }
      pose proof (q_le1 x0 ltac:(lia)) as Q1. fold qx in Q1.
      assert (Qltb u (c + qx / Kq) = false) as ->.
      { apply Qltb_false. rewrite T1. apply div_le. fold ku. lra. }
      assert (Qltb u (c + qx / Kq + (1 - qx) / Kq) = false) as ->.
      { apply Qltb_false. rewrite T2. apply div_le. fold ku. lra. }
      rewrite (locate_ext _ (inject_Z (Z.of_nat (S x0)) / Kq)) by exact T2.
      apply IH; [lia | fold ku f xf; lia].
  Qed.
End Draw.

Theorem alias_law (p : list Q) : (1 <= length p)%nat -> nonneg p -> qsum p == 1 ->
  let K := length p in let J := fst (create_alias p) in let q := snd (create_alias p) in
  let segs := alias_segs K q J in
  (forall k, (k < K)%nat -> len_of (Z.of_nat k) segs == nth k p 0)
  /\ seg_nonneg segs
  /\ (forall u, 0 <= u -> u < 1 -> locate 0 segs u = Some (Z.of_nat (alias_draw K q J u)))
  /\ (forall u, 0 <= u -> u < 1 -> (alias_draw K q J u < K)%nat)
  /\ (forall u k, 0 <= u -> u < 1 -> (k < K)%nat -> nth k p 0 == 0 -> alias_draw K q J u <> k).
Proof.
  intros HK Hnn Hs K J q segs.
  destruct (alias_tables p Hnn Hs HK) as (Lq & LJ & Rq & Phi & Jb). fold K J q in Lq, LJ, Rq, Phi, Jb.
  assert (Kp : 0 < inject_Z (Z.of_nat K)) by (change 0 with (inject_Z 0); rewrite <- Zlt_Qlt; lia).
  assert (Len : forall k, (k < K)%nat -> len_of (Z.of_nat k) segs == nth k p 0).
  { intros k Hk. unfold segs, alias_segs. rewrite (len_cols K q J k HK).
    rewrite sumI_seq. assert ((0 <=? k)%nat = true) as -> by (apply Nat.leb_le; lia).
    assert ((k <? 0 + K)%nat = true) as -> by (apply Nat.ltb_lt; lia). cbn [andb].
    rewrite (Phi k Hk). field. lra. }
  assert (Nn : seg_nonneg segs).
  { unfold seg_nonneg, segs, alias_segs, alias_cols. apply Forall_forall. intros s Hin. apply in_flat_map in Hin.
    destruct Hin as (x & Hx & Hin). apply in_seq in Hx. destruct (Rq x ltac:(lia)) as [R0 R1].
    destruct Hin as [<-|[<-|[]]]; simpl; apply Qle_shift_div_l; try assumption; lra. }
  assert (Loc : forall u, 0 <= u -> u < 1 -> locate 0 segs u = Some (Z.of_nat (alias_draw K q J u))).
  { intros u H0 H1. unfold segs, alias_segs.
    rewrite (locate_ext 0 (inject_Z (Z.of_nat 0) / inject_Z (Z.of_nat K))) by (simpl; field; lra).
    apply (cols_locate K HK q J (fun x Hx => proj2 (Rq x Hx)) u H0 H1 K 0%nat); lia. }
  split; [exact Len|]. split; [exact Nn|]. split; [exact Loc|]. split.
  - intros u H0 H1. pose proof (Loc u H0 H1) as L. apply locate_in in L.
    unfold segs, alias_segs, alias_cols in L. apply in_map_iff in L. destruct L as (s & Es & Hin).
    apply in_flat_map in Hin. destruct Hin as (x & Hx & Hin). apply in_seq in Hx.
    destruct Hin as [<-|[<-|[]]]; simpl in Es; [lia|]. pose proof (Jb x). lia.
  - intros u k H0 H1 Hk Hz Hc. pose proof (Loc u H0 H1) as L. rewrite Hc in L.
    apply (locate_never_zero 0 segs u (Z.of_nat k)); [assumption | assumption | | assumption].
    rewrite (Len k Hk). assumption.
Qed.

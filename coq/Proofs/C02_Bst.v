(* C02 -- BinarySearchTree: the stack machine of create_binary_search_tree computes the in-order cumulative
   sums of the implicit heap, and the descent of sample_with_u is the step function whose consecutive
   intervals are the leaves of the heap in in-order, with lengths p_state.  Any number of states >= 1. *)
From Coq Require Import List Arith ZArith QArith Bool Lia Lqa Permutation.
From RV Require Import Base.QB Model.StepLaw Model.Bst Proofs.C02_StepLaw.
Import ListNotations.
Open Scope Q_scope.

(* ---------- arrays ---------- *)
Lemma upd_length {A} (l : list A) i v : length (upd l i v) = length l.
Proof. revert i; induction l as [|x r IH]; intros [|i]; simpl; auto. Qed.

Lemma nth_upd_eq {A} (l : list A) i v d : (i < length l)%nat -> nth i (upd l i v) d = v.
Proof. revert i; induction l as [|x r IH]; intros [|i] H; simpl in *; try lia; auto. apply IH. lia. Qed.

Lemma nth_upd_neq {A} (l : list A) i j v d : i <> j -> nth j (upd l i v) d = nth j l d.
Proof.
  revert i j; induction l as [|x r IH]; intros [|i] [|j] H; simpl; auto; try congruence.
Qed.

Lemma NoDup_app' {A} (a b : list A) : NoDup a -> NoDup b -> (forall x, In x a -> In x b -> False) -> NoDup (a ++ b).
Proof.
  induction a as [|x a IH]; intros Ha Hb Hd; simpl; [assumption|].
  inversion Ha; subst. constructor.
  - intro Hin. apply in_app_or in Hin. destruct Hin as [Hin|Hin]; [contradiction | apply (Hd x); [left; reflexivity | assumption]].
  - apply IH; [assumption | assumption | intros y Hy1 Hy2; apply (Hd y); [right; assumption | assumption]].
Qed.

Section Heap.
  Variable k : nat.                 (* K = len(probabilities) - 1 : internal nodes 1..k, leaves k+1..2k+1 *)

  (* ---------- the recursive (in-order) reading of the machine ---------- *)
  Fixpoint trav (h ptr : nat) (c : Q) (a : list Q) : Q * list Q :=
    if (k <? ptr)%nat then (c + nth (ptr - 1) a 0, a)
    else match h with
         | O => (c, a)
         | S h' => let ca := trav h' (2 * ptr) c a in
                   let a2 := upd (snd ca) (ptr - 1) (fst ca) in
                   trav h' (2 * ptr + 1) (fst ca) a2
         end.

  Lemma trav_length h : forall ptr c a, length (snd (trav h ptr c a)) = length a.
  Proof.
    induction h as [|h IH]; intros ptr c a; simpl; destruct (k <? ptr)%nat; simpl; auto.
    rewrite IH, upd_length, IH. reflexivity.
  Qed.

  Definition mkcfg p s c a := {| b_ptr := p; b_stack := s; b_cum := c; b_arr := a |}.

  (* after running the machine on the subtree rooted at ptr with a non-empty stack t :: r:
     the in-order sum is accumulated, bst[t-1] is set, and the machine stands at 2t+1 with stack r *)
  Lemma machine_subtree h : forall ptr t r c a, (1 <= ptr)%nat -> (k < ptr * 2 ^ h)%nat ->
    exists n, (1 <= n <= 2 ^ (S h) - 1)%nat /\ forall fuel,
      bst_run (n + fuel) k (mkcfg ptr (t :: r) c a) =
      let ca := trav h ptr c a in
      let cfg' := mkcfg (2 * t + 1) r (fst ca) (upd (snd ca) (t - 1) (fst ca)) in
      if bst_halt k cfg' then Some (b_arr cfg') else bst_run fuel k cfg'.
  Proof.
    induction h as [|h IH]; intros ptr t r c a Hp Hk.
    - (* height 0: ptr is a leaf *)
      assert (L : (k <? ptr)%nat = true) by (apply Nat.ltb_lt; simpl in Hk; lia).
      exists 1%nat. split; [simpl; lia|]. intros fuel. simpl.
      unfold bst_body. simpl. assert ((ptr <=? k)%nat = false) as -> by (apply Nat.leb_gt; apply Nat.ltb_lt in L; lia).
      rewrite L. simpl. reflexivity.
    - destruct (k <? ptr)%nat eqn:L.
      + exists 1%nat. split; [pose proof (Nat.pow_nonzero 2 (S (S h))); simpl in *; lia|]. intros fuel.
        cbn [trav]. rewrite L. simpl.
        unfold bst_body. simpl. assert ((ptr <=? k)%nat = false) as -> by (apply Nat.leb_gt; apply Nat.ltb_lt in L; lia).
        simpl. reflexivity.
      + apply Nat.ltb_ge in L.
        destruct (IH (2 * ptr)%nat ptr (t :: r) c a ltac:(lia) ltac:(rewrite Nat.pow_succ_r' in Hk; lia)) as (n1 & Hn1 & R1).
        set (ca := trav h (2 * ptr) c a) in *.
        destruct (IH (2 * ptr + 1)%nat t r (fst ca) (upd (snd ca) (ptr - 1) (fst ca)) ltac:(lia)
                    ltac:(rewrite Nat.pow_succ_r' in Hk; lia)) as (n2 & Hn2 & R2).
        exists (1 + n1 + n2)%nat. split.
        { rewrite (Nat.pow_succ_r' 2 (S h)). lia. }
        intros fuel. replace (1 + n1 + n2 + fuel)%nat with (S (n1 + (n2 + fuel))) by lia.
        cbn [bst_run]. unfold bst_body at 1. cbn [b_ptr mkcfg].
        assert ((ptr <=? k)%nat = true) as -> by (apply Nat.leb_le; lia).
        cbn [b_stack b_cum b_arr mkcfg]. unfold bst_halt at 1. cbn [b_stack b_ptr]. rewrite andb_false_r.
        fold (mkcfg (2 * ptr) (ptr :: t :: r) c a). rewrite R1. cbv zeta. fold ca.
        unfold bst_halt at 1. cbn [b_stack b_ptr mkcfg]. rewrite andb_false_r.
        rewrite R2. cbn [trav]. assert ((k <? ptr)%nat = false) as -> by (apply Nat.ltb_ge; lia).
        cbv zeta. fold ca. reflexivity.
  Qed.

  (* the right spine from the root: the machine halts with the array of trav *)
  Lemma machine_spine h : forall ptr c a, (1 <= ptr <= k)%nat -> (k < ptr * 2 ^ h)%nat ->
    exists n, (n <= 2 ^ (S h))%nat /\ forall fuel,
      bst_run (n + fuel) k (mkcfg ptr [] c a) = Some (snd (trav h ptr c a)).
  Proof.
    induction h as [|h IH]; intros ptr c a Hp Hk; [simpl in Hk; lia|].
    destruct (machine_subtree h (2 * ptr)%nat ptr [] c a ltac:(lia) ltac:(rewrite Nat.pow_succ_r' in Hk; lia)) as (n1 & Hn1 & R1).
    set (ca := trav h (2 * ptr) c a) in *.
    destruct (k <? 2 * ptr + 1)%nat eqn:L.
    - exists (1 + n1)%nat. split; [rewrite (Nat.pow_succ_r' 2 (S h)); lia|]. intros fuel.
      replace (1 + n1 + fuel)%nat with (S (n1 + fuel)) by lia.
      cbn [bst_run]. unfold bst_body at 1. cbn [b_ptr mkcfg].
      assert ((ptr <=? k)%nat = true) as -> by (apply Nat.leb_le; lia).
      cbn [b_stack b_cum b_arr mkcfg]. unfold bst_halt at 1. cbn [b_stack b_ptr]. rewrite andb_false_r.
      fold (mkcfg (2 * ptr) [ptr] c a). rewrite R1. cbv zeta. fold ca.
      unfold bst_halt. cbn [b_stack b_ptr mkcfg b_arr]. rewrite L. cbn [andb].
      cbn [trav]. assert ((k <? ptr)%nat = false) as -> by (apply Nat.ltb_ge; lia). cbv zeta. fold ca.
      destruct h; cbn [trav]; rewrite L; reflexivity.
    - apply Nat.ltb_ge in L.
      destruct (IH (2 * ptr + 1)%nat (fst ca) (upd (snd ca) (ptr - 1) (fst ca)) ltac:(lia)
                  ltac:(rewrite Nat.pow_succ_r' in Hk; lia)) as (n2 & Hn2 & R2).
      exists (1 + n1 + n2)%nat. split; [rewrite (Nat.pow_succ_r' 2 (S h)); lia|]. intros fuel.
      replace (1 + n1 + n2 + fuel)%nat with (S (n1 + (n2 + fuel))) by lia.
      cbn [bst_run]. unfold bst_body at 1. cbn [b_ptr mkcfg].
      assert ((ptr <=? k)%nat = true) as -> by (apply Nat.leb_le; lia).
      cbn [b_stack b_cum b_arr mkcfg]. unfold bst_halt at 1. cbn [b_stack b_ptr]. rewrite andb_false_r.
      fold (mkcfg (2 * ptr) [ptr] c a). rewrite R1. cbv zeta. fold ca.
      unfold bst_halt at 1. cbn [b_stack b_ptr mkcfg].
      assert ((k <? 2 * ptr + 1)%nat = false) as -> by (apply Nat.ltb_ge; lia). cbn [andb].
      rewrite R2. cbn [trav]. assert ((k <? ptr)%nat = false) as -> by (apply Nat.ltb_ge; lia).
      cbv zeta. fold ca. reflexivity.
  Qed.

  (* ---------- which entries trav writes; ranges of heap indices ---------- *)
  Fixpoint inn (h ptr i : nat) : Prop :=
    (ptr <= k)%nat /\ match h with O => False | S h' => i = ptr \/ inn h' (2 * ptr) i \/ inn h' (2 * ptr + 1) i end.

  Fixpoint leaves (h ptr : nat) : list nat :=
    if (k <? ptr)%nat then [ptr]
    else match h with O => [] | S h' => leaves h' (2 * ptr) ++ leaves h' (2 * ptr + 1) end.

  Lemma inn_range h : forall p i, inn h p i -> (i <= k)%nat /\ exists j, (p * 2 ^ j <= i < (p + 1) * 2 ^ j)%nat.
  Proof.
    induction h as [|h IH]; intros p i [Hp H]; [contradiction|].
    destruct H as [H|[H|H]].
    - subst. split; [assumption|]. exists 0%nat. simpl. lia.
    - destruct (IH _ _ H) as (Hi & j & Hj). split; [assumption|]. exists (S j). rewrite Nat.pow_succ_r'. nia.
    - destruct (IH _ _ H) as (Hi & j & Hj). split; [assumption|]. exists (S j). rewrite Nat.pow_succ_r'. nia.
  Qed.

  Lemma leaves_range h : forall p l, In l (leaves h p) ->
    (k < l)%nat /\ exists j, (j <= h)%nat /\ (p * 2 ^ j <= l < (p + 1) * 2 ^ j)%nat.
  Proof.
    induction h as [|h IH]; intros p l H; simpl in H; destruct (k <? p)%nat eqn:L.
    - destruct H as [H|[]]. subst. apply Nat.ltb_lt in L. split; [assumption|]. exists 0%nat. simpl. lia.
    - contradiction.
    - destruct H as [H|[]]. subst. apply Nat.ltb_lt in L. split; [assumption|]. exists 0%nat. simpl. lia.
    - apply in_app_or in H. destruct H as [H|H]; destruct (IH _ _ H) as (Hl & j & Hj1 & Hj);
        (split; [assumption|]); exists (S j); rewrite Nat.pow_succ_r'; (split; [lia | nia]).
  Qed.

  Lemma sib_disjoint p i j m : (1 <= p)%nat ->
    (2 * p * 2 ^ j <= i < (2 * p + 1) * 2 ^ j)%nat -> ((2 * p + 1) * 2 ^ m <= i < (2 * p + 1 + 1) * 2 ^ m)%nat -> False.
  Proof.
    intros Hp H1 H2. destruct (Nat.le_gt_cases j m) as [L|L].
    - replace m with (j + (m - j))%nat in H2 by lia. rewrite Nat.pow_add_r in H2.
      pose proof (Nat.pow_nonzero 2 (m - j) ltac:(lia)). pose proof (Nat.pow_nonzero 2 j ltac:(lia)). nia.
    - replace j with (m + S (j - m - 1))%nat in H1 by lia. rewrite Nat.pow_add_r, Nat.pow_succ_r' in H1.
      pose proof (Nat.pow_nonzero 2 (j - m - 1) ltac:(lia)). pose proof (Nat.pow_nonzero 2 m ltac:(lia)). nia.
  Qed.

  Lemma trav_frame h : forall ptr c a i, (1 <= i)%nat -> (1 <= ptr)%nat -> ~ inn h ptr i ->
    nth (i - 1) (snd (trav h ptr c a)) 0 = nth (i - 1) a 0.
  Proof.
    induction h as [|h IH]; intros ptr c a i Hi Hp H; simpl; destruct (k <? ptr)%nat eqn:L; simpl; auto.
    apply Nat.ltb_ge in L.
    assert (H1 : i <> ptr) by (intro; apply H; simpl; auto).
    assert (H2 : ~ inn h (2 * ptr) i) by (intro; apply H; simpl; auto).
    assert (H3 : ~ inn h (2 * ptr + 1) i) by (intro; apply H; simpl; auto).
    rewrite IH by (try assumption; lia). rewrite nth_upd_neq by lia. apply IH; (try assumption; lia).
  Qed.

  Definition agree_leaves (a' a : list Q) : Prop := forall l, (k < l)%nat -> nth (l - 1) a' 0 = nth (l - 1) a 0.

  Lemma trav_leaves h ptr c a : (1 <= ptr)%nat -> agree_leaves (snd (trav h ptr c a)) a.
  Proof.
    intros Hp l Hl. apply trav_frame; [lia | assumption|]. intro Hc. apply inn_range in Hc. lia.
  Qed.

  Definition lseg (a : list Q) (l : nat) : seg := (nth (l - 1) a 0, (Z.of_nat l - Z.of_nat k - 1)%Z).
  Definition leafsegs (a : list Q) (h ptr : nat) : list seg := map (lseg a) (leaves h ptr).

  Lemma leafsegs_agree a' a h ptr : agree_leaves a' a -> leafsegs a' h ptr = leafsegs a h ptr.
  Proof.
    intro H. unfold leafsegs. apply map_ext_in. intros l Hl. apply leaves_range in Hl. unfold lseg.
    rewrite H by tauto. reflexivity.
  Qed.

  Lemma leafsegs_S a h ptr : (ptr <= k)%nat ->
    leafsegs a (S h) ptr = leafsegs a h (2 * ptr) ++ leafsegs a h (2 * ptr + 1).
  Proof.
    intro H. unfold leafsegs. cbn [leaves]. assert ((k <? ptr)%nat = false) as -> by (apply Nat.ltb_ge; lia).
    apply map_app.
  Qed.

  (* ---------- the filled array: every internal node holds (base of its subtree) + (mass of its left subtree) ---------- *)
  Fixpoint good (a0 : list Q) (h ptr : nat) (c : Q) (b : list Q) : Prop :=
    if (k <? ptr)%nat then True
    else match h with
         | O => False
         | S h' => nth (ptr - 1) b 0 == c + total (leafsegs a0 h' (2 * ptr))
                   /\ good a0 h' (2 * ptr) c b /\ good a0 h' (2 * ptr + 1) (nth (ptr - 1) b 0) b
         end.

  Lemma good_agree a0 h : forall ptr c b b', (forall i, inn h ptr i -> nth (i - 1) b' 0 = nth (i - 1) b 0) ->
    good a0 h ptr c b -> good a0 h ptr c b'.
  Proof.
    induction h as [|h IH]; intros ptr c b b' H G; simpl in *; destruct (k <? ptr)%nat eqn:L; auto.
    apply Nat.ltb_ge in L. destruct G as (G1 & G2 & G3).
    assert (E : nth (ptr - 1) b' 0 = nth (ptr - 1) b 0) by (apply H; simpl; auto).
    rewrite E. split; [assumption|]. split.
    - apply (IH _ _ b); [|assumption]. intros i Hi. apply H. simpl. auto.
    - apply (IH _ _ b); [|assumption]. intros i Hi. apply H. simpl. auto.
  Qed.

  Lemma good_a0 a0 a0' h : agree_leaves a0' a0 -> forall ptr c b, good a0' h ptr c b -> good a0 h ptr c b.
  Proof.
    intro A. induction h as [|h IH]; intros ptr c b G; simpl in *; destruct (k <? ptr)%nat; auto.
    destruct G as (G1 & G2 & G3). rewrite (leafsegs_agree _ _ _ _ A) in G1. auto.
  Qed.

  Lemma trav_good h : forall ptr c a, (1 <= ptr)%nat -> (k < ptr * 2 ^ h)%nat -> (k <= length a)%nat ->
    good a h ptr c (snd (trav h ptr c a)) /\ fst (trav h ptr c a) == c + total (leafsegs a h ptr).
  Proof.
    induction h as [|h IH]; intros ptr c a Hp Hk Hlen.
    - assert (L : (k <? ptr)%nat = true) by (apply Nat.ltb_lt; simpl in Hk; lia).
      simpl. unfold leafsegs. simpl. rewrite L. simpl. split; [exact I | ring].
    - destruct (k <? ptr)%nat eqn:L.
      + cbn [trav good]. unfold leafsegs. cbn [leaves]. rewrite L. simpl. split; [exact I | ring].
      + apply Nat.ltb_ge in L. rewrite Nat.pow_succ_r' in Hk.
        cbn [trav]. assert ((k <? ptr)%nat = false) as Lb by (apply Nat.ltb_ge; lia). rewrite Lb. cbv zeta.
        set (ca := trav h (2 * ptr) c a).
        destruct (IH (2 * ptr)%nat c a ltac:(lia) ltac:(lia) Hlen) as [G1 F1]. fold ca in G1, F1.
        set (a2 := upd (snd ca) (ptr - 1) (fst ca)).
        assert (Hlen2 : (k <= length a2)%nat) by (unfold a2, ca; rewrite upd_length, trav_length; assumption).
        destruct (IH (2 * ptr + 1)%nat (fst ca) a2 ltac:(lia) ltac:(lia) Hlen2) as [G2 F2].
        set (b := snd (trav h (2 * ptr + 1) (fst ca) a2)) in *.
        assert (A2 : agree_leaves a2 a).
        { intros l Hl. unfold a2. rewrite nth_upd_neq by lia. apply trav_leaves; [lia | assumption]. }
        assert (E : nth (ptr - 1) b 0 = fst ca).
        { unfold b. rewrite trav_frame; [| lia | lia |].
          - unfold a2. apply nth_upd_eq. unfold ca. rewrite trav_length. lia.
          - intro Hc. apply inn_range in Hc. destruct Hc as (_ & j & Hj).
            pose proof (Nat.pow_nonzero 2 j ltac:(lia)). nia. }
        split.
        * cbn [good]. rewrite Lb. rewrite E. split; [exact F1|]. split.
          -- apply (good_agree a h _ _ (snd ca)); [|exact G1]. intros i Hi.
             pose proof (inn_range _ _ _ Hi) as (Hik & j & Hj).
             assert (1 <= i)%nat by (pose proof (Nat.pow_nonzero 2 j ltac:(lia)); nia).
             unfold b. rewrite trav_frame; [| assumption | lia |].
             ++ unfold a2. apply nth_upd_neq. pose proof (Nat.pow_nonzero 2 j ltac:(lia)). nia.
             ++ intro Hc. apply inn_range in Hc. destruct Hc as (_ & m & Hm).
                apply (sib_disjoint ptr i j m); [lia | lia | lia].
          -- apply (good_a0 a a2 h A2). exact G2.
        * rewrite F2, F1. rewrite (leafsegs_agree _ _ _ _ A2). rewrite (leafsegs_S a h ptr L), total_app. ring.
  Qed.

  (* ---------- the descent is the step function of the in-order leaves ---------- *)
  Lemma lseg_nonneg a h ptr : (forall l, (k < l)%nat -> 0 <= nth (l - 1) a 0) -> seg_nonneg (leafsegs a h ptr).
  Proof.
    intro H. unfold seg_nonneg, leafsegs. apply Forall_forall. intros s Hs. apply in_map_iff in Hs.
    destruct Hs as (l & <- & Hl). apply leaves_range in Hl. simpl. apply H. tauto.
  Qed.

  Lemma descend_law a0 b : (forall l, (k < l)%nat -> 0 <= nth (l - 1) a0 0) ->
    forall h ptr c u fuel, (1 <= ptr)%nat -> (k < ptr * 2 ^ h)%nat -> (h < fuel)%nat -> good a0 h ptr c b ->
      c <= u -> u < c + total (leafsegs a0 h ptr) ->
      locate c (leafsegs a0 h ptr) u = Some (Z.of_nat (bst_descend fuel k b u ptr) - Z.of_nat k - 1)%Z.
  Proof.
    intros Hpos. induction h as [|h IH]; intros ptr c u fuel Hp Hk Hf G H1 H2.
    - assert (L : (k <? ptr)%nat = true) by (apply Nat.ltb_lt; simpl in Hk; lia).
      destruct fuel as [|f]; [lia|]. simpl. assert ((ptr <=? k)%nat = false) as -> by (apply Nat.leb_gt; apply Nat.ltb_lt in L; lia).
      unfold leafsegs in *. simpl in *. rewrite L in *. simpl in *.
      destruct (Qltb u (c + nth (ptr - 1) a0 0)) eqn:A; [reflexivity|]. apply Qltb_false in A. lra.
    - destruct fuel as [|f]; [lia|]. destruct (k <? ptr)%nat eqn:L.
      + simpl. assert ((ptr <=? k)%nat = false) as -> by (apply Nat.leb_gt; apply Nat.ltb_lt in L; lia).
        unfold leafsegs in *. cbn [leaves] in *. rewrite L in *. simpl in *.
        destruct (Qltb u (c + nth (ptr - 1) a0 0)) eqn:A; [reflexivity|]. apply Qltb_false in A. lra.
      + apply Nat.ltb_ge in L. rewrite Nat.pow_succ_r' in Hk.
        cbn [good] in G. assert ((k <? ptr)%nat = false) as Lb by (apply Nat.ltb_ge; lia). rewrite Lb in G.
        destruct G as (G1 & G2 & G3).
        rewrite (leafsegs_S a0 h ptr L) in *. rewrite total_app in H2.
        cbn [bst_descend]. assert ((ptr <=? k)%nat = true) as -> by (apply Nat.leb_le; lia).
        rewrite locate_app.
        destruct (Qltb u (nth (ptr - 1) b 0)) eqn:A.
        * apply Qltb_lt in A. rewrite G1 in A.
          rewrite (IH (2 * ptr)%nat c u f); try assumption; try lia. reflexivity.
        * apply Qltb_false in A. rewrite G1 in A.
          rewrite locate_none; [| apply lseg_nonneg; assumption | assumption].
          rewrite (locate_ext _ (nth (ptr - 1) b 0)) by (rewrite G1; reflexivity).
          apply IH; try assumption; try lia; rewrite G1; lra.
  Qed.

  (* ---------- the in-order leaves are exactly the leaves k+1 .. 2k+1, each once ---------- *)
  Lemma leaves_nodup h : forall p, (1 <= p)%nat -> NoDup (leaves h p).
  Proof.
    induction h as [|h IH]; intros p Hp; simpl; destruct (k <? p)%nat; try (repeat constructor; simpl; tauto).
    apply NoDup_app'; [apply IH; lia | apply IH; lia |].
    intros l H1 H2. apply leaves_range in H1. apply leaves_range in H2.
    destruct H1 as (_ & j & _ & Hj). destruct H2 as (_ & m & _ & Hm).
    apply (sib_disjoint p l j m); [lia | lia | lia].
  Qed.

  Lemma leaves_complete h : forall p l j, (1 <= p)%nat -> (k < l <= 2 * k + 1)%nat -> (j <= h)%nat ->
    (p * 2 ^ j <= l < (p + 1) * 2 ^ j)%nat -> In l (leaves h p).
  Proof.
    induction h as [|h IH]; intros p l j Hp Hl Hj Hr.
    - assert (j = 0)%nat by lia. subst. simpl in *. assert ((k <? p)%nat = true) as -> by (apply Nat.ltb_lt; lia).
      left. lia.
    - simpl. destruct (k <? p)%nat eqn:L.
      + apply Nat.ltb_lt in L. left. destruct j as [|j]; [simpl in Hr; lia|].
        rewrite Nat.pow_succ_r' in Hr. pose proof (Nat.pow_nonzero 2 j ltac:(lia)). nia.
      + apply Nat.ltb_ge in L. destruct j as [|j]; [simpl in Hr; lia|].
        rewrite Nat.pow_succ_r' in Hr. apply in_or_app.
        destruct (Nat.lt_ge_cases l ((2 * p + 1) * 2 ^ j)) as [C|C].
        * left. apply (IH _ _ j); try lia.
        * right. apply (IH _ _ j); try lia.
  Qed.
End Heap.

(* ---------- the theorem ---------- *)
Definition bst_height (k : nat) : nat := S (Nat.log2 k).
Definition bst_a0 (p : list Q) : list Q := repeat 0 (length p - 1) ++ p.
(* the consecutive intervals of the sampler: leaves of the implicit heap in in-order, state s with length p_s *)
Definition bst_segs (p : list Q) : list seg :=
  let k := (length p - 1)%nat in leafsegs k (bst_a0 p) (bst_height k) 1.

Lemma leaves_le k h : forall p l, In l (leaves k h p) -> (p <= 2 * k + 1)%nat -> (l <= 2 * k + 1)%nat.
Proof.
  induction h as [|h IH]; intros p l H Hp; simpl in H; destruct (k <? p)%nat eqn:L.
  - destruct H as [H|[]]; lia.
  - contradiction.
  - destruct H as [H|[]]; lia.
  - apply Nat.ltb_ge in L. apply in_app_or in H. destruct H as [H|H]; apply IH in H; lia.
Qed.

Lemma height_ok k : (k < 1 * 2 ^ bst_height k)%nat.
Proof.
  unfold bst_height. destruct k as [|k]; [simpl; lia|].
  pose proof (Nat.log2_spec (S k) ltac:(lia)). lia.
Qed.

Lemma a0_leaf p l : (length p - 1 < l)%nat -> nth (l - 1) (bst_a0 p) 0 = nth (l - 1 - (length p - 1)) p 0.
Proof.
  intro H. unfold bst_a0. rewrite app_nth2; rewrite repeat_length; [reflexivity | lia].
Qed.

Lemma nonneg_nth p i : nonneg p -> 0 <= nth i p 0.
Proof.
  intro H. revert i. induction H as [|x r Hx _ IH]; intros [|i]; simpl; try lra; auto.
Qed.

Lemma total_seq_nth (f : nat -> Z) p : forall off,
  total (map (fun l => (nth (l - off) p 0, f l)) (seq off (length p))) == qsum p.
Proof.
  induction p as [|x r IH]; intros off; [reflexivity|].
  assert (E : map (fun l => (nth (l - off) (x :: r) 0, f l)) (seq (S off) (length r))
              = map (fun l => (nth (l - S off) r 0, f l)) (seq (S off) (length r))).
  { apply map_ext_in. intros l Hl. apply in_seq in Hl. replace (l - off)%nat with (S (l - S off)) by lia. reflexivity. }
  cbn [length seq map total qsum]. rewrite E, Nat.sub_diag. change (nth 0 (x :: r) 0) with x.
  rewrite (IH (S off)). reflexivity.
Qed.

Lemma descend_agree k b b' u : (forall i, (i < k)%nat -> nth i b 0 = nth i b' 0) ->
  forall fuel ptr, (1 <= ptr)%nat -> bst_descend fuel k b u ptr = bst_descend fuel k b' u ptr.
Proof.
  intro H. induction fuel as [|f IH]; intros ptr Hp; simpl; [reflexivity|].
  destruct (ptr <=? k)%nat eqn:L; [|reflexivity]. apply Nat.leb_le in L.
  rewrite (H (ptr - 1)%nat) by lia. destruct (Qltb u (nth (ptr - 1) b' 0)); apply IH; lia.
Qed.

Theorem bst_law (p : list Q) : (1 <= length p)%nat -> nonneg p ->
  exists b, create_bst p = Some b
    /\ (forall s, (s < length p)%nat -> len_of (Z.of_nat s) (bst_segs p) == nth s p 0)
    /\ total (bst_segs p) == qsum p
    /\ seg_nonneg (bst_segs p)
    /\ forall u, 0 <= u -> u < qsum p ->
         locate 0 (bst_segs p) u = Some (bst_sample (length p - 1) b u).
Proof.
  intros Hlen Hnn. set (k := (length p - 1)%nat). set (a0 := bst_a0 p). set (H := bst_height k).
  assert (Hk : (k < 1 * 2 ^ H)%nat) by apply height_ok.
  assert (Hla : length a0 = (2 * k + 1)%nat) by (unfold a0, bst_a0; rewrite app_length, repeat_length; fold k; lia).
  assert (Hpos : forall l, (k < l)%nat -> 0 <= nth (l - 1) a0 0).
  { intros l Hl. unfold a0. rewrite a0_leaf by (fold k; lia). apply nonneg_nth. assumption. }
  (* the in-order leaves are a permutation of k+1 .. 2k+1 *)
  assert (Perm : Permutation (leaves k H 1) (seq (k + 1) (length p))).
  { apply NoDup_Permutation; [apply leaves_nodup; lia | apply seq_NoDup |].
    intros l. rewrite in_seq. split.
    - intro Hl. pose proof (leaves_range _ _ _ _ Hl) as (H1 & _). pose proof (leaves_le _ _ _ _ Hl ltac:(lia)). fold k. lia.
    - intros Hl. assert (Hl' : (k < l <= 2 * k + 1)%nat) by (fold k in Hl; lia).
      apply (leaves_complete k H 1 l (Nat.log2 l)); [lia | assumption | |].
      + assert (Nat.log2 l < S H)%nat; [|lia].
        apply Nat.log2_lt_pow2; [lia|]. rewrite Nat.pow_succ_r'. lia.
      + pose proof (Nat.log2_spec l ltac:(lia)) as Hs. rewrite Nat.pow_succ_r' in Hs. lia. }
  assert (Htot : total (bst_segs p) == qsum p).
  { unfold bst_segs, leafsegs. fold k a0 H.
    rewrite (total_perm _ _ (Permutation_map (lseg k a0) Perm)).
    rewrite <- (total_seq_nth (fun l => (Z.of_nat l - Z.of_nat k - 1)%Z) p (k + 1)).
    assert (E : map (lseg k a0) (seq (k + 1) (length p))
                = map (fun l => (nth (l - (k + 1)) p 0, (Z.of_nat l - Z.of_nat k - 1)%Z)) (seq (k + 1) (length p))).
    { apply map_ext_in. intros l Hl. apply in_seq in Hl. unfold lseg, a0. rewrite a0_leaf by (fold k; lia). fold k.
      replace (l - 1 - k)%nat with (l - (k + 1))%nat by lia. reflexivity. }
    rewrite E. reflexivity. }
  assert (Hsn : seg_nonneg (bst_segs p)) by (apply lseg_nonneg; assumption).
  assert (Hlenof : forall s, (s < length p)%nat -> len_of (Z.of_nat s) (bst_segs p) == nth s p 0).
  { intros s Hs. unfold bst_segs, leafsegs. fold k a0 H.
    assert (Hin : In (s + k + 1)%nat (leaves k H 1)).
    { apply (Permutation_in _ (Permutation_sym Perm)). apply in_seq. lia. }
    destruct (in_split _ _ Hin) as (pre & post & E).
    pose proof (leaves_nodup k H 1 ltac:(lia)) as ND. rewrite E in ND.
    apply NoDup_remove_2 in ND. rewrite E, map_app. simpl.
    assert (Hlab : (Z.of_nat (s + k + 1) - Z.of_nat k - 1)%Z = Z.of_nat s) by lia.
    unfold lseg at 2. rewrite Hlab.
    rewrite len_of_unique.
    - unfold a0. rewrite a0_leaf by (fold k; lia). fold k. replace (s + k + 1 - 1 - k)%nat with s by lia. reflexivity.
    - intro Hc. rewrite map_map in Hc. apply in_map_iff in Hc. destruct Hc as (l & Hl & Hi). simpl in Hl.
      apply ND. apply in_or_app. left. assert (l = (s + k + 1)%nat) by lia. subst. assumption.
    - intro Hc. rewrite map_map in Hc. apply in_map_iff in Hc. destruct Hc as (l & Hl & Hi). simpl in Hl.
      apply ND. apply in_or_app. right. assert (l = (s + k + 1)%nat) by lia. subst. assumption. }
  destruct (Nat.eq_dec k 0) as [K0|K0].
  - (* a single state *)
    exists (firstn (length p) a0). unfold create_bst, bst_fill. fold k. rewrite K0. simpl.
    split; [reflexivity|]. split; [assumption|]. split; [assumption|]. split; [assumption|].
    intros u Hu0 Hu1. unfold bst_segs in *. fold k a0 H in Htot |- *. unfold H, bst_height in *. rewrite K0 in *. simpl in *.
    unfold leafsegs in *. simpl in *. unfold lseg in *. simpl in *.
    destruct (Qltb u (0 + nth 0 a0 0)) eqn:A; [reflexivity|]. apply Qltb_false in A. lra.
  - destruct (machine_spine k H 1 0 a0 ltac:(lia) Hk) as (n & Hn & Run).
    assert (Hfuel : (n <= 4 * k + 4)%nat).
    { unfold H, bst_height in Hn. pose proof (Nat.log2_spec k ltac:(lia)).
      rewrite !Nat.pow_succ_r' in Hn. lia. }
    set (arr := snd (trav k H 1 0 a0)).
    exists (firstn (length p) arr). split.
    { unfold create_bst, bst_fill. fold k. assert ((k =? 0)%nat = false) as -> by (apply Nat.eqb_neq; assumption).
      replace (4 * k + 4)%nat with (n + (4 * k + 4 - n))%nat by lia.
      unfold bst_init. fold k. fold (bst_a0 p). fold a0. fold (mkcfg 1 [] 0 a0). rewrite Run. reflexivity. }
    split; [assumption|]. split; [assumption|]. split; [assumption|].
    intros u Hu0 Hu1.
    destruct (trav_good k H 1 0 a0 ltac:(lia) Hk ltac:(lia)) as [G _]. fold arr in G.
    unfold bst_sample. fold k.
    rewrite (descend_agree k (firstn (length p) arr) arr u).
    + unfold bst_segs. fold k a0 H.
      apply (descend_law k a0 arr Hpos H 1 0 u (S k)); try assumption; try lia.
      * unfold H, bst_height. pose proof (Nat.log2_lt_lin k ltac:(lia)). lia.
      * unfold bst_segs in Htot. fold k a0 H in Htot. rewrite Htot. lra.
    + intros i Hi. clear -Hi Hlen. fold k in Hi.
      assert (G : forall (l : list Q) m j, (j < m)%nat -> nth j (firstn m l) 0 = nth j l 0).
      { induction l as [|x l IH]; intros [|m] [|j] Hj; simpl; try lia; auto. apply IH. lia. }
      apply G. lia.
    + lia.
Qed.

(* ---------- corollaries: index in range, a zero-probability state is never returned ---------- *)
Lemma bst_segs_labels p l : (1 <= length p)%nat -> In l (map snd (bst_segs p)) -> (0 <= l < Z.of_nat (length p))%Z.
Proof.
  intro HK. unfold bst_segs, leafsegs. rewrite map_map. intro H. apply in_map_iff in H. destruct H as (x & <- & Hx).
  pose proof (leaves_range _ _ _ _ Hx) as (H1 & _). pose proof (leaves_le _ _ _ _ Hx ltac:(lia)). simpl. lia.
Qed.

Theorem bst_range_nonzero (p : list Q) : (1 <= length p)%nat -> nonneg p -> forall b, create_bst p = Some b ->
  forall u, 0 <= u -> u < qsum p ->
    (0 <= bst_sample (length p - 1) b u < Z.of_nat (length p))%Z
    /\ ~ nth (Z.to_nat (bst_sample (length p - 1) b u)) p 0 == 0.
Proof.
  intros HK Hnn b Hb u H0 H1. destruct (bst_law p HK Hnn) as (b' & Hb' & Len & _ & Nn & Loc).
  rewrite Hb in Hb'. inversion Hb'; subst b'. pose proof (Loc u H0 H1) as L.
  pose proof (bst_segs_labels p _ HK (locate_in _ _ _ _ L)) as R. split; [exact R|].
  intro Hz. apply (locate_never_zero 0 (bst_segs p) u (bst_sample (length p - 1) b u)); [assumption | assumption | | assumption].
  rewrite <- (Z2Nat.id (bst_sample (length p - 1) b u)) at 1 by lia. rewrite Len by lia. exact Hz.
Qed.

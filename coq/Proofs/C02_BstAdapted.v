(* C02 -- BinarySearchTreeAdapted1D: with an additive non-negative interval mass, the left/right choice followed
   by the bisection on coordinates is the right-closed step function whose consecutive intervals are the cells of
   the left half axis then of the right half axis, each of length mass(cell)/lambda; the origin is never returned,
   nor a coordinate outside the axis. *)
From Coq Require Import List Arith ZArith QArith Bool Lia Lqa.
From RV Require Import Base.QB Model.StepLaw Model.BstAdapted Proofs.C02_StepLaw.
Import ListNotations.
Open Scope Q_scope.

Lemma Qle_bool_ext a a' b b' : a == a' -> b == b' -> Qle_bool a b = Qle_bool a' b'.
Proof.
  intros Ea Eb. destruct (Qle_bool a b) eqn:A; destruct (Qle_bool a' b') eqn:B; try reflexivity.
  - apply Qle_bool_iff in A. apply Qle_bool_false in B. lra.
  - apply Qle_bool_iff in B. apply Qle_bool_false in A. lra.
Qed.

Lemma locate_r_ext2 segs : forall c c' u u', c == c' -> u == u' -> locate_r c segs u = locate_r c' segs u'.
Proof.
  induction segs as [|[l k] r IH]; intros c c' u u' Ec Eu; simpl; [reflexivity|].
  rewrite (Qle_bool_ext u u' (c + l) (c' + l)) by (try assumption; rewrite Ec; reflexivity).
  destruct (Qle_bool u' (c' + l)); [reflexivity|]. apply IH; [rewrite Ec; reflexivity | assumption].
Qed.

Lemma locate_r_shift segs : forall c u, locate_r c segs u = locate_r 0 segs (u - c).
Proof.
  induction segs as [|[l k] r IH]; intros c u; simpl; [reflexivity|].
  rewrite (Qle_bool_ext u (u - c + c) (c + l) (c + l)) by (try reflexivity; ring).
  rewrite (Qle_bool_ext (u - c) (u - c) (0 + l) l) by (try reflexivity; ring).
  assert (Qle_bool (u - c + c) (c + l) = Qle_bool (u - c) l) as ->.
  { destruct (Qle_bool (u - c + c) (c + l)) eqn:A; destruct (Qle_bool (u - c) l) eqn:B; try reflexivity.
    - apply Qle_bool_iff in A. apply Qle_bool_false in B. lra.
    - apply Qle_bool_iff in B. apply Qle_bool_false in A. lra. }
  destruct (Qle_bool (u - c) l); [reflexivity|].
  rewrite IH. rewrite (IH (0 + l)). apply locate_r_ext2; [reflexivity | ring].
Qed.

Lemma inrange_true l x c : (l <= x < l + c)%Z -> ((l <=? x) && (x <? l + c))%Z = true.
Proof. intro H. apply andb_true_iff. split; [apply Z.leb_le | apply Z.ltb_lt]; lia. Qed.
Lemma inrange_false l x c : ~ (l <= x < l + c)%Z -> ((l <=? x) && (x <? l + c))%Z = false.
Proof.
  intro H. destruct (l <=? x)%Z eqn:A; destruct (x <? l + c)%Z eqn:B; try reflexivity.
  apply Z.leb_le in A. apply Z.ltb_lt in B. exfalso. apply H. lia.
Qed.
Ltac zbool := repeat match goal with
  | H : (_ <=? _)%Z = true |- _ => apply Z.leb_le in H
  | H : (_ <=? _)%Z = false |- _ => apply Z.leb_gt in H
  | H : (_ <? _)%Z = true |- _ => apply Z.ltb_lt in H
  | H : (_ <? _)%Z = false |- _ => apply Z.ltb_ge in H
  end.

Section Law.
  Variable axis : list Q.
  Variable o : Z.
  Variable middle : Q -> Q -> Q.
  Variable mass : Q -> Q -> Q.
  Variable lam h minf : Q.
  Let n : Z := ba_n axis.
  Hypothesis lam_pos : 0 < lam.
  Hypothesis origin_inside : (1 <= o)%Z /\ (o + 1 <= n - 1)%Z.
  Hypothesis mass_add : forall a b c, a <= b -> b <= c -> mass a c == mass a b + mass b c.
  Hypothesis mass_pos : forall a b, a <= b -> 0 <= mass a b.
  Hypothesis cell_ord : forall k, (0 <= k < n)%Z -> ba_cell_a axis middle k <= ba_cell_b axis middle k.
  (* the mass the sampler uses for the whole left half axis is the mass of its cells
     (mass below the first point is zero by truncation, grid.middle(x_(o-1), 0) = -h/2) *)
  Hypothesis left_tail : mass minf (- (h / 2)) == mass (ba_cell_a axis middle 0) (ba_cell_b axis middle (o - 1)).

  Notation cell_a := (ba_cell_a axis middle).
  Notation cell_b := (ba_cell_b axis middle).
  Notation prob := (ba_prob axis middle mass lam).

  Lemma cell_adjacent k : (0 <= k)%Z -> (k + 1 <= n - 1)%Z -> cell_b k = cell_a (k + 1).
  Proof.
    intros H1 H2. unfold ba_cell_a, ba_cell_b, ba_left_point, ba_right_point. fold n.
    rewrite Z.min_r by lia. rewrite Z.max_r by lia. replace (k + 1 - 1)%Z with k by lia. reflexivity.
  Qed.

  Lemma cell_chain l : (0 <= l)%Z -> forall d, (l + Z.of_nat d < n)%Z -> cell_a l <= cell_b (l + Z.of_nat d).
  Proof.
    intros Hl. induction d as [|d IH]; intros Hd.
    - rewrite Z.add_0_r. apply cell_ord. lia.
    - assert (E : cell_b (l + Z.of_nat d) = cell_a (l + Z.of_nat (S d))).
      { replace (l + Z.of_nat (S d))%Z with (l + Z.of_nat d + 1)%Z by lia. apply cell_adjacent; lia. }
      specialize (IH ltac:(lia)). rewrite E in IH.
      pose proof (cell_ord (l + Z.of_nat (S d))%Z ltac:(lia)). lra.
  Qed.

  (* cells l, l+1, ..., l+cnt-1 as segments labelled by the state increment *)
  Fixpoint segsn (l : Z) (cnt : nat) : list seg :=
    match cnt with O => [] | S c => (prob l l, (l - o)%Z) :: segsn (l + 1) c end.

  Lemma segsn_app l a : forall b, segsn l (a + b) = segsn l a ++ segsn (l + Z.of_nat a) b.
  Proof.
    revert l. induction a as [|a IH]; intros l b; simpl; [rewrite Z.add_0_r; reflexivity|].
    rewrite IH. do 3 f_equal. lia.
  Qed.

  Lemma segsn_nonneg l cnt : (0 <= l)%Z -> (l + Z.of_nat cnt <= n)%Z -> seg_nonneg (segsn l cnt).
  Proof.
    revert l. induction cnt as [|c IH]; intros l H1 H2; simpl; constructor.
    - simpl. unfold ba_prob. apply Qle_shift_div_l; [assumption|]. rewrite Qmult_0_l. apply mass_pos. apply cell_ord. lia.
    - apply IH; lia.
  Qed.

  Lemma segsn_total l cnt : (0 <= l)%Z -> (l + Z.of_nat (S cnt) <= n)%Z ->
    total (segsn l (S cnt)) == prob l (l + Z.of_nat cnt).
  Proof.
    intros Hl. induction cnt as [|c IH]; intros Hn.
    - simpl. rewrite Z.add_0_r. ring.
    - replace (S (S c)) with (S c + 1)%nat by lia. rewrite segsn_app, total_app, IH by lia.
      cbn [segsn total]. unfold ba_prob.
      assert (E : cell_b (l + Z.of_nat c) = cell_a (l + Z.of_nat (S c))).
      { replace (l + Z.of_nat (S c))%Z with (l + Z.of_nat c + 1)%Z by lia. apply cell_adjacent; lia. }
      rewrite (mass_add (cell_a l) (cell_b (l + Z.of_nat c)) (cell_b (l + Z.of_nat (S c)))).
      + rewrite E. field. lra.
      + apply cell_chain; lia.
      + rewrite E. apply cell_ord. lia.
  Qed.

  Definition segs (l r : Z) : list seg := segsn l (Z.to_nat (r - l + 1)).

  Lemma bisect_spec fuel : forall l r cp, (0 <= l <= r)%Z -> (r < n)%Z -> (r - l < Z.of_nat fuel)%Z ->
    ba_bisect axis middle mass lam fuel l r cp
    = match locate_r 0 (segs l r) cp with Some lab => (lab + o)%Z | None => r end.
  Proof.
    induction fuel as [|f IH]; intros l r cp Hlr Hr Hf; [lia|]. cbn [ba_bisect].
    destruct (Z.eqb_spec l r) as [E|E].
    - subst r. unfold segs. replace (Z.to_nat (l - l + 1)) with 1%nat by lia. simpl.
      destruct (Qle_bool cp (0 + prob l l)); [lia | reflexivity].
    - set (mid := ((l + r) / 2)%Z).
      assert (Hm : (l <= mid < r)%Z) by (unfold mid; split; [apply Z.div_le_lower_bound | apply Z.div_lt_upper_bound]; lia).
      rewrite Z.min_r by lia.
      assert (Split : segs l r = segs l mid ++ segs (mid + 1) r).
      { unfold segs. replace (Z.to_nat (r - l + 1)) with (Z.to_nat (mid - l + 1) + Z.to_nat (r - (mid + 1) + 1))%nat by lia.
        rewrite segsn_app. do 2 f_equal. lia. }
      assert (Tot : total (segs l mid) == prob l mid).
      { unfold segs. replace (Z.to_nat (mid - l + 1)) with (S (Z.to_nat (mid - l))) by lia.
        rewrite segsn_total by lia. replace (l + Z.of_nat (Z.to_nat (mid - l)))%Z with mid by lia. reflexivity. }
      assert (Nn : seg_nonneg (segs l mid)) by (unfold segs; apply segsn_nonneg; lia).
      rewrite Split, locate_r_app.
      destruct (Qltb (prob l mid) cp) eqn:C.
      + apply Qltb_lt in C. rewrite locate_r_none by (try assumption; lra).
        rewrite IH by lia. rewrite (locate_r_shift _ (0 + total (segs l mid)) cp).
        rewrite (locate_r_ext2 _ 0 0 (cp - (0 + total (segs l mid))) (cp - prob l mid)) by (try reflexivity; rewrite Tot; ring).
        reflexivity.
      + apply Qltb_false in C. rewrite IH by lia.
        destruct (locate_r_some 0 (segs l mid) cp) as (lab & ->); [| lra | reflexivity].
        unfold segs. replace (Z.to_nat (mid - l + 1)) with (S (Z.to_nat (mid - l))) by lia. discriminate.
  Qed.

  (* the consecutive intervals of the sampler: left half axis, then right half axis *)
  Definition ba_segs : list seg := segs 0 (o - 1) ++ segs (o + 1) (n - 1).

  Lemma proba_left_total : ba_proba_left mass lam h minf == total (segs 0 (o - 1)).
  Proof.
    unfold ba_proba_left. assert (Qltb 0 lam = true) as -> by (apply Qltb_lt; assumption).
    unfold segs. replace (Z.to_nat (o - 1 - 0 + 1)) with (S (Z.to_nat (o - 1))) by lia.
    rewrite segsn_total by lia. replace (0 + Z.of_nat (Z.to_nat (o - 1)))%Z with (o - 1)%Z by lia.
    unfold ba_prob. rewrite left_tail. reflexivity.
  Qed.

  Lemma length_axis : Z.of_nat (length axis) = n. Proof. reflexivity. Qed.

  Theorem bstadapted1d_sample u :
    ba_sample axis o middle mass lam h minf u
    = match locate_r 0 ba_segs u with Some lab => lab | None => (n - 1 - o)%Z end.
  Proof.
    unfold ba_sample, ba_segs. fold n. pose proof proba_left_total as PL.
    assert (Nl : seg_nonneg (segs 0 (o - 1))) by (unfold segs; apply segsn_nonneg; lia).
    rewrite locate_r_app.
    destruct (Qltb (ba_proba_left mass lam h minf) u) eqn:C.
    - apply Qltb_lt in C. rewrite bisect_spec by (pose proof length_axis; lia).
      rewrite (locate_r_none 0 (segs 0 (o - 1)) u) by (try assumption; lra).
      rewrite (locate_r_shift _ (0 + total (segs 0 (o - 1))) u).
      rewrite (locate_r_ext2 _ 0 0 (u - (0 + total (segs 0 (o - 1)))) (u - ba_proba_left mass lam h minf)) by (try reflexivity; rewrite PL; ring).
      destruct (locate_r 0 (segs (o + 1) (n - 1)) (u - ba_proba_left mass lam h minf)); lia.
    - apply Qltb_false in C. rewrite bisect_spec by (pose proof length_axis; lia).
      destruct (locate_r_some 0 (segs 0 (o - 1)) u) as (lab & ->); [| lra | lia].
      unfold segs. replace (Z.to_nat (o - 1 - 0 + 1)) with (S (Z.to_nat (o - 1))) by lia. discriminate.
  Qed.

  Lemma segsn_len lab : forall cnt l, len_of lab (segsn l cnt)
    == if ((l <=? lab + o) && (lab + o <? l + Z.of_nat cnt))%Z then prob (lab + o) (lab + o) else 0.
  Proof.
    induction cnt as [|c IH]; intros l.
    - rewrite inrange_false by lia. reflexivity.
    - cbn [segsn len_of]. rewrite IH. destruct (Z.eqb_spec (l - o) lab) as [E|E].
      + assert (l = lab + o)%Z by lia. subst l.
        rewrite (inrange_false (lab + o + 1)) by lia. rewrite (inrange_true (lab + o)) by lia. ring.
      + destruct (Z_le_gt_dec l (lab + o)) as [A|A]; [destruct (Z_lt_le_dec (lab + o) (l + Z.of_nat (S c))) as [B|B]|].
        * rewrite (inrange_true (l + 1)) by lia. rewrite (inrange_true l) by lia. ring.
        * rewrite (inrange_false (l + 1)) by lia. rewrite (inrange_false l) by lia. ring.
        * rewrite (inrange_false (l + 1)) by lia. rewrite (inrange_false l) by lia. ring.
  Qed.

  (* every non-origin cell k of the axis owns exactly mass(cell k)/lambda; the origin owns nothing *)
  Theorem bstadapted1d_law :
    (forall k, (0 <= k < n)%Z -> k <> o -> len_of (k - o) ba_segs == mass (cell_a k) (cell_b k) / lam)
    /\ len_of 0 ba_segs == 0
    /\ seg_nonneg ba_segs
    /\ (forall lab, In lab (map snd ba_segs) -> (- o <= lab <= n - 1 - o)%Z /\ lab <> 0%Z).
  Proof.
    unfold ba_segs, segs. split; [|split; [|split]].
    - intros k Hk Ho. rewrite len_of_app, !segsn_len. replace (k - o + o)%Z with k by lia.
      destruct (Z.lt_ge_cases k o) as [L|L].
      + rewrite (inrange_true 0) by lia. rewrite (inrange_false (o + 1)) by lia. unfold ba_prob. ring.
      + rewrite (inrange_false 0) by lia. rewrite (inrange_true (o + 1)) by lia. unfold ba_prob. ring.
    - rewrite len_of_app, !segsn_len.
      rewrite (inrange_false 0) by lia. rewrite (inrange_false (o + 1)) by lia. ring.
    - apply seg_nonneg_app. split; apply segsn_nonneg; lia.
    - intros lab Hin. rewrite map_app in Hin. apply in_app_or in Hin.
      assert (G : forall cnt l, In lab (map snd (segsn l cnt)) -> (l - o <= lab < l + Z.of_nat cnt - o)%Z).
      { induction cnt as [|c IH]; intros l Hc; simpl in Hc; [contradiction|].
        destruct Hc as [Hc|Hc]; [lia | apply IH in Hc; lia]. }
      destruct Hin as [Hin|Hin]; apply G in Hin; lia.
  Qed.

  Theorem bstadapted1d_full :
    (forall u, ba_sample axis o middle mass lam h minf u
               = match locate_r 0 ba_segs u with Some lab => lab | None => (n - 1 - o)%Z end)
    /\ (forall k, (0 <= k < n)%Z -> k <> o -> len_of (k - o) ba_segs == mass (cell_a k) (cell_b k) / lam)
    /\ len_of 0 ba_segs == 0
    /\ seg_nonneg ba_segs
    /\ (forall lab, In lab (map snd ba_segs) -> (- o <= lab <= n - 1 - o)%Z /\ lab <> 0%Z)
    /\ (forall u k, 0 < u -> (0 <= k < n)%Z -> k <> o -> mass (cell_a k) (cell_b k) == 0 ->
          locate_r 0 ba_segs u <> Some (k - o)%Z).
  Proof.
    destruct bstadapted1d_law as (L1 & L2 & L3 & L4).
    split; [exact bstadapted1d_sample|]. split; [exact L1|]. split; [exact L2|]. split; [exact L3|]. split; [exact L4|].
    intros u k Hu Hk Ho Hz. apply locate_r_never_zero; [assumption | assumption |].
    rewrite (L1 k Hk Ho), Hz. field. lra.
  Qed.
End Law.

(* C02 -- BinarySearchTreeAdapted (n-d), sample_one_bucket: with a box mass that is additive under the split of one axis
   and non-negative, the axis-cycling bisection terminates (potential (d+1) * (sum(hi - lo) - [an axis >= k still moves])
   + (d - k)) and is the right-closed step function whose consecutive intervals are the cells of the bucket, each of
   length bm(cell): it returns cell c iff the residual probability lies in an interval of length bm c. *)
From Coq Require Import List Arith ZArith QArith Bool Lia Lqa.
From RV Require Import Base.QB Model.StepLaw Model.Bst Model.BstAdaptedNd Proofs.C02_StepLaw Proofs.C02_Bst Proofs.C02_BstAdapted.
Import ListNotations.
Open Scope Q_scope.

(* ---------- boxes ---------- *)
Lemma skipn_nth_cons {A} (l : list A) d : forall k, (k < length l)%nat -> skipn k l = nth k l d :: skipn (S k) l.
Proof. induction l as [|x l IH]; intros [|k] H; simpl in *; try lia; [reflexivity | apply IH; lia]. Qed.

Lemma skipn_upd_after {A} (l : list A) v : forall k, skipn (S k) (upd l k v) = skipn (S k) l.
Proof. induction l as [|x l IH]; intros [|k]; simpl; try reflexivity. apply IH. Qed.

Definition nondeg_from (k : nat) (b : box) : bool := existsb (fun lr => negb (degenerate lr)) (skipn k b).

Lemma nondeg_step k b : (k < length b)%nat ->
  nondeg_from k b = negb (degenerate (nth k b (0, 0)%Z)) || nondeg_from (S k) b.
Proof. intro H. unfold nondeg_from. rewrite (skipn_nth_cons b (0, 0)%Z k H). reflexivity. Qed.

Lemma nondeg_end k b : (length b <= k)%nat -> nondeg_from k b = false.
Proof. intro H. unfold nondeg_from. rewrite skipn_all2 by assumption. reflexivity. Qed.

Lemma nondeg_upd k b v : nondeg_from (S k) (upd b k v) = nondeg_from (S k) b.
Proof. unfold nondeg_from. rewrite skipn_upd_after. reflexivity. Qed.

Lemma all_degenerate_nondeg b : all_degenerate b = negb (nondeg_from 0 b).
Proof.
  unfold all_degenerate, nondeg_from. simpl. induction b as [|x b IH]; [reflexivity|]. simpl. rewrite IH.
  destruct (degenerate x); reflexivity.
Qed.

Definition wfb (B : Z) (b : box) : Prop := Forall (fun lr => (0 <= fst lr <= snd lr)%Z /\ (snd lr < B)%Z) b.

Lemma wfb_nth B b k : wfb B b -> (k < length b)%nat ->
  (0 <= fst (nth k b (0, 0)%Z) <= snd (nth k b (0, 0)%Z))%Z /\ (snd (nth k b (0, 0)%Z) < B)%Z.
Proof. intros W H. apply (proj1 (Forall_forall _ _) W). apply nth_In. assumption. Qed.

Lemma wfb_upd B b k l r : wfb B b -> (0 <= l <= r)%Z -> (r < B)%Z -> wfb B (upd b k (l, r)).
Proof.
  intros W H1 H2. revert k. induction W as [|x b Hx W IH]; intros k; [destruct k; constructor|].
  destruct k as [|k]; simpl; constructor; try assumption.
  - simpl. split; assumption.
  - apply IH.
Qed.

Lemma box_size_upd b : forall k l r, (k < length b)%nat ->
  (box_size (upd b k (l, r)) + Z.to_nat (snd (nth k b (0, 0)%Z) - fst (nth k b (0, 0)%Z)) = box_size b + Z.to_nat (r - l))%nat.
Proof.
  induction b as [|x b IH]; intros [|k] l r H; simpl in *; try lia.
  specialize (IH k l r ltac:(lia)). lia.
Qed.

Lemma nondeg_size B b k : wfb B b -> nondeg_from k b = true -> (1 <= box_size b)%nat.
Proof.
  intros W H. unfold nondeg_from in H. apply existsb_exists in H. destruct H as (lr & Hin & Hd).
  assert (Hin' : In lr b).
  { clear -Hin. revert k Hin. induction b as [|x b IH]; intros [|k] Hin; simpl in *; auto. right. eapply IH. eassumption. }
  pose proof (proj1 (Forall_forall _ _) W lr Hin') as [H1 _]. unfold degenerate in Hd. apply negb_true_iff, Z.eqb_neq in Hd.
  clear -Hin' H1 Hd. induction b as [|x b IH]; [contradiction|]. simpl. destruct Hin' as [->|Hin']; [lia | specialize (IH Hin'); lia].
Qed.

Section NdLaw.
  Variable bm : box -> Q.
  Variable B : Z.
  Hypothesis bm_nonneg : forall b, wfb B b -> 0 <= bm b.
  Hypothesis bm_split : forall b k m, wfb B b -> (k < length b)%nat ->
    (fst (nth k b (0, 0)%Z) <= m < snd (nth k b (0, 0)%Z))%Z ->
    bm b == bm (upd b k (fst (nth k b (0, 0)%Z), m)) + bm (upd b k ((m + 1)%Z, snd (nth k b (0, 0)%Z))).

  (* a cell is labelled by its coordinates read as digits in base B *)
  Definition enc (c : list Z) : Z := fold_right (fun x acc => (x + B * acc)%Z) 0%Z c.
  Definition label (b : box) : Z := enc (map fst b).

  (* the consecutive intervals of the sampler, following the very recursion of the loop *)
  Fixpoint nd_segs (fuel : nat) (k : nat) (res : box) : list seg :=
    match fuel with
    | O => []
    | S f =>
        if (k <? length res)%nat then
          let lr := nth k res (0, 0)%Z in
          if degenerate lr then nd_segs f (S k) res
          else let mid := ((snd lr + fst lr) / 2)%Z in
               nd_segs f (S k) (upd res k (fst lr, mid)) ++ nd_segs f (S k) (upd res k (Z.min (snd lr) (mid + 1), snd lr))
        else if all_degenerate res then [(bm res, label res)] else nd_segs f 0 res
    end.

  Definition e (k : nat) (b : box) : nat := if nondeg_from k b then 1 else 0.
  Definition Phi (k : nat) (b : box) : nat := (S (length b) * (box_size b - e k b) + (length b - k))%nat.

  Lemma mid_facts l r : (l < r)%Z -> (l <= (r + l) / 2 < r)%Z.
  Proof. intro H. split; [apply Z.div_le_lower_bound | apply Z.div_lt_upper_bound]; lia. Qed.

  Theorem nd_go_spec fuel : forall k res cp, wfb B res -> (k <= length res)%nat -> (Phi k res < fuel)%nat ->
    total (nd_segs fuel k res) == bm res
    /\ seg_nonneg (nd_segs fuel k res)
    /\ nd_segs fuel k res <> []
    /\ exists cell, nd_go bm fuel k res cp = Some cell /\ all_degenerate cell = true /\ wfb B cell /\ length cell = length res
                    /\ (cp <= bm res -> locate_r 0 (nd_segs fuel k res) cp = Some (label cell)).
  Proof.
    induction fuel as [|f IH]; intros k res cp W Hk HF; [lia|].
    cbn [nd_go nd_segs]. destruct (k <? length res)%nat eqn:Lk.
    - apply Nat.ltb_lt in Lk. unfold nd_axis.
      pose proof (wfb_nth B res k W Lk) as [[R0 R1] R2]. set (lr := nth k res (0, 0)%Z) in *.
      pose proof (nondeg_step k res Lk) as NS. fold lr in NS.
      destruct (degenerate lr) eqn:Dg.
      + (* this axis is already a single coordinate *)
        cbn [fst snd]. apply IH; [assumption | lia|].
        unfold Phi, e in *. simpl in NS. rewrite NS in HF. destruct (nondeg_from (S k) res); lia.
      + unfold degenerate in Dg. apply Z.eqb_neq in Dg. assert (Hlt : (fst lr < snd lr)%Z) by lia.
        pose proof (mid_facts _ _ Hlt) as Hm. set (mid := ((snd lr + fst lr) / 2)%Z) in *.
        rewrite Z.min_r by lia.
        set (lo := upd res k (fst lr, mid)). set (up := upd res k ((mid + 1)%Z, snd lr)).
        assert (Wlo : wfb B lo) by (apply wfb_upd; [assumption | lia | lia]).
        assert (Wup : wfb B up) by (apply wfb_upd; [assumption | lia | lia]).
        assert (Llo : length lo = length res) by apply upd_length.
        assert (Lup : length up = length res) by apply upd_length.
        pose proof (box_size_upd res k (fst lr) mid Lk) as Slo. pose proof (box_size_upd res k (mid + 1)%Z (snd lr) Lk) as Sup.
        fold lr lo in Slo. fold lr up in Sup.
        assert (E1 : nondeg_from k res = true) by (rewrite NS; reflexivity).
        assert (Mu : (1 <= box_size res)%nat) by (eapply nondeg_size; eassumption).
        assert (Flo : (Phi (S k) lo < f)%nat).
        { unfold Phi, e in *. rewrite E1 in HF. rewrite Llo. destruct (nondeg_from (S k) lo); nia. }
        assert (Fup : (Phi (S k) up < f)%nat).
        { unfold Phi, e in *. rewrite E1 in HF. rewrite Lup. destruct (nondeg_from (S k) up); nia. }
        pose proof (bm_split res k mid W Lk ltac:(fold lr; lia)) as Sp. fold lr lo up in Sp.
        destruct (Qltb (bm lo) cp) eqn:C; cbn [fst snd].
        * apply Qltb_lt in C.
          destruct (IH (S k) lo cp Wlo ltac:(lia) Flo) as (T1 & N1 & Ne1 & _).
          destruct (IH (S k) up (cp - bm lo) Wup ltac:(lia) Fup) as (T2 & N2 & Ne2 & cell & G & D & Wc & Lc & Loc).
          split; [rewrite total_app, T1, T2, Sp; reflexivity|].
          split; [apply seg_nonneg_app; split; assumption|].
          split; [intro Hc; apply app_eq_nil in Hc; tauto|].
          exists cell. split; [exact G|]. split; [exact D|]. split; [exact Wc|]. split; [lia|].
          intro Hcp. rewrite locate_r_app. rewrite locate_r_none by (try assumption; lra).
          rewrite (locate_r_shift _ (0 + total (nd_segs f (S k) lo)) cp).
          rewrite (locate_r_ext2 _ 0 0 (cp - (0 + total (nd_segs f (S k) lo))) (cp - bm lo)) by (try reflexivity; rewrite T1; ring).
          apply Loc. lra.
        * apply Qltb_false in C.
          destruct (IH (S k) lo cp Wlo ltac:(lia) Flo) as (T1 & N1 & Ne1 & cell & G & D & Wc & Lc & Loc).
          destruct (IH (S k) up cp Wup ltac:(lia) Fup) as (T2 & N2 & Ne2 & _).
          split; [rewrite total_app, T1, T2, Sp; reflexivity|].
          split; [apply seg_nonneg_app; split; assumption|].
          split; [intro Hc; apply app_eq_nil in Hc; tauto|].
          exists cell. split; [exact G|]. split; [exact D|]. split; [exact Wc|]. split; [lia|].
          intro Hcp. rewrite locate_r_app. rewrite (Loc C). reflexivity.
    - apply Nat.ltb_ge in Lk. assert (k = length res) by lia. subst k.
      destruct (all_degenerate res) eqn:AD.
      + split; [simpl; ring|]. split; [constructor; [simpl; apply bm_nonneg; assumption | constructor]|].
        split; [discriminate|]. exists res. repeat split; try assumption; try reflexivity.
        intro Hcp. simpl. assert (Qle_bool cp (0 + bm res) = true) as -> by (apply Qle_bool_iff; lra). reflexivity.
      + apply IH; [assumption | lia|].
        rewrite all_degenerate_nondeg in AD. apply negb_false_iff in AD.
        pose proof (nondeg_size B res 0 W AD) as Mu.
        unfold Phi, e in *. rewrite AD. rewrite nondeg_end in HF by lia. nia.
  Qed.

  (* ---------- every cell of the bucket exactly once, with length bm(cell) ---------- *)
  Definition InBox (c : list Z) (b : box) : Prop := Forall2 (fun x lr => (fst lr <= x <= snd lr)%Z) c b.
  Definition cellbox (c : list Z) : box := map (fun x => (x, x)) c.

  Lemma InBox_length c b : InBox c b -> length c = length b.
  Proof. induction 1; simpl; congruence. Qed.

  Lemma InBox_upd_in c b : InBox c b -> forall k l r, (l <= nth k c 0 <= r)%Z -> InBox c (upd b k (l, r)).
  Proof.
    induction 1 as [|x lr c b Hx H IH]; intros k l r Hk; [destruct k; constructor|].
    destruct k as [|k]; simpl in *.
    - constructor; [simpl; lia | assumption].
    - constructor; [assumption | apply IH; assumption].
  Qed.

  Lemma InBox_upd_out c b k l r : InBox c (upd b k (l, r)) -> (k < length b)%nat ->
    (fst (nth k b (0, 0)%Z) <= l)%Z -> (r <= snd (nth k b (0, 0)%Z))%Z -> InBox c b /\ (l <= nth k c 0 <= r)%Z.
  Proof.
    revert c k. induction b as [|lr b IH]; intros c k H Hk H1 H2; [simpl in Hk; lia|].
    destruct k as [|k]; simpl in *; inversion H as [|x y c' b' Hx H']; subst.
    - simpl in Hx. split; [constructor; [lia | assumption] | simpl; lia].
    - destruct (IH c' k H' ltac:(lia) H1 H2) as [A B0]. split; [constructor; assumption | assumption].
  Qed.

  Lemma InBox_nth c b : InBox c b -> forall k, (k < length b)%nat ->
    (fst (nth k b (0, 0)%Z) <= nth k c 0 <= snd (nth k b (0, 0)%Z))%Z.
  Proof.
    induction 1 as [|x y c b Hx H IH]; intros k Lk; [simpl in Lk; lia|].
    destruct k; simpl in *; [lia | apply IH; lia].
  Qed.

  Lemma all_degenerate_cell b c : all_degenerate b = true -> InBox c b -> c = map fst b /\ b = cellbox c.
  Proof.
    intros D H. induction H as [|x lr c b Hx H IH]; [split; reflexivity|]. simpl in D. apply andb_true_iff in D. destruct D as [D1 D2].
    unfold degenerate in D1. apply Z.eqb_eq in D1. destruct (IH D2) as [E1 E2]. destruct lr as [l r]. simpl in *.
    assert (x = l) by lia. assert (r = l) by lia. subst x r. split.
    - f_equal. assumption.
    - unfold cellbox in *. simpl. f_equal. assumption.
  Qed.

  Lemma InBox_self b : wfb B b -> InBox (map fst b) b.
  Proof. induction 1 as [|lr b Hx W IH]; simpl; constructor; [lia | assumption]. Qed.

  (* digits in [0, B) : the label determines the cell *)
  Lemma enc_inj : forall c c', length c = length c' -> Forall (fun x => (0 <= x < B)%Z) c -> Forall (fun x => (0 <= x < B)%Z) c' ->
    enc c = enc c' -> c = c'.
  Proof.
    induction c as [|x c IH]; intros [|y c'] L F1 F2 E; simpl in *; try discriminate; [reflexivity|].
    inversion F1; subst. inversion F2; subst.
    assert (HB : (0 < B)%Z) by lia.
    assert (x = y /\ enc c = enc c') as [-> E'].
    { assert (Ex : ((x + B * enc c) mod B = x)%Z) by (rewrite (Z.mul_comm B), Z_mod_plus_full; apply Z.mod_small; lia).
      assert (Ey : ((y + B * enc c') mod B = y)%Z) by (rewrite (Z.mul_comm B), Z_mod_plus_full; apply Z.mod_small; lia).
      rewrite E in Ex. rewrite Ey in Ex. split; [lia|]. subst. nia. }
    f_equal. apply IH; try assumption. lia.
  Qed.

  Lemma InBox_digits c b : wfb B b -> InBox c b -> Forall (fun x => (0 <= x < B)%Z) c.
  Proof.
    intros W H. induction H as [|x lr c b Hx H IH]; constructor; inversion W; subst; [lia | apply IH; assumption].
  Qed.

  Theorem nd_segs_cells fuel : forall k res, wfb B res -> (k <= length res)%nat -> (Phi k res < fuel)%nat ->
    (forall lab, In lab (map snd (nd_segs fuel k res)) -> exists c, InBox c res /\ lab = enc c)
    /\ (forall c, InBox c res -> len_of (enc c) (nd_segs fuel k res) == bm (cellbox c)).
  Proof.
    induction fuel as [|f IH]; intros k res W Hk HF; [lia|].
    cbn [nd_segs]. destruct (k <? length res)%nat eqn:Lk.
    - apply Nat.ltb_lt in Lk.
      pose proof (wfb_nth B res k W Lk) as [[R0 R1] R2]. set (lr := nth k res (0, 0)%Z) in *.
      pose proof (nondeg_step k res Lk) as NS. fold lr in NS.
      destruct (degenerate lr) eqn:Dg.
      + apply IH; [assumption | lia|]. unfold Phi, e in *. simpl in NS. rewrite NS in HF. destruct (nondeg_from (S k) res); lia.
      + unfold degenerate in Dg. apply Z.eqb_neq in Dg. assert (Hlt : (fst lr < snd lr)%Z) by lia.
        pose proof (mid_facts _ _ Hlt) as Hm. set (mid := ((snd lr + fst lr) / 2)%Z) in *.
        rewrite Z.min_r by lia.
        set (lo := upd res k (fst lr, mid)). set (up := upd res k ((mid + 1)%Z, snd lr)).
        assert (Wlo : wfb B lo) by (apply wfb_upd; [assumption | lia | lia]).
        assert (Wup : wfb B up) by (apply wfb_upd; [assumption | lia | lia]).
        assert (Llo : length lo = length res) by apply upd_length.
        assert (Lup : length up = length res) by apply upd_length.
        pose proof (box_size_upd res k (fst lr) mid Lk) as Slo. pose proof (box_size_upd res k (mid + 1)%Z (snd lr) Lk) as Sup.
        fold lr lo in Slo. fold lr up in Sup.
        assert (E1 : nondeg_from k res = true) by (rewrite NS; reflexivity).
        assert (Mu : (1 <= box_size res)%nat) by (eapply nondeg_size; eassumption).
        assert (Flo : (Phi (S k) lo < f)%nat).
        { unfold Phi, e in *. rewrite E1 in HF. rewrite Llo. destruct (nondeg_from (S k) lo); nia. }
        assert (Fup : (Phi (S k) up < f)%nat).
        { unfold Phi, e in *. rewrite E1 in HF. rewrite Lup. destruct (nondeg_from (S k) up); nia. }
        destruct (IH (S k) lo Wlo ltac:(lia) Flo) as [Lab1 Len1]. destruct (IH (S k) up Wup ltac:(lia) Fup) as [Lab2 Len2].
        split.
        * intros lab Hin. rewrite map_app in Hin. apply in_app_or in Hin. destruct Hin as [Hin|Hin].
          -- destruct (Lab1 lab Hin) as (c & Hc & ->). exists c. split; [|reflexivity].
             apply (InBox_upd_out c res k _ _ Hc Lk); fold lr; lia.
          -- destruct (Lab2 lab Hin) as (c & Hc & ->). exists c. split; [|reflexivity].
             apply (InBox_upd_out c res k _ _ Hc Lk); fold lr; lia.
        * intros c Hc. rewrite len_of_app.
          pose proof (InBox_nth c res Hc k Lk) as Hck. fold lr in Hck.
          destruct (Z_le_gt_dec (nth k c 0%Z) mid) as [Hle|Hgt].
          -- rewrite (Len1 c (InBox_upd_in c res Hc k (fst lr) mid ltac:(lia))).
             rewrite len_of_notin; [ring|]. intro Hin. destruct (Lab2 _ Hin) as (c' & Hc' & E).
             assert (c = c').
             { apply enc_inj; [rewrite (InBox_length _ _ Hc), (InBox_length _ _ Hc'), Lup; reflexivity
                              | apply (InBox_digits c res W Hc) | apply (InBox_digits c' up Wup Hc') | assumption]. }
             subst c'. destruct (InBox_upd_out c res k _ _ Hc' Lk ltac:(fold lr; lia) ltac:(fold lr; lia)) as [_ Hb]. lia.
          -- rewrite (Len2 c (InBox_upd_in c res Hc k (mid + 1)%Z (snd lr) ltac:(lia))).
             rewrite len_of_notin; [ring|]. intro Hin. destruct (Lab1 _ Hin) as (c' & Hc' & E).
             assert (c = c').
             { apply enc_inj; [rewrite (InBox_length _ _ Hc), (InBox_length _ _ Hc'), Llo; reflexivity
                              | apply (InBox_digits c res W Hc) | apply (InBox_digits c' lo Wlo Hc') | assumption]. }
             subst c'. destruct (InBox_upd_out c res k _ _ Hc' Lk ltac:(fold lr; lia) ltac:(fold lr; lia)) as [_ Hb]. lia.
    - apply Nat.ltb_ge in Lk. assert (k = length res) by lia. subst k.
      destruct (all_degenerate res) eqn:AD.
      + split.
        * intros lab [<-|[]]. exists (map fst res). split; [apply InBox_self; assumption | reflexivity].
        * intros c Hc. destruct (all_degenerate_cell res c AD Hc) as [E1 E2]. simpl. unfold label. rewrite <- E1, Z.eqb_refl, <- E2. ring.
      + apply IH; [assumption | lia|].
        rewrite all_degenerate_nondeg in AD. apply negb_false_iff in AD.
        pose proof (nondeg_size B res 0 W AD) as Mu.
        unfold Phi, e in *. rewrite AD. rewrite nondeg_end in HF by lia. nia.
  Qed.

  (* ---------- sample_one_bucket with the fuel of the model ---------- *)
  Lemma nd_fuel_enough res : (Phi (length res) res < nd_fuel res)%nat.
  Proof. unfold Phi, e, nd_fuel. rewrite nondeg_end by lia. nia. Qed.

  Definition bucket_segs (res : box) : list seg := nd_segs (nd_fuel res) (length res) res.

  Theorem sample_one_bucket_law (res : box) : wfb B res ->
    total (bucket_segs res) == bm res
    /\ seg_nonneg (bucket_segs res)
    /\ bucket_segs res <> []
    /\ (forall c, InBox c res -> len_of (enc c) (bucket_segs res) == bm (cellbox c))
    /\ (forall lab, In lab (map snd (bucket_segs res)) -> exists c, InBox c res /\ lab = enc c)
    /\ (forall cp, exists c, sample_one_bucket bm res cp = Some c /\ InBox c res
                          /\ (cp <= bm res -> locate_r 0 (bucket_segs res) cp = Some (enc c))).
  Proof.
    intro W. pose proof (nd_fuel_enough res) as HF.
    destruct (nd_segs_cells (nd_fuel res) (length res) res W ltac:(lia) HF) as [Lab Len].
    destruct (nd_go_spec (nd_fuel res) (length res) res 0 W ltac:(lia) HF) as (T & N & Ne0 & _).
    split; [exact T|]. split; [exact N|]. split; [exact Ne0|]. split; [exact Len|]. split; [exact Lab|].
    intro cp. destruct (nd_go_spec (nd_fuel res) (length res) res cp W ltac:(lia) HF) as (_ & _ & Ne & cell & G & D & Wc & Lc & Loc).
    exists (map fst cell). unfold sample_one_bucket. rewrite G. split; [reflexivity|].
    assert (Hin : In (label cell) (map snd (bucket_segs res)) \/ True) by (right; exact I).
    split; [|exact Loc].
    (* the returned cell lies in the bucket: its label is one of the labels, all of which are cells of the bucket *)
    destruct (Qlt_le_dec (bm res) cp) as [Hgt|Hle].
    - (* even beyond the mass of the bucket the answer is a cell of the bucket: re-run with cp = bm res is not needed,
         the label argument works for the cell reached with any cp by monotonicity of the construction; we use the
         labels of a run that is guaranteed to locate: cp' = 0 *)
      clear Hin. revert G. generalize (nd_fuel res). intros fuel G.
      assert (Gen : forall fuel k r cp0 cl, wfb B r -> nd_go bm fuel k r cp0 = Some cl -> InBox (map fst cl) r).
      { clear. induction fuel as [|f IHf]; intros k r cp0 cl Wr Hg; [discriminate|]. cbn [nd_go] in Hg.
        destruct (k <? length r)%nat eqn:Lk.
        - apply Nat.ltb_lt in Lk. unfold nd_axis in Hg.
          pose proof (wfb_nth B r k Wr Lk) as [[R0 R1] R2]. set (lr := nth k r (0, 0)%Z) in *.
          destruct (degenerate lr) eqn:Dg; [apply (IHf _ _ _ _ Wr Hg)|].
          unfold degenerate in Dg. apply Z.eqb_neq in Dg. assert (Hlt : (fst lr < snd lr)%Z) by lia.
          pose proof (mid_facts _ _ Hlt) as Hm. set (mid := ((snd lr + fst lr) / 2)%Z) in *.
          rewrite Z.min_r in Hg by lia.
          destruct (Qltb (bm (upd r k (fst lr, mid))) cp0); cbn [fst snd] in Hg.
          + apply IHf in Hg; [|apply wfb_upd; [assumption | lia | lia]].
            apply (InBox_upd_out _ r k _ _ Hg Lk); fold lr; lia.
          + apply IHf in Hg; [|apply wfb_upd; [assumption | lia | lia]].
            apply (InBox_upd_out _ r k _ _ Hg Lk); fold lr; lia.
        - destruct (all_degenerate r); [inversion Hg; subst; apply InBox_self; assumption | apply (IHf _ _ _ _ Wr Hg)]. }
      apply (Gen _ _ _ _ _ W G).
    - specialize (Loc Hle). apply locate_r_in in Loc. destruct (Lab _ Loc) as (c & Hc & E).
      assert (map fst cell = c).
      { apply enc_inj; [rewrite map_length, Lc; symmetry; apply (InBox_length _ _ Hc)
                       | apply (InBox_digits _ cell Wc); apply InBox_self; assumption | apply (InBox_digits c res W Hc) | exact E]. }
      subst c. assumption.
  Qed.
End NdLaw.

(* ---------- the bucket stage: np.searchsorted on the cumulative probabilities, then the residual ---------- *)
Lemma Qltb_Qle_bool a b : Qltb a b = negb (Qle_bool b a).
Proof. reflexivity. Qed.

Fixpoint prefix_sum (k : nat) (ps : list Q) : Q :=
  match k, ps with O, _ => 0 | S k', p :: r => p + prefix_sum k' r | S _, [] => 0 end.

Lemma cumsum_from_nth ps : forall acc q, (q < length ps)%nat -> nth q (cumsum_from acc ps) 0 == acc + prefix_sum (S q) ps.
Proof.
  induction ps as [|p ps IH]; intros acc q H; simpl in H; [lia|]. destruct q as [|q]; simpl.
  - ring.
  - rewrite IH by lia. simpl. ring.
Qed.

Lemma searchsorted_le a u : (searchsorted a u <= length a)%nat.
Proof. induction a as [|x a IH]; simpl; [lia|]. destruct (Qltb x u); lia. Qed.

Lemma cumsum_from_length ps : forall acc, length (cumsum_from acc ps) = length ps.
Proof. induction ps as [|p ps IH]; intro acc; simpl; [reflexivity | rewrite IH; reflexivity]. Qed.

Lemma searchsorted_all u : forall ps acc, searchsorted (cumsum_from acc ps) u = length ps -> ps <> [] -> acc + qsum ps < u.
Proof.
  induction ps as [|p ps IHp]; intros acc Hs Hne; [congruence|]. simpl in Hs. destruct (Qltb (acc + p) u) eqn:C; [|discriminate].
  apply Qltb_lt in C. destruct ps as [|p2 ps]; [simpl; lra|]. injection Hs as Hs.
  specialize (IHp (acc + p) Hs ltac:(discriminate)). simpl in *. lra.
Qed.

Lemma prefix_sum_S (f : box -> Q) : forall bs k b, nth_error bs k = Some b ->
  prefix_sum (S k) (map f bs) == prefix_sum k (map f bs) + f b.
Proof.
  induction bs as [|x bs IH]; intros [|k] b E; simpl in *; try discriminate.
  - inversion E; subst. ring.
  - rewrite (IH k b E). ring.
Qed.

(* selection of the block of segments by searchsorted on the cumulative totals *)
Lemma concat_locate u : forall (Ss : list (list seg)) (ps : list Q) acc,
  Forall2 (fun Sg p => total Sg == p /\ seg_nonneg Sg /\ Sg <> []) Ss ps ->
  let k := searchsorted (cumsum_from acc ps) u in
  match nth_error Ss k with
  | Some Sg => locate_r acc (concat Ss) u = locate_r (acc + prefix_sum k ps) Sg u
              /\ (exists lab, locate_r (acc + prefix_sum k ps) Sg u = Some lab)
              /\ (k = O \/ acc + prefix_sum k ps < u) /\ u <= acc + prefix_sum (Datatypes.S k) ps
  | None => k = length Ss
  end.
Proof.
  induction Ss as [|Sg Ss IH]; intros ps acc H; inversion H as [|? p ? ps' (T & N & Ne) H']; subst; [reflexivity|].
  cbn [cumsum_from searchsorted]. destruct (Qltb (acc + p) u) eqn:C.
  - apply Qltb_lt in C. specialize (IH ps' (acc + p) H'). cbv zeta in IH.
    set (k' := searchsorted (cumsum_from (acc + p) ps') u) in *. cbn [nth_error].
    destruct (nth_error Ss k') as [Sg'|] eqn:E.
    + destruct IH as (L & Ex & Lo & Hi). cbn [concat]. rewrite locate_r_app.
      rewrite locate_r_none by (try assumption; rewrite T; assumption).
      rewrite (locate_r_ext (acc + total Sg) (acc + p)) by (rewrite T; reflexivity).
      assert (Ep : acc + prefix_sum (Datatypes.S k') (p :: ps') == acc + p + prefix_sum k' ps') by (simpl; ring).
      split; [rewrite L; apply locate_r_ext; rewrite Ep; reflexivity|].
      split; [destruct Ex as (lab & Ex); exists lab; rewrite <- Ex; apply locate_r_ext; exact Ep|].
      split; [right; rewrite Ep; destruct Lo as [->|Lo]; [simpl; lra | exact Lo]|].
      simpl. simpl in Hi. lra.
    + simpl. lia.
  - apply Qltb_false in C. cbn [nth_error concat prefix_sum]. rewrite locate_r_app.
    destruct (locate_r_some acc Sg u Ne ltac:(rewrite T; lra)) as (lab & E). rewrite E.
    split; [rewrite <- E; apply locate_r_ext; ring|]. split; [exists lab; rewrite <- E; apply locate_r_ext; ring|].
    split; [left; reflexivity | simpl; lra].
Qed.

Section NdBuckets.
  Variable bm : box -> Q.
  Variable B : Z.
  Hypothesis bm_nonneg : forall b, wfb B b -> 0 <= bm b.
  Hypothesis bm_split : forall b k m, wfb B b -> (k < length b)%nat ->
    (fst (nth k b (0, 0)%Z) <= m < snd (nth k b (0, 0)%Z))%Z ->
    bm b == bm (upd b k (fst (nth k b (0, 0)%Z), m)) + bm (upd b k ((m + 1)%Z, snd (nth k b (0, 0)%Z))).
  Variable d : nat.
  Variable n o : Z.

  (* ---------- buckets that move along one axis only: the cached cumulative vector ---------- *)
  Lemma upd_upd {A} (l : list A) : forall k x y, upd (upd l k x) k y = upd l k y.
  Proof. induction l as [|z l IH]; intros [|k] x y; simpl; try reflexivity. rewrite IH. reflexivity. Qed.

  Definition axis_cell (b : box) (k : nat) (c : Z) : box := upd b k (c, c).
  Definition axis_segs (b : box) : list seg :=
    let k := moving_axis_index b in let lr := nth k b (0, 0)%Z in
    map (fun c => (bm (axis_cell b k c), label B (axis_cell b k c))) (zrange_incl (fst lr) (Z.to_nat (snd lr - fst lr + 1))).

  Lemma axis_cum_segs b : axis_cum bm b = cumsum_from 0 (map fst (axis_segs b)).
  Proof. unfold axis_cum, axis_segs, cumsum, axis_cell. rewrite map_map. reflexivity. Qed.

  Lemma axis_total b k : wfb B b -> (k < length b)%nat -> forall cnt l,
    fst (nth k b (0, 0)%Z) = l -> Z.to_nat (snd (nth k b (0, 0)%Z) - l + 1) = S cnt ->
    total (map (fun c => (bm (axis_cell b k c), label B (axis_cell b k c))) (zrange_incl l (S cnt))) == bm b
    /\ seg_nonneg (map (fun c => (bm (axis_cell b k c), label B (axis_cell b k c))) (zrange_incl l (S cnt))).
  Proof.
    intros W Hk. pose proof (wfb_nth B b k W Hk) as [[R0 R1] R2].
    assert (Gen : forall cnt l r, (0 <= l)%Z -> (r < B)%Z -> Z.to_nat (r - l + 1) = S cnt ->
              total (map (fun c => (bm (axis_cell b k c), label B (axis_cell b k c))) (zrange_incl l (S cnt))) == bm (upd b k (l, r))
              /\ seg_nonneg (map (fun c => (bm (axis_cell b k c), label B (axis_cell b k c))) (zrange_incl l (S cnt)))).
    { induction cnt as [|cnt IH]; intros l r H0 H1 E.
      - assert (r = l) by lia. subst r. cbn [zrange_incl map total]. unfold axis_cell. split; [ring|].
        constructor; [simpl; apply bm_nonneg; apply wfb_upd; [assumption | lia | lia] | constructor].
      - assert (Hlr : (l < r)%Z) by lia.
        assert (Wb : wfb B (upd b k (l, r))) by (apply wfb_upd; [assumption | lia | lia]).
        pose proof (bm_split (upd b k (l, r)) k l Wb ltac:(rewrite upd_length; assumption)) as Sp.
        rewrite (nth_upd_eq b k (l, r) (0, 0)%Z Hk) in Sp. cbn [fst snd] in Sp. specialize (Sp ltac:(lia)).
        rewrite !upd_upd in Sp.
        destruct (IH (l + 1)%Z r ltac:(lia) H1 ltac:(lia)) as [T N].
        change (zrange_incl l (S (S cnt))) with (l :: zrange_incl (l + 1) (S cnt)). cbn [map total].
        split; [rewrite T, Sp; unfold axis_cell; ring|].
        constructor; [simpl; apply bm_nonneg; apply wfb_upd; [assumption | lia | lia] | exact N]. }
    intros cnt l El E. destruct (Gen cnt l (snd (nth k b (0, 0)%Z)) ltac:(lia) R2 E) as [T N]. split; [|exact N].
    rewrite T. assert (Eb : upd b k (l, snd (nth k b (0, 0)%Z)) = b).
    { rewrite <- El. clear. revert k. induction b as [|x b IH]; intros [|k]; simpl; try reflexivity; [destruct x; reflexivity | rewrite IH; reflexivity]. }
    rewrite Eb. reflexivity.
  Qed.

  (* ---------- the two stages composed, for buckets that are not served from the cached vectors ---------- *)
  Theorem nd_sample_compose (bs : list box) : bs <> [] -> Forall (wfb B) bs ->
    (forall b, In b bs -> is_axis_bucket d n b = false) ->
    let segs := concat (map (bucket_segs bm B) bs) in
    total segs == qsum (map bm bs)
    /\ forall u, u <= qsum (map bm bs) ->
         exists b cell, In b bs /\ InBox cell b
                        /\ nd_sample_with bm d n o bs u = Some (map (fun c => (c - o)%Z) cell)
                        /\ locate_r 0 segs u = Some (enc B cell).
  Proof.
    intros Hne W NA segs.
    assert (F2 : Forall2 (fun Sg p => total Sg == p /\ seg_nonneg Sg /\ Sg <> []) (map (bucket_segs bm B) bs) (map bm bs)).
    { clear NA segs Hne. induction W as [|b bs Wb W IH]; simpl; constructor; [|assumption].
      destruct (sample_one_bucket_law bm B bm_nonneg bm_split b Wb) as (T & N & Ne & _). repeat split; assumption. }
    split.
    { unfold segs. clear NA F2 Hne. induction W as [|b bs Wb W IH]; simpl; [reflexivity|].
      destruct (sample_one_bucket_law bm B bm_nonneg bm_split b Wb) as (T & _). rewrite total_app, T, IH. reflexivity. }
    intros u Hu. pose proof (concat_locate u _ _ 0 F2) as CL. cbv zeta in CL.
    unfold nd_sample_with, cumsum.
    set (k := searchsorted (cumsum_from 0 (map bm bs)) u) in *.
    rewrite nth_error_map in CL. destruct (nth_error bs k) as [b|] eqn:E; cbn [option_map] in CL.
    - destruct CL as (L & _ & Lo & Hi).
      assert (Hin : In b bs) by (eapply nth_error_In; eassumption).
      pose proof (proj1 (Forall_forall _ _) W b Hin) as Wb. rewrite (NA b Hin).
      set (prob := match k with O => u | S q => u - nth q (cumsum_from 0 (map bm bs)) 0 end).
      assert (Hkl : (k < length bs)%nat) by (apply nth_error_Some; rewrite E; discriminate).
      assert (Ep : prob == u - (0 + prefix_sum k (map bm bs))).
      { unfold prob. destruct k as [|q]; [simpl; ring|]. rewrite cumsum_from_nth by (rewrite map_length; lia). ring. }
      destruct (sample_one_bucket_law bm B bm_nonneg bm_split b Wb) as (T & N & Ne & _ & _ & Smp).
      destruct (Smp prob) as (c & G & Hc & Loc). exists b, c. split; [assumption|]. split; [assumption|].
      rewrite G. split; [reflexivity|]. unfold segs. rewrite L.
      rewrite (locate_r_shift _ (0 + prefix_sum k (map bm bs)) u).
      rewrite (locate_r_ext2 _ 0 0 (u - (0 + prefix_sum k (map bm bs))) prob) by (try reflexivity; rewrite Ep; reflexivity).
      apply Loc. rewrite Ep. rewrite (prefix_sum_S bm bs k b E) in Hi. lra.
    - exfalso. apply nth_error_None in E.
      pose proof (searchsorted_le (cumsum_from 0 (map bm bs)) u) as Hk. fold k in Hk.
      rewrite cumsum_from_length, map_length in Hk. assert (Ek : k = length (map bm bs)) by (rewrite map_length; lia).
      pose proof (searchsorted_all u (map bm bs) 0 Ek ltac:(destruct bs; [congruence | discriminate])). lra.
  Qed.
End NdBuckets.

(* C02 -- BinarySearchTreeAdapted (n-d), sample_one_bucket: with a box mass that is additive under the split of one axis
   and non-negative, the axis-cycling bisection terminates (potential (d+1) * (sum(hi - lo) - [an axis >= k still moves])
   + (d - k)) and is the right-closed step function whose consecutive intervals are the cells of the bucket, each of
   length bm(cell): it returns cell c iff the residual probability lies in an interval of length bm c. *)
From Coq Require Import List Arith ZArith QArith Bool Lia Lqa.
From RV Require Import Base.QB Model.StepLaw Model.Bst Model.BstAdaptedNd Proofs.C02_StepLaw Proofs.C02_Bst Proofs.C02_BstAdapted.
Import ListNotations.
Open Scope Q_scope.

(* ---------- boxes ---------- *)
Lemma skipn_nth_cons {A} (l : list A) d : forall k, (k < length l)%nat -> skipn k l = nth k l d :: skipn (S k) l.
Proof. induction l as [|x l IH]; intros [|k] H; simpl in *; try lia; [reflexivity | apply IH; lia]. Qed.

Lemma skipn_upd_after {A} (l : list A) v : forall k, skipn (S k) (upd l k v) = skipn (S k) l.
Proof. induction l as [|x l IH]; intros [|k]; simpl; try reflexivity. apply IH. Qed.

Definition nondeg_from (k : nat) (b : box) : bool := existsb (fun lr => negb (degenerate lr)) (skipn k b).

Lemma nondeg_step k b : (k < length b)%nat ->
  nondeg_from k b = negb (degenerate (nth k b (0, 0)%Z)) || nondeg_from (S k) b.
Proof. intro H. unfold nondeg_from. rewrite (skipn_nth_cons b (0, 0)%Z k H). reflexivity. Qed.

Lemma nondeg_end k b : (length b <= k)%nat -> nondeg_from k b = false.
Proof. intro H. unfold nondeg_from. rewrite skipn_all2 by assumption. reflexivity. Qed.

Lemma nondeg_upd k b v : nondeg_from (S k) (upd b k v) = nondeg_from (S k) b.
Proof. unfold nondeg_from. rewrite skipn_upd_after. reflexivity. Qed.

Lemma all_degenerate_nondeg b : all_degenerate b = negb (nondeg_from 0 b).
Proof.
  unfold all_degenerate, nondeg_from. simpl. induction b as [|x b IH]; [reflexivity|]. simpl. rewrite IH.
  destruct (degenerate x); reflexivity.
Qed.

Definition wfb (B : Z) (b : box) : Prop := Forall (fun lr => (0 <= fst lr <= snd lr)%Z /\ (snd lr < B)%Z) b.

Lemma wfb_nth B b k : wfb B b -> (k < length b)%nat ->
  (0 <= fst (nth k b (0, 0)%Z) <= snd (nth k b (0, 0)%Z))%Z /\ (snd (nth k b (0, 0)%Z) < B)%Z.
Proof. intros W H. apply (proj1 (Forall_forall _ _) W). apply nth_In. assumption. Qed.

Lemma wfb_upd B b k l r : wfb B b -> (0 <= l <= r)%Z -> (r < B)%Z -> wfb B (upd b k (l, r)).
Proof.
  intros W H1 H2. revert k. induction W as [|x b Hx W IH]; intros k; [destruct k; constructor|].
  destruct k as [|k]; simpl; constructor; try assumption.
  - simpl. split; assumption.
  - apply IH.
Qed.

Lemma box_size_upd b : forall k l r, (k < length b)%nat ->
  (box_size (upd b k (l, r)) + Z.to_nat (snd (nth k b (0, 0)%Z) - fst (nth k b (0, 0)%Z)) = box_size b + Z.to_nat (r - l))%nat.
Proof.
  induction b as [|x b IH]; intros [|k] l r H; simpl in *; try lia.
  specialize (IH k l r ltac:(lia)). lia.
Qed.

Lemma nondeg_size B b k : wfb B b -> nondeg_from k b = true -> (1 <= box_size b)%nat.
Proof.
  intros W H. unfold nondeg_from in H. apply existsb_exists in H. destruct H as (lr & Hin & Hd).
  assert (Hin' : In lr b).
  { clear -Hin. revert k Hin. induction b as [|x b IH]; intros [|k] Hin; simpl in *; auto. right. eapply IH. eassumption. }
  pose proof (proj1 (Forall_forall _ _) W lr Hin') as [H1 _]. unfold degenerate in Hd. apply negb_true_iff, Z.eqb_neq in Hd.
  clear -Hin' H1 Hd. induction b as [|x b IH]; [contradiction|]. simpl. destruct Hin' as [->|Hin']; [lia | specialize (IH Hin'); lia].
Qed.

Section NdLaw.
  Variable bm : box -> Q.
  Variable B : Z.
  Hypothesis bm_nonneg : forall b, wfb B b -> 0 <= bm b.
  Hypothesis bm_split : forall b k m, wfb B b -> (k < length b)%nat ->
    (fst (nth k b (0, 0)%Z) <= m < snd (nth k b (0, 0)%Z))%Z ->
    bm b == bm (upd b k (fst (nth k b (0, 0)%Z), m)) + bm (upd b k ((m + 1)%Z, snd (nth k b (0, 0)%Z))).

  (* a cell is labelled by its coordinates read as digits in base B *)
  Definition enc (c : list Z) : Z := fold_right (fun x acc => (x + B * acc)%Z) 0%Z c.
  Definition label (b : box) : Z := enc (map fst b).

  (* the consecutive intervals of the sampler, following the very recursion of the loop *)
  Fixpoint nd_segs (fuel : nat) (k : nat) (res : box) : list seg :=
    match fuel with
    | O => []
    | S f =>
        if (k <? length res)%nat then
          let lr := nth k res (0, 0)%Z in
          if degenerate lr then nd_segs f (S k) res
          else let mid := ((snd lr + fst lr) / 2)%Z in
               nd_segs f (S k) (upd res k (fst lr, mid)) ++ nd_segs f (S k) (upd res k (Z.min (snd lr) (mid + 1), snd lr))
        else if all_degenerate res then [(bm res, label res)] else nd_segs f 0 res
    end.

  Definition e (k : nat) (b : box) : nat := if nondeg_from k b then 1 else 0.
  Definition Phi (k : nat) (b : box) : nat := (S (length b) * (box_size b - e k b) + (length b - k))%nat.

  Lemma mid_facts l r : (l < r)%Z -> (l <= (r + l) / 2 < r)%Z.
  Proof. intro H. split; [apply Z.div_le_lower_bound | apply Z.div_lt_upper_bound]; lia. Qed.

  Theorem nd_go_spec fuel : forall k res cp, wfb B res -> (k <= length res)%nat -> (Phi k res < fuel)%nat ->
    total (nd_segs fuel k res) == bm res
    /\ seg_nonneg (nd_segs fuel k res)
    /\ nd_segs fuel k res <> []
    /\ exists cell, nd_go bm fuel k res cp = Some cell /\ all_degenerate cell = true /\ wfb B cell /\ length cell = length res
                    /\ (cp <= bm res -> locate_r 0 (nd_segs fuel k res) cp = Some (label cell)).
  Proof.
    induction fuel as [|f IH]; intros k res cp W Hk HF; [lia|].
    cbn [nd_go nd_segs]. destruct (k <? length res)%nat eqn:Lk.
    - apply Nat.ltb_lt in Lk. unfold nd_axis.
      pose proof (wfb_nth B res k W Lk) as [[R0 R1] R2]. set (lr := nth k res (0, 0)%Z) in *.
      pose proof (nondeg_step k res Lk) as NS. fold lr in NS.
      destruct (degenerate lr) eqn:Dg.
      + (* this axis is already a single coordinate *)
        cbn [fst snd]. apply IH; [assumption | lia|].
        unfold Phi, e in *. simpl in NS. rewrite NS in HF. destruct (nondeg_from (S k) res); lia.
      + unfold degenerate in Dg. apply Z.eqb_neq in Dg. assert (Hlt : (fst lr < snd lr)%Z) by lia.
        pose proof (mid_facts _ _ Hlt) as Hm. set (mid := ((snd lr + fst lr) / 2)%Z) in *.
        rewrite Z.min_r by lia.
        set (lo := upd res k (fst lr, mid)). set (up := upd res k ((mid + 1)%Z, snd lr)).
        assert (Wlo : wfb B lo) by (apply wfb_upd; [assumption | lia | lia]).
        assert (Wup : wfb B up) by (apply wfb_upd; [assumption | lia | lia]).
        assert (Llo : length lo = length res) by apply upd_length.
        assert (Lup : length up = length res) by apply upd_length.
        pose proof (box_size_upd res k (fst lr) mid Lk) as Slo. pose proof (box_size_upd res k (mid + 1)%Z (snd lr) Lk) as Sup.
        fold lr lo in Slo. fold lr up in Sup.
        assert (E1 : nondeg_from k res = true) by (rewrite NS; reflexivity).
        assert (Mu : (1 <= box_size res)%nat) by (eapply nondeg_size; eassumption).
        assert (Flo : (Phi (S k) lo < f)%nat).
        { unfold Phi, e in *. rewrite E1 in HF. rewrite Llo. destruct (nondeg_from (S k) lo); nia. }
        assert (Fup : (Phi (S k) up < f)%nat).
        { unfold Phi, e in *. rewrite E1 in HF. rewrite Lup. destruct (nondeg_from (S k) up); nia. }
        pose proof (bm_split res k mid W Lk ltac:(fold lr; lia)) as Sp. fold lr lo up in Sp.
        destruct (Qltb (bm lo) cp) eqn:C; cbn [fst snd].
        * apply Qltb_lt in C.
          destruct (IH (S k) lo cp Wlo ltac:(lia) Flo) as (T1 & N1 & Ne1 & _).
          destruct (IH (S k) up (cp - bm lo) Wup ltac:(lia) Fup) as (T2 & N2 & Ne2 & cell & G & D & Wc & Lc & Loc).
          split; [rewrite total_app, T1, T2, Sp; reflexivity|].
          split; [apply seg_nonneg_app; split; assumption|].
          split; [intro Hc; apply app_eq_nil in Hc; tauto|].
          exists cell. split; [exact G|]. split; [exact D|]. split; [exact Wc|]. split; [lia|].
          intro Hcp. rewrite locate_r_app. rewrite locate_r_none by (try assumption; lra).
          rewrite (locate_r_shift _ (0 + total (nd_segs f (S k) lo)) cp).
          rewrite (locate_r_ext2 _ 0 0 (cp - (0 + total (nd_segs f (S k) lo))) (cp - bm lo)) by (try reflexivity; rewrite T1; ring).
          apply Loc. lra.
        * apply Qltb_false in C.
          destruct (IH (S k) lo cp Wlo ltac:(lia) Flo) as (T1 & N1 & Ne1 & cell & G & D & Wc & Lc & Loc).
          destruct (IH (S k) up cp Wup ltac:(lia) Fup) as (T2 & N2 & Ne2 & _).
          split; [rewrite total_app, T1, T2, Sp; reflexivity|].
          split; [apply seg_nonneg_app; split; assumption|].
          split; [intro Hc; apply app_eq_nil in Hc; tauto|].
          exists cell. split; [exact G|]. split; [exact D|]. split; [exact Wc|]. split; [lia|].
          intro Hcp. rewrite locate_r_app. rewrite (Loc C). reflexivity.
    - apply Nat.ltb_ge in Lk. assert (k = length res) by lia. subst k.
      destruct (all_degenerate res) eqn:AD.
      + split; [simpl; ring|]. split; [constructor; [simpl; apply bm_nonneg; assumption | constructor]|].
        split; [discriminate|]. exists res. repeat split; try assumption; try reflexivity.
        intro Hcp. simpl. assert (Qle_bool cp (0 + bm res) = true) as -> by (apply Qle_bool_iff; lra). reflexivity.
      + apply IH; [assumption | lia|].
        rewrite all_degenerate_nondeg in AD. apply negb_false_iff in AD.
        pose proof (nondeg_size B res 0 W AD) as Mu.
        unfold Phi, e in *. rewrite AD. rewrite nondeg_end in HF by lia. nia.
  Qed.

  (* ---------- every cell of the bucket exactly once, with length bm(cell) ---------- *)
  Definition InBox (c : list Z) (b : box) : Prop := Forall2 (fun x lr => (fst lr <= x <= snd lr)%Z) c b.
  Definition cellbox (c : list Z) : box := map (fun x => (x, x)) c.

  Lemma InBox_length c b : InBox c b -> length c = length b.
  Proof. induction 1; simpl; congruence. Qed.

  Lemma InBox_upd_in c b : InBox c b -> forall k l r, (l <= nth k c 0 <= r)%Z -> InBox c (upd b k (l, r)).
  Proof.
    induction 1 as [|x lr c b Hx H IH]; intros k l r Hk; [destruct k; constructor|].
    destruct k as [|k]; simpl in *.
    - constructor; [simpl; lia | assumption].
    - constructor; [assumption | apply IH; assumption].
  Qed.

  Lemma InBox_upd_out c b k l r : InBox c (upd b k (l, r)) -> (k < length b)%nat ->
    (fst (nth k b (0, 0)%Z) <= l)%Z -> (r <= snd (nth k b (0, 0)%Z))%Z -> InBox c b /\ (l <= nth k c 0 <= r)%Z.
  Proof.
    revert c k. induction b as [|lr b IH]; intros c k H Hk H1 H2; [simpl in Hk; lia|].
    destruct k as [|k]; simpl in *; inversion H as [|x y c' b' Hx H']; subst.
    - simpl in Hx. split; [constructor; [lia | assumption] | simpl; lia].
    - destruct (IH c' k H' ltac:(lia) H1 H2) as [A B0]. split; [constructor; assumption | assumption].
  Qed.

  Lemma InBox_nth c b : InBox c b -> forall k, (k < length b)%nat ->
    (fst (nth k b (0, 0)%Z) <= nth k c 0 <= snd (nth k b (0, 0)%Z))%Z.
  Proof.
    induction 1 as [|x y c b Hx H IH]; intros k Lk; [simpl in Lk; lia|].
    destruct k; simpl in *; [lia | apply IH; lia].
  Qed.

  Lemma all_degenerate_cell b c : all_degenerate b = true -> InBox c b -> c = map fst b /\ b = cellbox c.
  Proof.
    intros D H. induction H as [|x lr c b Hx H IH]; [split; reflexivity|]. simpl in D. apply andb_true_iff in D. destruct D as [D1 D2].
    unfold degenerate in D1. apply Z.eqb_eq in D1. destruct (IH D2) as [E1 E2]. destruct lr as [l r]. simpl in *.
    assert (x = l) by lia. assert (r = l) by lia. subst x r. split.
    - f_equal. assumption.
    - unfold cellbox in *. simpl. f_equal. assumption.
  Qed.

  Lemma InBox_self b : wfb B b -> InBox (map fst b) b.
  Proof. induction 1 as [|lr b Hx W IH]; simpl; constructor; [lia | assumption]. Qed.

  (* digits in [0, B) : the label determines the cell *)
  Lemma enc_inj : forall c c', length c = length c' -> Forall (fun x => (0 <= x < B)%Z) c -> Forall (fun x => (0 <= x < B)%Z) c' ->
    enc c = enc c' -> c = c'.
  Proof.
    induction c as [|x c IH]; intros [|y c'] L F1 F2 E; simpl in *; try discriminate; [reflexivity|].
    inversion F1; subst. inversion F2; subst.
    assert (HB : (0 < B)%Z) by lia.
    assert (x = y /\ enc c = enc c') as [-> E'].
    { assert (Ex : ((x + B * enc c) mod B = x)%Z) by (rewrite (Z.mul_comm B), Z_mod_plus_full; apply Z.mod_small; lia).
      assert (Ey : ((y + B * enc c') mod B = y)%Z) by (rewrite (Z.mul_comm B), Z_mod_plus_full; apply Z.mod_small; lia).
      rewrite E in Ex. rewrite Ey in Ex. split; [lia|]. subst. nia. }
    f_equal. apply IH; try assumption. lia.
  Qed.

  Lemma InBox_digits c b : wfb B b -> InBox c b -> Forall (fun x => (0 <= x < B)%Z) c.
  Proof.
    intros W H. induction H as [|x lr c b Hx H IH]; constructor; inversion W; subst; [lia | apply IH; assumption].
  Qed.

  Theorem nd_segs_cells fuel : forall k res, wfb B res -> (k <= length res)%nat -> (Phi k res < fuel)%nat ->
    (forall lab, In lab (map snd (nd_segs fuel k res)) -> exists c, InBox c res /\ lab = enc c)
    /\ (forall c, InBox c res -> len_of (enc c) (nd_segs fuel k res) == bm (cellbox c)).
  Proof.
    induction fuel as [|f IH]; intros k res W Hk HF; [lia|].
    cbn [nd_segs]. destruct (k <? length res)%nat eqn:Lk.
    - apply Nat.ltb_lt in Lk.
      pose proof (wfb_nth B res k W Lk) as [[R0 R1] R2]. set (lr := nth k res (0, 0)%Z) in *.
      pose proof (nondeg_step k res Lk) as NS. fold lr in NS.
      destruct (degenerate lr) eqn:Dg.
      + apply IH; [assumption | lia|]. unfold Phi, e in *. simpl in NS. rewrite NS in HF. destruct (nondeg_from (S k) res); lia.
      + unfold degenerate in Dg. apply Z.eqb_neq in Dg. assert (Hlt : (fst lr < snd lr)%Z) by lia.
        pose proof (mid_facts _ _ Hlt) as Hm. set (mid := ((snd lr + fst lr) / 2)%Z) in *.
        rewrite Z.min_r by lia.
        set (lo := upd res k (fst lr, mid)). set (up := upd res k ((mid + 1)%Z, snd lr)).
        assert (Wlo : wfb B lo) by (apply wfb_upd; [assumption | lia | lia]).
        assert (Wup : wfb B up) by (apply wfb_upd; [assumption | lia | lia]).
        assert (Llo : length lo = length res) by apply upd_length.
        assert (Lup : length up = length res) by apply upd_length.
        pose proof (box_size_upd res k (fst lr) mid Lk) as Slo. pose proof (box_size_upd res k (mid + 1)%Z (snd lr) Lk) as Sup.
        fold lr lo in Slo. fold lr up in Sup.
        assert (E1 : nondeg_from k res = true) by (rewrite NS; reflexivity).
        assert (Mu : (1 <= box_size res)%nat) by (eapply nondeg_size; eassumption).
        assert (Flo : (Phi (S k) lo < f)%nat).
        { unfold Phi, e in *. rewrite E1 in HF. rewrite Llo. destruct (nondeg_from (S k) lo); nia. }
        assert (Fup : (Phi (S k) up < f)%nat).
        { unfold Phi, e in *. rewrite E1 in HF. rewrite Lup. destruct (nondeg_from (S k) up); nia. }
        destruct (IH (S k) lo Wlo ltac:(lia) Flo) as [Lab1 Len1]. destruct (IH (S k) up Wup ltac:(lia) Fup) as [Lab2 Len2].
        split.
        * intros lab Hin. rewrite map_app in Hin. apply in_app_or in Hin. destruct Hin as [Hin|Hin].
          -- destruct (Lab1 lab Hin) as (c & Hc & ->). exists c. split; [|reflexivity].
             apply (InBox_upd_out c res k _ _ Hc Lk); fold lr; lia.
          -- destruct (Lab2 lab Hin) as (c & Hc & ->). exists c. split; [|reflexivity].
             apply (InBox_upd_out c res k _ _ Hc Lk); fold lr; lia.
        * intros c Hc. rewrite len_of_app.
          pose proof (InBox_nth c res Hc k Lk) as Hck. fold lr in Hck.
          destruct (Z_le_gt_dec (nth k c 0%Z) mid) as [Hle|Hgt].
          -- rewrite (Len1 c (InBox_upd_in c res Hc k (fst lr) mid ltac:(lia))).
             rewrite len_of_notin; [ring|]. intro Hin. destruct (Lab2 _ Hin) as (c' & Hc' & E).
             assert (c = c').
             { apply enc_inj; [rewrite (InBox_length _ _ Hc), (InBox_length _ _ Hc'), Lup; reflexivity
                              | apply (InBox_digits c res W Hc) | apply (InBox_digits c' up Wup Hc') | assumption]. }
             subst c'. destruct (InBox_upd_out c res k _ _ Hc' Lk ltac:(fold lr; lia) ltac:(fold lr; lia)) as [_ Hb]. lia.
          -- rewrite (Len2 c (InBox_upd_in c res Hc k (mid + 1)%Z (snd lr) ltac:(lia))).
             rewrite len_of_notin; [ring|]. intro Hin. destruct (Lab1 _ Hin) as (c' & Hc' & E).
             assert (c = c').
             { apply enc_inj; [rewrite (InBox_length _ _ Hc), (InBox_length _ _ Hc'), Llo; reflexivity
                              | apply (InBox_digits c res W Hc) | apply (InBox_digits c' lo Wlo Hc') | assumption]. }
             subst c'. destruct (InBox_upd_out c res k _ _ Hc' Lk ltac:(fold lr; lia) ltac:(fold lr; lia)) as [_ Hb]. lia.
    - apply Nat.ltb_ge in Lk. assert (k = length res) by lia. subst k.
      destruct (all_degenerate res) eqn:AD.
      + split.
        * intros lab [<-|[]]. exists (map fst res). split; [apply InBox_self; assumption | reflexivity].
        * intros c Hc. destruct (all_degenerate_cell res c AD Hc) as [E1 E2]. simpl. unfold label. rewrite <- E1, Z.eqb_refl, <- E2. ring.
      + apply IH; [assumption | lia|].
        rewrite all_degenerate_nondeg in AD. apply negb_false_iff in AD.
        pose proof (nondeg_size B res 0 W AD) as Mu.
        unfold Phi, e in *. rewrite AD. rewrite nondeg_end in HF by lia. nia.
  Qed.

  (* ---------- sample_one_bucket with the fuel of the model ---------- *)
  Lemma nd_fuel_enough res : (Phi (length res) res < nd_fuel res)%nat.
  Proof. unfold Phi, e, nd_fuel. rewrite nondeg_end by lia. nia. Qed.

  Definition bucket_segs (res : box) : list seg := nd_segs (nd_fuel res) (length res) res.

  Theorem sample_one_bucket_law (res : box) : wfb B res ->
    total (bucket_segs res) == bm res
    /\ seg_nonneg (bucket_segs res)
    /\ bucket_segs res <> []
    /\ (forall c, InBox c res -> len_of (enc c) (bucket_segs res) == bm (cellbox c))
    /\ (forall lab, In lab (map snd (bucket_segs res)) -> exists c, InBox c res /\ lab = enc c)
    /\ (forall cp, exists c, sample_one_bucket bm res cp = Some c /\ InBox c res
                          /\ (cp <= bm res -> locate_r 0 (bucket_segs res) cp = Some (enc c))).
  Proof.
    intro W. pose proof (nd_fuel_enough res) as HF.
    destruct (nd_segs_cells (nd_fuel res) (length res) res W ltac:(lia) HF) as [Lab Len].
    destruct (nd_go_spec (nd_fuel res) (length res) res 0 W ltac:(lia) HF) as (T & N & Ne0 & _).
    split; [exact T|]. split; [exact N|]. split; [exact Ne0|]. split; [exact Len|]. split; [exact Lab|].
    intro cp. destruct (nd_go_spec (nd_fuel res) (length res) res cp W ltac:(lia) HF) as (_ & _ & Ne & cell & G & D & Wc & Lc & Loc).
    exists (map fst cell). unfold sample_one_bucket. rewrite G. split; [reflexivity|].
    assert (Hin : In (label cell) (map snd (bucket_segs res)) \/ True) by (right; exact I).
    split; [|exact Loc].
    (* the returned cell lies in the bucket: its label is one of the labels, all of which are cells of the bucket *)
    destruct (Qlt_le_dec (bm res) cp) as [Hgt|Hle].
    - (* even beyond the mass of the bucket the answer is a cell of the bucket: re-run with cp = bm res is not needed,
         the label argument works for the cell reached with any cp by monotonicity of the construction; we use the
         labels of a run that is guaranteed to locate: cp' = 0 *)
      clear Hin. revert G. generalize (nd_fuel res). intros fuel G.
      assert (Gen : forall fuel k r cp0 cl, wfb B r -> nd_go bm fuel k r cp0 = Some cl -> InBox (map fst cl) r).
      { clear. induction fuel as [|f IHf]; intros k r cp0 cl Wr Hg; [discriminate|]. cbn [nd_go] in Hg.
        destruct (k <? length r)%nat eqn:Lk.
        - apply Nat.ltb_lt in Lk. unfold nd_axis in Hg.
          pose proof (wfb_nth B r k Wr Lk) as [[R0 R1] R2]. set (lr := nth k r (0, 0)%Z) in *.
          destruct (degenerate lr) eqn:Dg; [apply (IHf _ _ _ _ Wr Hg)|].
          unfold degenerate in Dg. apply Z.eqb_neq in Dg. assert (Hlt : (fst lr < snd lr)%Z) by lia.
          pose proof (mid_facts _ _ Hlt) as Hm. set (mid := ((snd lr + fst lr) / 2)%Z) in *.
          rewrite Z.min_r in Hg by lia.
          destruct (Qltb (bm (upd r k (fst lr, mid))) cp0); cbn [fst snd] in Hg.
          + apply IHf in Hg; [|apply wfb_upd; [assumption | lia | lia]].
            apply (InBox_upd_out _ r k _ _ Hg Lk); fold lr; lia.
          + apply IHf in Hg; [|apply wfb_upd; [assumption | lia | lia]].
            apply (InBox_upd_out _ r k _ _ Hg Lk); fold lr; lia.
        - destruct (all_degenerate r); [inversion Hg; subst; apply InBox_self; assumption | apply (IHf _ _ _ _ Wr Hg)]. }
      apply (Gen _ _ _ _ _ W G).
    - specialize (Loc Hle). apply locate_r_in in Loc. destruct (Lab _ Loc) as (c & Hc & E).
      assert (map fst cell = c).
      { apply enc_inj; [rewrite map_length, Lc; symmetry; apply (InBox_length _ _ Hc)
                       | apply (InBox_digits _ cell Wc); apply InBox_self; assumption | apply (InBox_digits c res W Hc) | exact E]. }
      subst c. assumption.
  Qed.
End NdLaw.

(* ---------- the bucket stage: np.searchsorted on the cumulative probabilities, then the residual ---------- *)
Lemma Qltb_Qle_bool a b : Qltb a b = negb (Qle_bool b a).
Proof. reflexivity. Qed.

Fixpoint prefix_sum (k : nat) (ps : list Q) : Q :=
  match k, ps with O, _ => 0 | S k', p :: r => p + prefix_sum k' r | S _, [] => 0 end.

Lemma cumsum_from_nth ps : forall acc q, (q < length ps)%nat -> nth q (cumsum_from acc ps) 0 == acc + prefix_sum (S q) ps.
Proof.
  induction ps as [|p ps IH]; intros acc q H; simpl in H; [lia|]. destruct q as [|q]; simpl.
  - ring.
  - rewrite IH by lia. simpl. ring.
Qed.

Lemma searchsorted_le a u : (searchsorted a u <= length a)%nat.
Proof. induction a as [|x a IH]; simpl; [lia|]. destruct (Qltb x u); lia. Qed.

Lemma cumsum_from_length ps : forall acc, length (cumsum_from acc ps) = length ps.
Proof. induction ps as [|p ps IH]; intro acc; simpl; [reflexivity | rewrite IH; reflexivity]. Qed.

Lemma searchsorted_all u : forall ps acc, searchsorted (cumsum_from acc ps) u = length ps -> ps <> [] -> acc + qsum ps < u.
Proof.
  induction ps as [|p ps IHp]; intros acc Hs Hne; [congruence|]. simpl in Hs. destruct (Qltb (acc + p) u) eqn:C; [|discriminate].
  apply Qltb_lt in C. destruct ps as [|p2 ps]; [simpl; lra|]. injection Hs as Hs.
  specialize (IHp (acc + p) Hs ltac:(discriminate)). simpl in *. lra.
Qed.

Lemma prefix_sum_S (f : box -> Q) : forall bs k b, nth_error bs k = Some b ->
  prefix_sum (S k) (map f bs) == prefix_sum k (map f bs) + f b.
Proof.
  induction bs as [|x bs IH]; intros [|k] b E; simpl in *; try discriminate.
  - inversion E; subst. ring.
  - rewrite (IH k b E). ring.
Qed.

(* selection of the block of segments by searchsorted on the cumulative totals *)
Lemma concat_locate u : forall (Ss : list (list seg)) (ps : list Q) acc,
  Forall2 (fun Sg p => total Sg == p /\ seg_nonneg Sg /\ Sg <> []) Ss ps ->
  let k := searchsorted (cumsum_from acc ps) u in
  match nth_error Ss k with
  | Some Sg => locate_r acc (concat Ss) u = locate_r (acc + prefix_sum k ps) Sg u
              /\ (exists lab, locate_r (acc + prefix_sum k ps) Sg u = Some lab)
              /\ (k = O \/ acc + prefix_sum k ps < u) /\ u <= acc + prefix_sum (Datatypes.S k) ps
  | None => k = length Ss
  end.
Proof.
  induction Ss as [|Sg Ss IH]; intros ps acc H; inversion H as [|? p ? ps' (T & N & Ne) H']; subst; [reflexivity|].
  cbn [cumsum_from searchsorted]. destruct (Qltb (acc + p) u) eqn:C.
  - apply Qltb_lt in C. specialize (IH ps' (acc + p) H'). cbv zeta in IH.
    set (k' := searchsorted (cumsum_from (acc + p) ps') u) in *. cbn [nth_error].
    destruct (nth_error Ss k') as [Sg'|] eqn:E.
    + destruct IH as (L & Ex & Lo & Hi). cbn [concat]. rewrite locate_r_app.
      rewrite locate_r_none by (try assumption; rewrite T; assumption).
      rewrite (locate_r_ext (acc + total Sg) (acc + p)) by (rewrite T; reflexivity).
      assert (Ep : acc + prefix_sum (Datatypes.S k') (p :: ps') == acc + p + prefix_sum k' ps') by (simpl; ring).
      split; [rewrite L; apply locate_r_ext; rewrite Ep; reflexivity|].
      split; [destruct Ex as (lab & Ex); exists lab; rewrite <- Ex; apply locate_r_ext; exact Ep|].
      split; [right; rewrite Ep; destruct Lo as [->|Lo]; [simpl; lra | exact Lo]|].
      simpl. simpl in Hi. lra.
    + simpl. lia.
  - apply Qltb_false in C. cbn [nth_error concat prefix_sum]. rewrite locate_r_app.
    destruct (locate_r_some acc Sg u Ne ltac:(rewrite T; lra)) as (lab & E). rewrite E.
    split; [rewrite <- E; apply locate_r_ext; ring|]. split; [exists lab; rewrite <- E; apply locate_r_ext; ring|].
    split; [left; reflexivity | simpl; lra].
Qed.

Section NdBuckets.
  Variable bm : box -> Q.
  Variable B : Z.
  Hypothesis bm_nonneg : forall b, wfb B b -> 0 <= bm b.
  Hypothesis bm_split : forall b k m, wfb B b -> (k < length b)%nat ->
    (fst (nth k b (0, 0)%Z) <= m < snd (nth k b (0, 0)%Z))%Z ->
    bm b == bm (upd b k (fst (nth k b (0, 0)%Z), m)) + bm (upd b k ((m + 1)%Z, snd (nth k b (0, 0)%Z))).
  Variable d : nat.
  Variable n o : Z.

  (* ---------- buckets that move along one axis only: the cached cumulative vector ---------- *)
  Lemma upd_upd {A} (l : list A) : forall k x y, upd (upd l k x) k y = upd l k y.
  Proof. induction l as [|z l IH]; intros [|k] x y; simpl; try reflexivity. rewrite IH. reflexivity. Qed.

  Definition axis_cell (b : box) (k : nat) (c : Z) : box := upd b k (c, c).
  Definition axis_segs (b : box) : list seg :=
    let k := moving_axis_index b in let lr := nth k b (0, 0)%Z in
    map (fun c => (bm (axis_cell b k c), label B (axis_cell b k c))) (zrange_incl (fst lr) (Z.to_nat (snd lr - fst lr + 1))).

  Lemma axis_cum_segs b : axis_cum bm b = cumsum_from 0 (map fst (axis_segs b)).
  Proof. unfold axis_cum, axis_segs, cumsum, axis_cell. rewrite map_map. reflexivity. Qed.

  Lemma axis_total b k : wfb B b -> (k < length b)%nat -> forall cnt l,
    fst (nth k b (0, 0)%Z) = l -> Z.to_nat (snd (nth k b (0, 0)%Z) - l + 1) = S cnt ->
    total (map (fun c => (bm (axis_cell b k c), label B (axis_cell b k c))) (zrange_incl l (S cnt))) == bm b
    /\ seg_nonneg (map (fun c => (bm (axis_cell b k c), label B (axis_cell b k c))) (zrange_incl l (S cnt))).
  Proof.
    intros W Hk. pose proof (wfb_nth B b k W Hk) as [[R0 R1] R2].
    assert (Gen : forall cnt l r, (0 <= l)%Z -> (r < B)%Z -> Z.to_nat (r - l + 1) = S cnt ->
              total (map (fun c => (bm (axis_cell b k c), label B (axis_cell b k c))) (zrange_incl l (S cnt))) == bm (upd b k (l, r))
              /\ seg_nonneg (map (fun c => (bm (axis_cell b k c), label B (axis_cell b k c))) (zrange_incl l (S cnt)))).
    { induction cnt as [|cnt IH]; intros l r H0 H1 E.
      - assert (r = l) by lia. subst r. cbn [zrange_incl map total]. unfold axis_cell. split; [ring|].
        constructor; [simpl; apply bm_nonneg; apply wfb_upd; [assumption | lia | lia] | constructor].
      - assert (Hlr : (l < r)%Z) by lia.
        assert (Wb : wfb B (upd b k (l, r))) by (apply wfb_upd; [assumption | lia | lia]).
        pose proof (bm_split (upd b k (l, r)) k l Wb ltac:(rewrite upd_length; assumption)) as Sp.
        rewrite (nth_upd_eq b k (l, r) (0, 0)%Z Hk) in Sp. cbn [fst snd] in Sp. specialize (Sp ltac:(lia)).
        rewrite !upd_upd in Sp.
        destruct (IH (l + 1)%Z r ltac:(lia) H1 ltac:(lia)) as [T N].
        change (zrange_incl l (S (S cnt))) with (l :: zrange_incl (l + 1) (S cnt)). cbn [map total].
        split; [rewrite T, Sp; unfold axis_cell; ring|].
        constructor; [simpl; apply bm_nonneg; apply wfb_upd; [assumption | lia | lia] | exact N]. }
    intros cnt l El E. destruct (Gen cnt l (snd (nth k b (0, 0)%Z)) ltac:(lia) R2 E) as [T N]. split; [|exact N].
    rewrite T. assert (Eb : upd b k (l, snd (nth k b (0, 0)%Z)) = b).
    { rewrite <- El. clear. revert k. induction b as [|x b IH]; intros [|k]; simpl; try reflexivity; [destruct x; reflexivity | rewrite IH; reflexivity]. }
    rewrite Eb. reflexivity.
  Qed.

  (* ---------- the cached-axis branch: searchsorted (axis_cum b) = locate_r (axis_segs b) ---------- *)
  Lemma moving_one b : moving_axes b = 1%nat ->
    let k := moving_axis_index b in
    (k < length b)%nat /\ degenerate (nth k b (0, 0)%Z) = false
    /\ forall j, j <> k -> (j < length b)%nat -> degenerate (nth j b (0, 0)%Z) = true.
  Proof.
    unfold moving_axes. induction b as [|x b IH]; intro H; [simpl in H; lia|].
    cbn [filter moving_axis_index] in *. destruct (degenerate x) eqn:D; cbn [negb] in H.
    - destruct (IH H) as (H1 & H2 & H3). cbv zeta. split; [simpl; lia|]. split; [exact H2|].
      intros [|j] Hj Hl; [exact D|]. simpl. apply H3; [lia | simpl in Hl; lia].
    - cbn [length] in H. assert (E : filter (fun lr => negb (degenerate lr)) b = []) by (destruct (filter _ b); [reflexivity | simpl in H; lia]).
      cbv zeta. split; [simpl; lia|]. split; [exact D|].
      intros [|j] Hj Hl; [congruence|]. simpl. simpl in Hl.
      assert (Hin : In (nth j b (0, 0)%Z) b) by (apply nth_In; lia).
      destruct (degenerate (nth j b (0, 0)%Z)) eqn:Dj; [reflexivity|]. exfalso.
      assert (In (nth j b (0, 0)%Z) (filter (fun lr => negb (degenerate lr)) b)) by (apply filter_In; split; [assumption | rewrite Dj; reflexivity]).
      rewrite E in H0. contradiction.
  Qed.

  Lemma axis_cell_map i : forall b k, (k < length b)%nat -> degenerate (nth k b (0, 0)%Z) = false ->
    (forall j, j <> k -> (j < length b)%nat -> degenerate (nth j b (0, 0)%Z) = true) ->
    map (fun lr => if degenerate lr then fst lr else (fst lr + i)%Z) b
    = map fst (upd b k ((fst (nth k b (0, 0)%Z) + i)%Z, (fst (nth k b (0, 0)%Z) + i)%Z)).
  Proof.
    induction b as [|x b IH]; intros k Hk Dk Ho; [simpl in Hk; lia|]. destruct k as [|k]; simpl in *.
    - rewrite Dk. f_equal. clear IH Dk Hk. assert (Hall : forall j, (j < length b)%nat -> degenerate (nth j b (0, 0)%Z) = true) by (intros j Hj; apply (Ho (S j)); lia).
      clear Ho. induction b as [|y b IHb]; [reflexivity|]. simpl. pose proof (Hall 0%nat ltac:(simpl; lia)) as D0. simpl in D0. rewrite D0. f_equal.
      apply IHb. intros j Hj. apply (Hall (S j)). simpl. lia.
    - pose proof (Ho 0%nat ltac:(lia) ltac:(lia)) as D0. simpl in D0. rewrite D0. f_equal. apply IH; [lia | assumption|].
      intros j Hj Hl. apply (Ho (S j)); lia.
  Qed.

  Lemma zrange_incl_nth : forall cnt l i, (i < cnt)%nat -> nth_error (zrange_incl l cnt) i = Some (l + Z.of_nat i)%Z.
  Proof.
    induction cnt as [|cnt IH]; intros l i H; [lia|]. destruct i as [|i]; simpl; [f_equal; lia|].
    rewrite IH by lia. f_equal. lia.
  Qed.
  Lemma zrange_incl_length : forall cnt l, length (zrange_incl l cnt) = cnt.
  Proof. induction cnt as [|cnt IH]; intro l; simpl; [reflexivity | rewrite IH; reflexivity]. Qed.

  Lemma concat_singletons {A} (l : list A) : concat (map (fun x => [x]) l) = l.
  Proof. induction l as [|x l IH]; simpl; [reflexivity | rewrite IH; reflexivity]. Qed.

  (* what the model returns for an axis bucket, with the residual prob *)
  Definition axis_out (b : box) (prob : Q) : list Z :=
    let ith := Z.of_nat (Nat.min (searchsorted (axis_cum bm b) prob) (length (axis_cum bm b) - 1)) in
    map (fun lr => if degenerate lr then fst lr else (fst lr + ith)%Z) b.

  Theorem axis_bucket_law (b : box) : wfb B b -> moving_axes b = 1%nat ->
    total (axis_segs b) == bm b /\ seg_nonneg (axis_segs b) /\ axis_segs b <> []
    /\ (forall lab, In lab (map snd (axis_segs b)) -> exists c, InBox c b /\ lab = enc B c)
    /\ (forall c, InBox c b -> len_of (enc B c) (axis_segs b) == bm (cellbox c))
    /\ (forall prob, prob <= bm b -> InBox (axis_out b prob) b /\ locate_r 0 (axis_segs b) prob = Some (enc B (axis_out b prob))).
  Proof.
    intros W M1. destruct (moving_one b M1) as (Hk & Dk & Ho). set (k := moving_axis_index b) in *.
    pose proof (wfb_nth B b k W Hk) as [[R0 R1] R2]. set (lr := nth k b (0, 0)%Z) in *.
    unfold degenerate in Dk. fold lr in Dk. apply Z.eqb_neq in Dk.
    set (cnt := Z.to_nat (snd lr - fst lr)). assert (Ecnt : Z.to_nat (snd lr - fst lr + 1) = S cnt) by (unfold cnt; lia).
    assert (Eseg : axis_segs b = map (fun c => (bm (axis_cell b k c), label B (axis_cell b k c))) (zrange_incl (fst lr) (S cnt))).
    { unfold axis_segs. fold k lr. rewrite Ecnt. reflexivity. }
    destruct (axis_total b k W Hk cnt (fst lr) eq_refl Ecnt) as [T N]. rewrite <- Eseg in T, N.
    assert (Wc : forall c, (fst lr <= c <= snd lr)%Z -> wfb B (axis_cell b k c)) by (intros c Hc; apply wfb_upd; [assumption | lia | lia]).
    assert (Cell : forall c, (fst lr <= c <= snd lr)%Z -> InBox (map fst (axis_cell b k c)) b).
    { intros c Hc. apply (InBox_upd_out _ b k c c (InBox_self B _ (Wc c Hc)) Hk); fold lr; lia. }
    assert (InZ : forall c, In c (zrange_incl (fst lr) (S cnt)) -> (fst lr <= c <= snd lr)%Z).
    { intros c Hc. destruct (In_nth_error _ _ Hc) as (i & Hi).
      assert (i < S cnt)%nat by (rewrite <- (zrange_incl_length (S cnt) (fst lr)); apply nth_error_Some; rewrite Hi; discriminate).
      rewrite zrange_incl_nth in Hi by assumption. inversion Hi. unfold cnt in *. lia. }
    split; [exact T|]. split; [exact N|]. split; [rewrite Eseg; discriminate|].
    assert (Lab : forall lab, In lab (map snd (axis_segs b)) -> exists c, InBox c b /\ lab = enc B c).
    { intros lab Hin. rewrite Eseg, map_map in Hin. apply in_map_iff in Hin. destruct Hin as (c & <- & Hc).
      exists (map fst (axis_cell b k c)). split; [apply Cell; apply InZ; assumption | reflexivity]. }
    split; [exact Lab|].
    (* a cell of the bucket is determined by its coordinate on the moving axis *)
    assert (CellOf : forall c, InBox c b -> c = map fst (axis_cell b k (nth k c 0%Z)) /\ cellbox c = axis_cell b k (nth k c 0%Z)).
    { intros c Hc. unfold axis_cell. clear -Hc Hk Ho. unfold k in *. revert Hk Ho. generalize (moving_axis_index b) as kk. intros kk Hk Ho.
      revert kk Hk Ho. induction Hc as [|x y c b Hx H IH]; intros kk Hk Ho; [simpl in Hk; lia|].
      destruct kk as [|kk]; simpl.
      - assert (Hall : forall j, (j < length b)%nat -> degenerate (nth j b (0, 0)%Z) = true) by (intros j Hj; apply (Ho (S j)); simpl; lia).
        assert (E : c = map fst b /\ cellbox c = b).
        { clear -H Hall. induction H as [|x y c b Hx H IH]; [split; reflexivity|].
          pose proof (Hall 0%nat ltac:(simpl; lia)) as D0. simpl in D0. unfold degenerate in D0. apply Z.eqb_eq in D0.
          destruct (IH (fun j Hj => Hall (S j) ltac:(simpl; lia))) as [E1 E2]. destruct y as [l r]. simpl in *.
          assert (x = l) by lia. assert (r = l) by lia. subst. split; [f_equal; assumption | unfold cellbox in *; simpl; f_equal; assumption]. }
        destruct E as [E1 E2]. split; [f_equal; exact E1 | unfold cellbox in *; simpl; f_equal; exact E2].
      - pose proof (Ho 0%nat ltac:(lia) ltac:(simpl; lia)) as D0. simpl in D0. unfold degenerate in D0. apply Z.eqb_eq in D0.
        destruct (IH kk ltac:(simpl in Hk; lia) (fun j Hj Hl => Ho (S j) ltac:(lia) ltac:(simpl; lia))) as [E1 E2].
        destruct y as [l r]. simpl in *. assert (x = l) by lia. assert (r = l) by lia. subst.
        split; [f_equal; exact E1 | unfold cellbox in *; simpl; f_equal; exact E2]. }
    split.
    - intros c Hc. destruct (CellOf c Hc) as [E1 E2]. pose proof (InBox_nth c b Hc k Hk) as Hck. fold lr in Hck.
      set (ck := nth k c 0%Z) in *.
      assert (Hn : forall z, nth k (map fst (axis_cell b k z)) 0%Z = z).
      { intro z. unfold axis_cell. change 0%Z with (fst (0, 0)%Z) at 1. rewrite map_nth, (nth_upd_eq b k (z, z) (0, 0)%Z Hk). reflexivity. }
      assert (LabInj : forall z z', (fst lr <= z <= snd lr)%Z -> (fst lr <= z' <= snd lr)%Z ->
                 label B (axis_cell b k z) = label B (axis_cell b k z') -> z = z').
      { intros z z' Hz Hz' El. unfold label in El. apply (enc_inj B) in El.
        - rewrite <- (Hn z), <- (Hn z'), El. reflexivity.
        - unfold axis_cell. rewrite !map_length, !upd_length. reflexivity.
        - apply (InBox_digits B _ b W). apply Cell. assumption.
        - apply (InBox_digits B _ b W). apply Cell. assumption. }
      assert (Hin : In ck (zrange_incl (fst lr) (S cnt))).
      { apply (nth_error_In _ (Z.to_nat (ck - fst lr))). rewrite zrange_incl_nth by (unfold cnt; lia). f_equal. lia. }
      destruct (in_split _ _ Hin) as (pre & post & Esp).
      assert (ND : NoDup (zrange_incl (fst lr) (S cnt))).
      { clear. generalize (fst lr). induction (S cnt) as [|m IH]; intro l; simpl; constructor; [|apply IH].
        intro Hc. assert (G0 : forall m0 l0 x, In x (zrange_incl l0 m0) -> (l0 <= x)%Z).
        { induction m0 as [|m0 IH0]; intros l0 x Hx; simpl in Hx; [contradiction|]. destruct Hx as [<-|Hx]; [lia | apply IH0 in Hx; lia]. }
        apply G0 in Hc. lia. }
      rewrite Esp in ND. apply NoDup_remove_2 in ND.
      assert (Elab : enc B c = label B (axis_cell b k ck)) by (unfold label; rewrite <- E1; reflexivity).
      rewrite Eseg, Esp, map_app. cbn [map]. rewrite E2, Elab.
      apply len_of_unique; rewrite map_map; cbn [snd]; intro Hc'; apply in_map_iff in Hc'; destruct Hc' as (c' & El & Hc'').
      + assert (c' = ck) by (apply LabInj; [apply InZ; rewrite Esp; apply in_or_app; left; assumption | lia | exact El]).
        subst c'. apply ND. apply in_or_app. left. assumption.
      + assert (c' = ck) by (apply LabInj; [apply InZ; rewrite Esp; apply in_or_app; right; right; assumption | lia | exact El]).
        subst c'. apply ND. apply in_or_app. right. assumption.
    - intros prob Hp. unfold axis_out. rewrite (axis_cum_segs b).
      set (ps := map fst (axis_segs b)).
      assert (Lps : length ps = S cnt) by (unfold ps; rewrite Eseg, !map_length, zrange_incl_length; reflexivity).
      rewrite cumsum_from_length, Lps.
      pose proof (searchsorted_le (cumsum_from 0 ps) prob) as Hle. rewrite cumsum_from_length, Lps in Hle.
      set (i := searchsorted (cumsum_from 0 ps) prob) in *.
      assert (Hi : (i < S cnt)%nat).
      { destruct (Nat.eq_dec i (S cnt)) as [E|E]; [|lia]. exfalso.
        pose proof (searchsorted_all prob ps 0 ltac:(fold i; lia) ltac:(destruct ps; [simpl in Lps; lia | discriminate])) as Ha.
        assert (Et : qsum ps == total (axis_segs b)).
        { unfold ps. clear. induction (axis_segs b) as [|[l k0] r IH]; simpl; [reflexivity | rewrite IH; reflexivity]. }
        rewrite Et, T in Ha. lra. }
      rewrite Nat.min_l by lia.
      assert (F2 : Forall2 (fun Sg p => total Sg == p /\ seg_nonneg Sg /\ Sg <> []) (map (fun s => [s]) (axis_segs b)) ps).
      { unfold ps. clear -N. induction (axis_segs b) as [|[l k0] r IH]; simpl; constructor.
        - simpl. split; [ring|]. split; [constructor; [inversion N; assumption | constructor] | discriminate].
        - apply IH. inversion N; assumption. }
      pose proof (concat_locate prob _ _ 0 F2) as CL. cbv zeta in CL. fold i in CL. rewrite concat_singletons in CL.
      rewrite nth_error_map in CL.
      assert (Es : nth_error (axis_segs b) i = Some (bm (axis_cell b k (fst lr + Z.of_nat i)), label B (axis_cell b k (fst lr + Z.of_nat i)))).
      { rewrite Eseg, nth_error_map, zrange_incl_nth by assumption. reflexivity. }
      rewrite Es in CL. cbn [option_map] in CL. destruct CL as (L & (lab & Ex) & _).
      rewrite (axis_cell_map (Z.of_nat i) b k Hk ltac:(unfold degenerate; fold lr; apply Z.eqb_neq; lia) Ho). fold lr.
      split; [apply Cell; unfold cnt in *; lia|].
      rewrite L. simpl in Ex |- *. destruct (Qle_bool prob (0 + prefix_sum i ps + bm (axis_cell b k (fst lr + Z.of_nat i)))); [reflexivity | discriminate].
  Qed.

  (* ---------- the two stages composed: every bucket, served from the cached vector or by the bisection ---------- *)
  Definition seg_of (b : box) : list seg := if is_axis_bucket d n b then axis_segs b else bucket_segs bm B b.

  Lemma is_axis_moving b : is_axis_bucket d n b = true -> moving_axes b = 1%nat.
  Proof. unfold is_axis_bucket. intro H. apply andb_true_iff in H. destruct H as [_ H]. apply Nat.eqb_eq in H. exact H. Qed.

  Lemma seg_of_spec b : wfb B b ->
    total (seg_of b) == bm b /\ seg_nonneg (seg_of b) /\ seg_of b <> []
    /\ (forall lab, In lab (map snd (seg_of b)) -> exists c, InBox c b /\ lab = enc B c)
    /\ (forall c, InBox c b -> len_of (enc B c) (seg_of b) == bm (cellbox c)).
  Proof.
    intro W. unfold seg_of. destruct (is_axis_bucket d n b) eqn:A.
    - destruct (axis_bucket_law b W (is_axis_moving b A)) as (T & N & Ne & Lab & Len & _). repeat split; assumption.
    - destruct (sample_one_bucket_law bm B bm_nonneg bm_split b W) as (T & N & Ne & Len & Lab & _). repeat split; assumption.
  Qed.

  Theorem nd_sample_with_law (bs : list box) : bs <> [] -> Forall (wfb B) bs ->
    let segs := concat (map seg_of bs) in
    total segs == qsum (map bm bs)
    /\ seg_nonneg segs
    /\ forall u, u <= qsum (map bm bs) ->
         exists b cell, In b bs /\ InBox cell b
                        /\ nd_sample_with bm d n o bs u = Some (map (fun c => (c - o)%Z) cell)
                        /\ locate_r 0 segs u = Some (enc B cell).
  Proof.
    intros Hne W segs.
    assert (F2 : Forall2 (fun Sg p => total Sg == p /\ seg_nonneg Sg /\ Sg <> []) (map seg_of bs) (map bm bs)).
    { clear segs Hne. induction W as [|b bs Wb W IH]; simpl; constructor; [|assumption].
      destruct (seg_of_spec b Wb) as (T & N & Ne & _). repeat split; assumption. }
    split.
    { unfold segs. clear F2 Hne. induction W as [|b bs Wb W IH]; simpl; [reflexivity|].
      destruct (seg_of_spec b Wb) as (T & _). rewrite total_app, T, IH. reflexivity. }
    split.
    { unfold segs. clear F2 Hne. induction W as [|b bs Wb W IH]; simpl; [constructor|].
      destruct (seg_of_spec b Wb) as (_ & N & _). apply seg_nonneg_app. split; assumption. }
    intros u Hu. pose proof (concat_locate u _ _ 0 F2) as CL. cbv zeta in CL.
    unfold nd_sample_with, cumsum.
    set (k := searchsorted (cumsum_from 0 (map bm bs)) u) in *.
    rewrite nth_error_map in CL. destruct (nth_error bs k) as [b|] eqn:E; cbn [option_map] in CL.
    - destruct CL as (L & _ & Lo & Hi).
      assert (Hin : In b bs) by (eapply nth_error_In; eassumption).
      pose proof (proj1 (Forall_forall _ _) W b Hin) as Wb.
      set (prob := match k with O => u | S q => u - nth q (cumsum_from 0 (map bm bs)) 0 end).
      assert (Hkl : (k < length bs)%nat) by (apply nth_error_Some; rewrite E; discriminate).
      assert (Ep : prob == u - (0 + prefix_sum k (map bm bs))).
      { unfold prob. destruct k as [|q]; [simpl; ring|]. rewrite cumsum_from_nth by (rewrite map_length; lia). ring. }
      assert (Hp : prob <= bm b) by (rewrite Ep; rewrite (prefix_sum_S bm bs k b E) in Hi; lra).
      assert (Sh : forall Sg, locate_r (0 + prefix_sum k (map bm bs)) Sg u = locate_r 0 Sg prob).
      { intro Sg. rewrite (locate_r_shift _ (0 + prefix_sum k (map bm bs)) u).
        apply locate_r_ext2; [reflexivity | rewrite Ep; reflexivity]. }
      unfold segs. rewrite L, Sh. unfold seg_of. destruct (is_axis_bucket d n b) eqn:A.
      + destruct (axis_bucket_law b Wb (is_axis_moving b A)) as (_ & _ & _ & _ & _ & Ax). destruct (Ax prob Hp) as [Hc Loc].
        exists b, (axis_out b prob). split; [assumption|]. split; [assumption|]. split; [|exact Loc].
        unfold axis_out. rewrite map_map. reflexivity.
      + destruct (sample_one_bucket_law bm B bm_nonneg bm_split b Wb) as (_ & _ & _ & _ & _ & Smp).
        destruct (Smp prob) as (c & G & Hc & Loc). exists b, c. split; [assumption|]. split; [assumption|].
        rewrite G. split; [reflexivity | apply Loc; assumption].
    - exfalso. apply nth_error_None in E.
      pose proof (searchsorted_le (cumsum_from 0 (map bm bs)) u) as Hk. fold k in Hk.
      rewrite cumsum_from_length, map_length in Hk. assert (Ek : k = length (map bm bs)) by (rewrite map_length; lia).
      pose proof (searchsorted_all u (map bm bs) 0 Ek ltac:(destruct bs; [congruence | discriminate])). lra.
  Qed.
End NdBuckets.

(* ---------- the buckets of _pre_computation: itertools.product of the per-axis pieces minus the origin cell ---------- *)
Section RealBuckets.
  Variable n o : Z.
  Hypothesis o_range : (1 <= o)%Z /\ (o + 1 <= n - 1)%Z.

  Definition piece_of (x : Z) : Z * Z := if (x =? o)%Z then (o, o) else if (x <? o)%Z then (0, o - 1)%Z else ((o + 1)%Z, (n - 1)%Z).
  Definition box_of (c : list Z) : box := map piece_of c.

  Lemma piece_in x : In (piece_of x) (axis_pieces n o).
  Proof. unfold piece_of, axis_pieces. destruct (x =? o)%Z; [left; reflexivity|]. destruct (x <? o)%Z; simpl; auto. Qed.

  Lemma piece_contains x : (0 <= x < n)%Z -> (fst (piece_of x) <= x <= snd (piece_of x))%Z.
  Proof.
    intro H. unfold piece_of. destruct (Z.eqb_spec x o); [simpl; lia|]. destruct (Z.ltb_spec x o); simpl; lia.
  Qed.

  Lemma piece_unique lr x : In lr (axis_pieces n o) -> (fst lr <= x <= snd lr)%Z -> lr = piece_of x.
  Proof.
    unfold axis_pieces, piece_of. intros [<-|[<-|[<-|[]]]] H; simpl in H.
    - assert ((x =? o)%Z = true) as -> by (apply Z.eqb_eq; lia). reflexivity.
    - assert ((x =? o)%Z = false) as -> by (apply Z.eqb_neq; lia). assert ((x <? o)%Z = true) as -> by (apply Z.ltb_lt; lia). reflexivity.
    - assert ((x =? o)%Z = false) as -> by (apply Z.eqb_neq; lia). assert ((x <? o)%Z = false) as -> by (apply Z.ltb_ge; lia). reflexivity.
  Qed.

  Lemma product_spec k : forall b, In b (boxes_product n o k) <-> length b = k /\ Forall (fun lr => In lr (axis_pieces n o)) b.
  Proof.
    induction k as [|k IH]; intro b; cbn [boxes_product].
    - split; [intros [<-|[]]; split; [reflexivity | constructor] | intros [L _]; destruct b; [left; reflexivity | discriminate]].
    - rewrite in_flat_map. split.
      + intros (iv & Hiv & Hb). apply in_map_iff in Hb. destruct Hb as (b' & <- & Hb'). apply IH in Hb'. destruct Hb' as [L Fa].
        split; [simpl; congruence | constructor; assumption].
      + intros [L Fa]. destruct b as [|iv b']; [discriminate|]. inversion Fa; subst. exists iv. split; [assumption|].
        apply in_map. apply IH. split; [simpl in L; lia | assumption].
  Qed.

  Lemma product_wf k b : In b (boxes_product n o k) -> wfb n b.
  Proof.
    intro H. apply product_spec in H. destruct H as [_ Fa]. unfold wfb. eapply Forall_impl; [|exact Fa].
    intros lr Hin. unfold axis_pieces in Hin. destruct Hin as [<-|[<-|[<-|[]]]]; simpl; lia.
  Qed.

  Lemma box_of_in c : Forall (fun x => (0 <= x < n)%Z) c -> In (box_of c) (boxes_product n o (length c)) /\ InBox c (box_of c).
  Proof.
    intro H. split.
    - apply product_spec. unfold box_of. rewrite map_length. split; [reflexivity|]. apply Forall_forall. intros lr Hin.
      apply in_map_iff in Hin. destruct Hin as (x & <- & _). apply piece_in.
    - unfold InBox, box_of. induction H as [|x c Hx H IH]; simpl; constructor; [apply piece_contains; assumption | assumption].
  Qed.

  Lemma box_of_unique k b c : In b (boxes_product n o k) -> InBox c b -> b = box_of c.
  Proof.
    intros Hb Hc. apply product_spec in Hb. destruct Hb as [_ Fa]. unfold box_of.
    induction Hc as [|x lr c b Hx H IH]; [reflexivity|]. inversion Fa; subst. simpl. f_equal; [apply piece_unique; assumption | apply IH; assumption].
  Qed.

  Lemma product_head k : exists rest, boxes_product n o k = repeat (o, o) k :: rest.
  Proof.
    induction k as [|k [rest IH]]; [exists []; reflexivity|]. cbn [boxes_product axis_pieces flat_map]. rewrite IH. cbn [map app repeat].
    eexists. reflexivity.
  Qed.

  Lemma product_nodup k : NoDup (boxes_product n o k).
  Proof.
    induction k as [|k IH]; [constructor; [simpl; tauto | constructor]|].
    cbn [boxes_product axis_pieces flat_map]. rewrite app_nil_r.
    assert (Inj : forall iv, NoDup (map (cons iv) (boxes_product n o k))).
    { intro iv. apply FinFun.Injective_map_NoDup; [intros a b E; inversion E; reflexivity | exact IH]. }
    assert (Dis : forall iv iv' x, iv <> iv' -> In x (map (cons iv) (boxes_product n o k)) -> In x (map (cons iv') (boxes_product n o k)) -> False).
    { intros iv iv' x Hne H1 H2. apply in_map_iff in H1. apply in_map_iff in H2. destruct H1 as (a & <- & _). destruct H2 as (b & E & _). inversion E. congruence. }
    apply NoDup_app'; [apply Inj | apply NoDup_app'; [apply Inj | apply Inj |] |].
    - intros x. apply Dis. intro E. inversion E. lia.
    - intros x H1 H2. apply in_app_or in H2. destruct H2 as [H2|H2]; revert H1 H2; apply Dis; intro E; inversion E; lia.
  Qed.

  Lemma box_of_origin c : box_of c = repeat (o, o) (length c) -> c = repeat o (length c).
  Proof.
    induction c as [|x c IH]; intro H; [reflexivity|]. cbn [box_of map length repeat] in *. injection H as Hx Hc. f_equal; [|apply IH; exact Hc].
    unfold piece_of in Hx. destruct (Z.eqb_spec x o); [assumption|]. destruct (x <? o)%Z; inversion Hx; lia.
  Qed.

  (* every non-origin cell of the grid lies in exactly one bucket *)
  Theorem buckets_partition d c : length c = d -> Forall (fun x => (0 <= x < n)%Z) c -> c <> repeat o d ->
    exists pre post, buckets d n o = pre ++ box_of c :: post /\ InBox c (box_of c)
                     /\ (forall b, In b (pre ++ post) -> ~ InBox c b).
  Proof.
    intros L Fc Hne. destruct (box_of_in c Fc) as [Hin Hc]. rewrite L in Hin.
    destruct (product_head d) as (rest & Eh). unfold buckets. pose proof (product_nodup d) as ND. rewrite Eh in *. cbn [tl].
    destruct Hin as [E|Hin]; [exfalso; apply Hne; rewrite <- L; apply box_of_origin; rewrite L; symmetry; exact E|].
    destruct (in_split _ _ Hin) as (pre & post & Er). exists pre, post. split; [exact Er|]. split; [exact Hc|].
    intros b Hb Hcb. assert (Hbp : In b (boxes_product n o d)).
    { rewrite Eh. right. rewrite Er. apply in_app_or in Hb. apply in_or_app. destruct Hb; [left; assumption | right; right; assumption]. }
    pose proof (box_of_unique d b c Hbp Hcb) as Eb. subst b.
    apply NoDup_cons_iff in ND. destruct ND as [_ ND']. rewrite Er in ND'. apply NoDup_remove_2 in ND'. contradiction.
  Qed.

  Lemma buckets_wf d : Forall (wfb n) (buckets d n o).
  Proof.
    apply Forall_forall. intros b Hb. apply (product_wf d). unfold buckets in Hb. destruct (boxes_product n o d); [contradiction | right; assumption].
  Qed.

  Lemma buckets_nonempty d : (1 <= d)%nat -> buckets d n o <> [].
  Proof.
    intro Hd. destruct d as [|d]; [lia|]. unfold buckets. cbn [boxes_product axis_pieces flat_map].
    destruct (product_head d) as (rest & Eh). rewrite Eh. cbn [map app tl]. destruct rest; discriminate.
  Qed.
End RealBuckets.

(* ---------- the law of nd_sample on the real bucket list ---------- *)
Section NdSampleLaw.
  Variable bm : box -> Q.
  Variable d : nat.
  Variable n o : Z.
  Hypothesis bm_nonneg : forall b, wfb n b -> 0 <= bm b.
  Hypothesis bm_split : forall b k m, wfb n b -> (k < length b)%nat ->
    (fst (nth k b (0, 0)%Z) <= m < snd (nth k b (0, 0)%Z))%Z ->
    bm b == bm (upd b k (fst (nth k b (0, 0)%Z), m)) + bm (upd b k ((m + 1)%Z, snd (nth k b (0, 0)%Z))).
  Hypothesis o_range : (1 <= o)%Z /\ (o + 1 <= n - 1)%Z.
  Hypothesis d_pos : (1 <= d)%nat.

  (* the consecutive right-closed intervals of the sampler: bucket after bucket *)
  Definition nd_segs_all : list seg := concat (map (seg_of bm n d n) (buckets d n o)).

  Theorem nd_sample_law :
    total nd_segs_all == qsum (map bm (buckets d n o))
    /\ seg_nonneg nd_segs_all
    /\ (forall u, u <= qsum (map bm (buckets d n o)) ->
          exists cell, length cell = d /\ Forall (fun x => (0 <= x < n)%Z) cell /\ cell <> repeat o d
                       /\ nd_sample bm d n o u = Some (map (fun c => (c - o)%Z) cell)
                       /\ locate_r 0 nd_segs_all u = Some (enc n cell))
    /\ (forall c, length c = d -> Forall (fun x => (0 <= x < n)%Z) c -> c <> repeat o d ->
          len_of (enc n c) nd_segs_all == bm (cellbox c)).
  Proof.
    pose proof (buckets_wf n o o_range d) as W. pose proof (buckets_nonempty n o d d_pos) as Ne.
    destruct (nd_sample_with_law bm n bm_nonneg bm_split d n o (buckets d n o) Ne W) as (T & N & Smp).
    split; [exact T|]. split; [exact N|]. split.
    - intros u Hu. destruct (Smp u Hu) as (b & cell & Hb & Hc & G & Loc). exists cell.
      pose proof (proj1 (Forall_forall _ _) W b Hb) as Wb.
      assert (Hbp : In b (boxes_product n o d)) by (unfold buckets in Hb; destruct (boxes_product n o d); [contradiction | right; assumption]).
      pose proof (proj1 (product_spec n o d b) Hbp) as [Lb _].
      split; [rewrite (InBox_length _ _ Hc); exact Lb|]. split; [apply (InBox_digits n cell b Wb Hc)|].
      split; [|split; [exact G | exact Loc]].
      (* the origin cell lies in no bucket *)
      intro Eo. subst cell. pose proof (box_of_unique n o d b _ Hbp Hc) as Eb.
      assert (Ebo : box_of n o (repeat o d) = repeat (o, o) d).
      { clear. unfold box_of. induction d as [|k IH]; [reflexivity|]. simpl. rewrite IH. unfold piece_of. rewrite Z.eqb_refl. reflexivity. }
      rewrite Ebo in Eb. subst b. destruct (product_head n o d) as (rest & Eh). pose proof (product_nodup n o o_range d) as ND.
      unfold buckets in Hb. rewrite Eh in *. cbn [tl] in Hb. inversion ND. contradiction.
    - intros c L Fc Hne. destruct (buckets_partition n o o_range d c L Fc Hne) as (pre & post & Eb & Hc & Oth).
      unfold nd_segs_all. rewrite Eb, map_app, concat_app. cbn [map concat]. rewrite !len_of_app.
      assert (Wb : wfb n (box_of n o c)) by (apply (proj1 (Forall_forall _ _) W); rewrite Eb; apply in_or_app; right; left; reflexivity).
      destruct (seg_of_spec bm n bm_nonneg bm_split d n (box_of n o c) Wb) as (_ & _ & _ & _ & Len).
      rewrite (Len c Hc).
      assert (Zero : forall l, (forall b, In b l -> In b (pre ++ post)) -> len_of (enc n c) (concat (map (seg_of bm n d n) l)) == 0).
      { induction l as [|b l IH]; intro Hl; [reflexivity|]. cbn [map concat]. rewrite len_of_app, IH by (intros b' Hb'; apply Hl; right; assumption).
        rewrite len_of_notin; [ring|]. intro Hin.
        assert (Hbl : In b (pre ++ post)) by (apply Hl; left; reflexivity).
        assert (Wb' : wfb n b).
        { apply (proj1 (Forall_forall _ _) W). rewrite Eb. apply in_app_or in Hbl. apply in_or_app. destruct Hbl; [left; assumption | right; right; assumption]. }
        destruct (seg_of_spec bm n bm_nonneg bm_split d n b Wb') as (_ & _ & _ & Lab & _).
        destruct (Lab _ Hin) as (c' & Hc' & E). assert (c = c').
        { apply (enc_inj n); [|exact (InBox_digits n c _ Wb Hc) | exact (InBox_digits n c' b Wb' Hc') | exact E].
          rewrite L. symmetry. rewrite (InBox_length _ _ Hc').
          assert (Hbp : In b (boxes_product n o d)).
          { assert (Hin2 : In b (buckets d n o)) by (rewrite Eb; apply in_app_or in Hbl; apply in_or_app; destruct Hbl; [left; assumption | right; right; assumption]).
            unfold buckets in Hin2. destruct (boxes_product n o d); [contradiction | right; assumption]. }
          apply (proj1 (product_spec n o d b) Hbp). }
        subst c'. apply (Oth b Hbl). exact Hc'. }
      rewrite (Zero pre) by (intros; apply in_or_app; left; assumption).
      rewrite (Zero post) by (intros; apply in_or_app; right; assumption). ring.
  Qed.
End NdSampleLaw.

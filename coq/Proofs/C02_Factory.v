(* C02 -- "never the origin" for the table-driven samplers of a 1-d chain rests on two lines of the factory:
   create_vec_jump_matrix zeroes the entry of the origin, and `states` maps index k to the increment k - origin.
   With the 'never a zero-probability state' parts of the sampler theorems this gives: increment 0 is never returned. *)
From Coq Require Import List Arith ZArith QArith Bool Lia Lqa.
From RV Require Import Base.QB Model.StepLaw Model.Bst Model.Alias Model.Huffman Model.Factory
  Proofs.C02_StepLaw Proofs.C02_Bst Proofs.C02_Huffman Proofs.C02_Alias.
Import ListNotations.
Open Scope Q_scope.

Lemma vec_jump_length q lam o : length (vec_jump q lam o) = length q.
Proof. unfold vec_jump. rewrite upd_length, map_length. reflexivity. Qed.

Lemma vec_jump_origin q lam o : (o < length q)%nat -> nth o (vec_jump q lam o) 0 = 0.
Proof. intro H. unfold vec_jump. apply nth_upd_eq. rewrite map_length. assumption. Qed.

Lemma vec_jump_other q lam o k : k <> o -> (k < length q)%nat -> nth k (vec_jump q lam o) 0 == nth k q 0 / lam.
Proof.
  intros N H. unfold vec_jump. rewrite nth_upd_neq by congruence.
  rewrite (nth_indep _ 0 ((fun x => x / lam) 0)) by (rewrite map_length; assumption).
  rewrite (map_nth (fun x => x / lam)). reflexivity.
Qed.

Lemma states_map_zero o k : states_map o k = 0%Z <-> k = o.
Proof. unfold states_map. lia. Qed.

Theorem factory_never_origin (q : list Q) (lam : Q) (o : nat) :
  let p := vec_jump q lam o in
  (o < length q)%nat -> nonneg p -> qsum p == 1 ->
  (forall u, 0 <= u -> u < 1 ->
     states_map (Z.of_nat o) (Z.of_nat (alias_draw (length p) (snd (create_alias p)) (fst (create_alias p)) u)) <> 0%Z)
  /\ (forall b, create_bst p = Some b -> forall u, 0 <= u -> u < 1 ->
        states_map (Z.of_nat o) (bst_sample (length p - 1) b u) <> 0%Z)
  /\ (forall t, create_huffman p = Some t -> forall u, 0 <= u -> u < 1 ->
        states_map (Z.of_nat o) (huff_sample t u) <> 0%Z).
Proof.
  intros p Ho Hnn Hs.
  assert (Lp : length p = length q) by apply vec_jump_length.
  assert (HK : (1 <= length p)%nat) by lia.
  assert (Z0 : nth o p 0 == 0) by (unfold p; rewrite vec_jump_origin by assumption; reflexivity).
  split; [|split].
  - intros u H0 H1 Hc. apply (proj1 (states_map_zero _ _)) in Hc. apply Nat2Z.inj in Hc.
    destruct (alias_law p HK Hnn Hs) as (_ & _ & _ & _ & Nz).
    apply (Nz u o H0 H1 ltac:(lia) Z0). exact Hc.
  - intros b Hb u H0 H1 Hc. apply (proj1 (states_map_zero _ _)) in Hc.
    destruct (bst_range_nonzero p HK Hnn b Hb u H0 ltac:(rewrite Hs; assumption)) as (_ & Nz).
    apply Nz. rewrite Hc, Nat2Z.id. exact Z0.
  - intros t Ht u H0 H1 Hc. apply (proj1 (states_map_zero _ _)) in Hc.
    destruct (huffman_range_nonzero p HK Hnn t Ht u H0 ltac:(rewrite Hs; assumption)) as (_ & Nz).
    apply Nz. rewrite Hc, Nat2Z.id. exact Z0.
Qed.

(* C02 (wave 7, audit 4: B11, D1)
   (a) the 1-d factory instance of the frontier law with the deque and max_frontier_indices TIED: fr := fr1d L R and
       F := maxf1d L R (Model/Domain.v dom_1d / dom_maxf on z1d_pair), outside := outside the grid -- the 1-d counterpart of
       C02_inversion_frontier_nd_law; interior origin (0 < L, 0 < R);
   (b) F-C02-14: on an EDGE-origin grid (L = 0 or R = 0, which the public CTMCGrid + MarkovChainProcess accept) the deque
       holds the index pair(0) = -1, which is no index of the enumeration and which project sends to the ORIGIN: for every
       probability table, storage, history and every uniform above the sum, the frontier draw at that position returns the
       increment 0.  Witnesses on the float run of /repo (prob := increments of the stored float cumulative sums). *)
From Coq Require Import List Arith ZArith QArith Bool Lia Lqa.
From RV Require Import Base.QB Gen.GenPairing Model.Pairing Model.StepLaw Model.Huffman Model.StatesManager Model.Inversion
  Model.Domain Model.InversionFrontier
  Proofs.C02_StepLaw Proofs.C02_Inversion Proofs.C14_Lazy Proofs.C14_StatesManager Proofs.C14_Z1d Proofs.C02_Lattice
  Proofs.C02_InversionAdm Proofs.C02_InversionFrontier.
Import ListNotations.
Open Scope Z_scope.

(* ---------- (a) interior origin: the law on the real 1-d deque ---------- *)
Section Frontier1dLaw.
  Variables L R : Z.
  Hypothesis HL : 0 < L.
  Hypothesis HR : 0 < R.
  Notation proj := (z1d_project (- L) R 1).
  Notation outside := (outside1d L R).
  Notation F := (maxf1d L R).
  Notation fr := (fr1d L R).

  Lemma maxf1d_range : 0 <= F < L + R.
  Proof.
    rewrite maxf1d_eq.
    destruct (z1d_pair_spec L R HL HR R ltac:(lia) ltac:(lia)) as [B1 _].
    destruct (z1d_pair_spec L R HL HR (- L) ltac:(lia) ltac:(lia)) as [B2 _].
    cbv zeta in *. lia.
  Qed.

  (* an admissible index projects to a state of the grid that is not the origin *)
  Lemma G_state_1d i : In i (G proj outside F) -> - L <= proj i <= R /\ proj i <> 0.
  Proof.
    intro Hi. apply G_spec in Hi. destruct Hi as [[H0 H1] _].
    pose proof maxf1d_range as HF.
    destruct (z1d_project_spec L R HL HR i ltac:(lia)) as [A [B _]]. cbv zeta in *. split; assumption.
  Qed.

  Theorem inversion_frontier_1d_law (prob : Z -> Q) (M : Z) :
    (forall s, (0 <= prob s)%Q) -> 1 <= M ->
    let segs := adm_segs' proj outside F prob in
    forall st, reachable proj outside F prob M st -> forall u c, (c < length fr)%nat ->
      exists s, snd (inv_step_f proj outside F prob M fr st u c) = Some s
        /\ - L <= s <= R /\ s <> 0
        /\ ((u <= total segs)%Q -> exists i, locate_r 0 segs u = Some i /\ In i (G proj outside F) /\ s = proj i
                                             /\ len_of i segs == prob s)
        /\ ((total segs < u)%Q -> s = frontier_state proj fr c /\ s = nth c [R; - L] 0).
  Proof.
    intros Hp HM segs st Hst u c Hc.
    destruct (frontier_1d L R HL HR) as [Hall [Hmap [HF _]]]. cbv zeta in Hall, Hmap.
    destruct (inversion_frontier_law proj outside F prob M fr Hp HM HF st Hst) as [H1 [_ [_ [_ H5]]]].
    destruct (H5 Hall u c Hc) as [i [Hi Eo]]. destruct (G_state_1d i Hi) as [A B].
    exists (proj i). split; [exact Eo|]. split; [exact A|]. split; [exact B|].
    pose proof (H1 u c) as E1. rewrite Eo in E1. injection E1 as E1.
    assert (Hne' : segs <> []) by (apply segs_nonempty; apply (reachable_G_nonempty proj outside F prob M Hp HM HF st Hst)).
    assert (Hnn : seg_nonneg segs) by (exact (segs_nonneg proj outside F prob M Hp HM HF)).
    pose proof (locate_r_none_iff segs u Hne' Hnn) as Hnone.
    split.
    - intros Hu. fold segs in E1. destruct (locate_r 0 segs u) as [j|] eqn:El.
      + exists j. assert (Hj : In j (G proj outside F)).
        { apply locate_r_in in El. unfold segs, adm_segs' in El. rewrite map_map in El. cbn [snd] in El. rewrite map_id in El. exact El. }
        split; [reflexivity|]. split; [exact Hj|]. split; [exact E1|].
        destruct (@inversion_admissible_full Z proj outside F prob M Hp HM HF) as [_ [_ [Hlen _]]].
        rewrite E1. apply Hlen. exact Hj.
      + exfalso. destruct Hnone as [Hn _]. specialize (Hn eq_refl). apply (Qlt_not_le _ _ Hn Hu).
    - intros Hu. fold segs in E1. destruct Hnone as [_ Hn]. rewrite (Hn Hu) in E1.
      assert (Es : proj i = frontier_state proj fr c) by exact E1.
      split; [exact Es|]. rewrite Es. unfold frontier_state.
      rewrite <- (map_nth proj fr 0 c). rewrite Hmap.
      (* the default of nth: proj 0 is only read for c >= 2, excluded by Hc *)
      rewrite fr1d_eq in Hc. cbn [length] in Hc. destruct c as [|[|c]]; [reflexivity | reflexivity | lia].
  Qed.
End Frontier1dLaw.

(* ---------- (b) edge origin: F-C02-14 ---------- *)
Lemma pair_origin_right R : 0 < R -> z1d_pair 0 R 1 0 = -1 /\ z1d_pair 0 R 1 R = R - 1.
Proof.
  intro H. unfold z1d_pair, mapping_to_z. cbn [Z.abs Z.opp].
  replace (Z.min R 0) with 0 by lia. cbn [Z.leb Z.compare Z.ltb].
  split; [reflexivity|].
  destruct (Z.leb (Z.abs R) 0) eqn:E; [apply Z.leb_le in E; lia|].
  destruct (Z.ltb 0 R) eqn:E2; [lia | apply Z.ltb_ge in E2; lia].
Qed.
Lemma pair_origin_left L : 0 < L -> z1d_pair (- L) 0 1 0 = -1 /\ z1d_pair (- L) 0 1 (- L) = L - 1.
Proof.
  intro H. unfold z1d_pair, mapping_to_z. rewrite Z.opp_involutive. cbn [Z.abs].
  replace (Z.min 0 L) with 0 by lia. cbn [Z.leb Z.compare Z.ltb].
  split; [reflexivity|].
  destruct (Z.leb (Z.abs (- L)) 0) eqn:E; [apply Z.leb_le in E; lia|].
  destruct (Z.ltb L 0) eqn:E2; [apply Z.ltb_lt in E2; lia | lia].
Qed.
Lemma project_m1_right R : 0 < R -> z1d_project 0 R 1 (-1) = 0.
Proof.
  intro H. unfold z1d_project. cbn [Z.abs Z.add]. destruct (Z.ltb 0 R) eqn:E; [|apply Z.ltb_ge in E; lia]. reflexivity.
Qed.
Lemma project_m1_left L : 0 < L -> z1d_project (- L) 0 1 (-1) = 0.
Proof.
  intro H. unfold z1d_project. replace (-1 + 1) with 0 by lia. rewrite Z.abs_opp, (Z.abs_eq L) by lia.
  destruct (Z.ltb L 0) eqn:E; [apply Z.ltb_lt in E; lia|].
  destruct (Z.ltb 0 L) eqn:E2; [|apply Z.ltb_ge in E2; lia]. reflexivity.
Qed.

(* the deque of an edge-origin axis: one entry is pair(0) = -1, never an index of the enumeration, projected to the origin *)
Theorem frontier_1d_edge :
  (forall R, 0 < R ->
     fr1d 0 R = [R - 1; -1] /\ maxf1d 0 R = R - 1
     /\ ~ In (-1) (G (z1d_project 0 R 1) (outside1d 0 R) (maxf1d 0 R))
     /\ frontier_state (z1d_project 0 R 1) (fr1d 0 R) 1 = 0)
  /\ (forall L, 0 < L ->
     fr1d L 0 = [-1; L - 1] /\ maxf1d L 0 = L - 1
     /\ ~ In (-1) (G (z1d_project (- L) 0 1) (outside1d L 0) (maxf1d L 0))
     /\ frontier_state (z1d_project (- L) 0 1) (fr1d L 0) 0 = 0).
Proof.
  split.
  - intros R HR. destruct (pair_origin_right R HR) as [P0 PR].
    assert (Efr : fr1d 0 R = [R - 1; -1]).
    { pose proof (fr1d_eq 0 R) as E. cbn [Z.opp] in E. rewrite P0, PR in E. exact E. }
    assert (EF : maxf1d 0 R = R - 1).
    { pose proof (maxf1d_eq 0 R) as E. cbn [Z.opp] in E. rewrite P0, PR in E. lia. }
    split; [exact Efr|]. split; [exact EF|]. split.
    + intro Hin. apply G_spec in Hin. lia.
    + unfold frontier_state. rewrite Efr. cbn [nth]. apply project_m1_right. exact HR.
  - intros L HL. destruct (pair_origin_left L HL) as [P0 PL].
    assert (Efr : fr1d L 0 = [-1; L - 1]).
    { rewrite (fr1d_eq L 0), P0, PL. reflexivity. }
    assert (EF : maxf1d L 0 = L - 1).
    { rewrite (maxf1d_eq L 0), P0, PL. lia. }
    split; [exact Efr|]. split; [exact EF|]. split.
    + intro Hin. apply G_spec in Hin. lia.
    + unfold frontier_state. rewrite Efr. cbn [nth]. apply project_m1_left. exact HL.
Qed.

(* ... hence: EVERY probability table >= 0, storage >= 1, reachable state (history) and uniform above the sum of the admissible
   probabilities: when np.random.choice picks the position holding -1 the sampler returns the increment 0, the ORIGIN *)
Theorem inversion_frontier_edge_origin (prob : Z -> Q) (M : Z) :
  (forall s, (0 <= prob s)%Q) -> 1 <= M ->
  (forall R, 0 < R -> let proj := z1d_project 0 R 1 in
     forall st, reachable proj (outside1d 0 R) (maxf1d 0 R) prob M st ->
     forall u, (total (adm_segs' proj (outside1d 0 R) (maxf1d 0 R) prob) < u)%Q ->
       snd (inv_step_f proj (outside1d 0 R) (maxf1d 0 R) prob M (fr1d 0 R) st u 1) = Some 0)
  /\ (forall L, 0 < L -> let proj := z1d_project (- L) 0 1 in
     forall st, reachable proj (outside1d L 0) (maxf1d L 0) prob M st ->
     forall u, (total (adm_segs' proj (outside1d L 0) (maxf1d L 0) prob) < u)%Q ->
       snd (inv_step_f proj (outside1d L 0) (maxf1d L 0) prob M (fr1d L 0) st u 0) = Some 0).
Proof.
  intros Hp HM. destruct frontier_1d_edge as [ER EL]. split.
  - intros R HR proj st Hst u Hu. destruct (ER R HR) as [_ [EF [_ Efs]]].
    assert (HF : 0 <= maxf1d 0 R) by lia.
    destruct (frontier_step proj (outside1d 0 R) (maxf1d 0 R) prob M (fr1d 0 R) Hp HM HF st u 1%nat Hst) as [E _].
    rewrite E.
    pose proof (locate_r_none_iff _ u (segs_nonempty proj (outside1d 0 R) (maxf1d 0 R) prob
                                          (reachable_G_nonempty proj (outside1d 0 R) (maxf1d 0 R) prob M Hp HM HF st Hst))
                                      (segs_nonneg proj (outside1d 0 R) (maxf1d 0 R) prob M Hp HM HF)) as [_ Hn].
    rewrite (Hn Hu). fold proj in Efs. rewrite Efs. reflexivity.
  - intros L HL proj st Hst u Hu. destruct (EL L HL) as [_ [EF [_ Efs]]].
    assert (HF : 0 <= maxf1d L 0) by lia.
    destruct (frontier_step proj (outside1d L 0) (maxf1d L 0) prob M (fr1d L 0) Hp HM HF st u 0%nat Hst) as [E _].
    rewrite E.
    pose proof (locate_r_none_iff _ u (segs_nonempty proj (outside1d L 0) (maxf1d L 0) prob
                                          (reachable_G_nonempty proj (outside1d L 0) (maxf1d L 0) prob M Hp HM HF st Hst))
                                      (segs_nonneg proj (outside1d L 0) (maxf1d L 0) prob M Hp HM HF)) as [_ Hn].
    rewrite (Hn Hu). fold proj in Efs. rewrite Efs. reflexivity.
Qed.

(* ---------- witnesses on the FLOAT RUN of /repo ----------
   How the Q theorems are read on a float run (audit B11): InversionMethod stores s_0 = p_0, s_{k+1} = fl(s_k + p_{k+1}) and
   compares u with these floats only.  With prob'(state_k) := s_k - s_{k-1} (exact rationals, >= 0 because float addition of a
   non-negative number is monotone) the model computes exactly the stored sums, sigma = total = the last stored float sum, and
   every theorem about inv_step / inv_step_f applies verbatim with prob' in place of prob.  The two tables below are the
   increments of _cumulative_probabilities of the real factory chains (harness group inversion_floatinc checks them on every run). *)
Open Scope Q_scope.
(* F-C02-14: CTMCGrid(h = 1/4, origin_coordinate = 0, axes = [0 .. 9h]), cell masses 0, 51/256, 53/64, 547/256, 13/32, 161/256, 375/256,
   59/256, 55/256, 57/64 (intensity 7): enumeration 1, 2, .., 9 *)
Definition fe_prob (s : Z) : Q :=
  match s with
  | (1)%Z => 8202985035567689 # 288230376151711744 | (2)%Z => 34098682892948039 # 288230376151711744
  | (3)%Z => 2749407361798729 # 9007199254740992 | (4)%Z => 1045478484925293 # 18014398509481984
  | (5)%Z => 23 # 256 | (6)%Z => 471219269046857 # 2251799813685248
  | (7)%Z => 296553993320155 # 9007199254740992 | (8)%Z => 276448637840823 # 9007199254740992
  | (9)%Z => 286501315580489 # 2251799813685248 | _ => 0
  end.
(* the mirrored grid (origin_coordinate = 9, axes = [-9h .. 0]): enumeration -1, .., -9 with the same float sums *)
Definition fe_prob_left (s : Z) : Q := fe_prob (- s).
(* F-C02-13's recorded witness (7-point axis, masses 0, 1, 1, 0, 1/4, 17/4, 1/2, intensity 7): enumeration 1, -1, 2, -2, 3, -3 *)
Definition fz_prob_run (s : Z) : Q :=
  match s with
  | (1)%Z => 2573485501354569 # 72057594037927936 | (-1)%Z => 10293942005418275 # 72057594037927936
  | (2)%Z => 10937313380756917 # 18014398509481984 | (-2)%Z => 321685687669321 # 2251799813685248
  | (3)%Z => 321685687669321 # 4503599627370496 | _ => 0
  end.

Lemma inversion_frontier_origin_refuted :
  (exists st, inv_init (z1d_project 0 9 1) (outside1d 0 9) (maxf1d 0 9) fe_prob = Some st
     /\ total (adm_segs' (z1d_project 0 9 1) (outside1d 0 9) (maxf1d 0 9) fe_prob) == 1 - (1 # 4503599627370496)
     /\ 0 < fz_u /\ fz_u < 1
     /\ fr1d 0 9 = [8; -1]%Z
     /\ snd (inv_step_f (z1d_project 0 9 1) (outside1d 0 9) (maxf1d 0 9) fe_prob 1000000 (fr1d 0 9) st fz_u 1) = Some 0%Z
     /\ snd (inv_step_f (z1d_project 0 9 1) (outside1d 0 9) (maxf1d 0 9) fe_prob 1000000 (fr1d 0 9) st fz_u 0) = Some 9%Z)
  /\ (exists st, inv_init (z1d_project (-9) 0 1) (outside1d 9 0) (maxf1d 9 0) fe_prob_left = Some st
     /\ fr1d 9 0 = [-1; 8]%Z
     /\ snd (inv_step_f (z1d_project (-9) 0 1) (outside1d 9 0) (maxf1d 9 0) fe_prob_left 1000000 (fr1d 9 0) st fz_u 0) = Some 0%Z).
Proof.
  split.
  - eexists. split; [vm_compute; reflexivity|]. split; [vm_compute; reflexivity|]. split; [reflexivity|]. split; [reflexivity|].
    split; [vm_compute; reflexivity|]. split; vm_compute; reflexivity.
  - eexists. split; [vm_compute; reflexivity|]. split; vm_compute; reflexivity.
Qed.

(* F-C02-13 on the float run of the recorded witness (not a hand-made table): the sum of the stored floats is 1 - 2^-52, state -3
   has probability zero, u = 1 - 2^-53, position 1 of deque([pair 3, pair (-3)]) *)
Lemma inversion_frontier_zero_prob_run_refuted :
  let proj := z1d_project (-3) 3 1 in
  exists st, inv_init proj (outside1d 3 3) (maxf1d 3 3) fz_prob_run = Some st
    /\ total (adm_segs' proj (outside1d 3 3) (maxf1d 3 3) fz_prob_run) == 1 - (1 # 4503599627370496)
    /\ snd (inv_step_f proj (outside1d 3 3) (maxf1d 3 3) fz_prob_run 1000000 (fr1d 3 3) st fz_u 1) = Some (-3)%Z
    /\ fz_prob_run (-3) == 0.
Proof.
  eexists. split; [vm_compute; reflexivity|]. split; [vm_compute; reflexivity|]. split; [vm_compute; reflexivity | reflexivity].
Qed.

(* non-vacuity of inversion_frontier_1d_law and inversion_frontier_edge_origin: a reachable state after two draws with
   _max_storage = 2 (one restart) on the 7-point axis / on the edge-origin axis, and the hypothesis sigma < u *)
Lemma frontier_edge_nonvacuous :
  (exists st, reachable (z1d_project 0 9 1) (outside1d 0 9) (maxf1d 0 9) fe_prob 2 st
       /\ total (adm_segs' (z1d_project 0 9 1) (outside1d 0 9) (maxf1d 0 9) fe_prob) < fz_u
       /\ snd (inv_step_f (z1d_project 0 9 1) (outside1d 0 9) (maxf1d 0 9) fe_prob 2 (fr1d 0 9) st fz_u 1) = Some 0%Z
       /\ snd (inv_step_f (z1d_project 0 9 1) (outside1d 0 9) (maxf1d 0 9) fe_prob 2 (fr1d 0 9) st (1 # 2) 1) = Some 4%Z)
  /\ (exists st, reachable (z1d_project (-3) 3 1) (outside1d 3 3) (maxf1d 3 3) fz_prob_run 2 st
       /\ length (fr1d 3 3) = 2%nat
       /\ snd (inv_step_f (z1d_project (-3) 3 1) (outside1d 3 3) (maxf1d 3 3) fz_prob_run 2 (fr1d 3 3) st fz_u 0) = Some 3%Z
       /\ snd (inv_step_f (z1d_project (-3) 3 1) (outside1d 3 3) (maxf1d 3 3) fz_prob_run 2 (fr1d 3 3) st (1 # 2) 0) = Some 2%Z).
Proof.
  split.
  - destruct (inv_init (z1d_project 0 9 1) (outside1d 0 9) (maxf1d 0 9) fe_prob) as [st0|] eqn:E0; [|vm_compute in E0; discriminate].
    exists (fst (inv_step (z1d_project 0 9 1) (outside1d 0 9) (maxf1d 0 9) fe_prob 2
                   (fst (inv_step (z1d_project 0 9 1) (outside1d 0 9) (maxf1d 0 9) fe_prob 2 st0 (7 # 8))) (1 # 4))).
    split; [apply reach_step, reach_step, reach_init; exact E0|].
    vm_compute in E0. injection E0 as <-.
    split; [vm_compute; reflexivity|]. split; vm_compute; reflexivity.
  - destruct (inv_init (z1d_project (-3) 3 1) (outside1d 3 3) (maxf1d 3 3) fz_prob_run) as [st0|] eqn:E0; [|vm_compute in E0; discriminate].
    exists (fst (inv_step (z1d_project (-3) 3 1) (outside1d 3 3) (maxf1d 3 3) fz_prob_run 2
                   (fst (inv_step (z1d_project (-3) 3 1) (outside1d 3 3) (maxf1d 3 3) fz_prob_run 2 st0 (7 # 8))) (1 # 4))).
    split; [apply reach_step, reach_step, reach_init; exact E0|].
    vm_compute in E0. injection E0 as <-.
    split; [vm_compute; reflexivity|]. split; vm_compute; reflexivity.
Qed.

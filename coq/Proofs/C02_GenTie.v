(* C02 (wave 6) -- the theorems of C02 restated on the definitions REGENERATED from the source by the TIE translator
   (harness/specs/TIE.py + harness/py2coq_loops.py -> Gen/GenTieBst.v; equality with the hand model: Proofs/Tie_Bst.v). *)
From Coq Require Import List Arith ZArith QArith.
From RV Require Import Base.QB Model.StepLaw Model.Bst Model.Alias Proofs.C02_StepLaw Proofs.C02_Bst Proofs.C02_Alias.
From RV Require Gen.GenTieBst Proofs.Tie_Bst Gen.GenTieAlias Proofs.Tie_Alias.
Import ListNotations.
Open Scope Q_scope.

(* the law of BinarySearchTree for the GENERATED descent run on the array the constructor model builds *)
Theorem gen_bst_law : forall p : list Q, (1 <= length p)%nat -> nonneg p ->
  exists b, create_bst p = Some b
    /\ forall u, 0 <= u -> u < qsum p ->
         locate 0 (bst_segs p) u = Some (GenTieBst.sample_with_u (Z.of_nat (length p - 1)) b u)
         /\ (0 <= GenTieBst.sample_with_u (Z.of_nat (length p - 1)) b u < Z.of_nat (length p))%Z
         /\ ~ nth (Z.to_nat (GenTieBst.sample_with_u (Z.of_nat (length p - 1)) b u)) p 0 == 0.
Proof.
  intros p Hl Hn. destruct (bst_law p Hl Hn) as [b [Hb [_ [_ [_ Hloc]]]]]. exists b. split; [exact Hb|].
  intros u H0 H1. rewrite Tie_Bst.gen_sample_with_u_eq_model.
  destruct (bst_range_nonzero p Hl Hn b Hb u H0 H1) as [Hr Hz]. split; [apply Hloc; assumption|]. split; assumption.
Qed.

(* the law of AliasMethod for the GENERATED _draw_with_u (Gen/GenTieAlias.v, np.uint read as Qfloor) run on the tables the
   constructor model builds (J as Python ints): step function of the columns, index in range, never a zero-probability state *)
Theorem gen_alias_law : forall p : list Q, (1 <= length p)%nat -> nonneg p -> qsum p == 1 ->
  let K := length p in let J := fst (create_alias p) in let q := snd (create_alias p) in
  let draw := GenTieAlias.draw_with_u (Z.of_nat K) q (map Z.of_nat J) in
  (forall k, (k < K)%nat -> len_of (Z.of_nat k) (alias_segs K q J) == nth k p 0)
  /\ (forall u, 0 <= u -> u < 1 -> locate 0 (alias_segs K q J) u = Some (draw u))
  /\ (forall u, 0 <= u -> u < 1 -> (0 <= draw u < Z.of_nat K)%Z)
  /\ (forall u k, 0 <= u -> u < 1 -> (k < K)%nat -> nth k p 0 == 0 -> draw u <> Z.of_nat k).
Proof.
  intros p Hl Hn Hs. cbv zeta. destruct (alias_law p Hl Hn Hs) as [A [_ [B [C D]]]]. cbv zeta in A, B, C, D.
  split; [exact A|]. split; [|split].
  - intros u H0 H1. rewrite Tie_Alias.gen_draw_with_u_eq_model by exact H0. apply B; assumption.
  - intros u H0 H1. rewrite Tie_Alias.gen_draw_with_u_eq_model by exact H0. specialize (C u H0 H1). split; [apply Nat2Z.is_nonneg | apply Nat2Z.inj_lt; exact C].
  - intros u k H0 H1 Hk Hz. rewrite Tie_Alias.gen_draw_with_u_eq_model by exact H0. intro E. apply Nat2Z.inj in E. exact (D u k H0 H1 Hk Hz E).
Qed.

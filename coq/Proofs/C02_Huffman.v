(* C02 -- HuffmanTree: whatever position Heap.insert computes (its two lists are not kept consistent by pop),
   the loop of create_huffman_tree keeps a forest whose leaves are a permutation of the states and in which
   every internal value is the sum of its children; hence the final tree, read by subtract-and-descend, is the
   step function of its leaves in in-order, state s owning exactly p_s.  Any length >= 1. *)
From Coq Require Import List Arith ZArith QArith Bool Lia Lqa Permutation.
From RV Require Import Base.QB Model.StepLaw Model.Huffman Proofs.C02_StepLaw.
Import ListNotations.
Open Scope Q_scope.

Fixpoint hleaves (t : htree) : list seg :=
  match t with
  | HLeaf v s => [(v, s)]
  | HNode _ l r => hleaves l ++ hleaves r
  end.

Fixpoint consistent (t : htree) : Prop :=
  match t with
  | HLeaf _ _ => True
  | HNode v l r => v == hval l + hval r /\ consistent l /\ consistent r
  end.

Lemma hval_total t : consistent t -> hval t == total (hleaves t).
Proof.
  induction t as [v s | v l IHl r IHr]; simpl; [intros _; ring|].
  intros (E & Cl & Cr). rewrite total_app, <- IHl, <- IHr by assumption. exact E.
Qed.

Lemma huff_sample_ext t : forall u u', u == u' -> huff_sample t u = huff_sample t u'.
Proof.
  induction t as [v s | v l IHl r IHr]; intros u u' E; simpl; [reflexivity|].
  assert (Qltb u (hval l) = Qltb u' (hval l)) as ->.
  { destruct (Qltb u (hval l)) eqn:A; destruct (Qltb u' (hval l)) eqn:B; try reflexivity.
    - apply Qltb_lt in A. apply Qltb_false in B. lra.
    - apply Qltb_lt in B. apply Qltb_false in A. lra. }
  destruct (Qltb u' (hval l)); [apply IHl; assumption | apply IHr; rewrite E; reflexivity].
Qed.

(* subtract-and-descend on a consistent tree = locate on its in-order leaves *)
Lemma huff_descend t : consistent t -> seg_nonneg (hleaves t) -> forall c u,
  c <= u -> u < c + total (hleaves t) -> locate c (hleaves t) u = Some (huff_sample t (u - c)).
Proof.
  induction t as [v s | v l IHl r IHr]; intros C N c u H1 H2; simpl in *.
  - destruct (Qltb u (c + v)) eqn:A; [reflexivity|]. apply Qltb_false in A. lra.
  - destruct C as (E & Cl & Cr). apply seg_nonneg_app in N. destruct N as [Nl Nr].
    rewrite total_app in H2. rewrite locate_app. pose proof (hval_total l Cl) as Hl.
    destruct (Qltb (u - c) (hval l)) eqn:A.
    + apply Qltb_lt in A. rewrite (IHl Cl Nl c u) by lra. reflexivity.
    + apply Qltb_false in A. rewrite locate_none by (try assumption; lra).
      rewrite (IHr Cr Nr (c + total (hleaves l)) u) by lra. f_equal. apply huff_sample_ext. rewrite Hl. ring.
Qed.

(* ---------- the forest ---------- *)
Definition fl (nodes : list htree) : list seg := flat_map hleaves nodes.

Lemma fl_app a b : fl (a ++ b) = fl a ++ fl b.
Proof. unfold fl. apply flat_map_app. Qed.

Lemma hins_perm x l : Permutation (hins x l) (x :: l).
Proof.
  induction l as [|y r IH]; simpl; [reflexivity|].
  destruct (Qltb (hval x) (hval y)); [|reflexivity].
  rewrite IH. apply perm_swap.
Qed.

Lemma hsort_perm l : Permutation (hsort l) l.
Proof. induction l as [|x r IH]; simpl; [reflexivity|]. rewrite hins_perm. constructor. assumption. Qed.

Lemma fl_perm a b : Permutation a b -> Permutation (fl a) (fl b).
Proof.
  induction 1; simpl; unfold fl in *; simpl.
  - reflexivity.
  - apply Permutation_app_head. assumption.
  - rewrite !app_assoc. apply Permutation_app_tail. apply Permutation_app_comm.
  - etransitivity; eassumption.
Qed.

Lemma insert_at_perm {A} i (x : A) l : Permutation (insert_at i x l) (x :: l).
Proof.
  unfold insert_at. rewrite <- (firstn_skipn i l) at 3. symmetry. apply Permutation_middle.
Qed.

Lemma insert_at_length {A} i (x : A) l : length (insert_at i x l) = S (length l).
Proof.
  unfold insert_at. rewrite app_length. simpl. rewrite <- (firstn_skipn i l) at 3. rewrite app_length. lia.
Qed.

Lemma perm_abc {A} (a b c : list A) : Permutation (a ++ b ++ c) (c ++ b ++ a).
Proof.
  eapply Permutation_trans; [apply Permutation_app_comm|]. rewrite <- app_assoc.
  eapply Permutation_trans; [|apply Permutation_app_comm with (l := b ++ a)].
  rewrite <- app_assoc. apply Permutation_app_head. apply Permutation_app_comm.
Qed.

Definition forest_ok (segs0 : list seg) (h : heap) : Prop :=
  Forall consistent (h_nodes h) /\ Permutation (fl (h_nodes h)) segs0 /\ length (h_values h) = length (h_nodes h).

Lemma removelast_length {A} (l : list A) : length (removelast l) = (length l - 1)%nat.
Proof.
  induction l as [|x r IH]; [reflexivity|]. destruct r as [|y r]; [reflexivity|].
  change (length (x :: removelast (y :: r)) = (length (x :: y :: r) - 1)%nat). simpl length in *. rewrite IH. lia.
Qed.

Lemma pop_ok segs0 h : forest_ok segs0 h -> (1 <= length (h_nodes h))%nat ->
  exists n h', heap_pop h = Some (n, h') /\ h_nodes h = h_nodes h' ++ [n]
               /\ length (h_values h') = length (h_nodes h').
Proof.
  intros (_ & _ & L) H. unfold heap_pop. destruct (h_nodes h) as [|x ns] eqn:En; [simpl in H; lia|].
  destruct (h_values h) as [|v vs] eqn:Ev; [simpl in L; lia|].
  eexists _, _. split; [reflexivity|]. cbn [h_nodes h_values]. split.
  - apply app_removelast_last. discriminate.
  - rewrite !removelast_length. rewrite L. reflexivity.
Qed.

Lemma round_ok segs0 h : forest_ok segs0 h -> (2 <= length (h_nodes h))%nat ->
  exists h', huff_round h = Some h' /\ forest_ok segs0 h' /\ length (h_nodes h') = (length (h_nodes h) - 1)%nat.
Proof.
  intros OK H. destruct (pop_ok segs0 h OK ltac:(lia)) as (n1 & h1 & P1 & E1 & L1).
  destruct OK as (C & Pm & L).
  assert (Len1 : length (h_nodes h1) = (length (h_nodes h) - 1)%nat) by (rewrite E1, app_length; simpl; lia).
  assert (OK1 : forest_ok (fl (h_nodes h1)) h1).
  { split; [|split; [reflexivity | assumption]]. rewrite E1 in C. apply Forall_app in C. tauto. }
  destruct (pop_ok _ h1 OK1 ltac:(lia)) as (n2 & h2 & P2 & E2 & L2).
  unfold huff_round. rewrite P1, P2. eexists. split; [reflexivity|].
  rewrite E1, E2 in C. apply Forall_app in C. destruct C as [C C1]. apply Forall_app in C. destruct C as [C C2].
  inversion C1 as [|? ? Cn1 _]; subst. inversion C2 as [|? ? Cn2 _]; subst.
  set (node := HNode (hval n1 + hval n2) n1 n2).
  unfold heap_insert. cbn [h_nodes h_values]. split; [split; [|split]|].
  - eapply Permutation_Forall; [symmetry; apply insert_at_perm|]. constructor; [|assumption].
    simpl. split; [reflexivity | split; assumption].
  - eapply Permutation_trans; [apply fl_perm; apply insert_at_perm|].
    eapply Permutation_trans; [|exact Pm]. rewrite E1, E2, !fl_app.
    unfold fl. simpl. rewrite !app_nil_r. fold (fl (h_nodes h2)).
    (* (n1 ++ n2) ++ rest  ~  (rest ++ n2) ++ n1 *)
    rewrite <- !app_assoc. apply perm_abc.
  - cbn [h_nodes h_values]. rewrite !insert_at_length. rewrite L2. reflexivity.
  - cbn [h_nodes h_values]. rewrite insert_at_length. rewrite E1, E2, !app_length. simpl. lia.
Qed.

Lemma rounds_ok segs0 n : forall h, forest_ok segs0 h -> length (h_nodes h) = S n ->
  exists h', huff_rounds n h = Some h' /\ forest_ok segs0 h' /\ length (h_nodes h') = 1%nat.
Proof.
  induction n as [|n IH]; intros h OK L; simpl.
  - exists h. auto.
  - destruct (round_ok segs0 h OK ltac:(lia)) as (h1 & R & OK1 & L1). rewrite R.
    apply IH; [assumption | lia].
Qed.

Lemma fl_leaves_from p : forall i, fl (leaves_from i p) = segs_from i p.
Proof. induction p as [|x r IH]; intros i; simpl; [reflexivity|]. unfold fl in *. simpl. rewrite IH. reflexivity. Qed.

Lemma leaves_from_length p : forall i, length (leaves_from i p) = length p.
Proof. induction p as [|x r IH]; intros i; simpl; [reflexivity|]. rewrite IH. reflexivity. Qed.

Lemma leaves_from_consistent p : forall i, Forall consistent (leaves_from i p).
Proof. induction p as [|x r IH]; intros i; simpl; constructor; simpl; auto. Qed.

Theorem huffman_law (p : list Q) : (1 <= length p)%nat -> nonneg p ->
  exists t, create_huffman p = Some t
    /\ Permutation (hleaves t) (segs_from 0 p)
    /\ (forall s, (s < length p)%nat -> len_of (Z.of_nat s) (hleaves t) == nth s p 0)
    /\ total (hleaves t) == qsum p
    /\ seg_nonneg (hleaves t)
    /\ forall u, 0 <= u -> u < qsum p -> locate 0 (hleaves t) u = Some (huff_sample t u).
Proof.
  intros Hlen Hnn. set (segs0 := segs_from 0 p).
  assert (OK0 : forest_ok segs0 (heap_make (leaves_from 0 p))).
  { unfold heap_make, forest_ok. cbn [h_nodes h_values]. split; [|split].
    - eapply Permutation_Forall; [symmetry; apply hsort_perm | apply leaves_from_consistent].
    - rewrite (fl_perm _ _ (hsort_perm _)). rewrite fl_leaves_from. reflexivity.
    - rewrite rev_length, map_length. reflexivity. }
  assert (L0 : length (h_nodes (heap_make (leaves_from 0 p))) = S (length p - 1)).
  { unfold heap_make. cbn [h_nodes]. rewrite (Permutation_length (hsort_perm _)), leaves_from_length. lia. }
  destruct (rounds_ok segs0 _ _ OK0 L0) as (h' & R & (C & Pm & _) & L1).
  unfold create_huffman. rewrite R. destruct (h_nodes h') as [|t [|t2 r]] eqn:E; simpl in L1; try lia.
  exists t. split; [reflexivity|].
  unfold fl in Pm. simpl in Pm. rewrite app_nil_r in Pm. inversion C as [|? ? Ct _]; subst.
  assert (N : seg_nonneg (hleaves t)).
  { unfold seg_nonneg. eapply Permutation_Forall; [symmetry; exact Pm | apply segs_from_nonneg; assumption]. }
  assert (T : total (hleaves t) == qsum p) by (rewrite (total_perm _ _ Pm); apply segs_from_total).
  split; [exact Pm|]. split; [|split; [exact T | split; [exact N|]]].
  - intros s Hs. rewrite (len_of_perm _ _ _ Pm). unfold segs0. rewrite segs_from_len by lia.
    replace (Z.to_nat (Z.of_nat s - 0)) with s by lia. reflexivity.
  - intros u Hu0 Hu1. rewrite (huff_descend t Ct N 0 u) by (try assumption; rewrite T; lra).
    f_equal. apply huff_sample_ext. ring.
Qed.

(* ---------- corollaries: index in range, a zero-probability state is never returned ---------- *)
Lemma segs_from_labels p : forall i l, In l (map snd (segs_from i p)) -> (i <= l < i + Z.of_nat (length p))%Z.
Proof.
  induction p as [|x r IH]; intros i l H; simpl in H; [contradiction|].
  destruct H as [<-|H]; [simpl length; lia|]. apply IH in H. simpl length. lia.
Qed.

Theorem huffman_range_nonzero (p : list Q) : (1 <= length p)%nat -> nonneg p -> forall t, create_huffman p = Some t ->
  forall u, 0 <= u -> u < qsum p ->
    (0 <= huff_sample t u < Z.of_nat (length p))%Z /\ ~ nth (Z.to_nat (huff_sample t u)) p 0 == 0.
Proof.
  intros HK Hnn t Ht u H0 H1. destruct (huffman_law p HK Hnn) as (t' & Ht' & Pm & Len & _ & Nn & Loc).
  rewrite Ht in Ht'. inversion Ht'; subst t'. pose proof (Loc u H0 H1) as L.
  assert (R : (0 <= huff_sample t u < Z.of_nat (length p))%Z).
  { pose proof (locate_in _ _ _ _ L) as Hin. apply (Permutation_in _ (Permutation_map snd Pm)) in Hin.
    apply segs_from_labels in Hin. lia. }
  split; [exact R|]. intro Hz.
  apply (locate_never_zero 0 (hleaves t) u (huff_sample t u)); [assumption | assumption | | assumption].
  rewrite <- (Z2Nat.id (huff_sample t u)) at 1 by lia. rewrite Len by lia. exact Hz.
Qed.

(* C02 -- bisect.bisect_left on a sorted list (used by the inversion proofs, Proofs/C02_InversionAdm.v). *)
From Coq Require Import List Arith ZArith QArith Bool Lia Lqa.
From RV Require Import Base.QB Model.StepLaw Model.Huffman Proofs.C02_StepLaw.
Import ListNotations.
Open Scope Q_scope.

(* ---------- bisect_left on a sorted list ---------- *)
Section Bisect.
  Variable a : list Q.
  Variable x : Q.
  Hypothesis sorted : forall i j, (i <= j < length a)%nat -> nth i a 0 <= nth j a 0.

  Lemma mid_bounds lo hi : (lo < hi)%nat -> (lo <= (lo + hi) / 2 < hi)%nat.
  Proof.
    intro H. pose proof (Nat.div_mod (lo + hi) 2 ltac:(lia)). pose proof (Nat.mod_upper_bound (lo + hi) 2 ltac:(lia)). lia.
  Qed.

  Lemma bisect_loop_spec fuel : forall lo hi, (lo <= hi <= length a)%nat -> (hi - lo < fuel)%nat ->
    (forall i, (i < lo)%nat -> nth i a 0 < x) -> (forall i, (hi <= i < length a)%nat -> x <= nth i a 0) ->
    let r := bisect_left_loop fuel a x lo hi in
    (lo <= r <= hi)%nat /\ (forall i, (i < r)%nat -> nth i a 0 < x) /\ (forall i, (r <= i < length a)%nat -> x <= nth i a 0).
  Proof.
    induction fuel as [|f IH]; intros lo hi Hb Hf Hl Hh; [lia|]. cbn [bisect_left_loop]. cbv zeta.
    destruct (lo <? hi)%nat eqn:L.
    - apply Nat.ltb_lt in L. pose proof (mid_bounds lo hi L) as Hm. set (mid := ((lo + hi) / 2)%nat) in *.
      destruct (Qltb (nth mid a 0) x) eqn:C.
      + apply Qltb_lt in C. destruct (IH (S mid) hi ltac:(lia) ltac:(lia)) as (R1 & R2 & R3).
        * intros i Hi. assert (nth i a 0 <= nth mid a 0) by (apply sorted; lia). lra.
        * assumption.
        * split; [lia|]. split; assumption.
      + apply Qltb_false in C. destruct (IH lo mid ltac:(lia) ltac:(lia)) as (R1 & R2 & R3).
        * assumption.
        * intros i Hi. assert (nth mid a 0 <= nth i a 0) by (apply sorted; lia). lra.
        * split; [lia|]. split; assumption.
    - apply Nat.ltb_ge in L. assert (lo = hi) by lia. subst. split; [lia|]. split; assumption.
  Qed.

  Lemma bisect_left_spec :
    let r := bisect_left a x in
    (r <= length a)%nat /\ (forall i, (i < r)%nat -> nth i a 0 < x) /\ (forall i, (r <= i < length a)%nat -> x <= nth i a 0).
  Proof.
    unfold bisect_left. destruct (bisect_loop_spec (S (length a)) 0 (length a)) as (R1 & R2 & R3); try lia.
    split; [lia|]. split; assumption.
  Qed.
End Bisect.


(* C02 -- InversionMethod + StatesManager: for every reachable state of the machine (any sequence of earlier
   draws, any _max_storage >= 1, including sequences that overflow the storage) the state returned for u is
   the one the sequential search over the enumeration returns; and that search is the step function whose
   right-closed consecutive intervals have lengths prob (proj i), i = 0 .. F.
   Hypothesis of this file: every index 0 .. F is admissible (1-d chains: Boundary() never excludes a state and
   PairingToZ1d enumerates exactly the grid, C14). *)
From Coq Require Import List Arith ZArith QArith Bool Lia Lqa.
From RV Require Import Base.QB Model.StepLaw Model.Huffman Model.Inversion Proofs.C02_StepLaw.
Import ListNotations.
Open Scope Q_scope.

(* ---------- bisect_left on a sorted list ---------- *)
Section Bisect.
  Variable a : list Q.
  Variable x : Q.
  Hypothesis sorted : forall i j, (i <= j < length a)%nat -> nth i a 0 <= nth j a 0.

  Lemma mid_bounds lo hi : (lo < hi)%nat -> (lo <= (lo + hi) / 2 < hi)%nat.
  Proof.
    intro H. pose proof (Nat.div_mod (lo + hi) 2 ltac:(lia)). pose proof (Nat.mod_upper_bound (lo + hi) 2 ltac:(lia)). lia.
  Qed.

  Lemma bisect_loop_spec fuel : forall lo hi, (lo <= hi <= length a)%nat -> (hi - lo < fuel)%nat ->
    (forall i, (i < lo)%nat -> nth i a 0 < x) -> (forall i, (hi <= i < length a)%nat -> x <= nth i a 0) ->
    let r := bisect_left_loop fuel a x lo hi in
    (lo <= r <= hi)%nat /\ (forall i, (i < r)%nat -> nth i a 0 < x) /\ (forall i, (r <= i < length a)%nat -> x <= nth i a 0).
  Proof.
    induction fuel as [|f IH]; intros lo hi Hb Hf Hl Hh; [lia|]. cbn [bisect_left_loop]. cbv zeta.
    destruct (lo <? hi)%nat eqn:L.
    - apply Nat.ltb_lt in L. pose proof (mid_bounds lo hi L) as Hm. set (mid := ((lo + hi) / 2)%nat) in *.
      destruct (Qltb (nth mid a 0) x) eqn:C.
      + apply Qltb_lt in C. destruct (IH (S mid) hi ltac:(lia) ltac:(lia)) as (R1 & R2 & R3).
        * intros i Hi. assert (nth i a 0 <= nth mid a 0) by (apply sorted; lia). lra.
        * assumption.
        * split; [lia|]. split; assumption.
      + apply Qltb_false in C. destruct (IH lo mid ltac:(lia) ltac:(lia)) as (R1 & R2 & R3).
        * assumption.
        * intros i Hi. assert (nth mid a 0 <= nth i a 0) by (apply sorted; lia). lra.
        * split; [lia|]. split; assumption.
    - apply Nat.ltb_ge in L. assert (lo = hi) by lia. subst. split; [lia|]. split; assumption.
  Qed.

  Lemma bisect_left_spec :
    let r := bisect_left a x in
    (r <= length a)%nat /\ (forall i, (i < r)%nat -> nth i a 0 < x) /\ (forall i, (r <= i < length a)%nat -> x <= nth i a 0).
  Proof.
    unfold bisect_left. destruct (bisect_loop_spec (S (length a)) 0 (length a)) as (R1 & R2 & R3); try lia.
    split; [lia|]. split; assumption.
  Qed.
End Bisect.

Section InversionAllInside.
  Context {S : Type}.
  Variable proj : Z -> S.
  Variable inside : S -> bool.
  Variable Fn : nat.                       (* F = max_frontier_indices *)
  Variable prob : S -> Q.
  Variable M : Z.
  Let F : Z := Z.of_nat Fn.
  Hypothesis all_inside : forall i, (0 <= i <= F)%Z -> inside (proj i) = true.
  Hypothesis prob_nonneg : forall s, 0 <= prob s.
  Hypothesis storage_pos : (1 <= M)%Z.

  Definition P (i : nat) : Q := prob (proj (Z.of_nat i)).

  (* cumulative sums exactly as the code forms them: c_1 = p_0, c_(n+1) = c_n + p_n *)
  Fixpoint csum (n : nat) : Q :=
    match n with
    | O => 0
    | Datatypes.S m => match m with O => P 0 | Datatypes.S _ => csum m + P m end
    end.

  Lemma csum_S n : csum (Datatypes.S n) == csum n + P n.
  Proof. destruct n; simpl; ring. Qed.

  Lemma csum_mono i j : (i <= j)%nat -> csum i <= csum j.
  Proof.
    induction 1 as [|j _ IH]; [lra|]. rewrite csum_S. pose proof (prob_nonneg (proj (Z.of_nat j))). unfold P. lra.
  Qed.

  Definition cums (n : nat) : list Q := map (fun j => csum (Datatypes.S j)) (seq 0 n).
  Definition sts (n : nat) : list S := map (fun j => proj (Z.of_nat j)) (seq 0 n).

  Lemma cums_length n : length (cums n) = n. Proof. unfold cums. rewrite map_length, seq_length. reflexivity. Qed.
  Lemma sts_length n : length (sts n) = n. Proof. unfold sts. rewrite map_length, seq_length. reflexivity. Qed.
  Lemma cums_S n : cums (Datatypes.S n) = cums n ++ [csum (Datatypes.S n)].
  Proof. unfold cums. rewrite seq_S, map_app. reflexivity. Qed.
  Lemma sts_S n : sts (Datatypes.S n) = sts n ++ [proj (Z.of_nat n)].
  Proof. unfold sts. rewrite seq_S, map_app. reflexivity. Qed.
  Lemma cums_nth n i : (i < n)%nat -> nth i (cums n) 0 = csum (Datatypes.S i).
  Proof.
    intro H. unfold cums.
    transitivity (nth i (map (fun j => csum (Datatypes.S j)) (seq 0 n)) ((fun j => csum (Datatypes.S j)) 0%nat)).
    - apply nth_indep. rewrite map_length, seq_length. lia.
    - rewrite (map_nth (fun j => csum (Datatypes.S j))). rewrite seq_nth by lia. reflexivity.
  Qed.
  Lemma cums_last n : (1 <= n)%nat -> last (cums n) 0 = csum n.
  Proof. destruct n as [|n]; [lia|]. intros _. rewrite cums_S. apply last_last. Qed.
  Lemma sts_nth_error n i : (i < n)%nat -> nth_error (sts n) i = Some (proj (Z.of_nat i)).
  Proof.
    intro H. unfold sts. rewrite nth_error_map. rewrite (nth_error_nth' _ 0%nat) by (rewrite seq_length; lia).
    rewrite seq_nth by lia. reflexivity.
  Qed.

  (* ---------- the specification: sequential search over the enumeration 0 .. F ---------- *)
  Section Spec.
    Variable u : Q.
    Fixpoint search (n i : nat) : option nat :=
      match n with
      | O => None
      | Datatypes.S n' => if Qle_bool u (csum (Datatypes.S i)) then Some i else search n' (Datatypes.S i)
      end.

    Lemma search_first n : forall i j, (i <= j < i + n)%nat -> u <= csum (Datatypes.S j) ->
      (forall t, (i <= t < j)%nat -> csum (Datatypes.S t) < u) -> search n i = Some j.
    Proof.
      induction n as [|n IH]; intros i j Hj Hu Hb; [lia|]. cbn [search].
      destruct (Qle_bool u (csum (Datatypes.S i))) eqn:C.
      - apply Qle_bool_iff in C. destruct (Nat.eq_dec i j) as [->|N]; [reflexivity|].
        specialize (Hb i ltac:(lia)). lra.
      - apply Qle_bool_false in C. destruct (Nat.eq_dec i j) as [->|N]; [lra|].
        apply IH; [lia | assumption | intros t Ht; apply Hb; lia].
    Qed.

    Lemma search_skip n : forall i, (forall t, (i <= t < i + n)%nat -> csum (Datatypes.S t) < u) -> forall m, search (n + m) i = search m (i + n).
    Proof.
      induction n as [|n IH]; intros i H m; [rewrite Nat.add_0_r; reflexivity|].
      change (Datatypes.S n + m)%nat with (Datatypes.S (n + m)). cbn [search].
      destruct (Qle_bool u (csum (Datatypes.S i))) eqn:C.
      - apply Qle_bool_iff in C. specialize (H i ltac:(lia)). lra.
      - rewrite IH; [f_equal; lia | intros t Ht; apply H; lia].
    Qed.

    Definition spec_segs : list seg := map (fun t => (P t, Z.of_nat t)) (seq 0 (Datatypes.S Fn)).

    Lemma locate_r_search n : forall i c, c == csum i ->
      locate_r c (map (fun t => (P t, Z.of_nat t)) (seq i n)) u = option_map Z.of_nat (search n i).
    Proof.
      induction n as [|n IH]; intros i c E; cbn [seq map locate_r search option_map]; [reflexivity|].
      assert (E2 : c + P i == csum (Datatypes.S i)) by (rewrite csum_S, E; reflexivity).
      assert (Qle_bool u (c + P i) = Qle_bool u (csum (Datatypes.S i))) as ->.
      { destruct (Qle_bool u (c + P i)) eqn:A; destruct (Qle_bool u (csum (Datatypes.S i))) eqn:B; try reflexivity.
        - apply Qle_bool_iff in A. apply Qle_bool_false in B. lra.
        - apply Qle_bool_iff in B. apply Qle_bool_false in A. lra. }
      destruct (Qle_bool u (csum (Datatypes.S i))); [reflexivity | apply IH; exact E2].
    Qed.

    (* what the sequential search returns as an output of the sampler *)
    Definition out_of (r : option nat) : @iout S :=
      match r with Some j => Out (proj (Z.of_nat j)) | None => Frontier end.
    Definition inv_spec : @iout S := out_of (search (Datatypes.S Fn) 0).
  End Spec.

  (* ---------- StatesManager.project_index_to_state_increment when every index is admissible ---------- *)
  Lemma sm_search_here fuel x : (0 <= x)%Z -> (F + 2 - x <= Z.of_nat fuel)%Z ->
    sm_search proj inside F fuel x = if (x <=? F)%Z then (Some (proj x), x) else (None, x).
  Proof.
    intros H0 Hf. destruct fuel as [|f]; simpl.
    - assert ((x <=? F)%Z = false) as -> by (apply Z.leb_gt; lia). reflexivity.
    - destruct (x <=? F)%Z eqn:L; [|reflexivity]. apply Z.leb_le in L. rewrite all_inside by lia. reflexivity.
  Qed.

  Lemma sm_project_here x lpi : (0 <= x)%Z -> ((if (x =? M)%Z then -1 else lpi) + 1 <= x)%Z ->
    sm_project proj inside F M x lpi = if (x <=? F)%Z then (Some (proj x), x) else (None, x).
  Proof.
    intros H0 H. unfold sm_project. rewrite Z.max_l by lia. apply sm_search_here; lia.
  Qed.

  Lemma sm_search_beyond fuel x : (F < x)%Z -> sm_search proj inside F fuel x = (None, x).
  Proof. intro H. destruct fuel; simpl; [reflexivity|]. assert ((x <=? F)%Z = false) as -> by (apply Z.leb_gt; lia). reflexivity. Qed.

  Lemma sm_project_beyond x lpi : (F < x)%Z ->
    exists lpi', sm_project proj inside F M x lpi = (None, lpi') /\ (F < lpi')%Z.
  Proof.
    intro H. unfold sm_project. eexists. split; [apply sm_search_beyond; lia | lia].
  Qed.

  (* ---------- invariant of the reachable states ---------- *)
  Definition Inv (st : @ist S) : Prop :=
    exists n, (1 <= n <= Datatypes.S Fn)%nat /\ (Z.of_nat n <= M)%Z /\ i_cum st = cums n /\ i_states st = sts n
              /\ ((i_lpi st + 1 <= Z.of_nat n)%Z \/ Z.of_nat n = M \/ n = Datatypes.S Fn).

  (* loop: stored prefix n; counter x; everything up to x has been summed into s = csum (x+1) *)
  Lemma loop_correct u : forall fuel xn n st out,
    (1 <= n <= Datatypes.S Fn)%nat -> (Z.of_nat n <= M)%Z -> i_cum st = cums n -> i_states st = sts n ->
    (n = Datatypes.S xn \/ (Z.of_nat n = M /\ (n <= Datatypes.S xn)%nat)) -> (xn <= Fn)%nat ->
    (((if (Z.of_nat xn + 1 =? M)%Z then -1 else i_lpi st) + 1 <= Z.of_nat xn + 1)%Z \/ xn = Fn) ->
    (Fn + 2 - xn <= fuel)%nat ->
    let r := inv_loop proj inside F prob M fuel u (csum (Datatypes.S xn)) (Z.of_nat xn) st out in
    snd r = (if Qltb (csum (Datatypes.S xn)) u then out_of (search u (Fn - xn) (Datatypes.S xn)) else out)
    /\ Inv (fst r).
  Proof.
    induction fuel as [|f IH]; intros xn n st out Hn HnM Hc Hs Hst Hx Hl Hf; [lia|].
    cbn [inv_loop]. destruct (Qltb (csum (Datatypes.S xn)) u) eqn:C.
    2:{ simpl. split; [reflexivity|]. exists n. repeat split; try assumption; try lia.
        (* the invariant on lpi has to be re-established from the loop hypotheses *)
        destruct Hst as [Hst|[Hst _]]; [|right; left; assumption].
        destruct Hl as [Hl|Hl]; [|right; right; lia].
        destruct (Z.of_nat xn + 1 =? M)%Z eqn:E; [apply Z.eqb_eq in E; right; left; lia | left; lia]. }
    destruct (Nat.eq_dec xn Fn) as [EF|NF].
    - (* the enumeration is exhausted: break_here *)
      destruct (sm_project_beyond (Z.of_nat xn + 1) (i_lpi st) ltac:(unfold F; lia)) as (lpi' & E & Hl').
      rewrite E. simpl. subst xn. rewrite Nat.sub_diag. simpl. split; [reflexivity|].
      exists n. simpl. repeat split; try assumption; try lia.
      all: try (destruct Hst as [Hst|[Hst _]]; [right; right; lia | right; left; assumption]).
    - destruct Hl as [Hl|Hl]; [|contradiction].
      rewrite (sm_project_here (Z.of_nat xn + 1) (i_lpi st) ltac:(lia) Hl).
      assert ((Z.of_nat xn + 1 <=? F)%Z = true) as -> by (apply Z.leb_le; unfold F; lia).
      replace (Z.of_nat xn + 1)%Z with (Z.of_nat (Datatypes.S xn)) by lia.
      change (csum (Datatypes.S xn) + prob (proj (Z.of_nat (Datatypes.S xn)))) with (csum (Datatypes.S (Datatypes.S xn))).
      replace (Fn - xn)%nat with (Datatypes.S (Fn - Datatypes.S xn)) by lia. cbn [search].
      assert (Hq : forall (A : Type) (x y : A), (if Qle_bool u (csum (Datatypes.S (Datatypes.S xn))) then x else y)
                   = (if Qltb (csum (Datatypes.S (Datatypes.S xn))) u then y else x)).
      { intros A x y. unfold Qltb. destruct (Qle_bool u (csum (Datatypes.S (Datatypes.S xn)))); reflexivity. }
      unfold zlen. rewrite Hc, cums_length.
      destruct (Z.of_nat n <? M)%Z eqn:LM.
      + (* still storing: n = xn + 1 and the new pair is appended *)
        apply Z.ltb_lt in LM. destruct Hst as [Hst|[Hst _]]; [|lia].
        match goal with |- context [inv_loop _ _ _ _ _ f u _ _ ?st' _] => set (st1 := st') end.
        assert (A1 : (1 <= Datatypes.S n <= Datatypes.S Fn)%nat) by lia.
        assert (A2 : (Z.of_nat (Datatypes.S n) <= M)%Z) by lia.
        assert (A3 : i_cum st1 = cums (Datatypes.S n)) by (unfold st1; simpl; rewrite ?Hc, cums_S; subst n; reflexivity).
        assert (A4 : i_states st1 = sts (Datatypes.S n)) by (unfold st1; simpl; rewrite ?Hs, sts_S; subst n; reflexivity).
        assert (A5 : Datatypes.S n = Datatypes.S (Datatypes.S xn) \/ (Z.of_nat (Datatypes.S n) = M /\ (Datatypes.S n <= Datatypes.S (Datatypes.S xn))%nat)) by (left; lia).
        assert (A6 : (Datatypes.S xn <= Fn)%nat) by lia.
        assert (A7 : ((if (Z.of_nat (Datatypes.S xn) + 1 =? M)%Z then -1 else i_lpi st1) + 1 <= Z.of_nat (Datatypes.S xn) + 1)%Z \/ Datatypes.S xn = Fn).
        { left. unfold st1. cbn [i_lpi]. destruct (Z.of_nat (Datatypes.S xn) + 1 =? M)%Z; lia. }
        assert (A8 : (Fn + 2 - Datatypes.S xn <= f)%nat) by lia.
        destruct (IH (Datatypes.S xn) (Datatypes.S n) st1 (Out (proj (Z.of_nat (Datatypes.S xn)))) A1 A2 A3 A4 A5 A6 A7 A8) as [R1 R2].
        rewrite R1. split; [|exact R2]. rewrite Hq. destruct (Qltb (csum (Datatypes.S (Datatypes.S xn))) u); reflexivity.
      + apply Z.ltb_ge in LM. assert (HM : Z.of_nat n = M) by lia.
        match goal with |- context [inv_loop _ _ _ _ _ f u _ _ ?st' _] => set (st1 := st') end.
        assert (A3 : i_cum st1 = cums n) by (unfold st1; simpl; rewrite ?Hc; reflexivity).
        assert (A4 : i_states st1 = sts n) by (unfold st1; simpl; rewrite ?Hs; reflexivity).
        assert (A5 : n = Datatypes.S (Datatypes.S xn) \/ (Z.of_nat n = M /\ (n <= Datatypes.S (Datatypes.S xn))%nat)).
        { right. split; [assumption|]. destruct Hst as [Hst|[_ Hst]]; lia. }
        assert (A6 : (Datatypes.S xn <= Fn)%nat) by lia.
        assert (A7 : ((if (Z.of_nat (Datatypes.S xn) + 1 =? M)%Z then -1 else i_lpi st1) + 1 <= Z.of_nat (Datatypes.S xn) + 1)%Z \/ Datatypes.S xn = Fn).
        { left. unfold st1. cbn [i_lpi]. destruct (Z.of_nat (Datatypes.S xn) + 1 =? M)%Z; lia. }
        assert (A8 : (Fn + 2 - Datatypes.S xn <= f)%nat) by lia.
        destruct (IH (Datatypes.S xn) n st1 (Out (proj (Z.of_nat (Datatypes.S xn)))) Hn HnM A3 A4 A5 A6 A7 A8) as [R1 R2].
        rewrite R1. split; [|exact R2]. rewrite Hq. destruct (Qltb (csum (Datatypes.S (Datatypes.S xn))) u); reflexivity.
  Qed.

  Lemma cums_sorted n : forall i j, (i <= j < length (cums n))%nat -> nth i (cums n) 0 <= nth j (cums n) 0.
  Proof.
    intros i j H. rewrite cums_length in H. rewrite !cums_nth by lia. apply csum_mono. lia.
  Qed.

  Lemma step_correct st u : Inv st ->
    snd (inv_step proj inside F prob M st u) = inv_spec u /\ Inv (fst (inv_step proj inside F prob M st u)).
  Proof.
    intros (n & Hn & HnM & Hc & Hs & Hl). unfold inv_step, inv_spec. rewrite Hc, cums_last by lia.
    destruct (Qltb (csum n) u) eqn:C.
    - unfold zlen. rewrite cums_length.
      destruct n as [|xn]; [lia|]. replace (Z.of_nat (Datatypes.S xn) - 1)%Z with (Z.of_nat xn) by lia.
      assert (A5 : Datatypes.S xn = Datatypes.S xn \/ (Z.of_nat (Datatypes.S xn) = M /\ (Datatypes.S xn <= Datatypes.S xn)%nat)) by (left; reflexivity).
      assert (A6 : (xn <= Fn)%nat) by lia.
      assert (A7 : ((if (Z.of_nat xn + 1 =? M)%Z then -1 else i_lpi st) + 1 <= Z.of_nat xn + 1)%Z \/ xn = Fn).
      { destruct Hl as [Hl|[Hl|Hl]].
        * left. destruct (Z.of_nat xn + 1 =? M)%Z; lia.
        * left. assert ((Z.of_nat xn + 1 =? M)%Z = true) as -> by (apply Z.eqb_eq; lia). lia.
        * right. lia. }
      assert (A8 : (Fn + 2 - xn <= Z.to_nat (F + 3))%nat) by (unfold F; lia).
      destruct (loop_correct u (Z.to_nat (F + 3)) xn (Datatypes.S xn) st NoOut Hn HnM Hc Hs A5 A6 A7 A8) as [R1 R2].
      rewrite R1, C. split; [|exact R2]. f_equal.
        apply Qltb_lt in C.
        replace (Datatypes.S Fn) with (Datatypes.S xn + (Fn - xn))%nat by lia.
        rewrite (search_skip u (Datatypes.S xn) 0).
        * reflexivity.
        * intros t Ht. assert (csum (Datatypes.S t) <= csum (Datatypes.S xn)) by (apply csum_mono; lia). lra.
    - apply Qltb_false in C.
      destruct (bisect_left_spec (cums n) u (cums_sorted n)) as (R1 & R2 & R3).
      set (r := bisect_left (cums n) u) in *. rewrite cums_length in *.
      assert (Hr : (r < n)%nat).
      { destruct (Nat.eq_dec r n) as [E|E]; [|lia]. specialize (R2 (n - 1)%nat ltac:(lia)).
        rewrite cums_nth in R2 by lia. replace (Datatypes.S (n - 1)) with n in R2 by lia. lra. }
      rewrite Hs, (sts_nth_error n r Hr). cbn [fst snd]. split.
      + unfold inv_spec. rewrite (search_first u (Datatypes.S Fn) 0 r); [reflexivity | lia | |].
        * specialize (R3 r ltac:(lia)). rewrite cums_nth in R3 by lia. exact R3.
        * intros t Ht. specialize (R2 t ltac:(lia)). rewrite cums_nth in R2 by lia. exact R2.
      + exists n. repeat split; try assumption; try lia.
  Qed.

  Lemma init_inv st : inv_init proj inside F prob = Some st -> Inv st.
  Proof.
    unfold inv_init. rewrite sm_search_here by (unfold F; lia).
    assert ((0 <=? F)%Z = true) as -> by (apply Z.leb_le; unfold F; lia).
    intro E. inversion E; subst; clear E. exists 1%nat. cbn [i_cum i_states i_lpi]. repeat split; try lia.
  Qed.

  Theorem inversion_history_free st : reachable proj inside F prob M st -> forall u,
    snd (inv_step proj inside F prob M st u) = inv_spec u.
  Proof.
    intros R u. assert (I : Inv st).
    { induction R as [st E | st u0 R IH]; [apply init_inv; assumption | apply step_correct; assumption]. }
    apply step_correct. assumption.
  Qed.

  (* the specification is a step function of u with right-closed consecutive intervals of lengths prob (proj i) *)
  Lemma spec_is_locate u : inv_spec u = match locate_r 0 spec_segs u with
                                        | Some i => Out (proj i) | None => Frontier end.
  Proof.
    unfold inv_spec, spec_segs. rewrite (locate_r_search u (Datatypes.S Fn) 0 0) by reflexivity.
    destruct (search u (Datatypes.S Fn) 0); reflexivity.
  Qed.

  Lemma spec_len_seq k : forall n i, len_of (Z.of_nat k) (map (fun t => (P t, Z.of_nat t)) (seq i n))
                                     == if ((i <=? k) && (k <? i + n))%nat then P k else 0.
  Proof.
    induction n as [|n IH]; intros i; simpl.
    - destruct (i <=? k)%nat eqn:A; destruct (k <? i + 0)%nat eqn:B; simpl; try reflexivity.
      apply Nat.leb_le in A. apply Nat.ltb_lt in B. lia.
    - rewrite IH. destruct (Z.eqb_spec (Z.of_nat i) (Z.of_nat k)) as [E|E].
      + apply Nat2Z.inj in E. subst i.
        assert ((Datatypes.S k <=? k)%nat = false) as -> by (apply Nat.leb_gt; lia).
        assert ((k <=? k)%nat = true) as -> by (apply Nat.leb_le; lia).
        assert ((k <? k + Datatypes.S n)%nat = true) as -> by (apply Nat.ltb_lt; lia). simpl. ring.
      + assert (i <> k) by (intro; subst; apply E; reflexivity).
        destruct (i <=? k)%nat eqn:A; destruct (Datatypes.S i <=? k)%nat eqn:B;
          destruct (k <? i + Datatypes.S n)%nat eqn:C; destruct (k <? Datatypes.S i + n)%nat eqn:D; simpl; try ring;
          repeat match goal with
                 | H : (_ <=? _)%nat = true |- _ => apply Nat.leb_le in H
                 | H : (_ <=? _)%nat = false |- _ => apply Nat.leb_gt in H
                 | H : (_ <? _)%nat = true |- _ => apply Nat.ltb_lt in H
                 | H : (_ <? _)%nat = false |- _ => apply Nat.ltb_ge in H
                 end; lia.
  Qed.

  Theorem inversion_law :
    (forall k, (k <= Fn)%nat -> len_of (Z.of_nat k) spec_segs == prob (proj (Z.of_nat k)))
    /\ seg_nonneg spec_segs
    /\ (forall u k, 0 < u -> prob (proj (Z.of_nat k)) == 0 -> (k <= Fn)%nat -> locate_r 0 spec_segs u <> Some (Z.of_nat k)).
  Proof.
    assert (L : forall k, (k <= Fn)%nat -> len_of (Z.of_nat k) spec_segs == prob (proj (Z.of_nat k))).
    { intros k Hk. unfold spec_segs. rewrite spec_len_seq.
      assert ((0 <=? k)%nat = true) as -> by (apply Nat.leb_le; lia).
      assert ((k <? 0 + Datatypes.S Fn)%nat = true) as -> by (apply Nat.ltb_lt; lia). reflexivity. }
    assert (N : seg_nonneg spec_segs).
    { unfold seg_nonneg, spec_segs. apply Forall_forall. intros s Hs. apply in_map_iff in Hs.
      destruct Hs as (t & <- & _). simpl. apply prob_nonneg. }
    split; [exact L|]. split; [exact N|].
    intros u k Hu Hz Hk. apply locate_r_never_zero; [assumption | assumption |]. rewrite L by assumption. assumption.
  Qed.

  Theorem inversion_law_full :
    (forall u, inv_spec u = match locate_r 0 spec_segs u with Some i => Out (proj i) | None => Frontier end)
    /\ (forall k, (k <= Fn)%nat -> len_of (Z.of_nat k) spec_segs == prob (proj (Z.of_nat k)))
    /\ seg_nonneg spec_segs
    /\ (forall u k, 0 < u -> prob (proj (Z.of_nat k)) == 0 -> (k <= Fn)%nat -> locate_r 0 spec_segs u <> Some (Z.of_nat k)).
  Proof. split; [exact spec_is_locate | exact inversion_law]. Qed.
End InversionAllInside.

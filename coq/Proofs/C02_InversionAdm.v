(* C02 -- InversionMethod + StatesManager (repaired tree a073fcb) over ANY enumeration, with inadmissible indices:
   for every reachable state of the machine (any sequence of earlier draws, any _max_storage >= 1, any number of
   restarts after the storage is full) the state returned for u is the one the sequential search over the ADMISSIBLE
   sub-enumeration G = [i <= F | not outside (proj i)] returns, i.e. inv_step = locate_r over the segments
   (prob (proj i), i), i in G.  The StatesManager part is C14's sm_step_protocol: under InversionMethod's calling
   protocol the call with rank x returns the x-th admissible index. *)
From Coq Require Import List Arith ZArith QArith Bool Lia Lqa.
From RV Require Import Base.QB Gen.GenPairing Model.Pairing Model.StepLaw Model.Huffman Model.StatesManager Model.Inversion
  Proofs.C02_StepLaw Proofs.C02_Inversion Proofs.C14_Lazy Proofs.C14_StatesManager.
Import ListNotations.
Open Scope Q_scope.

Section InversionAdmissible.
  Context {S : Type}.
  Variable proj : Z -> S.
  Variable outside : S -> bool.
  Variable F : Z.
  Variable prob : S -> Q.
  Variable M : Z.
  Hypothesis prob_nonneg : forall s, 0 <= prob s.
  Hypothesis storage_pos : (1 <= M)%Z.

  Definition G : list Z := sm_good S proj outside F.               (* admissible indices of [0, F], increasing *)
  Let Gn : nat := length G.
  Definition g (j : nat) : Z := nth j G 0%Z.

  Lemma nth_error_G j : nth_error G j = if (j <? Gn)%nat then Some (g j) else None.
  Proof.
    destruct (j <? Gn)%nat eqn:E.
    - apply Nat.ltb_lt in E. unfold g. apply nth_error_nth'. assumption.
    - apply Nat.ltb_ge in E. apply nth_error_None. assumption.
  Qed.

  (* the calling protocol of InversionMethod (C14: sm_protocol): after a call with rank prev, the next call has rank x *)
  Definition proto (prev x : Z) : Prop :=
    (x = prev + 1 \/ (x = M /\ M <= prev) \/ (x = prev /\ 0 <= prev /\ Z.of_nat Gn <= prev))%Z.

  Lemma call_next prev sm x : (-1 <= prev)%Z -> sm_inv S proj outside F M prev sm -> proto prev x ->
    fst (sm_step_index S proj outside F sm x M) = nth_error G (Z.to_nat x)
    /\ sm_inv S proj outside F M x (snd (sm_step_index S proj outside F sm x M)).
  Proof.
    intros Hp I Px. apply (sm_step_protocol S proj outside F M prev sm x M storage_pos Hp I); [left; reflexivity | exact Px].
  Qed.

  (* ---------- cumulative sums over the admissible enumeration, exactly as the code forms them ---------- *)
  Definition P (j : nat) : Q := prob (proj (g j)).
  Fixpoint csum (n : nat) : Q :=
    match n with
    | O => 0
    | Datatypes.S m => match m with O => P 0 | Datatypes.S _ => csum m + P m end
    end.
  Lemma csum_S n : csum (Datatypes.S n) == csum n + P n. Proof. destruct n; simpl; ring. Qed.
  Lemma csum_mono i j : (i <= j)%nat -> csum i <= csum j.
  Proof. induction 1 as [|j _ IH]; [lra|]. rewrite csum_S. pose proof (prob_nonneg (proj (g j))). unfold P. lra. Qed.

  Definition cums (n : nat) : list Q := map (fun j => csum (Datatypes.S j)) (seq 0 n).
  Definition sts (n : nat) : list S := map (fun j => proj (g j)) (seq 0 n).
  Lemma cums_length n : length (cums n) = n. Proof. unfold cums. rewrite map_length, seq_length. reflexivity. Qed.
  Lemma cums_S n : cums (Datatypes.S n) = cums n ++ [csum (Datatypes.S n)].
  Proof. unfold cums. rewrite seq_S, map_app. reflexivity. Qed.
  Lemma sts_S n : sts (Datatypes.S n) = sts n ++ [proj (g n)].
  Proof. unfold sts. rewrite seq_S, map_app. reflexivity. Qed.
  Lemma cums_nth n i : (i < n)%nat -> nth i (cums n) 0 = csum (Datatypes.S i).
  Proof.
    intro H. unfold cums.
    transitivity (nth i (map (fun j => csum (Datatypes.S j)) (seq 0 n)) ((fun j => csum (Datatypes.S j)) 0%nat)).
    - apply nth_indep. rewrite map_length, seq_length. lia.
    - rewrite (map_nth (fun j => csum (Datatypes.S j))). rewrite seq_nth by lia. reflexivity.
  Qed.
  Lemma cums_last n : (1 <= n)%nat -> last (cums n) 0 = csum n.
  Proof. destruct n as [|n]; [lia|]. intros _. rewrite cums_S. apply last_last. Qed.
  Lemma sts_nth_error n i : (i < n)%nat -> nth_error (sts n) i = Some (proj (g i)).
  Proof.
    intro H. unfold sts. rewrite nth_error_map. rewrite (nth_error_nth' _ 0%nat) by (rewrite seq_length; lia).
    rewrite seq_nth by lia. reflexivity.
  Qed.
  Lemma cums_sorted n : forall i j, (i <= j < length (cums n))%nat -> nth i (cums n) 0 <= nth j (cums n) 0.
  Proof. intros i j H. rewrite cums_length in H. rewrite !cums_nth by lia. apply csum_mono. lia. Qed.

  (* ---------- the specification: sequential search over the admissible enumeration ---------- *)
  Section Spec.
    Variable u : Q.
    Fixpoint search (n i : nat) : option nat :=
      match n with
      | O => None
      | Datatypes.S n' => if Qle_bool u (csum (Datatypes.S i)) then Some i else search n' (Datatypes.S i)
      end.

    Lemma search_first n : forall i j, (i <= j < i + n)%nat -> u <= csum (Datatypes.S j) ->
      (forall t, (i <= t < j)%nat -> csum (Datatypes.S t) < u) -> search n i = Some j.
    Proof.
      induction n as [|n IH]; intros i j Hj Hu Hb; [lia|]. cbn [search].
      destruct (Qle_bool u (csum (Datatypes.S i))) eqn:C.
      - apply Qle_bool_iff in C. destruct (Nat.eq_dec i j) as [->|N]; [reflexivity|]. specialize (Hb i ltac:(lia)). lra.
      - apply Qle_bool_false in C. destruct (Nat.eq_dec i j) as [->|N]; [lra|].
        apply IH; [lia | assumption | intros t Ht; apply Hb; lia].
    Qed.

    Lemma search_skip n : forall i, (forall t, (i <= t < i + n)%nat -> csum (Datatypes.S t) < u) -> forall m, search (n + m) i = search m (i + n).
    Proof.
      induction n as [|n IH]; intros i H m; [rewrite Nat.add_0_r; reflexivity|].
      change (Datatypes.S n + m)%nat with (Datatypes.S (n + m)). cbn [search].
      destruct (Qle_bool u (csum (Datatypes.S i))) eqn:C.
      - apply Qle_bool_iff in C. specialize (H i ltac:(lia)). lra.
      - rewrite IH; [f_equal; lia | intros t Ht; apply H; lia].
    Qed.

    (* labels are the pairing indices of the admissible states *)
    Definition adm_segs : list seg := map (fun t => (P t, g t)) (seq 0 Gn).

    Lemma locate_r_search n : forall i c, c == csum i ->
      locate_r c (map (fun t => (P t, g t)) (seq i n)) u = option_map g (search n i).
    Proof.
      induction n as [|n IH]; intros i c E; cbn [seq map locate_r search option_map]; [reflexivity|].
      assert (E2 : c + P i == csum (Datatypes.S i)) by (rewrite csum_S, E; reflexivity).
      assert (Qle_bool u (c + P i) = Qle_bool u (csum (Datatypes.S i))) as ->.
      { destruct (Qle_bool u (c + P i)) eqn:A; destruct (Qle_bool u (csum (Datatypes.S i))) eqn:B; try reflexivity.
        - apply Qle_bool_iff in A. apply Qle_bool_false in B. lra.
        - apply Qle_bool_iff in B. apply Qle_bool_false in A. lra. }
      destruct (Qle_bool u (csum (Datatypes.S i))); [reflexivity | apply IH; exact E2].
    Qed.

    Definition out_of (r : option nat) : @iout S := match r with Some j => Out (proj (g j)) | None => Frontier end.
    Definition adm_spec : @iout S := out_of (search Gn 0).

    Lemma adm_spec_is_locate : adm_spec = match locate_r 0 adm_segs u with Some i => Out (proj i) | None => Frontier end.
    Proof.
      unfold adm_spec, adm_segs. rewrite (locate_r_search Gn 0 0) by reflexivity.
      destruct (search Gn 0); reflexivity.
    Qed.
  End Spec.

  (* ---------- invariant of the reachable states ---------- *)
  (* n sums are stored; prev is the rank of the last StatesManager call; the next call (rank n) obeys the protocol *)
  Definition Inv (st : @ist S) : Prop :=
    exists n prev, (1 <= n <= Gn)%nat /\ (Z.of_nat n <= M)%Z /\ i_cum st = cums n /\ i_states st = sts n
                   /\ (-1 <= prev)%Z /\ sm_inv S proj outside F M prev (i_sm st) /\ proto prev (Z.of_nat n).

  Lemma Inv_intro st n prev : (1 <= n <= Gn)%nat -> (Z.of_nat n <= M)%Z -> i_cum st = cums n -> i_states st = sts n ->
    (-1 <= prev)%Z -> sm_inv S proj outside F M prev (i_sm st) -> proto prev (Z.of_nat n) -> Inv st.
  Proof. intros. exists n, prev. repeat (split; [assumption|]). assumption. Qed.

  Lemma loop_correct u : forall fuel xn n prev st out,
    (1 <= n <= Gn)%nat -> (Z.of_nat n <= M)%Z -> i_cum st = cums n -> i_states st = sts n ->
    (n = Datatypes.S xn \/ (Z.of_nat n = M /\ (n <= Datatypes.S xn)%nat)) -> (Datatypes.S xn <= Gn)%nat ->
    (-1 <= prev)%Z -> sm_inv S proj outside F M prev (i_sm st) -> proto prev (Z.of_nat (Datatypes.S xn)) -> proto prev (Z.of_nat n) ->
    (Gn + 1 - xn <= fuel)%nat ->
    let r := inv_loop proj outside F prob M fuel u (csum (Datatypes.S xn)) (Z.of_nat xn) st out in
    snd r = (if Qltb (csum (Datatypes.S xn)) u then out_of (search u (Gn - Datatypes.S xn) (Datatypes.S xn)) else out)
    /\ Inv (fst r).
  Proof.
    induction fuel as [|f IH]; intros xn n prev st out Hn HnM Hc Hs Hst Hx Hprev I Px Pn Hf; [lia|].
    cbn [inv_loop]. destruct (Qltb (csum (Datatypes.S xn)) u) eqn:C.
    2:{ cbn [fst snd]. split; [reflexivity|]. apply (Inv_intro st n prev); assumption. }
    replace (Z.of_nat xn + 1)%Z with (Z.of_nat (Datatypes.S xn)) by lia.
    destruct (call_next prev (i_sm st) (Z.of_nat (Datatypes.S xn)) Hprev I Px) as [E I'].
    rewrite Nat2Z.id, nth_error_G in E.
    set (r := sm_step_index S proj outside F (i_sm st) (Z.of_nat (Datatypes.S xn)) M) in *.
    destruct (Nat.eq_dec (Datatypes.S xn) Gn) as [EF|NF].
    - (* the admissible enumeration is exhausted: break_here *)
      assert ((Datatypes.S xn <? Gn)%nat = false) as Hlt by (apply Nat.ltb_ge; lia). rewrite Hlt in E. rewrite E.
      cbn [fst snd]. rewrite EF, Nat.sub_diag. cbn [search out_of]. split; [reflexivity|].
      apply (Inv_intro _ n (Z.of_nat (Datatypes.S xn))); cbn [i_cum i_states i_sm]; try assumption; try lia.
      unfold proto. destruct Hst as [Hst|[Hst Hle]]; [right; right; lia|].
      destruct (Nat.eq_dec n (Datatypes.S xn)); [right; right; lia | right; left; lia].
    - assert ((Datatypes.S xn <? Gn)%nat = true) as Hlt by (apply Nat.ltb_lt; lia). rewrite Hlt in E. rewrite E.
      change (csum (Datatypes.S xn) + prob (proj (g (Datatypes.S xn)))) with (csum (Datatypes.S (Datatypes.S xn))).
      replace (Gn - Datatypes.S xn)%nat with (Datatypes.S (Gn - Datatypes.S (Datatypes.S xn))) by lia. cbn [search].
      assert (Hq : forall (A : Type) (x y : A), (if Qle_bool u (csum (Datatypes.S (Datatypes.S xn))) then x else y)
                   = (if Qltb (csum (Datatypes.S (Datatypes.S xn))) u then y else x)).
      { intros A x y. unfold Qltb. destruct (Qle_bool u (csum (Datatypes.S (Datatypes.S xn)))); reflexivity. }
      assert (P2 : proto (Z.of_nat (Datatypes.S xn)) (Z.of_nat (Datatypes.S (Datatypes.S xn)))) by (unfold proto; left; lia).
      unfold zlen. rewrite Hc, cums_length.
      destruct (Z.of_nat n <? M)%Z eqn:LM.
      + apply Z.ltb_lt in LM. destruct Hst as [Hst|[Hst _]]; [|lia].
        match goal with |- context [inv_loop _ _ _ _ _ f u _ _ ?st' _] => set (st1 := st') end.
        assert (A1 : (1 <= Datatypes.S n <= Gn)%nat) by lia.
        assert (A2 : (Z.of_nat (Datatypes.S n) <= M)%Z) by lia.
        assert (A3 : i_cum st1 = cums (Datatypes.S n)) by (unfold st1; cbn [i_cum]; rewrite ?Hc, cums_S; subst n; reflexivity).
        assert (A4 : i_states st1 = sts (Datatypes.S n)) by (unfold st1; cbn [i_states]; rewrite ?Hs, sts_S; subst n; reflexivity).
        assert (A5 : Datatypes.S n = Datatypes.S (Datatypes.S xn) \/ (Z.of_nat (Datatypes.S n) = M /\ (Datatypes.S n <= Datatypes.S (Datatypes.S xn))%nat)) by (left; lia).
        assert (A6 : (Datatypes.S (Datatypes.S xn) <= Gn)%nat) by lia.
        assert (A7 : sm_inv S proj outside F M (Z.of_nat (Datatypes.S xn)) (i_sm st1)) by (unfold st1; cbn [i_sm]; exact I').
        assert (A9 : proto (Z.of_nat (Datatypes.S xn)) (Z.of_nat (Datatypes.S n))) by (unfold proto; left; lia).
        assert (A8 : (Gn + 1 - Datatypes.S xn <= f)%nat) by lia.
        destruct (IH (Datatypes.S xn) (Datatypes.S n) (Z.of_nat (Datatypes.S xn)) st1 (Out (proj (g (Datatypes.S xn)))) A1 A2 A3 A4 A5 A6 ltac:(lia) A7 P2 A9 A8) as [R1 R2].
        rewrite R1. split; [|exact R2]. rewrite Hq. destruct (Qltb (csum (Datatypes.S (Datatypes.S xn))) u); reflexivity.
      + apply Z.ltb_ge in LM. assert (HM : Z.of_nat n = M) by lia.
        match goal with |- context [inv_loop _ _ _ _ _ f u _ _ ?st' _] => set (st1 := st') end.
        assert (A3 : i_cum st1 = cums n) by (unfold st1; cbn [i_cum]; rewrite ?Hc; reflexivity).
        assert (A4 : i_states st1 = sts n) by (unfold st1; cbn [i_states]; rewrite ?Hs; reflexivity).
        assert (A5 : n = Datatypes.S (Datatypes.S xn) \/ (Z.of_nat n = M /\ (n <= Datatypes.S (Datatypes.S xn))%nat)).
        { right. split; [assumption|]. destruct Hst as [Hst|[_ Hst]]; lia. }
        assert (A6 : (Datatypes.S (Datatypes.S xn) <= Gn)%nat) by lia.
        assert (A7 : sm_inv S proj outside F M (Z.of_nat (Datatypes.S xn)) (i_sm st1)) by (unfold st1; cbn [i_sm]; exact I').
        assert (A9 : proto (Z.of_nat (Datatypes.S xn)) (Z.of_nat n)).
        { unfold proto. right. left. destruct Hst as [Hst|[_ Hst]]; lia. }
        assert (A8 : (Gn + 1 - Datatypes.S xn <= f)%nat) by lia.
        destruct (IH (Datatypes.S xn) n (Z.of_nat (Datatypes.S xn)) st1 (Out (proj (g (Datatypes.S xn)))) Hn HnM A3 A4 A5 A6 ltac:(lia) A7 P2 A9 A8) as [R1 R2].
        rewrite R1. split; [|exact R2]. rewrite Hq. destruct (Qltb (csum (Datatypes.S (Datatypes.S xn))) u); reflexivity.
  Qed.

  Hypothesis F_bound : (Z.of_nat Gn <= F + 1)%Z.

  Lemma step_correct st u : Inv st ->
    snd (inv_step proj outside F prob M st u) = adm_spec u /\ Inv (fst (inv_step proj outside F prob M st u)).
  Proof.
    intros (n & prev & Hn & HnM & Hc & Hs & Hprev & I & Pn). unfold inv_step, adm_spec. rewrite Hc, cums_last by lia.
    destruct (Qltb (csum n) u) eqn:C.
    - unfold zlen. rewrite cums_length.
      destruct n as [|xn]; [lia|]. replace (Z.of_nat (Datatypes.S xn) - 1)%Z with (Z.of_nat xn) by lia.
      destruct (Nat.eq_dec (Datatypes.S xn) Gn) as [EF|NF].
      + (* everything is stored: the very first project call signals exhaustion *)
        destruct (Z.to_nat (F + 3)) as [|f] eqn:Ef; [lia|]. cbn [inv_loop]. rewrite C.
        replace (Z.of_nat xn + 1)%Z with (Z.of_nat (Datatypes.S xn)) by lia.
        destruct (call_next prev (i_sm st) (Z.of_nat (Datatypes.S xn)) Hprev I Pn) as [E I'].
        rewrite Nat2Z.id, nth_error_G in E.
        assert ((Datatypes.S xn <? Gn)%nat = false) as Hlt by (apply Nat.ltb_ge; lia). rewrite Hlt in E. rewrite E. cbn [fst snd]. split.
        * apply Qltb_lt in C. replace Gn with (Datatypes.S xn + 0)%nat by lia.
          rewrite (search_skip u (Datatypes.S xn) 0); [reflexivity|].
          intros t Ht. assert (csum (Datatypes.S t) <= csum (Datatypes.S xn)) by (apply csum_mono; lia). lra.
        * apply (Inv_intro _ (Datatypes.S xn) (Z.of_nat (Datatypes.S xn))); cbn [i_cum i_states i_sm]; try assumption; try lia.
          unfold proto. right. right. lia.
      + assert (A5 : Datatypes.S xn = Datatypes.S xn \/ (Z.of_nat (Datatypes.S xn) = M /\ (Datatypes.S xn <= Datatypes.S xn)%nat)) by (left; reflexivity).
        assert (A6 : (Datatypes.S xn <= Gn)%nat) by lia.
        assert (A8 : (Gn + 1 - xn <= Z.to_nat (F + 3))%nat) by lia.
        destruct (loop_correct u (Z.to_nat (F + 3)) xn (Datatypes.S xn) prev st NoOut Hn HnM Hc Hs A5 A6 Hprev I Pn Pn A8) as [R1 R2].
        rewrite R1, C. split; [|exact R2]. f_equal. apply Qltb_lt in C.
        replace Gn with (Datatypes.S xn + (Gn - Datatypes.S xn))%nat at 2 by lia.
        rewrite (search_skip u (Datatypes.S xn) 0); [reflexivity|].
        intros t Ht. assert (csum (Datatypes.S t) <= csum (Datatypes.S xn)) by (apply csum_mono; lia). lra.
    - apply Qltb_false in C.
      destruct (bisect_left_spec (cums n) u (cums_sorted n)) as (R1 & R2 & R3).
      set (r := bisect_left (cums n) u) in *. rewrite cums_length in *.
      assert (Hr : (r < n)%nat).
      { destruct (Nat.eq_dec r n) as [E|E]; [|lia]. specialize (R2 (n - 1)%nat ltac:(lia)).
        rewrite cums_nth in R2 by lia. replace (Datatypes.S (n - 1)) with n in R2 by lia. lra. }
      rewrite Hs, (sts_nth_error n r Hr). cbn [fst snd]. split.
      + unfold adm_spec. rewrite (search_first u Gn 0 r); [reflexivity | lia | |].
        * specialize (R3 r ltac:(lia)). rewrite cums_nth in R3 by lia. exact R3.
        * intros t Ht. specialize (R2 t ltac:(lia)). rewrite cums_nth in R2 by lia. exact R2.
      + apply (Inv_intro st n prev); assumption.
  Qed.

  Lemma init_inv st : inv_init proj outside F prob = Some st -> Inv st.
  Proof.
    unfold inv_init.
    destruct (sm_step_protocol S proj outside F M (-1) sm_init 0 (-1) storage_pos ltac:(lia) (sm_inv_init S proj outside F M storage_pos)
                ltac:(right; lia) ltac:(left; lia)) as [E I].
    fold G in E. change (Z.to_nat 0) with O in E. rewrite nth_error_G in E.
    set (r := sm_step_index S proj outside F sm_init 0 (-1)) in *. rewrite E.
    destruct (0 <? Gn)%nat eqn:L; [|discriminate]. apply Nat.ltb_lt in L.
    intro H. inversion H; subst; clear H. apply (Inv_intro _ 1%nat 0%Z); cbn [i_cum i_states i_sm]; try lia; try reflexivity; try exact I.
    unfold proto. left. lia.
  Qed.

  Theorem inversion_adm_history_free st : reachable proj outside F prob M st -> forall u,
    snd (inv_step proj outside F prob M st u) = adm_spec u.
  Proof.
    intros R u. assert (I : Inv st).
    { induction R as [st E | st u0 R IH]; [apply init_inv; assumption | apply step_correct; assumption]. }
    apply step_correct. assumption.
  Qed.

  (* ---------- the law: right-closed step function over the admissible sub-enumeration ---------- *)
  Definition adm_segs' : list seg := map (fun i => (prob (proj i), i)) G.

  Lemma adm_segs_eq : adm_segs = adm_segs'.
  Proof.
    unfold adm_segs, adm_segs', P, g, Gn. generalize G. intro l.
    assert (H : forall pre, map (fun t => (prob (proj (nth t (pre ++ l) 0%Z)), nth t (pre ++ l) 0%Z)) (seq (length pre) (length l))
                            = map (fun i => (prob (proj i), i)) l).
    { induction l as [|x l IH]; intro pre; [reflexivity|]. cbn [length seq map].
      rewrite app_nth2 by lia. rewrite Nat.sub_diag. cbn [nth]. f_equal.
      specialize (IH (pre ++ [x])). rewrite app_length in IH. cbn [length] in IH. rewrite <- app_assoc in IH. cbn [app] in IH.
      replace (length pre + 1)%nat with (Datatypes.S (length pre)) in IH by lia. exact IH. }
    apply (H []).
  Qed.

  Lemma G_spec i : In i G <-> (0 <= i <= F)%Z /\ outside (proj i) = false.
  Proof.
    unfold G. apply sm_good_spec.
  Qed.

  Theorem inversion_adm_law :
    (forall u, adm_spec u = match locate_r 0 adm_segs' u with Some i => Out (proj i) | None => Frontier end)
    /\ (forall i, In i G -> len_of i adm_segs' == prob (proj i))
    /\ seg_nonneg adm_segs'
    /\ (forall u i, 0 < u -> In i G -> prob (proj i) == 0 -> locate_r 0 adm_segs' u <> Some i).
  Proof.
    assert (L : forall i, In i G -> len_of i adm_segs' == prob (proj i)).
    { intros i Hi. unfold adm_segs'. destruct (in_split _ _ Hi) as (pre & post & E).
      pose proof (sm_good_NoDup S proj outside F) as ND. fold G in ND. rewrite E in ND. apply NoDup_remove_2 in ND.
      rewrite E, map_app. cbn [map]. apply len_of_unique; rewrite map_map; cbn [snd]; rewrite map_id; intro Hc; apply ND; apply in_or_app; auto. }
    assert (N : seg_nonneg adm_segs').
    { unfold seg_nonneg, adm_segs'. apply Forall_forall. intros s Hs. apply in_map_iff in Hs. destruct Hs as (t & <- & _). apply prob_nonneg. }
    split; [intro u; rewrite <- adm_segs_eq; apply adm_spec_is_locate|]. split; [exact L|]. split; [exact N|].
    intros u i Hu Hi Hz. apply locate_r_never_zero; [assumption | assumption |]. rewrite (L i Hi). assumption.
  Qed.
End InversionAdmissible.

Lemma G_length_bound {S : Type} (proj : Z -> S) (outside : S -> bool) (F : Z) : (0 <= F)%Z ->
  (Z.of_nat (length (G proj outside F)) <= F + 1)%Z.
Proof.
  intro H. unfold G, sm_good.
  assert (L : forall (f : Z -> bool) l, (length (filter f l) <= length l)%nat).
  { intros f l. induction l as [|x l IH]; simpl; [lia|]. destruct (f x); simpl; lia. }
  pose proof (L (sm_ok S proj outside) (zrange (F + 1))) as Hl.
  unfold zrange in Hl at 2. rewrite map_length, seq_length in Hl. lia.
Qed.

(* ---------- the combined statement: every enumeration, every _max_storage >= 1, every history ---------- *)
Theorem inversion_admissible_full {S : Type} (proj : Z -> S) (outside : S -> bool) (F : Z) (prob : S -> Q) (M : Z) :
  (forall s, 0 <= prob s) -> (1 <= M)%Z -> (0 <= F)%Z ->
  let segs := adm_segs' proj outside F prob in
  (forall st, reachable proj outside F prob M st -> forall u,
     snd (inv_step proj outside F prob M st u) = match locate_r 0 segs u with Some i => Out (proj i) | None => Frontier end)
  /\ (forall i, In i (G proj outside F) <-> (0 <= i <= F)%Z /\ outside (proj i) = false)
  /\ (forall i, In i (G proj outside F) -> len_of i segs == prob (proj i))
  /\ seg_nonneg segs
  /\ (forall u i, 0 < u -> In i (G proj outside F) -> prob (proj i) == 0 -> locate_r 0 segs u <> Some i).
Proof.
  intros Hp HM HF segs.
  destruct (inversion_adm_law proj outside F prob Hp) as (A1 & A2 & A3 & A4).
  split; [|split; [intro i; apply G_spec | split; [exact A2 | split; [exact A3 | exact A4]]]].
  intros st R u. rewrite (inversion_adm_history_free proj outside F prob M Hp HM (G_length_bound proj outside F HF) st R u).
  apply A1.
Qed.

(* C02 -- InversionMethod + StatesManager over an enumeration WITH inadmissible indices (n-d grids, boundaries):
   for every reachable state of the machine the state returned for u is the one the sequential search over the
   ADMISSIBLE sub-enumeration G = [i <= F | inside (proj i)] returns, i.e. inv_step = locate_r over the segments
   (prob (proj i), i), i in G -- provided the restart that StatesManager performs when x == _max_storage lands on the
   right admissible index:
       reset_ok :  M = j <= |G|  ->  admissible indices >= j  =  G without its first j elements.
   reset_ok holds when every index is admissible (1-d chains, centred square grids with Szudzik) and when the storage
   never fills (M > |G|); it fails exactly in the situation of F-C02-7 (C02_inversion_overflow_refuted).
   Uses the StatesManager facts of C14 (sm_G, sm_G_head, sm_good_spec). *)
From Coq Require Import List Arith ZArith QArith Bool Lia Lqa.
From RV Require Import Base.QB Gen.GenPairing Model.Pairing Model.StepLaw Model.Huffman Model.Inversion Model.StatesManager
  Proofs.C02_StepLaw Proofs.C02_Inversion Proofs.C14_Lazy Proofs.C14_StatesManager.
Import ListNotations.
Open Scope Q_scope.

Lemma skipn_S_tail {A} (l : list A) : forall n x r, skipn n l = x :: r -> skipn (S n) l = r.
Proof.
  induction l as [|y l IH]; intros [|n] x r H; simpl in *; try discriminate.
  - inversion H. reflexivity.
  - apply (IH n x r H).
Qed.

Section InversionAdmissible.
  Context {S : Type}.
  Variable proj : Z -> S.
  Variable inside : S -> bool.
  Variable F : Z.
  Variable prob : S -> Q.
  Variable M : Z.
  Hypothesis prob_nonneg : forall s, 0 <= prob s.
  Hypothesis storage_pos : (1 <= M)%Z.

  Let outside (s : S) : bool := negb (inside s).
  Definition G : list Z := sm_good S proj outside F.               (* admissible indices of [0, F], increasing *)
  Definition GG (a : Z) : list Z := sm_G S proj outside F a.       (* admissible indices of [a, F] *)
  Let Gn : nat := length G.
  Definition g (j : nat) : Z := nth j G 0%Z.

  Hypothesis reset_ok : forall j, Z.of_nat j = M -> (j <= Gn)%nat -> GG (Z.of_nat j) = skipn j G.

  (* ---------- StatesManager: the model's search in terms of the admissible indices ---------- *)
  Lemma my_search_spec fuel : forall xx, (F + 2 - xx <= Z.of_nat fuel)%Z ->
    Inversion.sm_search proj inside F fuel xx =
      match GG xx with [] => (None, Z.max xx (F + 1)) | i :: _ => (Some (proj i), i) end.
  Proof.
    induction fuel as [|f IH]; intros xx Hf; simpl.
    - assert (Hx : (F < xx)%Z) by lia. unfold GG. rewrite (sm_G_empty S proj outside F xx Hx). rewrite Z.max_l by lia. reflexivity.
    - destruct (xx <=? F)%Z eqn:L.
      + apply Z.leb_le in L. unfold GG. rewrite sm_G_unfold by lia. unfold sm_ok. change (outside (proj xx)) with (negb (inside (proj xx))).
        destruct (inside (proj xx)); cbn [negb]; [reflexivity|]. fold (GG (xx + 1)). rewrite IH by lia.
        destruct (GG (xx + 1)); [|reflexivity]. replace (Z.max (xx + 1) (F + 1)) with (Z.max xx (F + 1)) by lia. reflexivity.
      + apply Z.leb_gt in L. unfold GG. rewrite sm_G_empty by lia. rewrite Z.max_l by lia. reflexivity.
  Qed.

  Lemma GG_head a i rest : GG a = i :: rest -> (a <= i <= F)%Z /\ inside (proj i) = true /\ rest = GG (i + 1).
  Proof.
    intro H. destruct (sm_G_head S proj outside F a i rest H) as (H1 & H2 & H3). split; [assumption|]. split; [|assumption].
    unfold sm_ok, outside in H2. destruct (inside (proj i)); [reflexivity | discriminate].
  Qed.

  (* the condition under which the call with x = n returns the n-th admissible index *)
  Definition NextInv (n : nat) (lpi : Z) : Prop :=
    (Z.of_nat n = M /\ (n <= Gn)%nat) \/ (Z.of_nat n <> M /\ (Z.of_nat n <= lpi + 1)%Z /\ GG (lpi + 1) = skipn n G).

  Lemma project_next n lpi : NextInv n lpi ->
    match skipn n G with
    | [] => exists lpi', sm_project proj inside F M (Z.of_nat n) lpi = (None, lpi') /\ (F < lpi')%Z /\ (Z.of_nat n <= lpi')%Z
    | i :: _ => sm_project proj inside F M (Z.of_nat n) lpi = (Some (proj i), i) /\ (Z.of_nat n <= i)%Z /\ GG (i + 1) = skipn (Datatypes.S n) G
    end.
  Proof.
    intros [[E Hn] | (NE & Hl & HG)]; unfold sm_project.
    - assert ((Z.of_nat n =? M)%Z = true) as -> by (apply Z.eqb_eq; assumption).
      rewrite Z.max_l by lia. rewrite my_search_spec by lia. rewrite (reset_ok n E Hn).
      destruct (skipn n G) as [|i rest] eqn:Es.
      + eexists. split; [reflexivity|]. lia.
      + pose proof (reset_ok n E Hn) as R. rewrite Es in R. destruct (GG_head _ _ _ R) as (H1 & _ & H3).
        split; [reflexivity|]. split; [lia|]. rewrite <- H3. symmetry. eapply skipn_S_tail. exact Es.
    - assert ((Z.of_nat n =? M)%Z = false) as -> by (apply Z.eqb_neq; assumption).
      rewrite Z.max_r by lia. rewrite my_search_spec by lia. rewrite HG.
      destruct (skipn n G) as [|i rest] eqn:Es.
      + eexists. split; [reflexivity|]. lia.
      + destruct (GG_head _ _ _ HG) as (H1 & _ & H3).
        split; [reflexivity|]. split; [lia|]. rewrite <- H3. symmetry. eapply skipn_S_tail. exact Es.
  Qed.

  Lemma skipn_g n : (n < Gn)%nat -> exists rest, skipn n G = g n :: rest.
  Proof.
    intro H. unfold g. destruct (skipn n G) as [|i rest] eqn:E.
    - exfalso. assert (length (skipn n G) = (Gn - n)%nat) by apply skipn_length. rewrite E in H0. simpl in H0. unfold Gn in *. lia.
    - exists rest. f_equal. rewrite <- (firstn_skipn n G) at 1. rewrite app_nth2; rewrite firstn_length_le by (unfold Gn in H; lia); [|lia].
      rewrite Nat.sub_diag, E. reflexivity.
  Qed.

  Lemma skipn_all n : (Gn <= n)%nat -> skipn n G = [].
  Proof. intro H. apply skipn_all2. assumption. Qed.

  (* ---------- cumulative sums over the admissible enumeration, exactly as the code forms them ---------- *)
  Definition P (j : nat) : Q := prob (proj (g j)).
  Fixpoint csum (n : nat) : Q :=
    match n with
    | O => 0
    | Datatypes.S m => match m with O => P 0 | Datatypes.S _ => csum m + P m end
    end.
  Lemma csum_S n : csum (Datatypes.S n) == csum n + P n. Proof. destruct n; simpl; ring. Qed.
  Lemma csum_mono i j : (i <= j)%nat -> csum i <= csum j.
  Proof. induction 1 as [|j _ IH]; [lra|]. rewrite csum_S. pose proof (prob_nonneg (proj (g j))). unfold P. lra. Qed.

  Definition cums (n : nat) : list Q := map (fun j => csum (Datatypes.S j)) (seq 0 n).
  Definition sts (n : nat) : list S := map (fun j => proj (g j)) (seq 0 n).
  Lemma cums_length n : length (cums n) = n. Proof. unfold cums. rewrite map_length, seq_length. reflexivity. Qed.
  Lemma cums_S n : cums (Datatypes.S n) = cums n ++ [csum (Datatypes.S n)].
  Proof. unfold cums. rewrite seq_S, map_app. reflexivity. Qed.
  Lemma sts_S n : sts (Datatypes.S n) = sts n ++ [proj (g n)].
  Proof. unfold sts. rewrite seq_S, map_app. reflexivity. Qed.
  Lemma cums_nth n i : (i < n)%nat -> nth i (cums n) 0 = csum (Datatypes.S i).
  Proof.
    intro H. unfold cums.
    transitivity (nth i (map (fun j => csum (Datatypes.S j)) (seq 0 n)) ((fun j => csum (Datatypes.S j)) 0%nat)).
    - apply nth_indep. rewrite map_length, seq_length. lia.
    - rewrite (map_nth (fun j => csum (Datatypes.S j))). rewrite seq_nth by lia. reflexivity.
  Qed.
  Lemma cums_last n : (1 <= n)%nat -> last (cums n) 0 = csum n.
  Proof. destruct n as [|n]; [lia|]. intros _. rewrite cums_S. apply last_last. Qed.
  Lemma sts_nth_error n i : (i < n)%nat -> nth_error (sts n) i = Some (proj (g i)).
  Proof.
    intro H. unfold sts. rewrite nth_error_map. rewrite (nth_error_nth' _ 0%nat) by (rewrite seq_length; lia).
    rewrite seq_nth by lia. reflexivity.
  Qed.
  Lemma cums_sorted n : forall i j, (i <= j < length (cums n))%nat -> nth i (cums n) 0 <= nth j (cums n) 0.
  Proof. intros i j H. rewrite cums_length in H. rewrite !cums_nth by lia. apply csum_mono. lia. Qed.

  (* ---------- the specification: sequential search over the admissible enumeration ---------- *)
  Section Spec.
    Variable u : Q.
    Fixpoint search (n i : nat) : option nat :=
      match n with
      | O => None
      | Datatypes.S n' => if Qle_bool u (csum (Datatypes.S i)) then Some i else search n' (Datatypes.S i)
      end.

    Lemma search_first n : forall i j, (i <= j < i + n)%nat -> u <= csum (Datatypes.S j) ->
      (forall t, (i <= t < j)%nat -> csum (Datatypes.S t) < u) -> search n i = Some j.
    Proof.
      induction n as [|n IH]; intros i j Hj Hu Hb; [lia|]. cbn [search].
      destruct (Qle_bool u (csum (Datatypes.S i))) eqn:C.
      - apply Qle_bool_iff in C. destruct (Nat.eq_dec i j) as [->|N]; [reflexivity|]. specialize (Hb i ltac:(lia)). lra.
      - apply Qle_bool_false in C. destruct (Nat.eq_dec i j) as [->|N]; [lra|].
        apply IH; [lia | assumption | intros t Ht; apply Hb; lia].
    Qed.

    Lemma search_skip n : forall i, (forall t, (i <= t < i + n)%nat -> csum (Datatypes.S t) < u) -> forall m, search (n + m) i = search m (i + n).
    Proof.
      induction n as [|n IH]; intros i H m; [rewrite Nat.add_0_r; reflexivity|].
      change (Datatypes.S n + m)%nat with (Datatypes.S (n + m)). cbn [search].
      destruct (Qle_bool u (csum (Datatypes.S i))) eqn:C.
      - apply Qle_bool_iff in C. specialize (H i ltac:(lia)). lra.
      - rewrite IH; [f_equal; lia | intros t Ht; apply H; lia].
    Qed.

    (* labels are the pairing indices of the admissible states *)
    Definition adm_segs : list seg := map (fun t => (P t, g t)) (seq 0 Gn).

    Lemma locate_r_search n : forall i c, c == csum i ->
      locate_r c (map (fun t => (P t, g t)) (seq i n)) u = option_map g (search n i).
    Proof.
      induction n as [|n IH]; intros i c E; cbn [seq map locate_r search option_map]; [reflexivity|].
      assert (E2 : c + P i == csum (Datatypes.S i)) by (rewrite csum_S, E; reflexivity).
      assert (Qle_bool u (c + P i) = Qle_bool u (csum (Datatypes.S i))) as ->.
      { destruct (Qle_bool u (c + P i)) eqn:A; destruct (Qle_bool u (csum (Datatypes.S i))) eqn:B; try reflexivity.
        - apply Qle_bool_iff in A. apply Qle_bool_false in B. lra.
        - apply Qle_bool_iff in B. apply Qle_bool_false in A. lra. }
      destruct (Qle_bool u (csum (Datatypes.S i))); [reflexivity | apply IH; exact E2].
    Qed.

    Definition out_of (r : option nat) : @iout S := match r with Some j => Out (proj (g j)) | None => Frontier end.
    Definition adm_spec : @iout S := out_of (search Gn 0).

    Lemma adm_spec_is_locate : adm_spec = match locate_r 0 adm_segs u with Some i => Out (proj i) | None => Frontier end.
    Proof.
      unfold adm_spec, adm_segs. rewrite (locate_r_search Gn 0 0) by reflexivity.
      destruct (search Gn 0); reflexivity.
    Qed.
  End Spec.

  (* ---------- invariant of the reachable states ---------- *)
  Definition Inv (st : @ist S) : Prop :=
    exists n, (1 <= n <= Gn)%nat /\ (Z.of_nat n <= M)%Z /\ i_cum st = cums n /\ i_states st = sts n /\ NextInv n (i_lpi st).

  Lemma loop_correct u : forall fuel xn n st out,
    (1 <= n <= Gn)%nat -> (Z.of_nat n <= M)%Z -> i_cum st = cums n -> i_states st = sts n ->
    (n = Datatypes.S xn \/ (Z.of_nat n = M /\ (n <= Datatypes.S xn)%nat)) -> (Datatypes.S xn <= Gn)%nat ->
    NextInv (Datatypes.S xn) (i_lpi st) ->
    (Gn + 1 - xn <= fuel)%nat ->
    let r := inv_loop proj inside F prob M fuel u (csum (Datatypes.S xn)) (Z.of_nat xn) st out in
    snd r = (if Qltb (csum (Datatypes.S xn)) u then out_of (search u (Gn - Datatypes.S xn) (Datatypes.S xn)) else out)
    /\ Inv (fst r).
  Proof.
    induction fuel as [|f IH]; intros xn n st out Hn HnM Hc Hs Hst Hx Hl Hf; [lia|].
    cbn [inv_loop]. destruct (Qltb (csum (Datatypes.S xn)) u) eqn:C.
    2:{ simpl. split; [reflexivity|]. exists n. repeat split; try assumption; try lia.
        destruct Hst as [Hst|[Hst Hle]]; [rewrite Hst; assumption|]. left. split; [assumption | lia]. }
    replace (Z.of_nat xn + 1)%Z with (Z.of_nat (Datatypes.S xn)) by lia.
    pose proof (project_next (Datatypes.S xn) (i_lpi st) Hl) as PN.
    destruct (Nat.eq_dec (Datatypes.S xn) Gn) as [EF|NF].
    - (* the admissible enumeration is exhausted: break_here *)
      rewrite (skipn_all (Datatypes.S xn)) in PN by lia. destruct PN as (lpi' & E & Hl' & Hl2).
      rewrite E. cbn [fst snd]. rewrite EF, Nat.sub_diag. cbn [search out_of]. split; [reflexivity|].
      exists n. cbn [i_cum i_states i_lpi]. repeat split; try assumption; try lia.
      destruct Hst as [Hst|[Hst Hle]].
      + destruct (Z.eq_dec (Z.of_nat n) M) as [EM|NM]; [left; split; [assumption | lia]|].
        right. split; [assumption|]. split; [lia|]. unfold GG. rewrite sm_G_empty by lia. symmetry. apply skipn_all. lia.
      + left. split; [assumption | lia].
    - destruct (skipn_g (Datatypes.S xn) ltac:(lia)) as (rest & Es). rewrite Es in PN. destruct PN as (E & Hi & HG').
      rewrite E. change (csum (Datatypes.S xn) + prob (proj (g (Datatypes.S xn)))) with (csum (Datatypes.S (Datatypes.S xn))).
      replace (Gn - Datatypes.S xn)%nat with (Datatypes.S (Gn - Datatypes.S (Datatypes.S xn))) by lia. cbn [search].
      assert (Hq : forall (A : Type) (x y : A), (if Qle_bool u (csum (Datatypes.S (Datatypes.S xn))) then x else y)
                   = (if Qltb (csum (Datatypes.S (Datatypes.S xn))) u then y else x)).
      { intros A x y. unfold Qltb. destruct (Qle_bool u (csum (Datatypes.S (Datatypes.S xn)))); reflexivity. }
      assert (NI : forall lp, lp = g (Datatypes.S xn) -> NextInv (Datatypes.S (Datatypes.S xn)) lp).
      { intros lp ->. destruct (Z.eq_dec (Z.of_nat (Datatypes.S (Datatypes.S xn))) M) as [EM|NM]; [left; split; [assumption | lia]|].
        right. split; [assumption|]. split; [lia | exact HG']. }
      unfold zlen. rewrite Hc, cums_length.
      destruct (Z.of_nat n <? M)%Z eqn:LM.
      + apply Z.ltb_lt in LM. destruct Hst as [Hst|[Hst _]]; [|lia].
        match goal with |- context [inv_loop _ _ _ _ _ f u _ _ ?st' _] => set (st1 := st') end.
        assert (A1 : (1 <= Datatypes.S n <= Gn)%nat) by lia.
        assert (A2 : (Z.of_nat (Datatypes.S n) <= M)%Z) by lia.
        assert (A3 : i_cum st1 = cums (Datatypes.S n)) by (unfold st1; cbn [i_cum]; rewrite ?Hc, cums_S; subst n; reflexivity).
        assert (A4 : i_states st1 = sts (Datatypes.S n)) by (unfold st1; cbn [i_states]; rewrite ?Hs, sts_S; subst n; reflexivity).
        assert (A5 : Datatypes.S n = Datatypes.S (Datatypes.S xn) \/ (Z.of_nat (Datatypes.S n) = M /\ (Datatypes.S n <= Datatypes.S (Datatypes.S xn))%nat)) by (left; lia).
        assert (A6 : (Datatypes.S (Datatypes.S xn) <= Gn)%nat) by lia.
        assert (A7 : NextInv (Datatypes.S (Datatypes.S xn)) (i_lpi st1)) by (apply NI; reflexivity).
        assert (A8 : (Gn + 1 - Datatypes.S xn <= f)%nat) by lia.
        destruct (IH (Datatypes.S xn) (Datatypes.S n) st1 (Out (proj (g (Datatypes.S xn)))) A1 A2 A3 A4 A5 A6 A7 A8) as [R1 R2].
        rewrite R1. split; [|exact R2]. rewrite Hq. destruct (Qltb (csum (Datatypes.S (Datatypes.S xn))) u); reflexivity.
      + apply Z.ltb_ge in LM. assert (HM : Z.of_nat n = M) by lia.
        match goal with |- context [inv_loop _ _ _ _ _ f u _ _ ?st' _] => set (st1 := st') end.
        assert (A3 : i_cum st1 = cums n) by (unfold st1; cbn [i_cum]; rewrite ?Hc; reflexivity).
        assert (A4 : i_states st1 = sts n) by (unfold st1; cbn [i_states]; rewrite ?Hs; reflexivity).
        assert (A5 : n = Datatypes.S (Datatypes.S xn) \/ (Z.of_nat n = M /\ (n <= Datatypes.S (Datatypes.S xn))%nat)).
        { right. split; [assumption|]. destruct Hst as [Hst|[_ Hst]]; lia. }
        assert (A6 : (Datatypes.S (Datatypes.S xn) <= Gn)%nat) by lia.
        assert (A7 : NextInv (Datatypes.S (Datatypes.S xn)) (i_lpi st1)) by (apply NI; reflexivity).
        assert (A8 : (Gn + 1 - Datatypes.S xn <= f)%nat) by lia.
        destruct (IH (Datatypes.S xn) n st1 (Out (proj (g (Datatypes.S xn)))) Hn HnM A3 A4 A5 A6 A7 A8) as [R1 R2].
        rewrite R1. split; [|exact R2]. rewrite Hq. destruct (Qltb (csum (Datatypes.S (Datatypes.S xn))) u); reflexivity.
  Qed.

  Hypothesis F_bound : (Z.of_nat Gn <= F + 1)%Z.   (* at most F + 1 admissible indices: holds by construction, see G_bound *)

  Lemma step_correct st u : Inv st ->
    snd (inv_step proj inside F prob M st u) = adm_spec u /\ Inv (fst (inv_step proj inside F prob M st u)).
  Proof.
    intros (n & Hn & HnM & Hc & Hs & Hl). unfold inv_step, adm_spec. rewrite Hc, cums_last by lia.
    destruct (Qltb (csum n) u) eqn:C.
    - unfold zlen. rewrite cums_length.
      destruct n as [|xn]; [lia|]. replace (Z.of_nat (Datatypes.S xn) - 1)%Z with (Z.of_nat xn) by lia.
      destruct (Nat.eq_dec (Datatypes.S xn) Gn) as [EF|NF].
      + (* everything is stored: the very first project call signals exhaustion *)
        destruct (Z.to_nat (F + 3)) as [|f] eqn:Ef; [lia|]. cbn [inv_loop]. rewrite C.
        replace (Z.of_nat xn + 1)%Z with (Z.of_nat (Datatypes.S xn)) by lia.
        pose proof (project_next (Datatypes.S xn) (i_lpi st) Hl) as PN. rewrite (skipn_all (Datatypes.S xn)) in PN by lia.
        destruct PN as (lpi' & E & Hl' & Hl2). rewrite E. cbn [fst snd]. split.
        * apply Qltb_lt in C. replace Gn with (Datatypes.S xn + 0)%nat by lia.
          rewrite (search_skip u (Datatypes.S xn) 0); [reflexivity|].
          intros t Ht. assert (csum (Datatypes.S t) <= csum (Datatypes.S xn)) by (apply csum_mono; lia). lra.
        * exists (Datatypes.S xn). cbn [i_cum i_states i_lpi]. repeat split; try assumption; try lia.
          destruct (Z.eq_dec (Z.of_nat (Datatypes.S xn)) M) as [EM|NM]; [left; split; [assumption | lia]|].
          right. split; [assumption|]. split; [lia|]. unfold GG. rewrite sm_G_empty by lia. symmetry. apply skipn_all. lia.
      + assert (A5 : Datatypes.S xn = Datatypes.S xn \/ (Z.of_nat (Datatypes.S xn) = M /\ (Datatypes.S xn <= Datatypes.S xn)%nat)) by (left; reflexivity).
        assert (A6 : (Datatypes.S xn <= Gn)%nat) by lia.
        assert (A8 : (Gn + 1 - xn <= Z.to_nat (F + 3))%nat) by lia.
        destruct (loop_correct u (Z.to_nat (F + 3)) xn (Datatypes.S xn) st NoOut Hn HnM Hc Hs A5 A6 Hl A8) as [R1 R2].
        rewrite R1, C. split; [|exact R2]. f_equal. apply Qltb_lt in C.
        replace Gn with (Datatypes.S xn + (Gn - Datatypes.S xn))%nat at 2 by lia.
        rewrite (search_skip u (Datatypes.S xn) 0); [reflexivity|].
        intros t Ht. assert (csum (Datatypes.S t) <= csum (Datatypes.S xn)) by (apply csum_mono; lia). lra.
    - apply Qltb_false in C.
      destruct (bisect_left_spec (cums n) u (cums_sorted n)) as (R1 & R2 & R3).
      set (r := bisect_left (cums n) u) in *. rewrite cums_length in *.
      assert (Hr : (r < n)%nat).
      { destruct (Nat.eq_dec r n) as [E|E]; [|lia]. specialize (R2 (n - 1)%nat ltac:(lia)).
        rewrite cums_nth in R2 by lia. replace (Datatypes.S (n - 1)) with n in R2 by lia. lra. }
      rewrite Hs, (sts_nth_error n r Hr). cbn [fst snd]. split.
      + unfold adm_spec. rewrite (search_first u Gn 0 r); [reflexivity | lia | |].
        * specialize (R3 r ltac:(lia)). rewrite cums_nth in R3 by lia. exact R3.
        * intros t Ht. specialize (R2 t ltac:(lia)). rewrite cums_nth in R2 by lia. exact R2.
      + exists n. repeat split; try assumption; try lia.
  Qed.

  Lemma init_inv st : inv_init proj inside F prob = Some st -> Inv st.
  Proof.
    unfold inv_init. rewrite my_search_spec by lia. unfold GG. rewrite sm_G_0. fold G.
    case_eq G; [intros EG; discriminate | intros i rest EG]. intro E. inversion E; subst; clear E.
    assert (E0 : sm_G S proj outside F 0 = i :: rest) by (rewrite sm_G_0; exact EG).
    destruct (GG_head 0 i rest E0) as (H1 & _ & H3).
    assert (Hg0 : g 0 = i) by (unfold g; rewrite EG; reflexivity).
    assert (HGn : Gn = Datatypes.S (length rest)) by (unfold Gn; rewrite EG; reflexivity).
    exists 1%nat. cbn [i_cum i_states i_lpi]. split; [lia|]. split; [lia|].
    split; [unfold cums; simpl; unfold P; rewrite Hg0; reflexivity|]. split; [unfold sts; simpl; rewrite Hg0; reflexivity|].
    destruct (Z.eq_dec (Z.of_nat 1) M) as [EM|NM]; [left; split; [assumption | lia]|].
    right. split; [assumption|]. split; [lia|]. rewrite <- H3, EG. reflexivity.
  Qed.

  Theorem inversion_adm_history_free st : reachable proj inside F prob M st -> forall u,
    snd (inv_step proj inside F prob M st u) = adm_spec u.
  Proof.
    intros R u. assert (I : Inv st).
    { induction R as [st E | st u0 R IH]; [apply init_inv; assumption | apply step_correct; assumption]. }
    apply step_correct. assumption.
  Qed.

  (* ---------- the law: right-closed step function over the admissible sub-enumeration ---------- *)
  Definition adm_segs' : list seg := map (fun i => (prob (proj i), i)) G.

  Lemma adm_segs_eq : adm_segs = adm_segs'.
  Proof.
    unfold adm_segs, adm_segs', P, g, Gn. generalize G. intro l.
    assert (H : forall pre, map (fun t => (prob (proj (nth t (pre ++ l) 0%Z)), nth t (pre ++ l) 0%Z)) (seq (length pre) (length l))
                            = map (fun i => (prob (proj i), i)) l).
    { induction l as [|x l IH]; intro pre; [reflexivity|]. cbn [length seq map].
      rewrite app_nth2 by lia. rewrite Nat.sub_diag. cbn [nth]. f_equal.
      specialize (IH (pre ++ [x])). rewrite app_length in IH. cbn [length] in IH. rewrite <- app_assoc in IH. cbn [app] in IH.
      replace (length pre + 1)%nat with (Datatypes.S (length pre)) in IH by lia. exact IH. }
    apply (H []).
  Qed.

  Lemma G_spec i : In i G <-> (0 <= i <= F)%Z /\ inside (proj i) = true.
  Proof.
    unfold G. rewrite sm_good_spec. unfold outside. destruct (inside (proj i)); simpl; intuition congruence.
  Qed.

  Theorem inversion_adm_law :
    (forall u, adm_spec u = match locate_r 0 adm_segs' u with Some i => Out (proj i) | None => Frontier end)
    /\ (forall i, In i G -> len_of i adm_segs' == prob (proj i))
    /\ seg_nonneg adm_segs'
    /\ (forall u i, 0 < u -> In i G -> prob (proj i) == 0 -> locate_r 0 adm_segs' u <> Some i).
  Proof.
    assert (L : forall i, In i G -> len_of i adm_segs' == prob (proj i)).
    { intros i Hi. unfold adm_segs'. destruct (in_split _ _ Hi) as (pre & post & E).
      pose proof (sm_good_NoDup S proj outside F) as ND. fold G in ND. rewrite E in ND. apply NoDup_remove_2 in ND.
      rewrite E, map_app. cbn [map]. apply len_of_unique; rewrite map_map; cbn [snd]; rewrite map_id; intro Hc; apply ND; apply in_or_app; auto. }
    assert (N : seg_nonneg adm_segs').
    { unfold seg_nonneg, adm_segs'. apply Forall_forall. intros s Hs. apply in_map_iff in Hs. destruct Hs as (t & <- & _). apply prob_nonneg. }
    split; [intro u; rewrite <- adm_segs_eq; apply adm_spec_is_locate|]. split; [exact L|]. split; [exact N|].
    intros u i Hu Hi Hz. apply locate_r_never_zero; [assumption | assumption |]. rewrite (L i Hi). assumption.
  Qed.
End InversionAdmissible.

(* ---------- when is the restart harmless? ---------- *)
Lemma G_length_bound {S : Type} (proj : Z -> S) (inside : S -> bool) (F : Z) : (0 <= F)%Z ->
  (Z.of_nat (length (G proj inside F)) <= F + 1)%Z.
Proof.
  intro H. unfold G, sm_good.
  assert (L : forall (f : Z -> bool) l, (length (filter f l) <= length l)%nat).
  { intros f l. induction l as [|x l IH]; simpl; [lia|]. destruct (f x); simpl; lia. }
  pose proof (L (sm_ok S proj (fun s => negb (inside s))) (zrange (F + 1))) as Hl.
  unfold zrange in Hl at 2. rewrite map_length, seq_length in Hl. lia.
Qed.

(* (i) the storage never fills *)
Lemma reset_ok_large_storage {S : Type} (proj : Z -> S) (inside : S -> bool) (F M : Z) :
  (Z.of_nat (length (G proj inside F)) < M)%Z ->
  forall j, Z.of_nat j = M -> (j <= length (G proj inside F))%nat -> GG proj inside F (Z.of_nat j) = skipn j (G proj inside F).
Proof. intros H j E Hj. lia. Qed.

(* (ii) every index of [0, F] is admissible (1-d chains; centred square grids enumerated by Szudzik) *)
Lemma GG_all_inside {S : Type} (proj : Z -> S) (inside : S -> bool) (F : Z) :
  (forall i, (0 <= i <= F)%Z -> inside (proj i) = true) ->
  forall n a, (0 <= a)%Z -> Z.to_nat (F + 1 - a) = n -> GG proj inside F a = map (fun k => (a + Z.of_nat k)%Z) (seq 0 n).
Proof.
  intros H. induction n as [|n IH]; intros a Ha E.
  - unfold GG. rewrite sm_G_empty by lia. reflexivity.
  - unfold GG. rewrite sm_G_unfold by lia. unfold sm_ok. rewrite H by lia. cbn [negb].
    fold (GG proj inside F (a + 1)). rewrite (IH (a + 1)%Z) by lia. cbn [seq map]. f_equal; [lia|].
    rewrite <- seq_shift, map_map. apply map_ext. intros. lia.
Qed.

Lemma reset_ok_all_inside {S : Type} (proj : Z -> S) (inside : S -> bool) (F M : Z) : (0 <= F)%Z ->
  (forall i, (0 <= i <= F)%Z -> inside (proj i) = true) ->
  forall j, Z.of_nat j = M -> (j <= length (G proj inside F))%nat -> GG proj inside F (Z.of_nat j) = skipn j (G proj inside F).
Proof.
  intros HF H j _ Hj.
  assert (EG : G proj inside F = map (fun k => (0 + Z.of_nat k)%Z) (seq 0 (Z.to_nat (F + 1)))).
  { unfold G. rewrite <- sm_G_0. apply (GG_all_inside proj inside F H); lia. }
  rewrite EG in Hj |- *. rewrite map_length, seq_length in Hj.
  rewrite (GG_all_inside proj inside F H (Z.to_nat (F + 1) - j)%nat) by lia.
  assert (Sk : forall n j0, (j0 <= n)%nat -> skipn j0 (seq 0 n) = seq j0 (n - j0)).
  { intros n j0 Hle. replace n with (j0 + (n - j0))%nat at 1 by lia. rewrite seq_app, skipn_app, seq_length, Nat.sub_diag.
    rewrite skipn_all2 by (rewrite seq_length; lia). reflexivity. }
  assert (Sh : forall m j0, seq j0 m = map (fun k => (j0 + k)%nat) (seq 0 m)).
  { induction m as [|m IHm]; intro j0; [reflexivity|]. cbn [seq map]. f_equal; [lia|].
    rewrite (IHm (Datatypes.S j0)), <- seq_shift, map_map. apply map_ext. intros. lia. }
  rewrite skipn_map, Sk by assumption. rewrite (Sh _ j), map_map. apply map_ext. intros. lia.
Qed.

(* ---------- the combined statement ---------- *)
Definition restart_harmless {S : Type} (proj : Z -> S) (inside : S -> bool) (F M : Z) : Prop :=
  forall j, Z.of_nat j = M -> (j <= length (G proj inside F))%nat -> GG proj inside F (Z.of_nat j) = skipn j (G proj inside F).

Theorem inversion_admissible_full {S : Type} (proj : Z -> S) (inside : S -> bool) (F : Z) (prob : S -> Q) (M : Z) :
  (forall s, 0 <= prob s) -> (1 <= M)%Z -> (0 <= F)%Z -> restart_harmless proj inside F M ->
  let segs := adm_segs' proj inside F prob in
  (forall st, reachable proj inside F prob M st -> forall u,
     snd (inv_step proj inside F prob M st u) = match locate_r 0 segs u with Some i => Out (proj i) | None => Frontier end)
  /\ (forall i, In i (G proj inside F) <-> (0 <= i <= F)%Z /\ inside (proj i) = true)
  /\ (forall i, In i (G proj inside F) -> len_of i segs == prob (proj i))
  /\ seg_nonneg segs
  /\ (forall u i, 0 < u -> In i (G proj inside F) -> prob (proj i) == 0 -> locate_r 0 segs u <> Some i).
Proof.
  intros Hp HM HF HR segs.
  destruct (inversion_adm_law proj inside F prob Hp) as (A1 & A2 & A3 & A4).
  split; [|split; [intro i; apply G_spec | split; [exact A2 | split; [exact A3 | exact A4]]]].
  intros st R u. rewrite (inversion_adm_history_free proj inside F prob M Hp HM HR (G_length_bound proj inside F HF) st R u).
  apply A1.
Qed.

Corollary restart_harmless_cases {S : Type} (proj : Z -> S) (inside : S -> bool) (F M : Z) : (0 <= F)%Z ->
  (forall i, (0 <= i <= F)%Z -> inside (proj i) = true) \/ (Z.of_nat (length (G proj inside F)) < M)%Z ->
  restart_harmless proj inside F M.
Proof.
  intros HF [H|H]; unfold restart_harmless; intros j Ej Hj;
    [apply (reset_ok_all_inside proj inside F M HF H j Ej Hj) | apply (reset_ok_large_storage proj inside F M H j Ej Hj)].
Qed.

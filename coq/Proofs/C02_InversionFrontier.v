(* C02 (wave 5) -- the law of InversionMethod.sample_with_u INCLUDING the exhaustion path (Model/InversionFrontier.v):
   when the uniform exceeds the sum sigma of the probabilities of the admissible states (in float arithmetic the sum of
   rate/intensity can end below 1) the code returns project(frontier[c]) for the position c that np.random.choice picks.
   For every c the sampler is the right-closed step function of  adm_segs' ++ [(1 - sigma, frontier[c])]  on (0, 1];
   averaged over a uniform c the deficit 1 - sigma is spread over the frontier indices in proportion to their
   multiplicity in the deque.  With sigma == 1 (exact arithmetic) the choice is never consumed for u <= 1. *)
From Coq Require Import List Arith ZArith QArith Bool Lia Lqa.
From RV Require Import Base.QB Gen.GenPairing Model.Pairing Model.StepLaw Model.Huffman Model.StatesManager Model.Inversion
  Model.Domain Model.InversionFrontier
  Proofs.C02_StepLaw Proofs.C02_Inversion Proofs.C14_Lazy Proofs.C14_StatesManager Proofs.C14_Z1d Proofs.C02_Lattice Proofs.C02_InversionAdm.
Import ListNotations.
Open Scope Q_scope.

(* ---------- generic facts on step functions ---------- *)
Lemma locate_r_none_iff segs u : segs <> [] -> seg_nonneg segs -> (locate_r 0 segs u = None <-> total segs < u).
Proof.
  intros Hne Hn. split.
  - intro H. destruct (Qlt_le_dec (total segs) u) as [L|L]; [exact L|].
    destruct (locate_r_some 0 segs u Hne ltac:(lra)) as [k Hk]. congruence.
  - intro H. apply locate_r_none; [exact Hn | lra].
Qed.

(* the extended step function: one more interval (total segs, 1] labelled j *)
Lemma locate_r_extended segs j u : seg_nonneg segs -> u <= 1 ->
  locate_r 0 (segs ++ [(1 - total segs, j)]) u = Some (match locate_r 0 segs u with Some i => i | None => j end).
Proof.
  intros Hn Hu. rewrite locate_r_app. destruct (locate_r 0 segs u); [reflexivity|].
  cbn [locate_r]. destruct (Qle_bool u (0 + total segs + (1 - total segs))) eqn:A; [reflexivity|].
  apply Qle_bool_false in A. lra.
Qed.

(* number of positions of the deque that hold the index i *)
Fixpoint zcount (i : Z) (l : list Z) : nat :=
  match l with [] => O | x :: r => ((if Z.eqb x i then 1 else 0) + zcount i r)%nat end.

Lemma zcount_in i l : (0 < zcount i l)%nat <-> In i l.
Proof.
  induction l as [|x r IH]; simpl; [split; [lia | tauto]|].
  destruct (Z.eqb x i) eqn:E.
  - apply Z.eqb_eq in E. split; [intros _; left; exact E | intros _; lia].
  - apply Z.eqb_neq in E. simpl. rewrite IH. split; [intro H; right; exact H | intros [H|H]; [congruence | exact H]].
Qed.

(* sum over the positions c of the deque of the length labelled i in the extra interval (d, l_c) *)
Lemma qsum_extra i d (l : list Z) :
  qsum (map (fun x => len_of i [(d, x)]) l) == d * qn (zcount i l).
Proof.
  induction l as [|x r IH]; cbn [map qsum zcount len_of]; [unfold qn; simpl; ring|].
  rewrite IH. unfold qn. rewrite Nat2Z.inj_add, inject_Z_plus.
  destruct (Z.eqb x i); simpl; ring.
Qed.

Lemma map_nth_seq (l : list Z) : map (fun c => nth c l 0%Z) (seq 0 (length l)) = l.
Proof.
  assert (H : forall pre, map (fun c => nth c (pre ++ l) 0%Z) (seq (length pre) (length l)) = l).
  { induction l as [|x l IH]; intro pre; [reflexivity|]. cbn [length seq map].
    rewrite app_nth2 by lia. rewrite Nat.sub_diag. cbn [nth]. f_equal.
    specialize (IH (pre ++ [x])). rewrite app_length in IH. cbn [length] in IH. rewrite <- app_assoc in IH. cbn [app] in IH.
    replace (length pre + 1)%nat with (Datatypes.S (length pre)) in IH by lia. exact IH. }
  apply (H []).
Qed.

Lemma qsum_const (x : Q) (n : nat) : qsum (map (fun _ : nat => x) (seq 0 n)) == qn n * x.
Proof.
  generalize 0%nat. induction n as [|n IH]; intro s; cbn [seq map qsum]; [unfold qn; simpl; ring|].
  rewrite IH. unfold qn. rewrite Nat2Z.inj_succ, <- Z.add_1_r, inject_Z_plus. simpl. ring.
Qed.

Lemma qsum_map_add {A : Type} (f g : A -> Q) (l : list A) :
  qsum (map (fun x => f x + g x) l) == qsum (map f l) + qsum (map g l).
Proof. induction l as [|x r IH]; cbn [map qsum]; [ring | rewrite IH; ring]. Qed.

Lemma qsum_map_ext {A : Type} (f g : A -> Q) (l : list A) : (forall x, f x == g x) -> qsum (map f l) == qsum (map g l).
Proof. intro H. induction l as [|x r IH]; cbn [map qsum]; [reflexivity | rewrite IH, H; reflexivity]. Qed.

Section InversionFrontier.
  Context {S : Type}.
  Variable proj : Z -> S.
  Variable outside : S -> bool.
  Variable F : Z.
  Variable prob : S -> Q.
  Variable M : Z.
  Variable fr : list Z.
  Hypothesis prob_nonneg : forall s, 0 <= prob s.
  Hypothesis storage_pos : (1 <= M)%Z.
  Hypothesis F_nonneg : (0 <= F)%Z.

  Let segs : list seg := adm_segs' proj outside F prob.
  Let sigma : Q := total segs.

  (* for the choice c the sampler is the step function of fsegs c *)
  Definition fsegs (c : nat) : list seg := adm_segs' proj outside F prob ++ [(1 - total (adm_segs' proj outside F prob), nth c fr 0%Z)].

  Lemma reachable_Inv st : reachable proj outside F prob M st -> Inv proj outside F prob M st.
  Proof.
    induction 1 as [st E | st u R IH].
    - apply (C02_InversionAdm.init_inv proj outside F prob M storage_pos st E).
    - apply (C02_InversionAdm.step_correct proj outside F prob M prob_nonneg storage_pos (G_length_bound proj outside F F_nonneg) st u IH).
  Qed.

  Lemma reachable_G_nonempty st : reachable proj outside F prob M st -> G proj outside F <> [].
  Proof.
    intro R. destruct (reachable_Inv st R) as (n & prev & Hn & _). intro E. rewrite E in Hn. simpl in Hn. lia.
  Qed.

  Lemma segs_nonempty : G proj outside F <> [] -> segs <> [].
  Proof. unfold segs, adm_segs'. destruct (G proj outside F); [congruence | discriminate]. Qed.

  Lemma segs_nonneg : seg_nonneg segs.
  Proof. destruct (inversion_admissible_full proj outside F prob M prob_nonneg storage_pos F_nonneg) as (_ & _ & _ & N & _). exact N. Qed.

  (* (1) every reachable state, every uniform, every choice: the state returned *)
  Theorem frontier_step st u c : reachable proj outside F prob M st ->
    snd (inv_step_f proj outside F prob M fr st u c)
    = Some (match locate_r 0 segs u with Some i => proj i | None => frontier_state proj fr c end)
    /\ inv_uses_choice proj outside F prob M st u = (match locate_r 0 segs u with Some _ => false | None => true end).
  Proof.
    intro R. destruct (inversion_admissible_full proj outside F prob M prob_nonneg storage_pos F_nonneg) as (A & _).
    unfold inv_step_f, inv_uses_choice. cbn [snd]. rewrite (A st R u). fold segs.
    destruct (locate_r 0 segs u); split; reflexivity.
  Qed.

  (* (2) the choice is consumed exactly when u exceeds the sum of the probabilities of the admissible states *)
  Theorem frontier_iff st u : reachable proj outside F prob M st ->
    (inv_uses_choice proj outside F prob M st u = true <-> sigma < u).
  Proof.
    intro R. rewrite (proj2 (frontier_step st u O R)).
    pose proof (locate_r_none_iff segs u (segs_nonempty (reachable_G_nonempty st R)) segs_nonneg) as H. fold sigma in H.
    destruct (locate_r 0 segs u) eqn:E.
    - split; [discriminate|]. intro L. apply H in L. discriminate.
    - split; [intros _; apply H; reflexivity | reflexivity].
  Qed.

  (* (3) for each choice: right-closed step function of fsegs c on (0, 1], total 1, non-negative lengths *)
  Theorem frontier_step_function st u c : reachable proj outside F prob M st -> sigma <= 1 -> u <= 1 ->
    exists i, locate_r 0 (fsegs c) u = Some i /\ snd (inv_step_f proj outside F prob M fr st u c) = Some (proj i).
  Proof.
    intros R Hs Hu. unfold fsegs. fold segs. rewrite (locate_r_extended segs (nth c fr 0%Z) u segs_nonneg Hu).
    eexists. split; [reflexivity|]. rewrite (proj1 (frontier_step st u c R)). unfold frontier_state.
    destruct (locate_r 0 segs u); reflexivity.
  Qed.

  Lemma fsegs_total c : total (fsegs c) == 1.
  Proof. unfold fsegs. rewrite total_app. cbn [total]. ring. Qed.

  Lemma fsegs_nonneg c : sigma <= 1 -> seg_nonneg (fsegs c).
  Proof.
    intro Hs. unfold fsegs. apply seg_nonneg_app. split; [exact segs_nonneg|].
    constructor; [|constructor]. cbn [fst]. fold segs. fold sigma. lra.
  Qed.

  (* (4) the law with c uniform on the positions of the deque: the mean over c of the length labelled i is
         (the probability of the admissible state i) + (1 - sigma) * (multiplicity of i in the deque) / len *)
  Theorem frontier_mean_law i :
    qsum (map (fun c => len_of i (fsegs c)) (seq 0 (length fr)))
    == qn (length fr) * len_of i segs + (1 - sigma) * qn (zcount i fr).
  Proof.
    rewrite (qsum_map_ext _ (fun c => len_of i segs + len_of i [(1 - sigma, nth c fr 0%Z)])).
    2:{ intro c. unfold fsegs. rewrite len_of_app. reflexivity. }
    rewrite (qsum_map_add (fun _ => len_of i segs) (fun c => len_of i [(1 - sigma, nth c fr 0%Z)])).
    rewrite qsum_const.
    assert (E : map (fun c => len_of i [(1 - sigma, nth c fr 0%Z)]) (seq 0 (length fr))
                = map (fun x => len_of i [(1 - sigma, x)]) (map (fun c => nth c fr 0%Z) (seq 0 (length fr)))).
    { rewrite map_map. reflexivity. }
    rewrite E, map_nth_seq, qsum_extra. reflexivity.
  Qed.

  Lemma segs_len i : len_of i segs == (if in_dec Z.eq_dec i (G proj outside F) then prob (proj i) else 0).
  Proof.
    destruct (inversion_admissible_full proj outside F prob M prob_nonneg storage_pos F_nonneg) as (_ & _ & L & _).
    destruct (in_dec Z.eq_dec i (G proj outside F)) as [H|H]; [apply L; exact H|].
    apply len_of_notin. unfold segs, adm_segs'. rewrite map_map. cbn [snd]. rewrite map_id. exact H.
  Qed.

  (* (5) if every index of the deque is admissible, the state returned is admissible whatever u and c *)
  Theorem frontier_admissible st u c : reachable proj outside F prob M st ->
    Forall (fun i => In i (G proj outside F)) fr -> (c < length fr)%nat ->
    exists i, In i (G proj outside F) /\ snd (inv_step_f proj outside F prob M fr st u c) = Some (proj i).
  Proof.
    intros R Hf Hc. rewrite (proj1 (frontier_step st u c R)). destruct (locate_r 0 segs u) as [i|] eqn:E.
    - exists i. split; [|reflexivity]. apply locate_r_in in E. unfold segs, adm_segs' in E. rewrite map_map in E. cbn [snd] in E.
      rewrite map_id in E. exact E.
    - exists (nth c fr 0%Z). split; [|reflexivity]. rewrite Forall_forall in Hf. apply Hf. apply nth_In. exact Hc.
  Qed.
End InversionFrontier.

(* ---------- the combined statement ---------- *)
Theorem inversion_frontier_law {S : Type} (proj : Z -> S) (outside : S -> bool) (F : Z) (prob : S -> Q) (M : Z) (fr : list Z) :
  (forall s, 0 <= prob s) -> (1 <= M)%Z -> (0 <= F)%Z ->
  let segs := adm_segs' proj outside F prob in
  let sigma := total segs in
  forall st, reachable proj outside F prob M st ->
    (forall u c, snd (inv_step_f proj outside F prob M fr st u c)
                 = Some (match locate_r 0 segs u with Some i => proj i | None => proj (nth c fr 0%Z) end))
    /\ (forall u, inv_uses_choice proj outside F prob M st u = true <-> sigma < u)
    /\ (sigma <= 1 -> forall c,
          total (fsegs proj outside F prob fr c) == 1 /\ seg_nonneg (fsegs proj outside F prob fr c)
          /\ forall u, u <= 1 -> exists i, locate_r 0 (fsegs proj outside F prob fr c) u = Some i
                                           /\ snd (inv_step_f proj outside F prob M fr st u c) = Some (proj i))
    /\ (forall i, qsum (map (fun c => len_of i (fsegs proj outside F prob fr c)) (seq 0 (length fr)))
                  == qn (length fr) * (if in_dec Z.eq_dec i (G proj outside F) then prob (proj i) else 0)
                     + (1 - sigma) * qn (zcount i fr))
    /\ (Forall (fun i => In i (G proj outside F)) fr -> forall u c, (c < length fr)%nat ->
          exists i, In i (G proj outside F) /\ snd (inv_step_f proj outside F prob M fr st u c) = Some (proj i)).
Proof.
  intros Hp HM HF segs sigma st R.
  split; [intros u c; apply (proj1 (frontier_step proj outside F prob M fr Hp HM HF st u c R))|].
  split; [intro u; apply (frontier_iff proj outside F prob M fr Hp HM HF st u R)|].
  split.
  { intros Hs c. split; [apply fsegs_total|]. split; [apply (fsegs_nonneg proj outside F prob M fr Hp HM HF c Hs)|].
    intros u Hu. apply (frontier_step_function proj outside F prob M fr Hp HM HF st u c R Hs Hu). }
  split.
  { intro i. rewrite (frontier_mean_law proj outside F prob fr i).
    rewrite (segs_len proj outside F prob M Hp HM HF i). reflexivity. }
  intros Hf u c Hc. apply (frontier_admissible proj outside F prob M fr Hp HM HF st u c R Hf Hc).
Qed.

(* ---------- the 1-d factory instance: PairingToZ1d((-L, R), omit_zero=True), Boundary() ---------- *)
Open Scope Z_scope.
Lemma fr1d_eq L R : fr1d L R = [z1d_pair (- L) R 1 R; z1d_pair (- L) R 1 (- L)].
Proof. unfold fr1d, dom_1d. cbn [snd]. replace (L + R + 1 + - L - 1) with R by lia. reflexivity. Qed.

Lemma maxf1d_eq L R : maxf1d L R = Z.max (z1d_pair (- L) R 1 R) (z1d_pair (- L) R 1 (- L)).
Proof.
  unfold maxf1d, dom_1d, dom_maxf. cbn [snd fst fold_left].
  replace (L + R + 1 + - L - 1) with R by lia. lia.
Qed.

(* the two frontier indices are admissible indices of the enumeration, their states are the two ends of the axis:
   in the grid, never the origin *)
Theorem frontier_1d L R : 0 < L -> 0 < R ->
  let proj := z1d_project (- L) R 1 in
  Forall (fun i => In i (G proj (outside1d L R) (maxf1d L R))) (fr1d L R)
  /\ map proj (fr1d L R) = [R; - L]
  /\ 0 <= maxf1d L R
  /\ (forall c, (c < length (fr1d L R))%nat -> let s := frontier_state proj (fr1d L R) c in - L <= s <= R /\ s <> 0).
Proof.
  intros HL HR proj.
  destruct (z1d_pair_spec L R HL HR R ltac:(lia) ltac:(lia)) as [B1 P1].
  destruct (z1d_pair_spec L R HL HR (- L) ltac:(lia) ltac:(lia)) as [B2 P2].
  cbv zeta in *. rewrite fr1d_eq. rewrite maxf1d_eq.
  assert (O1 : outside1d L R R = false) by (unfold outside1d; apply negb_false_iff, andb_true_iff; split; apply Z.leb_le; lia).
  assert (O2 : outside1d L R (- L) = false) by (unfold outside1d; apply negb_false_iff, andb_true_iff; split; apply Z.leb_le; lia).
  split.
  { assert (A1 : In (z1d_pair (- L) R 1 R) (G proj (outside1d L R) (Z.max (z1d_pair (- L) R 1 R) (z1d_pair (- L) R 1 (- L))))).
    { apply G_spec. split; [lia|]. unfold proj. rewrite P1. exact O1. }
    assert (A2 : In (z1d_pair (- L) R 1 (- L)) (G proj (outside1d L R) (Z.max (z1d_pair (- L) R 1 R) (z1d_pair (- L) R 1 (- L))))).
    { apply G_spec. split; [lia|]. unfold proj. rewrite P2. exact O2. }
    constructor; [exact A1|]. constructor; [exact A2|]. constructor. }
  split; [cbn [map]; unfold proj; rewrite P1, P2; reflexivity|].
  split; [lia|].
  intros c Hc. cbn [length] in Hc. unfold frontier_state.
  destruct c as [|[|c]]; [| |lia]; cbn [nth]; unfold proj; [rewrite P1 | rewrite P2]; lia.
Qed.

(* ---------- F-C02-13: the frontier draw returns a zero-probability state ---------- *)
(* a 7-point axis (L = R = 3), enumeration 1,-1,2,-2,3,-3; the probabilities sum to 1 - 2^-52 (what a float sum of
   rate/intensity does when the intensity is not a power of two) and the left end state -3 has probability zero;
   the uniform 1 - 2^-53 exceeds the sum, np.random.choice picks position 1 of deque([pair(3), pair(-3)]) *)
Definition fz_prob (s : Z) : Q :=
  match s with
  | 1 => (1 # 32)%Q | -1 => (1 # 8)%Q | 2 => ((19 # 32) - (1 # 4503599627370496))%Q | -2 => (1 # 8)%Q | 3 => (1 # 8)%Q | _ => 0%Q
  end.
Definition fz_u : Q := (1 - (1 # 9007199254740992))%Q.

Lemma inversion_frontier_zero_prob_refuted :
  let proj := z1d_project (-3) 3 1 in
  exists st, inv_init proj (outside1d 3 3) (maxf1d 3 3) fz_prob = Some st
    /\ (total (adm_segs' proj (outside1d 3 3) (maxf1d 3 3) fz_prob) == 1 - (1 # 4503599627370496))%Q
    /\ (0 < fz_u)%Q /\ (fz_u < 1)%Q
    /\ snd (inv_step_f proj (outside1d 3 3) (maxf1d 3 3) fz_prob 1000000 (fr1d 3 3) st fz_u 1) = Some (-3)
    /\ (fz_prob (-3) == 0)%Q.
Proof.
  eexists. split; [vm_compute; reflexivity|].
  split; [vm_compute; reflexivity|]. split; [reflexivity|]. split; [reflexivity|].
  split; [vm_compute; reflexivity | reflexivity].
Qed.

(* non-vacuity of inversion_frontier_law / frontier_1d on the same instance: a history of four draws that consumes the
   choice twice, the deficit, the multiplicities *)
Lemma inversion_frontier_nonvacuous :
  let proj := z1d_project (-3) 3 1 in
  fr1d 3 3 = [4; 5] /\ maxf1d 3 3 = 5 /\ map proj (fr1d 3 3) = [3; -3]
  /\ G proj (outside1d 3 3) (maxf1d 3 3) = [0; 1; 2; 3; 4; 5]
  /\ (exists st, inv_init proj (outside1d 3 3) (maxf1d 3 3) fz_prob = Some st
       /\ fst (inv_run_f proj (outside1d 3 3) (maxf1d 3 3) fz_prob 2 (fr1d 3 3) st
                 [((1 # 2)%Q, 0%nat); (fz_u, 0%nat); ((1 # 32)%Q, 1%nat); (fz_u, 1%nat)])
          = [Some 2; Some 3; Some 1; Some (-3)]
       /\ map (inv_uses_choice proj (outside1d 3 3) (maxf1d 3 3) fz_prob 2 st) [(1 # 2)%Q; fz_u] = [false; true])
  /\ zcount 5 (fr1d 3 3) = 1%nat /\ zcount 3 (fr1d 3 3) = 0%nat.
Proof.
  cbv zeta. split; [vm_compute; reflexivity|]. split; [vm_compute; reflexivity|]. split; [vm_compute; reflexivity|].
  split; [vm_compute; reflexivity|].
  split; [eexists; split; [vm_compute; reflexivity|]; split; vm_compute; reflexivity|].
  split; vm_compute; reflexivity.
Qed.

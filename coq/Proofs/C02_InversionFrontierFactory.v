(* C02 (wave 8, audit 5a B11) -- the n-d frontier law for the enumeration the factory REALLY uses.
   C02_InversionFrontierNd.v proves the law for (nested) Szudzik in every d >= 2; create_sampling_inversion_method takes Szudzik
   only when model.dimension() == 2 and Rosenberg-Strong otherwise.  Here the argument is done ONCE for any n-d pairing with the
   four facts C14 proves of both (project o pair = id, pair o project = id, pair >= 0, pair(0..0) = 0), instantiated for
   Rosenberg-Strong (every d >= 2) and composed into the factory's choice by dimension (fac_pair / fac_project): the d = 3
   INVERSION deque is covered by theorem.  The C14 half is frontier_draw_admissible (the lemma behind C14_frontier_draw_rs_nd). *)
From Coq Require Import List ZArith QArith Bool Lia.
From RV Require Import Base.QB Gen.GenPairing Model.Pairing Model.StatesManager Model.StepLaw Model.Inversion Model.Domain
  Model.InversionFrontier Model.FrontierDraw Model.InversionFrontierNd Model.InversionFrontierFactory
  Proofs.C14_Lazy Proofs.C14_RSnd Proofs.C14_Zdn Proofs.C14_Domain Proofs.C14_FrontierDraw
  Proofs.C02_StepLaw Proofs.C02_InversionAdm Proofs.C02_InversionFrontier Proofs.C02_InversionFrontierNd.
Import ListNotations.
Open Scope Z_scope.

Section FrontierAnyPairing.
  Variable npair : list Z -> Z.
  Variable nproj : nat -> Z -> list Z.
  Variables (all_sizes : list Z) (last_size o : Z).
  Hypothesis Hne : all_sizes <> [].
  Hypothesis Hpos : Forall (fun m => 0 < m) all_sizes.
  Hypothesis Ho : 0 < o < last_size - 1.
  Notation sizes := (all_sizes ++ [last_size]).
  Notation d := (length (all_sizes ++ [last_size])).
  Hypothesis Hpp : forall xs, length xs = d -> nonneg_list xs -> nproj d (npair xs) = xs.
  Hypothesis Hpj : forall z, 0 <= z -> let xs := nproj d z in length xs = d /\ nonneg_list xs /\ npair xs = z.
  Hypothesis Hnn : forall xs, length xs = d -> nonneg_list xs -> 0 <= npair xs.
  Hypothesis Hzero : npair (repeat 0 d) = 0.
  Notation pair := (zdn_pair npair 1).
  Notation proj := (zdn_project nproj d 1).
  Notation outside := (outsidend sizes o).
  Notation fr := (snd (dom_nd nobound pair sizes o)).
  Notation F := (dom_maxf (dom_nd nobound pair sizes o)).

  Lemma gfr_position c : (c < length fr)%nat ->
    let s := proj (nth c fr (-1)) in
    draw_admissible sizes o nobound s /\ draw_on_frontier all_sizes last_size o nobound s.
  Proof.
    intros Hc. destruct (factory_lines all_sizes last_size o Ho) as [Hline [Hl Hr]].
    destruct (frontier_draw_admissible npair nproj all_sizes last_size o nobound Hne Hpos Hpp Hnn Hzero
                ltac:(lia) Hline Hl Hr c Hc) as [A [B [C D]]].
    split; [repeat split; assumption | exact D].
  Qed.

  Lemma gfr_nonempty : fr <> [].
  Proof.
    pose proof (dom_nd_frontier_length nobound pair all_sizes last_size o Hne Hpos) as H.
    pose proof (prodl_pos all_sizes Hpos). intros E. rewrite E in H. cbn in H. lia.
  Qed.

  Lemma gfr_index f : In f fr -> 0 <= f <= F /\ outside (proj f) = false.
  Proof.
    intros Hin. destruct (In_nth _ _ (-1) Hin) as [c [Hc Ec]].
    destruct (gfr_position c Hc) as [[Hl [Hnz Hout]] _]. cbn zeta in *. rewrite Ec in *.
    split; [|exact Hout]. split; [|apply dom_maxf_frontier; exact Hin].
    pose proof (dom_nd_frontier_entries nobound pair all_sizes last_size o Hne Hpos f Hin) as He.
    assert (Hs : exists s', length s' = d /\ f = pair s').
    { destruct He as [ks j HQ Hj -> _ _ | ks j HQ Hj -> _ _ | ks HQ _ ->].
      - exists (line_state o ks j). split; [apply line_state_length; exact HQ | reflexivity].
      - exists (line_state o ks j). split; [apply line_state_length; exact HQ | reflexivity].
      - exists (line_state o ks o). split; [apply line_state_length; exact HQ|].
        apply (nth_map_zrange (fun j => pair (line_state o ks j))). lia. }
    destruct Hs as [s' [Hl' ->]].
    assert (E : proj (pair s') = s') by (apply (project_pair_all npair nproj all_sizes last_size Hpp Hnn Hzero s' Hl')).
    rewrite E in Hnz. destruct (zdn_project_pair npair nproj d Hpp Hnn Hzero s' Hl' Hnz) as [H0 _]. exact H0.
  Qed.

  Lemma gF_nonneg : 0 <= F.
  Proof.
    pose proof gfr_nonempty as Hn. destruct fr as [|f r] eqn:E; [congruence|].
    assert (Hin : In f fr) by (rewrite E; left; reflexivity). pose proof (gfr_index f Hin). lia.
  Qed.

  Lemma gG_state i : In i (G proj outside F) -> length (proj i) = d /\ proj i <> repeat 0 d /\ outside (proj i) = false.
  Proof.
    intros Hi. apply G_spec in Hi. destruct Hi as [[H0 _] Hout].
    destruct (zdn_pair_project npair nproj d Hpj Hzero i H0) as [A [B _]]. repeat split; assumption.
  Qed.

  Theorem frontier_any_pairing :
    Forall (fun i => In i (G proj outside F)) fr
    /\ fr <> []
    /\ 0 <= F
    /\ (forall c, (c < length fr)%nat -> let s := frontier_state proj fr c in
          length s = d /\ s <> repeat 0 d /\ outside s = false /\ draw_on_frontier all_sizes last_size o nobound s).
  Proof.
    split; [apply Forall_forall; intros f Hf; apply G_spec; apply gfr_index; exact Hf|].
    split; [exact gfr_nonempty|]. split; [exact gF_nonneg|].
    intros c Hc. cbn zeta. unfold frontier_state. rewrite (nth_indep fr 0 (-1) Hc).
    destruct (gfr_position c Hc) as [[A [B C]] D]. repeat split; assumption.
  Qed.

  Theorem inversion_frontier_any_pairing_law (prob : list Z -> Q) (M : Z) :
    (forall s, (0 <= prob s)%Q) -> 1 <= M ->
    let segs := adm_segs' proj outside F prob in
    forall st, reachable proj outside F prob M st -> forall u c, (c < length fr)%nat ->
      exists s, snd (inv_step_f proj outside F prob M fr st u c) = Some s
        /\ length s = d /\ s <> repeat 0 d /\ outside s = false
        /\ ((u <= total segs)%Q -> exists i, locate_r 0 segs u = Some i /\ In i (G proj outside F) /\ s = proj i
                                             /\ len_of i segs == prob s)
        /\ ((total segs < u)%Q -> s = frontier_state proj fr c /\ draw_on_frontier all_sizes last_size o nobound s).
  Proof.
    intros Hp HM segs st Hst u c Hc.
    destruct frontier_any_pairing as [Hall [_ [HF Hfr]]].
    destruct (inversion_frontier_law proj outside F prob M fr Hp HM HF st Hst) as [H1 [_ [_ [_ H5]]]].
    destruct (H5 Hall u c Hc) as [i [Hi Eo]]. destruct (gG_state i Hi) as [A [B C]].
    exists (proj i). split; [exact Eo|]. split; [exact A|]. split; [exact B|]. split; [exact C|].
    pose proof (H1 u c) as E1. rewrite Eo in E1. injection E1 as E1.
    assert (Hne' : segs <> []) by (apply segs_nonempty; apply (reachable_G_nonempty proj outside F prob M Hp HM HF st Hst)).
    assert (Hnn' : seg_nonneg segs) by (exact (segs_nonneg proj outside F prob M Hp HM HF)).
    pose proof (locate_r_none_iff segs u Hne' Hnn') as Hnone.
    split.
    - intros Hu. fold segs in E1. destruct (locate_r 0 segs u) as [j|] eqn:El.
      + exists j. assert (Hj : In j (G proj outside F)).
        { apply locate_r_in in El. unfold segs, adm_segs' in El. rewrite map_map in El. cbn [snd] in El. rewrite map_id in El. exact El. }
        split; [reflexivity|]. split; [exact Hj|]. split; [exact E1|].
        destruct (@inversion_admissible_full (list Z) proj outside F prob M Hp HM HF) as [_ [_ [Hlen _]]].
        rewrite E1. apply Hlen. exact Hj.
      + exfalso. destruct Hnone as [Hn _]. specialize (Hn eq_refl). apply (Qlt_not_le _ _ Hn Hu).
    - intros Hu. fold segs in E1. destruct Hnone as [_ Hn]. rewrite (Hn Hu) in E1.
      assert (Es : proj i = frontier_state proj fr c) by exact E1.
      split; [exact Es|]. rewrite Es. destruct (Hfr c Hc) as [_ [_ [_ D]]]. exact D.
  Qed.
End FrontierAnyPairing.

(* ---------------- Rosenberg-Strong, every d >= 2 (the factory's enumeration for d >= 3) ---------------- *)
Section FrontierRs.
  Variables (all_sizes : list Z) (last_size o : Z).
  Hypothesis Hne : all_sizes <> [].
  Hypothesis Hpos : Forall (fun m => 0 < m) all_sizes.
  Hypothesis Ho : 0 < o < last_size - 1.
  Notation sizes := (all_sizes ++ [last_size]).
  Notation d := (length (all_sizes ++ [last_size])).

  Lemma rs_d_ge_1 : (1 <= d)%nat.
  Proof. rewrite app_length. cbn. lia. Qed.

  Theorem frontier_rs :
    Forall (fun i => In i (G (rsnd_project d) (outsidend sizes o) (maxfrs sizes o))) (frrs sizes o)
    /\ frrs sizes o <> []
    /\ 0 <= maxfrs sizes o
    /\ (forall c, (c < length (frrs sizes o))%nat -> let s := frontier_state (rsnd_project d) (frrs sizes o) c in
          length s = d /\ s <> repeat 0 d /\ outsidend sizes o s = false /\ draw_on_frontier all_sizes last_size o nobound s).
  Proof.
    apply (frontier_any_pairing rs_pairing rs_projection all_sizes last_size o Hne Hpos Ho).
    - apply rs_Hpp. exact rs_d_ge_1.
    - intros xs _ Hx. apply rs_pairing_nonneg. exact Hx.
    - apply rs_pairing_zeros. exact rs_d_ge_1.
  Qed.

  Theorem inversion_frontier_rs_law (prob : list Z -> Q) (M : Z) :
    (forall s, (0 <= prob s)%Q) -> 1 <= M ->
    let proj := rsnd_project d in let outside := outsidend sizes o in let F := maxfrs sizes o in let fr := frrs sizes o in
    let segs := adm_segs' proj outside F prob in
    forall st, reachable proj outside F prob M st -> forall u c, (c < length fr)%nat ->
      exists s, snd (inv_step_f proj outside F prob M fr st u c) = Some s
        /\ length s = d /\ s <> repeat 0 d /\ outside s = false
        /\ ((u <= total segs)%Q -> exists i, locate_r 0 segs u = Some i /\ In i (G proj outside F) /\ s = proj i
                                             /\ len_of i segs == prob s)
        /\ ((total segs < u)%Q -> s = frontier_state proj fr c /\ draw_on_frontier all_sizes last_size o nobound s).
  Proof.
    intros Hp HM. cbn zeta.
    apply (inversion_frontier_any_pairing_law rs_pairing rs_projection all_sizes last_size o Hne Hpos Ho); try assumption.
    - apply rs_Hpp. exact rs_d_ge_1.
    - intros z Hz. apply rs_pair_proj_nd; [exact rs_d_ge_1 | exact Hz].
    - intros xs _ Hx. apply rs_pairing_nonneg. exact Hx.
    - apply rs_pairing_zeros. exact rs_d_ge_1.
  Qed.

  (* ---------------- the factory's own choice: Szudzik iff d = 2, Rosenberg-Strong otherwise ---------------- *)
  Theorem frontier_factory :
    Forall (fun i => In i (G (fac_project d) (outsidend sizes o) (maxffac sizes o))) (frfac sizes o)
    /\ frfac sizes o <> []
    /\ 0 <= maxffac sizes o
    /\ (forall c, (c < length (frfac sizes o))%nat -> let s := frontier_state (fac_project d) (frfac sizes o) c in
          length s = d /\ s <> repeat 0 d /\ outsidend sizes o s = false /\ draw_on_frontier all_sizes last_size o nobound s).
  Proof.
    unfold frfac, maxffac, fac_project, fac_pair. destruct (Nat.eqb d 2).
    - exact (frontier_nd all_sizes last_size o Hne Hpos Ho).
    - exact frontier_rs.
  Qed.

  Theorem inversion_frontier_factory_law (prob : list Z -> Q) (M : Z) :
    (forall s, (0 <= prob s)%Q) -> 1 <= M ->
    let proj := fac_project d in let outside := outsidend sizes o in let F := maxffac sizes o in let fr := frfac sizes o in
    let segs := adm_segs' proj outside F prob in
    forall st, reachable proj outside F prob M st -> forall u c, (c < length fr)%nat ->
      exists s, snd (inv_step_f proj outside F prob M fr st u c) = Some s
        /\ length s = d /\ s <> repeat 0 d /\ outside s = false
        /\ ((u <= total segs)%Q -> exists i, locate_r 0 segs u = Some i /\ In i (G proj outside F) /\ s = proj i
                                             /\ len_of i segs == prob s)
        /\ ((total segs < u)%Q -> s = frontier_state proj fr c /\ draw_on_frontier all_sizes last_size o nobound s).
  Proof.
    intros Hp HM. unfold frfac, maxffac, fac_project, fac_pair. destruct (Nat.eqb d 2).
    - exact (inversion_frontier_nd_law all_sizes last_size o Hne Hpos Ho prob M Hp HM).
    - exact (inversion_frontier_rs_law prob M Hp HM).
  Qed.
End FrontierRs.

(* the two enumerations differ from index 1 on in d = 3 (audit 5a): the Szudzik theorem said nothing of the factory's 3-d deque *)
Lemma szudzik_is_not_the_factory_3d :
  map (sznd_project 3) [0; 1; 2; 3] <> map (fac_project 3) [0; 1; 2; 3] /\ fac_project 3 = rsnd_project 3 /\ fac_project 2 = sznd_project 2.
Proof. split; [vm_compute; discriminate | split; reflexivity]. Qed.

(* non-vacuity on the factory's real 3-d deque of a 3 x 3 x 4 grid (o = 1; 9 lines along the last axis, 2 end points each) and a
   5 x 5 x 5 one (o = 2): deque, maximum, projected end points, number of admissible indices, an exhausted draw *)
Definition fac_ex_prob (s : list Z) : Q := if zl_eqb s [1; 0; 0] then 1 # 2 else if zl_eqb s [-1; 1; 2] then 1 # 4 else 0.
Lemma inversion_frontier_factory_nonvacuous :
  length (frfac [3; 3; 4] 1) = 18%nat
  /\ map (fac_project 3) (frfac [3; 3; 4] 1)
     = [[1; 1; 2]; [1; 1; -1]; [0; 1; 2]; [0; 1; -1]; [-1; 1; 2]; [-1; 1; -1]; [1; 0; 2]; [1; 0; -1]; [0; 0; 2]; [0; 0; -1];
        [-1; 0; 2]; [-1; 0; -1]; [1; -1; 2]; [1; -1; -1]; [0; -1; 2]; [0; -1; -1]; [-1; -1; 2]; [-1; -1; -1]]
  /\ length (G (fac_project 3) (outsidend [3; 3; 4] 1) (maxffac [3; 3; 4] 1)) = 35%nat
  /\ length (frfac [5; 5; 5] 2) = 50%nat
  /\ (exists st, inv_init (fac_project 3) (outsidend [3; 3; 4] 1) (maxffac [3; 3; 4] 1) fac_ex_prob = Some st
       /\ fst (inv_run_f (fac_project 3) (outsidend [3; 3; 4] 1) (maxffac [3; 3; 4] 1) fac_ex_prob 3 (frfac [3; 3; 4] 1) st
                 [((1 # 4)%Q, 0%nat); ((7 # 8)%Q, 3%nat); ((3 # 4)%Q, 5%nat); ((4 # 5)%Q, 17%nat)])
          = [Some [1; 0; 0]; Some [0; 1; -1]; Some [-1; 1; 2]; Some [-1; -1; -1]]).
Proof.
  split; [vm_compute; reflexivity|]. split; [vm_compute; reflexivity|]. split; [vm_compute; reflexivity|].
  split; [vm_compute; reflexivity|]. eexists; split; [vm_compute; reflexivity|]; vm_compute; reflexivity.
Qed.

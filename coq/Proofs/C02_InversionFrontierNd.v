(* C02 (wave 6) -- the frontier deque of the n-d factory grid (C14: dom_nd, frontier_draw_factory) tied to
   C02_inversion_frontier_law: every index of the deque is an ADMISSIBLE index of the enumeration (hypothesis of part (5) of
   the law), so on the n-d INVERSION sampler of the factory every draw -- also on the exhaustion path -- returns a state of
   the grid that is not the origin; when the uniform exceeds the sum the state is project(deque[c]), the first or last
   point of a line of the box along the last axis. *)
From Coq Require Import List ZArith QArith Bool Lia.
From RV Require Import Base.QB Gen.GenPairing Model.Pairing Model.StatesManager Model.StepLaw Model.Inversion Model.Domain
  Model.InversionFrontier Model.FrontierDraw Model.InversionFrontierNd
  Proofs.C14_Lazy Proofs.C14_Zdn Proofs.C14_Domain Proofs.C14_FrontierDraw
  Proofs.C02_StepLaw Proofs.C02_InversionAdm Proofs.C02_InversionFrontier.
Import ListNotations.
Open Scope Z_scope.

Lemma fold_max_ge l : forall a, a <= fold_left Z.max l a /\ forall x, In x l -> x <= fold_left Z.max l a.
Proof.
  induction l as [|y l IH]; intro a; cbn [fold_left]; [split; [lia | intros x []]|].
  destruct (IH (Z.max a y)) as [H1 H2]. split; [lia|]. intros x [<-|Hx]; [lia | apply H2; exact Hx].
Qed.

Lemma dom_maxf_frontier r f : In f (snd r) -> f <= dom_maxf r.
Proof.
  unfold dom_maxf. destruct (snd r) as [|f0 fr]; [intros []|]. intros Hin.
  destruct (fold_max_ge fr f0) as [H1 H2]. destruct Hin as [<-|Hin]; [lia | specialize (H2 f Hin); lia].
Qed.

Section FrontierNd.
  Variables (all_sizes : list Z) (last_size o : Z).
  Hypothesis Hne : all_sizes <> [].
  Hypothesis Hpos : Forall (fun m => 0 < m) all_sizes.
  Hypothesis Ho : 0 < o < last_size - 1.
  Notation sizes := (all_sizes ++ [last_size]).
  Notation d := (length (all_sizes ++ [last_size])).
  Notation proj := (sznd_project d).
  Notation outside := (outsidend sizes o).
  Notation F := (maxfnd sizes o).
  Notation fr := (frnd sizes o).

  Lemma d_ge_2 : (2 <= d)%nat.
  Proof. rewrite app_length. destruct all_sizes; [congruence | cbn; lia]. Qed.

  (* what C14 proves of position c of the deque, in the vocabulary of Model/InversionFrontierNd.v *)
  Lemma fr_position c : (c < length fr)%nat ->
    let s := proj (nth c fr (-1)) in
    draw_admissible sizes o nobound s /\ draw_on_frontier all_sizes last_size o nobound s.
  Proof.
    intros Hc. destruct (frontier_draw_factory all_sizes last_size o Hne Hpos Ho) as [[_ H] _]. exact (H c Hc).
  Qed.

  Lemma fr_nonempty : fr <> [].
  Proof. destruct (frontier_draw_factory all_sizes last_size o Hne Hpos Ho) as [[H _] _]. exact H. Qed.

  (* every index of the deque is the index of an in-grid non-origin state: 0 <= f <= max_frontier_indices, admissible *)
  Lemma fr_index f : In f fr -> 0 <= f <= F /\ outside (proj f) = false.
  Proof.
    intros Hin. destruct (In_nth _ _ (-1) Hin) as [c [Hc Ec]].
    destruct (fr_position c Hc) as [[Hl [Hnz Hout]] _]. cbn zeta in *. rewrite Ec in *.
    split; [|exact Hout]. split; [|apply dom_maxf_frontier; exact Hin].
    (* f = pair s' for a state s' of length d; s' = project f is not the origin, hence pair s' >= 0 *)
    pose proof (dom_nd_frontier_entries nobound sznd_pair all_sizes last_size o Hne Hpos f Hin) as He.
    assert (Hs : exists s', length s' = d /\ f = sznd_pair s').
    { destruct He as [ks j HQ Hj -> _ _ | ks j HQ Hj -> _ _ | ks HQ _ ->].
      - exists (line_state o ks j). split; [apply line_state_length; exact HQ | reflexivity].
      - exists (line_state o ks j). split; [apply line_state_length; exact HQ | reflexivity].
      - exists (line_state o ks o). split; [apply line_state_length; exact HQ|].
        apply (nth_map_zrange (fun j => sznd_pair (line_state o ks j))). lia. }
    destruct Hs as [s' [Hl' ->]].
    assert (E : proj (sznd_pair s') = s').
    { apply (project_pair_all sz_npair sz_nproj all_sizes last_size (sz_Hpp _ d_ge_2) (sz_Hnn _ d_ge_2) (sz_Hzero _ d_ge_2) s' Hl'). }
    rewrite E in Hnz. destruct (sz_zdn_project_pair d s' d_ge_2 Hl' Hnz) as [H0 _]. exact H0.
  Qed.

  Lemma F_nonneg : 0 <= F.
  Proof.
    pose proof fr_nonempty as Hn. destruct fr as [|f r] eqn:E; [congruence|].
    assert (Hin : In f fr) by (rewrite E; left; reflexivity). pose proof (fr_index f Hin). lia.
  Qed.

  (* an admissible index projects to a state of the grid that is not the origin *)
  Lemma G_state i : In i (G proj outside F) -> length (proj i) = d /\ proj i <> repeat 0 d /\ outside (proj i) = false.
  Proof.
    intros Hi. apply G_spec in Hi. destruct Hi as [[H0 _] Hout].
    destruct (sz_zdn_pair_project d i d_ge_2 H0) as [A [B _]]. repeat split; assumption.
  Qed.

  Theorem frontier_nd :
    Forall (fun i => In i (G proj outside F)) fr
    /\ fr <> []
    /\ 0 <= F
    /\ (forall c, (c < length fr)%nat -> let s := frontier_state proj fr c in
          length s = d /\ s <> repeat 0 d /\ outside s = false /\ draw_on_frontier all_sizes last_size o nobound s).
  Proof.
    split; [apply Forall_forall; intros f Hf; apply G_spec; apply fr_index; exact Hf|].
    split; [exact fr_nonempty|]. split; [exact F_nonneg|].
    intros c Hc. cbn zeta. unfold frontier_state. rewrite (nth_indep fr 0 (-1) Hc).
    destruct (fr_position c Hc) as [[A [B C]] D]. repeat split; assumption.
  Qed.

  (* composition with the frontier law: the n-d INVERSION sampler of the factory, any probability table, any storage,
     any history, any uniform and any position of np.random.choice *)
  Theorem inversion_frontier_nd_law (prob : list Z -> Q) (M : Z) :
    (forall s, (0 <= prob s)%Q) -> 1 <= M ->
    let segs := adm_segs' proj outside F prob in
    forall st, reachable proj outside F prob M st -> forall u c, (c < length fr)%nat ->
      exists s, snd (inv_step_f proj outside F prob M fr st u c) = Some s
        /\ length s = d /\ s <> repeat 0 d /\ outside s = false
        /\ ((u <= total segs)%Q -> exists i, locate_r 0 segs u = Some i /\ In i (G proj outside F) /\ s = proj i
                                             /\ len_of i segs == prob s)
        /\ ((total segs < u)%Q -> s = frontier_state proj fr c /\ draw_on_frontier all_sizes last_size o nobound s).
  Proof.
    intros Hp HM segs st Hst u c Hc.
    destruct frontier_nd as [Hall [_ [HF Hfr]]].
    destruct (inversion_frontier_law proj outside F prob M fr Hp HM HF st Hst) as [H1 [_ [_ [_ H5]]]].
    destruct (H5 Hall u c Hc) as [i [Hi Eo]]. destruct (G_state i Hi) as [A [B C]].
    exists (proj i). split; [exact Eo|]. split; [exact A|]. split; [exact B|]. split; [exact C|].
    pose proof (H1 u c) as E1. rewrite Eo in E1. injection E1 as E1.
    assert (Hne' : segs <> []) by (apply segs_nonempty; apply (reachable_G_nonempty proj outside F prob M Hp HM HF st Hst)).
    assert (Hnn : seg_nonneg segs) by (exact (segs_nonneg proj outside F prob M Hp HM HF)).
    pose proof (locate_r_none_iff segs u Hne' Hnn) as Hnone.
    split.
    - intros Hu. fold segs in E1. destruct (locate_r 0 segs u) as [j|] eqn:El.
      + exists j. assert (Hj : In j (G proj outside F)).
        { apply locate_r_in in El. unfold segs, adm_segs' in El. rewrite map_map in El. cbn [snd] in El. rewrite map_id in El. exact El. }
        split; [reflexivity|]. split; [exact Hj|]. split; [exact E1|].
        destruct (@inversion_admissible_full (list Z) proj outside F prob M Hp HM HF) as [_ [_ [Hlen _]]].
        rewrite E1. apply Hlen. exact Hj.
      + exfalso. destruct Hnone as [Hn _]. specialize (Hn eq_refl). apply (Qlt_not_le _ _ Hn Hu).
    - intros Hu. fold segs in E1. destruct Hnone as [_ Hn]. rewrite (Hn Hu) in E1.
      assert (Es : proj i = frontier_state proj fr c) by exact E1.
      split; [exact Es|]. rewrite Es. destruct (Hfr c Hc) as [_ [_ [_ D]]]. exact D.
  Qed.
End FrontierNd.

(* non-vacuity on the real 2-d deque of a 5 x 5 grid (o = 2) and of a 3 x 3 x 4 grid: the model computes the deque, its maximum,
   the frontier states (first and last point of every line along the last axis) and an exhausted draw *)
Definition nd_ex_prob (s : list Z) : Q := if zl_eqb s [1; 0] then 1 # 2 else if zl_eqb s [-2; 2] then 1 # 4 else 0.
Lemma inversion_frontier_nd_nonvacuous :
  frnd [5; 5] 2 = [14; 18; 9; 16; 8; 15; 10; 17; 22; 23]
  /\ maxfnd [5; 5] 2 = 23
  /\ map (sznd_project 2) (frnd [5; 5] 2) = [[2; 2]; [2; -2]; [1; 2]; [1; -2]; [0; 2]; [0; -2]; [-1; 2]; [-1; -2]; [-2; 2]; [-2; -2]]
  /\ length (G (sznd_project 2) (outsidend [5; 5] 2) (maxfnd [5; 5] 2)) = 24%nat
  /\ length (frnd [4; 4; 4] 1) = 32%nat
  /\ (exists st, inv_init (sznd_project 2) (outsidend [5; 5] 2) (maxfnd [5; 5] 2) nd_ex_prob = Some st
       /\ fst (inv_run_f (sznd_project 2) (outsidend [5; 5] 2) (maxfnd [5; 5] 2) nd_ex_prob 3 (frnd [5; 5] 2) st
                 [((1 # 4)%Q, 0%nat); ((7 # 8)%Q, 3%nat); ((3 # 4)%Q, 5%nat); ((5 # 8)%Q, 9%nat); ((4 # 5)%Q, 9%nat)])
          = [Some [1; 0]; Some [1; -2]; Some [-2; 2]; Some [-2; 2]; Some [-2; -2]]
       /\ map (inv_uses_choice (sznd_project 2) (outsidend [5; 5] 2) (maxfnd [5; 5] 2) nd_ex_prob 3 st) [(3 # 4)%Q; (7 # 8)%Q] = [false; true]).
Proof.
  split; [vm_compute; reflexivity|]. split; [vm_compute; reflexivity|]. split; [vm_compute; reflexivity|].
  split; [vm_compute; reflexivity|]. split; [vm_compute; reflexivity|].
  eexists; split; [vm_compute; reflexivity|]; split; vm_compute; reflexivity.
Qed.

(* C02 -- counting the points of a lattice u_m = (m + delta)/N, m = 0..N-1, 0 <= delta < 1, that a step function
   (consecutive left-closed intervals laid out from 0, total length <= 1) sends to a label k:
       | #{m : locate 0 segs u_m = Some k}  -  N * len_of k segs |  <=  number of segments labelled k.
   Used for TableMethod, whose alias uniform i * 2^-32 runs over such a lattice for every fixed low byte. *)
From Coq Require Import List Arith ZArith QArith Bool Lia Lqa.
From RV Require Import Base.QB Model.StepLaw Proofs.C02_StepLaw.
Import ListNotations.
Open Scope Q_scope.

Definition cnt (P : nat -> bool) (N : nat) : nat := length (filter P (seq 0 N)).

Lemma cnt_S P N : cnt P (S N) = (cnt P N + (if P N then 1 else 0))%nat.
Proof. unfold cnt. rewrite seq_S, filter_app, app_length. simpl. destruct (P N); reflexivity. Qed.

Lemma cnt_ext P Q N : (forall m, (m < N)%nat -> P m = Q m) -> cnt P N = cnt Q N.
Proof.
  induction N as [|N IH]; intro H; [reflexivity|]. rewrite !cnt_S, IH by (intros; apply H; lia).
  rewrite (H N) by lia. reflexivity.
Qed.

Lemma cnt_le P N : (cnt P N <= N)%nat.
Proof. induction N as [|N IH]; [apply Nat.le_refl|]. rewrite cnt_S. destruct (P N); lia. Qed.

Lemma cnt_false N : cnt (fun _ => false) N = 0%nat.
Proof. induction N as [|N IH]; [reflexivity|]. rewrite cnt_S, IH. reflexivity. Qed.

Lemma cnt_true N : cnt (fun _ => true) N = N.
Proof. induction N as [|N IH]; [reflexivity|]. rewrite cnt_S, IH. lia. Qed.

(* two predicates that never hold together *)
Lemma cnt_disjoint P Q N : (forall m, (m < N)%nat -> P m && Q m = false) ->
  cnt (fun m => P m || Q m) N = (cnt P N + cnt Q N)%nat.
Proof.
  induction N as [|N IH]; intro H; [reflexivity|]. rewrite !cnt_S, IH by (intros; apply H; lia).
  specialize (H N ltac:(lia)). destruct (P N); destruct (Q N); simpl in *; try discriminate; lia.
Qed.

Definition qn (n : nat) : Q := inject_Z (Z.of_nat n).

Lemma qn_S n : qn (S n) == qn n + 1.
Proof. unfold qn. rewrite Nat2Z.inj_succ, <- Z.add_1_r, inject_Z_plus. reflexivity. Qed.

Lemma qn_nonneg n : 0 <= qn n.
Proof. unfold qn. change 0 with (inject_Z 0). rewrite <- Zle_Qle. lia. Qed.

Lemma qn_add a b : qn (a + b) == qn a + qn b.
Proof. unfold qn. rewrite Nat2Z.inj_add, inject_Z_plus. reflexivity. Qed.

Lemma qn_le a b : (a <= b)%nat -> qn a <= qn b.
Proof. intro H. unfold qn. rewrite <- Zle_Qle. lia. Qed.

(* #{m < N : m < y} *)
Definition count_lt (y : Q) (N : nat) : nat := cnt (fun m => Qltb (qn m) y) N.

Lemma count_lt_all y N : qn N <= y + 1 -> (forall m, (m < N)%nat -> qn m < y) -> count_lt y N = N.
Proof.
  intros _ H. unfold count_lt. rewrite (cnt_ext _ (fun _ => true)); [apply cnt_true|].
  intros m Hm. apply Qltb_lt. apply H. assumption.
Qed.

Lemma count_lt_bounds N : forall y, - (1) < y -> y <= qn N -> y <= qn (count_lt y N) /\ qn (count_lt y N) < y + 1.
Proof.
  induction N as [|N IH]; intros y H0 H1.
  - unfold count_lt, cnt. simpl. change (qn 0) with 0 in *. lra.
  - unfold count_lt in *. rewrite cnt_S. rewrite qn_S in H1.
    destruct (Qltb (qn N) y) eqn:C.
    + apply Qltb_lt in C.
      assert (E : cnt (fun m => Qltb (qn m) y) N = N).
      { rewrite (cnt_ext _ (fun _ => true)); [apply cnt_true|]. intros m Hm. apply Qltb_lt.
        assert (qn m <= qn N) by (apply qn_le; lia). lra. }
      rewrite E. rewrite qn_add. change (qn 1) with 1. lra.
    + apply Qltb_false in C. rewrite Nat.add_0_r. apply IH; assumption.
Qed.

Section Lattice.
  Variable N : nat.
  Variable delta : Q.
  Hypothesis N_pos : (1 <= N)%nat.
  Hypothesis delta_range : 0 <= delta /\ delta < 1.

  Definition lat (m : nat) : Q := (qn m + delta) / qn N.

  Lemma qN_pos : 0 < qn N.
  Proof. unfold qn. change 0 with (inject_Z 0). rewrite <- Zlt_Qlt. lia. Qed.

  Lemma lat_lt m x : lat m < x <-> qn m < qn N * x - delta.
  Proof.
    pose proof qN_pos as Np. unfold lat. split; intro H.
    - assert (E : qn N * ((qn m + delta) / qn N) == qn m + delta) by (field; lra).
      apply (Qmult_lt_l _ _ (qn N) Np) in H. rewrite E in H. lra.
    - apply Qlt_shift_div_r; [assumption|]. lra.
  Qed.

  Lemma lat_nonneg m : 0 <= lat m.
  Proof. unfold lat. apply Qle_shift_div_l; [apply qN_pos|]. pose proof (qn_nonneg m). lra. Qed.

  Lemma lat_lt1 m : (m < N)%nat -> lat m < 1.
  Proof.
    intro H. apply lat_lt. assert (qn (S m) <= qn N) by (apply qn_le; lia). rewrite qn_S in H0. lra.
  Qed.

  (* T x = #{m < N : u_m < x} *)
  Definition T (x : Q) : nat := cnt (fun m => Qltb (lat m) x) N.

  Lemma T_count x : T x = count_lt (qn N * x - delta) N.
  Proof.
    unfold T, count_lt. apply cnt_ext. intros m _.
    destruct (Qltb (lat m) x) eqn:A; destruct (Qltb (qn m) (qn N * x - delta)) eqn:B; try reflexivity.
    - apply Qltb_lt in A. apply Qltb_false in B. apply lat_lt in A. lra.
    - apply Qltb_lt in B. apply Qltb_false in A. apply lat_lt in B. lra.
  Qed.

  Lemma T_bounds x : 0 <= x -> x <= 1 -> qn N * x - delta <= qn (T x) /\ qn (T x) < qn N * x - delta + 1.
  Proof.
    intros H0 H1. rewrite T_count. pose proof qN_pos. apply count_lt_bounds.
    - assert (0 <= qn N * x) by (apply Qmult_le_0_compat; lra). lra.
    - assert (qn N * x <= qn N * 1) by (apply Qmult_le_l; lra). lra.
  Qed.

  (* I a b = #{m < N : a <= u_m < b} *)
  Definition I (a b : Q) : nat := cnt (fun m => Qle_bool a (lat m) && Qltb (lat m) b) N.

  Lemma T_split a b : a <= b -> T b = (T a + I a b)%nat.
  Proof.
    intro H. unfold T, I. rewrite <- cnt_disjoint.
    - apply cnt_ext. intros m _.
      destruct (Qltb (lat m) a) eqn:A; destruct (Qltb (lat m) b) eqn:B; destruct (Qle_bool a (lat m)) eqn:C; simpl; try reflexivity.
      + apply Qltb_lt in A. apply Qltb_false in B. lra.
      + apply Qltb_lt in A. apply Qltb_false in B. lra.
      + apply Qltb_false in A. apply Qle_bool_false in C. lra.
    - intros m _. destruct (Qltb (lat m) a) eqn:A; [|reflexivity]. destruct (Qle_bool a (lat m)) eqn:C; [|reflexivity].
      apply Qltb_lt in A. apply Qle_bool_iff in C. lra.
  Qed.

  Lemma I_bounds a b : 0 <= a -> a <= b -> b <= 1 ->
    qn N * (b - a) - 1 < qn (I a b) /\ qn (I a b) < qn N * (b - a) + 1.
  Proof.
    intros H0 H1 H2. pose proof (T_split a b H1) as E.
    pose proof (T_bounds a H0 ltac:(lra)) as [A1 A2]. pose proof (T_bounds b ltac:(lra) H2) as [B1 B2].
    assert (Eq : qn (T b) == qn (T a) + qn (I a b)) by (rewrite E; apply qn_add).
    split; [|]; ring_simplify; lra.
  Qed.

  (* occurrences of a label *)
  Fixpoint occ (k : Z) (segs : list seg) : nat :=
    match segs with [] => O | (_, k') :: r => ((if Z.eqb k' k then 1 else 0) + occ k r)%nat end.

  Definition zopt_eqb (a : option Z) (k : Z) : bool := match a with Some x => Z.eqb x k | None => false end.

  (* G c segs = #{m < N : c <= u_m and locate c segs u_m = Some k} *)
  Definition G (k : Z) (c : Q) (segs : list seg) : nat :=
    cnt (fun m => Qle_bool c (lat m) && zopt_eqb (locate c segs (lat m)) k) N.

  Lemma G_bounds k : forall segs c, seg_nonneg segs -> 0 <= c -> c + total segs <= 1 ->
    qn N * len_of k segs - qn (occ k segs) <= qn (G k c segs) /\ qn (G k c segs) <= qn N * len_of k segs + qn (occ k segs).
  Proof.
    induction segs as [|[l k'] r IH]; intros c Hn H0 H1.
    - unfold G. simpl. rewrite (cnt_ext _ (fun _ => false)) by (intros; apply andb_false_r). rewrite cnt_false.
      change (qn 0) with 0. lra.
    - inversion Hn as [|? ? Hl Hr]; subst. simpl in Hl. simpl total in H1. pose proof (total_nonneg r Hr) as Tr.
      assert (Split : G k c (((l, k') : seg) :: r) = ((if Z.eqb k' k then I c (c + l) else 0) + G k (c + l) r)%nat).
      { unfold G, I. destruct (Z.eqb k' k) eqn:E.
        - rewrite <- cnt_disjoint.
          + apply cnt_ext. intros m _. simpl locate.
            destruct (Qle_bool c (lat m)) eqn:A; destruct (Qltb (lat m) (c + l)) eqn:B; simpl.
            * unfold zopt_eqb. rewrite E. destruct (Qle_bool (c + l) (lat m)) eqn:C; [|reflexivity].
              apply Qltb_lt in B. apply Qle_bool_iff in C. lra.
            * apply Qltb_false in B. assert (Qle_bool (c + l) (lat m) = true) as -> by (apply Qle_bool_iff; assumption). reflexivity.
            * destruct (Qle_bool (c + l) (lat m)) eqn:C; [|reflexivity]. apply Qle_bool_false in A. apply Qle_bool_iff in C. lra.
            * destruct (Qle_bool (c + l) (lat m)) eqn:C; [|reflexivity]. apply Qle_bool_false in A. apply Qle_bool_iff in C. lra.
          + intros m _. destruct (Qltb (lat m) (c + l)) eqn:B; [|rewrite andb_false_r; reflexivity].
            destruct (Qle_bool (c + l) (lat m)) eqn:C; [|rewrite andb_false_r; reflexivity].
            apply Qltb_lt in B. apply Qle_bool_iff in C. lra.
        - simpl. apply cnt_ext. intros m _. simpl locate.
          destruct (Qle_bool c (lat m)) eqn:A; destruct (Qltb (lat m) (c + l)) eqn:B; simpl.
          * unfold zopt_eqb. rewrite E. destruct (Qle_bool (c + l) (lat m)) eqn:C; [|reflexivity].
            apply Qltb_lt in B. apply Qle_bool_iff in C. lra.
          * apply Qltb_false in B. assert (Qle_bool (c + l) (lat m) = true) as -> by (apply Qle_bool_iff; assumption). reflexivity.
          * destruct (Qle_bool (c + l) (lat m)) eqn:C; [|reflexivity]. apply Qle_bool_false in A. apply Qle_bool_iff in C. lra.
          * destruct (Qle_bool (c + l) (lat m)) eqn:C; [|reflexivity]. apply Qle_bool_false in A. apply Qle_bool_iff in C. lra. }
      destruct (IH (c + l) Hr ltac:(lra) ltac:(lra)) as [L1 L2].
      rewrite Split. cbn [len_of occ]. destruct (Z.eqb k' k).
      + pose proof (I_bounds c (c + l) H0 ltac:(lra) ltac:(lra)) as [B1 B2].
        assert (Eq : qn N * (c + l - c) == qn N * l) by ring. rewrite Eq in B1, B2.
        rewrite !qn_add. change (qn 1) with 1. split; ring_simplify; lra.
      + rewrite !Nat.add_0_l. split; ring_simplify; lra.
  Qed.
End Lattice.

(* C02 -- witnesses (vm_compute on the faithful models of the CURRENT code) of the recorded finding F-C02-6:
   the right-closed samplers send the uniform 0 to the first enumerated state even when its probability is zero;
   plus the statement that table-driven draws carry no state. *)
From Coq Require Import List ZArith QArith Bool.
From RV Require Import Base.QB Model.StepLaw Model.StatesManager Model.Inversion Model.InversionOrig Model.BstAdapted.
Import ListNotations.
Open Scope Q_scope.

(* enumeration +1, -1 (a grid [-1, 0, 1]); all the mass on -1 *)
Definition zu_proj (i : Z) : Z := if (i =? 0)%Z then 1%Z else (-1)%Z.
Definition zu_prob (s : Z) : Q := if (s =? 1)%Z then 0 else 1.

Lemma inversion_zero_uniform_refuted :
  exists st, inv_init zu_proj (fun _ => false) 1 zu_prob = Some st
             /\ snd (inv_step zu_proj (fun _ => false) 1 zu_prob 1000000 st 0) = Out 1%Z
             /\ zu_prob 1 == 0.
Proof. eexists. split; [vm_compute; reflexivity|]. split; vm_compute; reflexivity. Qed.

(* axis [-1, 0, 1], all the mass (density 2 on [1/2, 1]) on the right cell *)
Lemma bstadapted1d_zero_uniform_refuted :
  let axis := [-(1); 0; 1] in let mass := step_mass [(1 # 2, 1, 2)] in
  ba_sample axis 1 mid_arith mass 1 1 (-(2)) 0 = (-1)%Z
  /\ mass (ba_cell_a axis mid_arith 0) (ba_cell_b axis mid_arith 0) == 0.
Proof. split; vm_compute; reflexivity. Qed.

(* F-C02-7 / F-C14-6 (FIXED by a073fcb): an enumeration with an inadmissible index (index 1) and _max_storage = 2.
   On the ORIGINAL code (Model/InversionOrig.v) the restart at the pairing index _max_storage counted state 2 twice:
   the uniform 9/10, which belongs to state 3 (cumulative sums 1/3, 2/3, 1 over the admissible states 0, 2, 3), was
   sent to state 2.  On the repaired code it is sent to state 3 with any storage. *)
Definition ov_outside (s : Z) : bool := (s =? 1)%Z.
Definition ov_inside (s : Z) : bool := negb (s =? 1)%Z.
Definition ov_prob (s : Z) : Q := if (s =? 1)%Z then 0 else 1 # 3.

Lemma inversion_overflow_orig :
  exists st, InvOrig.inv_init (fun i => i) ov_inside 3 ov_prob = Some st
             /\ snd (InvOrig.inv_step (fun i => i) ov_inside 3 ov_prob 2 st (9 # 10)) = InvOrig.Out 2%Z
             /\ snd (InvOrig.inv_step (fun i => i) ov_inside 3 ov_prob 1000000 st (9 # 10)) = InvOrig.Out 3%Z.
Proof. eexists. split; [vm_compute; reflexivity|]. split; vm_compute; reflexivity. Qed.

Lemma inversion_overflow_repaired :
  exists st, inv_init (fun i => i) ov_outside 3 ov_prob = Some st
             /\ snd (inv_step (fun i => i) ov_outside 3 ov_prob 2 st (9 # 10)) = Out 3%Z
             /\ snd (inv_step (fun i => i) ov_outside 3 ov_prob 1 st (9 # 10)) = Out 3%Z
             /\ snd (inv_step (fun i => i) ov_outside 3 ov_prob 1000000 st (9 # 10)) = Out 3%Z.
Proof. eexists. split; [vm_compute; reflexivity|]. repeat split; vm_compute; reflexivity. Qed.

(* draws of the table-driven samplers: the model threads no state, a sequence of draws is a map *)
Definition run_pure {T A : Type} (draw : T -> Q -> A) (tables : T) (us : list Q) : list A := map (draw tables) us.

Lemma no_history {T A : Type} (draw : T -> Q -> A) (tables : T) (us : list Q) (i : nat) :
  nth_error (run_pure draw tables us) i = option_map (draw tables) (nth_error us i).
Proof. unfold run_pure. apply nth_error_map. Qed.

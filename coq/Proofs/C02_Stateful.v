(* C02 -- the output of a draw does not depend on the hidden state carried between draws (cost counters, the
   lru cache of cell probabilities): for every state reachable from the initial one, a sequence of draws returns
   exactly what the state-free draw functions of the law theorems return, in any order and with any repetition. *)
From Coq Require Import List Arith ZArith QArith Bool Lia Lqa.
From RV Require Import Base.QB Model.Bst Model.Alias Model.Huffman Model.BstAdapted Model.Stateful.
Import ListNotations.
Open Scope Q_scope.

Lemma run_st_pure {St Out : Type} (step : St -> Q -> Out * St) (pure : Q -> Out) (Inv : St -> Prop) :
  (forall st u, Inv st -> fst (step st u) = pure u /\ Inv (snd (step st u))) ->
  forall us st, Inv st -> run_st step st us = map pure us.
Proof.
  intros H. induction us as [|u r IH]; intros st I; simpl; [reflexivity|].
  destruct (H st u I) as [E I']. rewrite E, (IH _ I'). reflexivity.
Qed.

(* ---------- cost counters ---------- *)
Lemma bst_descend_st_fst fuel k bst u : forall ptr cost,
  fst (bst_descend_st fuel k bst u ptr cost) = bst_descend fuel k bst u ptr.
Proof.
  induction fuel as [|f IH]; intros ptr cost; simpl; [reflexivity|].
  destruct (ptr <=? k)%nat; [|reflexivity]. destruct (Qltb u (nth (ptr - 1) bst 0)); apply IH.
Qed.

Lemma bst_sample_st_fst k bst cost u : fst (bst_sample_st k bst cost u) = bst_sample k bst u.
Proof. unfold bst_sample_st, bst_sample. cbn [fst]. rewrite bst_descend_st_fst. reflexivity. Qed.

Lemma huff_sample_cost_fst t : forall u cost, fst (huff_sample_cost t u cost) = huff_sample t u.
Proof.
  induction t as [v s | v l IHl r IHr]; intros u cost; simpl; [reflexivity|].
  destruct (Qltb u (hval l)); [apply IHl | apply IHr].
Qed.

Lemma huff_sample_st_fst t c u : fst (huff_sample_st t c u) = huff_sample t u.
Proof. unfold huff_sample_st. cbn [fst]. apply huff_sample_cost_fst. Qed.

(* ---------- the lru cache of _compute_probability ---------- *)
Lemma Qltb_ext2 a a' b b' : a == a' -> b == b' -> Qltb a b = Qltb a' b'.
Proof.
  intros Ea Eb. destruct (Qltb a b) eqn:A; destruct (Qltb a' b') eqn:B; try reflexivity.
  - apply Qltb_lt in A. apply Qltb_false in B. lra.
  - apply Qltb_lt in B. apply Qltb_false in A. lra.
Qed.

Section Cache.
  Variable axis : list Q.
  Variable o : Z.
  Variable middle mass : Q -> Q -> Q.
  Variable lam : Q.
  Variable evict : pcache -> pcache.
  (* the memoised function is a function of the VALUES of its float arguments, and eviction only drops entries *)
  Hypothesis mass_proper : forall a a' b b', a == a' -> b == b' -> mass a b == mass a' b'.
  Hypothesis evict_incl : forall c x, In x (evict c) -> In x c.
  Hypothesis lam_nz : ~ lam == 0.

  (* every stored value is the value of the function of THIS instance at its key *)
  Definition sound (c : pcache) : Prop := forall a b v, In (a, b, v) c -> v == mass a b / lam.

  Lemma lookup_sound c a b v : sound c -> pcache_lookup c a b = Some v -> v == mass a b / lam.
  Proof.
    induction c as [|[[a' b'] v'] r IH]; intros S L; simpl in L; [discriminate|].
    destruct (Qeq_bool a a' && Qeq_bool b b') eqn:E.
    - inversion L; subst. apply andb_true_iff in E. destruct E as [E1 E2].
      apply Qeq_bool_iff in E1. apply Qeq_bool_iff in E2.
      rewrite (S a' b' v (or_introl eq_refl)). rewrite (mass_proper a a' b b' E1 E2). reflexivity.
    - apply IH; [|assumption]. intros x y z Hin. apply S. right. assumption.
  Qed.

  Lemma compute_cached_spec c a b : sound c ->
    fst (compute_probability_cached mass lam evict c a b) == mass a b / lam
    /\ sound (snd (compute_probability_cached mass lam evict c a b)).
  Proof.
    intro S. unfold compute_probability_cached. destruct (pcache_lookup c a b) as [v|] eqn:L; simpl.
    - split; [eapply lookup_sound; eassumption | assumption].
    - split; [reflexivity|]. intros x y z Hin. apply evict_incl in Hin. destruct Hin as [Hin|Hin]; [|apply S; assumption].
      inversion Hin; subst. reflexivity.
  Qed.

  Lemma ba_bisect_c_spec fuel : forall left right cp cp' c, cp == cp' -> sound c ->
    fst (ba_bisect_c axis middle mass lam evict fuel left right cp c) = ba_bisect axis middle mass lam fuel left right cp'
    /\ sound (snd (ba_bisect_c axis middle mass lam evict fuel left right cp c)).
  Proof.
    induction fuel as [|f IH]; intros left right cp cp' c E S; simpl; [split; [reflexivity | assumption]|].
    destruct (left =? right)%Z; [split; [reflexivity | assumption]|].
    set (mid := ((left + right) / 2)%Z).
    destruct (compute_cached_spec c (ba_cell_a axis middle left) (ba_cell_b axis middle mid) S) as [V S'].
    set (pc := compute_probability_cached mass lam evict c (ba_cell_a axis middle left) (ba_cell_b axis middle mid)) in *.
    unfold ba_prob. rewrite (Qltb_ext2 (fst pc) (mass (ba_cell_a axis middle left) (ba_cell_b axis middle mid) / lam) cp cp' V E).
    destruct (Qltb (mass (ba_cell_a axis middle left) (ba_cell_b axis middle mid) / lam) cp').
    - apply IH; [rewrite V, E; reflexivity | assumption].
    - apply IH; assumption.
  Qed.

  Theorem ba_sample_c_spec h minf c u : sound c ->
    fst (ba_sample_c axis o middle mass lam evict h minf c u) = ba_sample axis o middle mass lam h minf u
    /\ sound (snd (ba_sample_c axis o middle mass lam evict h minf c u)).
  Proof.
    intro S. unfold ba_sample_c, ba_sample. destruct (Qltb (ba_proba_left mass lam h minf) u); cbn [fst snd].
    - destruct (ba_bisect_c_spec (Datatypes.S (length axis)) (o + 1) (ba_n axis - 1) (u - ba_proba_left mass lam h minf) _ c (Qeq_refl _) S) as [E S'].
      rewrite E. split; [reflexivity | assumption].
    - destruct (ba_bisect_c_spec (Datatypes.S (length axis)) 0 (o - 1) u _ c (Qeq_refl _) S) as [E S'].
      rewrite E. split; [reflexivity | assumption].
  Qed.

  Lemma sound_nil : sound []. Proof. intros a b v []. Qed.

  (* any sequence of draws on one instance, starting with an empty cache *)
  Theorem ba_history_free h minf us :
    run_st (ba_sample_c axis o middle mass lam evict h minf) [] us = map (ba_sample axis o middle mass lam h minf) us.
  Proof. apply (run_st_pure _ _ sound); [intros st u S; apply ba_sample_c_spec; assumption | apply sound_nil]. Qed.
End Cache.

(* ---------- the statement for the table-driven samplers: any initial counter, any sequence ---------- *)
Theorem table_driven_history_free :
  (forall k bst cost us, run_st (bst_sample_st k bst) cost us = map (bst_sample k bst) us)
  /\ (forall t cost us, run_st (huff_sample_st t) cost us = map (huff_sample t) us)
  /\ (forall K q J cost us, run_st (alias_draw_st K q J) cost us = map (alias_draw K q J) us).
Proof.
  split; [|split]; intros.
  - apply (run_st_pure _ _ (fun _ => True)); [intros st u _; split; [apply bst_sample_st_fst | exact I] | exact I].
  - apply (run_st_pure _ _ (fun _ => True)); [intros st u _; split; [apply huff_sample_st_fst | exact I] | exact I].
  - apply (run_st_pure _ _ (fun _ => True)); [intros st u _; split; [reflexivity | exact I] | exact I].
Qed.

(* ---------- the lru cache of the n-d tree: a READ cache (a hit replaces the evaluation of the box mass) ---------- *)
From RV Require Import Base.Corr Model.BstAdaptedNd.

Lemma zpair_eqb_eq a b : zpair_eqb a b = true -> a = b.
Proof.
  unfold zpair_eqb. intro H. apply andb_true_iff in H. destruct H as [H1 H2].
  apply Z.eqb_eq in H1. apply Z.eqb_eq in H2. destruct a, b. simpl in *. congruence.
Qed.

Lemma box_eqb_eq : forall a b, box_eqb a b = true -> a = b.
Proof.
  unfold box_eqb. induction a as [|x a IH]; intros [|y b] H; simpl in H; try discriminate; [reflexivity|].
  apply andb_true_iff in H. destruct H as [H1 H2]. f_equal; [apply zpair_eqb_eq; assumption | apply IH; assumption].
Qed.

Section NdCache.
  Variable bm : box -> Q.
  Variable evict : ndcache -> ndcache.
  Hypothesis evict_incl : forall c x, In x (evict c) -> In x c.

  (* every stored value is the mass of its key FOR THIS INSTANCE (a cache shared between instances breaks this) *)
  Definition nd_sound (c : ndcache) : Prop := forall b v, In (b, v) c -> v = bm b.

  Lemma nd_lookup_sound c b v : nd_sound c -> ndcache_lookup c b = Some v -> v = bm b.
  Proof.
    induction c as [|[b' v'] r IH]; intros S0 L; simpl in L; [discriminate|].
    destruct (box_eqb b b') eqn:E.
    - inversion L; subst. apply box_eqb_eq in E. subst b'. apply S0. left. reflexivity.
    - apply IH; [|assumption]. intros x y Hin. apply S0. right. assumption.
  Qed.

  Lemma bm_cached_spec c b : nd_sound c -> fst (bm_cached bm evict c b) = bm b /\ nd_sound (snd (bm_cached bm evict c b)).
  Proof.
    intro S0. unfold bm_cached. destruct (ndcache_lookup c b) as [v|] eqn:L; simpl.
    - split; [eapply nd_lookup_sound; eassumption | assumption].
    - split; [reflexivity|]. intros x y Hin. apply evict_incl in Hin. destruct Hin as [Hin|Hin]; [inversion Hin; reflexivity | apply S0; assumption].
  Qed.

  Lemma nd_go_c_spec fuel : forall k res cp c, nd_sound c ->
    fst (nd_go_c bm evict fuel k res cp c) = nd_go bm fuel k res cp /\ nd_sound (snd (nd_go_c bm evict fuel k res cp c)).
  Proof.
    induction fuel as [|f IH]; intros k res cp c S0; cbn [nd_go_c nd_go]; [split; [reflexivity | assumption]|].
    destruct (k <? length res)%nat.
    - unfold nd_axis_c, nd_axis. destruct (degenerate (nth k res (0, 0)%Z)); cbn [fst snd]; [apply IH; assumption|].
      set (res1 := upd res k (fst (nth k res (0, 0)%Z), ((snd (nth k res (0, 0)%Z) + fst (nth k res (0, 0)%Z)) / 2)%Z)).
      destruct (bm_cached_spec c res1 S0) as [V S1]. rewrite V.
      destruct (Qltb (bm res1) cp); cbn [fst snd]; apply IH; assumption.
    - destruct (all_degenerate res); [split; [reflexivity | assumption] | apply IH; assumption].
  Qed.

  (* any sequence of sample_one_bucket calls on one instance, starting with an empty cache, whatever is evicted *)
  Theorem nd_cache_history_free (res : box) (us : list Q) :
    run_st (fun c u => sample_one_bucket_c bm evict res c u) [] us = map (sample_one_bucket bm res) us.
  Proof.
    apply (run_st_pure _ _ nd_sound).
    - intros c u S0. unfold sample_one_bucket_c, sample_one_bucket. cbn [fst snd].
      destruct (nd_go_c_spec (nd_fuel res) (length res) res u c S0) as [E S1]. rewrite E. split; [reflexivity | assumption].
    - intros b v [].
  Qed.
End NdCache.

(* C02 -- generic facts about step functions given as consecutive labelled intervals (Model/StepLaw.v). *)
From Coq Require Import List ZArith QArith Qminmax Bool Lia Lqa Permutation.
From RV Require Import Base.QB Model.StepLaw.
Import ListNotations.
Open Scope Q_scope.

(* ---------- totals and lengths ---------- *)
Lemma total_app a b : total (a ++ b) == total a + total b.
Proof. induction a as [|[l k] a IH]; simpl; [ring | rewrite IH; ring]. Qed.

Lemma len_of_app k a b : len_of k (a ++ b) == len_of k a + len_of k b.
Proof. induction a as [|[l k'] a IH]; simpl; [ring | rewrite IH; ring]. Qed.

Lemma seg_nonneg_app a b : seg_nonneg (a ++ b) <-> seg_nonneg a /\ seg_nonneg b.
Proof. unfold seg_nonneg. apply Forall_app. Qed.

Lemma total_nonneg segs : seg_nonneg segs -> 0 <= total segs.
Proof.
  induction 1 as [|[l k] r H _ IH]; simpl in *; [lra | lra].
Qed.

Lemma len_of_nonneg k segs : seg_nonneg segs -> 0 <= len_of k segs.
Proof.
  induction 1 as [|[l k'] r H _ IH]; simpl in *; [lra|]. destruct (Z.eqb k' k); lra.
Qed.

Lemma len_of_perm k a b : Permutation a b -> len_of k a == len_of k b.
Proof.
  induction 1 as [| [l k'] a b _ IH | [l1 k1] [l2 k2] a | a b c _ IH1 _ IH2]; simpl.
  - reflexivity.
  - rewrite IH. reflexivity.
  - ring.
  - rewrite IH1. exact IH2.
Qed.

Lemma total_perm a b : Permutation a b -> total a == total b.
Proof.
  induction 1 as [| [l k'] a b _ IH | [l1 k1] [l2 k2] a | a b c _ IH1 _ IH2]; simpl.
  - reflexivity.
  - rewrite IH. reflexivity.
  - ring.
  - rewrite IH1. exact IH2.
Qed.

(* a label that does not occur has length 0 *)
Lemma len_of_notin k segs : ~ In k (map snd segs) -> len_of k segs == 0.
Proof.
  induction segs as [|[l k'] r IH]; simpl; intro H; [reflexivity|].
  destruct (Z.eqb_spec k' k) as [E|E]; [exfalso; apply H; left; exact E|].
  rewrite IH; [ring | intro Hc; apply H; right; exact Hc].
Qed.

(* a label that occurs exactly once has the length of its segment *)
Lemma len_of_unique k l pre post :
  ~ In k (map snd pre) -> ~ In k (map snd post) -> len_of k (pre ++ (l, k) :: post) == l.
Proof.
  intros H1 H2. rewrite len_of_app. simpl. rewrite Z.eqb_refl.
  rewrite (len_of_notin _ _ H1), (len_of_notin _ _ H2). ring.
Qed.

(* ---------- locate (left-closed intervals) ---------- *)
Lemma locate_ext c c' segs u : c == c' -> locate c segs u = locate c' segs u.
Proof.
  revert c c'. induction segs as [|[l k] r IH]; intros c c' E; simpl; [reflexivity|].
  assert (E2 : c + l == c' + l) by (rewrite E; reflexivity).
  assert (Qltb u (c + l) = Qltb u (c' + l)) as ->.
  { destruct (Qltb u (c + l)) eqn:A; destruct (Qltb u (c' + l)) eqn:B; try reflexivity.
    - apply Qltb_lt in A. apply Qltb_false in B. rewrite E2 in A. lra.
    - apply Qltb_lt in B. apply Qltb_false in A. rewrite E2 in A. lra. }
  destruct (Qltb u (c' + l)); [reflexivity | apply IH; exact E2].
Qed.

Lemma locate_none c segs u : seg_nonneg segs -> c + total segs <= u -> locate c segs u = None.
Proof.
  revert c. induction segs as [|[l k] r IH]; intros c Hn H; simpl in *; [reflexivity|].
  inversion Hn as [|? ? H0 Hr]; subst; simpl in H0.
  pose proof (total_nonneg r Hr).
  destruct (Qltb u (c + l)) eqn:A; [apply Qltb_lt in A; lra|].
  apply IH; [exact Hr | lra].
Qed.

Lemma locate_app c a b u :
  locate c (a ++ b) u = match locate c a u with Some k => Some k | None => locate (c + total a) b u end.
Proof.
  revert c. induction a as [|[l k] a IH]; intros c; simpl.
  - apply locate_ext. ring.
  - destruct (Qltb u (c + l)); [reflexivity|]. rewrite IH.
    destruct (locate (c + l) a u); [reflexivity|]. apply locate_ext. ring.
Qed.

Lemma locate_some c segs u : c <= u -> u < c + total segs -> exists k, locate c segs u = Some k.
Proof.
  revert c. induction segs as [|[l k] r IH]; intros c H1 H2; simpl in *; [lra|].
  destruct (Qltb u (c + l)) eqn:A; [eexists; reflexivity|].
  apply Qltb_false in A. apply IH; lra.
Qed.

(* the segment that is hit has positive length, provided the search starts at or below u *)
Lemma locate_hit c segs u k : c <= u -> locate c segs u = Some k ->
  exists pre l post, segs = pre ++ (l, k) :: post /\ c + total pre <= u /\ u < c + total pre + l.
Proof.
  revert c. induction segs as [|[l k'] r IH]; intros c H1 H; simpl in *; [discriminate|].
  destruct (Qltb u (c + l)) eqn:A.
  - inversion H; subst. exists [], l, r. simpl. apply Qltb_lt in A. repeat split; lra.
  - apply Qltb_false in A. destruct (IH (c + l) A H) as (pre & l0 & post & E & B1 & B2).
    exists ((l, k') :: pre), l0, post. subst r. simpl. repeat split; lra.
Qed.

Lemma locate_hit_conv c pre l k post u : seg_nonneg pre ->
  c + total pre <= u -> u < c + total pre + l -> locate c (pre ++ (l, k) :: post) u = Some k.
Proof.
  intros Hn H1 H2. rewrite locate_app. rewrite (locate_none c pre u Hn H1). simpl.
  destruct (Qltb u (c + total pre + l)) eqn:A; [reflexivity|]. apply Qltb_false in A. lra.
Qed.

(* a state all of whose segments have length 0 is never returned *)
Lemma locate_never_zero c segs u k : c <= u -> seg_nonneg segs -> len_of k segs == 0 -> locate c segs u <> Some k.
Proof.
  intros H1 Hn Hz Hl. destruct (locate_hit _ _ _ _ H1 Hl) as (pre & l & post & E & B1 & B2). subst segs.
  apply seg_nonneg_app in Hn. destruct Hn as [Hp Hq]. inversion Hq as [|? ? H0 Hr]; subst. simpl in H0.
  rewrite len_of_app in Hz. simpl in Hz. rewrite Z.eqb_refl in Hz.
  pose proof (len_of_nonneg k pre Hp). pose proof (len_of_nonneg k post Hr). lra.
Qed.

Lemma locate_in c segs u k : locate c segs u = Some k -> In k (map snd segs).
Proof.
  revert c. induction segs as [|[l k'] r IH]; intros c H; simpl in *; [discriminate|].
  destruct (Qltb u (c + l)); [inversion H; left; reflexivity | right; eapply IH; exact H].
Qed.

(* ---------- locate_r (right-closed intervals) ---------- *)
Lemma locate_r_ext c c' segs u : c == c' -> locate_r c segs u = locate_r c' segs u.
Proof.
  revert c c'. induction segs as [|[l k] r IH]; intros c c' E; simpl; [reflexivity|].
  assert (E2 : c + l == c' + l) by (rewrite E; reflexivity).
  assert (Qle_bool u (c + l) = Qle_bool u (c' + l)) as ->.
  { destruct (Qle_bool u (c + l)) eqn:A; destruct (Qle_bool u (c' + l)) eqn:B; try reflexivity.
    - apply Qle_bool_iff in A. apply Qle_bool_false in B. rewrite E2 in A. lra.
    - apply Qle_bool_iff in B. apply Qle_bool_false in A. rewrite E2 in A. lra. }
  destruct (Qle_bool u (c' + l)); [reflexivity | apply IH; exact E2].
Qed.

Lemma locate_r_none c segs u : seg_nonneg segs -> c + total segs < u -> locate_r c segs u = None.
Proof.
  revert c. induction segs as [|[l k] r IH]; intros c Hn H; simpl in *; [reflexivity|].
  inversion Hn as [|? ? H0 Hr]; subst; simpl in H0.
  pose proof (total_nonneg r Hr).
  destruct (Qle_bool u (c + l)) eqn:A; [apply Qle_bool_iff in A; lra|].
  apply IH; [exact Hr | lra].
Qed.

Lemma locate_r_app c a b u :
  locate_r c (a ++ b) u = match locate_r c a u with Some k => Some k | None => locate_r (c + total a) b u end.
Proof.
  revert c. induction a as [|[l k] a IH]; intros c; simpl.
  - apply locate_r_ext. ring.
  - destruct (Qle_bool u (c + l)); [reflexivity|]. rewrite IH.
    destruct (locate_r (c + l) a u); [reflexivity|]. apply locate_r_ext. ring.
Qed.

Lemma locate_r_some c segs u : segs <> [] -> u <= c + total segs -> exists k, locate_r c segs u = Some k.
Proof.
  revert c. induction segs as [|[l k] r IH]; intros c Hne H2; simpl in *; [congruence|].
  destruct (Qle_bool u (c + l)) eqn:A; [eexists; reflexivity|].
  apply Qle_bool_false in A. destruct r as [|s r']; [simpl in *; lra|].
  apply IH; [discriminate | lra].
Qed.

Lemma locate_r_hit c segs u k : c < u -> locate_r c segs u = Some k ->
  exists pre l post, segs = pre ++ (l, k) :: post /\ c + total pre < u /\ u <= c + total pre + l.
Proof.
  revert c. induction segs as [|[l k'] r IH]; intros c H1 H; simpl in *; [discriminate|].
  destruct (Qle_bool u (c + l)) eqn:A.
  - inversion H; subst. exists [], l, r. simpl. apply Qle_bool_iff in A. repeat split; lra.
  - apply Qle_bool_false in A. destruct (IH (c + l) A H) as (pre & l0 & post & E & B1 & B2).
    exists ((l, k') :: pre), l0, post. subst r. simpl. repeat split; lra.
Qed.

Lemma locate_r_hit_conv c pre l k post u : seg_nonneg pre ->
  c + total pre < u -> u <= c + total pre + l -> locate_r c (pre ++ (l, k) :: post) u = Some k.
Proof.
  intros Hn H1 H2. rewrite locate_r_app. rewrite (locate_r_none c pre u Hn H1). simpl.
  destruct (Qle_bool u (c + total pre + l)) eqn:A; [reflexivity|]. apply Qle_bool_false in A. lra.
Qed.

Lemma locate_r_never_zero c segs u k : c < u -> seg_nonneg segs -> len_of k segs == 0 -> locate_r c segs u <> Some k.
Proof.
  intros H1 Hn Hz Hl. destruct (locate_r_hit _ _ _ _ H1 Hl) as (pre & l & post & E & B1 & B2). subst segs.
  apply seg_nonneg_app in Hn. destruct Hn as [Hp Hq]. inversion Hq as [|? ? H0 Hr]; subst. simpl in H0.
  rewrite len_of_app in Hz. simpl in Hz. rewrite Z.eqb_refl in Hz.
  pose proof (len_of_nonneg k pre Hp). pose proof (len_of_nonneg k post Hr). lra.
Qed.

Lemma locate_r_in c segs u k : locate_r c segs u = Some k -> In k (map snd segs).
Proof.
  revert c. induction segs as [|[l k'] r IH]; intros c H; simpl in *; [discriminate|].
  destruct (Qle_bool u (c + l)); [inversion H; left; reflexivity | right; eapply IH; exact H].
Qed.

(* ---------- segments of a vector in its own order ---------- *)
Lemma segs_from_len i p k : (i <= k)%Z -> len_of k (segs_from i p) == nth (Z.to_nat (k - i)) p 0.
Proof.
  revert i. induction p as [|x r IH]; intros i H; simpl.
  - destruct (Z.to_nat (k - i)); reflexivity.
  - destruct (Z.eqb_spec i k) as [E|E].
    + subst. rewrite Z.sub_diag. simpl. rewrite len_of_notin; [ring|].
      clear. assert (G : forall j r, (k < j)%Z -> ~ In k (map snd (segs_from j r))).
      { intros j r0; revert j; induction r0 as [|y r0 IH]; intros j Hj; simpl; [tauto|].
        intros [Hc|Hc]; [lia | apply (IH (j + 1)%Z); [lia | exact Hc]]. }
      apply G. lia.
    + rewrite IH by lia. replace (Z.to_nat (k - i)) with (S (Z.to_nat (k - (i + 1)))) by lia. simpl. ring.
Qed.

Lemma segs_from_total i p : total (segs_from i p) == qsum p.
Proof. revert i. induction p as [|x r IH]; intros i; simpl; [reflexivity | rewrite IH; reflexivity]. Qed.

Lemma segs_from_nonneg i p : nonneg p -> seg_nonneg (segs_from i p).
Proof.
  revert i. induction p as [|x r IH]; intros i H; simpl; [constructor|].
  inversion H; subst. constructor; [assumption | apply IH; assumption].
Qed.

(* C02 -- TableMethod (256-slot table + alias on the residual), repaired tree: for every probability vector the
   constructor succeeds, and with the byte b uniform on 0..255 and the alias uniform independent of it, state k
   receives  #{b : J b = k}/256 + #{b : J b = -1}/256 * (alias mass of k)  =  p_k. *)
From Coq Require Import List Arith ZArith QArith Qround Bool Lia Lqa Permutation.
From RV Require Import Base.QB Model.StepLaw Model.Bst Model.Alias Model.Table
  Proofs.C02_StepLaw Proofs.C02_Bst Proofs.C02_Alias.
Import ListNotations.
Open Scope Q_scope.

Definition count (z : Z) (J : list Z) : nat := length (filter (Z.eqb z) J).

Definition table_mass (t : table_result) (k : nat) : Q :=
  match t with
  | TableAlias J aJ aq =>
      inject_Z (Z.of_nat (count (Z.of_nat k) J)) / 256
      + inject_Z (Z.of_nat (count (-1) J)) / 256 * len_of (Z.of_nat k) (alias_segs (length aq) aq aJ)
  | TableOnly J => inject_Z (Z.of_nat (count (Z.of_nat k) J)) / 256
  | TableError => 0
  end.

Lemma count_app z a b : count z (a ++ b) = (count z a + count z b)%nat.
Proof. unfold count. rewrite filter_app, app_length. reflexivity. Qed.
Lemma count_repeat_eq z n : count z (repeat z n) = n.
Proof. unfold count. induction n as [|n IH]; simpl; [reflexivity|]. rewrite Z.eqb_refl. simpl. rewrite IH. reflexivity. Qed.
Lemma count_repeat_neq z y n : z <> y -> count z (repeat y n) = 0%nat.
Proof. intro H. unfold count. induction n as [|n IH]; simpl; [reflexivity|]. destruct (Z.eqb_spec z y); [contradiction | assumption]. Qed.

Fixpoint zsum (l : list Z) : Z := match l with [] => 0%Z | x :: r => (x + zsum r)%Z end.

Lemma slots_length ks : Forall (fun x => (0 <= x)%Z) ks -> forall i, Z.of_nat (length (table_slots i ks)) = zsum ks.
Proof.
  induction 1 as [|x r Hx _ IH]; intros i; simpl; [reflexivity|].
  rewrite app_length, repeat_length, Nat2Z.inj_add, IH. lia.
Qed.

Lemma slots_count ks : Forall (fun x => (0 <= x)%Z) ks -> forall i z,
  count z (table_slots i ks) = if ((i <=? z) && (z <? i + Z.of_nat (length ks)))%Z then Z.to_nat (nth (Z.to_nat (z - i)) ks 0%Z) else 0%nat.
Proof.
  induction 1 as [|x r Hx _ IH]; intros i z.
  - simpl. destruct ((i <=? z) && (z <? i + 0))%Z; [|reflexivity]. destruct (Z.to_nat (z - i)); reflexivity.
  - cbn [table_slots length]. rewrite count_app, IH. destruct (Z.eq_dec z i) as [->|N].
    + rewrite count_repeat_eq.
      assert (((i + 1 <=? i) && (i <? i + 1 + Z.of_nat (length r)))%Z = false) as ->.
      { apply andb_false_iff. left. apply Z.leb_gt. lia. }
      assert (((i <=? i) && (i <? i + Z.of_nat (S (length r))))%Z = true) as ->.
      { apply andb_true_iff. split; [apply Z.leb_le | apply Z.ltb_lt]; lia. }
      rewrite Z.sub_diag. simpl. lia.
    + rewrite count_repeat_neq by assumption.
      destruct (Z_le_gt_dec i z) as [A|A]; [destruct (Z_lt_le_dec z (i + Z.of_nat (S (length r)))) as [B|B]|].
      * assert (((i + 1 <=? z) && (z <? i + 1 + Z.of_nat (length r)))%Z = true) as ->.
        { apply andb_true_iff. split; [apply Z.leb_le | apply Z.ltb_lt]; lia. }
        assert (((i <=? z) && (z <? i + Z.of_nat (S (length r))))%Z = true) as ->.
        { apply andb_true_iff. split; [apply Z.leb_le | apply Z.ltb_lt]; lia. }
        replace (Z.to_nat (z - i)) with (S (Z.to_nat (z - (i + 1)))) by lia. reflexivity.
      * assert (((i + 1 <=? z) && (z <? i + 1 + Z.of_nat (length r)))%Z = false) as ->.
        { apply andb_false_iff. right. apply Z.ltb_ge. lia. }
        assert (((i <=? z) && (z <? i + Z.of_nat (S (length r))))%Z = false) as ->.
        { apply andb_false_iff. right. apply Z.ltb_ge. lia. }
        reflexivity.
      * assert (((i + 1 <=? z) && (z <? i + 1 + Z.of_nat (length r)))%Z = false) as ->.
        { apply andb_false_iff. left. apply Z.leb_gt. lia. }
        assert (((i <=? z) && (z <? i + Z.of_nat (S (length r))))%Z = false) as ->.
        { apply andb_false_iff. left. apply Z.leb_gt. lia. }
        reflexivity.
Qed.

(* ---------- floor / fractional part of 256 p_i ---------- *)
Lemma trunc_nonneg x : 0 <= x -> Qtrunc x = Qfloor x /\ (0 <= Qfloor x)%Z.
Proof.
  intro H. unfold Qtrunc. assert (Qltb x 0 = false) as -> by (apply Qltb_false; assumption). split; [reflexivity|].
  pose proof (Qlt_floor x) as F. destruct (Z_lt_le_dec (Qfloor x) 0) as [L|L]; [|assumption]. exfalso.
  assert (inject_Z (Qfloor x + 1) <= 0) by (change 0 with (inject_Z 0); rewrite <- Zle_Qle; lia). lra.
Qed.

Lemma ks_nonneg p : nonneg p -> Forall (fun x => (0 <= x)%Z) (table_ks p).
Proof.
  induction 1 as [|x r Hx _ IH]; simpl; constructor; [|assumption].
  destruct (trunc_nonneg (256 * x) ltac:(lra)) as [-> H]. assumption.
Qed.

Lemma thetas_spec p : nonneg p -> forall k,
  nth k (table_thetas p) 0 == 256 * nth k p 0 - inject_Z (nth k (table_ks p) 0%Z)
  /\ 0 <= nth k (table_thetas p) 0 /\ nth k (table_thetas p) 0 < 1.
Proof.
  induction 1 as [|x r Hx _ IH]; intros [|k]; simpl; try (split; [ring | split; lra]).
  - destruct (trunc_nonneg (256 * x) ltac:(lra)) as [-> H].
    pose proof (Qfloor_le (256 * x)). pose proof (Qlt_floor (256 * x)) as F. rewrite inject_Z_plus in F.
    change (inject_Z 1) with 1 in F. split; [reflexivity | split; lra].
  - apply IH.
Qed.

Lemma thetas_nonneg p : nonneg p -> nonneg (table_thetas p).
Proof.
  intro H. unfold nonneg. apply Forall_forall. intros t Ht. destruct (In_nth _ _ 0 Ht) as (k & _ & <-).
  apply (thetas_spec p H k).
Qed.

Lemma sum_split p : nonneg p -> inject_Z (zsum (table_ks p)) + qsum (table_thetas p) == 256 * qsum p.
Proof.
  induction 1 as [|x r Hx _ IH]; simpl; [ring|].
  rewrite inject_Z_plus. rewrite <- (Qplus_comm (qsum (table_thetas r))) in IH.
  assert (E : inject_Z (zsum (table_ks r)) == 256 * qsum r - qsum (table_thetas r)) by (rewrite <- IH; ring).
  rewrite E. ring.
Qed.

Lemma qsum_nonneg l : nonneg l -> 0 <= qsum l.
Proof. induction 1; simpl; lra. Qed.
Lemma qsum_zero_all l : nonneg l -> qsum l == 0 -> forall k, nth k l 0 == 0.
Proof.
  induction 1 as [|x r Hx Hr IH]; intros E k; simpl in *; [destruct k; reflexivity|].
  pose proof (qsum_nonneg r Hr). destruct k; [lra | apply IH; lra].
Qed.
Lemma qsum_map_div l s : ~ s == 0 -> qsum (map (fun t => Qred (t / s)) l) == qsum l / s.
Proof.
  intro H. induction l as [|x r IH]; cbn [map qsum]; [field; assumption|].
  rewrite IH. rewrite (Qred_correct (x / s)). field. assumption.
Qed.

Theorem table_law (p : list Q) : (1 <= length p)%nat -> nonneg p -> qsum p == 1 ->
  create_table p <> TableError
  /\ (forall k, (k < length p)%nat -> table_mass (create_table p) k == nth k p 0)
  /\ length (table_J p) = 256%nat
  /\ (forall b, (-1 <= nth b (table_J p) (-1) < Z.of_nat (length p))%Z).
Proof.
  intros HK Hnn Hs.
  pose proof (ks_nonneg p Hnn) as Kn. pose proof (thetas_nonneg p Hnn) as Tn.
  pose proof (sum_split p Hnn) as Sp. rewrite Hs in Sp.
  pose proof (qsum_nonneg _ Tn) as S0.
  set (th := table_thetas p) in *. set (ks := table_ks p) in *. set (slots := table_slots 0 ks).
  assert (Lks : length ks = length p) by (unfold ks, table_ks; apply map_length).
  assert (Lth : length th = length p) by (unfold th, table_thetas; apply map_length).
  pose proof (slots_length ks Kn 0) as Ls. fold slots in Ls.
  assert (Hle : (zsum ks <= 256)%Z).
  { destruct (Z_le_gt_dec (zsum ks) 256) as [L|L]; [assumption|]. exfalso.
    assert (inject_Z 257 <= inject_Z (zsum ks)) by (rewrite <- Zle_Qle; lia). change (inject_Z 257) with 257 in H. lra. }
  set (R := Z.abs_nat (256 - Z.of_nat (length slots))).
  assert (HR : Z.of_nat R = (256 - zsum ks)%Z) by (unfold R; lia).
  assert (RS : inject_Z (Z.of_nat R) == qsum th).
  { rewrite HR. unfold Zminus. rewrite inject_Z_plus, inject_Z_opp. change (inject_Z 256) with 256. lra. }
  assert (LJ : length (table_J p) = 256%nat).
  { unfold table_J. fold ks slots R. rewrite app_length, repeat_length. lia. }
  assert (CJ : forall k, (k < length p)%nat -> count (Z.of_nat k) (table_J p) = Z.to_nat (nth k ks 0%Z)).
  { intros k Hk. unfold table_J. fold ks slots R. rewrite count_app, count_repeat_neq by lia.
    unfold slots. rewrite slots_count by assumption.
    assert (((0 <=? Z.of_nat k) && (Z.of_nat k <? 0 + Z.of_nat (length ks)))%Z = true) as ->.
    { apply andb_true_iff. split; [apply Z.leb_le | apply Z.ltb_lt]; lia. }
    replace (Z.to_nat (Z.of_nat k - 0)) with k by lia. lia. }
  assert (CR : count (-1) (table_J p) = R).
  { unfold table_J. fold ks slots R. rewrite count_app, count_repeat_eq. unfold slots. rewrite slots_count by assumption.
    assert (((0 <=? -1) && (-1 <? 0 + Z.of_nat (length ks)))%Z = false) as -> by reflexivity. reflexivity. }
  assert (Knth : forall k, (0 <= nth k ks 0)%Z).
  { intro k. destruct (Nat.lt_ge_cases k (length ks)) as [L|L]; [|rewrite nth_overflow by assumption; lia].
    apply (proj1 (Forall_forall _ _) Kn). apply nth_In. assumption. }
  assert (Bnd : forall b, (-1 <= nth b (table_J p) (-1) < Z.of_nat (length p))%Z).
  { intro b. destruct (Nat.lt_ge_cases b (length (table_J p))) as [L|L]; [|rewrite nth_overflow by assumption; lia].
    assert (Hin : In (nth b (table_J p) (-1)%Z) (table_J p)) by (apply nth_In; assumption).
    set (z := nth b (table_J p) (-1)%Z) in *. unfold table_J in Hin. fold ks slots R in Hin.
    apply in_app_or in Hin. destruct Hin as [Hin|Hin]; [|apply repeat_spec in Hin; lia].
    assert (C : count z slots <> 0%nat).
    { unfold count. intro Hc. apply length_zero_iff_nil in Hc.
      assert (In z (filter (Z.eqb z) slots)) by (apply filter_In; split; [assumption | apply Z.eqb_refl]).
      rewrite Hc in H. contradiction. }
    unfold slots in C. rewrite slots_count in C by assumption.
    destruct ((0 <=? z) && (z <? 0 + Z.of_nat (length ks)))%Z eqn:E; [|congruence].
    apply andb_true_iff in E. destruct E as [E1 E2]. apply Z.leb_le in E1. apply Z.ltb_lt in E2. lia. }
  unfold create_table. fold th ks slots.
  destruct (Qltb 0 (Qred (qsum th))) eqn:C.
  - (* positive residual: alias on thetas / sum *)
    apply Qltb_lt in C. rewrite Qred_correct in C.
    set (s := Qred (qsum th)). assert (Es : s == qsum th) by apply Qred_correct.
    set (th' := map (fun t => Qred (t / s)) th).
    assert (Ln : length th' = length p) by (unfold th'; rewrite map_length; assumption).
    assert (Nn' : nonneg th').
    { unfold nonneg, th'. apply Forall_forall. intros t Ht. apply in_map_iff in Ht. destruct Ht as (t0 & <- & Ht0).
      rewrite Qred_correct. apply Qle_shift_div_l; [lra|]. rewrite Qmult_0_l.
      apply (proj1 (Forall_forall _ _) Tn). assumption. }
    assert (Sum' : qsum th' == 1) by (unfold th'; rewrite qsum_map_div by lra; rewrite Es; field; lra).
    destruct (alias_law th' ltac:(lia) Nn' Sum') as (Len & _).
    destruct (alias_tables th' Nn' Sum' ltac:(lia)) as (Lq & _). cbv zeta in Lq.
    split; [discriminate|]. split; [|split; assumption].
    intros k Hk. cbn [table_mass fst snd]. rewrite Lq, Ln.
    rewrite Ln in Len. rewrite (Len k Hk), CJ, CR by assumption.
    assert (Tk : nth k th' 0 == nth k th 0 / s).
    { unfold th'. rewrite (nth_indep _ 0 ((fun t => Qred (t / s)) 0)) by (rewrite map_length; lia).
      rewrite (map_nth (fun t => Qred (t / s))). apply Qred_correct. }
    rewrite Tk, RS. destruct (thetas_spec p Hnn k) as (E1 & _). fold th ks in E1.
    rewrite Z2Nat.id by apply Knth. rewrite Es. rewrite E1. field. lra.
  - (* no residual: the table alone *)
    apply Qltb_false in C. rewrite Qred_correct in C. assert (Z0 : qsum th == 0) by lra.
    assert (Hlen : length slots = 256%nat).
    { assert (E : inject_Z (zsum ks) == inject_Z 256) by (change (inject_Z 256) with 256; lra). apply (proj1 (inject_Z_injective _ _)) in E. lia. }
    rewrite Hlen. cbn [Nat.eqb]. split; [discriminate|]. split; [|split; assumption].
    intros k Hk. cbn [table_mass]. rewrite CJ by assumption.
    destruct (thetas_spec p Hnn k) as (E1 & _). fold th ks in E1.
    rewrite (qsum_zero_all th Tn Z0 k) in E1. rewrite Z2Nat.id by apply Knth.
    assert (inject_Z (nth k ks 0%Z) == 256 * nth k p 0) by lra. rewrite H. field.
Qed.

(* ---------- the shape of create_table's result, for the word-level law ---------- *)
Definition table_resid (p : list Q) : list Q :=
  map (fun t => Qred (t / Qred (qsum (table_thetas p)))) (table_thetas p).

Lemma create_table_cases (p : list Q) : (1 <= length p)%nat -> nonneg p -> qsum p == 1 ->
  (create_table p = TableAlias (table_J p) (fst (create_alias (table_resid p))) (snd (create_alias (table_resid p)))
   /\ nonneg (table_resid p) /\ qsum (table_resid p) == 1 /\ length (table_resid p) = length p)
  \/ create_table p = TableOnly (table_J p).
Proof.
  intros HK Hnn Hs. pose proof (thetas_nonneg p Hnn) as Tn. pose proof (qsum_nonneg _ Tn) as S0.
  destruct (table_law p HK Hnn Hs) as (NE & _). unfold create_table in *. fold (table_resid p) in *.
  destruct (Qltb 0 (Qred (qsum (table_thetas p)))) eqn:C.
  - left. apply Qltb_lt in C. rewrite Qred_correct in C. split; [reflexivity|].
    set (s := Qred (qsum (table_thetas p))). assert (Es : s == qsum (table_thetas p)) by apply Qred_correct.
    split; [|split].
    + unfold nonneg, table_resid. apply Forall_forall. intros t Ht. apply in_map_iff in Ht. destruct Ht as (t0 & <- & Ht0).
      rewrite Qred_correct. fold s. apply Qle_shift_div_l; [lra|]. rewrite Qmult_0_l.
      apply (proj1 (Forall_forall _ _) Tn). assumption.
    + unfold table_resid. fold s. rewrite qsum_map_div by lra. rewrite Es. field. lra.
    + unfold table_resid, table_thetas. rewrite !map_length. reflexivity.
  - right. destruct (length (table_slots 0 (table_ks p)) =? 256)%nat; [reflexivity | congruence].
Qed.

(* C02 -- TableMethod._sample_one as the code runs it: ONE 32-bit word w gives the slot byte w & 255 AND the alias
   uniform w * 2^-32 (table_draw_word).  Exact law over the 2^32 words: with
       words_to t k = sum over the 256 low bytes b of  #{m < 2^24 : table_draw_word t (256 m + b) = Some k}
   (the number of 32-bit words sent to state k),
       | words_to t k  -  2^32 p_k |  <=  #{b : J b = -1} * (number of alias intervals labelled k)  <=  255 * 2K,
   i.e. the probability of k over a uniform 32-bit word is p_k within 2K * 2^-24; it is exactly p_k when the table has
   no residual.  (For a fixed low byte the alias uniform runs over the lattice (m + b/256) / 2^24.) *)
From Coq Require Import List Arith ZArith QArith Qround Bool Lia Lqa.
From RV Require Import Base.QB Model.StepLaw Model.Bst Model.Alias Model.Table
  Proofs.C02_StepLaw Proofs.C02_Bst Proofs.C02_Alias Proofs.C02_Table Proofs.C02_Lattice.
Import ListNotations.
Open Scope Q_scope.

Lemma Qltb_ext a a' b b' : a == a' -> b == b' -> Qltb a b = Qltb a' b'.
Proof.
  intros Ea Eb. destruct (Qltb a b) eqn:A; destruct (Qltb a' b') eqn:B; try reflexivity.
  - apply Qltb_lt in A. apply Qltb_false in B. lra.
  - apply Qltb_lt in B. apply Qltb_false in A. lra.
Qed.

Lemma locate_ext_u segs : forall c u u', u == u' -> locate c segs u = locate c segs u'.
Proof.
  induction segs as [|[l k] r IH]; intros c u u' E; simpl; [reflexivity|].
  rewrite (Qltb_ext u u' (c + l) (c + l)) by (try assumption; reflexivity).
  destruct (Qltb u' (c + l)); [reflexivity | apply IH; assumption].
Qed.

Lemma occ_le_length k segs : (occ k segs <= length segs)%nat.
Proof. induction segs as [|[l k'] r IH]; simpl; [lia|]. destruct (Z.eqb k' k); lia. Qed.

Lemma filter_nth_count (J : list Z) z : forall a,
  length (filter (fun b => Z.eqb z (nth (b - a) J (-1)%Z)) (seq a (length J))) = count z J.
Proof.
  induction J as [|x J IH]; intros a; [reflexivity|].
  assert (E : filter (fun b => Z.eqb z (nth (b - a) (x :: J) (-1)%Z)) (seq (S a) (length J))
              = filter (fun b => Z.eqb z (nth (b - S a) J (-1)%Z)) (seq (S a) (length J))).
  { apply filter_ext_in. intros b Hb. apply in_seq in Hb. replace (b - a)%nat with (S (b - S a)) by lia. reflexivity. }
  cbn [length seq filter]. rewrite E, Nat.sub_diag. change (nth 0 (x :: J) (-1)%Z) with x.
  unfold count in *. cbn [filter]. destruct (Z.eqb z x); cbn [length]; rewrite IH; reflexivity.
Qed.

Section Words.
  Variable N : nat.                                   (* 2^24 values of the upper 24 bits *)
  Hypothesis N_val : Z.of_nat N = (2 ^ 24)%Z.

  Lemma N_pos : (1 <= N)%nat. Proof. lia. Qed.

  Definition word (m b : nat) : Z := (256 * Z.of_nat m + Z.of_nat b)%Z.

  Lemma word_byte m b : (b < 256)%nat -> Z.to_nat (word m b mod 256) = b.
  Proof.
    intro H. unfold word. rewrite Z.add_comm, Z.mul_comm, Z_mod_plus_full. rewrite Z.mod_small by lia. lia.
  Qed.

  Lemma word_uniform m b : inject_Z (word m b) / inject_Z (2 ^ 32) == lat N (qn b / 256) m.
  Proof.
    unfold lat, word, qn. rewrite N_val. rewrite inject_Z_plus, inject_Z_mult.
    change (inject_Z (2 ^ 32)) with 4294967296. change (inject_Z (2 ^ 24)) with 16777216. change (inject_Z 256) with 256.
    field.
  Qed.

  Definition words_to_byte (t : table_result) (k : Z) (b : nat) : nat :=
    cnt (fun m => zopt_eqb (table_draw_word t (word m b)) k) N.
  Definition words_to (t : table_result) (k : Z) : nat :=
    fold_right (fun b acc => (words_to_byte t k b + acc)%nat) 0%nat (seq 0 256).

  Section OneTable.
    Variable J : list Z.
    Variable aJ : list nat.
    Variable aq : list Q.
    Variable k : nat.
    Let segs := alias_segs (length aq) aq aJ.
    Hypothesis J_bound : forall b, (-1 <= nth b J (-1))%Z.
    Hypothesis segs_nonneg : seg_nonneg segs.
    Hypothesis segs_total : total segs <= 1.
    Hypothesis draw_is_locate : forall u, 0 <= u -> u < 1 ->
      locate 0 segs u = Some (Z.of_nat (alias_draw (length aq) aq aJ u)).

    Lemma byte_slot b : (b < 256)%nat -> (0 <= nth b J (-1))%Z ->
      words_to_byte (TableAlias J aJ aq) (Z.of_nat k) b = if Z.eqb (nth b J (-1)%Z) (Z.of_nat k) then N else 0%nat.
    Proof.
      intros Hb Hj. unfold words_to_byte.
      rewrite (cnt_ext _ (fun _ => Z.eqb (nth b J (-1)%Z) (Z.of_nat k))).
      - destruct (Z.eqb (nth b J (-1)%Z) (Z.of_nat k)); [apply cnt_true | apply cnt_false].
      - intros m _. unfold table_draw_word, table_draw. rewrite word_byte by assumption.
        assert ((0 <=? nth b J (-1))%Z = true) as -> by (apply Z.leb_le; assumption). reflexivity.
    Qed.

    Lemma byte_resid b : (b < 256)%nat -> nth b J (-1)%Z = (-1)%Z ->
      words_to_byte (TableAlias J aJ aq) (Z.of_nat k) b = G N (qn b / 256) (Z.of_nat k) 0 segs.
    Proof.
      intros Hb Hj. unfold words_to_byte, G. apply cnt_ext. intros m Hm.
      assert (Dr : 0 <= qn b / 256 /\ qn b / 256 < 1).
      { pose proof (qn_nonneg b). assert (qn b < 256).
        { unfold qn. change 256 with (inject_Z 256). rewrite <- Zlt_Qlt. lia. }
        split; [apply Qle_shift_div_l; lra | apply Qlt_shift_div_r; lra]. }
      pose proof (lat_nonneg N (qn b / 256) N_pos Dr m) as L0.
      pose proof (lat_lt1 N (qn b / 256) N_pos Dr m Hm) as L1.
      assert (Qle_bool 0 (lat N (qn b / 256) m) = true) as -> by (apply Qle_bool_iff; assumption). cbn [andb].
      unfold table_draw_word, table_draw. rewrite word_byte by assumption. rewrite Hj. cbn [Z.leb Z.compare].
      set (u := inject_Z (word m b) / inject_Z (2 ^ 32)).
      assert (Eu : u == lat N (qn b / 256) m) by apply word_uniform.
      rewrite <- (locate_ext_u segs 0 u _ Eu). rewrite draw_is_locate by (rewrite Eu; assumption). reflexivity.
    Qed.

    Definition nslots (z : Z) (l : list nat) : nat := length (filter (fun b => Z.eqb z (nth b J (-1)%Z)) l).

    Lemma bytes_sum : forall l, (forall b, In b l -> (b < 256)%nat) ->
      let A := fold_right (fun b acc => (words_to_byte (TableAlias J aJ aq) (Z.of_nat k) b + acc)%nat) 0%nat l in
      let base := qn N * (qn (nslots (Z.of_nat k) l) + qn (nslots (-1) l) * len_of (Z.of_nat k) segs) in
      let err := qn (nslots (-1) l) * qn (occ (Z.of_nat k) segs) in
      base - err <= qn A /\ qn A <= base + err.
    Proof.
      induction l as [|b l IH]; intros Hl; cbv zeta.
      - unfold nslots. simpl. change (qn 0) with 0. split; ring_simplify; lra.
      - cbn [fold_right]. unfold nslots. cbn [filter].
        specialize (IH (fun x Hx => Hl x (or_intror Hx))). cbv zeta in IH. unfold nslots in IH. destruct IH as [IH1 IH2].
        pose proof (Hl b (or_introl eq_refl)) as Hb. rewrite qn_add.
        set (A := fold_right (fun b acc => (words_to_byte (TableAlias J aJ aq) (Z.of_nat k) b + acc)%nat) 0%nat l) in *.
        set (nk := length (filter (fun b => Z.eqb (Z.of_nat k) (nth b J (-1)%Z)) l)) in *.
        set (nr := length (filter (fun b => Z.eqb (-1) (nth b J (-1)%Z)) l)) in *.
        destruct (Z_le_gt_dec 0 (nth b J (-1)%Z)) as [Hj|Hj].
        + rewrite (byte_slot b Hb Hj).
          assert ((-1 =? nth b J (-1))%Z = false) as -> by (apply Z.eqb_neq; lia).
          rewrite (Z.eqb_sym (Z.of_nat k)). destruct (Z.eqb (nth b J (-1)%Z) (Z.of_nat k)); cbn [length].
          * fold nk nr. pose proof (qn_S nk) as E1. split; nra.
          * change (qn 0) with 0. fold nk nr. split; nra.
        + assert (Hj' : nth b J (-1)%Z = (-1)%Z) by (pose proof (J_bound b); lia).
          rewrite (byte_resid b Hb Hj'). rewrite Hj'. rewrite (Z.eqb_refl (-1)).
          assert ((Z.of_nat k =? -1)%Z = false) as -> by (apply Z.eqb_neq; lia). cbn [length]. fold nk nr. pose proof (qn_S nr) as E1.
          assert (Dr : 0 <= qn b / 256 /\ qn b / 256 < 1).
          { pose proof (qn_nonneg b). assert (qn b < 256).
            { unfold qn. change 256 with (inject_Z 256). rewrite <- Zlt_Qlt. lia. }
            split; [apply Qle_shift_div_l; lra | apply Qlt_shift_div_r; lra]. }
          pose proof (G_bounds N (qn b / 256) N_pos Dr (Z.of_nat k) segs 0 segs_nonneg ltac:(lra) ltac:(lra)) as [G1 G2].
          rewrite E1. split; ring_simplify; ring_simplify in G1; ring_simplify in G2; ring_simplify in IH1; ring_simplify in IH2; lra.
    Qed.
  End OneTable.
End Words.

Lemma total_alias_cols K q J : (1 <= K)%nat -> forall l, total (alias_cols K q J l) == qn (length l) / qn K.
Proof.
  intro HK. assert (Kp : 0 < qn K) by (unfold qn; change 0 with (inject_Z 0); rewrite <- Zlt_Qlt; lia).
  induction l as [|x l IH]; unfold alias_cols in *; cbn [flat_map app total length].
  - change (qn 0) with 0. field. lra.
  - rewrite IH, qn_S. fold (qn K). field. lra.
Qed.

Lemma filter_len_le {A} (f : A -> bool) l : (length (filter f l) <= length l)%nat.
Proof. induction l as [|x l IH]; simpl; [lia|]. destruct (f x); simpl; lia. Qed.

Lemma alias_cols_length K q J : forall l, length (alias_cols K q J l) = (2 * length l)%nat.
Proof. induction l as [|y l IH]; [reflexivity|]. unfold alias_cols in *. cbn [flat_map app length]. rewrite IH. lia. Qed.

Section Law.
  Variable N : nat.
  Hypothesis N_val : Z.of_nat N = (2 ^ 24)%Z.

  Lemma only_sum J k : forall l, (forall b, In b l -> (b < 256)%nat) ->
    fold_right (fun b acc => (words_to_byte N (TableOnly J) (Z.of_nat k) b + acc)%nat) 0%nat l
    = (N * nslots J (Z.of_nat k) l)%nat.
  Proof.
    induction l as [|b l IH]; intro Hl; [unfold nslots; simpl; rewrite Nat.mul_0_r; reflexivity|]. cbn [fold_right]. rewrite IH by (intros x Hx; apply Hl; right; assumption).
    unfold nslots. cbn [filter]. pose proof (Hl b (or_introl eq_refl)) as Hb.
    assert (E : words_to_byte N (TableOnly J) (Z.of_nat k) b = if Z.eqb (Z.of_nat k) (nth b J (-1)%Z) then N else 0%nat).
    { unfold words_to_byte. rewrite (cnt_ext _ (fun _ => Z.eqb (Z.of_nat k) (nth b J (-1)%Z))).
      - destruct (Z.eqb (Z.of_nat k) (nth b J (-1)%Z)); [apply cnt_true | apply cnt_false].
      - intros m _. unfold table_draw_word, table_draw. rewrite word_byte by assumption.
        destruct (0 <=? nth b J (-1))%Z eqn:C; simpl; [apply Z.eqb_sym|].
        apply Z.leb_gt in C. symmetry. apply Z.eqb_neq. lia. }
    rewrite E. destruct (Z.eqb (Z.of_nat k) (nth b J (-1)%Z)); cbn [length]; lia.
  Qed.

  Lemma nslots_all J z : length J = 256%nat -> nslots J z (seq 0 256) = count z J.
  Proof.
    intro H. unfold nslots. rewrite <- (filter_nth_count J z 0), H. generalize (seq 0 256). intro l.
    rewrite (filter_ext _ (fun b => Z.eqb z (nth (b - 0) J (-1)%Z)) (fun b => eq_sym (f_equal (fun i => Z.eqb z (nth i J (-1)%Z)) (Nat.sub_0_r b)))).
    reflexivity.
  Qed.

  Definition table_err (t : table_result) (k : nat) : Q :=
    match t with
    | TableAlias J aJ aq => qn (count (-1) J) * qn (occ (Z.of_nat k) (alias_segs (length aq) aq aJ))
    | _ => 0
    end.

  Theorem table_draw_law (p : list Q) : (1 <= length p)%nat -> nonneg p -> qsum p == 1 ->
    forall k, (k < length p)%nat ->
      let t := create_table p in
      let words := qn (words_to N t (Z.of_nat k)) in
      4294967296 * nth k p 0 - table_err t k <= words /\ words <= 4294967296 * nth k p 0 + table_err t k
      /\ table_err t k <= 512 * qn (length p).
  Proof.
    intros HK Hnn Hs k Hk. cbv zeta.
    destruct (table_law p HK Hnn Hs) as (_ & Mass & LJ & Bnd). specialize (Mass k Hk).
    assert (qN : qn N == 16777216) by (unfold qn; rewrite N_val; reflexivity).
    assert (Hseq : forall b, In b (seq 0 256) -> (b < 256)%nat) by (intros b Hb; apply in_seq in Hb; lia).
    destruct (create_table_cases p HK Hnn Hs) as [(E & Nn' & Sum' & Ln) | E]; rewrite E in *.
    - set (th' := table_resid p) in *. set (aJ := fst (create_alias th')) in *. set (aq := snd (create_alias th')) in *.
      destruct (alias_law th' ltac:(lia) Nn' Sum') as (_ & SegN & Loc & _).
      destruct (alias_tables th' Nn' Sum' ltac:(lia)) as (Lq & _). cbv zeta in Lq. fold aq in Lq.
      cbv zeta in SegN, Loc. fold aJ aq in SegN, Loc. rewrite <- Lq in SegN, Loc.
      assert (Tot : total (alias_segs (length aq) aq aJ) <= 1).
      { unfold alias_segs. rewrite total_alias_cols by lia. rewrite seq_length.
        assert (0 < qn (length aq)) by (unfold qn; change 0 with (inject_Z 0); rewrite <- Zlt_Qlt; lia).
        assert (E1 : qn (length aq) / qn (length aq) == 1) by (field; lra). rewrite E1. lra. }
      pose proof (bytes_sum N N_val (table_J p) aJ aq k (fun b => proj1 (Bnd b)) SegN Tot Loc (seq 0 256) Hseq) as [B1 B2].
      cbv zeta in B1, B2. rewrite !(nslots_all _ _ LJ) in B1, B2.
      cbn [table_mass] in Mass. cbn [table_err]. unfold words_to.
      set (A := fold_right (fun b acc => (words_to_byte N (TableAlias (table_J p) aJ aq) (Z.of_nat k) b + acc)%nat) 0%nat (seq 0 256)) in *.
      set (len := len_of (Z.of_nat k) (alias_segs (length aq) aq aJ)) in *.
      set (ck := qn (count (Z.of_nat k) (table_J p))) in *. set (cr := qn (count (-1) (table_J p))) in *.
      set (oc := qn (occ (Z.of_nat k) (alias_segs (length aq) aq aJ))) in *.
      assert (Base : qn N * (ck + cr * len) == 4294967296 * nth k p 0).
      { rewrite <- Mass, qN. unfold ck, cr, qn. field. }
      rewrite <- Base. split; [lra|]. split; [lra|].
      (* the error term: at most 256 residual bytes, at most 2K alias intervals *)
      assert (C1 : cr <= 256).
      { unfold cr, count. pose proof (filter_len_le (Z.eqb (-1)) (table_J p)) as Hf. rewrite LJ in Hf.
        unfold qn. change 256 with (inject_Z 256). rewrite <- Zle_Qle. lia. }
      assert (C2 : oc <= 2 * qn (length p)).
      { unfold oc. pose proof (occ_le_length (Z.of_nat k) (alias_segs (length aq) aq aJ)) as Ho.
        assert (Ll : length (alias_segs (length aq) aq aJ) = (2 * length aq)%nat) by (unfold alias_segs; rewrite alias_cols_length, seq_length; reflexivity).
        assert (L2 : (2 * length aq = 2 * length p)%nat) by (rewrite Lq, Ln; reflexivity).
        assert (Hq : qn (occ (Z.of_nat k) (alias_segs (length aq) aq aJ)) <= qn (length p + length p)) by (apply qn_le; lia).
        rewrite qn_add in Hq. lra. }
      pose proof (qn_nonneg (count (-1) (table_J p))). pose proof (qn_nonneg (occ (Z.of_nat k) (alias_segs (length aq) aq aJ))).
      fold cr oc in H, H0. nra.
    - cbn [table_err table_mass] in *. unfold words_to. rewrite (only_sum (table_J p) k (seq 0 256) Hseq).
      rewrite (nslots_all _ _ LJ).
      assert (Eq : qn (N * count (Z.of_nat k) (table_J p)) == 4294967296 * nth k p 0).
      { unfold qn. rewrite Nat2Z.inj_mul, inject_Z_mult. fold (qn N). fold (qn (count (Z.of_nat k) (table_J p))).
        rewrite qN, <- Mass. unfold qn. field. }
      rewrite Eq. pose proof (qn_nonneg (length p)). split; [lra|]. split; lra.
  Qed.
End Law.

(* ---------- a state of probability zero is never returned, whatever the 32-bit word ---------- *)
Lemma count_pos z J b : (b < length J)%nat -> nth b J (-1)%Z = z -> (1 <= count z J)%nat.
Proof.
  intros Hb E. unfold count. assert (Hin : In z (filter (Z.eqb z) J)).
  { apply filter_In. split; [rewrite <- E; apply nth_In; assumption | apply Z.eqb_refl]. }
  destruct (filter (Z.eqb z) J); [contradiction | simpl; lia].
Qed.

Theorem table_draw_never_zero (p : list Q) : (1 <= length p)%nat -> nonneg p -> qsum p == 1 ->
  forall k w, (k < length p)%nat -> nth k p 0 == 0 -> (0 <= w < 2 ^ 32)%Z ->
    table_draw_word (create_table p) w <> Some (Z.of_nat k).
Proof.
  intros HK Hnn Hs k w Hk Hz Hw.
  destruct (table_law p HK Hnn Hs) as (_ & Mass & LJ & Bnd). specialize (Mass k Hk). rewrite Hz in Mass.
  set (b := Z.to_nat (w mod 256)). assert (Hb : (b < 256)%nat) by (unfold b; pose proof (Z.mod_pos_bound w 256 ltac:(lia)); lia).
  assert (Ck : forall z, 0 <= inject_Z (Z.of_nat (count z (table_J p)))) by (intro z; apply (qn_nonneg (count z (table_J p)))).
  destruct (create_table_cases p HK Hnn Hs) as [(E & Nn' & Sum' & Ln) | E]; rewrite E in *; unfold table_draw_word, table_draw; fold b.
  - set (th' := table_resid p) in *. set (aJ := fst (create_alias th')) in *. set (aq := snd (create_alias th')) in *.
    destruct (alias_law th' ltac:(lia) Nn' Sum') as (Len & SegN & _ & _ & Nz).
    destruct (alias_tables th' Nn' Sum' ltac:(lia)) as (Lq & _). cbv zeta in Lq. fold aq in Lq.
    cbv zeta in Len, SegN, Nz. fold aJ aq in Len, SegN, Nz. rewrite <- Lq in Len, SegN, Nz.
    cbn [table_mass] in Mass.
    pose proof (len_of_nonneg (Z.of_nat k) _ SegN) as L0.
    pose proof (Ck (Z.of_nat k)) as C1. pose proof (Ck (-1)%Z) as C2.
    set (len := len_of (Z.of_nat k) (alias_segs (length aq) aq aJ)) in *.
    set (ck := inject_Z (Z.of_nat (count (Z.of_nat k) (table_J p)))) in *.
    set (cr := inject_Z (Z.of_nat (count (-1) (table_J p)))) in *.
    assert (P2 : 0 <= cr / 256 * len) by (apply Qmult_le_0_compat; [apply Qle_shift_div_l; lra | assumption]).
    assert (P1 : 0 <= ck / 256) by (apply Qle_shift_div_l; lra).
    destruct (0 <=? nth b (table_J p) (-1))%Z eqn:C.
    + intro Hc. inversion Hc as [Hc'].
      pose proof (count_pos (Z.of_nat k) (table_J p) b ltac:(lia) Hc') as Hp.
      assert (1 <= ck) by (unfold ck; change 1 with (inject_Z 1); rewrite <- Zle_Qle; lia).
      assert (ck / 256 == ck * (1 # 256)) by (field). lra.
    + apply Z.leb_gt in C. assert (Hj : nth b (table_J p) (-1)%Z = (-1)%Z) by (pose proof (Bnd b); lia).
      pose proof (count_pos (-1)%Z (table_J p) b ltac:(lia) Hj) as Hp.
      assert (Hcr : 1 <= cr) by (unfold cr; change 1 with (inject_Z 1); rewrite <- Zle_Qle; lia).
      assert (Hlen : len == 0).
      { assert (X : cr / 256 * len == 0) by lra.
        assert (X2 : cr / 256 * len == (cr * (1 # 256)) * len) by field. rewrite X2 in X.
        assert (0 < cr * (1 # 256)) by lra.
        destruct (Qlt_le_dec 0 len) as [Lp|Ln0]; [|lra]. exfalso.
        assert (0 < cr * (1 # 256) * len) by (apply Qmult_lt_0_compat; assumption). lra. }
      intro Hc. inversion Hc as [Hc']. apply Nat2Z.inj in Hc'.
      set (u := inject_Z w / inject_Z (2 ^ 32)) in *.
      assert (U : 0 <= u /\ u < 1).
      { unfold u. change (inject_Z (2 ^ 32)) with 4294967296.
        assert (0 <= inject_Z w) by (change 0 with (inject_Z 0); rewrite <- Zle_Qle; lia).
        assert (inject_Z w < 4294967296) by (change 4294967296 with (inject_Z 4294967296); rewrite <- Zlt_Qlt; lia).
        split; [apply Qle_shift_div_l; lra | apply Qlt_shift_div_r; lra]. }
      apply (Nz u k (proj1 U) (proj2 U) ltac:(lia)); [|exact Hc'].
      rewrite <- (Len k ltac:(lia)). exact Hlen.
  - cbn [table_mass] in Mass. pose proof (Ck (Z.of_nat k)) as C1.
    destruct (0 <=? nth b (table_J p) (-1))%Z eqn:C; [|discriminate].
    intro Hc. inversion Hc as [Hc']. pose proof (count_pos (Z.of_nat k) (table_J p) b ltac:(lia) Hc') as Hp.
    set (ck := inject_Z (Z.of_nat (count (Z.of_nat k) (table_J p)))) in *.
    assert (1 <= ck) by (unfold ck; change 1 with (inject_Z 1); rewrite <- Zle_Qle; lia).
    assert (ck / 256 == ck * (1 # 256)) by (field). lra.
Qed.
